/-
C18 — routing is deterministic: patterns invert, ambiguity is detected.
Model: `Model/Route.lean` (the code after the three `fix:` commits F12, F12b, F12c; see fixes/*.md). Strings are their UTF-8 bytes (`List Nat`, bytes < 256).
Quantifiers: every pattern value `Pat` (scheme?, absolute, segments) subject to the stated decidable side
conditions, every parameter map, every URI `(scheme?, path)`, every byte string.
-/
import SwimVerif.Proofs.RoutePlaneMeta

set_option linter.unusedVariables false
set_option linter.unusedSimpArgs false
namespace SwimVerif.Route

/-! ## Percent codec -/

/-- `percent_decode(utf8_percent_encode(s, URL_ENCODE)) = s` for every byte string, with the encode set read from
the source (`Generated/RouteTables.lean`): the proof needs `%` to be in the set and re-checks it on every run. -/
theorem C18_pct_roundtrip (bs : Bytes) (hb : ∀ b ∈ bs, b < 256) : pctDecode (pctEncode bs) = bs :=
  pct_roundtrip bs hb

example : pctEncode [97, 32, 47, 195, 169, 126] = [97, 37, 50, 48, 37, 50, 70, 37, 67, 51, 37, 65, 57, 126] := by decide

/-! ## apply / unapply inversion -/

/-- Filling a well-formed pattern and matching the produced path against the same pattern (URI scheme = the
pattern's, or absent) returns exactly the parameter values, in pattern order. -/
theorem C18_unapply_apply (p : Pat) (m : KV) (hwf : p.rtWf = true) (hb : p.boundBy m = true) :
    ∃ path, p.apply m = .ok (schemePrefix p.scheme ++ path) ∧
      ∀ sch, sch = p.scheme ∨ sch = none →
        p.unapplyUri sch path = some (p.params.map fun n => (n, valOf m n)) :=
  ⟨p.pathOf m, unapply_apply_core p m hwf hb⟩

/-- `swim:/unit/:id/a%62` with `id = "x y/é"`. -/
def exPat : Pat :=
  ⟨some [115, 119, 105, 109], true, [.lit [117, 110, 105, 116], .param [105, 100], .lit [97, 37, 54, 50]]⟩
def exMap : KV := [([105, 100], [120, 32, 121, 47, 195, 169])]
example : exPat.rtWf = true ∧ exPat.boundBy exMap = true ∧
    (exPat.apply exMap).toOption = some [115, 119, 105, 109, 58, 47, 117, 110, 105, 116, 47, 120, 37, 50, 48, 121,
      37, 50, 70, 37, 67, 51, 37, 65, 57, 47, 97, 37, 54, 50] := by
  decide

/-! ## … and through the route string (`apply` then `unapply_str`) -/

/-- Table fact behind it, re-checked against the source on every run: every ASCII byte is either escaped by `apply`
or accepted raw by the URI parser's `is_path_char` (before the F12b fix `~` was neither). -/
theorem C18_every_byte_survives : ∀ b, b < 128 → (shouldEncode b || pathChar b) = true := all_ascii_safe

/-- For every pattern the URI parser can read back (`strWf`) and every map of non-empty strings,
`unapply_str(apply(m)) = m`. -/
theorem C18_roundtrip_str (p : Pat) (m : KV) (hwf : p.strWf = true) (hb : p.boundBy m = true) :
    ∃ route, p.apply m = .ok route ∧ p.unapplyStr route = some (p.params.map fun n => (n, valOf m n)) := by
  have hcore := unapply_apply_core p m (strWf_rtWf p hwf) hb
  refine ⟨_, hcore.1, ?_⟩
  unfold Pat.unapplyStr
  rw [parseUri_apply p m hwf hb]
  exact hcore.2 p.scheme (Or.inl rfl)

example : exPat.strWf = true := by decide

/-- Regression for F12b: `/:x` with `x = "a~b"` round-trips. -/
example : (Pat.mk none true [.param [120]]).unapplyStr [47, 97, 126, 98] = some [([120], [97, 126, 98])] := by decide

/-! ## Matching is a function of the URI; parameters are never empty -/

/-- Matching is a function of `(pattern, scheme, path)` (no hidden state) … -/
theorem C18_match_deterministic (p : Pat) (sch : Option Bytes) (path : Bytes) (r1 r2 : Option KV)
    (h1 : p.unapplyUri sch path = r1) (h2 : p.unapplyUri sch path = r2) : r1 = r2 := h1 ▸ h2

/-- … and of nothing else in the route string: two routes that parse to the same scheme and path (they may differ
in query, fragment or ignored trailing text) get the same bindings. -/
theorem C18_match_depends_on_scheme_path_only (p : Pat) (s1 s2 : Bytes) (u1 u2 : Uri)
    (h1 : parseUri s1 = some u1) (h2 : parseUri s2 = some u2) (hs : u1.scheme = u2.scheme) (hp : u1.path = u2.path) :
    p.unapplyStr s1 = p.unapplyStr s2 := by
  simp [Pat.unapplyStr, h1, h2, hs, hp]

example : parseUri [47, 97] = some ⟨none, [47, 97], none, none⟩ ∧
    parseUri [47, 97, 63, 113, 35, 102] = some ⟨none, [47, 97], some [113], some [102]⟩ := by decide

/-- A successful match never binds a parameter to the empty string. -/
theorem C18_param_nonempty (p : Pat) (sch : Option Bytes) (path : Bytes) (r : KV)
    (h : p.unapplyUri sch path = some r) : ∀ e ∈ r, e.2 ≠ [] := by
  obtain ⟨parts, hp, _⟩ := unapplyUri_parts h
  exact unapplyParts_nonempty p.segs parts [] r hp (by simp)

theorem C18_param_nonempty_str (p : Pat) (route : Bytes) (r : KV)
    (h : p.unapplyStr route = some r) : ∀ e ∈ r, e.2 ≠ [] := by
  unfold Pat.unapplyStr at h
  split at h
  · exact C18_param_nonempty p _ _ r h
  · simp at h

/-- `/a/:id` does not match `/a/` (and does match `/a/%20`). -/
example : (Pat.mk none true [.lit [97], .param [105, 100]]).unapplyUri none [47, 97, 47] = none ∧
    (Pat.mk none true [.lit [97], .param [105, 100]]).unapplyUri none [47, 97, 47, 37, 50, 48] =
      some [([105, 100], [32])] := by decide

/-! ## Every parameter gets its own binding -/

theorem one_binding_of_nodup (p : Pat) (sch : Option Bytes) (path : Bytes) (r : KV)
    (hnd : nodupB (p.params.map decodeLossy) = true) (h : p.unapplyUri sch path = some r) :
    r.length = p.params.length := by
  obtain ⟨parts, hp, _⟩ := unapplyUri_parts h
  have := unapplyParts_length p.segs parts [] r hp (nodupB_nodup _ hnd) (by simp)
  simpa [Pat.params, segParams] using this

/-- A successful match of an accepted pattern yields exactly one binding per parameter (`structOk` is what
`RoutePattern::parse` guarantees, see `C18_parse_struct`: names differ even after percent-decoding). -/
theorem C18_one_binding_per_param (p : Pat) (sch : Option Bytes) (path : Bytes) (r : KV)
    (hs : p.structOk = true) (h : p.unapplyUri sch path = some r) : r.length = p.params.length := by
  simp only [Pat.structOk, Bool.and_eq_true] at hs
  exact one_binding_of_nodup p sch path r hs.2 h

/-- Regression for F12c: `/:id/:%69d` is rejected (offset 6 = start of the second name). -/
example : (parsePattern [47, 58, 105, 100, 47, 58, 37, 54, 57, 100]).toOption = none ∧
    (match parsePattern [47, 58, 105, 100, 47, 58, 37, 54, 57, 100] with | .error n => n | .ok _ => 0) = 6 := by
  decide

example : exPat.structOk = true := by decide

/-! ## The ambiguity check is complete -/

def Pat.litsNonempty (p : Pat) : Bool := p.segs.all Seg.litNonempty     -- guaranteed by `RoutePattern::parse`

/-- Whenever one URI is matched by two patterns, `are_ambiguous` reports the pair (literals are compared
percent-decoded by both the matcher and the check). -/
theorem C18_ambiguity_complete (p q : Pat) (sch : Option Bytes) (path : Bytes) (r1 r2 : KV)
    (lp : p.litsNonempty = true) (lq : q.litsNonempty = true)
    (hp : p.unapplyUri sch path = some r1) (hq : q.unapplyUri sch path = some r2) :
    areAmbiguous p q = true := by
  simp only [Pat.litsNonempty, List.all_eq_true] at lp lq
  exact areAmbiguous_complete p q sch path r1 r2 lp lq hp hq

/-- Regression for F12: `/a%62` and `/ab` both match `/ab`, and are now reported. -/
example : (Pat.mk none true [.lit [97, 37, 54, 50]]).unapplyUri none [47, 97, 98] = some [] ∧
    (Pat.mk none true [.lit [97, 98]]).unapplyUri none [47, 97, 98] = some [] ∧
    areAmbiguous ⟨none, true, [.lit [97, 37, 54, 50]]⟩ ⟨none, true, [.lit [97, 98]]⟩ = true := by decide

/-- `/:x/b` and `/a/:y` both match `/a/b`; reported. -/
def exP : Pat := ⟨none, true, [.param [120], .lit [98]]⟩
def exQ : Pat := ⟨none, true, [.lit [97], .param [121]]⟩
example : exP.litsNonempty = true ∧
    (exP.unapplyUri none [47, 97, 47, 98]).isSome = true ∧ (exQ.unapplyUri none [47, 97, 47, 98]).isSome = true ∧
    areAmbiguous exP exQ = true := by decide

/-! ## What `RoutePattern::parse` guarantees (parser state machine ↔ segment model) -/

/-- Every accepted pattern has non-empty `/`-free literals, non-empty `/`- and `:`-free pairwise distinct
parameter names, and (when relative and scheme-less) a first literal that the URI parser cannot read as a scheme.
So the structural hypotheses of the theorems above hold for every pattern the server can be given. -/
theorem C18_parse_struct (s : Bytes) (p : Pat) (h : parsePattern s = .ok p) : p.structOk = true :=
  parsePattern_structOk s p h

theorem structOk_litsNonempty (p : Pat) (h : p.structOk = true) : p.litsNonempty = true := by
  simp only [Pat.structOk, Bool.and_eq_true, List.all_eq_true] at h
  simp only [Pat.litsNonempty, List.all_eq_true]
  intro s hs
  have := h.1.1.1 s hs
  cases s <;> simp_all [Seg.structOk, Seg.litNonempty]

theorem C18_parse_lits_nonempty (s : Bytes) (p : Pat) (h : parsePattern s = .ok p) : p.litsNonempty = true :=
  structOk_litsNonempty p (parsePattern_structOk s p h)

/-- Parsed patterns with percent-normal names and at least one segment are `rtWf`. -/
theorem C18_parse_rtWf (s : Bytes) (p : Pat) (h : parsePattern s = .ok p) (hne : p.segs ≠ [])
    (hn : ∀ n ∈ p.params, pctNormal n = true ∧ isStr n = true) : p.rtWf = true := by
  have hs := parsePattern_structOk s p h
  simp only [Pat.structOk, Bool.and_eq_true, List.all_eq_true] at hs
  simp only [Pat.rtWf, Bool.and_eq_true, List.all_eq_true, Bool.not_eq_eq_eq_not, Bool.not_true]
  refine ⟨⟨by simpa using hne, ?_⟩, hs.1.1.2⟩
  intro sg hsg
  have h1 := hs.1.1.1 sg hsg
  cases sg with
  | lit l => simp_all [Seg.structOk, Seg.rtOk]
  | param n =>
    have hin : n ∈ p.params := by
      simp only [Pat.params, List.mem_filterMap]
      exact ⟨.param n, hsg, rfl⟩
    simp [Seg.rtOk, hn n hin]

example : (parsePattern [115, 58, 47, 97, 47, 58, 105, 100]).toOption =
    some ⟨some [115], true, [.lit [97], .param [105, 100]]⟩ := by decide
example : (parsePattern [47, 58, 120, 47, 58, 120]).toOption = none ∧ (parsePattern [47, 97, 47]).toOption = none ∧
    (parsePattern []).toOption = none ∧ (parsePattern [47, 47]).toOption = none := by decide

/-! ## Parser state machine ↔ segment model (T2): `parse` and rendering are inverse -/

/-- Parsing the pattern text of a pattern value gives the value back, for every value in the image of the parser
(`renderable`: what `C18_parse_struct` guarantees, literals do not start with `:`, the scheme is a letter followed by
`:`-,`/`-free bytes, and a pattern without segments is `scheme:`). Proof: the automaton is run symbolically over the
rendering (`Proofs/RouteParse.lean`). -/
theorem C18_parse_render (p : Pat) (hr : p.renderable = true) : (parsePattern p.render).toOption = some p := by
  rw [parsePattern_render p hr]; rfl

/-- `swim:/unit/:id/a%62` is renderable, and so are a relative pattern whose first literal contains `:` after a
non-letter, and a bare scheme. -/
example : exPat.renderable = true ∧
    exPat.render = [115, 119, 105, 109, 58, 47, 117, 110, 105, 116, 47, 58, 105, 100, 47, 97, 37, 54, 50] ∧
    (Pat.mk none false [.lit [49, 58, 98], .param [120]]).renderable = true ∧
    (Pat.mk (some [97]) false []).renderable = true := by decide

/-- The side condition is needed: the value `⟨none, relative, [lit "a:b"]⟩` renders as `a:b`, which is read as
scheme `a` + literal `b`. -/
example : (Pat.mk none false [.lit [97, 58, 98]]).renderable = false ∧
    (parsePattern (Pat.mk none false [.lit [97, 58, 98]]).render).toOption = some ⟨some [97], false, [.lit [98]]⟩ := by
  decide

/-- … and in the other direction, with no side condition: the rendering of a parsed pattern is the text that was
parsed (the text consumed by the automaton is at every step the rendering of its accumulator,
`Proofs/RouteRender.lean`). In particular `parse` is injective. -/
theorem C18_render_parse (s : Bytes) (p : Pat) (h : parsePattern s = .ok p) : p.render = s :=
  render_parsePattern s p h

example : (parsePattern [97, 58, 49, 58, 47, 58, 120]).toOption = some ⟨some [97], false, [.lit [49, 58], .param [120]]⟩ ∧
    (Pat.mk (some [97]) false [.lit [49, 58], .param [120]]).render = [97, 58, 49, 58, 47, 58, 120] := by decide

/-- Two texts that parse to the same pattern value are the same text. -/
theorem C18_parse_injective (s1 s2 : Bytes) (p : Pat) (h1 : parsePattern s1 = .ok p) (h2 : parsePattern s2 = .ok p) :
    s1 = s2 := (render_parsePattern s1 p h1).symm.trans (render_parsePattern s2 p h2)

/-- The image of `RoutePattern::parse` is exactly the set of `renderable` values: `parse` and `render` are mutually
inverse bijections between accepted pattern texts and renderable pattern values (second automaton invariant,
`Proofs/RouteImage.lean`). -/
theorem C18_parse_image (p : Pat) : (∃ s, parsePattern s = .ok p) ↔ p.renderable = true := parse_image p

theorem C18_parse_renderable (s : Bytes) (p : Pat) (h : parsePattern s = .ok p) : p.renderable = true :=
  parsePattern_renderable s p h

example : (parsePattern [47, 97, 58, 98, 47, 58, 120]).toOption = some ⟨none, true, [.lit [97, 58, 98], .param [120]]⟩ ∧
    (Pat.mk none true [.lit [97, 58, 98], .param [120]]).renderable = true := by decide

/-! ## A server that accepted its routes resolves every URI to at most one agent definition -/

/-- The property at the level of the pattern *texts*: two accepted patterns that both match a route string are
reported ambiguous. -/
theorem C18_ambiguity_complete_parsed (s1 s2 route : Bytes) (p q : Pat) (r1 r2 : KV)
    (h1 : parsePattern s1 = .ok p) (h2 : parsePattern s2 = .ok q)
    (hp : p.unapplyStr route = some r1) (hq : q.unapplyStr route = some r2) : areAmbiguous p q = true := by
  unfold Pat.unapplyStr at hp hq
  cases hu : parseUri route with
  | none => simp [hu] at hp
  | some u =>
    simp only [hu] at hp hq
    exact C18_ambiguity_complete p q u.scheme u.path r1 r2 (C18_parse_lits_nonempty s1 p h1)
      (C18_parse_lits_nonempty s2 q h2) hp hq

/-- If `PlaneBuilder::build` accepts the routes (no pair `i < j` ambiguous) then no URI is matched by two of them. -/
theorem C18_route_unique (ps : List Pat) (hb : buildOk ps = true)
    (hwf : ∀ p ∈ ps, p.litsNonempty = true) (sch : Option Bytes) (path : Bytes)
    (i j : Nat) (p q : Pat) (hi : ps[i]? = some p) (hj : ps[j]? = some q) (hij : i ≠ j) (r : KV)
    (hp : p.unapplyUri sch path = some r) : q.unapplyUri sch path = none := by
  have hpw := List.pairwise_iff_getElem.mp (buildOk_pairwise ps hb)
  obtain ⟨hil, hpi⟩ := List.getElem?_eq_some_iff.mp hi
  obtain ⟨hjl, hqj⟩ := List.getElem?_eq_some_iff.mp hj
  have hpm : p ∈ ps := hpi ▸ List.getElem_mem hil
  have hqm : q ∈ ps := hqj ▸ List.getElem_mem hjl
  cases hq : q.unapplyUri sch path with
  | none => rfl
  | some r2 =>
    exfalso
    rcases Nat.lt_or_gt_of_ne hij with hlt | hgt
    · have h1 := hpw i j hil hjl hlt
      rw [hpi, hqj] at h1
      have h2 := C18_ambiguity_complete p q sch path r r2 (hwf p hpm) (hwf q hqm) hp hq
      simp [h1] at h2
    · have h1 := hpw j i hjl hil hgt
      rw [hpi, hqj] at h1
      have h2 := C18_ambiguity_complete q p sch path r2 r (hwf q hqm) (hwf p hpm) hq hp
      simp [h1] at h2

/-- So `Routes::find_route` (first match) returns *the* match. -/
theorem C18_find_route_is_the_match (ps : List Pat) (hb : buildOk ps = true)
    (hwf : ∀ p ∈ ps, p.litsNonempty = true) (sch : Option Bytes) (path : Bytes)
    (i : Nat) (kv : KV) (h : findRoute ps sch path = some (i, kv)) :
    ∀ j q, ps[j]? = some q → j ≠ i → q.unapplyUri sch path = none := by
  obtain ⟨p, hp, hm⟩ := findRoute_some ps sch path i kv h
  intro j q hq hji
  exact C18_route_unique ps hb hwf sch path i j p q hp hq (fun e => hji e.symm) kv hm

/-- Regression for F12 at plane level: `[/a%62, /ab]` is rejected by `build`. -/
example : buildOk [⟨none, true, [.lit [97, 37, 54, 50]]⟩, ⟨none, true, [.lit [97, 98]]⟩] = false := by decide

example : buildOk [exP, exQ] = false ∧ buildOk [exP, ⟨none, true, [.lit [97], .lit [99]]⟩] = true ∧
    findRoute [exP, ⟨none, true, [.lit [97], .lit [99]]⟩] none [47, 97, 47, 99] = some (1, []) := by decide

/-! ## … stated for the tables a server can actually be given (no side condition)

`RoutePattern` has private fields and `parse` is its only constructor, so the table handed to
`PlaneBuilder::build` is a list of parsed patterns (`Registered`). -/

/-- FULL STATEMENT. For every table of registered patterns that `PlaneBuilder::build` accepts and every URI
`(scheme, path)`, at most one entry matches. -/
theorem C18_plane_at_most_one (ps : List Pat) (hreg : Registered ps) (hb : buildOk ps = true)
    (sch : Option Bytes) (path : Bytes) : ps.countP (fun p => (p.unapplyUri sch path).isSome) ≤ 1 :=
  count_matches_le_one ps hb (registered_litNonempty ps hreg) sch path

/-- The same for every route *string* (through the modelled `RouteUri` parser, `unapply_str`). -/
theorem C18_plane_at_most_one_str (ps : List Pat) (hreg : Registered ps) (hb : buildOk ps = true)
    (route : Bytes) : ps.countP (fun p => (p.unapplyStr route).isSome) ≤ 1 :=
  count_matches_str_le_one ps hb (registered_litNonempty ps hreg) route

/-- Starting from the pattern *texts*: if they all parse and `build` accepts, every route string is matched by at
most one of them. -/
theorem C18_plane_at_most_one_texts (texts : List Bytes) (ps : List Pat) (hp : parseAll texts = some ps)
    (hb : buildOk ps = true) (route : Bytes) : ps.countP (fun p => (p.unapplyStr route).isSome) ≤ 1 :=
  C18_plane_at_most_one_str ps (parseAll_registered texts ps hp) hb route

/-- Index form, and `find_route`: in an accepted table of registered patterns the first match is the only match. -/
theorem C18_route_unique_registered (ps : List Pat) (hreg : Registered ps) (hb : buildOk ps = true)
    (sch : Option Bytes) (path : Bytes) (i j : Nat) (p q : Pat) (hi : ps[i]? = some p) (hj : ps[j]? = some q)
    (hij : i ≠ j) (r : KV) (hp : p.unapplyUri sch path = some r) : q.unapplyUri sch path = none :=
  C18_route_unique ps hb
    (fun p hp => by
      simp only [Pat.litsNonempty, List.all_eq_true]; exact registered_litNonempty ps hreg p hp)
    sch path i j p q hi hj hij r hp

theorem C18_find_route_is_the_match_registered (ps : List Pat) (hreg : Registered ps) (hb : buildOk ps = true)
    (sch : Option Bytes) (path : Bytes) (i : Nat) (kv : KV) (h : findRoute ps sch path = some (i, kv)) :
    ∀ j q, ps[j]? = some q → j ≠ i → q.unapplyUri sch path = none :=
  C18_find_route_is_the_match ps hb
    (fun p hp => by
      simp only [Pat.litsNonempty, List.all_eq_true]; exact registered_litNonempty ps hreg p hp)
    sch path i kv h

/-- `Registered` is decidable: it is `renderable` entry by entry (`C18_parse_image`). -/
theorem C18_registered_iff (ps : List Pat) : Registered ps ↔ ∀ p ∈ ps, p.renderable = true :=
  ⟨fun h p hp => (parse_image p).mp (h p hp), fun h p hp => (parse_image p).mpr (h p hp)⟩

/-- Non-vacuity: `["/:x/b", "/a/c", "swim:/a/:y/z"]` parses, is accepted, and `/a/c` resolves to entry 1 only. -/
def exTexts : List Bytes :=
  [[47, 58, 120, 47, 98], [47, 97, 47, 99], [115, 119, 105, 109, 58, 47, 97, 47, 58, 121, 47, 122]]
def exTable : List Pat :=
  [⟨none, true, [.param [120], .lit [98]]⟩, ⟨none, true, [.lit [97], .lit [99]]⟩,
   ⟨some [115, 119, 105, 109], true, [.lit [97], .param [121], .lit [122]]⟩]
example : parseAll exTexts = some exTable ∧ buildOk exTable = true ∧
    exTable.countP (fun p => (p.unapplyStr [47, 97, 47, 99]).isSome) = 1 ∧
    findRoute exTable none [47, 97, 47, 99] = some (1, []) := by decide

/-- The side condition of `C18_route_unique` is needed for raw `Pat` values (and only for those): with an empty
literal, an absolute and a relative pattern of different lengths both match `/`, and `are_ambiguous` (which compares
lengths) says no. Such values are not in the image of `parse`. -/
example : buildOk [⟨none, true, [.lit []]⟩, ⟨none, false, [.lit [], .lit []]⟩] = true ∧
    ((Pat.mk none true [.lit []]).unapplyUri none [47]).isSome = true ∧
    ((Pat.mk none false [.lit [], .lit []]).unapplyUri none [47]).isSome = true ∧
    (Pat.mk none true [.lit []]).renderable = false := by decide

/-! ## … and for a server with introspection (`ServerBuilder::build` + `register_introspection`)

With `enable_introspection` the server's table is the plane's routes followed by the meta-agent routes
(`Generated/MetaRoutes.lean`: texts and registration order read from `swimos_introspection`), and `build` also runs
`PlaneModel::check_meta_collisions`, which compares every user route with the mesh, node and lane meta patterns
(the mesh pattern since `fix:` F12d, see fixes/F12d.md). -/

/-- The three constants parse (so `mesh_pattern()` … never panic) to these values. -/
theorem C18_meta_patterns_parse :
    parsePattern Generated.meshPatternText = .ok metaMesh ∧ parsePattern Generated.nodePatternText = .ok metaNode ∧
    parsePattern Generated.lanePatternText = .ok metaLane ∧ metaRows = [metaMesh, metaNode, metaLane] :=
  ⟨metaMesh_parsed, metaNode_parsed, metaLane_parsed, metaRows_eq⟩

/-- `are_ambiguous` is symmetric (the code calls it as `(meta, route)` here and as `(earlier, later)` in `build`). -/
theorem C18_ambiguous_symmetric (p q : Pat) : areAmbiguous p q = areAmbiguous q p := areAmbiguous_comm p q

/-- The report of `PlaneBuilder::build` (`AmbiguousRoutes::Overlapping`) is empty exactly when no pair `i < j` is
ambiguous: the model with the error list and the Boolean model of the earlier theorems are the same acceptance test. -/
theorem C18_build_report_empty_iff (ps : List Pat) : buildBad ps = [] ↔ buildOk ps = true := buildBad_nil_iff ps

/-- `check_meta_collisions` answers `Ok(())` exactly when no route is ambiguous with the mesh, node or lane pattern. -/
theorem C18_check_meta_ok_iff (ps : List Pat) :
    checkMeta ps = none ↔ ∀ p ∈ ps, areAmbiguous metaMesh p = false ∧ areAmbiguous metaNode p = false ∧
      areAmbiguous metaLane p = false :=
  checkMeta_none_iff ps

/-- FULL STATEMENT for the checked meta routes. For every table of registered patterns that `build` accepts WITH
introspection (`PlaneBuilder::build` and `check_meta_collisions` both succeed) and every URI, at most one row of
`user routes ++ [node meta, lane meta]` matches. -/
theorem C18_plane_with_meta_at_most_one (ps : List Pat) (hreg : Registered ps) (hb : buildOk ps = true)
    (hm : checkMeta ps = none) (sch : Option Bytes) (path : Bytes) :
    (ps ++ [metaNode, metaLane]).countP (fun p => (p.unapplyUri sch path).isSome) ≤ 1 :=
  C18_plane_at_most_one _ (registered_append ps _ hreg registered_meta) (buildOk_with_meta ps hb hm) sch path

/-- Hence: no URI is matched both by a user route and by the node or lane meta-agent pattern … -/
theorem C18_plane_with_meta_disjoint (ps : List Pat) (hreg : Registered ps) (hb : buildOk ps = true)
    (hm : checkMeta ps = none) (sch : Option Bytes) (path : Bytes) (p : Pat) (hp : p ∈ ps)
    (hmatch : (p.unapplyUri sch path).isSome = true) :
    metaNode.unapplyUri sch path = none ∧ metaLane.unapplyUri sch path = none := by
  have h := C18_plane_with_meta_at_most_one ps hreg hb hm sch path
  rw [List.countP_append] at h
  have h1 : 0 < ps.countP (fun p => (p.unapplyUri sch path).isSome) := List.countP_pos_iff.mpr ⟨p, hp, hmatch⟩
  have h2 : [metaNode, metaLane].countP (fun p => (p.unapplyUri sch path).isSome) = 0 := by omega
  rw [List.countP_eq_zero] at h2
  have hn := h2 metaNode (by simp)
  have hl := h2 metaLane (by simp)
  constructor
  · cases h : metaNode.unapplyUri sch path <;> simp_all
  · cases h : metaLane.unapplyUri sch path <;> simp_all

/-- … and the user-route uniqueness still holds. -/
theorem C18_plane_with_meta_user_unique (ps : List Pat) (hreg : Registered ps) (hb : buildOk ps = true)
    (hm : checkMeta ps = none) (sch : Option Bytes) (path : Bytes) :
    ps.countP (fun p => (p.unapplyUri sch path).isSome) ≤ 1 := by
  have h := C18_plane_with_meta_at_most_one ps hreg hb hm sch path
  rw [List.countP_append] at h
  omega

/-- The same for every route *string* (`RouteUri::from_str` then `find_route`). -/
theorem C18_plane_with_meta_at_most_one_str (ps : List Pat) (hreg : Registered ps) (hb : buildOk ps = true)
    (hm : checkMeta ps = none) (route : Bytes) :
    (ps ++ [metaNode, metaLane]).countP (fun p => (p.unapplyStr route).isSome) ≤ 1 :=
  C18_plane_at_most_one_str _ (registered_append ps _ hreg registered_meta) (buildOk_with_meta ps hb hm) route

/-- `find_route` over `user routes ++ [node meta, lane meta]`: the first match is the only match. -/
theorem C18_find_route_with_meta_is_the_match (ps : List Pat) (hreg : Registered ps) (hb : buildOk ps = true)
    (hm : checkMeta ps = none) (sch : Option Bytes) (path : Bytes) (i : Nat) (kv : KV)
    (h : findRoute (ps ++ [metaNode, metaLane]) sch path = some (i, kv)) :
    ∀ j q, (ps ++ [metaNode, metaLane])[j]? = some q → j ≠ i → q.unapplyUri sch path = none :=
  C18_find_route_is_the_match_registered _ (registered_append ps _ hreg registered_meta)
    (buildOk_with_meta ps hb hm) sch path i kv h

/-- Non-vacuity: `["/unit/:id", "swimos:meta:host/:h"]` is accepted with introspection; `:a/:b/lane/:c` (the
seeded-mutation witness) and `:a/:b` are refused by `check_meta_collisions`, with the meta route that collides. -/
def exIntroTable : List Pat :=
  [⟨none, true, [.lit [117, 110, 105, 116], .param [105, 100]]⟩,
   ⟨some [115, 119, 105, 109, 111, 115], false, [.lit [109, 101, 116, 97, 58, 104, 111, 115, 116], .param [104]]⟩]
example : buildOk exIntroTable = true ∧ checkMeta exIntroTable = none ∧
    (∀ p ∈ exIntroTable, p.renderable = true) ∧
    checkMeta [⟨none, false, [.param [97], .param [98], .lit [108, 97, 110, 101], .param [99]]⟩] =
      some ([Generated.lanePatternText], [0]) ∧
    checkMeta (exIntroTable ++ [⟨none, false, [.param [97], .param [98]]⟩]) =
      some ([Generated.nodePatternText], [2]) ∧
    buildBad [exP, exQ, ⟨none, true, [.lit [97], .lit [99]]⟩] = [0, 1, 2] ∧
    buildBad [exP, ⟨none, true, [.lit [97], .lit [99], .lit [100]]⟩, exQ] = [0, 2] := by decide

/-! ### the table the server really uses: `user routes ++ [mesh, node, lane]` (F12d repaired)

`register_introspection` appends **three** routes — `swimos:meta:mesh` first. Before `fix:` F12d
`check_meta_collisions` looked at two of them and this statement was false (witness `["swimos::x"]`,
`swimos:meta:mesh`; kept as a regression below and in `corpus/C18/plane-random-F12d.ops`). -/

/-- FULL STATEMENT. Accepted with introspection ⇒ at most one row of the server's table matches any URI. -/
theorem C18_plane_with_introspection_at_most_one (ps : List Pat) (hreg : Registered ps)
    (ha : acceptPlane true ps = true) (sch : Option Bytes) (path : Bytes) :
    (serverRows true ps).countP (fun p => (p.unapplyUri sch path).isSome) ≤ 1 := by
  simp only [acceptPlane, Bool.not_true, Bool.false_or, Bool.and_eq_true, List.isEmpty_iff,
    Option.isNone_iff_eq_none] at ha
  have hb := (buildBad_nil_iff ps).mp ha.1
  simp only [serverRows, ↓reduceIte]
  exact C18_plane_at_most_one _ (registered_append ps _ hreg registered_metaRows)
    (buildOk_with_all_meta ps hb ha.2) sch path

/-- … so `find_route` on the server's table returns the only match, user route or meta-agent route. -/
theorem C18_find_route_with_introspection_is_the_match (ps : List Pat) (hreg : Registered ps)
    (ha : acceptPlane true ps = true) (sch : Option Bytes) (path : Bytes) (i : Nat) (kv : KV)
    (h : findRoute (serverRows true ps) sch path = some (i, kv)) :
    ∀ j q, (serverRows true ps)[j]? = some q → j ≠ i → q.unapplyUri sch path = none := by
  simp only [acceptPlane, Bool.not_true, Bool.false_or, Bool.and_eq_true, List.isEmpty_iff,
    Option.isNone_iff_eq_none] at ha
  have hb := (buildBad_nil_iff ps).mp ha.1
  simp only [serverRows, ↓reduceIte] at h ⊢
  exact C18_find_route_is_the_match_registered _ (registered_append ps _ hreg registered_metaRows)
    (buildOk_with_all_meta ps hb ha.2) sch path i kv h

/-- `swimos::x` (scheme `swimos`, one parameter): parses. -/
def exMeshClash : Pat := ⟨some [115, 119, 105, 109, 111, 115], false, [.param [120]]⟩

/-- Regression for F12d: the plane `["swimos::x"]` (which matches `swimos:meta:mesh`, as the mesh meta route does) is
refused with introspection, naming the mesh route, and accepted without; non-vacuity of the theorem above:
`exIntroTable` is accepted and `swimos:meta:mesh` resolves to row 2, the mesh meta route, only. -/
example : exMeshClash.renderable = true ∧ acceptPlane true [exMeshClash] = false ∧ acceptPlane false [exMeshClash] = true ∧
    checkMeta [exMeshClash] = some ([Generated.meshPatternText], [0]) ∧
    ((exMeshClash.unapplyUri (some [115, 119, 105, 109, 111, 115]) [109, 101, 116, 97, 58, 109, 101, 115, 104]).isSome = true) ∧
    acceptPlane true exIntroTable = true ∧
    findRoute (serverRows true exIntroTable) (some [115, 119, 105, 109, 111, 115]) [109, 101, 116, 97, 58, 109, 101, 115, 104] =
      some (2, []) ∧
    matchingRows 0 (some [115, 119, 105, 109, 111, 115]) [109, 101, 116, 97, 58, 109, 101, 115, 104]
      (serverRows true exIntroTable) = [2] := by decide

/-- Without introspection the server's table is the plane's table (the earlier theorems apply as they are). -/
theorem C18_server_rows_without_introspection (ps : List Pat) (hreg : Registered ps)
    (ha : acceptPlane false ps = true) (sch : Option Bytes) (path : Bytes) :
    (serverRows false ps).countP (fun p => (p.unapplyUri sch path).isSome) ≤ 1 := by
  simp only [acceptPlane, Bool.not_false, Bool.true_or, Bool.and_true, List.isEmpty_iff] at ha
  exact C18_plane_at_most_one ps hreg ((buildBad_nil_iff ps).mp ha) sch path

/-- The `all` column of the `find` op is the list the `countP` statements count. -/
theorem C18_matching_rows_count (sch : Option Bytes) (path : Bytes) (ps : List Pat) :
    (matchingRows 0 sch path ps).length = ps.countP (fun p => (p.unapplyUri sch path).isSome) :=
  matchingRows_length 0 sch path ps

end SwimVerif.Route
