/-
C18 — routing is deterministic: patterns invert, ambiguity is detected.
Model: `Model/Route.lean` (the code as it is today). Strings are their UTF-8 bytes (`List Nat`, bytes < 256).
Quantifiers: every pattern value `Pat` (scheme?, absolute, segments) subject to the stated decidable side
conditions, every parameter map, every URI `(scheme?, path)`, every byte string.
-/
import SwimVerif.Proofs.Route

set_option linter.unusedVariables false
set_option linter.unusedSimpArgs false
namespace SwimVerif.Route

/-! ## Percent codec -/

/-- `percent_decode(utf8_percent_encode(s, URL_ENCODE)) = s` for every byte string, with the encode set read from
the source (`Generated/RouteTables.lean`): the proof needs `%` to be in the set and re-checks it on every run. -/
theorem C18_pct_roundtrip (bs : Bytes) (hb : ∀ b ∈ bs, b < 256) : pctDecode (pctEncode bs) = bs :=
  pct_roundtrip bs hb

example : pctEncode [97, 32, 47, 195, 169, 126] = [97, 37, 50, 48, 37, 50, 70, 37, 67, 51, 37, 65, 57, 126] := by decide

/-! ## apply / unapply inversion -/

/-- Filling a well-formed pattern and matching the produced path against the same pattern (URI scheme = the
pattern's, or absent) returns exactly the parameter values, in pattern order. -/
theorem C18_unapply_apply (p : Pat) (m : KV) (hwf : p.rtWf = true) (hb : p.boundBy m = true) :
    ∃ path, p.apply m = .ok (schemePrefix p.scheme ++ path) ∧
      ∀ sch, sch = p.scheme ∨ sch = none →
        p.unapplyUri sch path = some (p.params.map fun n => (n, valOf m n)) :=
  ⟨p.pathOf m, unapply_apply_core p m hwf hb⟩

/-- `swim:/unit/:id/a%62` with `id = "x y/é"`. -/
def exPat : Pat :=
  ⟨some [115, 119, 105, 109], true, [.lit [117, 110, 105, 116], .param [105, 100], .lit [97, 37, 54, 50]]⟩
def exMap : KV := [([105, 100], [120, 32, 121, 47, 195, 169])]
example : exPat.rtWf = true ∧ exPat.boundBy exMap = true ∧
    (exPat.apply exMap).toOption = some [115, 119, 105, 109, 58, 47, 117, 110, 105, 116, 47, 120, 37, 50, 48, 121,
      37, 50, 70, 37, 67, 51, 37, 65, 57, 47, 97, 37, 54, 50] := by
  decide

/-! ## … and through the route string (`apply` then `unapply_str`) -/

/-- Full statement: for every pattern the URI parser can read back (`strWf`) and every map of non-empty strings,
`unapply_str(apply(m)) = m`. **False of the current code** (F12b): see `C18_roundtrip_str_fails`. -/
def C18_roundtrip_str : Prop :=
  ∀ (p : Pat) (m : KV), p.strWf = true → p.boundBy m = true →
    ∃ route, p.apply m = .ok route ∧ p.unapplyStr route = some (p.params.map fun n => (n, valOf m n))

/-- F12b: `/:x` with `x = "a~b"` gives the route `/a~b`, which `RouteUri::from_str` reads as the path `/a`
(`~` is not a path character and unparsed trailing input is ignored): the match binds `x = "a"`. -/
theorem C18_roundtrip_str_fails : ¬ C18_roundtrip_str := by
  intro h
  obtain ⟨route, h1, h2⟩ := h ⟨none, true, [.param [120]]⟩ [([120], [97, 126, 98])] (by decide) (by decide)
  have hr : route = [47, 97, 126, 98] := by
    have : (Pat.apply ⟨none, true, [.param [120]]⟩ [([120], [97, 126, 98])]).toOption = some [47, 97, 126, 98] := by
      decide
    rw [h1] at this
    simpa [Except.toOption] using this
  subst hr
  exact absurd h2 (by decide)

/-- The table fact behind it, re-checked against the source on every run: `~` is the only ASCII byte that `apply`
leaves unescaped and the URI parser does not accept in a path. -/
theorem C18_only_tilde_unsafe : ∀ b, b < 128 → ((shouldEncode b || pathChar b) = false ↔ b = 126) := by decide

/-- What holds today: the round trip through the string is exact when no parameter value contains such a byte. -/
theorem C18_roundtrip_str_partial (p : Pat) (m : KV) (hwf : p.strWf = true) (hb : p.boundBy m = true)
    (hsafe : p.safeIn m = true) :
    ∃ route, p.apply m = .ok route ∧ p.unapplyStr route = some (p.params.map fun n => (n, valOf m n)) := by
  have hcore := unapply_apply_core p m (strWf_rtWf p hwf) hb
  refine ⟨_, hcore.1, ?_⟩
  unfold Pat.unapplyStr
  rw [parseUri_apply p m hwf hb hsafe]
  exact hcore.2 p.scheme (Or.inl rfl)

example : exPat.strWf = true ∧ exPat.safeIn exMap = true := by decide

/-! ## Matching is a function of the URI; parameters are never empty -/

/-- Matching is a function of `(pattern, scheme, path)` (no hidden state) … -/
theorem C18_match_deterministic (p : Pat) (sch : Option Bytes) (path : Bytes) (r1 r2 : Option KV)
    (h1 : p.unapplyUri sch path = r1) (h2 : p.unapplyUri sch path = r2) : r1 = r2 := h1 ▸ h2

/-- … and of nothing else in the route string: two routes that parse to the same scheme and path (they may differ
in query, fragment or ignored trailing text) get the same bindings. -/
theorem C18_match_depends_on_scheme_path_only (p : Pat) (s1 s2 : Bytes) (u1 u2 : Uri)
    (h1 : parseUri s1 = some u1) (h2 : parseUri s2 = some u2) (hs : u1.scheme = u2.scheme) (hp : u1.path = u2.path) :
    p.unapplyStr s1 = p.unapplyStr s2 := by
  simp [Pat.unapplyStr, h1, h2, hs, hp]

example : parseUri [47, 97] = some ⟨none, [47, 97], none, none⟩ ∧
    parseUri [47, 97, 63, 113, 35, 102] = some ⟨none, [47, 97], some [113], some [102]⟩ := by decide

/-- A successful match never binds a parameter to the empty string. -/
theorem C18_param_nonempty (p : Pat) (sch : Option Bytes) (path : Bytes) (r : KV)
    (h : p.unapplyUri sch path = some r) : ∀ e ∈ r, e.2 ≠ [] := by
  obtain ⟨parts, hp, _⟩ := unapplyUri_parts h
  exact unapplyParts_nonempty p.segs parts [] r hp (by simp)

theorem C18_param_nonempty_str (p : Pat) (route : Bytes) (r : KV)
    (h : p.unapplyStr route = some r) : ∀ e ∈ r, e.2 ≠ [] := by
  unfold Pat.unapplyStr at h
  split at h
  · exact C18_param_nonempty p _ _ r h
  · simp at h

/-- `/a/:id` does not match `/a/` (and does match `/a/%20`). -/
example : (Pat.mk none true [.lit [97], .param [105, 100]]).unapplyUri none [47, 97, 47] = none ∧
    (Pat.mk none true [.lit [97], .param [105, 100]]).unapplyUri none [47, 97, 47, 37, 50, 48] =
      some [([105, 100], [32])] := by decide

/-! ## Every parameter gets its own binding -/

/-- Full statement: a successful match of an accepted pattern yields one binding per parameter.
**False of the current code** (F12c): see `C18_one_binding_per_param_fails`. -/
def C18_one_binding_per_param : Prop :=
  ∀ (p : Pat) (sch : Option Bytes) (path : Bytes) (r : KV), p.structOk = true →
    p.unapplyUri sch path = some r → r.length = p.params.length

/-- F12c: `/:id/:%69d` is accepted (`parse` compares the raw names) but `unapply` keys the result by the decoded
names, so `/a/b` yields the single binding `id = "b"`; the value of the first parameter is lost. -/
theorem C18_one_binding_per_param_fails : ¬ C18_one_binding_per_param := by
  intro h
  have := h ⟨none, true, [.param [105, 100], .param [37, 54, 57, 100]]⟩ none [47, 97, 47, 98] [([105, 100], [98])]
    (by decide) (by decide)
  exact absurd this (by decide)

example : (parsePattern [47, 58, 105, 100, 47, 58, 37, 54, 57, 100]).toOption =
    some ⟨none, true, [.param [105, 100], .param [37, 54, 57, 100]]⟩ := by decide

/-- What holds today: one binding per parameter when the *decoded* names are pairwise different (in particular
when no name contains a percent escape). -/
theorem C18_one_binding_per_param_partial (p : Pat) (sch : Option Bytes) (path : Bytes) (r : KV)
    (hnd : nodupB (p.params.map decodeLossy) = true) (h : p.unapplyUri sch path = some r) :
    r.length = p.params.length := by
  obtain ⟨parts, hp, _⟩ := unapplyUri_parts h
  have := unapplyParts_length p.segs parts [] r hp (nodupB_nodup _ hnd) (by simp)
  simpa [Pat.params, segParams] using this

example : nodupB (exPat.params.map decodeLossy) = true := by decide

/-! ## The ambiguity check is complete -/

def Pat.litsNonempty (p : Pat) : Bool := p.segs.all Seg.litNonempty     -- guaranteed by `RoutePattern::parse`
def Pat.litsNormal (p : Pat) : Bool := p.segs.all Seg.litNormal         -- no `%XX` escape inside a literal

/-- The full statement: whenever one URI is matched by two patterns, `are_ambiguous` reports the pair.
**False of the current code** (F12): see `C18_ambiguity_complete_fails`. -/
def C18_ambiguity_complete : Prop :=
  ∀ (p q : Pat) (sch : Option Bytes) (path : Bytes) (r1 r2 : KV),
    p.litsNonempty = true → q.litsNonempty = true →
    p.unapplyUri sch path = some r1 → q.unapplyUri sch path = some r2 → areAmbiguous p q = true

/-- F12: `/a%62` and `/ab` both match `/ab`, and `are_ambiguous` says no — it compares the raw literal text while
matching compares percent-decoded text. -/
theorem C18_ambiguity_complete_fails : ¬ C18_ambiguity_complete := by
  intro h
  have := h ⟨none, true, [.lit [97, 37, 54, 50]]⟩ ⟨none, true, [.lit [97, 98]]⟩ none [47, 97, 98] [] []
    (by decide) (by decide) (by decide) (by decide)
  exact absurd this (by decide)

/-- The witness at the level of the pattern text. -/
example : (parsePattern [47, 97, 37, 54, 50]).toOption = some ⟨none, true, [.lit [97, 37, 54, 50]]⟩ ∧
    (parsePattern [47, 97, 98]).toOption = some ⟨none, true, [.lit [97, 98]]⟩ := by decide

/-- What holds today: the check is complete for patterns whose literals contain no percent escape. -/
theorem C18_ambiguity_complete_partial (p q : Pat) (sch : Option Bytes) (path : Bytes) (r1 r2 : KV)
    (lp : p.litsNonempty = true) (lq : q.litsNonempty = true)
    (np : p.litsNormal = true) (nq : q.litsNormal = true)
    (hp : p.unapplyUri sch path = some r1) (hq : q.unapplyUri sch path = some r2) :
    areAmbiguous p q = true := by
  simp only [Pat.litsNonempty, Pat.litsNormal, List.all_eq_true] at lp lq np nq
  unfold areAmbiguous
  rw [ambSegs_eq_dec _ _ np nq]
  exact areAmbiguousDec_complete p q sch path r1 r2 lp lq hp hq

/-- With the comparison of `fixes/F12.patch` (percent-decoded literals) the check is complete without that
restriction. -/
theorem C18_ambiguity_complete_decoded (p q : Pat) (sch : Option Bytes) (path : Bytes) (r1 r2 : KV)
    (lp : p.litsNonempty = true) (lq : q.litsNonempty = true)
    (hp : p.unapplyUri sch path = some r1) (hq : q.unapplyUri sch path = some r2) :
    areAmbiguousDec p q = true := by
  simp only [Pat.litsNonempty, List.all_eq_true] at lp lq
  exact areAmbiguousDec_complete p q sch path r1 r2 lp lq hp hq

/-- `/:x/b` and `/a/:y` both match `/a/b`; reported. -/
def exP : Pat := ⟨none, true, [.param [120], .lit [98]]⟩
def exQ : Pat := ⟨none, true, [.lit [97], .param [121]]⟩
example : exP.litsNonempty = true ∧ exP.litsNormal = true ∧ exQ.litsNormal = true ∧
    (exP.unapplyUri none [47, 97, 47, 98]).isSome = true ∧ (exQ.unapplyUri none [47, 97, 47, 98]).isSome = true ∧
    areAmbiguous exP exQ = true := by decide

/-! ## What `RoutePattern::parse` guarantees (parser state machine ↔ segment model) -/

/-- Every accepted pattern has non-empty `/`-free literals, non-empty `/`- and `:`-free pairwise distinct
parameter names, and (when relative and scheme-less) a first literal that the URI parser cannot read as a scheme.
So the structural hypotheses of the theorems above hold for every pattern the server can be given. -/
theorem C18_parse_struct (s : Bytes) (p : Pat) (h : parsePattern s = .ok p) : p.structOk = true :=
  parsePattern_structOk s p h

theorem structOk_litsNonempty (p : Pat) (h : p.structOk = true) : p.litsNonempty = true := by
  simp only [Pat.structOk, Bool.and_eq_true, List.all_eq_true] at h
  simp only [Pat.litsNonempty, List.all_eq_true]
  intro s hs
  have := h.1.1 s hs
  cases s <;> simp_all [Seg.structOk, Seg.litNonempty]

theorem C18_parse_lits_nonempty (s : Bytes) (p : Pat) (h : parsePattern s = .ok p) : p.litsNonempty = true :=
  structOk_litsNonempty p (parsePattern_structOk s p h)

/-- Parsed patterns with percent-normal names and at least one segment are `rtWf`. -/
theorem C18_parse_rtWf (s : Bytes) (p : Pat) (h : parsePattern s = .ok p) (hne : p.segs ≠ [])
    (hn : ∀ n ∈ p.params, pctNormal n = true ∧ isStr n = true) : p.rtWf = true := by
  have hs := parsePattern_structOk s p h
  simp only [Pat.structOk, Bool.and_eq_true, List.all_eq_true] at hs
  simp only [Pat.rtWf, Bool.and_eq_true, List.all_eq_true, Bool.not_eq_eq_eq_not, Bool.not_true]
  refine ⟨⟨by simpa using hne, ?_⟩, hs.1.2⟩
  intro sg hsg
  have h1 := hs.1.1 sg hsg
  cases sg with
  | lit l => simp_all [Seg.structOk, Seg.rtOk]
  | param n =>
    have hin : n ∈ p.params := by
      simp only [Pat.params, List.mem_filterMap]
      exact ⟨.param n, hsg, rfl⟩
    simp [Seg.rtOk, hn n hin]

example : (parsePattern [115, 58, 47, 97, 47, 58, 105, 100]).toOption =
    some ⟨some [115], true, [.lit [97], .param [105, 100]]⟩ := by decide
example : (parsePattern [47, 58, 120, 47, 58, 120]).toOption = none ∧ (parsePattern [47, 97, 47]).toOption = none ∧
    (parsePattern []).toOption = none ∧ (parsePattern [47, 47]).toOption = none := by decide

/-- OPEN (T2, not proved; no counterexample among 606 enumerated small patterns): the parser state machine is the
inverse of rendering a pattern value as text … -/
def C18_parse_render_open : Prop :=
  ∀ (p : Pat), p.renderable = true → (parsePattern p.render).toOption = some p

/-- … in both directions. -/
def C18_render_parse_open : Prop :=
  ∀ (s : Bytes) (p : Pat), parsePattern s = .ok p → p.render = s

/-! ## A server that accepted its routes resolves every URI to at most one agent definition -/

/-- Full statement: if `PlaneBuilder::build` accepts the routes then no URI is matched by two of them.
**False of the current code** (F12). -/
def C18_route_unique : Prop :=
  ∀ (ps : List Pat), buildOk ps = true → (∀ p ∈ ps, p.litsNonempty = true) →
    ∀ (sch : Option Bytes) (path : Bytes) (i j : Nat) (p q : Pat), ps[i]? = some p → ps[j]? = some q → i ≠ j →
      ∀ r, p.unapplyUri sch path = some r → q.unapplyUri sch path = none

theorem C18_route_unique_fails : ¬ C18_route_unique := by
  intro h
  have := h [⟨none, true, [.lit [97, 37, 54, 50]]⟩, ⟨none, true, [.lit [97, 98]]⟩] (by decide) (by decide)
    none [47, 97, 98] 0 1 _ _ rfl rfl (by decide) [] (by decide)
  exact absurd this (by decide)

/-- What holds today: with escape-free literals, an accepted route table matches every URI with at most one
pattern, so `Routes::find_route` (first match) is *the* match. -/
theorem C18_route_unique_partial (ps : List Pat) (hb : buildOk ps = true)
    (hwf : ∀ p ∈ ps, p.litsNonempty = true ∧ p.litsNormal = true) (sch : Option Bytes) (path : Bytes)
    (i j : Nat) (p q : Pat) (hi : ps[i]? = some p) (hj : ps[j]? = some q) (hij : i ≠ j) (r : KV)
    (hp : p.unapplyUri sch path = some r) : q.unapplyUri sch path = none := by
  have hpw := List.pairwise_iff_getElem.mp (buildOk_pairwise ps hb)
  obtain ⟨hil, hpi⟩ := List.getElem?_eq_some_iff.mp hi
  obtain ⟨hjl, hqj⟩ := List.getElem?_eq_some_iff.mp hj
  have hpm : p ∈ ps := hpi ▸ List.getElem_mem hil
  have hqm : q ∈ ps := hqj ▸ List.getElem_mem hjl
  cases hq : q.unapplyUri sch path with
  | none => rfl
  | some r2 =>
    exfalso
    rcases Nat.lt_or_gt_of_ne hij with hlt | hgt
    · have h1 := hpw i j hil hjl hlt
      rw [hpi, hqj] at h1
      have h2 := C18_ambiguity_complete_partial p q sch path r r2 (hwf p hpm).1 (hwf q hqm).1 (hwf p hpm).2
        (hwf q hqm).2 hp hq
      simp [h1] at h2
    · have h1 := hpw j i hjl hil hgt
      rw [hpi, hqj] at h1
      have h2 := C18_ambiguity_complete_partial q p sch path r2 r (hwf q hqm).1 (hwf p hpm).1 (hwf q hqm).2
        (hwf p hpm).2 hq hp
      simp [h1] at h2

theorem C18_find_route_is_the_match_partial (ps : List Pat) (hb : buildOk ps = true)
    (hwf : ∀ p ∈ ps, p.litsNonempty = true ∧ p.litsNormal = true) (sch : Option Bytes) (path : Bytes)
    (i : Nat) (kv : KV) (h : findRoute ps sch path = some (i, kv)) :
    ∀ j q, ps[j]? = some q → j ≠ i → q.unapplyUri sch path = none := by
  obtain ⟨p, hp, hm⟩ := findRoute_some ps sch path i kv h
  intro j q hq hji
  exact C18_route_unique_partial ps hb hwf sch path i j p q hp hq (fun e => hji e.symm) kv hm

example : buildOk [exP, exQ] = false ∧ buildOk [exP, ⟨none, true, [.lit [97], .lit [99]]⟩] = true ∧
    findRoute [exP, ⟨none, true, [.lit [97], .lit [99]]⟩] none [47, 97, 47, 99] = some (1, []) := by decide

end SwimVerif.Route
