/-
C18 — routing is deterministic: patterns invert, ambiguity is detected.
Model: `Model/Route.lean` (the code as it is today). Strings are their UTF-8 bytes (`List Nat`, bytes < 256).
Quantifiers: every pattern value `Pat` (scheme?, absolute, segments) subject to the stated decidable side
conditions, every parameter map, every URI `(scheme?, path)`, every byte string.
-/
import SwimVerif.Proofs.Route

set_option linter.unusedVariables false
set_option linter.unusedSimpArgs false
namespace SwimVerif.Route

/-! ## Percent codec -/

/-- `percent_decode(utf8_percent_encode(s, URL_ENCODE)) = s` for every byte string, with the encode set read from
the source (`Generated/RouteTables.lean`): the proof needs `%` to be in the set and re-checks it on every run. -/
theorem C18_pct_roundtrip (bs : Bytes) (hb : ∀ b ∈ bs, b < 256) : pctDecode (pctEncode bs) = bs :=
  pct_roundtrip bs hb

example : pctEncode [97, 32, 47, 195, 169, 126] = [97, 37, 50, 48, 37, 50, 70, 37, 67, 51, 37, 65, 57, 126] := by decide

/-! ## apply / unapply inversion -/

/-- `PatWF` (decidable), the part the inversion needs: at least one segment, literals free of `/`, parameter names
that percent-decoding leaves alone (`apply` looks a name up raw, `unapply` reports it decoded) and that are
pairwise different. Everything except name normality is guaranteed by `RoutePattern::parse`. -/
def Pat.rtWf (p : Pat) : Bool := !p.segs.isEmpty && p.segs.all Seg.rtOk && nodupB p.params

/-- The map binds every parameter of the pattern to a non-empty string. -/
def Pat.boundBy (p : Pat) (m : KV) : Bool := p.segs.all (Seg.bound m)

theorem nodupB_nodup (xs : List Bytes) (h : nodupB xs = true) : xs.Nodup := by
  induction xs with
  | nil => exact List.nodup_nil
  | cons x rest ih =>
    simp only [nodupB, Bool.and_eq_true, Bool.not_eq_eq_eq_not, Bool.not_true] at h
    rw [List.nodup_cons]
    refine ⟨?_, ih h.2⟩
    intro hin
    simp only [List.contains_eq_mem, decide_eq_false_iff_not, decide_eq_true_eq] at h
    exact h.1 hin

/-- Filling a well-formed pattern and matching the produced path against the same pattern (URI scheme = the
pattern's, or absent) returns exactly the parameter values, in pattern order. -/
theorem C18_unapply_apply (p : Pat) (m : KV) (hwf : p.rtWf = true) (hb : p.boundBy m = true) :
    ∃ path, p.apply m = .ok (schemePrefix p.scheme ++ path) ∧
      ∀ sch, sch = p.scheme ∨ sch = none →
        p.unapplyUri sch path = some (p.params.map fun n => (n, valOf m n)) := by
  simp only [Pat.rtWf, Bool.and_eq_true, Bool.not_eq_eq_eq_not, Bool.not_true, List.all_eq_true] at hwf
  simp only [Pat.boundBy, List.all_eq_true] at hb
  obtain ⟨⟨hne, hw⟩, hnd⟩ := hwf
  have hnd' : (segParams p.segs).Nodup := nodupB_nodup _ hnd
  have happ := applySegs_bound m p.absolute p.segs true hb
  refine ⟨joinParts p.absolute true (p.segs.map (partOf m)), ?_, ?_⟩
  · simp [Pat.apply, happ]
  · intro sch hsch
    have hclash : schemeClash p.scheme sch = false := by
      rcases hsch with rfl | rfl
      · cases p.scheme <;> simp [schemeClash]
      · cases p.scheme <;> simp [schemeClash]
    have hun := unapplyParts_applied m p.segs [] hw hb
    rw [insAll_nodup m p.segs [] hnd' (by simp)] at hun
    have hslash : ∀ y ∈ p.segs.map (partOf m), ∀ b ∈ y, b ≠ 47 := by
      intro y hy
      simp only [List.mem_map] at hy
      obtain ⟨s, hs, rfl⟩ := hy
      exact partOf_no_slash m s (hw s hs)
    have hparams : segParams p.segs = p.params := rfl
    rw [hparams] at hun
    have hmapne : p.segs.map (partOf m) ≠ [] := by
      intro h0; simp at h0; simp [h0] at hne
    generalize p.segs.map (partOf m) = parts at hun hslash hmapne
    cases parts with
    | nil => exact absurd rfl hmapne
    | cons x xs =>
      unfold Pat.unapplyUri
      simp only [hclash, Bool.false_eq_true, ↓reduceIte]
      cases habs : p.absolute with
      | true =>
        simp only [↓reduceIte]
        rw [splitSlash_join_abs _ _ hslash]
        simpa using hun
      | false =>
        simp only [Bool.false_eq_true, ↓reduceIte]
        rw [splitSlash_join_rel _ _ hslash]
        simpa using hun

/-- `swim:/unit/:id/a%62` with `id = "x y/é"`. -/
def exPat : Pat :=
  ⟨some [115, 119, 105, 109], true, [.lit [117, 110, 105, 116], .param [105, 100], .lit [97, 37, 54, 50]]⟩
def exMap : KV := [([105, 100], [120, 32, 121, 47, 195, 169])]
example : exPat.rtWf = true ∧ exPat.boundBy exMap = true ∧
    (exPat.apply exMap).toOption = some [115, 119, 105, 109, 58, 47, 117, 110, 105, 116, 47, 120, 37, 50, 48, 121,
      37, 50, 70, 37, 67, 51, 37, 65, 57, 47, 97, 37, 54, 50] := by
  decide

/-! ## Matching is a function of the URI; parameters are never empty -/

/-- Matching is a function of `(pattern, scheme, path)` (no hidden state) … -/
theorem C18_match_deterministic (p : Pat) (sch : Option Bytes) (path : Bytes) (r1 r2 : Option KV)
    (h1 : p.unapplyUri sch path = r1) (h2 : p.unapplyUri sch path = r2) : r1 = r2 := h1 ▸ h2

/-- … and of nothing else in the route string: two routes that parse to the same scheme and path (they may differ
in query, fragment or ignored trailing text) get the same bindings. -/
theorem C18_match_depends_on_scheme_path_only (p : Pat) (s1 s2 : Bytes) (u1 u2 : Uri)
    (h1 : parseUri s1 = some u1) (h2 : parseUri s2 = some u2) (hs : u1.scheme = u2.scheme) (hp : u1.path = u2.path) :
    p.unapplyStr s1 = p.unapplyStr s2 := by
  simp [Pat.unapplyStr, h1, h2, hs, hp]

example : parseUri [47, 97] = some ⟨none, [47, 97], none, none⟩ ∧
    parseUri [47, 97, 63, 113, 35, 102] = some ⟨none, [47, 97], some [113], some [102]⟩ := by decide

/-- A successful match never binds a parameter to the empty string. -/
theorem C18_param_nonempty (p : Pat) (sch : Option Bytes) (path : Bytes) (r : KV)
    (h : p.unapplyUri sch path = some r) : ∀ e ∈ r, e.2 ≠ [] := by
  obtain ⟨parts, hp, _⟩ := unapplyUri_parts h
  exact unapplyParts_nonempty p.segs parts [] r hp (by simp)

theorem C18_param_nonempty_str (p : Pat) (route : Bytes) (r : KV)
    (h : p.unapplyStr route = some r) : ∀ e ∈ r, e.2 ≠ [] := by
  unfold Pat.unapplyStr at h
  split at h
  · exact C18_param_nonempty p _ _ r h
  · simp at h

/-- `/a/:id` does not match `/a/` (and does match `/a/%20`). -/
example : (Pat.mk none true [.lit [97], .param [105, 100]]).unapplyUri none [47, 97, 47] = none ∧
    (Pat.mk none true [.lit [97], .param [105, 100]]).unapplyUri none [47, 97, 47, 37, 50, 48] =
      some [([105, 100], [32])] := by decide

/-! ## The ambiguity check is complete -/

def Pat.litsNonempty (p : Pat) : Bool := p.segs.all Seg.litNonempty     -- guaranteed by `RoutePattern::parse`
def Pat.litsNormal (p : Pat) : Bool := p.segs.all Seg.litNormal         -- no `%XX` escape inside a literal

/-- The full statement: whenever one URI is matched by two patterns, `are_ambiguous` reports the pair.
**False of the current code** (F12): see `C18_ambiguity_complete_fails`. -/
def C18_ambiguity_complete : Prop :=
  ∀ (p q : Pat) (sch : Option Bytes) (path : Bytes) (r1 r2 : KV),
    p.litsNonempty = true → q.litsNonempty = true →
    p.unapplyUri sch path = some r1 → q.unapplyUri sch path = some r2 → areAmbiguous p q = true

/-- F12: `/a%62` and `/ab` both match `/ab`, and `are_ambiguous` says no — it compares the raw literal text while
matching compares percent-decoded text. -/
theorem C18_ambiguity_complete_fails : ¬ C18_ambiguity_complete := by
  intro h
  have := h ⟨none, true, [.lit [97, 37, 54, 50]]⟩ ⟨none, true, [.lit [97, 98]]⟩ none [47, 97, 98] [] []
    (by decide) (by decide) (by decide) (by decide)
  exact absurd this (by decide)

/-- The witness at the level of the pattern text. -/
example : (parsePattern [47, 97, 37, 54, 50]).toOption = some ⟨none, true, [.lit [97, 37, 54, 50]]⟩ ∧
    (parsePattern [47, 97, 98]).toOption = some ⟨none, true, [.lit [97, 98]]⟩ := by decide

/-- What holds today: the check is complete for patterns whose literals contain no percent escape. -/
theorem C18_ambiguity_complete_partial (p q : Pat) (sch : Option Bytes) (path : Bytes) (r1 r2 : KV)
    (lp : p.litsNonempty = true) (lq : q.litsNonempty = true)
    (np : p.litsNormal = true) (nq : q.litsNormal = true)
    (hp : p.unapplyUri sch path = some r1) (hq : q.unapplyUri sch path = some r2) :
    areAmbiguous p q = true := by
  simp only [Pat.litsNonempty, Pat.litsNormal, List.all_eq_true] at lp lq np nq
  unfold areAmbiguous
  rw [ambSegs_eq_dec _ _ np nq]
  exact areAmbiguousDec_complete p q sch path r1 r2 lp lq hp hq

/-- With the comparison of `fixes/F12.patch` (percent-decoded literals) the check is complete without that
restriction. -/
theorem C18_ambiguity_complete_decoded (p q : Pat) (sch : Option Bytes) (path : Bytes) (r1 r2 : KV)
    (lp : p.litsNonempty = true) (lq : q.litsNonempty = true)
    (hp : p.unapplyUri sch path = some r1) (hq : q.unapplyUri sch path = some r2) :
    areAmbiguousDec p q = true := by
  simp only [Pat.litsNonempty, List.all_eq_true] at lp lq
  exact areAmbiguousDec_complete p q sch path r1 r2 lp lq hp hq

/-- `/:x/b` and `/a/:y` both match `/a/b`; reported. -/
def exP : Pat := ⟨none, true, [.param [120], .lit [98]]⟩
def exQ : Pat := ⟨none, true, [.lit [97], .param [121]]⟩
example : exP.litsNonempty = true ∧ exP.litsNormal = true ∧ exQ.litsNormal = true ∧
    (exP.unapplyUri none [47, 97, 47, 98]).isSome = true ∧ (exQ.unapplyUri none [47, 97, 47, 98]).isSome = true ∧
    areAmbiguous exP exQ = true := by decide

end SwimVerif.Route
