/-
C09 — Recon text is a faithful and stable encoding, however it is chunked.

Model: `Model/Recon.lean` — values (`Value`/`Attrs`/`Items`), the layout of the three printers (`print st v`),
`escape` / `unescape` / `isIdentifier` over the tables regenerated from the sources (`Generated/ReconTables.lean`),
and a reference recursive-descent parser (`parse`, `parseFuel`).  The model is the code *as it is*, i.e. after the repairs of F7 (attribute names are quoted
when needed), F16 (a surrogate escape is an invalid escape), C09-N2 and C09-N3; the printers' brace decisions are those
of `StructurePrinter` / `AttributePrinter`, which still lose information on one shape of value (C09-N1).

Quantifier of the theorems: all strings; all values of the stated fragment `Value.wf`; all sufficient fuels.
What is *not* here (tied by correspondence only, see NOTES-C09.md): the real nom automaton, the streaming decoder
(chunk-insensitivity), f64 ↔ text.
-/
import SwimVerif.Proofs.ReconStyles
import SwimVerif.Proofs.ReconInc
import SwimVerif.Proofs.ReconIncCoupled
import SwimVerif.Proofs.ReconIncSeq
import SwimVerif.Proofs.ReconIncBytes

set_option linter.unusedVariables false
namespace SwimVerif.Recon
open SwimVerif.Generated.Recon

/-! ## T1 -/

/-- **Escaping is invertible**: for every string, un-escaping (`tokens.rs::unescape`) what `literal.rs::escape_text`
wrote gives the string back — in particular never an error and never the surrogate panic. -/
theorem C09_unescape_escape (s : List Char) : unescape (escape s) = .ok s := unescape_escape s

example : unescape (escape ['a', '"', '\\', '\n', Char.ofNat 1, 'é']) = .ok ['a', '"', '\\', '\n', Char.ofNat 1, 'é'] :=
  C09_unescape_escape _

/-- **The un-escaper is total** (F16 repaired): whatever the literal, the outcome is a text or an error, never a panic;
a `\uD800`–`\uDFFF` escape is an invalid escape. -/
theorem C09_unescape_total (s : List Char) : unescape s ≠ .panic := unescFrom_ne_panic .none s

example : unescape "\\ud800".toList = .err := by decide

/-- **No input makes the (model) parser panic**: for every text, well-formed or not. -/
theorem C09_parse_no_panic (inp : List Char) : parse inp ≠ .panic := parse_ne_panic inp

/-- **The quoting decision agrees with the tokenizer**: the printers write a text bare (`is_identifier`) exactly when
the tokenizer's `identifier` reads the whole text back as one token and it is not a reserved word. -/
theorem C09_quote_decision_agrees (s : List Char) :
    isIdentifier s = true ↔ (lexIdent s = some (s, []) ∧ s ∉ reservedWords) := quote_decision_agrees s

example : isIdentifier "name2".toList = true ∧ isIdentifier "two words".toList = false ∧
    isIdentifier "true".toList = false := by decide

/-! ## tokens are read back (all texts, all integers, all byte strings) -/

/-- Every text, written by `write_string_literal` and followed by a delimiter (or nothing), is lexed back as that
text: bare identifiers by the identifier rule, everything else through the quoted, escaped form. -/
theorem C09_text_literal_roundtrip (s : List Char) (rest : List Char) (hd : TokEnd rest) :
    lexPrim (stringLiteral s ++ rest) = some (.ok (.text s, rest)) := lexPrim_text s hd

example : TokEnd ",x".toList := by intro c hc; simp at hc; subst hc; decide

/-- Every integer, whatever its Rust kind, is printed in decimal and lexed back with the kind the parser assigns. -/
theorem C09_integer_roundtrip (n : Int) (rest : List Char) (hd : TokEnd rest) :
    lexPrim (intChars n ++ rest) = some (.ok (.int (classify n) n, rest)) := lexPrim_int n hd

example : classify 2147483648 = .i64 ∧ classify (-9223372036854775808) = .big ∧ classify 18446744073709551615 = .u64 := by
  decide

/-- Every byte string is read back from its `%base64` form. -/
theorem C09_blob_roundtrip (bs : List Nat) (hb : ∀ b ∈ bs, b < 256) (rest : List Char) (hd : TokEnd rest) :
    lexPrim ('%' :: (b64Encode bs ++ rest)) = some (.ok (.data bs, rest)) := lexPrim_data bs hb hd

example : b64Encode [1, 2, 255] = "AQL/".toList := by decide

/-- Every finite float, as its shortest decimal, is read back as the same decimal from both layouts the printers use:
`ryu` (`StructurePrinter`) and `{:e}` (`AttributePrinter`).  (Which decimal is the shortest for a given `f64`, and which
`f64` a decimal denotes, is outside the model.) -/
theorem C09_float_roundtrip (neg : Bool) (m : Nat) (e : Int) (hc : (Flt.fin neg m e).isCanon = true)
    (rest : List Char) (hd : TokEnd rest) :
    lexPrim (ryuChars (.fin neg m e) ++ rest) = some (.ok (.float (.fin neg m e), rest)) ∧
    lexPrim (expChars (.fin neg m e) ++ rest) = some (.ok (.float (.fin neg m e), rest)) :=
  ⟨lexPrim_ryuChars neg m e (Flt.canon_cases hc) hd, lexPrim_expChars neg m e (Flt.canon_cases hc) hd⟩

example : ryuChars (.fin true 15 (-1)) = "-1.5".toList ∧ expChars (.fin true 15 (-1)) = "-1.5e0".toList ∧
    ryuChars (.fin false 1 21) = "1e21".toList ∧ ryuChars (.fin false 12 (-5)) = "0.00012".toList ∧
    ryuChars (.fin false 3 2) = "300.0".toList := by decide

/-! ## T2: parse ∘ print for the three printers -/

/-- **Faithful**: for each of the three printers (`print_recon`, `print_recon_compact`, `print_recon_pretty`) and every
value of the fragment `Value.wf` (floats finite; the one shape the printers still cannot express, C09-N1, is excluded —
see `Value.wf`; attribute names, attribute values and slot keys are arbitrary), parsing what the printer writes gives the value back, integers re-kinded the way
the parser kinds them (which Rust's `Value::eq` ignores).  Any fuel from `6 * size v` on is enough. -/
theorem C09_parse_print (st : Style) (v : Value) (hw : v.wf = true) (fuel : Nat) (hf : 6 * v.size ≤ fuel) :
    parseFuel fuel (print st v) = .ok v.norm := parseFuel_print st v hw fuel hf

/-- The same for `parse` itself (the function the driver runs against the real parser): its built-in fuel
`12 * length + 6` is enough on printer output, because `size v ≤ 2 * length (print v) + 1`. -/
theorem C09_parse_print_parse (st : Style) (v : Value) (hw : v.wf = true) : parse (print st v) = .ok v.norm :=
  parse_print st v hw

/-- A value of the fragment with attributes (with and without bodies), slots with `Extant` keys and values, text that
needs quoting, a blob, integers of several kinds. -/
def exampleValue : Value :=
  .record (.cons "tag".toList (.int .u32 7) (.cons "b".toList (.record .nil (.slot (.text "k".toList) (.bool true) .nil)) .nil))
    (.val (.text "two words".toList) (.slot .extant (.data [1, 2, 255]) (.val .extant (.val (.int .i64 (-5)) .nil))))

example : exampleValue.wf = true ∧ 6 * exampleValue.size ≤ 200 := by decide
example : print .compact exampleValue = "@tag(7)@b(k:true){\"two words\",:%AQL/,,-5}".toList := by decide
example : print .std exampleValue = "@tag(7) @b(k: true) { \"two words\", : %AQL/, , -5 }".toList := by decide
example : print .pretty exampleValue =
    "@tag(7) @b(k: true) {\n    \"two words\",\n    : %AQL/,\n    ,\n    -5\n}".toList := by decide
example : parseFuel 200 (print .pretty exampleValue) = .ok exampleValue.norm :=
  C09_parse_print .pretty _ (by decide) _ (by decide)

/-- **Stable**: what one print/parse cycle returns (`norm v`) is a fixed point of further cycles, for each printer. -/
theorem C09_fixpoint (st : Style) (v : Value) (hw : v.wf = true) : parse (print st v.norm) = .ok v.norm :=
  parse_fixpoint st v hw

example : exampleValue.norm ≠ exampleValue ∧ exampleValue.norm.norm = exampleValue.norm := by decide

/-- The full statement (no restriction on the shape of the value) is false of the code as it is. -/
def C09_parse_print_compact_unrestricted : Prop :=
  ∀ v : Value, (∀ fuel, 6 * v.size ≤ fuel → parseFuel fuel (print .compact v) = .ok v.norm)

/-- C09-N1: `Record([a], [Record([], [1, 2])])` is written `@a {1,2}`, which is `Record([a], [1, 2])`. -/
def witnessSoleRecordItem : Value :=
  .record (.cons "a".toList .extant .nil) (.val (.record .nil (.val (.int .i32 1) (.val (.int .i32 2) .nil))) .nil)

theorem C09_parse_print_compact_fails : ¬ C09_parse_print_compact_unrestricted := by
  intro h
  have h1 := h witnessSoleRecordItem 60 (by decide)
  have h2 : parseFuel 60 (print .compact witnessSoleRecordItem) =
      .ok (.record (.cons "a".toList .extant .nil) (.val (.int .i32 1) (.val (.int .i32 2) .nil))) := by rfl
  rw [h2] at h1
  revert h1; decide

/-- C09-N2 (repaired): an attribute whose value is a record with attributes and one slot is now written with braces. -/
def witnessAttrBodySoleSlot : Value :=
  .record (.cons "a".toList (.record (.cons "b".toList .extant .nil) (.slot (.text "k".toList) (.int .i32 1) .nil)) .nil) .nil

example : witnessAttrBodySoleSlot.wf = true ∧ print .compact witnessAttrBodySoleSlot = "@a(@b{k:1})".toList := by decide
example : parse (print .compact witnessAttrBodySoleSlot) = .ok witnessAttrBodySoleSlot.norm :=
  C09_parse_print_parse _ _ (by decide)

/-- C09-N3 (repaired): a slot whose key is a record with attributes and no items, `{@a:2}`, is read back. -/
def witnessBareAttrKey : Value :=
  .record .nil (.slot (.record (.cons "a".toList .extant .nil) .nil) (.int .i32 2) .nil)

example : witnessBareAttrKey.wf = true ∧ print .compact witnessBareAttrKey = "{@a:2}".toList := by decide
example : parse (print .compact witnessBareAttrKey) = .ok witnessBareAttrKey.norm :=
  C09_parse_print_parse _ _ (by decide)

/-- Floats in item and in attribute position (the two layouts). -/
def witnessFloats : Value :=
  .record (.cons "f".toList (.float (.fin true 15 (-1))) .nil) (.val (.float (.fin false 1 21)) (.val (.float (.fin false 0 0)) .nil))

example : witnessFloats.wf = true ∧ print .compact witnessFloats = "@f(-1.5e0){1e21,0.0}".toList := by decide
example : parse (print .pretty witnessFloats) = .ok witnessFloats.norm := C09_parse_print_parse _ _ (by decide)

/-- F7 (repaired): an attribute name that is not an identifier is written quoted and read back. -/
def witnessQuotedAttrName : Value := .record (.cons "my attr".toList (.int .i32 1) (.cons "true".toList .extant .nil)) .nil

example : witnessQuotedAttrName.wf = true ∧
    print .compact witnessQuotedAttrName = "@\"my attr\"(1)@\"true\"".toList := by decide
example : parse (print .std witnessQuotedAttrName) = .ok witnessQuotedAttrName.norm :=
  C09_parse_print_parse _ _ (by decide)

/-! ## the incremental path: chunking does not matter

Model: `Model/ReconInc.lean` — `RecognizerDecoder::{decode, decode_eof}` and `WithLenRecognizerDecoder` over the
pushdown automaton and the streaming / complete tokens transcribed in `Model/ReconEq.lean` (C15), tied to the real
decoders by the `chunksm` engine on every single cut (bytes, incl. inside multi-byte characters).  The theorems below
are at *character* granularity (a chunking = a list of character lists); at byte granularity the decoder works on the
longest valid UTF-8 prefix of its buffer and leaves an incomplete tail in it (`readUtf8`, executed and compared; the
byte-level statements are `C09_read_utf8_on_prefix` and `C09_incremental_eq_oneshot_bytes`). -/

open SwimVerif.ReconInc SwimVerif.ReconEq in
/-- **Token level.**  Every streaming token parser's verdict on the text seen so far is final: if the four primitive
tokens (string, identifier/boolean, number incl. floats and radix integers, blob), tried in the automaton's order,
answer `ok` (token, rest) or `err` on a prefix, they answer the same on any longer text (with the extra text left
over); only `Incomplete` may still become anything. -/
theorem C09_streaming_tokens_stable : LxStable (lexPrimM true) := lexPrimM_stable

open SwimVerif.ReconInc SwimVerif.ReconEq in
/-- **Automaton level.**  One call of `IncrementalReconParser::parse`, in any state: events, new stack, error or
panic decided on the text seen so far are not changed by more input. -/
theorem C09_parser_step_stable (stack : List PS) : StepStable (istep stack) :=
  istep_stable lexPrimM_stable stack

open SwimVerif.ReconInc SwimVerif.ReconEq in
/-- **`decode_inner` is chunk-insensitive**: after running it on the text seen so far, the run on a longer text either
continues from the state and unconsumed tail it stopped with (if it asked for more), or gives the same verdict. -/
theorem C09_decode_inner_chunk_insensitive (st : List PS) (m : MSt) (p q : List Char) :
    decodeInner st m (p ++ q) =
      (if (decodeInner st m p).2.2.2 = .none then
        decodeInner (decodeInner st m p).1 (decodeInner st m p).2.1 ((decodeInner st m p).2.2.1 ++ q)
       else ((decodeInner st m p).1, (decodeInner st m p).2.1, (decodeInner st m p).2.2.1 ++ q, (decodeInner st m p).2.2.2)) :=
  decodeInner_ext lexPrimM_stable st m p q

open SwimVerif.ReconInc in
/-- **Every chunking gives the same result** (bare `RecognizerDecoder`, any decoder state and buffer): `decode` after
each chunk and `decode_eof` at the end is the same as receiving all the chunks at once. -/
theorem C09_chunked_eq_unchunked (d : Raw) (buf c : List Char) (cs : List (List Char)) :
    rawRun d buf (c :: cs) = rawRun d buf [c ++ cs.flatten] := rawRun_merge lexPrimM_stable cs d buf c

open SwimVerif.ReconInc in
/-- **The parser stack and the recogniser move in step** (the coupling the next theorem rests on): wherever a decoder
run started on a fresh decoder stops to ask for more input with a parser stack other than `[Init]` / `[AfterAttr]`
(the only stacks that have a final-segment parser), `ValueMaterializer::try_flush` has nothing to give.  Proved by an
invariant carried through every parser call: frame for frame the recogniser is "in the body" exactly where the parser
is in a body state. -/
theorem C09_recogniser_coupled : FlushCoupled := flushCoupled

open SwimVerif.ReconInc in
/-- **Incremental = one-shot** (character level): for every text and every chunking of it, feeding the chunks to a
fresh `RecognizerDecoder` (`decode` per chunk on buffer ++ chunk) and then `decode_eof` yields exactly what the one-shot
`parse_recognize::<Value>` yields on the whole text — the same value, or an error (`cls`: the decoder's `Ok(None)` at
the end of the input counts as the error it stands for).  Chunks are lists of characters: `read_utf8`'s splitting of a
byte buffer at an incomplete trailing sequence is part of the executable model (and compared with the real decoder on
every byte cut by the `chunksm` engine) but not of this statement; for bytes see `C09_incremental_eq_oneshot_bytes`. -/
theorem C09_incremental_eq_oneshot (c : List Char) (cs : List (List Char)) :
    cls (rawRun {} [] (c :: cs)) = cls (parseOne (c :: cs).flatten) :=
  rawRun_eq_parseOne lexPrimM_stable flushCoupled c cs

/-! ### bytes: `read_utf8`

`charsOfBytes` / `bytesOfChars` are the hand-written structural UTF-8 decoder / encoder of `Model/Utf8.lean` (lead byte
by lead byte, with `std::str::from_utf8`'s rejections: overlong forms, surrogates, above U+10FFFF), compared with the
real `read_utf8` on every byte cut by the `chunksm` engine. -/

open SwimVerif.ReconInc in
/-- **The model's UTF-8 decoder inverts its encoder**: every text is read back from its encoding. -/
theorem C09_utf8_decode_encode (cs : List Char) : charsOfBytes (bytesOfChars cs) = some cs :=
  SwimVerif.Utf8.decode_encode cs

example : bytesOfChars ['a', 'é', '€', Char.ofNat 0x1F600] = [0x61, 0xC3, 0xA9, 0xE2, 0x82, 0xAC, 0xF0, 0x9F, 0x98, 0x80] := by
  decide

open SwimVerif.ReconInc in
/-- **`read_utf8` on a prefix of valid UTF-8**: on every prefix `p` of the encoding of a text `T` — wherever the cut
falls, also inside a multi-byte character — `read_utf8` succeeds, returns exactly the characters `C` whose encoding is
complete, and what it leaves in the buffer (`t`) is at most 3 bytes; `utf8LenL`, by which the decoder advances the
buffer, is the encoded length. -/
theorem C09_read_utf8_on_prefix (T : List Char) (p q : List Nat) (h : p ++ q = bytesOfChars T) :
    ∃ C R t, T = C ++ R ∧ p = bytesOfChars C ++ t ∧ t.length ≤ 3 ∧ readUtf8 p = some C ∧
      utf8LenL C = (bytesOfChars C).length :=
  let ⟨C, R, t, h1, h2, h3, h4⟩ := readUtf8_prefix T p q h
  ⟨C, R, t, h1, h2, h3, h4, (encode_length C).symm⟩

/-- `a€` cut after the second byte of `€`: `read_utf8` gives `a`, two bytes stay. -/
example : [0x61, 0xE2, 0x82] ++ [0xAC] = bytesOfChars ['a', '€'] := by decide

open SwimVerif.ReconInc in
/-- **The text a `decode` call leaves unconsumed is a suffix of the text it was given** (what `buf.advance(offset)`
relies on): all token parsers and all automaton steps return a tail of their input. -/
theorem C09_decode_rest_is_suffix (d : Raw) (avail : List Char) : (d.decode avail).2.1 <:+ avail :=
  Raw.decode_suffix d avail

open SwimVerif.ReconInc in
/-- **Incremental = one-shot, byte level**: for every text `T` and every way of cutting its UTF-8 encoding into byte
chunks — also inside multi-byte characters, also with empty chunks — feeding the chunks to a fresh `RecognizerDecoder`
(`decode` per chunk, through `read_utf8`) and then `decode_eof` yields exactly what the one-shot
`parse_recognize::<Value>` yields on `T`.  (Proof: by `C09_read_utf8_on_prefix` and `C09_decode_rest_is_suffix` the
run on bytes is the run on some chunking of `T` into characters — a byte chunk that completes no character is an empty
character chunk — and `C09_incremental_eq_oneshot` applies.) -/
theorem C09_incremental_eq_oneshot_bytes (T : List Char) (bcs : List (List Nat)) (hne : bcs ≠ [])
    (hfl : bcs.flatten = bytesOfChars T) : cls (rawRunB {} [] bcs) = cls (parseOne T) :=
  rawRunB_eq_parseOne lexPrimM_stable flushCoupled T bcs hne hfl

/-- Non-vacuity: `{é:"€"}` cut inside `é`, between characters, with an empty chunk, and twice inside `€`. -/
example : ([[0x7B, 0xC3], [0xA9, 0x3A, 0x22], [], [0xE2], [0x82], [0xAC, 0x22, 0x7D]] : List (List Nat)) ≠ [] ∧
    ([[0x7B, 0xC3], [0xA9, 0x3A, 0x22], [], [0xE2], [0x82], [0xAC, 0x22, 0x7D]] : List (List Nat)).flatten =
      bytesOfChars ['{', 'é', ':', '"', '€', '"', '}'] := by decide

open SwimVerif.ReconInc in
/-- **The decoder recovers after an error** (and after anything else): when a document is finished — a value, an
error seen by a non-final `decode` call, an error or nothing at `decode_eof`, however the document was chunked and in
whatever state `d` and buffer the decoder started — the decoder is the fresh decoder again; so a sequence of documents
through ONE decoder is each document through a decoder of its own.  (`RecognizerDecoder::decode`'s reset condition
`!matches!(result, Ok(None))` is read from the source: `decodeResetsOnError`.) -/
theorem C09_decoder_recovers_after_error (d : Raw) (buf : List Char) (doc : List (List Char))
    (docs : List (List (List Char))) :
    (rawDoc d buf doc).1 = {} ∧ rawSeq d (doc :: docs) = rawRun d [] doc :: docs.map (rawRun {} []) :=
  ⟨rawDoc_fresh doc d buf, rawSeq_eq (doc :: docs) d⟩

open SwimVerif.ReconInc in
/-- … composed with `C09_incremental_eq_oneshot`: any sequence of documents, well-formed or not, each chunked in any
way, fed through one decoder yields for every document exactly its one-shot parse result (character level). -/
theorem C09_decoder_sequence_eq_oneshot (docs : List (List (List Char))) (h : ∀ doc ∈ docs, doc ≠ []) :
    (rawSeq {} docs).map cls = docs.map (fun doc => cls (parseOne doc.flatten)) := by
  rw [rawSeq_fresh, List.map_map]
  apply List.map_congr_left
  intro doc hd
  cases doc with
  | nil => exact absurd rfl (h [] hd)
  | cons c cs => exact C09_incremental_eq_oneshot c cs

open SwimVerif.ReconInc in
/-- The same reset on byte buffers: a `decode` call that answers anything but "need more" — including `BadUtf8` —
leaves the fresh decoder; `decode_eof` does so whenever the buffer passes `read_utf8` (or the early return resets,
`eofBadUtf8Resets`; it does not in the code as it is: finding C09-N5). -/
theorem C09_decoder_recovers_after_error_bytes (d : Raw) (buf : List Nat) :
    ((d.decodeB buf).2.2 ≠ .none → (d.decodeB buf).1 = {}) ∧
    (SwimVerif.Generated.Recon.eofBadUtf8Resets = true ∨ readUtf8 buf ≠ none → (d.decodeEofB buf).1 = {}) :=
  ⟨decodeB_fresh d buf, decodeEofB_fresh d buf⟩

open SwimVerif.ReconInc in
/-- `WithLenRecognizerDecoder`, frames back to back: given that `decode_eof` resets on every path, the inner decoder is
fresh whenever the decoder is between frames or skipping the rest of one (`WLFresh`), and at every frame boundary the
whole decoder is literally the initial one — the next frame cannot see anything of the previous one. -/
theorem C09_withlen_fresh_between_frames_of_eof_reset (hE : SwimVerif.Generated.Recon.eofBadUtf8Resets = true)
    (fuel : Nat) (w : WL) (src : List Nat) (h : WLFresh w) :
    WLFresh (WL.decode fuel w src).1 ∧ ((WL.decode fuel w src).1.state = .header → (WL.decode fuel w src).1 = {}) :=
  ⟨WL_decode_fresh hE fuel w src h, WL_header_fresh hE fuel w src h⟩

open SwimVerif.ReconInc in
/-- **`WithLenRecognizerDecoder` is fresh between frames** (unconditional since 69c2062, which makes `decode_eof` reset
before returning `BadUtf8` — finding C09-N5; the extracted flag `eofBadUtf8Resets` is now `true`): whatever a frame
held and however the stream was cut, between frames and while skipping the rest of a frame the inner decoder is fresh. -/
theorem C09_withlen_fresh_between_frames (fuel : Nat) (w : WL) (src : List Nat) (h : WLFresh w) :
    WLFresh (WL.decode fuel w src).1 ∧ ((WL.decode fuel w src).1.state = .header → (WL.decode fuel w src).1 = {}) :=
  C09_withlen_fresh_between_frames_of_eof_reset rfl fuel w src h

example : SwimVerif.ReconInc.rawRun {} [] ["@a(1".toList, "2) {x".toList, ":".toList, " \"y\"}".toList] =
    SwimVerif.ReconInc.rawRun {} [] ["@a(1".toList ++ ["2) {x".toList, ":".toList, " \"y\"}".toList].flatten] :=
  C09_chunked_eq_unchunked _ _ _ _

open SwimVerif.ReconInc in
/-- **The length-delimited decoder never consumes beyond its frame**: a `decode` call on a decoder between frames
with at least the 8 header bytes in the buffer either finishes the frame having taken exactly `8 + announced length`
bytes — whatever the body is, well-formed or not — or takes less, keeps the difference as debt and delivers nothing. -/
theorem C09_decoder_never_consumes_beyond (fuel : Nat) (w : WL) (src : List Nat) (hw : w.state = .header)
    (h8 : 8 ≤ src.length) :
    let res := WL.decode (fuel + 1) w src
    res.2.1.length ≤ src.length ∧
    (res.1.state = .header → src.length - res.2.1.length = 8 + beNat (src.take 8)) ∧
    (res.1.state ≠ .header →
      res.1.state.owed = some (8 + beNat (src.take 8) - (src.length - res.2.1.length)) ∧
      src.length - res.2.1.length ≤ 8 + beNat (src.take 8) ∧ res.2.2 = .none) :=
  WL_frame fuel w src hw h8

open SwimVerif.ReconInc in
/-- … and the same inside a frame, on every later call: the debt `r` is paid exactly, never exceeded. -/
theorem C09_decoder_frame_accounting (fuel : Nat) (w : WL) (src : List Nat) (r : Nat) (h : w.state.owed = some r)
    (hne : w.state ≠ .header) : Accounted r src (WL.decode fuel w src) := WL_decode_owed fuel w src r h hne

end SwimVerif.Recon
