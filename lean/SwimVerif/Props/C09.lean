/-
C09 — Recon text is a faithful and stable encoding, however it is chunked.
Model: `Model/Recon.lean` (values, the three printers' layout, `escape`/`unescape`/`isIdentifier` over the
generated tables, a reference parser).  Quantifier of the theorems: all strings / all values of the stated fragment.
-/
import SwimVerif.Proofs.Recon

set_option linter.unusedVariables false
namespace SwimVerif.Recon
open SwimVerif.Generated.Recon

/-- **Escaping is invertible**: for every string, un-escaping (`tokens.rs::unescape`) what `literal.rs::escape_text`
wrote gives the string back — in particular never an error and never the surrogate panic. -/
theorem C09_unescape_escape (s : List Char) : unescape (escape s) = .ok s := unescape_escape s

example : unescape (escape ['a', '"', '\\', '\n', Char.ofNat 1, 'é']) = .ok ['a', '"', '\\', '\n', Char.ofNat 1, 'é'] :=
  C09_unescape_escape _

/-- **The quoting decision agrees with the tokenizer**: the printers write a text bare (`is_identifier`) exactly when
the tokenizer's `identifier` reads the whole text back as one token and it is not a reserved word. -/
theorem C09_quote_decision_agrees (s : List Char) :
    isIdentifier s = true ↔ (lexIdent s = some (s, []) ∧ s ∉ reservedWords) := quote_decision_agrees s

example : isIdentifier "name2".toList = true ∧ isIdentifier "two words".toList = false ∧
    isIdentifier "true".toList = false := by decide

end SwimVerif.Recon
