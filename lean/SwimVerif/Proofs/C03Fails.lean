/-
C03 (map lane): the bound `ops.length < 2^64` of `C03_snapshot_consistent_partial` cannot be dropped for the MODEL
(unbounded lists): with 2^64 + 1 entries queued, the epoch of the newest entry has wrapped onto the head's; updating
that key again overwrites the head entry, the head's key is never published, and the monitor reports the observer's
replica as diverged. (The real `Vec` cannot hold 2^64 entries.)
-/
import SwimVerif.Proofs.C03Lines

set_option linter.unusedVariables false
set_option linter.unusedSimpArgs false
namespace SwimVerif.ML

theorem jointRun_append : ∀ (a b : List Op) (s : St) (m : Mon),
    jointRun s m (a ++ b) = jointRun (jointRun s m a).1 (jointRun s m a).2 b := by
  intro a
  induction a with
  | nil => intro b s m; rfl
  | cons op rest ih => intro b s m; simp only [List.cons_append, jointRun]; exact ih b _ _

theorem traceOkT_append : ∀ (a b : List Op) (s : St) (m : Mon), traceOkT s m (a ++ b) = true →
    traceOkT (jointRun s m a).1 (jointRun s m a).2 b = true := by
  intro a
  induction a with
  | nil => intro b s m h; exact h
  | cons op rest ih =>
    intro b s m h
    simp only [List.cons_append, traceOkT, Bool.and_eq_true] at h
    simp only [jointRun]
    exact ih b _ _ h.2

/-- the updates of keys `0 … n-1` -/
def updates (n : Nat) : List Op := (List.range n).map (fun i => Op.update i 0)

theorem updates_succ (n : Nat) : updates (n + 1) = updates n ++ [Op.update n 0] := by
  simp [updates, List.range_succ]

/-- after `n ≤ 2^64 + 1` updates of distinct keys and no write -/
structure P1 (n : Nat) (s : St) (m : Mon) : Prop where
  events : s.wq.eq.events = (List.range n).map Act.upd
  head : s.wq.eq.head = 0
  emap : ∀ k, alGet s.wq.eq.emap k = if k < n then some (k % M64) else none
  syncs : s.wq.syncs = []
  content : ∀ k, alGet s.content k = if k < n then some 0 else none
  cur : m.cur = s.content
  rep : m.rep = []
  pend : m.pend = []

theorem p1_run : ∀ (n : Nat), n ≤ M64 + 1 → P1 n (jointRun {} {} (updates n)).1 (jointRun {} {} (updates n)).2 := by
  intro n
  induction n with
  | zero =>
    intro _
    constructor <;> simp [updates, jointRun]
  | succ n ih =>
    intro hn
    have h := ih (by omega)
    rw [updates_succ, jointRun_append]
    generalize (jointRun {} {} (updates n)).1 = s at h
    generalize (jointRun {} {} (updates n)).2 = m at h
    simp only [jointRun, step, Mon.stepT, Mon.opT]
    have hslot : s.wq.eq.slot n = none := by
      simp [EQ.slot, h.emap n]
    have hpush := push_miss s.wq.eq (.upd n) n rfl hslot
    constructor
    · simp only [pushAct_eq, hpush, h.events, List.range_succ, List.map_append, List.map_cons, List.map_nil]
    · simp only [pushAct_eq, hpush, h.head]
    · intro k
      simp only [pushAct_eq, hpush, alGet_alSet, h.head, h.events, List.length_map, List.length_range, Nat.zero_add]
      by_cases hk : n = k
      · subst hk; simp
      · simp only [hk, if_false, h.emap k]
        by_cases hlt : k < n
        · have : k < n + 1 := by omega
          simp [hlt, this]
        · have : ¬ k < n + 1 := by omega
          simp [hlt, this]
    · exact h.syncs
    · intro k
      simp only [pushAct_content, alGet_insertSorted]
      by_cases hk : n = k
      · subst hk; simp
      · simp only [hk, if_false, h.content k]
        by_cases hlt : k < n
        · have : k < n + 1 := by omega
          simp [hlt, this]
        · have : ¬ k < n + 1 := by omega
          simp [hlt, this]
    · simp only [change_cur, pushAct_content, h.cur]
    · simp only [change_rep, h.rep]
    · simp only [change_pend, h.pend, List.map_nil]

/-- while the queue is written out: no entry for key 0 is left, every queued key is in the map -/
structure P2 (n len : Nat) (s : St) (m : Mon) : Prop where
  length : s.wq.eq.events.length = len
  events : ∀ a, a ∈ s.wq.eq.events → ∃ k, a = Act.upd k ∧ 1 ≤ k ∧ k ≤ n
  syncs : s.wq.syncs = []
  content : ∀ k, k ≤ n → alGet s.content k ≠ none
  content0 : alGet s.content 0 = some 0
  cur : m.cur = s.content
  rep0 : alGet m.rep 0 = none
  pend : m.pend = []

/-- the second update of key `n = 2^64` lands on the head entry (key 0) -/
theorem p2_start (n : Nat) (hn : n = M64) : P2 n (n + 1) (jointRun {} {} (updates (n + 1) ++ [Op.update n 1])).1
    (jointRun {} {} (updates (n + 1) ++ [Op.update n 1])).2 := by
  have h := p1_run (n + 1) (by omega)
  rw [jointRun_append]
  generalize (jointRun {} {} (updates (n + 1))).1 = s at h
  generalize (jointRun {} {} (updates (n + 1))).2 = m at h
  simp only [jointRun, step, Mon.stepT, Mon.opT]
  have hpos : 0 < n := by rw [hn]; simp [M64]
  have hslot : s.wq.eq.slot n = some 0 := by
    have he := h.emap n
    simp only [Nat.lt_succ_self, if_true] at he
    rw [← hn, Nat.mod_self] at he
    simp only [EQ.slot, he, h.head, h.events, List.length_map, List.length_range]
    rw [← hn]
    have : (0 + n - 0) % n = 0 := by simp
    simp [this]
  have hpush := push_hit s.wq.eq (.upd n) n 0 rfl hslot
  have hev : (s.wq.eq.events.set 0 (Act.upd n)) = Act.upd n :: (List.range n).map (fun i => Act.upd (i + 1)) := by
    rw [h.events, List.range_succ_eq_map]
    simp [List.map_map, Function.comp_def]
  constructor
  · simp only [pushAct_eq, hpush, hev, List.length_cons, List.length_map, List.length_range]
  · intro a ha
    simp only [pushAct_eq, hpush, hev, List.mem_cons, List.mem_map, List.mem_range] at ha
    rcases ha with ha | ⟨i, hi, ha⟩
    · exact ⟨n, ha, by omega, Nat.le_refl _⟩
    · exact ⟨i + 1, ha.symm, by omega, by omega⟩
  · exact h.syncs
  · intro k hk
    simp only [pushAct_content, alGet_insertSorted]
    by_cases hkk : n = k
    · simp [hkk]
    · simp only [hkk, if_false, h.content k]
      have : k < n + 1 := by omega
      simp [this]
  · simp only [pushAct_content, alGet_insertSorted]
    have : ¬ n = 0 := by omega
    simp only [this, if_false, h.content 0]
    simp
  · simp only [change_cur, pushAct_content, h.cur]
  · simp only [change_rep, h.rep, alGet_nil]
  · simp only [change_pend, h.pend, List.map_nil]

theorem fuelFor_succ (w : WQ) : ∃ f, fuelFor w = f + 1 := ⟨fuelFor w - 1, by simp only [fuelFor]; omega⟩

theorem popFrame_upd (c : List (Nat × Nat)) (w : WQ) (k v : Nat) (rest : List Act) (fuel : Nat)
    (he : w.eq.events = .upd k :: rest) (hs : w.syncs = []) (hv : alGet c k = some v) :
    (popFrame c (fuel + 1) w).1 = some (.upd k v) ∧ (popFrame c (fuel + 1) w).2.eq.events = rest ∧
      (popFrame c (fuel + 1) w).2.syncs = [] := by
  simp [popFrame, WQ.pop, hs, EQ.pop, he, hv, updateSyncs]

theorem popFrame_nothing (c : List (Nat × Nat)) (w : WQ) (fuel : Nat) (he : w.eq.events = []) (hs : w.syncs = []) :
    (popFrame c (fuel + 1) w).1 = none := by
  simp [popFrame, WQ.pop, hs, EQ.pop, he]

theorem p2_write (n len : Nat) (s : St) (m : Mon) (h : P2 n (len + 1) s m) :
    P2 n len (step s .write).1 (m.stepT .write (step s .write).2).1 := by
  cases hev : s.wq.eq.events with
  | nil => have := h.length; rw [hev] at this; simp at this
  | cons a rest =>
    obtain ⟨k, hak, hk1, hkn⟩ := h.events a (by rw [hev]; simp)
    subst hak
    cases hv : alGet s.content k with
    | none => exact absurd hv (h.content k hkn)
    | some v =>
      obtain ⟨f, hf⟩ := fuelFor_succ s.wq
      obtain ⟨h1, h2, h3⟩ := popFrame_upd s.content s.wq k v rest f hev h.syncs hv
      have hft : m.frameT (.upd k v) = (m.bcast (.upd k v), none) := by
        simp [Mon.frameT, h.cur, hv]
      simp only [step, hf, h1, Mon.stepT, hft]
      constructor
      · simp only [h2]
        have := h.length
        rw [hev] at this
        simpa using this
      · intro a ha
        simp only [h2] at ha
        exact h.events a (by rw [hev]; exact List.mem_cons_of_mem _ ha)
      · exact h3
      · exact h.content
      · exact h.content0
      · exact h.cur
      · simp only [Mon.bcast, applyFrame, alGet_insertSorted]
        have : ¬ k = 0 := by omega
        simp only [this, if_false]
        exact h.rep0
      · simp only [Mon.bcast, h.pend, List.map_nil]

theorem p2_writes (n : Nat) : ∀ (j len : Nat) (s : St) (m : Mon), P2 n (len + j) s m →
    P2 n len (jointRun s m (List.replicate j Op.write)).1 (jointRun s m (List.replicate j Op.write)).2 := by
  intro j
  induction j with
  | zero => intro len s m h; exact h
  | succ j ih =>
    intro len s m h
    simp only [List.replicate_succ, jointRun]
    apply ih
    apply p2_write
    have : len + j + 1 = len + (j + 1) := by omega
    rw [this]
    exact h

/-- with nothing queued, the next write reports the replica of the observer (which never received key 0) diverged -/
theorem p2_final (n : Nat) (s : St) (m : Mon) (h : P2 n 0 s m) : traceOkT s m [Op.write] = false := by
  have hev : s.wq.eq.events = [] := List.eq_nil_of_length_eq_zero h.length
  obtain ⟨f, hf⟩ := fuelFor_succ s.wq
  have h1 := popFrame_nothing s.content s.wq f hev h.syncs
  have hne : m.rep ≠ m.cur := by
    intro heq
    have := h.rep0
    rw [heq, h.cur, h.content0] at this
    cases this
  simp [traceOkT, step, hf, h1, Mon.stepT, Mon.noDataT, h.pend, hne]

/-- the witness: updates of keys `0 … n`, a second update of key `n`, `n + 1` writes, and one more -/
def longOps (n : Nat) : List Op :=
  (updates (n + 1) ++ [Op.update n 1]) ++ (List.replicate (n + 1) Op.write ++ [Op.write])

theorem syncIdsFresh_noSync : ∀ (ops : List Op) (seen : List Nat), (∀ op, op ∈ ops → ∀ r, op ≠ .sync r) →
    syncIdsFresh seen ops = true := by
  intro ops
  induction ops with
  | nil => intro _ _; rfl
  | cons op rest ih =>
    intro seen h
    have hr := ih seen (fun o ho => h o (List.mem_cons_of_mem _ ho))
    cases op with
    | sync r => exact absurd rfl (h (.sync r) (List.mem_cons_self ..) r)
    | update k v => exact hr
    | remove k => exact hr
    | clear => exact hr
    | write => exact hr
    | dropFirst n => exact hr
    | takeFirst n => exact hr

theorem longOps_fresh (n : Nat) : syncIdsFresh [] (longOps n) = true := by
  apply syncIdsFresh_noSync
  intro op hop r hr
  subst hr
  simp [longOps, updates] at hop

theorem longOps_rejected (n : Nat) (hn : n = M64) : traceOkT {} {} (longOps n) = false := by
  cases hres : traceOkT {} {} (longOps n) with
  | false => rfl
  | true =>
    exfalso
    unfold longOps at hres
    have h1 := traceOkT_append _ _ _ _ hres
    have h2 := traceOkT_append _ _ _ _ h1
    have hp := p2_writes n (n + 1) 0 _ _ (by simpa using p2_start n hn)
    rw [p2_final n _ _ hp] at h2
    cases h2

end SwimVerif.ML
