/-
C16 — lemmas about the MessagePack byte model (`Model/MsgPack.lean`): the structural part of the round trip
(records, attributes, map / array bodies, slots) relative to the round trip of the primitive tokens.
-/
import SwimVerif.Model.MsgPack

namespace SwimVerif.MsgPack
open SwimVerif.Recon

/-- Is the value a record? -/
def isRec : Value → Bool
  | .record _ _ => true
  | _ => false

/-- Round trip of the primitive tokens: a written non-record value starts with a marker that is neither a map nor an
array marker and `rdPrim` reads it back, leaving the rest. -/
def PrimRT : Prop :=
  ∀ v, isRec v = false → mpOk v = true →
    ∃ m r, wV v = m :: r ∧ isMapMarker m = false ∧ isArrMarker m = false ∧
      ∀ rest, rdPrim m (r ++ rest) = some (mpNorm v, rest)

/-- Round trip of attribute names. -/
def NameRT : Prop :=
  ∀ n : List Char, (utf8Enc n).length < U32 → ∀ rest, rdName (wStr n ++ rest) = some (n, rest)

/-- Round trip of the map / array headers. -/
def LenRT : Prop :=
  ∀ n, n < U32 →
    (∃ m r, wMapLen n = m :: r ∧ isMapMarker m = true ∧ ∀ rest, rdMapLen m (r ++ rest) = some (n, rest)) ∧
    (∃ m r, wArrLen n = m :: r ∧ isMapMarker m = false ∧ isArrMarker m = true ∧
      ∀ rest, rdArrLen m (r ++ rest) = some (n, rest))

mutual
def depthV : Value → Nat
  | .record a i => max (depthA a) (depthI i + 1) + 1
  | _ => 1
def depthA : Attrs → Nat
  | .nil => 0
  | .cons _ v r => max (depthV v) (depthA r) + 1
def depthI : Items → Nat
  | .nil => 0
  | .val v r => max (depthV v) (depthI r) + 1
  | .slot k v r => max (max (depthV k) (depthV v)) (depthI r) + 1
end

/-- What the structural induction carries for a value. -/
def GoodV (v : Value) : Prop :=
  mpOk v = true → (∃ m r, wV v = m :: r ∧ isArrMarker m = false) ∧
    ∀ f rest, depthV v ≤ f → rdV f (wV v ++ rest) = some (mpNorm v, rest)

def GoodA (a : Attrs) : Prop :=
  mpOkA a = true → ∀ f rest, depthA a ≤ f → rdA f a.length (wA a ++ rest) = some (mpNormA a, rest)

def GoodI (i : Items) : Prop :=
  mpOkI i = true →
    (∀ f rest, depthI i ≤ f → rdR f i.length (wI false i ++ rest) = some (mpNormI i, rest)) ∧
    (allSlots i = true → ∀ f rest, depthI i ≤ f → rdM f i.length (wI true i ++ rest) = some (mpNormI i, rest))

theorem isArr_146 : isArrMarker 146 = true := by decide

theorem goodV_prim (hp : PrimRT) (v : Value) (hr : isRec v = false) : GoodV v := by
  intro hok
  obtain ⟨m, r, hw, hm, ha, hrd⟩ := hp v hr hok
  refine ⟨⟨m, r, hw, ha⟩, ?_⟩
  intro f rest hf
  have hd : depthV v = 1 := by cases v <;> simp_all [depthV, isRec]
  obtain ⟨f', rfl⟩ : ∃ f', f = f' + 1 := ⟨f - 1, by omega⟩
  rw [hw]
  simp only [List.cons_append, rdV, hm]
  simpa using hrd rest


theorem map_not_arr {m : Nat} (h : isMapMarker m = true) : isArrMarker m = false := by
  simp [isMapMarker, isArrMarker] at *; omega

theorem mapBody_allSlots {i : Items} (h : isMapBody i = true) : allSlots i = true := by
  cases i <;> simp_all [isMapBody, allSlots]

theorem rdV_map {f m n : Nat} {r r1 r2 r3 : List Nat} {a : Attrs} {i : Items}
    (h1 : isMapMarker m = true) (h2 : rdMapLen m r = some (n, r1)) (h3 : rdA f n r1 = some (a, r2))
    (h4 : rdB f r2 = some (i, r3)) : rdV (f + 1) (m :: r) = some (.record a i, r3) := by
  simp [rdV, h1, h2, h3, h4]

theorem rdB_map {f m n : Nat} {r r1 : List Nat}
    (h1 : isMapMarker m = true) (h2 : rdMapLen m r = some (n, r1)) : rdB (f + 1) (m :: r) = rdM f n r1 := by
  simp [rdB, h1, h2]

theorem rdB_arr {f m n : Nat} {r r1 : List Nat}
    (h1 : isMapMarker m = false) (h1' : isArrMarker m = true) (h2 : rdArrLen m r = some (n, r1)) :
    rdB (f + 1) (m :: r) = rdR f n r1 := by
  simp [rdB, h1, h1', h2]

mutual
theorem goodV (hp : PrimRT) (hn : NameRT) (hl : LenRT) : ∀ v, GoodV v
  | .record a i => by
    intro hok
    simp only [mpOk, Bool.and_eq_true, decide_eq_true_eq] at hok
    obtain ⟨⟨⟨hal, hil⟩, hoa⟩, hoi⟩ := hok
    have ga := goodA hp hn hl a hoa
    have gi := goodI hp hn hl i hoi
    obtain ⟨⟨m, r, hw, hm, hrd⟩, _⟩ := hl a.length hal
    obtain ⟨⟨m1, r1, hw1, hm1, hrd1⟩, ⟨m2, r2, hw2, hm2, ha2, hrd2⟩⟩ := hl i.length hil
    refine ⟨⟨m, _, by simp only [wV, hw, List.cons_append]; rfl, map_not_arr hm⟩, ?_⟩
    intro f rest hf
    simp only [depthV] at hf
    obtain ⟨f2, rfl⟩ : ∃ f2, f = f2 + 2 := ⟨f - 2, by omega⟩
    have h1 : depthA a ≤ f2 + 1 := by omega
    have h2 : depthI i ≤ f2 := by omega
    have hB : rdB (f2 + 1) ((if isMapBody i = true then wMapLen i.length else wArrLen i.length) ++
        (wI (isMapBody i) i ++ rest)) = some (mpNormI i, rest) := by
      by_cases hmb : isMapBody i = true
      · simp only [hmb, ↓reduceIte, hw1, List.cons_append]
        rw [rdB_map hm1 (hrd1 _)]; exact gi.2 (mapBody_allSlots hmb) _ _ h2
      · simp only [Bool.not_eq_true] at hmb
        simp only [hmb, Bool.false_eq_true, ↓reduceIte, hw2, List.cons_append]
        rw [rdB_arr hm2 ha2 (hrd2 _)]; exact gi.1 _ _ h2
    have hA := ga (f2 + 1) ((if isMapBody i = true then wMapLen i.length else wArrLen i.length) ++
        (wI (isMapBody i) i ++ rest)) h1
    simp only [wV, hw, List.cons_append, List.append_assoc, mpNorm]
    exact rdV_map hm (hrd _) hA hB
  | .extant => goodV_prim hp _ rfl
  | .int _ _ => goodV_prim hp _ rfl
  | .float _ => goodV_prim hp _ rfl
  | .bool _ => goodV_prim hp _ rfl
  | .text _ => goodV_prim hp _ rfl
  | .data _ => goodV_prim hp _ rfl
theorem goodA (hp : PrimRT) (hn : NameRT) (hl : LenRT) : ∀ a, GoodA a
  | .nil => by
    intro _ f rest _
    cases f <;> simp [rdA, wA, Attrs.length, mpNormA]
  | .cons n v r => by
    intro hok f rest hf
    simp only [mpOkA, Bool.and_eq_true, decide_eq_true_eq] at hok
    obtain ⟨⟨hnl, hov⟩, hor⟩ := hok
    have gv := (goodV hp hn hl v hov).2
    have gr := goodA hp hn hl r hor
    simp only [depthA] at hf
    obtain ⟨f1, rfl⟩ : ∃ f1, f = f1 + 1 := ⟨f - 1, by omega⟩
    simp only [wA, Attrs.length, List.append_assoc, rdA, hn n hnl, gv f1 _ (by omega), gr f1 _ (by omega), mpNormA]
theorem goodI (hp : PrimRT) (hn : NameRT) (hl : LenRT) : ∀ i, GoodI i
  | .nil => by
    intro _
    constructor
    · intro f rest _; cases f <;> simp [rdR, wI, Items.length, mpNormI]
    · intro _ f rest _; cases f <;> simp [rdM, wI, Items.length, mpNormI]
  | .val v r => by
    intro hok
    simp only [mpOkI, Bool.and_eq_true] at hok
    obtain ⟨hov, hor⟩ := hok
    obtain ⟨⟨m, t, hw, ha⟩, gv⟩ := goodV hp hn hl v hov
    have gr := goodI hp hn hl r hor
    constructor
    · intro f rest hf
      simp only [depthI] at hf
      obtain ⟨f1, rfl⟩ : ∃ f1, f = f1 + 1 := ⟨f - 1, by omega⟩
      have hne : ¬ m = 146 := by intro h; rw [h] at ha; exact absurd ha (by decide)
      have hv := gv f1 (wI false r ++ rest) (by omega)
      rw [hw] at hv
      simp only [List.cons_append] at hv
      simp only [wI, Items.length, hw, List.cons_append, List.append_assoc, rdR, hne, ↓reduceIte, hv,
        gr.1 f1 _ (by omega), mpNormI]
    · intro h; simp [allSlots] at h
  | .slot k v r => by
    intro hok
    simp only [mpOkI, Bool.and_eq_true] at hok
    obtain ⟨⟨hok', hov⟩, hor⟩ := hok
    have gk := (goodV hp hn hl k hok').2
    have gv := (goodV hp hn hl v hov).2
    have gr := goodI hp hn hl r hor
    constructor
    · intro f rest hf
      simp only [depthI] at hf
      obtain ⟨f1, rfl⟩ : ∃ f1, f = f1 + 1 := ⟨f - 1, by omega⟩
      simp only [wI, Items.length, Bool.false_eq_true, ↓reduceIte, List.cons_append, List.nil_append,
        List.append_assoc, rdR, gk f1 _ (by omega), gv f1 _ (by omega), gr.1 f1 _ (by omega), mpNormI]
    · intro hs f rest hf
      simp only [allSlots] at hs
      simp only [depthI] at hf
      obtain ⟨f1, rfl⟩ : ∃ f1, f = f1 + 1 := ⟨f - 1, by omega⟩
      simp only [wI, Items.length, ↓reduceIte, List.nil_append, List.append_assoc, rdM, gk f1 _ (by omega),
        gv f1 _ (by omega), gr.2 hs f1 _ (by omega), mpNormI]
end

end SwimVerif.MsgPack
