import SwimVerif.Model.MsgPack
namespace SwimVerif.MsgPack
end SwimVerif.MsgPack
