/-
C01, composition: the agent-side value lane (`VL.St`, `Model/ValueLane.lean`) feeding, through the lane's output byte
channel (a FIFO of frames), the per-remote uplink queues of the runtime (`WT.USys`, `Model/UplinkSys.lean`).
A definition built only from the two tied models (every transition is a `VL.step` or a `WT.ustep`); what it adds is the
plumbing of `write_task`'s `handle_event`: an `.event` frame is pushed to the value uplink of every remote linked to the
lane (broadcast), a sync frame to the remote it is addressed to (linking it implicitly if it is not linked yet).

One `COp` = one step of one of the concurrent parties, so "every interleaving" = every `List COp`:
  `set`    a handler / command sets the lane                               (`ValueLane::set`)
  `sync r` a sync request of remote `r` reaches the lane                   (`ValueLane::sync`)
  `write`  the agent loop services the lane (`write_to_buffer`), the frames enter the pipe
  `xfer`   the runtime reads ONE frame from the pipe and pushes it         (`WriteTaskEvent::Event`)
  `link r` / `unlink r`                                                    (`RwCoordinationMessage::Link/Unlink`)
  `done r` the write in flight for remote `r` completes                    (`WriteTaskEvent::WriteDone`)
Every remote id stands for an attached remote (an attached remote without links is inert). A frame may stay in the pipe,
a value in an uplink buffer, and a write in flight for arbitrarily long: that is the arbitrary delay / the slow remote.
Values are numbers (as in `VL`); value `v` travels as the body `raw [v]`.
-/
import SwimVerif.Model.ValueLane
import SwimVerif.Model.UplinkSys

namespace SwimVerif.VC
open WT (USys UOp ustep Registry Body Resp Special Kind UnlinkMsg bodiesFor pushedBodies)

/-- the wire body of value `v` -/
def body (v : Nat) : Body := .raw [v]

/-- One remote: its uplink system, whether it is linked to the lane (`Links`), and two ghosts. -/
structure Rem where
  sys : USys := {}
  linked : Bool := false
  /-- ghost: how many `set`s had happened when it (last) became linked -/
  since : Nat := 0
  /-- ghost: a sync request of this remote reached the lane since it was last unlinked -/
  asked : Bool := false

structure CSys where
  lane : VL.St := {}
  /-- frames written by the lane and not yet read by the runtime -/
  pipe : List VL.Frame := []
  rem : Nat → Rem := fun _ => {}

inductive COp
  | set (v : Nat)
  | sync (r : Nat)
  | write
  | xfer
  | link (r : Nat)
  | unlink (r : Nat)
  | done (r : Nat)
  deriving DecidableEq, Repr

def upd (f : Nat → Rem) (r : Nat) (x : Rem) : Nat → Rem := fun r' => if r' = r then x else f r'

/-- `Links::insert` + `push_special(Linked)`; `n` = number of sets so far (ghost) -/
def Rem.link (reg : Registry) (l n : Nat) (x : Rem) : Rem :=
  { x with sys := ustep reg x.sys (.special (.linked l)), linked := true, since := if x.linked then x.since else n }

/-- `push_write` -/
def Rem.push (reg : Registry) (l : Nat) (resp : Resp) (x : Rem) : Rem :=
  { x with sys := ustep reg x.sys (.push l resp) }

/-- broadcast event: only remotes linked to the lane are served -/
def Rem.bcast (reg : Registry) (l : Nat) (resp : Resp) (x : Rem) : Rem :=
  if x.linked then x.push reg l resp else x

/-- targeted event: an unlinked target is linked first (`Linked` is sent before the response) -/
def Rem.target (reg : Registry) (l n : Nat) (resp : Resp) (x : Rem) : Rem :=
  if x.linked then x.push reg l resp else (x.link reg l n).push reg l resp

/-- `Links::remove` + `push_special(Unlinked)` -/
def Rem.unlink (reg : Registry) (l : Nat) (x : Rem) : Rem :=
  if x.linked then
    { x with sys := ustep reg x.sys (.special (.unlinked l .closed)), linked := false, asked := false }
  else x

def Rem.done (reg : Registry) (x : Rem) : Rem := { x with sys := ustep reg x.sys .done }

/-- the runtime handles one frame read from the pipe (`handle_event`) -/
def deliverFrame (reg : Registry) (l n : Nat) (rem : Nat → Rem) : VL.Frame → Nat → Rem
  | .event v => fun r => (rem r).bcast reg l (.value [v])
  | .syncEvent r v => upd rem r ((rem r).target reg l n (.value [v]))
  | .synced r => upd rem r ((rem r).target reg l n (.synced .value))

/-- One step of the composed system for the lane registered under id `l` in registry `reg`. -/
def cStep (reg : Registry) (l : Nat) (s : CSys) : COp → CSys
  | .set v => { s with lane := (VL.step s.lane (.set v)).1 }
  | .sync r => { s with lane := (VL.step s.lane (.sync r)).1, rem := upd s.rem r { s.rem r with asked := true } }
  | .write => { s with lane := (VL.step s.lane .write).1, pipe := s.pipe ++ (VL.step s.lane .write).2.1 }
  | .xfer =>
    match s.pipe with
    | [] => s
    | f :: rest => { s with pipe := rest, rem := deliverFrame reg l s.lane.history.length s.rem f }
  | .link r => { s with rem := upd s.rem r ((s.rem r).link reg l s.lane.history.length) }
  | .unlink r => { s with rem := upd s.rem r ((s.rem r).unlink reg l) }
  | .done r => { s with rem := upd s.rem r ((s.rem r).done reg) }

def cRun (reg : Registry) (l : Nat) (s : CSys) (ops : List COp) : CSys := ops.foldl (cStep reg l) s

/-! ### observables -/

/-- the event bodies remote `r` has been sent for the lane, in order -/
def CSys.delivered (s : CSys) (l r : Nat) : List Body := bodiesFor l (s.rem r).sys.delivered

/-- the values the lane held over time: the initial value, then every value set -/
def CSys.held (s : CSys) : List Nat := 0 :: s.lane.history

/-- nothing is owed to remote `r` any more: the lane has nothing to write, the pipe is empty, no write is in flight
(which, by the queue discipline, also means that nothing waits in `r`'s uplink buffers) -/
def CSys.quiescent (s : CSys) (r : Nat) : Prop :=
  s.lane.dirty = false ∧ s.lane.syncQueue = [] ∧ s.pipe = [] ∧ (s.rem r).sys.inflight = none

/-- the remote has a reason to have heard of the current value: a set happened while it was linked, or it asked for a
sync -/
def CSys.owed (s : CSys) (r : Nat) : Prop :=
  ((s.rem r).linked = true ∧ (s.rem r).since < s.lane.history.length) ∨ (s.rem r).asked = true

/-- remote `r` is never unlinked in `ops` -/
def staysLinked (r : Nat) (ops : List COp) : Prop := ∀ op, op ∈ ops → op ≠ .unlink r

/-- remote `r` never asks for a sync in `ops` -/
def neverSyncs (r : Nat) (ops : List COp) : Prop := ∀ op, op ∈ ops → op ≠ .sync r

end SwimVerif.VC
