import SwimVerif.Model.UplinkSys
import SwimVerif.Proofs.AssocList

set_option linter.unusedSimpArgs false
set_option linter.unusedVariables false
namespace SwimVerif.WT

/-! ### Queue discipline: pending work is always queued; an idle writer means nothing is pending -/

/-- Pending data or a pending `synced` of an uplink implies that the uplink is `queued`, and a `queued` uplink has
an entry in the write queue. -/
structure QInv (u : Uplinks) : Prop where
  value : ∀ l (up : Uplink ValueBp), alGet u.value l = some up →
    ((up.bp.pending = true ∨ up.sendSynced = true) → up.queued = true) ∧
    (up.queued = true → (Kind.value, l) ∈ u.writeQueue)
  supply : ∀ l (up : Uplink (List Bytes)), alGet u.supply l = some up →
    ((up.bp ≠ [] ∨ up.sendSynced = true) → up.queued = true) ∧
    (up.queued = true → (Kind.supply, l) ∈ u.writeQueue)
  map : ∀ l (up : Uplink (List MapOp)), alGet u.map l = some up →
    ((up.bp ≠ [] ∨ up.sendSynced = true) → up.queued = true) ∧
    (up.queued = true → (Kind.map, l) ∈ u.writeQueue)
  home : u.writerHome = true → u.specialQueue = [] ∧ u.writeQueue = []

theorem qinv_init : QInv {} := by
  constructor <;> simp [alGet]

theorem mem_enqueueIf (q : List (Kind × Nat)) (b : Bool) (e x : Kind × Nat) (h : x ∈ q) : x ∈ enqueueIf q b e := by
  unfold enqueueIf; split <;> simp [h]

theorem mem_enqueueIf_self (q : List (Kind × Nat)) (b : Bool) (e : Kind × Nat) (h : b = true → e ∈ q) :
    e ∈ enqueueIf q b e := by
  unfold enqueueIf; split
  · rename_i hb; exact h hb
  · simp

theorem qinv_pushSpecial {u : Uplinks} (h : QInv u) (a : Special) (reg : Registry) :
    QInv (u.pushSpecial a reg).1 := by
  unfold Uplinks.pushSpecial
  split
  · rename_i hh
    have := h.home hh
    constructor
    · intro l up hl; exact h.value l up hl
    · intro l up hl; exact h.supply l up hl
    · intro l up hl; exact h.map l up hl
    · intro hf; simp at hf
  · rename_i hh
    cases a with
    | linked id =>
      exact ⟨h.value, h.supply, h.map, fun hf => absurd hf (by simpa using hh)⟩
    | laneNotFound n =>
      exact ⟨h.value, h.supply, h.map, fun hf => absurd hf (by simpa using hh)⟩
    | unlinked id m =>
      refine ⟨?_, ?_, ?_, fun hf => absurd hf (by simpa using hh)⟩
      · intro l up hl
        simp only [alGet_alErase] at hl
        split at hl
        · simp at hl
        · exact h.value l up hl
      · intro l up hl
        simp only [alGet_alErase] at hl
        split at hl
        · simp at hl
        · exact h.supply l up hl
      · intro l up hl
        simp only [alGet_alErase] at hl
        split at hl
        · simp at hl
        · exact h.map l up hl

/-- Membership in the write queue is preserved by `enqueueIf`, so unmodified uplinks stay fine. -/
theorem qinv_other {β : Type} (get : Option (Uplink β)) (q : List (Kind × Nat)) (b : Bool) (e : Kind × Nat)
    (k : Kind) (l : Nat) (P : Uplink β → Prop) (up : Uplink β)
    (h : (P up → up.queued = true) ∧ (up.queued = true → (k, l) ∈ q)) :
    (P up → up.queued = true) ∧ (up.queued = true → (k, l) ∈ enqueueIf q b e) :=
  ⟨h.1, fun hq => mem_enqueueIf q b e _ (h.2 hq)⟩

theorem qinv_push {u : Uplinks} (h : QInv u) (lane : Nat) (ev : Resp) (reg : Registry) :
    QInv (u.push lane ev reg).1 := by
  unfold Uplinks.push
  split
  · rename_i hh
    exact ⟨h.value, h.supply, h.map, fun hf => by simp at hf⟩
  · rename_i hh
    have hnh : ¬ ((u.writerHome) = true) := hh
    -- an uplink that is already queued has its entry in the queue
    have qv : ∀ (d : Uplink ValueBp), ((alGet u.value lane).getD d).queued = true →
        d.queued = false → (Kind.value, lane) ∈ u.writeQueue := by
      intro d hq hd
      cases hg : alGet u.value lane with
      | none => simp [hg, hd] at hq
      | some up => simp [hg] at hq; exact (h.value lane up hg).2 hq
    have qs : ∀ (d : Uplink (List Bytes)), ((alGet u.supply lane).getD d).queued = true →
        d.queued = false → (Kind.supply, lane) ∈ u.writeQueue := by
      intro d hq hd
      cases hg : alGet u.supply lane with
      | none => simp [hg, hd] at hq
      | some up => simp [hg] at hq; exact (h.supply lane up hg).2 hq
    have qm : ∀ (d : Uplink (List MapOp)), ((alGet u.map lane).getD d).queued = true →
        d.queued = false → (Kind.map, lane) ∈ u.writeQueue := by
      intro d hq hd
      cases hg : alGet u.map lane with
      | none => simp [hg, hd] at hq
      | some up => simp [hg] at hq; exact (h.map lane up hg).2 hq
    cases ev with
    | value b =>
      refine ⟨?_, ?_, ?_, fun hf => absurd hf hnh⟩
      · intro l up hl
        simp only [alGet_alSet] at hl
        split at hl
        · rename_i heq; subst heq
          have : up = _ := (Option.some.inj hl).symm
          subst this
          exact ⟨fun _ => rfl, fun _ => mem_enqueueIf_self _ _ _ (fun hq => qv _ hq rfl)⟩
        · exact ⟨(h.value l up hl).1, fun hq => mem_enqueueIf _ _ _ _ ((h.value l up hl).2 hq)⟩
      · intro l up hl
        exact ⟨(h.supply l up hl).1, fun hq => mem_enqueueIf _ _ _ _ ((h.supply l up hl).2 hq)⟩
      · intro l up hl
        exact ⟨(h.map l up hl).1, fun hq => mem_enqueueIf _ _ _ _ ((h.map l up hl).2 hq)⟩
    | supply b =>
      refine ⟨?_, ?_, ?_, fun hf => absurd hf hnh⟩
      · intro l up hl
        exact ⟨(h.value l up hl).1, fun hq => mem_enqueueIf _ _ _ _ ((h.value l up hl).2 hq)⟩
      · intro l up hl
        simp only [alGet_alSet] at hl
        split at hl
        · rename_i heq; subst heq
          have : up = _ := (Option.some.inj hl).symm
          subst this
          exact ⟨fun _ => rfl, fun _ => mem_enqueueIf_self _ _ _ (fun hq => qs _ hq rfl)⟩
        · exact ⟨(h.supply l up hl).1, fun hq => mem_enqueueIf _ _ _ _ ((h.supply l up hl).2 hq)⟩
      · intro l up hl
        exact ⟨(h.map l up hl).1, fun hq => mem_enqueueIf _ _ _ _ ((h.map l up hl).2 hq)⟩
    | map op =>
      refine ⟨?_, ?_, ?_, fun hf => absurd hf hnh⟩
      · intro l up hl
        exact ⟨(h.value l up hl).1, fun hq => mem_enqueueIf _ _ _ _ ((h.value l up hl).2 hq)⟩
      · intro l up hl
        exact ⟨(h.supply l up hl).1, fun hq => mem_enqueueIf _ _ _ _ ((h.supply l up hl).2 hq)⟩
      · intro l up hl
        simp only [alGet_alSet] at hl
        split at hl
        · rename_i heq; subst heq
          have : up = _ := (Option.some.inj hl).symm
          subst this
          exact ⟨fun _ => rfl, fun _ => mem_enqueueIf_self _ _ _ (fun hq => qm _ hq rfl)⟩
        · exact ⟨(h.map l up hl).1, fun hq => mem_enqueueIf _ _ _ _ ((h.map l up hl).2 hq)⟩
    | synced k =>
      cases k with
      | value =>
        refine ⟨?_, ?_, ?_, fun hf => absurd hf hnh⟩
        · intro l up hl
          simp only [alGet_alSet] at hl
          split at hl
          · rename_i heq; subst heq
            have : up = _ := (Option.some.inj hl).symm
            subst this
            exact ⟨fun _ => rfl, fun _ => mem_enqueueIf_self _ _ _ (fun hq => qv _ hq rfl)⟩
          · exact ⟨(h.value l up hl).1, fun hq => mem_enqueueIf _ _ _ _ ((h.value l up hl).2 hq)⟩
        · intro l up hl
          exact ⟨(h.supply l up hl).1, fun hq => mem_enqueueIf _ _ _ _ ((h.supply l up hl).2 hq)⟩
        · intro l up hl
          exact ⟨(h.map l up hl).1, fun hq => mem_enqueueIf _ _ _ _ ((h.map l up hl).2 hq)⟩
      | supply =>
        refine ⟨?_, ?_, ?_, fun hf => absurd hf hnh⟩
        · intro l up hl
          exact ⟨(h.value l up hl).1, fun hq => mem_enqueueIf _ _ _ _ ((h.value l up hl).2 hq)⟩
        · intro l up hl
          simp only [alGet_alSet] at hl
          split at hl
          · rename_i heq; subst heq
            have : up = _ := (Option.some.inj hl).symm
            subst this
            exact ⟨fun _ => rfl, fun _ => mem_enqueueIf_self _ _ _ (fun hq => qs _ hq rfl)⟩
          · exact ⟨(h.supply l up hl).1, fun hq => mem_enqueueIf _ _ _ _ ((h.supply l up hl).2 hq)⟩
        · intro l up hl
          exact ⟨(h.map l up hl).1, fun hq => mem_enqueueIf _ _ _ _ ((h.map l up hl).2 hq)⟩
      | map =>
        refine ⟨?_, ?_, ?_, fun hf => absurd hf hnh⟩
        · intro l up hl
          exact ⟨(h.value l up hl).1, fun hq => mem_enqueueIf _ _ _ _ ((h.value l up hl).2 hq)⟩
        · intro l up hl
          exact ⟨(h.supply l up hl).1, fun hq => mem_enqueueIf _ _ _ _ ((h.supply l up hl).2 hq)⟩
        · intro l up hl
          simp only [alGet_alSet] at hl
          split at hl
          · rename_i heq; subst heq
            have : up = _ := (Option.some.inj hl).symm
            subst this
            exact ⟨fun _ => rfl, fun _ => mem_enqueueIf_self _ _ _ (fun hq => qm _ hq rfl)⟩
          · exact ⟨(h.map l up hl).1, fun hq => mem_enqueueIf _ _ _ _ ((h.map l up hl).2 hq)⟩

/-! ### `replace_and_pop` -/

/-- `QInv` while the head entry `(k0, l0)` has been taken off the queue (its own uplink may be `queued`). -/
structure QInvX (u : Uplinks) (k0 : Kind) (l0 : Nat) : Prop where
  value : ∀ l (up : Uplink ValueBp), alGet u.value l = some up →
    ((up.bp.pending = true ∨ up.sendSynced = true) → up.queued = true) ∧
    (up.queued = true → (Kind.value, l) ∈ u.writeQueue ∨ (k0 = Kind.value ∧ l0 = l))
  supply : ∀ l (up : Uplink (List Bytes)), alGet u.supply l = some up →
    ((up.bp ≠ [] ∨ up.sendSynced = true) → up.queued = true) ∧
    (up.queued = true → (Kind.supply, l) ∈ u.writeQueue ∨ (k0 = Kind.supply ∧ l0 = l))
  map : ∀ l (up : Uplink (List MapOp)), alGet u.map l = some up →
    ((up.bp ≠ [] ∨ up.sendSynced = true) → up.queued = true) ∧
    (up.queued = true → (Kind.map, l) ∈ u.writeQueue ∨ (k0 = Kind.map ∧ l0 = l))
  away : u.writerHome = false

theorem qinvx_of_head {u : Uplinks} (h : QInv u) (ha : u.writerHome = false) {k0 : Kind} {l0 : Nat}
    {rest : List (Kind × Nat)} (hq : u.writeQueue = (k0, l0) :: rest) :
    QInvX { u with writeQueue := rest } k0 l0 := by
  refine ⟨?_, ?_, ?_, ha⟩
  · intro l up hl
    refine ⟨(h.value l up hl).1, fun hqd => ?_⟩
    have := (h.value l up hl).2 hqd
    rw [hq] at this
    simp only [List.mem_cons, Prod.mk.injEq] at this
    rcases this with ⟨a, b⟩ | hm
    · right; exact ⟨a.symm, b.symm⟩
    · left; exact hm
  · intro l up hl
    refine ⟨(h.supply l up hl).1, fun hqd => ?_⟩
    have := (h.supply l up hl).2 hqd
    rw [hq] at this
    simp only [List.mem_cons, Prod.mk.injEq] at this
    rcases this with ⟨a, b⟩ | hm
    · right; exact ⟨a.symm, b.symm⟩
    · left; exact hm
  · intro l up hl
    refine ⟨(h.map l up hl).1, fun hqd => ?_⟩
    have := (h.map l up hl).2 hqd
    rw [hq] at this
    simp only [List.mem_cons, Prod.mk.injEq] at this
    rcases this with ⟨a, b⟩ | hm
    · right; exact ⟨a.symm, b.symm⟩
    · left; exact hm

theorem qinv_popEntry {u : Uplinks} {k0 : Kind} {l0 : Nat} (h : QInvX u k0 l0) (reg : Registry) :
    QInv (u.popEntry k0 l0 reg).1 ∧ (u.popEntry k0 l0 reg).1.writerHome = false ∧
    (u.popEntry k0 l0 reg).1.specialQueue = u.specialQueue ∧
    ((u.popEntry k0 l0 reg).2 = none → (u.popEntry k0 l0 reg).1.writeQueue = u.writeQueue) := by
  have ha := h.away
  cases k0 with
  | value =>
    simp only [Uplinks.popEntry]
    cases hg : alGet u.value l0 with
    | none =>
      refine ⟨⟨?_, ?_, ?_, fun hf => by simp [ha] at hf⟩, ha, rfl, fun _ => rfl⟩
      · intro l up hl
        refine ⟨(h.value l up hl).1, fun hq => ?_⟩
        rcases (h.value l up hl).2 hq with hm | ⟨_, rfl⟩
        · exact hm
        · rw [hg] at hl; simp at hl
      · intro l up hl
        refine ⟨(h.supply l up hl).1, fun hq => ?_⟩
        rcases (h.supply l up hl).2 hq with hm | ⟨hk, _⟩
        · exact hm
        · simp at hk
      · intro l up hl
        refine ⟨(h.map l up hl).1, fun hq => ?_⟩
        rcases (h.map l up hl).2 hq with hm | ⟨hk, _⟩
        · exact hm
        · simp at hk
    | some up0 =>
      simp only []
      have key : QInv { u with value := alSet u.value l0 { queued := false, sendSynced := false, bp := {} } } := by
        refine ⟨?_, ?_, ?_, fun hf => by simp [ha] at hf⟩
        · intro l up hl
          simp only [alGet_alSet] at hl
          split at hl
          · have : up = _ := (Option.some.inj hl).symm
            subst this
            exact ⟨fun hh => by simp at hh, fun hh => by simp at hh⟩
          · rename_i hne
            refine ⟨(h.value l up hl).1, fun hq => ?_⟩
            rcases (h.value l up hl).2 hq with hm | ⟨_, hl0⟩
            · exact hm
            · exact absurd hl0 hne
        · intro l up hl
          refine ⟨(h.supply l up hl).1, fun hq => ?_⟩
          rcases (h.supply l up hl).2 hq with hm | ⟨hk, _⟩
          · exact hm
          · simp at hk
        · intro l up hl
          refine ⟨(h.map l up hl).1, fun hq => ?_⟩
          rcases (h.map l up hl).2 hq with hm | ⟨hk, _⟩
          · exact hm
          · simp at hk
      exact ⟨key, ha, trivial, fun _ => trivial⟩
  | supply =>
    simp only [Uplinks.popEntry]
    cases hg : alGet u.supply l0 with
    | none =>
      refine ⟨⟨?_, ?_, ?_, fun hf => by simp [ha] at hf⟩, ha, rfl, fun _ => rfl⟩
      · intro l up hl
        refine ⟨(h.value l up hl).1, fun hq => ?_⟩
        rcases (h.value l up hl).2 hq with hm | ⟨hk, _⟩
        · exact hm
        · simp at hk
      · intro l up hl
        refine ⟨(h.supply l up hl).1, fun hq => ?_⟩
        rcases (h.supply l up hl).2 hq with hm | ⟨_, rfl⟩
        · exact hm
        · rw [hg] at hl; simp at hl
      · intro l up hl
        refine ⟨(h.map l up hl).1, fun hq => ?_⟩
        rcases (h.map l up hl).2 hq with hm | ⟨hk, _⟩
        · exact hm
        · simp at hk
    | some up0 =>
      simp only []
      have key : QInv { u with
          supply := alSet u.supply l0 { queued := !up0.bp.tail.isEmpty, sendSynced := false, bp := up0.bp.tail },
          writeQueue := if up0.bp.tail.isEmpty then u.writeQueue else u.writeQueue ++ [(Kind.supply, l0)] } := by
        have mono : ∀ x, x ∈ u.writeQueue →
            x ∈ (if up0.bp.tail.isEmpty then u.writeQueue else u.writeQueue ++ [(Kind.supply, l0)]) := by
          intro x hx; split <;> simp [hx]
        refine ⟨?_, ?_, ?_, fun hf => by simp [ha] at hf⟩
        · intro l up hl
          refine ⟨(h.value l up hl).1, fun hq => ?_⟩
          rcases (h.value l up hl).2 hq with hm | ⟨hk, _⟩
          · exact mono _ hm
          · simp at hk
        · intro l up hl
          simp only [alGet_alSet] at hl
          split at hl
          · have : up = _ := (Option.some.inj hl).symm
            subst this
            refine ⟨fun hh => ?_, fun hh => ?_⟩
            · rcases hh with hh | hh
              · simp only [Bool.not_eq_true', List.isEmpty_eq_false_iff]
                exact hh
              · simp at hh
            · simp only [Bool.not_eq_true'] at hh
              rename_i heq
              subst heq
              simp [hh]
          · rename_i hne
            refine ⟨(h.supply l up hl).1, fun hq => ?_⟩
            rcases (h.supply l up hl).2 hq with hm | ⟨_, hl0⟩
            · exact mono _ hm
            · exact absurd hl0 hne
        · intro l up hl
          refine ⟨(h.map l up hl).1, fun hq => ?_⟩
          rcases (h.map l up hl).2 hq with hm | ⟨hk, _⟩
          · exact mono _ hm
          · simp at hk
      refine ⟨key, ha, trivial, fun hn => ?_⟩
      -- no notes ⇒ the buffer was empty ⇒ nothing is re-queued
      have : up0.bp = [] := by
        cases hb : up0.bp with
        | nil => rfl
        | cons b bs => simp [hb] at hn
      simp [this]
  | map =>
    simp only [Uplinks.popEntry]
    cases hg : alGet u.map l0 with
    | none =>
      refine ⟨⟨?_, ?_, ?_, fun hf => by simp [ha] at hf⟩, ha, rfl, fun _ => rfl⟩
      · intro l up hl
        refine ⟨(h.value l up hl).1, fun hq => ?_⟩
        rcases (h.value l up hl).2 hq with hm | ⟨hk, _⟩
        · exact hm
        · simp at hk
      · intro l up hl
        refine ⟨(h.supply l up hl).1, fun hq => ?_⟩
        rcases (h.supply l up hl).2 hq with hm | ⟨hk, _⟩
        · exact hm
        · simp at hk
      · intro l up hl
        refine ⟨(h.map l up hl).1, fun hq => ?_⟩
        rcases (h.map l up hl).2 hq with hm | ⟨_, rfl⟩
        · exact hm
        · rw [hg] at hl; simp at hl
    | some up0 =>
      simp only []
      -- the three outcomes all leave an uplink `{queued := q, sendSynced := false, bp := b}` with `q = (b ≠ [])`
      have key : ∀ (b : List MapOp) (wq : List (Kind × Nat)),
          (∀ x, x ∈ u.writeQueue → x ∈ wq) → (b ≠ [] → (Kind.map, l0) ∈ wq) →
          QInv { u with map := alSet u.map l0 { queued := !b.isEmpty, sendSynced := false, bp := b },
                        writeQueue := wq } := by
        intro b wq mono hb
        refine ⟨?_, ?_, ?_, fun hf => by simp [ha] at hf⟩
        · intro l up hl
          refine ⟨(h.value l up hl).1, fun hq => ?_⟩
          rcases (h.value l up hl).2 hq with hm | ⟨hk, _⟩
          · exact mono _ hm
          · simp at hk
        · intro l up hl
          refine ⟨(h.supply l up hl).1, fun hq => ?_⟩
          rcases (h.supply l up hl).2 hq with hm | ⟨hk, _⟩
          · exact mono _ hm
          · simp at hk
        · intro l up hl
          simp only [alGet_alSet] at hl
          split at hl
          · have : up = _ := (Option.some.inj hl).symm
            subst this
            refine ⟨fun hh => ?_, fun hh => ?_⟩
            · rcases hh with hh | hh
              · simp only [Bool.not_eq_true', List.isEmpty_eq_false_iff]; exact hh
              · simp at hh
            · simp only [Bool.not_eq_true', List.isEmpty_eq_false_iff] at hh
              rename_i heq
              subst heq
              exact hb hh
          · rename_i hne
            refine ⟨(h.map l up hl).1, fun hq => ?_⟩
            rcases (h.map l up hl).2 hq with hm | ⟨_, hl0⟩
            · exact mono _ hm
            · exact absurd hl0 hne
      split
      · have := key [] u.writeQueue (fun _ hx => hx) (fun hh => absurd rfl hh)
        exact ⟨by simpa using this, ha, rfl, fun hn => by simp at hn⟩
      · split
        · rename_i hb
          have := key [] u.writeQueue (fun _ hx => hx) (fun hh => absurd rfl hh)
          exact ⟨by simpa using this, ha, rfl, fun _ => rfl⟩
        · rename_i op rest hb
          have := key rest (if rest.isEmpty then u.writeQueue else u.writeQueue ++ [(Kind.map, l0)])
            (fun x hx => by split <;> simp [hx])
            (fun hh => by
              have : rest.isEmpty = false := by simpa using hh
              simp [this])
          exact ⟨this, ha, rfl, fun hn => by simp at hn⟩

theorem qinv_popLoop (reg : Registry) : ∀ (fuel : Nat) (u : Uplinks), QInv u → u.writerHome = false →
    u.specialQueue = [] → u.writeQueue.length < fuel →
    QInv (u.popLoop reg fuel).1 ∧
    ((u.popLoop reg fuel).1.writerHome = true ↔ (u.popLoop reg fuel).2 = none) := by
  intro fuel
  induction fuel with
  | zero => intro u _ _ _ hlen; exact absurd hlen (Nat.not_lt_zero _)
  | succ fuel ih =>
    intro u h ha hs hlen
    unfold Uplinks.popLoop
    cases hq : u.writeQueue with
    | nil =>
      simp only []
      refine ⟨⟨?_, ?_, ?_, fun _ => ⟨hs, rfl⟩⟩, by simp⟩
      · intro l up hl
        refine ⟨(h.value l up hl).1, fun hqd => ?_⟩
        have := (h.value l up hl).2 hqd; rw [hq] at this; simp at this
      · intro l up hl
        refine ⟨(h.supply l up hl).1, fun hqd => ?_⟩
        have := (h.supply l up hl).2 hqd; rw [hq] at this; simp at this
      · intro l up hl
        refine ⟨(h.map l up hl).1, fun hqd => ?_⟩
        have := (h.map l up hl).2 hqd; rw [hq] at this; simp at this
    | cons e rest =>
      obtain ⟨k0, l0⟩ := e
      simp only []
      have hx := qinvx_of_head h ha hq
      have hp := qinv_popEntry hx reg
      cases hr : (Uplinks.popEntry { u with writeQueue := rest } k0 l0 reg).2 with
      | some w =>
        simp only []
        exact ⟨hp.1, by simp [hp.2.1]⟩
      | none =>
        simp only []
        have hwq := hp.2.2.2 hr
        apply ih _ hp.1 hp.2.1
        · rw [hp.2.2.1]; exact hs
        · rw [hwq]
          have : u.writeQueue.length = rest.length + 1 := by rw [hq]; rfl
          show rest.length < fuel
          omega

theorem qinv_replaceAndPop {u : Uplinks} (h : QInv u) (ha : u.writerHome = false) (reg : Registry) :
    QInv (u.replaceAndPop reg).1 ∧
    ((u.replaceAndPop reg).1.writerHome = true ↔ (u.replaceAndPop reg).2 = none) := by
  unfold Uplinks.replaceAndPop
  cases hs : u.specialQueue with
  | cons sp rest =>
    simp only []
    exact ⟨⟨h.value, h.supply, h.map, fun hf => by simp [ha] at hf⟩, by simp [ha]⟩
  | nil =>
    simp only []
    exact qinv_popLoop reg _ u h ha hs (Nat.lt_succ_self _)

/-- Invariant of the per-remote system: the queue discipline, and the writer is away exactly while a write
is in flight. -/
structure UInv (s : USys) : Prop where
  q : QInv s.up
  w : s.up.writerHome = true ↔ s.inflight = none

theorem uinv_init : UInv {} := ⟨qinv_init, by simp⟩

theorem uinv_step (reg : Registry) {s : USys} (h : UInv s) (op : UOp) : UInv (ustep reg s op) := by
  cases op with
  | special a =>
    simp only [ustep]
    refine ⟨qinv_pushSpecial h.q a reg, ?_⟩
    unfold Uplinks.pushSpecial
    split
    · simp
    · rename_i hh
      have : s.inflight ≠ none := fun hn => hh (h.w.mpr hn)
      cases a <;> simp [this] <;> exact (by simpa using hh)
  | push lane resp =>
    simp only [ustep]
    refine ⟨qinv_push h.q lane resp reg, ?_⟩
    unfold Uplinks.push
    split
    · simp
    · rename_i hh
      have : s.inflight ≠ none := fun hn => hh (h.w.mpr hn)
      cases resp with
      | synced k => cases k <;> simp [this] <;> exact (by simpa using hh)
      | value b => simp [this]; exact (by simpa using hh)
      | supply b => simp [this]; exact (by simpa using hh)
      | map op => simp [this]; exact (by simpa using hh)
  | done =>
    simp only [ustep]
    cases hi : s.inflight with
    | none => simpa [hi] using h
    | some w =>
      simp only []
      have ha : s.up.writerHome = false := by
        cases hw : s.up.writerHome with
        | false => rfl
        | true => have := h.w.mp hw; rw [hi] at this; simp at this
      have := qinv_replaceAndPop h.q ha reg
      exact ⟨this.1, this.2⟩

theorem uinv_run (reg : Registry) {s : USys} (h : UInv s) (ops : List UOp) : UInv (urun reg s ops) := by
  induction ops generalizing s with
  | nil => exact h
  | cons op ops ih => exact ih (uinv_step reg h op)

end SwimVerif.WT
