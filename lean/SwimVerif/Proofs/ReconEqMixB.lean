/-
C15, mixed layouts: the statements carried through the induction over a value (aligned mode `AlV/AlI/AlA/AlB`, and
the modes in which the left stream has one `StartBody` more to come: `QV/QIs/QIb`) and their cases as lemmas.
-/
import SwimVerif.Proofs.ReconEqMixA

namespace SwimVerif.ReconEq
open SwimVerif.Recon

/-! ### more single steps of the validator -/

theorem feed_startBody_nk (key : KeyState) (attrs : Nat) (items : ItemCollection) (rest : List BuilderState) :
    ((S (F key true attrs items :: rest) none).feed .startBody).1
      = S (F .noKey true 0 {} :: F key true attrs items :: rest) none := rfl

theorem feed_endRecord_nk (a : Nat) (c : ItemCollection) (key : KeyState) (attrs : Nat) (items : ItemCollection)
    (rest : List BuilderState) :
    ((S (F .noKey true a c :: F key true attrs items :: rest) none).feed .endRecord).1
      = S (F key true attrs (items.push (.value (.record a c.itemsLen))) :: rest) none := rfl

theorem feed_endRecord_nk_snd (a : Nat) (c : ItemCollection) (key : KeyState) (attrs : Nat) (items : ItemCollection)
    (rest : List BuilderState) :
    ((S (F .noKey true a c :: F key true attrs items :: rest) none).feed .endRecord).2 = none := rfl

theorem feed_endRecord_top (a : Nat) (c : ItemCollection) :
    ((S [F .noKey true a c] none).feed .endRecord).1 = {} := rfl

theorem itemsLen_pushItems_nil (i : Items) : (pushItems {} i).itemsLen = ilen i := by
  rw [itemsLen_pushItems]
  have h0 : ({} : ItemCollection).itemsLen = 0 := rfl
  rw [h0, Nat.zero_add]

/-- Number of `push`es the items of a body make (a slot counts twice: its key is pushed first). -/
def icount : Items → Nat
  | .nil => 0
  | .val _ r => 1 + icount r
  | .slot _ _ r => 2 + icount r

theorem count_pushItems : (i : Items) → (c : ItemCollection) → (pushItems c i).itemsCount = c.itemsCount + icount i
  | .nil, c => by simp [pushItems, icount]
  | .val v r, c => by
    simp only [pushItems, icount]
    rw [count_pushItems r]
    simp only [ItemCollection.push]
    omega
  | .slot k v r, c => by
    simp only [pushItems, icount]
    rw [count_pushItems r]
    simp only [ItemCollection.push]
    omega

theorem implicit_count {i : Items} (h : implicitBody (.record .nil i) = true) : 2 ≤ icount i := by
  cases i with
  | nil => simp [implicitBody] at h
  | val v r => cases r <;> simp [implicitBody, icount] at h ⊢ <;> omega
  | slot k v r => simp only [icount]; omega

/-- The end of an attribute whose body was an implicit record. -/
theorem feed_endAttr_implicit (i : Items) (hi : implicitBody (.record .nil i) = true) (key : KeyState) (m : Nat)
    (it : ItemCollection) (rest : List BuilderState) :
    ((S (F .attr true 0 (pushItems {} i) :: F key false m it :: rest) none).feed .endAttr).1
      = S (F key false (m + (ValueType.record 0 (ilen i)).len) it :: rest) none := by
  have hc : 2 ≤ (pushItems {} i).itemsCount := by
    rw [count_pushItems]; have := implicit_count hi; omega
  have hn : ¬ ((pushItems {} i).itemsCount ≤ 1) := by omega
  simp only [VV.feed, VV.pop, Event.isPrim, Bool.false_eq_true, ↓reduceIte, itemsLen_pushItems_nil, true_and, hn]
  try rfl

theorem prim_not_brace {e : Event} (h : e.isPrim = true) : e.isBrace = false ∧ e.beq .endRecord = false := by
  cases e <;> simp [Event.isPrim] at h <;> exact ⟨rfl, rfl⟩

theorem vtype_recnil (i : Items) : vtype (.record .nil i) = .record 0 (ilen i) := by simp [vtype, alen]

/-- A value that is not a record is one primitive event in every layout. -/
theorem evsG_nonrec (x : Value) (h : ∀ a i, x ≠ .record a i) :
    ∃ e, e.isPrim = true ∧ (∀ ch, evsG ch x = [e]) ∧ vtype x = .primitive := by
  cases x with
  | extant => exact ⟨.extant, rfl, fun _ => by simp [evsG], by simp [vtype]⟩
  | int k n => exact ⟨.num (numOfInt n), rfl, fun _ => by simp [evsG], by simp [vtype]⟩
  | float f => exact ⟨.num (.float f), rfl, fun _ => by simp [evsG], by simp [vtype]⟩
  | bool b => exact ⟨.bool b, rfl, fun _ => by simp [evsG], by simp [vtype]⟩
  | text s => exact ⟨.text s, rfl, fun _ => by simp [evsG], by simp [vtype]⟩
  | data bs => exact ⟨.blob bs, rfl, fun _ => by simp [evsG], by simp [vtype]⟩
  | record a i => exact absurd rfl (h a i)

theorem bodyG_implicit {ch : List Char → Bool} {n : List Char} {i : Items}
    (h : (ch n && implicitBody (.record .nil i)) = true) : bodyG ch n (.record .nil i) = evsGI ch i := by
  simp only [bodyG, h, ↓reduceIte]

theorem bodyG_braced {ch : List Char → Bool} {n : List Char} {i : Items}
    (h : ¬ (ch n && implicitBody (.record .nil i)) = true) :
    bodyG ch n (.record .nil i) = .startBody :: (evsGI ch i ++ [.endRecord]) := by
  simp only [bodyG, h, Bool.false_eq_true, ↓reduceIte]

/-! ### the statements -/

/-- The two stacks below (and including, whatever its items) the builder the next item goes into. -/
def TopRel (k1 : KeyState) (a1 : Nat) (s1 : List BuilderState) (k2 : KeyState) (a2 : Nat) (s2 : List BuilderState) :
    Prop := ∀ c, SR (F k1 true a1 c :: s1) (F k2 true a2 c :: s2)

/-- Aligned mode, a value in item position. -/
def AlV (x : Value) : Prop :=
  ∀ (ch1 ch2 : List Char → Bool) (k1 : KeyState) (a1 : Nat) (s1 : List BuilderState) (k2 : KeyState) (a2 : Nat)
    (s2 : List BuilderState) (c : ItemCollection) (sk : Option ValueType) (r1 r2 : List Event),
    TopRel k1 a1 s1 k2 a2 s2 →
    Ok (S (F k1 true a1 (c.push (mkItem sk (vtype x))) :: s1) none)
      (S (F k2 true a2 (c.push (mkItem sk (vtype x))) :: s2) none) r1 r2 →
    Ready (S (F k1 true a1 c :: s1) sk) (S (F k2 true a2 c :: s2) sk) (evsG ch1 x ++ r1) (evsG ch2 x ++ r2)

/-- Aligned mode, the items of a body. -/
def AlI (i : Items) : Prop :=
  ∀ (ch1 ch2 : List Char → Bool) (k1 : KeyState) (a1 : Nat) (s1 : List BuilderState) (k2 : KeyState) (a2 : Nat)
    (s2 : List BuilderState) (c : ItemCollection) (r1 r2 : List Event),
    TopRel k1 a1 s1 k2 a2 s2 →
    Ok (S (F k1 true a1 (pushItems c i) :: s1) none) (S (F k2 true a2 (pushItems c i) :: s2) none) r1 r2 →
    Ok (S (F k1 true a1 c :: s1) none) (S (F k2 true a2 c :: s2) none) (evsGI ch1 i ++ r1) (evsGI ch2 i ++ r2) ∧
    (i ≠ .nil →
      Ready (S (F k1 true a1 c :: s1) none) (S (F k2 true a2 c :: s2) none) (evsGI ch1 i ++ r1) (evsGI ch2 i ++ r2))

/-- Aligned mode, the attributes of a record (its builder not yet in its body). -/
def AlA (a : Attrs) : Prop :=
  ∀ (ch1 ch2 : List Char → Bool) (key : KeyState) (m : Nat) (it : ItemCollection) (s1 s2 : List BuilderState)
    (r1 r2 : List Event), SR s1 s2 →
    Ok (S (F key false (m + alen a) it :: s1) none) (S (F key false (m + alen a) it :: s2) none) r1 r2 →
    Ok (S (F key false m it :: s1) none) (S (F key false m it :: s2) none) (evsGA ch1 a ++ r1) (evsGA ch2 a ++ r2)

/-- The body of one attribute, after its `StartAttribute`, up to and including its `EndAttribute`. -/
def AlB (n : List Char) (v : Value) : Prop :=
  ∀ (ch1 ch2 : List Char → Bool) (key : KeyState) (m : Nat) (it : ItemCollection) (s1 s2 : List BuilderState)
    (R1 R2 : List Event), SR s1 s2 →
    Ok (S (F key false (m + (vtype v).len) it :: s1) none) (S (F key false (m + (vtype v).len) it :: s2) none) R1 R2 →
    Ok (S (F .attr true 0 {} :: F key false m it :: s1) none) (S (F .attr true 0 {} :: F key false m it :: s2) none)
      (bodyG ch1 n v ++ .endAttr :: R1) (bodyG ch2 n v ++ .endAttr :: R2)

/-- The left stream has one more `StartBody` in front of the value (its explicit body brace, not yet fed). -/
def QV (x : Value) : Prop :=
  ∀ (ch1 ch2 : List Char → Bool) (k : KeyState) (a : Nat) (s1 s2 : List BuilderState) (r1 r2 : List Event),
    SR s1 s2 → (∀ c, SR (F .noKey true 0 c :: F k true a {} :: s1) (F k true a c :: s2)) →
    Ready (S (F .noKey true 0 (({} : ItemCollection).push (.value (vtype x))) :: F k true a {} :: s1) none)
      (S (F k true a (({} : ItemCollection).push (.value (vtype x))) :: s2) none) r1 r2 →
    Ok (S (F k true a {} :: s1) none) (S (F k true a {} :: s2) none)
      (.startBody :: (evsG ch1 x ++ r1)) (evsG ch2 x ++ r2)

/-- The same inside a record that both sides have opened: the left stream's pending `StartBody`, the items, the
record's `EndRecord`. -/
def QIs (i : Items) : Prop :=
  ∀ (ch1 ch2 : List Char → Bool) (k : KeyState) (a : Nat) (s1 s2 : List BuilderState) (r1 r2 : List Event),
    SR s1 s2 → (∀ c, SR (F .noKey true 0 c :: F k true a {} :: s1) (F k true a c :: s2)) →
    Ready (S (F .noKey true 0 (({} : ItemCollection).push (.value (.record 0 (ilen i)))) :: F k true a {} :: s1) none)
      (S (F k true a (({} : ItemCollection).push (.value (.record 0 (ilen i)))) :: s2) none) r1 r2 →
    Ok (S (F .noKey true 0 {} :: F k true a {} :: s1) none) (S (F .noKey true 0 {} :: F k true a {} :: s2) none)
      (.startBody :: (evsGI ch1 i ++ .endRecord :: r1)) (evsGI ch2 i ++ .endRecord :: r2)

/-- An attribute body that is explicit on the left and implicit on the right. -/
def QIb (i : Items) : Prop :=
  ∀ (ch1 ch2 : List Char → Bool) (key : KeyState) (m : Nat) (it : ItemCollection) (s1 s2 : List BuilderState)
    (R1 R2 : List Event), SR s1 s2 → implicitBody (.record .nil i) = true →
    Ok (S (F key false (m + (ValueType.record 0 (ilen i)).len) it :: s1) none)
      (S (F key false (m + (ValueType.record 0 (ilen i)).len) it :: s2) none) R1 R2 →
    Ok (S (F .attr true 0 {} :: F key false m it :: s1) none) (S (F .attr true 0 {} :: F key false m it :: s2) none)
      (.startBody :: (evsGI ch1 i ++ .endRecord :: .endAttr :: R1)) (evsGI ch2 i ++ .endAttr :: R2)

def TV (x : Value) : Prop := AlV x ∧ QV x ∧ ∀ i, x = .record .nil i → AlI i ∧ QIb i
def TI (i : Items) : Prop := AlI i ∧ QIs i ∧ QIb i

/-! ### primitives -/

theorem alv_prim (x : Value) (h : ∀ a i, x ≠ .record a i) : AlV x := by
  obtain ⟨e, he, hev, hvt⟩ := evsG_nonrec x h
  intro ch1 ch2 k1 a1 s1 k2 a2 s2 c sk r1 r2 hT hK
  rw [hev, hev, hvt] at *
  simp only [List.cons_append, List.nil_append]
  apply Ready_match (Event.beq_refl e) (prim_not_brace he).2
  · simp only [feed_prim _ _ _ _ _ _ he]; exact beq_of_SR none (hT _)
  · simp only [feed_prim _ _ _ _ _ _ he]; exact hK

theorem qv_prim (x : Value) (h : ∀ a i, x ≠ .record a i) : QV x := by
  obtain ⟨e, he, hev, hvt⟩ := evsG_nonrec x h
  intro ch1 ch2 k a s1 s2 r1 r2 hS hT hR
  rw [hev, hev]
  rw [hvt] at hR
  simp only [List.cons_append, List.nil_append]
  apply Ok_skipSB_left (prim_not_brace he).1 (prim_not_brace he).1 (Event.beq_refl e)
  · simp only [feed_startBody_nk, feed_prim _ _ _ _ _ _ he]; exact beq_of_SR none (hT _)
  · simp only [feed_startBody_nk, feed_prim _ _ _ _ _ _ he]; exact hR.ok

theorem tv_prim (x : Value) (h : ∀ a i, x ≠ .record a i) : TV x :=
  ⟨alv_prim x h, qv_prim x h, fun i hx => absurd hx (h _ _)⟩

/-! ### items, aligned -/

theorem ali_nil : AlI .nil := by
  intro ch1 ch2 k1 a1 s1 k2 a2 s2 c r1 r2 _ hK
  simp only [pushItems] at hK
  simp only [evsGI, List.nil_append]
  exact ⟨hK, fun h => absurd rfl h⟩

theorem ali_val (x : Value) (rest : Items) (hx : AlV x) (hr : AlI rest) : AlI (.val x rest) := by
  intro ch1 ch2 k1 a1 s1 k2 a2 s2 c r1 r2 hT hK
  simp only [pushItems] at hK
  have hrest := hr ch1 ch2 k1 a1 s1 k2 a2 s2 (c.push (.value (vtype x))) r1 r2 hT hK
  have hR := hx ch1 ch2 k1 a1 s1 k2 a2 s2 c none _ _ hT hrest.1
  simp only [evsGI, List.append_assoc]
  exact ⟨hR.ok, fun _ => hR⟩

/-- `: value, rest…` after a slot key that has gone in as the item `t`. -/
theorem slot_tail (v : Value) (rest : Items) (hv : AlV v) (hr : AlI rest) (ch1 ch2 : List Char → Bool)
    (k1 : KeyState) (a1 : Nat) (s1 : List BuilderState) (k2 : KeyState) (a2 : Nat) (s2 : List BuilderState)
    (c : ItemCollection) (t : ValueType) (t1 t2 : List Event) (hT : TopRel k1 a1 s1 k2 a2 s2)
    (hK : Ok (S (F k1 true a1 (pushItems (({ (c.push (.value t)) with last := none } : ItemCollection).push
              (.slot t (vtype v))) rest) :: s1) none)
          (S (F k2 true a2 (pushItems (({ (c.push (.value t)) with last := none } : ItemCollection).push
              (.slot t (vtype v))) rest) :: s2) none) t1 t2) :
    Ready (S (F k1 true a1 (c.push (.value t)) :: s1) none) (S (F k2 true a2 (c.push (.value t)) :: s2) none)
      (.slot :: (evsG ch1 v ++ (evsGI ch1 rest ++ t1))) (.slot :: (evsG ch2 v ++ (evsGI ch2 rest ++ t2))) := by
  have hrest := hr ch1 ch2 k1 a1 s1 k2 a2 s2 _ t1 t2 hT hK
  have hv' := hv ch1 ch2 k1 a1 s1 k2 a2 s2 { (c.push (.value t)) with last := none } (some t) _ _ hT hrest.1
  apply Ready_match rfl rfl
  · simp only [feed_slot]; exact beq_of_SR _ (hT _)
  · simp only [feed_slot]; exact hv'.ok

theorem ali_slot (k0 v : Value) (rest : Items) (hk : AlV k0) (hv : AlV v) (hr : AlI rest) :
    AlI (.slot k0 v rest) := by
  intro ch1 ch2 k1 a1 s1 k2 a2 s2 c r1 r2 hT hK
  simp only [pushItems] at hK
  have htail := slot_tail v rest hv hr ch1 ch2 k1 a1 s1 k2 a2 s2 c (vtype k0) r1 r2 hT hK
  have hR := hk ch1 ch2 k1 a1 s1 k2 a2 s2 c none _ _ hT htail.ok
  simp only [evsGI, List.append_assoc, List.cons_append]
  exact ⟨hR.ok, fun _ => hR⟩

/-- With a continuation that is itself `Ready`, so are the items (also when there are none). -/
theorem ali_ready (i : Items) (hi : AlI i) (ch1 ch2 : List Char → Bool) (k1 : KeyState) (a1 : Nat)
    (s1 : List BuilderState) (k2 : KeyState) (a2 : Nat) (s2 : List BuilderState) (c : ItemCollection)
    (r1 r2 : List Event) (hT : TopRel k1 a1 s1 k2 a2 s2)
    (hK : Ready (S (F k1 true a1 (pushItems c i) :: s1) none) (S (F k2 true a2 (pushItems c i) :: s2) none) r1 r2) :
    Ready (S (F k1 true a1 c :: s1) none) (S (F k2 true a2 c :: s2) none) (evsGI ch1 i ++ r1) (evsGI ch2 i ++ r2) := by
  by_cases h : i = .nil
  · subst h
    simp only [pushItems] at hK
    simpa only [evsGI, List.nil_append] using hK
  · exact (hi ch1 ch2 k1 a1 s1 k2 a2 s2 c r1 r2 hT hK.ok).2 h

end SwimVerif.ReconEq
