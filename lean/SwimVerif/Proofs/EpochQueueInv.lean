/-
The executable index invariant `Q.invOk` of `Model/EpochQueue.lean` (run by the driver on every step) is equivalent to
the Prop-level `Inv` of `Proofs/EpochQueue.lean`.
-/
import SwimVerif.Proofs.EpochQueue

set_option linter.unusedVariables false
namespace SwimVerif.EQV

/-- the four conjuncts of `invOk`, as propositions -/
structure InvB (q : Q) : Prop where
  head_lt : q.head < M64
  map_ok : ∀ p, p ∈ q.emap → ∃ i, q.slot p.1 = some i ∧ (q.events[i]?.bind Entry.key?) = some p.1 ∧
    (q.head + i) % M64 = p.2
  ev_ok : ∀ i, i < q.events.length → ∀ e, q.events[i]? = some e →
    (∀ k, e.key? = some k → alGet q.emap k = some ((q.head + i) % M64)) ∧ (e.key? = none → i = 0)
  nodup : (alKeys q.emap).Nodup

theorem invOk_iff_invB (q : Q) : q.invOk = true ↔ InvB q := by
  unfold Q.invOk
  simp only [Bool.and_eq_true, decide_eq_true_eq, List.all_eq_true, List.mem_range]
  constructor
  · intro ⟨⟨⟨h1, h2⟩, h3⟩, h4⟩
    refine ⟨h1, ?_, ?_, ?_⟩
    · intro p hp
      have := h2 p hp
      cases hs : q.slot p.1 with
      | none => simp [hs] at this
      | some i => simp [hs] at this; exact ⟨i, rfl, this.1, this.2⟩
    · intro i hi e he
      have := h3 i hi
      simp only [he] at this
      cases hk : e.key? with
      | none => simp [hk] at this; simp [this]
      | some k => simp [hk] at this; simp [this]
    · have := (eraseDups_length_beq_iff_nodup (q.emap.map (·.1)))
      rw [List.length_map] at this
      exact this.mp h4
  · intro ⟨h1, h2, h3, h4⟩
    refine ⟨⟨⟨h1, ?_⟩, ?_⟩, ?_⟩
    · intro p hp
      obtain ⟨i, hs, ha, hb⟩ := h2 p hp
      simp [hs, ha, hb]
    · intro i hi
      cases he : q.events[i]? with
      | none => simp
      | some e =>
        have := h3 i hi e he
        cases hk : e.key? with
        | none => simp [hk, this.2 hk]
        | some k => simp [hk, this.1 k hk]
    · have := (eraseDups_length_beq_iff_nodup (q.emap.map (·.1)))
      rw [List.length_map] at this
      exact this.mpr h4

theorem invB_iff_inv (q : Q) : InvB q ↔ Inv q := by
  constructor
  · intro h
    refine ⟨h.head_lt, ?_, ?_, h.nodup⟩
    · intro k e hg
      obtain ⟨i, hs, ha, hb⟩ := h.map_ok (k, e) (alGet_some_mem hg)
      obtain ⟨e', hg', hi, hlt⟩ := slot_eq_some hs
      have : e' = e := by rw [hg] at hg'; injection hg' with hg'; exact hg'.symm
      subst this
      rw [hi]; exact ⟨hlt, ha, hb⟩
    · intro i e he
      exact h.ev_ok i (List.getElem?_eq_some_iff.mp he).1 e he
  · intro h
    refine ⟨h.head_lt, ?_, ?_, h.nodup⟩
    · intro p hp
      have hg := alGet_of_mem_nodup h.nodup hp
      obtain ⟨a, b, c⟩ := h.map_ok p.1 p.2 hg
      exact ⟨_, slot_of_get hg a, b, c⟩
    · intro i _ e he
      exact h.ev_ok i e he

/-- **the executable invariant is the Prop-level invariant** -/
theorem invOk_iff_inv (q : Q) : q.invOk = true ↔ Inv q := (invOk_iff_invB q).trans (invB_iff_inv q)

end SwimVerif.EQV
