/-
Lift of the one-step refinement of `Proofs/EpochQueue.lean` to every sequence of `push` / `pop` — the very runs the
driver executes (`EQV.stepLine`: the indexed queue and the specification queue side by side).
-/
import SwimVerif.Proofs.EpochQueueInv

set_option linter.unusedVariables false
namespace SwimVerif.EQV

inductive Op
  | push (a : Entry)
  | pop
  deriving DecidableEq, Repr

/-- the indexed queue (what `stepLine` does to `St.q`) -/
def stepQ (q : Q) : Op → Q
  | .push a => q.push a
  | .pop => q.pop.2

def runQ (q : Q) (ops : List Op) : Q := ops.foldl stepQ q

/-- the specification queue (what `stepLine` does to `St.spec`) -/
def specStep (s : List Entry) : Op → List Entry
  | .push a => specPush s a
  | .pop => s.tail

def specRun (s : List Entry) (ops : List Op) : List Entry := ops.foldl specStep s

@[simp] theorem runQ_nil (q : Q) : runQ q [] = q := rfl
@[simp] theorem runQ_cons (q : Q) (op : Op) (ops : List Op) : runQ q (op :: ops) = runQ (stepQ q op) ops := rfl
@[simp] theorem specRun_nil (s : List Entry) : specRun s [] = s := rfl
@[simp] theorem specRun_cons (s : List Entry) (op : Op) (ops : List Op) :
    specRun s (op :: ops) = specRun (specStep s op) ops := rfl

theorem step_refines {q : Q} (h : Inv q) (hlen : q.events.length < M64) (op : Op) :
    (stepQ q op).events = specStep q.events op ∧ Inv (stepQ q op) := by
  cases op with
  | push a => exact push_refines h hlen a
  | pop => exact (pop_refines h (by omega)).2

/-- **Along every run** whose (specification) queue never holds 2^64 - 1 entries, the indexed queue keeps its index
invariant and holds exactly the specification queue. -/
theorem run_refines : ∀ (ops : List Op) (q : Q), Inv q →
    (∀ n, (specRun q.events (ops.take n)).length + 1 < M64) →
    Inv (runQ q ops) ∧ (runQ q ops).events = specRun q.events ops := by
  intro ops
  induction ops with
  | nil => intro q h _; exact ⟨h, rfl⟩
  | cons op ops ih =>
    intro q h hb
    have h0 : q.events.length + 1 < M64 := by simpa using hb 0
    obtain ⟨he, hi⟩ := step_refines h (by omega) op
    have := ih (stepQ q op) hi (by
      intro n; have := hb (n + 1); rw [he]; simpa using this)
    rw [he] at this
    exact this

/-! a sufficient, purely syntactic bound: fewer than 2^64 - 1 operations on a queue that starts empty -/

theorem specReplace_length (a : Entry) (k : Nat) : ∀ (l r : List Entry), specReplace a k l = some r →
    r.length = l.length := by
  intro l
  induction l with
  | nil => intro r h; simp [specReplace] at h
  | cons e rest ih =>
    intro r h
    unfold specReplace at h
    by_cases hk : e.key? = some k
    · rw [if_pos hk] at h; injection h with h; subst h; rfl
    · rw [if_neg hk] at h
      cases hr : specReplace a k rest with
      | none => simp [hr] at h
      | some r' => simp [hr] at h; subst h; simp [ih r' hr]

theorem specPush_length_le (s : List Entry) (a : Entry) : (specPush s a).length ≤ s.length + 1 := by
  unfold specPush
  cases hk : a.key? with
  | none => simp
  | some k =>
    cases hr : specReplace a k s with
    | none => simp [hr]
    | some r => simp [hr, specReplace_length a k s r hr]

theorem specStep_length_le (s : List Entry) (op : Op) : (specStep s op).length ≤ s.length + 1 := by
  cases op with
  | push a => exact specPush_length_le s a
  | pop => simp [specStep]; omega

theorem specRun_length_le : ∀ (ops : List Op) (s : List Entry), (specRun s ops).length ≤ s.length + ops.length := by
  intro ops
  induction ops with
  | nil => intro s; simp
  | cons op ops ih =>
    intro s
    have h1 := ih (specStep s op)
    have h2 := specStep_length_le s op
    simp only [specRun_cons, List.length_cons]; omega

theorem run_refines_of_short (ops : List Op) (q : Q) (h : Inv q) (hlen : q.events.length + ops.length + 1 < M64) :
    Inv (runQ q ops) ∧ (runQ q ops).events = specRun q.events ops := by
  apply run_refines ops q h
  intro n
  have h1 := specRun_length_le (ops.take n) q.events
  have h2 : (ops.take n).length ≤ ops.length := by simp; omega
  omega

end SwimVerif.EQV
