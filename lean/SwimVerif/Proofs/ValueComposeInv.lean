/-
C01 composition, proof layer 2: the invariant of the composed system for one remote that is never unlinked, generic in
the sampling relation `R` (strict `Sublist` when the remote never syncs; monotone index sampling in general).
-/
import SwimVerif.Proofs.ValueComposeDefs

set_option linter.unusedSimpArgs false
set_option linter.unusedVariables false
namespace SwimVerif.VC
open WT (USys UOp ustep Registry Body Resp Special Kind UnlinkMsg bodiesFor pushedBodies UInv VInv valueOp)

/-- What the invariant needs of a sampling relation between a list of bodies and the `set` history; `cur` (sampling
the current value once more — a sync answer) is only required when `ok` (the remote may sync). -/
structure SampRel (R : List Body → List Nat → Prop) (ok : Prop) : Prop where
  nil : R [] []
  sub : ∀ {D' D : List Body} {H : List Nat}, D'.Sublist D → R D H → R D' H
  set : ∀ {D : List Body} {H : List Nat} (v : Nat), R D H → R (D ++ [body v]) (H ++ [v])
  cur : ok → ∀ {D : List Body} {H : List Nat}, R D H → R (D ++ [body (H.getLast?.getD 0)]) H

/-- The invariant, for remote `r` in state `x`, the lane and the pipe. -/
structure RInv (R : List Body → List Nat → Prop) (ok : Prop) (l r : Nat) (lane : VL.St) (pipe : List VL.Frame)
    (x : Rem) : Prop where
  remok : RemOK l x
  li : VL.Inv lane
  /-- pushed ++ in the pipe ++ unsent samples the history -/
  samp : R (tl l r lane pipe x) lane.history
  /-- and, unless empty, ends with the current value -/
  last : tl l r lane pipe x ≠ [] → (tl l r lane pipe x).getLast? = some (body lane.content)
  unl : x.linked = false → pushedTo l x = []
  since : x.linked = true → x.since < lane.history.length → tl l r lane pipe x ≠ []
  asked : x.asked = true → r ∈ lane.syncQueue ∨ (∃ v, VL.Frame.syncEvent r v ∈ pipe) ∨ pushedTo l x ≠ []
  sq : r ∈ lane.syncQueue → ok

variable {R : List Body → List Nat → Prop} {ok : Prop} {l r : Nat}

theorem rinv_init (hR : SampRel R ok) : RInv R ok l r {} [] {} := by
  refine ⟨remok_init l, VL.inv_init, ?_, ?_, ?_, ?_, ?_, ?_⟩
  · exact hR.nil
  · intro h; exact absurd rfl h
  · intro _; rfl
  · intro h; cases h
  · intro h; cases h
  · intro h; cases h

/-! ### lane steps -/

theorem tl_set (lane : VL.St) (pipe : List VL.Frame) (x : Rem) (v : Nat) :
    tl l r (VL.step lane (.set v)).1 pipe x = (pushedTo l x ++ pipeBodies r pipe) ++ [body v] := by
  simp [tl, VL.step, dirtyBody]

theorem rinv_set {lane : VL.St} {pipe : List VL.Frame} {x : Rem} (hR : SampRel R ok)
    (h : RInv R ok l r lane pipe x) (v : Nat) : RInv R ok l r (VL.step lane (.set v)).1 pipe x := by
  have ht := tl_set (l := l) (r := r) lane pipe x v
  refine ⟨h.remok, VL.inv_step h.li _, ?_, ?_, h.unl, ?_, ?_, ?_⟩
  · rw [ht]
    exact hR.set v (hR.sub (List.sublist_append_left _ _) h.samp)
  · intro _; rw [ht]; simp [VL.step]
  · intro _ _; rw [ht]; simp
  · exact h.asked
  · exact h.sq

theorem rinv_sync {lane : VL.St} {pipe : List VL.Frame} {x : Rem}
    (h : RInv R ok l r lane pipe x) (r0 : Nat) (hok : r0 = r → ok) :
    RInv R ok l r (VL.step lane (.sync r0)).1 pipe x := by
  have ht : tl l r (VL.step lane (.sync r0)).1 pipe x = tl l r lane pipe x := rfl
  refine ⟨h.remok, VL.inv_step h.li _, ?_, ?_, h.unl, ?_, ?_, ?_⟩
  · rw [ht]; exact h.samp
  · rw [ht]; exact h.last
  · rw [ht]; exact h.since
  · intro ha
    rcases h.asked ha with h1 | h1
    · left; simp only [VL.step]; exact List.mem_append_left _ h1
    · right; exact h1
  · intro hm
    simp only [VL.step, List.mem_append, List.mem_singleton] at hm
    rcases hm with h1 | h1
    · exact h.sq h1
    · exact hok h1.symm

/-- a sync request of the remote itself also sets its ghost -/
theorem rinv_sync_self {lane : VL.St} {pipe : List VL.Frame} {x : Rem}
    (h : RInv R ok l r lane pipe x) (hok : ok) :
    RInv R ok l r (VL.step lane (.sync r)).1 pipe { x with asked := true } := by
  have h1 := rinv_sync h r (fun _ => hok)
  refine ⟨⟨h1.remok.u, h1.remok.v⟩, h1.li, h1.samp, h1.last, h1.unl, h1.since, ?_, h1.sq⟩
  intro _; left; simp [VL.step]

theorem dirtyBody_comm (s : VL.St) : dirtyBody s ++ [body s.content] = [body s.content] ++ dirtyBody s := by
  unfold dirtyBody; split <;> rfl

theorem rinv_write {lane : VL.St} {pipe : List VL.Frame} {x : Rem} (hR : SampRel R ok)
    (h : RInv R ok l r lane pipe x) :
    RInv R ok l r (VL.step lane .write).1 (pipe ++ (VL.step lane .write).2.1) x := by
  have hli := VL.inv_step h.li .write
  cases hq : lane.syncQueue with
  | cons r0 rest =>
    have e1 : (VL.step lane .write).1 = { lane with syncQueue := rest, written := lane.written ++ [lane.content] } := by
      simp [VL.step, hq]
    have e2 : (VL.step lane .write).2.1 = [.syncEvent r0 lane.content, .synced r0] := by simp [VL.step, hq]
    rw [e1] at hli
    rw [e1, e2]
    by_cases hr : r0 = r
    · subst hr
      have hok : ok := h.sq (by rw [hq]; exact List.mem_cons_self)
      have ht : tl l r0 { lane with syncQueue := rest, written := lane.written ++ [lane.content] }
          (pipe ++ [.syncEvent r0 lane.content, .synced r0]) x = tl l r0 lane pipe x ++ [body lane.content] := by
        simp only [tl, pipeBodies_append, pipeBodies_cons, frameBody, if_true, Option.toList, pipeBodies_nil,
          List.append_nil, dirtyBody, List.append_assoc]
        have := dirtyBody_comm lane
        simp only [dirtyBody] at this
        rw [← this]
      refine ⟨h.remok, hli, ?_, ?_, h.unl, ?_, ?_, ?_⟩
      · rw [ht]
        have := hR.cur hok h.samp
        rw [← h.li.cur] at this
        exact this
      · intro _; rw [ht]; simp
      · intro _ _; rw [ht]; simp
      · intro _; right; left; exact ⟨lane.content, by simp⟩
      · intro hm; exact h.sq (by rw [hq]; exact List.mem_cons_of_mem _ hm)
    · have ht : tl l r { lane with syncQueue := rest, written := lane.written ++ [lane.content] }
          (pipe ++ [.syncEvent r0 lane.content, .synced r0]) x = tl l r lane pipe x := by
        simp [tl, pipeBodies_append, pipeBodies_cons, frameBody, hr, dirtyBody]
      refine ⟨h.remok, hli, ?_, ?_, h.unl, ?_, ?_, ?_⟩
      · rw [ht]; exact h.samp
      · rw [ht]; exact h.last
      · rw [ht]; exact h.since
      · intro ha
        rcases h.asked ha with h1 | ⟨v, h1⟩ | h1
        · left
          rw [hq] at h1
          rcases List.mem_cons.mp h1 with h2 | h2
          · exact absurd h2.symm hr
          · exact h2
        · right; left; exact ⟨v, List.mem_append_left _ h1⟩
        · right; right; exact h1
      · intro hm; exact h.sq (by rw [hq]; exact List.mem_cons_of_mem _ hm)
  | nil =>
    by_cases hd : lane.dirty = true
    · have e1 : (VL.step lane .write).1 =
          { lane with dirty := false, written := lane.written ++ [lane.content], lastEvent := some lane.content } := by
        simp [VL.step, hq, hd]
      have e2 : (VL.step lane .write).2.1 = [.event lane.content] := by simp [VL.step, hq, hd]
      rw [e1] at hli
      rw [e1, e2]
      have ht : tl l r { lane with dirty := false, written := lane.written ++ [lane.content], lastEvent := some lane.content } (pipe ++ [.event lane.content]) x = tl l r lane pipe x := by
        simp [tl, pipeBodies_append, pipeBodies_cons, frameBody, dirtyBody, hd]
      refine ⟨h.remok, hli, ?_, ?_, h.unl, ?_, ?_, ?_⟩
      · rw [ht]; exact h.samp
      · rw [ht]; exact h.last
      · rw [ht]; exact h.since
      · intro ha
        rcases h.asked ha with h1 | ⟨v, h1⟩ | h1
        · rw [hq] at h1; cases h1
        · right; left; exact ⟨v, List.mem_append_left _ h1⟩
        · right; right; exact h1
      · intro hm; rw [hq] at hm; cases hm
    · have e1 : (VL.step lane .write).1 = lane := by simp [VL.step, hq, hd]
      have e2 : (VL.step lane .write).2.1 = [] := by simp [VL.step, hq, hd]
      rw [e1, e2, List.append_nil]; exact h

end SwimVerif.VC
