/-
Lemmas for the map-lane extensions of C06: `transform_entry` amounts to the update / remove it performs (or to nothing),
`drop_or_take` yields its keys in ascending key order, `MapLaneRemoveMultiple` is a sequence of single removals.
-/
import SwimVerif.Proofs.HandlersInv

set_option linter.unusedVariables false
namespace SwimVerif.Handlers

/-! ### `transform_entry` -/

theorem run_mxf_update (trig : Trig) (m k : Nat) (f : Xf) (st : St) (v2 : Int)
    (h : f.app (alGet (st.readM m) k) = some v2) : run trig (.mxf m k f) st = run trig (.mupd m k v2) st := by
  rw [run_eq_eval, run_eq_eval]
  simp [eval, St.xfM, h]

theorem run_mxf_remove (trig : Trig) (m k : Nat) (f : Xf) (st : St) (old : Int)
    (h : f.app (alGet (st.readM m) k) = none) (hk : alGet (st.readM m) k = some old) :
    run trig (.mxf m k f) st = run trig (.mrem m k) st := by
  rw [run_eq_eval, run_eq_eval]
  rw [hk] at h
  simp [eval, St.xfM, h, hk]

theorem run_mxf_nochange (trig : Trig) (m k : Nat) (f : Xf) (st : St)
    (h : f.app (alGet (st.readM m) k) = none) (hk : alGet (st.readM m) k = none) :
    run trig (.mxf m k f) st = (st, .ok) := by
  rw [run_eq_eval]
  rw [hk] at h
  simp [eval, St.xfM, h, hk]

theorem readM_of (st : St) (m : Nat) (x : MLane) (hm : st.maps[m]? = some x) : st.readM m = x.content := by
  simp [St.readM, hm]

/-! ### key order of `drop_or_take` -/

theorem mem_insNat (x y : Nat) (l : List Nat) : y ∈ insNat x l ↔ y = x ∨ y ∈ l := by
  induction l with
  | nil => simp [insNat]
  | cons z zs ih =>
    simp only [insNat]
    split
    · simp
    · simp only [List.mem_cons, ih]
      constructor
      · rintro (h | h | h)
        · exact Or.inr (Or.inl h)
        · exact Or.inl h
        · exact Or.inr (Or.inr h)
      · rintro (h | h | h)
        · exact Or.inr (Or.inl h)
        · exact Or.inl h
        · exact Or.inr (Or.inr h)

theorem pairwise_insNat (x : Nat) (l : List Nat) (h : l.Pairwise (· ≤ ·)) : (insNat x l).Pairwise (· ≤ ·) := by
  induction l with
  | nil => simp [insNat]
  | cons y ys ih =>
    rw [List.pairwise_cons] at h
    simp only [insNat]
    split
    · rename_i hxy
      rw [List.pairwise_cons]
      refine ⟨?_, List.pairwise_cons.2 h⟩
      intro z hz
      rcases List.mem_cons.1 hz with hz | hz
      · subst hz; exact hxy
      · exact Nat.le_trans hxy (h.1 z hz)
    · rename_i hxy
      rw [List.pairwise_cons]
      refine ⟨?_, ih h.2⟩
      intro z hz
      rcases (mem_insNat x z ys).1 hz with hz | hz
      · subst hz; omega
      · exact h.1 z hz

theorem sortNat_sorted (l : List Nat) : (sortNat l).Pairwise (· ≤ ·) := by
  induction l with
  | nil => simp [sortNat]
  | cons x xs ih => exact pairwise_insNat x _ ih

theorem mem_sortNat (y : Nat) (l : List Nat) : y ∈ sortNat l ↔ y ∈ l := by
  induction l with
  | nil => simp [sortNat]
  | cons x xs ih =>
    have : sortNat (x :: xs) = insNat x (sortNat xs) := rfl
    rw [this, mem_insNat, ih]; simp

theorem dropTakeKeys_sorted (c : List (Nat × Int)) (drop : Bool) (n : Nat) :
    (dropTakeKeys c drop n).Pairwise (· ≤ ·) := by
  unfold dropTakeKeys
  split
  · exact (sortNat_sorted _).sublist (List.take_sublist _ _)
  · exact (sortNat_sorted _).sublist (List.drop_sublist _ _)

theorem dropTakeKeys_mem (c : List (Nat × Int)) (drop : Bool) (n : Nat) (k : Nat)
    (h : k ∈ dropTakeKeys c drop n) : k ∈ c.map (·.1) := by
  unfold dropTakeKeys at h
  split at h
  · exact (mem_sortNat k _).1 (List.mem_of_mem_take h)
  · exact (mem_sortNat k _).1 (List.mem_of_mem_drop h)

/-- `Drop(n)` and `Take(n)` split the sorted keys: what one removes the other keeps. -/
theorem dropTakeKeys_split (c : List (Nat × Int)) (n : Nat) :
    dropTakeKeys c true n ++ dropTakeKeys c false n = sortNat (c.map (·.1)) := by
  simp [dropTakeKeys]

end SwimVerif.Handlers
