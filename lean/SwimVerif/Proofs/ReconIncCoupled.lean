/-
C09, the incremental path: the recogniser (`ValueMaterializer`) and the parser stack move in step — frame for frame
the recogniser is "in the body" exactly where the parser is in a body state — so `try_flush` has nothing to give while
the parser is in a nested state.  This discharges the hypothesis `FlushCoupled` of `Proofs/ReconInc.lean`.
-/
import SwimVerif.Proofs.ReconInc

set_option linter.unusedSimpArgs false
set_option linter.unusedVariables false
namespace SwimVerif.ReconInc
open SwimVerif.Recon SwimVerif.ReconEq

/-- Which frames of the recogniser are "in the body" (top first). -/
def shape (m : MSt) : List Bool := m.stack.map (·.inBody)

def isBodyPS : PS → Bool
  | .body _ _ => true
  | _ => false

def pshape (st : List PS) : List Bool := st.map isBodyPS

def isAttrKey : RKey → Bool
  | .attr _ => true
  | _ => false

/-- Every attribute frame of the recogniser sits on a frame that is not in its body. -/
def MGood : List RB → Prop
  | f :: p :: rest => (isAttrKey f.key = true → p.inBody = false) ∧ MGood (p :: rest)
  | _ => True

theorem feed_prim {m m' : MSt} {e : Event} {v : Value} (hp : primValue e = some v) (h : m.feed e = (m', none)) :
    shape m' = shape m ∧ (MGood m.stack → MGood m'.stack) ∧ m.stack ≠ [] := by
  unfold MSt.feed at h
  cases hs : m.stack with
  | nil => simp [hs, hp] at h
  | cons top rest =>
    simp only [hs, hp] at h
    unfold MSt.addItem at h
    simp only [hs] at h
    by_cases hb : top.inBody = true
    · simp only [hb, ↓reduceIte] at h
      cases hk : m.slotKey with
      | none =>
        simp only [hk] at h
        cases h
        refine ⟨by simp [shape, hs, hb], ?_, by simp⟩
        intro hg
        cases rest with
        | nil => simp [MGood]
        | cons p r => simpa [MGood] using hg
      | some k =>
        simp only [hk] at h
        cases h
        refine ⟨by simp [shape, hs, hb], ?_, by simp⟩
        intro hg
        cases rest with
        | nil => simp [MGood]
        | cons p r => simpa [MGood] using hg
    · simp [hb] at h

theorem MGood_tail {f : RB} {rest : List RB} (h : MGood (f :: rest)) : MGood rest := by
  cases rest with
  | nil => simp [MGood]
  | cons p r => exact h.2

theorem MGood_push {f : RB} {rest : List RB} (h : MGood rest) (hf : isAttrKey f.key = false) : MGood (f :: rest) := by
  cases rest with
  | nil => simp [MGood]
  | cons p r => exact ⟨by simp [hf], h⟩

theorem MGood_replace {f f' : RB} {rest : List RB} (h : MGood (f :: rest)) (hk : f'.key = f.key) : MGood (f' :: rest) := by
  cases rest with
  | nil => simp [MGood]
  | cons p r => exact ⟨by rw [hk]; exact h.1, h.2⟩

theorem newRecordFrame_stack (m : MSt) (b : Bool) :
    ∃ f, (m.newRecordFrame b).stack = f :: m.stack ∧ f.inBody = b ∧ isAttrKey f.key = false := by
  unfold MSt.newRecordFrame
  cases m.slotKey <;> exact ⟨_, rfl, rfl, rfl⟩

theorem feed_startAttr {m m' : MSt} {n : List Char} (h : m.feed (.startAttr n) = (m', none)) :
    shape m' = (match shape m with
      | [] => [true, false]
      | true :: t => true :: false :: true :: t
      | false :: t => true :: false :: t) ∧ (MGood m.stack → MGood m'.stack) := by
  have hm' : m' = m.newAttrFrame n := by
    unfold MSt.feed at h
    cases hs : m.stack <;> simp [hs, primValue] at h <;> exact h.symm
  subst hm'
  unfold MSt.newAttrFrame
  cases hs : m.stack with
  | nil =>
    obtain ⟨f, h1, h2, h3⟩ := newRecordFrame_stack m false
    simp only [shape, hs, h1, List.map_cons, List.map_nil, h2]
    refine ⟨trivial, fun _ => ?_⟩
    exact ⟨fun _ => h2, by simp [MGood]⟩
  | cons top rest =>
    by_cases hb : top.inBody = true
    · obtain ⟨f, h1, h2, h3⟩ := newRecordFrame_stack m false
      simp only [hb, ↓reduceIte, shape, h1, hs, List.map_cons, h2]
      refine ⟨trivial, fun hg => ?_⟩
      exact ⟨fun _ => h2, MGood_push hg h3⟩
    · have hb' : top.inBody = false := by simpa using hb
      simp only [hb', Bool.false_eq_true, ↓reduceIte, shape, hs, List.map_cons]
      refine ⟨trivial, fun hg => ?_⟩
      exact ⟨fun _ => hb', hg⟩

theorem feed_startBody {m m' : MSt} (h : m.feed .startBody = (m', none)) :
    shape m' = (match shape m with
      | [] => [true]
      | true :: t => true :: true :: t
      | false :: t => true :: t) ∧ (MGood m.stack → MGood m'.stack) := by
  unfold MSt.feed at h
  cases hs : m.stack with
  | nil =>
    simp only [hs, primValue] at h
    cases h
    obtain ⟨f, h1, h2, h3⟩ := newRecordFrame_stack m true
    simp only [shape, h1, hs, List.map_cons, List.map_nil, h2]
    exact ⟨trivial, fun _ => by simp [MGood]⟩
  | cons top rest =>
    simp only [hs, primValue] at h
    by_cases hb : top.inBody = true
    · simp only [hb, ↓reduceIte] at h
      cases h
      obtain ⟨f, h1, h2, h3⟩ := newRecordFrame_stack m true
      simp only [shape, h1, hs, List.map_cons, h2, hb]
      exact ⟨trivial, fun hg => MGood_push hg h3⟩
    · have hb' : top.inBody = false := by simpa using hb
      simp only [hb', Bool.false_eq_true, ↓reduceIte] at h
      cases h
      simp only [shape, hs, List.map_cons, hb']
      exact ⟨trivial, fun hg => MGood_replace hg rfl⟩

theorem feed_slot {m m' : MSt} (h : m.feed .slot = (m', none)) :
    shape m' = shape m ∧ (MGood m.stack → MGood m'.stack) := by
  unfold MSt.feed at h
  cases hs : m.stack with
  | nil => simp [hs, primValue] at h
  | cons top rest =>
    simp only [hs, primValue] at h
    cases hi : top.items with
    | nil => simp only [hi] at h; cases h; exact ⟨by simp [shape, hs], fun hg => by simpa [hs] using hg⟩
    | cons it its =>
      cases it with
      | val v =>
        simp only [hi] at h; cases h
        exact ⟨by simp [shape, hs], fun hg => MGood_replace (f' := { top with items := its }) hg rfl⟩
      | slot k v =>
        simp only [hi] at h; cases h
        exact ⟨by simp [shape, hs], fun hg => MGood_replace (f' := { top with items := its }) hg rfl⟩

/-- A successful `pop` that does not finish the value: the top frame goes, the one below keeps its `inBody`. -/
theorem pop_shape {m m' : MSt} {b : Bool} {r : Option Value} (h : m.pop b = some (m', r)) (hr : r = none ∨ b = true) :
    ∃ f p rest, m.stack = f :: p :: rest ∧ shape m' = p.inBody :: rest.map (·.inBody) ∧
      (MGood m.stack → MGood m'.stack) ∧ (b = true → isAttrKey f.key = true) := by
  unfold MSt.pop at h
  cases hs : m.stack with
  | nil => simp [hs] at h
  | cons top rest =>
    simp only [hs] at h
    cases hk : top.key with
    | noKey =>
      simp only [hk] at h
      cases b with
      | true => simp at h
      | false =>
        simp only [Bool.false_eq_true, ↓reduceIte] at h
        cases rest with
        | nil =>
          simp only [Option.some.injEq, Prod.mk.injEq] at h
          rcases hr with hr | hr
          · rw [hr] at h; simp at h
          · cases hr
        | cons p rest' =>
          simp only [Option.some.injEq, Prod.mk.injEq] at h
          obtain ⟨h1, _⟩ := h
          subst h1
          exact ⟨top, p, rest', rfl, by simp [shape], fun hg => MGood_replace (MGood_tail hg) rfl, by intro hb; cases hb⟩
    | slot k =>
      simp only [hk] at h
      cases b with
      | true => simp at h
      | false =>
        simp only [Bool.false_eq_true, ↓reduceIte] at h
        cases rest with
        | nil => simp at h
        | cons p rest' =>
          simp only [Option.some.injEq, Prod.mk.injEq] at h
          obtain ⟨h1, _⟩ := h
          subst h1
          exact ⟨top, p, rest', rfl, by simp [shape], fun hg => MGood_replace (MGood_tail hg) rfl, by intro hb; cases hb⟩
    | attr name =>
      simp only [hk] at h
      cases b with
      | false => simp at h
      | true =>
        simp only [↓reduceIte] at h
        cases rest with
        | nil => simp at h
        | cons p rest' =>
          simp only [Option.some.injEq, Prod.mk.injEq] at h
          obtain ⟨h1, _⟩ := h
          subst h1
          exact ⟨top, p, rest', rfl, by simp [shape], fun hg => MGood_replace (MGood_tail hg) rfl,
            by intro _; simp [hk, isAttrKey]⟩

theorem feed_endAttr {m m' : MSt} (h : m.feed .endAttr = (m', none)) (hg : MGood m.stack) :
    (∃ a t, shape m = a :: false :: t ∧ shape m' = false :: t) ∧ MGood m'.stack := by
  unfold MSt.feed at h
  cases hs : m.stack with
  | nil => simp [hs, primValue] at h
  | cons top rest =>
    simp only [hs, primValue] at h
    cases hp : m.pop true with
    | none => simp [hp] at h
    | some pr =>
      obtain ⟨m2, r⟩ := pr
      simp only [hp] at h
      cases h
      obtain ⟨f, p, rest', e1, e2, e3, e4⟩ := pop_shape hp (Or.inr rfl)
      have hpb : p.inBody = false := by
        rw [e1] at hg
        exact hg.1 (e4 rfl)
      refine ⟨⟨f.inBody, rest'.map (·.inBody), ?_, ?_⟩, e3 hg⟩
      · simp [shape, e1, hpb]
      · rw [e2, hpb]

theorem feed_endRecord {m m' : MSt} (h : m.feed .endRecord = (m', none)) (hg : MGood m.stack) :
    (∃ a b t, shape m = a :: b :: t ∧ shape m' = b :: t) ∧ MGood m'.stack := by
  unfold MSt.feed at h
  cases hs : m.stack with
  | nil => simp [hs, primValue] at h
  | cons top rest =>
    simp only [hs, primValue] at h
    cases hp : m.pop false with
    | none => simp [hp] at h
    | some pr =>
      obtain ⟨m2, r⟩ := pr
      simp only [hp] at h
      cases r with
      | some v => simp at h
      | none =>
        simp only [Prod.mk.injEq, and_true] at h
        subst h
        obtain ⟨f, p, rest', e1, e2, e3, e4⟩ := pop_shape hp (Or.inl rfl)
        exact ⟨⟨f.inBody, p.inBody, rest'.map (·.inBody), by simp [shape, e1], e2⟩, e3 hg⟩

theorem feedAll_nil (m m' : MSt) (h : feedAll m [] = (m', none)) : m' = m := by
  simp [feedAll] at h; exact h.symm

theorem feedAll_cons {m m' : MSt} {e : Event} {es : List Event} (h : feedAll m (e :: es) = (m', none)) :
    ∃ m1, m.feed e = (m1, none) ∧ feedAll m1 es = (m', none) := by
  rw [feedAll] at h
  rcases hf : m.feed e with ⟨m1, o⟩
  cases o with
  | none => rw [hf] at h; exact ⟨m1, rfl, h⟩
  | some r => rw [hf] at h; simp at h

/-- Events that do not change the recogniser's frames: primitives and the slot marker. -/
def keeps (e : Event) : Bool := (primValue e).isSome || (match e with | .slot => true | _ => false)

theorem feed_keeps {m m' : MSt} {e : Event} (hk : keeps e = true) (h : m.feed e = (m', none)) :
    shape m' = shape m ∧ (MGood m.stack → MGood m'.stack) := by
  cases hp : primValue e with
  | some v => have := feed_prim hp h; exact ⟨this.1, this.2.1⟩
  | none =>
    cases e <;> simp [keeps, primValue] at hk hp
    exact feed_slot h

theorem feedAll_keeps : ∀ (evs : List Event) (m m' : MSt), (∀ e ∈ evs, keeps e = true) →
    feedAll m evs = (m', none) → shape m' = shape m ∧ (MGood m.stack → MGood m'.stack)
  | [], m, m', _, h => by rw [feedAll_nil m m' h]; exact ⟨rfl, id⟩
  | e :: es, m, m', hk, h => by
    obtain ⟨m1, h1, h2⟩ := feedAll_cons h
    obtain ⟨a1, a2⟩ := feed_keeps (hk e (by simp)) h1
    obtain ⟨b1, b2⟩ := feedAll_keeps es m1 m' (fun x hx => hk x (by simp [hx])) h2
    exact ⟨by rw [b1, a1], fun hg => b2 (a2 hg)⟩

theorem identEvent_keeps (s : List Char) : keeps (identEvent s) = true := by
  unfold identEvent; split <;> (try split) <;> simp [keeps, primValue]

/-- Every primitive token event is a primitive for the recogniser. -/
theorem lexPrimM_keeps {st : Bool} {inp : List Char} {e : Event} {rest : List Char} (h : lexPrimM st inp = .ok e rest) :
    keeps e = true := by
  unfold lexPrimM at h
  cases h1 : lexStr inp with
  | ok a r => rw [h1] at h; simp only at h; cases h; simp [keeps, primValue]
  | inc => rw [h1] at h; simp at h
  | err =>
    rw [h1] at h; simp only at h
    cases h2 : lexIdentM st inp with
    | ok a r => rw [h2] at h; simp only at h; cases h; exact identEvent_keeps a
    | inc => rw [h2] at h; simp at h
    | err =>
      rw [h2] at h; simp only at h
      cases h3 : lexNumM st inp with
      | ok a r => rw [h3] at h; simp only at h; cases h; simp [keeps, primValue]
      | inc => rw [h3] at h; simp at h
      | err =>
        rw [h3] at h; simp only at h
        cases h4 : lexBlobM st inp with
        | ok a r => rw [h4] at h; simp only at h; cases h; simp [keeps, primValue]
        | inc => rw [h4] at h; simp at h
        | err => rw [h4] at h; simp at h


/-- The coupling: the recogniser's frames are well formed, and — except before anything was read (`[Init]`, no frame)
and after the value is complete (`[]`) — it has one frame per parser frame, "in the body" exactly at the body states. -/
def Inv (st : List PS) (m : MSt) : Prop :=
  MGood m.stack ∧ (st = [] ∨ (st = [.init] ∧ m.stack = []) ∨ (st ≠ [.init] ∧ shape m = pshape st))

theorem mkInv {st : List PS} {m : MSt} (hg : MGood m.stack) (hne : st ≠ [.init]) (hs : shape m = pshape st) :
    Inv st m := ⟨hg, Or.inr (Or.inr ⟨hne, hs⟩)⟩

theorem Inv.cases {top : PS} {below : List PS} {m : MSt} (h : Inv (top :: below) m) :
    MGood m.stack ∧ ((top = .init ∧ below = [] ∧ shape m = []) ∨ shape m = isBodyPS top :: pshape below) := by
  obtain ⟨hg, h | h | h⟩ := h
  · cases h
  · obtain ⟨h1, h2⟩ := h
    simp only [List.cons.injEq] at h1
    exact ⟨hg, Or.inl ⟨h1.1, h1.2, by simp [shape, h2]⟩⟩
  · exact ⟨hg, Or.inr (by simpa [pshape] using h.2)⟩

/-- `[startAttr]`. -/
theorem trans_attrBody {m m' : MSt} {n : List Char} (h : feedAll m [.startAttr n] = (m', none)) :
    shape m' = (match shape m with
      | [] => [true, false]
      | true :: t => true :: false :: true :: t
      | false :: t => true :: false :: t) ∧ (MGood m.stack → MGood m'.stack) := by
  obtain ⟨m1, h1, h2⟩ := feedAll_cons h
  rw [feedAll_nil _ _ h2]
  exact feed_startAttr h1

/-- `[startAttr, endAttr]`. -/
theorem trans_attrNoBody {m m' : MSt} {n : List Char} (h : feedAll m [.startAttr n, .endAttr] = (m', none))
    (hg : MGood m.stack) :
    shape m' = (match shape m with
      | [] => [false]
      | true :: t => false :: true :: t
      | false :: t => false :: t) ∧ MGood m'.stack := by
  obtain ⟨m1, h1, h2⟩ := feedAll_cons h
  obtain ⟨m2, h3, h4⟩ := feedAll_cons h2
  rw [feedAll_nil _ _ h4]
  obtain ⟨a1, a2⟩ := feed_startAttr h1
  obtain ⟨⟨a, t, b1, b2⟩, b3⟩ := feed_endAttr h3 (a2 hg)
  refine ⟨?_, b3⟩
  rw [b2]
  rw [a1] at b1
  cases hs : shape m with
  | nil => rw [hs] at b1; simp at b1; simp [b1.2]
  | cons x xs =>
    cases x with
    | true => rw [hs] at b1; simp at b1; simp [b1.2]
    | false => rw [hs] at b1; simp at b1; simp [b1.2]

/-- `[startBody]`. -/
theorem trans_brace {m m' : MSt} (h : feedAll m [.startBody] = (m', none)) :
    shape m' = (match shape m with
      | [] => [true]
      | true :: t => true :: true :: t
      | false :: t => true :: t) ∧ (MGood m.stack → MGood m'.stack) := by
  obtain ⟨m1, h1, h2⟩ := feedAll_cons h
  rw [feedAll_nil _ _ h2]
  exact feed_startBody h1

/-- `[startBody, (primitive,)* endRecord]` on a recogniser whose top frame is not in its body: that frame is completed
and goes. -/
theorem trans_single {m m' : MSt} {mid : List Event} {X : List Bool} (hmid : ∀ e ∈ mid, keeps e = true)
    (h : feedAll m (.startBody :: (mid ++ [.endRecord])) = (m', none)) (hs : shape m = false :: X)
    (hg : MGood m.stack) : shape m' = X ∧ MGood m'.stack ∧ X ≠ [] := by
  obtain ⟨m1, h1, h2⟩ := feedAll_cons h
  obtain ⟨a1, a2⟩ := feed_startBody h1
  rw [hs] at a1
  simp only at a1
  -- the primitives in between
  have hsplit : ∀ (es : List Event) (ma mb : MSt), (∀ e ∈ es, keeps e = true) →
      feedAll ma (es ++ [.endRecord]) = (mb, none) →
      ∃ mc, shape mc = shape ma ∧ (MGood ma.stack → MGood mc.stack) ∧ mc.feed .endRecord = (mb, none) := by
    intro es
    induction es with
    | nil =>
      intro ma mb _ hh
      obtain ⟨mc, c1, c2⟩ := feedAll_cons hh
      have := feedAll_nil _ _ c2
      subst this
      exact ⟨ma, rfl, id, c1⟩
    | cons e es ih =>
      intro ma mb hk hh
      obtain ⟨mc, c1, c2⟩ := feedAll_cons hh
      obtain ⟨d1, d2⟩ := feed_keeps (hk e (by simp)) c1
      obtain ⟨md, e1, e2, e3⟩ := ih mc mb (fun x hx => hk x (by simp [hx])) c2
      exact ⟨md, by rw [e1, d1], fun hg' => e2 (d2 hg'), e3⟩
  obtain ⟨mc, c1, c2, c3⟩ := hsplit mid m1 m' hmid h2
  obtain ⟨⟨a, b, t, b1, b2⟩, b3⟩ := feed_endRecord c3 (c2 (a2 hg))
  rw [c1, a1] at b1
  simp only [List.cons.injEq] at b1
  refine ⟨by rw [b2, b1.2], b3, by rw [b1.2]; simp⟩

/-- The end of a body: `[endAttr]` / `[endRecord]`, possibly after an `Extant`. -/
theorem trans_end {m m' : MSt} {pre : List Event} {X : List Bool} (k : Kind) (hpre : ∀ e ∈ pre, keeps e = true)
    (h : feedAll m (pre ++ [kindEndEvent k]) = (m', none)) (hs : shape m = true :: X) (hg : MGood m.stack) :
    MGood m'.stack ∧ ∃ b t, X = b :: t ∧ (k = .ab → b = false) ∧ shape m' = b :: t := by
  have hsplit : ∀ (es : List Event) (ma mb : MSt), (∀ e ∈ es, keeps e = true) →
      feedAll ma (es ++ [kindEndEvent k]) = (mb, none) →
      ∃ mc, shape mc = shape ma ∧ (MGood ma.stack → MGood mc.stack) ∧ mc.feed (kindEndEvent k) = (mb, none) := by
    intro es
    induction es with
    | nil =>
      intro ma mb _ hh
      obtain ⟨mc, c1, c2⟩ := feedAll_cons hh
      have := feedAll_nil _ _ c2
      subst this
      exact ⟨ma, rfl, id, c1⟩
    | cons e es ih =>
      intro ma mb hk hh
      obtain ⟨mc, c1, c2⟩ := feedAll_cons hh
      obtain ⟨d1, d2⟩ := feed_keeps (hk e (by simp)) c1
      obtain ⟨md, e1, e2, e3⟩ := ih mc mb (fun x hx => hk x (by simp [hx])) c2
      exact ⟨md, by rw [e1, d1], fun hg' => e2 (d2 hg'), e3⟩
  obtain ⟨mc, c1, c2, c3⟩ := hsplit pre m m' hpre h
  cases k with
  | ab =>
    obtain ⟨⟨a, t, b1, b2⟩, b3⟩ := feed_endAttr c3 (c2 hg)
    rw [c1, hs] at b1
    simp only [List.cons.injEq] at b1
    exact ⟨b3, false, t, b1.2, fun _ => rfl, b2⟩
  | rb =>
    obtain ⟨⟨a, b, t, b1, b2⟩, b3⟩ := feed_endRecord c3 (c2 hg)
    rw [c1, hs] at b1
    simp only [List.cons.injEq] at b1
    exact ⟨b3, b, t, b1.2, (fun hk => by cases hk), b2⟩


theorem afterItem_body {t t' : PS} (h : t.afterItem = some t') : isBodyPS t' = isBodyPS t ∧ t' ≠ .init := by
  cases t with
  | init => simp [PS.afterItem] at h; subst h; simp [isBodyPS]
  | afterAttr => simp [PS.afterItem] at h
  | body k s => cases s <;> simp [PS.afterItem] at h <;> (subst h; simp [isBodyPS])

theorem popAfterItem_shape {below st' : List PS} (h : popAfterItem below = some st') :
    pshape st' = pshape below ∧ st' ≠ [.init] := by
  cases below with
  | nil => simp [popAfterItem] at h; subst h; simp [pshape]
  | cons t b =>
    simp only [popAfterItem] at h
    cases ha : t.afterItem with
    | none => rw [ha] at h; simp at h
    | some t' =>
      rw [ha] at h; simp at h; subst h
      obtain ⟨e1, e2⟩ := afterItem_body ha
      exact ⟨by simp [pshape, e1], by simp [e2]⟩

/-- An attribute (with or without body) read in a state `cur`. -/
theorem attrStep_inv {primary : Bool} {cur : PS} {below : List PS} {m m' : MSt} {p : List Char} {evs : List Event}
    {am : Bool} {st' : List PS} {rest : List Char} (hi : Inv (cur :: below) m)
    (hprim : isBodyPS cur = primary)
    (hs : attrStep primary cur below p = .ok evs am st' rest) (hf : feedAll m evs = (m', none)) : Inv st' m' := by
  obtain ⟨hg, hsh⟩ := hi.cases
  unfold attrStep at hs
  cases hl : lexAttr p with
  | inc => rw [hl] at hs; simp at hs
  | err => rw [hl] at hs; simp at hs
  | ok a r =>
    obtain ⟨nm, b⟩ := a
    rw [hl] at hs
    cases b with
    | true =>
      cases primary with
      | true =>
        simp only [↓reduceIte, Step.ok.injEq] at hs
        obtain ⟨rfl, _, rfl, _⟩ := hs
        obtain ⟨t1, t2⟩ := trans_attrBody hf
        rcases hsh with ⟨rfl, _, _⟩ | hsh
        · simp [isBodyPS] at hprim
        · rw [hsh, hprim] at t1
          exact mkInv (t2 hg) (by simp) (by rw [t1]; simp only [pshape, List.map_cons, hprim]; rfl)
      | false =>
        simp only [Bool.false_eq_true, ↓reduceIte, Step.ok.injEq] at hs
        obtain ⟨rfl, _, rfl, _⟩ := hs
        obtain ⟨t1, t2⟩ := trans_attrBody hf
        rcases hsh with ⟨rfl, rfl, hsh⟩ | hsh
        · rw [hsh] at t1
          exact mkInv (t2 hg) (by simp) (by rw [t1]; simp only [pshape, List.map_cons, hprim]; rfl)
        · rw [hsh, hprim] at t1
          exact mkInv (t2 hg) (by simp) (by rw [t1]; simp only [pshape, List.map_cons, hprim]; rfl)
    | false =>
      cases primary with
      | true =>
        simp only [↓reduceIte, Step.ok.injEq] at hs
        obtain ⟨rfl, _, rfl, _⟩ := hs
        obtain ⟨t1, t2⟩ := trans_attrNoBody hf hg
        rcases hsh with ⟨rfl, _, _⟩ | hsh
        · simp [isBodyPS] at hprim
        · rw [hsh, hprim] at t1
          exact mkInv t2 (by simp) (by rw [t1]; simp only [pshape, List.map_cons, hprim]; rfl)
      | false =>
        simp only [Bool.false_eq_true, ↓reduceIte, Step.ok.injEq] at hs
        obtain ⟨rfl, _, rfl, _⟩ := hs
        obtain ⟨t1, t2⟩ := trans_attrNoBody hf hg
        rcases hsh with ⟨rfl, rfl, hsh⟩ | hsh
        · rw [hsh] at t1
          exact mkInv t2 (by simp) (by rw [t1]; simp only [pshape, List.map_cons, hprim]; rfl)
        · rw [hsh, hprim] at t1
          exact mkInv t2 (by simp) (by rw [t1]; simp only [pshape, List.map_cons, hprim]; rfl)

/-- The end of a body. -/
theorem endBody_inv {k : Kind} {s : BSt} {pre : List Event} {below : List PS} {m m' : MSt} {evs : List Event} {am : Bool}
    {st' : List PS} {rest r0 : List Char} (hi : Inv (.body k s :: below) m) (hpre : ∀ e ∈ pre, keeps e = true)
    (hs : endBody k (pre ++ [kindEndEvent k]) below r0 = .ok evs am st' rest) (hf : feedAll m evs = (m', none)) :
    Inv st' m' := by
  obtain ⟨hg, hsh⟩ := hi.cases
  rcases hsh with ⟨h, _, _⟩ | hsh
  · cases h
  · simp only [isBodyPS] at hsh
    cases k with
    | ab =>
      simp only [endBody, Step.ok.injEq] at hs
      obtain ⟨rfl, _, rfl, _⟩ := hs
      obtain ⟨g', b, t, e1, e2, e3⟩ := trans_end .ab hpre hf hsh hg
      cases below with
      | nil => simp [pshape] at e1
      | cons t0 b0 =>
        simp only [pshape, List.map_cons, List.cons.injEq] at e1
        exact mkInv g' (by simp [popAfterAttr]) (by rw [e3, e2 rfl, ← e1.2]; simp [popAfterAttr, pshape, isBodyPS])
    | rb =>
      simp only [endBody] at hs
      cases hp : popAfterItem below with
      | none => rw [hp] at hs; simp at hs
      | some stp =>
        rw [hp] at hs
        simp only [Step.ok.injEq] at hs
        obtain ⟨rfl, _, rfl, _⟩ := hs
        obtain ⟨g', b, t, e1, e2, e3⟩ := trans_end .rb hpre hf hsh hg
        obtain ⟨q1, q2⟩ := popAfterItem_shape hp
        exact mkInv g' q2 (by rw [e3, q1, e1])


/-- Events that keep the shape, read in a body frame. -/
theorem inv_keep {cur : PS} {below : List PS} {m m' : MSt} {evs : List Event} (k : Kind) (s : BSt)
    (hi : Inv (cur :: below) m) (hb : isBodyPS cur = true) (hk : ∀ e ∈ evs, keeps e = true)
    (hf : feedAll m evs = (m', none)) : Inv (.body k s :: below) m' := by
  obtain ⟨hg, hsh⟩ := hi.cases
  obtain ⟨a1, a2⟩ := feedAll_keeps evs m m' hk hf
  rcases hsh with ⟨rfl, _, _⟩ | hsh
  · simp [isBodyPS] at hb
  · exact mkInv (a2 hg) (by simp) (by rw [a1, hsh, hb]; rfl)

/-- `{` opening a record: in `.init`/`.afterAttr` (replacing the frame) . -/
theorem brace_replace_inv {cur : PS} {below : List PS} {m m' : MSt} (hi : Inv (cur :: below) m)
    (hb : isBodyPS cur = false) (hf : feedAll m [.startBody] = (m', none)) :
    Inv (.body .rb .startOrNl :: below) m' := by
  obtain ⟨hg, hsh⟩ := hi.cases
  obtain ⟨t1, t2⟩ := trans_brace hf
  rcases hsh with ⟨rfl, rfl, hsh⟩ | hsh
  · rw [hsh] at t1; exact mkInv (t2 hg) (by simp) (by rw [t1]; rfl)
  · rw [hsh, hb] at t1; exact mkInv (t2 hg) (by simp) (by rw [t1]; rfl)

/-- `{` opening a nested record inside a body. -/
theorem brace_push_inv {cur : PS} {below : List PS} {m m' : MSt} (hi : Inv (cur :: below) m)
    (hb : isBodyPS cur = true) (hf : feedAll m [.startBody] = (m', none)) :
    Inv (.body .rb .startOrNl :: cur :: below) m' := by
  obtain ⟨hg, hsh⟩ := hi.cases
  obtain ⟨t1, t2⟩ := trans_brace hf
  rcases hsh with ⟨rfl, _, _⟩ | hsh
  · simp [isBodyPS] at hb
  · rw [hsh, hb] at t1; exact mkInv (t2 hg) (by simp) (by rw [t1]; simp only [pshape, List.map_cons, hb]; rfl)

theorem stepInitS_inv {below : List PS} {m m' : MSt} {p : List Char} {evs : List Event} {am : Bool}
    {st' : List PS} {rest : List Char} (hi : Inv (.init :: below) m)
    (hs : stepInitS below p = .ok evs am st' rest) (hf : feedAll m evs = (m', none)) : Inv st' m' := by
  unfold stepInitS at hs
  cases hl : lexPrimM true p with
  | inc => rw [hl] at hs; simp at hs
  | ok e r =>
    rw [hl] at hs; simp only [Step.ok.injEq] at hs
    obtain ⟨rfl, _, rfl, _⟩ := hs
    obtain ⟨a1, a2⟩ := feedAll_keeps [e] m m' (by intro x hx; simp at hx; subst hx; exact lexPrimM_keeps hl) hf
    exact ⟨a2 hi.1, Or.inl rfl⟩
  | err =>
    rw [hl] at hs; simp only at hs
    cases ha : attrStep false .init below p with
    | inc => rw [ha] at hs; simp at hs
    | fin => rw [ha] at hs; simp at hs
    | panic => rw [ha] at hs; simp at hs
    | ok evs2 am2 st2 r2 =>
      rw [ha] at hs; simp only [Step.ok.injEq] at hs
      obtain ⟨rfl, rfl, rfl, rfl⟩ := hs
      exact attrStep_inv hi rfl ha hf
    | err =>
      rw [ha] at hs; simp only at hs
      split at hs
      · simp only [Step.ok.injEq] at hs
        obtain ⟨rfl, _, rfl, _⟩ := hs
        exact brace_replace_inv hi rfl hf
      · simp at hs

theorem stepAfterAttr_inv {below : List PS} {m m' : MSt} {p : List Char} {evs : List Event} {am : Bool}
    {st' : List PS} {rest : List Char} (hi : Inv (.afterAttr :: below) m)
    (hs : stepAfterAttr below p = .ok evs am st' rest) (hf : feedAll m evs = (m', none)) : Inv st' m' := by
  have hsingle : ∀ (mid : List Event) (stp : List PS), (∀ e ∈ mid, keeps e = true) → popAfterItem below = some stp →
      feedAll m (.startBody :: (mid ++ [.endRecord])) = (m', none) → Inv stp m' := by
    intro mid stp hmid hp hf'
    obtain ⟨hg, hsh⟩ := hi.cases
    rcases hsh with ⟨h, _, _⟩ | hsh
    · cases h
    · obtain ⟨b1, b2, b3⟩ := trans_single hmid hf' hsh hg
      obtain ⟨q1, q2⟩ := popAfterItem_shape hp
      exact mkInv b2 q2 (by rw [b1, q1])
  unfold stepAfterAttr at hs
  cases hl : lexPrimM true p with
  | inc => rw [hl] at hs; simp at hs
  | ok e r =>
    rw [hl] at hs; simp only at hs
    cases hp : popAfterItem below with
    | none => rw [hp] at hs; simp at hs
    | some stp =>
      rw [hp] at hs; simp only [Step.ok.injEq] at hs
      obtain ⟨rfl, _, rfl, _⟩ := hs
      exact hsingle [e] stp (by intro x hx; simp at hx; subst hx; exact lexPrimM_keeps hl) hp hf
  | err =>
    rw [hl] at hs; simp only at hs
    cases ha : attrStep false .afterAttr below p with
    | inc => rw [ha] at hs; simp at hs
    | fin => rw [ha] at hs; simp at hs
    | panic => rw [ha] at hs; simp at hs
    | ok evs2 am2 st2 r2 =>
      rw [ha] at hs; simp only [Step.ok.injEq] at hs
      obtain ⟨rfl, rfl, rfl, rfl⟩ := hs
      exact attrStep_inv hi rfl ha hf
    | err =>
      rw [ha] at hs; simp only at hs
      split at hs
      · simp only [Step.ok.injEq] at hs
        obtain ⟨rfl, _, rfl, _⟩ := hs
        exact brace_replace_inv hi rfl hf
      · cases hpk : peekTerminator p with
        | inc => rw [hpk] at hs; simp at hs
        | err => rw [hpk] at hs; simp at hs
        | ok a b =>
          rw [hpk] at hs; simp only at hs
          cases hp : popAfterItem below with
          | none => rw [hp] at hs; simp at hs
          | some stp =>
            rw [hp] at hs; simp only [Step.ok.injEq] at hs
            obtain ⟨rfl, _, rfl, _⟩ := hs
            exact hsingle [] stp (by simp) hp hf

theorem attrOrBrace_inv {cur : PS} {below : List PS} {m m' : MSt} {c : Char} {r : List Char} {evs : List Event}
    {am : Bool} {st' : List PS} {rest : List Char} (hi : Inv (cur :: below) m) (hb : isBodyPS cur = true)
    (hs : (match attrStep true cur below (c :: r) with
        | .err => if c = '{' then Step.ok [.startBody] false (.body .rb .startOrNl :: cur :: below) r else .err
        | x => x) = .ok evs am st' rest) (hf : feedAll m evs = (m', none)) : Inv st' m' := by
  cases ha : attrStep true cur below (c :: r) with
  | inc => rw [ha] at hs; simp at hs
  | fin => rw [ha] at hs; simp at hs
  | panic => rw [ha] at hs; simp at hs
  | ok evs2 am2 st2 r2 =>
    rw [ha] at hs; simp only [Step.ok.injEq] at hs
    obtain ⟨rfl, rfl, rfl, rfl⟩ := hs
    exact attrStep_inv hi hb ha hf
  | err =>
    rw [ha] at hs; simp only at hs
    split at hs
    · simp only [Step.ok.injEq] at hs
      obtain ⟨rfl, _, rfl, _⟩ := hs
      exact brace_push_inv hi hb hf
    · simp at hs

theorem keeps_extant : keeps .extant = true := by simp [keeps, primValue]
theorem keeps_slot : keeps .slot = true := by simp [keeps]

theorem stepNotAfterItem_inv {k : Kind} {req : Bool} {s : BSt} {below : List PS} {m m' : MSt} {p : List Char}
    {evs : List Event} {am : Bool} {st' : List PS} {rest : List Char} (hi : Inv (.body k s :: below) m)
    (hs : stepNotAfterItem k req (.body k s) below p = .ok evs am st' rest) (hf : feedAll m evs = (m', none)) :
    Inv st' m' := by
  unfold stepNotAfterItem at hs
  cases hl : lexPrimM true p with
  | inc => rw [hl] at hs; simp at hs
  | ok e r =>
    rw [hl] at hs; simp only [Step.ok.injEq] at hs
    obtain ⟨rfl, _, rfl, _⟩ := hs
    exact inv_keep k _ hi rfl (by intro x hx; simp at hx; subst hx; exact lexPrimM_keeps hl) hf
  | err =>
    rw [hl] at hs; simp only at hs
    cases p with
    | nil => simp at hs
    | cons c r =>
      simp only at hs
      by_cases h1 : isSep c = true
      · simp only [h1, ↓reduceIte, Step.ok.injEq] at hs
        obtain ⟨rfl, _, rfl, _⟩ := hs
        exact inv_keep k _ hi rfl (by simp [keeps_extant]) hf
      · by_cases h2 : c = ':'
        · simp only [h1, Bool.false_eq_true, ↓reduceIte, h2, Step.ok.injEq] at hs
          obtain ⟨rfl, _, rfl, _⟩ := hs
          exact inv_keep k _ hi rfl (by simp [keeps_extant, keeps_slot]) hf
        · by_cases h3 : c = k.close
          · simp only [h1, Bool.false_eq_true, ↓reduceIte, h2] at hs
            rw [if_pos h3] at hs
            cases req with
            | true =>
              exact endBody_inv (pre := [.extant]) hi (by simp [keeps_extant]) hs hf
            | false =>
              exact endBody_inv (pre := []) hi (by simp) hs hf
          · simp only [h1, Bool.false_eq_true, ↓reduceIte, h2, h3] at hs
            exact attrOrBrace_inv hi rfl hs hf

theorem stepSlotValue_inv {k : Kind} {s : BSt} {below : List PS} {m m' : MSt} {p : List Char}
    {evs : List Event} {am : Bool} {st' : List PS} {rest : List Char} (hi : Inv (.body k s :: below) m)
    (hs : stepSlotValue k (.body k s) below p = .ok evs am st' rest) (hf : feedAll m evs = (m', none)) :
    Inv st' m' := by
  unfold stepSlotValue at hs
  cases hl : lexPrimM true p with
  | inc => rw [hl] at hs; simp at hs
  | ok e r =>
    rw [hl] at hs; simp only [Step.ok.injEq] at hs
    obtain ⟨rfl, _, rfl, _⟩ := hs
    exact inv_keep k _ hi rfl (by intro x hx; simp at hx; subst hx; exact lexPrimM_keeps hl) hf
  | err =>
    rw [hl] at hs; simp only at hs
    cases hle : lineEndM p with
    | inc => rw [hle] at hs; simp at hs
    | ok a b =>
      rw [hle] at hs; simp only [Step.ok.injEq] at hs
      obtain ⟨rfl, _, rfl, _⟩ := hs
      exact inv_keep k _ hi rfl (by simp [keeps_extant]) hf
    | err =>
      rw [hle] at hs; simp only at hs
      cases p with
      | nil => simp at hs
      | cons c r =>
        simp only at hs
        by_cases h1 : isSep c = true
        · simp only [h1, ↓reduceIte, Step.ok.injEq] at hs
          obtain ⟨rfl, _, rfl, _⟩ := hs
          exact inv_keep k _ hi rfl (by simp [keeps_extant]) hf
        · by_cases h3 : c = k.close
          · simp only [h1, Bool.false_eq_true, ↓reduceIte] at hs
            rw [if_pos h3] at hs
            exact endBody_inv (pre := [.extant]) hi (by simp [keeps_extant]) hs hf
          · simp only [h1, Bool.false_eq_true, ↓reduceIte, h3] at hs
            exact attrOrBrace_inv hi rfl hs hf

theorem stepAfterItem_inv {k : Kind} {slotOk : Bool} {s : BSt} {below : List PS} {m m' : MSt} {p : List Char}
    {evs : List Event} {am : Bool} {st' : List PS} {rest : List Char} (hi : Inv (.body k s :: below) m)
    (hs : stepAfterItem k slotOk below p = .ok evs am st' rest) (hf : feedAll m evs = (m', none)) :
    Inv st' m' := by
  unfold stepAfterItem at hs
  cases hle : lineEndM p with
  | inc => rw [hle] at hs; simp at hs
  | ok a b =>
    rw [hle] at hs; simp only [Step.ok.injEq] at hs
    obtain ⟨rfl, _, rfl, _⟩ := hs
    exact inv_keep k _ hi rfl (by simp) hf
  | err =>
    rw [hle] at hs; simp only at hs
    cases p with
    | nil => simp at hs
    | cons c r =>
      simp only at hs
      by_cases h1 : isSep c = true
      · simp only [h1, ↓reduceIte, Step.ok.injEq] at hs
        obtain ⟨rfl, _, rfl, _⟩ := hs
        exact inv_keep k _ hi rfl (by simp) hf
      · by_cases h2 : (slotOk && decide (c = ':')) = true
        · simp only [h1, Bool.false_eq_true, ↓reduceIte, h2, Step.ok.injEq] at hs
          obtain ⟨rfl, _, rfl, _⟩ := hs
          exact inv_keep k _ hi rfl (by simp [keeps_slot]) hf
        · by_cases h3 : c = k.close
          · simp only [h1, Bool.false_eq_true, ↓reduceIte, h2] at hs
            rw [if_pos h3] at hs
            exact endBody_inv (pre := []) hi (by simp) hs hf
          · simp only [h1, Bool.false_eq_true, ↓reduceIte, h2, h3] at hs
            simp at hs

/-- One parser call preserves the coupling. -/
theorem istep_inv {st : List PS} {m m' : MSt} {p : List Char} {evs : List Event} {am : Bool}
    {st' : List PS} {rest : List Char} (hi : Inv st m)
    (hs : istep st p = .ok evs am st' rest) (hf : feedAll m evs = (m', none)) : Inv st' m' := by
  unfold istep at hs
  cases st with
  | nil => simp at hs
  | cons top below =>
    simp only at hs
    cases h1 : skipSpaces p with
    | nil => rw [h1] at hs; simp at hs
    | cons x i1 =>
      rw [h1] at hs; simp only at hs
      cases top with
      | init =>
        simp only at hs
        cases h2 : skipMulti (x :: i1) with
        | nil => rw [h2] at hs; simp at hs
        | cons y i2 => rw [h2] at hs; exact stepInitS_inv hi hs hf
      | afterAttr => exact stepAfterAttr_inv hi hs hf
      | body k s =>
        cases s with
        | startOrNl =>
          simp only at hs
          cases h2 : skipMulti (x :: i1) with
          | nil => rw [h2] at hs; simp at hs
          | cons y i2 => rw [h2] at hs; exact stepNotAfterItem_inv hi hs hf
        | afterSep =>
          simp only at hs
          cases h2 : skipMulti (x :: i1) with
          | nil => rw [h2] at hs; simp at hs
          | cons y i2 => rw [h2] at hs; exact stepNotAfterItem_inv hi hs hf
        | afterValue => exact stepAfterItem_inv hi hs hf
        | afterSlot => exact stepAfterItem_inv hi hs hf
        | slot => exact stepSlotValue_inv hi hs hf


/-- The coupling holds wherever a decoder run stops to ask for more input. -/
theorem decodeInner_inv (st : List PS) (m : MSt) (p : List Char) :
    Inv st m → (decodeInner st m p).2.2.2 = .none →
      Inv (decodeInner st m p).1 (decodeInner st m p).2.1 ∧ (decodeInner st m p).1 ≠ [] := by
  induction st, m, p using decodeInner.induct with
  | case1 st m p evs am st' rest hs hlt m' hf ih =>
    rw [decodeInner.eq_def st m p]
    simp only [hs, hlt, ↓reduceIte, hf]
    intro hi
    exact ih (istep_inv hi hs hf)
  | case2 st m p evs am st' rest hs hlt m' v hf =>
    rw [decodeInner.eq_def st m p]; simp [hs, hlt, hf]
  | case3 st m p evs am st' rest hs hlt m' hf =>
    rw [decodeInner.eq_def st m p]; simp [hs, hlt, hf]
  | case4 st m p evs am st' rest hs hlt =>
    rw [decodeInner.eq_def st m p]; simp [hs, hlt]
  | case5 st m p hs v hfl => rw [decodeInner.eq_def st m p]; simp [hs, hfl]
  | case6 st m p hs hfl => rw [decodeInner.eq_def st m p]; simp [hs, hfl]
  | case7 st m p hs =>
    intro hi _
    rw [decodeInner.eq_def st m p]
    simp only [hs]
    refine ⟨hi, ?_⟩
    intro h; subst h; simp [istep] at hs
  | case8 st m p hs => rw [decodeInner.eq_def st m p]; simp [hs]
  | case9 st m p hs => rw [decodeInner.eq_def st m p]; simp [hs]

theorem Inv_init : Inv [.init] {} := ⟨by simp [MGood], Or.inr (Or.inl ⟨rfl, rfl⟩)⟩

/-- With the coupling, a parser that is not at `[Init]`/`[AfterAttr]` sits on a recogniser that cannot flush. -/
theorem Inv_noFinal_flush {st : List PS} {m : MSt} (hi : Inv st m) (hne : st ≠ []) (hf : hasFinal st = false) :
    m.flush = none := by
  obtain ⟨_, h | h | h⟩ := hi
  · exact absurd h hne
  · rw [h.1] at hf; simp [hasFinal] at hf
  · obtain ⟨h1, h2⟩ := h
    unfold MSt.flush
    cases st with
    | nil => exact absurd rfl hne
    | cons t b =>
      cases b with
      | nil =>
        cases t with
        | init => simp [hasFinal] at hf
        | afterAttr => simp [hasFinal] at hf
        | body k s =>
          simp only [shape, pshape, List.map_cons, List.map_nil, isBodyPS] at h2
          cases hm : m.stack with
          | nil => rw [hm] at h2; simp at h2
          | cons f r =>
            rw [hm] at h2
            simp only [List.map_cons, List.cons.injEq, List.map_eq_nil_iff] at h2
            obtain ⟨e1, rfl⟩ := h2
            simp [e1]
      | cons t2 b2 =>
        simp only [shape, pshape, List.map_cons] at h2
        cases hm : m.stack with
        | nil => rw [hm] at h2; simp at h2
        | cons f r =>
          cases r with
          | nil => rw [hm] at h2; simp at h2
          | cons f2 r2 => rfl

/-- The coupling obligation of `decodeEof_eq_finalOne`, discharged. -/
theorem flushCoupled : FlushCoupled := by
  intro T st m rest hd hf
  have h := decodeInner_inv [.init] {} T Inv_init (by rw [hd])
  rw [hd] at h
  exact Inv_noFinal_flush h.1 h.2 hf


end SwimVerif.ReconInc
