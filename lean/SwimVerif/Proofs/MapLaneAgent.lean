/-
The lane model (`Model/MapLane.lean`: sorted assoc-list map, indexed `EventQueue<K, ()>` with wrapping epochs,
`WriteQueues::pop` with its event/sync alternation, the `MapEventQueue::pop` loop skipping vanished keys, take/drop)
refines the specification agent `AgentQ` on which `C02_agent_queue_converges` is proved: every lane operation is a
sequence of `aStep`s on the abstraction, sync traffic does not touch the event queue or the map. Hence the fold of the
standard events the lane writes is the lane's map whenever the event queue is empty.
-/
import SwimVerif.Proofs.EpochQueueCompose
import SwimVerif.Proofs.MapCompose
import SwimVerif.Proofs.MapLaneTakeDrop

set_option linter.unusedVariables false
namespace SwimVerif.ML
open SwimVerif.WT (MapOp mqPush KMap AgentQ AOp aStep aRun AInv applyOp applyAll setKey emptyMap applyOpt)

/-! ### `WriteQueues::pop` touches the event queue only by popping it -/

def isEvent : Option ToWrite → Option Act
  | some (.event a) => some a
  | _ => none

theorem wq_pop_cases (w : WQ) :
    (∃ a, w.pop.1 = some (.event a) ∧ w.eq.pop.1 = some a ∧ w.pop.2.eq = w.eq.pop.2) ∨
    (isEvent w.pop.1 = none ∧ w.pop.2.eq = w.eq) := by
  unfold WQ.pop
  split
  · cases hp : w.eq.pop with
    | mk o eq' =>
      cases o with
      | none => right; simp [isEvent]
      | some a => left; exact ⟨a, by simp⟩
  · split
    · right; simp [isEvent]
    · rename_i r p hs
      by_cases hp0 : p > 0
      · simp only [hp0, ↓reduceIte]
        cases hp : w.eq.pop with
        | mk o eq' =>
          cases o with
          | none => right; simp [isEvent]
          | some a => left; exact ⟨a, by simp⟩
      · simp only [hp0, ↓reduceIte]
        right; simp [isEvent]
    · right; simp [isEvent]

/-! ### the indexed event queue inside the lane -/

def QInv (q : EQ) : Prop := EQV.Inv (toQ q)

theorem eq_pop_fst (q : EQ) : q.pop.1 = q.events.head? := by
  unfold EQ.pop; cases q.events <;> simp

theorem eq_pop_events (q : EQ) : q.pop.2.events = q.events.tail := by
  unfold EQ.pop; cases h : q.events <;> simp [h]

theorem qinv_pop {q : EQ} (h : QInv q) (hlen : q.events.length ≤ EQV.M64) : QInv q.pop.2 := by
  unfold QInv; rw [(toQ_pop q).1]
  exact (EQV.pop_refines h (by simpa [toQ] using hlen)).2.2

theorem eq_push_refines {q : EQ} (h : QInv q) (hlen : q.events.length < EQV.M64) (a : Act) :
    (q.push a).events.map actOp = mqPush (q.events.map actOp) (actOp a) ∧ QInv (q.push a) := by
  have hp := EQV.push_refines h (by simpa [toQ] using hlen) (actE a)
  rw [← toQ_push] at hp
  refine ⟨?_, hp.2⟩
  have h1 := congrArg (List.map EQV.entryKeyOp) hp.1
  rw [EQV.specPush_map EQV.entryKeyOp EQV.entryKeyOp_key rfl] at h1
  have hc : EQV.entryKeyOp ∘ actE = actOp := funext entryKeyOp_actE
  simpa [toQ, List.map_map, hc, entryKeyOp_actE] using h1

theorem eq_push_length (q : EQ) (a : Act) : (q.push a).events.length ≤ q.events.length + 1 := by
  unfold EQ.push
  cases a.key? with
  | none => simp
  | some k => cases hs : q.slot k <;> simp [hs]

/-! ### abstraction of the lane to the specification agent -/

def absContent (c : List (Nat × Nat)) : KMap := fun k => (alGet c k).map (fun v => [v])

theorem alGet_insertSorted_eq (k v : Nat) : ∀ (c : List (Nat × Nat)) (x : Nat),
    alGet (insertSorted k v c) x = if k = x then some v else alGet c x := by
  intro c
  induction c with
  | nil => intro x; simp [insertSorted, alGet]
  | cons p rest ih =>
    obtain ⟨k', v'⟩ := p
    intro x
    unfold insertSorted
    by_cases h1 : k < k'
    · rw [if_pos h1]; by_cases hx : k = x <;> simp [alGet, hx]
    · rw [if_neg h1]
      by_cases h2 : k = k'
      · rw [if_pos h2]; subst h2; by_cases hx : k = x <;> simp [alGet, hx]
      · rw [if_neg h2]
        by_cases hx : k = x
        · subst hx
          have : ¬ k' = k := fun h => h2 h.symm
          simp [alGet, this, ih]
        · by_cases hx' : k' = x <;> simp [alGet, hx, hx', ih]

theorem absContent_insert (c : List (Nat × Nat)) (k v : Nat) :
    absContent (insertSorted k v c) = setKey (absContent c) k (some [v]) := by
  funext x
  simp only [absContent, setKey, alGet_insertSorted_eq]
  by_cases hx : k = x
  · subst hx; simp
  · have : ¬ x = k := fun h => hx h.symm
    simp [hx, this]

theorem absContent_erase (c : List (Nat × Nat)) (k : Nat) :
    absContent (alErase c k) = setKey (absContent c) k none := by
  funext x
  simp only [absContent, setKey, alGet_alErase]
  by_cases hx : k = x
  · subst hx; simp
  · have : ¬ x = k := fun h => hx h.symm
    simp [hx, this]

theorem absContent_nil : absContent [] = fun _ => none := by funext x; simp [absContent]

def absL (s : St) (rep : KMap) : AgentQ :=
  { content := absContent s.content, queue := s.wq.eq.events.map actOp, rep := rep }

structure LInv (s : St) (rep : KMap) : Prop where
  agent : AInv (absL s rep)
  qinv : QInv s.wq.eq

theorem linv_init : LInv {} emptyMap :=
  ⟨by have h : absL {} emptyMap = {} := by simp [absL, absContent_nil]; rfl
      rw [h]; exact WT.ainv_init,
   EQV.inv_empty (by simp [EQV.M64])⟩

theorem absL_pushAct (s : St) (a : Act) (rep : KMap) (c : List (Nat × Nat)) :
    (pushAct { s with content := c } a).wq.eq = s.wq.eq.push a ∧ (pushAct { s with content := c } a).content = c :=
  ⟨rfl, rfl⟩

theorem linv_update {s : St} {rep : KMap} (h : LInv s rep) (hlen : s.wq.eq.events.length < EQV.M64) (k v : Nat) :
    LInv (step s (.update k v)).1 rep := by
  have hp := eq_push_refines h.qinv hlen (.upd k)
  refine ⟨?_, hp.2⟩
  have : absL (step s (.update k v)).1 rep = aStep (absL s rep) (.update k [v]) := by
    show AgentQ.mk _ _ _ = AgentQ.mk _ _ _
    congr 1
    · exact absContent_insert _ _ _
    · exact hp.1
  rw [this]; exact WT.ainv_step h.agent _

theorem linv_clear {s : St} {rep : KMap} (h : LInv s rep) (hlen : s.wq.eq.events.length < EQV.M64) :
    LInv (step s .clear).1 rep := by
  have hp := eq_push_refines h.qinv hlen .clear
  refine ⟨?_, hp.2⟩
  have : absL (step s .clear).1 rep = aStep (absL s rep) .clear := by
    show AgentQ.mk _ _ _ = AgentQ.mk _ _ _
    congr 1
  rw [this]; exact WT.ainv_step h.agent _

theorem doRemove_eq_length (s : St) (k : Nat) :
    (doRemove s k).wq.eq.events.length ≤ s.wq.eq.events.length + 1 := by
  unfold doRemove
  cases alGet s.content k with
  | none => simp
  | some v => exact eq_push_length _ _

theorem linv_doRemove {s : St} {rep : KMap} (h : LInv s rep) (hlen : s.wq.eq.events.length < EQV.M64) (k : Nat) :
    LInv (doRemove s k) rep := by
  cases hg : alGet s.content k with
  | none =>
    have : doRemove s k = s := by unfold doRemove; simp only [hg]
    rw [this]; exact h
  | some v =>
    have hd : doRemove s k = pushAct { s with content := alErase s.content k } (.rem k) := by
      unfold doRemove; simp only [hg]
    have hp := eq_push_refines h.qinv hlen (.rem k)
    rw [hd]
    refine ⟨?_, hp.2⟩
    have : absL (pushAct { s with content := alErase s.content k } (.rem k)) rep = aStep (absL s rep) (.remove k) := by
      have hc : (absL s rep).content k = some [v] := by simp [absL, absContent, hg]
      simp only [aStep, hc]
      show AgentQ.mk _ _ _ = AgentQ.mk _ _ _
      congr 1
      · exact absContent_erase _ _
      · exact hp.1
    rw [this]; exact WT.ainv_step h.agent _

theorem linv_foldl_doRemove (rep : KMap) : ∀ (ks : List Nat) (s : St), LInv s rep →
    s.wq.eq.events.length + ks.length < EQV.M64 → LInv (ks.foldl doRemove s) rep := by
  intro ks
  induction ks with
  | nil => intro s h _; exact h
  | cons k ks ih =>
    intro s h hlen
    simp only [List.length_cons] at hlen
    have h1 := doRemove_eq_length s k
    exact ih _ (linv_doRemove h (by omega) k) (by omega)

/-! ### event writes: the `MapEventQueue::pop` loop over `WriteQueues::pop` -/

/-- a written frame as the operation an observer applies (sync traffic is addressed to the syncing remote only) -/
def frameOp : Frame → Option MapOp
  | .upd k v => some (.upd k [v])
  | .rem k => some (.rem k)
  | .clear => some .clear
  | .sync _ _ _ => none
  | .synced _ => none

def repAfter (rep : KMap) (f : Option Frame) : KMap := applyOpt rep (f.bind frameOp)

def absW (c : List (Nat × Nat)) (q : EQ) (rep : KMap) : AgentQ :=
  { content := absContent c, queue := q.events.map actOp, rep := rep }

theorem eq_pop_some {q : EQ} {a : Act} (h : q.pop.1 = some a) : ∃ rest, q.events = a :: rest ∧ q.pop.2.events = rest := by
  rw [eq_pop_fst] at h
  cases he : q.events with
  | nil => simp [he] at h
  | cons b rest =>
    simp [he] at h; subst h
    exact ⟨rest, rfl, by rw [eq_pop_events, he]; rfl⟩

/-- popping an event = one `AOp.pop` of the specification agent -/
theorem absW_pop_upd_some {c : List (Nat × Nat)} {q : EQ} {rep : KMap} {k v : Nat} {rest : List Act}
    (he : q.events = .upd k :: rest) (hg : alGet c k = some v) (q' : EQ) (hq' : q'.events = rest) :
    aStep (absW c q rep) .pop = absW c q' (applyOp rep (.upd k [v])) := by
  have hc : absContent c k = some [v] := by simp [absContent, hg]
  simp only [absW, he, hq', List.map_cons, actOp, aStep, hc]
  rfl

theorem absW_pop_upd_none {c : List (Nat × Nat)} {q : EQ} {rep : KMap} {k : Nat} {rest : List Act}
    (he : q.events = .upd k :: rest) (hg : alGet c k = none) (q' : EQ) (hq' : q'.events = rest) :
    aStep (absW c q rep) .pop = absW c q' rep := by
  have hc : absContent c k = none := by simp [absContent, hg]
  simp only [absW, he, hq', List.map_cons, actOp, aStep, hc]

theorem absW_pop_rem {c : List (Nat × Nat)} {q : EQ} {rep : KMap} {k : Nat} {rest : List Act}
    (he : q.events = .rem k :: rest) (q' : EQ) (hq' : q'.events = rest) :
    aStep (absW c q rep) .pop = absW c q' (applyOp rep (.rem k)) := by
  simp only [absW, he, hq', List.map_cons, actOp, aStep]
  rfl

theorem absW_pop_clear {c : List (Nat × Nat)} {q : EQ} {rep : KMap} {rest : List Act}
    (he : q.events = .clear :: rest) (q' : EQ) (hq' : q'.events = rest) :
    aStep (absW c q rep) .pop = absW c q' (applyOp rep .clear) := by
  simp only [absW, he, hq', List.map_cons, actOp, aStep]
  rfl

theorem popFrame_linv (c : List (Nat × Nat)) : ∀ (fuel : Nat) (w : WQ) (rep : KMap),
    AInv (absW c w.eq rep) → QInv w.eq → w.eq.events.length ≤ EQV.M64 →
    AInv (absW c (popFrame c fuel w).2.eq (repAfter rep (popFrame c fuel w).1)) ∧
    QInv (popFrame c fuel w).2.eq ∧ (popFrame c fuel w).2.eq.events.length ≤ w.eq.events.length := by
  intro fuel
  induction fuel with
  | zero => intro w rep h1 h2 h3; exact ⟨h1, h2, Nat.le_refl _⟩
  | succ fuel ih =>
    intro w rep h1 h2 h3
    rcases wq_pop_cases w with ⟨a, e1, e2, e3⟩ | ⟨e1, e3⟩
    · -- an event is popped
      obtain ⟨rest, he, hrest⟩ := eq_pop_some e2
      have hq2 : QInv w.pop.2.eq := by rw [e3]; exact qinv_pop h2 h3
      have hrest' : w.pop.2.eq.events = rest := by rw [e3]; exact hrest
      have hlen' : w.pop.2.eq.events.length ≤ w.eq.events.length := by rw [hrest', he]; simp
      have hstep := WT.ainv_step h1 .pop
      cases hp : w.pop with
      | mk o w' =>
        rw [hp] at e1 hq2 hrest' hlen'
        simp only at e1 hq2 hrest' hlen'
        subst e1
        cases a with
        | upd k =>
          cases hg : alGet c k with
          | some v =>
            have : popFrame c (fuel + 1) w = (some (.upd k v), w') := by simp only [popFrame, hp, hg]
            rw [this]
            rw [absW_pop_upd_some he hg w'.eq hrest'] at hstep
            exact ⟨hstep, hq2, hlen'⟩
          | none =>
            have : popFrame c (fuel + 1) w = popFrame c fuel w' := by simp only [popFrame, hp, hg]
            rw [this]
            rw [absW_pop_upd_none he hg w'.eq hrest'] at hstep
            have := ih w' rep hstep hq2 (by omega)
            exact ⟨this.1, this.2.1, by omega⟩
        | rem k =>
          have : popFrame c (fuel + 1) w = (some (.rem k), w') := by simp only [popFrame, hp]
          rw [this]
          rw [absW_pop_rem he w'.eq hrest'] at hstep
          exact ⟨hstep, hq2, hlen'⟩
        | clear =>
          have : popFrame c (fuel + 1) w = (some .clear, w') := by simp only [popFrame, hp]
          rw [this]
          rw [absW_pop_clear he w'.eq hrest'] at hstep
          exact ⟨hstep, hq2, hlen'⟩
    · -- sync traffic or nothing: the event queue is untouched
      cases hp : w.pop with
      | mk o w' =>
        rw [hp] at e1 e3
        simp only at e1 e3
        cases o with
        | none =>
          have : popFrame c (fuel + 1) w = (none, w') := by simp only [popFrame, hp]
          rw [this]; simp only [e3]
          exact ⟨h1, h2, Nat.le_refl _⟩
        | some t =>
          cases t with
          | event a => simp [isEvent] at e1
          | syncEvent r k =>
            cases hg : alGet c k with
            | some v =>
              have : popFrame c (fuel + 1) w = (some (.sync r k v), w') := by simp only [popFrame, hp, hg]
              rw [this]; simp only [e3]
              exact ⟨h1, h2, Nat.le_refl _⟩
            | none =>
              have : popFrame c (fuel + 1) w = popFrame c fuel w' := by simp only [popFrame, hp, hg]
              rw [this]
              have := ih w' rep (by rw [e3]; exact h1) (by rw [e3]; exact h2) (by rw [e3]; exact h3)
              rw [e3] at this; exact this
          | synced r =>
            have : popFrame c (fuel + 1) w = (some (.synced r), w') := by simp only [popFrame, hp]
            rw [this]; simp only [e3]
            exact ⟨h1, h2, Nat.le_refl _⟩

/-! ### every lane operation; runs -/

def outFrames : Option (WriteResult × Option Frame) → List Frame
  | some (_, some f) => [f]
  | some (_, none) => []
  | none => []

/-- the frames written along a run -/
def framesOf (s : St) : List Op → List Frame
  | [] => []
  | op :: ops => outFrames (step s op).2 ++ framesOf (step s op).1 ops

/-- the standard events among them, as operations on a replica -/
def opsOf (fs : List Frame) : List MapOp := fs.filterMap frameOp

/-- the queue and the map together hold fewer than 2^64 - 1 entries -/
def Small (s : St) : Prop := s.wq.eq.events.length + s.content.length + 1 < EQV.M64

instance (s : St) : Decidable (Small s) := by unfold Small; exact inferInstance

/-- it is enough to check the prefixes up to the length of the run -/
theorem small_prefixes (ops : List Op) (h : ∀ n, n < ops.length + 1 → Small (run {} (ops.take n))) :
    ∀ n, Small (run {} (ops.take n)) := by
  intro n
  by_cases hn : n < ops.length + 1
  · exact h n hn
  · have : ops.take n = ops.take ops.length := by rw [List.take_of_length_le (by omega), List.take_length]
    rw [this]; exact h _ (by omega)

theorem write_fst (s : St) : (step s .write).1 = { s with wq := (popFrame s.content (fuelFor s.wq) s.wq).2 } := by
  show (match (popFrame s.content (fuelFor s.wq) s.wq).1 with
    | some f => (({ s with wq := (popFrame s.content (fuelFor s.wq) s.wq).2 } : St),
        some (if (popFrame s.content (fuelFor s.wq) s.wq).2.isEmpty then WriteResult.done else .more, some f))
    | none => ({ s with wq := (popFrame s.content (fuelFor s.wq) s.wq).2 }, some (.noData, none))).1 = _
  cases (popFrame s.content (fuelFor s.wq) s.wq).1 <;> rfl

theorem write_frames (s : St) : outFrames (step s .write).2 = (popFrame s.content (fuelFor s.wq) s.wq).1.toList := by
  show outFrames (match (popFrame s.content (fuelFor s.wq) s.wq).1 with
    | some f => (({ s with wq := (popFrame s.content (fuelFor s.wq) s.wq).2 } : St),
        some (if (popFrame s.content (fuelFor s.wq) s.wq).2.isEmpty then WriteResult.done else .more, some f))
    | none => ({ s with wq := (popFrame s.content (fuelFor s.wq) s.wq).2 }, some (.noData, none))).2 = _
  cases (popFrame s.content (fuelFor s.wq) s.wq).1 <;> rfl

theorem applyAll_opsOf_toList (rep : KMap) (f : Option Frame) : applyAll rep (opsOf f.toList) = repAfter rep f := by
  cases f with
  | none => rfl
  | some f => cases hf : frameOp f <;> simp [opsOf, repAfter, applyOpt, applyAll, hf]

theorem linv_step {s : St} {rep : KMap} (h : LInv s rep) (hb : Small s) (op : Op) :
    LInv (step s op).1 (applyAll rep (opsOf (outFrames (step s op).2))) := by
  unfold Small at hb
  cases op with
  | update k v => exact linv_update h (by omega) k v
  | remove k => exact linv_doRemove h (by omega) k
  | clear => exact linv_clear h (by omega)
  | sync r => exact ⟨h.agent, h.qinv⟩
  | write =>
    rw [write_frames, write_fst, applyAll_opsOf_toList]
    have := popFrame_linv s.content (fuelFor s.wq) s.wq rep h.agent h.qinv (by omega)
    exact ⟨this.1, this.2.1⟩
  | dropFirst n =>
    exact linv_foldl_doRemove rep _ s h (by
      have : ((s.content.map (·.1)).take n).length ≤ s.content.length := by simp; omega
      omega)
  | takeFirst n =>
    exact linv_foldl_doRemove rep _ s h (by
      have : ((s.content.map (·.1)).drop n).length ≤ s.content.length := by simp
      omega)

theorem linv_run : ∀ (ops : List Op) (s : St) (rep : KMap), LInv s rep → (∀ n, Small (run s (ops.take n))) →
    LInv (run s ops) (applyAll rep (opsOf (framesOf s ops))) := by
  intro ops
  induction ops with
  | nil => intro s rep h _; exact h
  | cons op ops ih =>
    intro s rep h hb
    have h1 := linv_step h (by simpa [run] using hb 0) op
    have := ih (step s op).1 _ h1 (by intro n; simpa [run] using hb (n + 1))
    show LInv (run (step s op).1 ops) (applyAll rep (opsOf (outFrames (step s op).2 ++ framesOf (step s op).1 ops)))
    rw [opsOf, List.filterMap_append, WT.applyAll_append]
    exact this

/-- **The lane model converges**: along every run (updates, removes, clears, take/drop, sync requests, writes) in
which queue and map stay below 2^64 - 1 entries, an observer that applied every standard event the lane wrote holds,
whenever the lane's event queue is empty, exactly the lane's map. -/
theorem lane_converges (ops : List Op) (hb : ∀ n, Small (run {} (ops.take n)))
    (hq : (run {} ops).wq.eq.events = []) :
    applyAll emptyMap (opsOf (framesOf {} ops)) = absContent (run {} ops).content := by
  have := (linv_run ops {} emptyMap linv_init hb).agent
  exact WT.ainv_quiescent this (by simp [absL, hq])

end SwimVerif.ML
