/-
Legacy `String.splitOn` (one-character separator), `trimAscii` and `words` on strings built from tokens: what the line
protocol of the models needs to parse back what it rendered.
-/
import Std.Data.String.ToNat
import SwimVerif.Model.Util
open String
set_option linter.unusedVariables false
set_option linter.unusedSimpArgs false
set_option linter.unnecessarySimpa false

namespace SwimVerif.Str

def ulen : List Char → Nat
  | [] => 0
  | c :: cs => c.utf8Size + ulen cs

theorem ulen_append (a b : List Char) : ulen (a ++ b) = ulen a + ulen b := by
  induction a with
  | nil => simp [ulen]
  | cons x xs ih => simp [ulen, ih]; omega

theorem byteSize_ofList (cs : List Char) : (String.ofList cs).utf8ByteSize = ulen cs := by
  induction cs with
  | nil => rfl
  | cons c cs ih =>
    rw [String.ofList_cons, String.utf8ByteSize_append, String.utf8ByteSize_singleton, ih]
    rfl

theorem getAux_of_valid (cs cs' : List Char) (i p : Nat) (hp : i + ulen cs = p) :
    Pos.Raw.utf8GetAux (cs ++ cs') ⟨i⟩ ⟨p⟩ = cs'.headD default := by
  induction cs generalizing i with
  | nil =>
    simp [ulen] at hp
    subst hp
    cases cs' with
    | nil => rfl
    | cons c cs' => simp [Pos.Raw.utf8GetAux]
  | cons c cs ih =>
    simp only [ulen] at hp
    have hne : (⟨i⟩ : Pos.Raw) ≠ ⟨p⟩ := by
      intro h
      have := congrArg Pos.Raw.byteIdx h
      simp at this
      have := Char.utf8Size_pos c
      omega
    simp only [List.cons_append, Pos.Raw.utf8GetAux, hne, if_false]
    exact ih (i + c.utf8Size) (by omega)

theorem get_of_valid (cs cs' : List Char) :
    Pos.Raw.get (String.ofList (cs ++ cs')) ⟨ulen cs⟩ = cs'.headD default := by
  simp only [Pos.Raw.get, String.toList_ofList]
  exact getAux_of_valid cs cs' 0 _ (by simp)

theorem next_of_valid (cs : List Char) (c : Char) (cs' : List Char) :
    Pos.Raw.next (String.ofList (cs ++ c :: cs')) ⟨ulen cs⟩ = ⟨ulen cs + c.utf8Size⟩ := by
  simp only [Pos.Raw.next, get_of_valid]
  rfl

theorem atEnd_iff (cs : List Char) (p : Nat) : Pos.Raw.atEnd (String.ofList cs) ⟨p⟩ = decide (ulen cs ≤ p) := by
  simp [Pos.Raw.atEnd, byteSize_ofList]


theorem go2_append_left : ∀ (s t : List Char) (i e : Nat), e = ulen s + i →
    Pos.Raw.extract.go₂ (s ++ t) ⟨i⟩ ⟨e⟩ = s := by
  intro s
  induction s with
  | nil => intro t i e h; simp [ulen] at h; subst h; cases t <;> simp [Pos.Raw.extract.go₂]
  | cons c cs ih =>
    intro t i e h
    simp only [ulen] at h
    have hne : (⟨i⟩ : Pos.Raw) ≠ ⟨e⟩ := by
      intro h'
      have := congrArg Pos.Raw.byteIdx h'
      simp at this
      have := Char.utf8Size_pos c
      omega
    simp only [List.cons_append, Pos.Raw.extract.go₂, hne, if_false]
    congr 1
    exact ih t (i + c.utf8Size) e (by omega)

theorem go1_append_right : ∀ (s t : List Char) (i b : Nat) (e : Pos.Raw), b = ulen s + i →
    Pos.Raw.extract.go₁ (s ++ t) ⟨i⟩ ⟨b⟩ e = Pos.Raw.extract.go₂ t ⟨b⟩ e := by
  intro s
  induction s with
  | nil =>
    intro t i b e h
    simp [ulen] at h; subst h
    cases t <;> simp [Pos.Raw.extract.go₁, Pos.Raw.extract.go₂]
  | cons c cs ih =>
    intro t i b e h
    simp only [ulen] at h
    have hne : (⟨i⟩ : Pos.Raw) ≠ ⟨b⟩ := by
      intro h'
      have := congrArg Pos.Raw.byteIdx h'
      simp at this
      have := Char.utf8Size_pos c
      omega
    simp only [List.cons_append, Pos.Raw.extract.go₁, hne, if_false]
    exact ih t (i + c.utf8Size) b e (by omega)

theorem extract_of_valid (l m r : List Char) :
    Pos.Raw.extract (String.ofList (l ++ m ++ r)) ⟨ulen l⟩ ⟨ulen l + ulen m⟩ = String.ofList m := by
  simp only [Pos.Raw.extract, String.toList_ofList]
  split
  · rename_i h
    simp at h
    have : m = [] := by
      cases m with
      | nil => rfl
      | cons c cs => simp [ulen] at h; have := Char.utf8Size_pos c; omega
    subst this; rfl
  · have h0 : (0 : Pos.Raw) = ⟨0⟩ := rfl
    rw [List.append_assoc, h0, go1_append_right l (m ++ r) 0 (ulen l) _ (by simp),
      go2_append_left m r (ulen l) _ (by omega)]


/-- fields of a character list separated by `c` (`acc`: the current field, reversed) -/
def splitL (c : Char) : List Char → List Char → List (List Char)
  | [], acc => [acc.reverse]
  | x :: xs, acc => if x = c then acc.reverse :: splitL c xs [] else splitL c xs (x :: acc)

theorem splitOnAux_single (c : Char) : ∀ (r l m : List Char) (acc : List String),
    String.splitOnAux (String.ofList (l ++ m ++ r)) (String.singleton c) ⟨ulen l⟩ ⟨ulen l + ulen m⟩ 0 acc =
      acc.reverse ++ (splitL c r m.reverse).map String.ofList := by
  intro r
  induction r with
  | nil =>
    intro l m acc
    rw [String.splitOnAux]
    have hend : Pos.Raw.atEnd (String.ofList (l ++ m ++ [])) ⟨ulen l + ulen m⟩ = true := by
      rw [atEnd_iff]; simp [ulen_append, ulen]
    simp only [hend, if_true]
    rw [extract_of_valid]
    simp [splitL]
  | cons x xs ih =>
    intro l m acc
    rw [String.splitOnAux]
    have hend : Pos.Raw.atEnd (String.ofList (l ++ m ++ x :: xs)) ⟨ulen l + ulen m⟩ = false := by
      rw [atEnd_iff]
      have := Char.utf8Size_pos x
      simp [ulen_append, ulen]
      omega
    have hget : Pos.Raw.get (String.ofList (l ++ m ++ x :: xs)) ⟨ulen l + ulen m⟩ = x := by
      have := get_of_valid (l ++ m) (x :: xs)
      rw [ulen_append] at this
      simpa using this
    have hsep : Pos.Raw.get (String.singleton c) 0 = c := by
      have := get_of_valid [] [c]
      simpa [ulen] using this
    have hnext : Pos.Raw.next (String.ofList (l ++ m ++ x :: xs)) ⟨ulen l + ulen m⟩ = ⟨ulen l + ulen m + x.utf8Size⟩ := by
      have := next_of_valid (l ++ m) x xs
      rw [ulen_append] at this
      exact this
    simp only [hend, Bool.false_eq_true, if_false, hget, hsep]
    by_cases hx : x = c
    · subst hx
      have hsn : Pos.Raw.next (String.singleton x) 0 = ⟨x.utf8Size⟩ := by
        have := next_of_valid [] x []
        simpa [ulen] using this
      have hse : Pos.Raw.atEnd (String.singleton x) ⟨x.utf8Size⟩ = true := by
        have := atEnd_iff [x] x.utf8Size
        simpa [ulen] using this
      simp only [beq_self_eq_true, if_true, hnext, hsn, hse]
      have hun : (⟨ulen l + ulen m + x.utf8Size⟩ : Pos.Raw).unoffsetBy ⟨x.utf8Size⟩ = ⟨ulen l + ulen m⟩ := by
        simp [Pos.Raw.unoffsetBy]
      rw [hun, extract_of_valid]
      have hl : l ++ m ++ x :: xs = (l ++ m ++ [x]) ++ [] ++ xs := by simp
      have hu : ulen l + ulen m + x.utf8Size = ulen (l ++ m ++ [x]) := by simp [ulen_append, ulen]; omega
      have := ih (l ++ m ++ [x]) [] (String.ofList m :: acc)
      simp only [ulen, Nat.add_zero] at this
      rw [hl, hu, this]
      simp [splitL]
    · have hbeq : (x == c) = false := by simp [hx]
      simp only [hbeq, Bool.false_eq_true, if_false]
      have hun : (⟨ulen l + ulen m⟩ : Pos.Raw).unoffsetBy 0 = ⟨ulen l + ulen m⟩ := by
        simp [Pos.Raw.unoffsetBy]
      rw [hun, hnext]
      have hl : l ++ m ++ x :: xs = l ++ (m ++ [x]) ++ xs := by simp
      have hu : ulen l + ulen m + x.utf8Size = ulen l + ulen (m ++ [x]) := by simp [ulen_append, ulen]; omega
      rw [hl, hu, ih l (m ++ [x]) acc]
      simp [splitL, hx]

theorem splitOn_single (c : Char) (cs : List Char) :
    (String.ofList cs).splitOn (String.singleton c) = (splitL c cs []).map String.ofList := by
  have hne : (String.singleton c == "") = false := by
    have : String.singleton c ≠ "" := by
      intro h
      have := congrArg String.utf8ByteSize h
      rw [String.utf8ByteSize_singleton, String.utf8ByteSize_empty] at this
      have := Char.utf8Size_pos c
      omega
    simpa using this
  simp only [String.splitOn, hne, Bool.false_eq_true, if_false]
  have := splitOnAux_single c cs [] [] []
  simpa [ulen] using this

theorem trimStart_id (s : Slice) (h : s.copy.toList.head?.any Char.isWhitespace = false) : s.trimAsciiStart = s := by
  unfold Slice.trimAsciiStart Slice.dropWhile
  have h1 : s.startsWith Char.isWhitespace = false := by rw [Slice.startsWith_bool_eq_head?]; exact h
  have h2 := Slice.startsWith_bool_eq_false_iff_get.mp h1
  have h3 : s.startPos.skipWhile Char.isWhitespace = s.startPos := Slice.Pos.skipWhile_bool_eq_self_iff_get.mpr h2
  rw [Slice.skipPrefixWhile_eq_skipWhile_startPos, h3, Slice.sliceFrom_startPos]

theorem trimEnd_id (s : Slice) (h : s.copy.toList.getLast?.any Char.isWhitespace = false) : s.trimAsciiEnd = s := by
  unfold Slice.trimAsciiEnd Slice.dropEndWhile
  have h1 : s.endsWith Char.isWhitespace = false := by rw [Slice.endsWith_bool_eq_getLast?]; exact h
  have h2 := Slice.endsWith_bool_eq_false_iff_get.mp h1
  have h3 : s.endPos.revSkipWhile Char.isWhitespace = s.endPos := Slice.Pos.revSkipWhile_bool_eq_self_iff_get.mpr h2
  rw [Slice.skipSuffixWhile_eq_revSkipWhile_endPos, h3, Slice.sliceTo_endPos]

theorem trimAscii_id (s : String) (h1 : s.toList.head?.any Char.isWhitespace = false)
    (h2 : s.toList.getLast?.any Char.isWhitespace = false) : s.trimAscii.toString = s := by
  unfold String.trimAscii Slice.trimAscii Slice.toString
  rw [trimStart_id _ (by simpa using h1), trimEnd_id _ (by simpa using h2)]
  simp


/-! ### tokens joined by a separator character -/

def joinC (c : Char) : List (List Char) → List Char
  | [] => []
  | [t] => t
  | t :: t' :: ts => t ++ c :: joinC c (t' :: ts)

theorem splitL_append (c : Char) : ∀ (t rest acc : List Char), c ∉ t →
    splitL c (t ++ rest) acc = splitL c rest (t.reverse ++ acc) := by
  intro t
  induction t with
  | nil => intro rest acc _; rfl
  | cons x xs ih =>
    intro rest acc h
    have hx : ¬ x = c := fun hxc => h (by simp [hxc])
    simp only [List.cons_append, splitL, hx, if_false]
    rw [ih rest (x :: acc) (fun hc => h (List.mem_cons_of_mem _ hc))]
    simp

theorem splitL_joinC (c : Char) : ∀ (toks : List (List Char)), toks ≠ [] → (∀ t, t ∈ toks → c ∉ t) →
    splitL c (joinC c toks) [] = toks := by
  intro toks
  induction toks with
  | nil => intro h; exact absurd rfl h
  | cons t ts ih =>
    intro _ hc
    cases ts with
    | nil =>
      have := splitL_append c t [] [] (hc t (by simp))
      simp only [List.append_nil] at this
      simp [joinC, this, splitL]
    | cons t' ts =>
      have h1 := splitL_append c t (c :: joinC c (t' :: ts)) [] (hc t (by simp))
      simp only [joinC]
      rw [h1]
      simp only [splitL, if_true, List.append_nil, List.reverse_reverse]
      rw [ih (by simp) (fun u hu => hc u (List.mem_cons_of_mem _ hu))]

/-- legacy `String.splitOn` with a one-character separator, on tokens that do not contain it -/
theorem splitOn_of_toList (s : String) (c : Char) (toks : List String) (hne : toks ≠ [])
    (hs : s.toList = joinC c (toks.map String.toList)) (hc : ∀ t, t ∈ toks → c ∉ t.toList) :
    s.splitOn (String.singleton c) = toks := by
  have h1 : s = String.ofList s.toList := String.ofList_toList.symm
  rw [h1, splitOn_single, hs, splitL_joinC c _ (by simpa using hne)]
  · simp [List.map_map, Function.comp_def, String.ofList_toList]
  · intro t ht
    obtain ⟨u, hu, rfl⟩ := List.mem_map.mp ht
    exact hc u hu

theorem head?_joinC (c : Char) : ∀ (toks : List (List Char)), (∀ t, t ∈ toks → t ≠ []) →
    (joinC c toks).head? = (toks.head?).bind List.head? := by
  intro toks h
  cases toks with
  | nil => rfl
  | cons t ts =>
    have ht : t ≠ [] := h t (by simp)
    cases t with
    | nil => exact absurd rfl ht
    | cons x xs => cases ts <;> simp [joinC]

theorem getLast?_joinC (c : Char) : ∀ (toks : List (List Char)), (∀ t, t ∈ toks → t ≠ []) →
    (joinC c toks).getLast? = (toks.getLast?).bind List.getLast? := by
  intro toks
  induction toks with
  | nil => intro _; rfl
  | cons t ts ih =>
    intro h
    cases ts with
    | nil => simp [joinC]
    | cons t' ts =>
      have := ih (fun u hu => h u (List.mem_cons_of_mem _ hu))
      have hne : joinC c (t' :: ts) ≠ [] := by
        have ht' : t' ≠ [] := h t' (by simp)
        cases t' with
        | nil => exact absurd rfl ht'
        | cons x xs => cases ts <;> simp [joinC]
      simp only [joinC]
      rw [List.getLast?_append, List.getLast?_cons_of_ne_nil hne] at *
      simp only [List.getLast?_cons_cons]
      rw [← this]
      cases hj : (joinC c (t' :: ts)).getLast? with
      | none => simp [List.getLast?_eq_none_iff] at hj; exact absurd hj hne
      | some y => simp

/-- a token: not empty, no whitespace -/
def tokOk (t : String) : Bool := !t.toList.isEmpty && t.toList.all (fun c => !c.isWhitespace)

/-- `words` on tokens joined by single blanks -/
theorem words_of_toList (s : String) (toks : List String) (hne : toks ≠ [])
    (hs : s.toList = joinC ' ' (toks.map String.toList)) (hok : ∀ t, t ∈ toks → tokOk t = true) :
    SwimVerif.words s = toks := by
  have hnonempty : ∀ t, t ∈ toks.map String.toList → t ≠ [] := by
    intro t ht
    obtain ⟨u, hu, rfl⟩ := List.mem_map.mp ht
    have := hok u hu
    simp only [tokOk, Bool.and_eq_true, Bool.not_eq_true', List.isEmpty_eq_false_iff] at this
    exact this.1
  have hall : ∀ t, t ∈ toks → ∀ c, c ∈ t.toList → c.isWhitespace = false := by
    intro t ht c hc
    have := hok t ht
    simp only [tokOk, Bool.and_eq_true, List.all_eq_true, Bool.not_eq_true'] at this
    exact this.2 c hc
  have hhead : s.toList.head?.any Char.isWhitespace = false := by
    rw [hs, head?_joinC ' ' _ hnonempty]
    cases toks with
    | nil => rfl
    | cons t ts =>
      simp only [List.map_cons, List.head?_cons, Option.bind_some]
      cases hh : t.toList.head? with
      | none => rfl
      | some x => simpa using hall t (by simp) x (List.mem_of_mem_head? hh)
  have hlast : s.toList.getLast?.any Char.isWhitespace = false := by
    rw [hs, getLast?_joinC ' ' _ hnonempty]
    cases hl : (toks.map String.toList).getLast? with
    | none => rfl
    | some t =>
      simp only [Option.bind_some]
      obtain ⟨u, hu, rfl⟩ := List.mem_map.mp (List.mem_of_getLast? hl)
      cases hh : u.toList.getLast? with
      | none => rfl
      | some x => simpa using hall u hu x (List.mem_of_getLast? hh)
  unfold SwimVerif.words
  rw [trimAscii_id s hhead hlast]
  have hsp : s.splitOn " " = toks := by
    have : (" " : String) = String.singleton ' ' := rfl
    rw [this]
    apply splitOn_of_toList s ' ' toks hne hs
    intro t ht hc
    have := hall t ht ' ' hc
    simp [Char.isWhitespace] at this
  rw [hsp]
  apply List.filter_eq_self.mpr
  intro t ht
  have := hok t ht
  simp only [tokOk, Bool.and_eq_true, Bool.not_eq_true', List.isEmpty_eq_false_iff] at this
  simp only [ne_eq, decide_eq_true_eq]
  intro he
  rw [he] at this
  exact this.1 rfl

end SwimVerif.Str
