import SwimVerif.Model.ReadFeed

set_option linter.unusedVariables false
set_option linter.unusedSimpArgs false
namespace SwimVerif.RF

/-! ### small facts -/

@[simp] theorem upd_same {β : Type} (f : Nat → β) (k : Nat) (v : β) : upd f k v k = v := by simp [upd]
theorem upd_ne {β : Type} (f : Nat → β) {k k' : Nat} (v : β) (h : k' ≠ k) : upd f k v k' = f k' := by simp [upd, h]

@[simp] theorem flush_buf (x : Sender) : x.flush.buf = [] := rfl
@[simp] theorem flush_chan (x : Sender) : x.flush.chan = x.chan ++ x.buf := rfl
@[simp] theorem feed_buf (x : Sender) (q : Req) : (x.feed q).buf = x.buf ++ [q] := rfl
@[simp] theorem feed_chan (x : Sender) (q : Req) : (x.feed q).chan = x.chan := rfl

/-- envelopes `(lane, op)` of remote `r` among `(remote, lane, op)` triples -/
def msgsOf (r : Nat) (ms : List (Nat × Msg)) : List Msg := (ms.filter (·.1 = r)).map (·.2)

theorem msgsOf_append (r : Nat) (a b : List (Nat × Msg)) : msgsOf r (a ++ b) = msgsOf r a ++ msgsOf r b := by
  simp [msgsOf]

theorem reqsFor_append (c : Cfg) (l : Nat) (a b : List (Nat × Msg)) : reqsFor c l (a ++ b) = reqsFor c l a ++ reqsFor c l b := by
  simp [reqsFor]

theorem reqsOfInbox_append (c : Cfg) (r l : Nat) (a b : List Msg) :
    reqsOfInbox c r l (a ++ b) = reqsOfInbox c r l a ++ reqsOfInbox c r l b := by
  simp [reqsOfInbox]

theorem fromRemote_append (r : Nat) (a b : List Req) : fromRemote r (a ++ b) = fromRemote r a ++ fromRemote r b := by
  simp [fromRemote]

theorem reqOf_remote {c : Cfg} {l r r' : Nat} {e : Env} {q : Req} (h : reqOf c l r e = some q) :
    (match q with | .command x _ => decide (x = r') | .sync x => decide (x = r')) = decide (r = r') := by
  cases e with
  | link => simp [reqOf] at h
  | unlink => simp [reqOf] at h
  | sync => simp [reqOf] at h; subst h; rfl
  | command b =>
    simp only [reqOf] at h
    by_cases hr : c.rejects l (.command b) = true
    · simp [hr] at h
    · simp [hr] at h; subst h; rfl

/-- the requests of remote `r` among those picked for lane `l` are the requests among `r`'s own picked envelopes -/
theorem fromRemote_reqsFor (c : Cfg) (r l : Nat) (ms : List (Nat × Msg)) :
    fromRemote r (reqsFor c l ms) = reqsOfInbox c r l (msgsOf r ms) := by
  induction ms with
  | nil => rfl
  | cons p rest ih =>
    obtain ⟨r', l', e⟩ := p
    have hc : reqsFor c l ((r', l', e) :: rest) = reqsFor c l [(r', l', e)] ++ reqsFor c l rest := by
      rw [← reqsFor_append]; rfl
    have hm : msgsOf r ((r', l', e) :: rest) = msgsOf r [(r', l', e)] ++ msgsOf r rest := by
      rw [← msgsOf_append]; rfl
    rw [hc, hm, fromRemote_append, reqsOfInbox_append, ih]
    congr 1
    by_cases hl : l' = l
    · by_cases hr : r' = r
      · subst hr
        cases hq : reqOf c l r' e with
        | none => simp [reqsFor, msgsOf, reqsOfInbox, fromRemote, hl, hq]
        | some q =>
          have := reqOf_remote (r' := r') hq
          cases q <;> simp [reqsFor, msgsOf, reqsOfInbox, fromRemote, hl, hq] <;> simpa using this
      · cases hq : reqOf c l r' e with
        | none => simp [reqsFor, msgsOf, reqsOfInbox, fromRemote, hl, hq, hr]
        | some q =>
          have := reqOf_remote (r' := r) hq
          cases q <;> simp [reqsFor, msgsOf, reqsOfInbox, fromRemote, hl, hq, hr] <;> simpa [hr] using this
    · by_cases hr : r' = r <;> simp [reqsFor, msgsOf, reqsOfInbox, fromRemote, hl, hr]

/-! ### `flush_lane` and the lane switch -/

/-- at most one sender holds unflushed requests, and it is the one recorded in `needs_flush` -/
def Disc (s : St) : Prop := ∀ l, (s.sender l).buf ≠ [] → s.needsFlush = some l

theorem laneStream_eq (s : St) (l : Nat) :
    s.laneStream l = deliveredTo l s.delivered ++ ((s.sender l).chan ++ (s.sender l).buf) := by
  simp [St.laneStream]

theorem flushLane_stream (s : St) (l : Nat) : (flushLane s).laneStream l = s.laneStream l := by
  unfold flushLane
  cases h : s.needsFlush with
  | none => rfl
  | some i =>
    by_cases hl : l = i
    · subst hl; simp [laneStream_eq]
    · simp [laneStream_eq, upd_ne _ _ hl]

theorem flushLane_buf {s : St} (h : Disc s) (l : Nat) : ((flushLane s).sender l).buf = [] := by
  unfold flushLane
  cases hn : s.needsFlush with
  | none =>
    simp only []
    cases hb : (s.sender l).buf with
    | nil => rfl
    | cons q rest =>
      have := h l (by simp [hb])
      simp [hn] at this
  | some i =>
    by_cases hl : l = i
    · subst hl; simp
    · simp only [upd_ne _ _ hl]
      cases hb : (s.sender l).buf with
      | nil => rfl
      | cons q rest =>
        have := h l (by simp [hb])
        rw [hn] at this
        exact absurd (Option.some.inj this).symm hl

@[simp] theorem flushLane_nf (s : St) : (flushLane s).needsFlush = none := by
  unfold flushLane; cases h : s.needsFlush <;> simp [h]
@[simp] theorem flushLane_inbox (s : St) : (flushLane s).inbox = s.inbox := by
  unfold flushLane; cases h : s.needsFlush <;> rfl
@[simp] theorem flushLane_picked (s : St) : (flushLane s).picked = s.picked := by
  unfold flushLane; cases h : s.needsFlush <;> rfl
@[simp] theorem flushLane_sent (s : St) : (flushLane s).sent = s.sent := by
  unfold flushLane; cases h : s.needsFlush <;> rfl
@[simp] theorem flushLane_delivered (s : St) : (flushLane s).delivered = s.delivered := by
  unfold flushLane; cases h : s.needsFlush <;> rfl

theorem flushLane_disc {s : St} (h : Disc s) : Disc (flushLane s) := by
  intro l hb; exact absurd (flushLane_buf h l) hb

theorem switchTo_stream (s : St) (l l' : Nat) : (switchTo s l).laneStream l' = s.laneStream l' := by
  unfold switchTo
  cases h : s.needsFlush with
  | none => rfl
  | some i =>
    by_cases hi : i = l
    · simp [hi]
    · simp only [hi, if_false]; exact flushLane_stream s l'

@[simp] theorem switchTo_inbox (s : St) (l : Nat) : (switchTo s l).inbox = s.inbox := by
  unfold switchTo; cases h : s.needsFlush with
  | none => rfl
  | some i => by_cases hi : i = l <;> simp [hi]
@[simp] theorem switchTo_picked (s : St) (l : Nat) : (switchTo s l).picked = s.picked := by
  unfold switchTo; cases h : s.needsFlush with
  | none => rfl
  | some i => by_cases hi : i = l <;> simp [hi]
@[simp] theorem switchTo_sent (s : St) (l : Nat) : (switchTo s l).sent = s.sent := by
  unfold switchTo; cases h : s.needsFlush with
  | none => rfl
  | some i => by_cases hi : i = l <;> simp [hi]
@[simp] theorem switchTo_delivered (s : St) (l : Nat) : (switchTo s l).delivered = s.delivered := by
  unfold switchTo; cases h : s.needsFlush with
  | none => rfl
  | some i => by_cases hi : i = l <;> simp [hi]

/-- **the lane switch**: after it, no OTHER lane's sender holds unflushed requests -/
theorem switchTo_buf {s : St} (h : Disc s) (l l' : Nat) (hne : l' ≠ l) : ((switchTo s l).sender l').buf = [] := by
  unfold switchTo
  cases hn : s.needsFlush with
  | none =>
    simp only []
    cases hb : (s.sender l').buf with
    | nil => rfl
    | cons q rest =>
      have := h l' (by simp [hb])
      simp [hn] at this
  | some i =>
    by_cases hi : i = l
    · simp only [hi, if_true]
      cases hb : (s.sender l').buf with
      | nil => rfl
      | cons q rest =>
        have := h l' (by simp [hb])
        rw [hn] at this
        exact absurd ((Option.some.inj this).symm.trans hi) hne
    · simp only [hi, if_false]; exact flushLane_buf h l'

theorem switchTo_disc {s : St} (h : Disc s) (l : Nat) : Disc (switchTo s l) := by
  unfold switchTo
  cases hn : s.needsFlush with
  | none => simpa [hn] using h
  | some i =>
    by_cases hi : i = l
    · simp only [hi, if_true]; exact h
    · simp only [hi, if_false]; exact flushLane_disc h

/-! ### a command for an existing lane -/

@[simp] theorem countCommand_sender (s : St) (l : Nat) : (countCommand s l).sender = s.sender := rfl
@[simp] theorem countCommand_nf (s : St) (l : Nat) : (countCommand s l).needsFlush = s.needsFlush := rfl
@[simp] theorem countCommand_inbox (s : St) (l : Nat) : (countCommand s l).inbox = s.inbox := rfl
@[simp] theorem countCommand_picked (s : St) (l : Nat) : (countCommand s l).picked = s.picked := rfl
@[simp] theorem countCommand_sent (s : St) (l : Nat) : (countCommand s l).sent = s.sent := rfl
@[simp] theorem countCommand_delivered (s : St) (l : Nat) : (countCommand s l).delivered = s.delivered := rfl

theorem handleCommand_stream (c : Cfg) (s : St) (r l b l' : Nat) :
    (handleCommand c s r l b).laneStream l' =
      s.laneStream l' ++ (if l = l' then (reqOf c l r (.command b)).toList else []) := by
  unfold handleCommand
  by_cases hr : c.rejects l (.command b) = true
  · simp [hr, reqOf, laneStream_eq]
  · simp only [hr, if_false]
    by_cases hl : l = l'
    · subst hl
      cases (c.eager || c.mapLanes.contains l) <;> simp [laneStream_eq, reqOf, hr]
    · have hl' : l' ≠ l := fun h => hl h.symm
      simp [laneStream_eq, hl, upd_ne _ _ hl']

theorem handleCommand_disc (c : Cfg) {s : St} {l : Nat} (hd : Disc s)
    (hb : ∀ l', l' ≠ l → (s.sender l').buf = []) (r b : Nat) : Disc (handleCommand c s r l b) := by
  unfold handleCommand
  by_cases hr : c.rejects l (.command b) = true
  · simp only [hr, if_true]; exact hd
  · rw [if_neg hr]
    intro l' hne
    by_cases hl : l' = l
    · subst hl; rfl
    · simp only [countCommand_sender, upd_ne _ _ hl] at hne
      exact absurd (hb l' hl) hne

@[simp] theorem handleCommand_inbox (c : Cfg) (s : St) (r l b : Nat) : (handleCommand c s r l b).inbox = s.inbox := by
  unfold handleCommand; split <;> rfl
@[simp] theorem handleCommand_picked (c : Cfg) (s : St) (r l b : Nat) : (handleCommand c s r l b).picked = s.picked := by
  unfold handleCommand; split <;> rfl
@[simp] theorem handleCommand_sent (c : Cfg) (s : St) (r l b : Nat) : (handleCommand c s r l b).sent = s.sent := by
  unfold handleCommand; split <;> rfl

/-! ### one envelope -/

/-- what lane `l'` gains when the read task handles an envelope of remote `r` for lane `l` -/
def gain (c : Cfg) (r l : Nat) (e : Env) (l' : Nat) : List Req :=
  if l = l' then (if c.known.contains l then (reqOf c l r e).toList else []) else []

theorem handle_stream (c : Cfg) (s : St) (r l : Nat) (e : Env) (l' : Nat) :
    (handle c s r l e).laneStream l' = s.laneStream l' ++ gain c r l e l' := by
  unfold handle gain
  by_cases hk : c.known.contains l = true
  · simp only [hk, if_true]
    have hs := switchTo_stream s l l'
    cases e with
    | link =>
      simp only [reqOf, Option.toList]
      rw [← hs]; by_cases hl : l = l' <;> simp [hl, laneStream_eq]
    | unlink =>
      simp only [reqOf, Option.toList]
      rw [← hs]; by_cases hl : l = l' <;> simp [hl, laneStream_eq]
    | sync =>
      rw [← hs]
      by_cases hl : l = l'
      · subst hl; simp [laneStream_eq, reqOf]
      · have hl' : l' ≠ l := fun h => hl h.symm
        simp [laneStream_eq, hl, upd_ne _ _ hl']
    | command b =>
      rw [← hs, handleCommand_stream]
  · simp only [hk, if_false]
    have hs := flushLane_stream s l'
    cases e <;> simp [← hs, laneStream_eq]

theorem handle_disc (c : Cfg) {s : St} (h : Disc s) (r l : Nat) (e : Env) : Disc (handle c s r l e) := by
  unfold handle
  by_cases hk : c.known.contains l = true
  · simp only [hk, if_true]
    have hd := switchTo_disc h l
    have hb := switchTo_buf h l
    cases e with
    | link => exact hd
    | unlink => exact hd
    | sync =>
      intro l' hne
      by_cases hl : l' = l
      · subst hl; simp at hne
      · simp only [upd_ne _ _ hl] at hne
        exact absurd (hb l' hl) hne
    | command b => exact handleCommand_disc c hd hb r b
  · simp only [hk, if_false]
    have hd := flushLane_disc h
    cases e <;> exact hd

theorem handle_inbox (c : Cfg) (s : St) (r l : Nat) (e : Env) : (handle c s r l e).inbox = s.inbox := by
  unfold handle
  by_cases hk : c.known.contains l = true
  · simp only [hk, if_true]; cases e <;> simp
  · simp only [hk, if_false]; cases e <;> simp

theorem handle_picked (c : Cfg) (s : St) (r l : Nat) (e : Env) : (handle c s r l e).picked = s.picked := by
  unfold handle
  by_cases hk : c.known.contains l = true
  · simp only [hk, if_true]; cases e <;> simp
  · simp only [hk, if_false]; cases e <;> simp

theorem handle_sent (c : Cfg) (s : St) (r l : Nat) (e : Env) : (handle c s r l e).sent = s.sent := by
  unfold handle
  by_cases hk : c.known.contains l = true
  · simp only [hk, if_true]; cases e <;> simp
  · simp only [hk, if_false]; cases e <;> simp

/-! ### the invariant -/

structure Inv (c : Cfg) (s : St) : Prop where
  /-- every existing lane has been given exactly the requests picked for it, in pick order -/
  lane : ∀ l, c.known.contains l = true → s.laneStream l = reqsFor c l s.picked
  /-- every remote's channel is a FIFO: picked ++ waiting = sent -/
  remote : ∀ r, msgsOf r s.picked ++ s.inbox r = msgsOf r s.sent
  /-- the flush discipline -/
  disc : Disc s

theorem inv_init (c : Cfg) : Inv c {} :=
  ⟨fun l _ => by simp [St.laneStream, deliveredTo, reqsFor], fun r => by simp [msgsOf], fun l h => by simp at h⟩

theorem gain_eq (c : Cfg) (r l : Nat) (e : Env) (l' : Nat) (hk : c.known.contains l' = true) :
    gain c r l e l' = reqsFor c l' [(r, l, e)] := by
  unfold gain reqsFor
  by_cases hl : l = l'
  · subst hl
    have hk' : l ∈ c.known := by simpa using hk
    cases h : reqOf c l r e <;> simp [hk', h]
  · simp [hl]

theorem inv_step (c : Cfg) {s : St} (h : Inv c s) (op : Op) : Inv c (step c s op) := by
  cases op with
  | send r l e =>
    refine ⟨fun l' hk => ?_, fun r' => ?_, h.disc⟩
    · exact h.lane l' hk
    · show msgsOf r' s.picked ++ upd s.inbox r (s.inbox r ++ [(l, e)]) r' = msgsOf r' (s.sent ++ [(r, l, e)])
      rw [msgsOf_append, ← h.remote r']
      by_cases hr : r' = r
      · subst hr; simp [msgsOf]
      · have hr' : ¬ r = r' := fun x => hr x.symm
        simp [msgsOf, upd_ne _ _ hr, hr']
  | pick r =>
    simp only [step]
    cases hi : s.inbox r with
    | nil => simpa [hi] using h
    | cons m rest =>
      simp only []
      obtain ⟨l, e⟩ := m
      refine ⟨fun l' hk => ?_, fun r' => ?_, ?_⟩
      · rw [handle_stream, handle_picked]
        show s.laneStream l' ++ gain c r l e l' = reqsFor c l' (s.picked ++ [(r, l, e)])
        rw [reqsFor_append, h.lane l' hk, gain_eq c r l e l' hk]
      · rw [handle_inbox, handle_picked, handle_sent]
        show msgsOf r' (s.picked ++ [(r, l, e)]) ++ upd s.inbox r rest r' = msgsOf r' s.sent
        rw [← h.remote r', msgsOf_append]
        by_cases hr : r' = r
        · subst hr; simp [msgsOf, hi]
        · have hr' : ¬ r = r' := fun x => hr x.symm
          simp [msgsOf, upd_ne _ _ hr, hr']
      · exact handle_disc c (s := { s with inbox := upd s.inbox r rest, picked := s.picked ++ [(r, (l, e))] })
          h.disc r l e
  | idle =>
    refine ⟨fun l hk => ?_, fun r => ?_, flushLane_disc h.disc⟩
    · show (flushLane s).laneStream l = reqsFor c l (flushLane s).picked
      rw [flushLane_stream, flushLane_picked]; exact h.lane l hk
    · show msgsOf r (flushLane s).picked ++ (flushLane s).inbox r = msgsOf r (flushLane s).sent
      simp only [flushLane_picked, flushLane_inbox, flushLane_sent]; exact h.remote r
  | take l =>
    simp only [step]
    cases hc : (s.sender l).chan with
    | nil => simpa [hc] using h
    | cons q rest =>
      simp only []
      refine ⟨fun l' hk => ?_, h.remote, ?_⟩
      · rw [← h.lane l' hk]
        by_cases hl : l' = l
        · subst hl; simp [laneStream_eq, deliveredTo, hc]
        · have hl2 : ¬ l = l' := fun x => hl x.symm
          simp [laneStream_eq, deliveredTo, upd_ne _ _ hl, hl2]
      · intro l' hne
        by_cases hl : l' = l
        · subst hl
          simp only [upd_same] at hne
          exact h.disc l' hne
        · simp only [upd_ne _ _ hl] at hne
          exact h.disc l' hne

  | snapLane l => exact ⟨h.lane, h.remote, h.disc⟩
  | snapAgg => exact ⟨h.lane, h.remote, h.disc⟩

theorem inv_run (c : Cfg) (ops : List Op) : ∀ (s : St), Inv c s → Inv c (run c s ops) := by
  induction ops with
  | nil => intro s h; exact h
  | cons op rest ih => intro s h; exact ih _ (inv_step c h op)

end SwimVerif.RF
