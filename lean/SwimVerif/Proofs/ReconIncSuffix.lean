/-
C09b: what a parser call / a decoder call leaves unconsumed is a SUFFIX of its input.
-/
import SwimVerif.Proofs.ReconInc

namespace SwimVerif.ReconInc
open SwimVerif.Recon
open SwimVerif.ReconEq

/-! ## list helpers -/

theorem suf_dw {p : Char → Bool} {l r : List Char} (h : l.dropWhile p = r) : r <:+ l :=
  h ▸ List.dropWhile_suffix p

theorem suf_dw_cons {p : Char → Bool} {l r : List Char} {x : Char} (h : l.dropWhile p = x :: r) : r <:+ l :=
  (List.suffix_cons x r).trans (suf_dw h)

theorem stripSign_suffix (inp : List Char) : (stripSign inp).2 <:+ inp := by
  unfold stripSign
  split
  · exact List.suffix_cons _ _
  · exact List.suffix_refl _

theorem stripPlusMinus_suffix (inp : List Char) : (stripPlusMinus inp).2 <:+ inp := by
  unfold stripPlusMinus
  split
  · exact List.suffix_cons _ _
  · exact List.suffix_cons _ _
  · exact List.suffix_refl _

theorem scanString_suffix (inp : List Char) : ∀ b r, scanString inp = some (b, r) → r <:+ inp := by
  fun_induction scanString inp <;> intro b r h
  · cases h
  · cases h; exact List.suffix_cons _ _
  · cases h
  · rename_i ih
    simp only [Option.map_eq_some_iff] at h
    obtain ⟨⟨b', r'⟩, h1, h2⟩ := h
    cases h2
    exact (ih _ _ h1).trans ((List.suffix_cons _ _).trans (List.suffix_cons _ _))
  · rename_i ih
    simp only [Option.map_eq_some_iff] at h
    obtain ⟨⟨b', r'⟩, h1, h2⟩ := h
    cases h2
    exact (ih _ _ h1).trans (List.suffix_cons _ _)

theorem lexExponent_suffix (inp : List Char) (a : Bool) (b r : List Char) :
    lexExponent inp = some (a, b, r) → r <:+ inp := by
  intro h
  unfold lexExponent at h
  repeat' split at h
  all_goals first
    | (cases h; done)
    | (cases h; exact List.suffix_refl _)
    | (cases h
       exact (List.dropWhile_suffix _).trans ((stripPlusMinus_suffix _).trans (List.suffix_cons _ _)))

theorem lexFloatBody_suffix (neg : Bool) (inp : List Char) (v : Value) (r : List Char) :
    lexFloatBody neg inp = some (v, r) → r <:+ inp := by
  intro h
  unfold lexFloatBody at h
  repeat' split at h
  all_goals first
    | (cases h; done)
    | (cases h
       have he := lexExponent_suffix _ _ _ _ (by assumption)
       refine he.trans ?_
       first
        | exact (List.dropWhile_suffix _).trans (suf_dw_cons (by assumption))
        | exact List.dropWhile_suffix _
        | exact suf_dw (by assumption))

theorem lexFloat_suffix (inp : List Char) (v : Value) (r : List Char) :
    lexFloat inp = some (v, r) → r <:+ inp := by
  intro h
  unfold lexFloat at h
  exact (lexFloatBody_suffix _ _ _ _ h).trans (stripPlusMinus_suffix _)

theorem lexB64_suffix (fuel : Nat) (inp : List Char) :
    ∀ bs r, lexB64 fuel inp = some (bs, r) → r <:+ inp := by
  fun_induction lexB64 fuel inp <;> intro bs r h
  all_goals try (repeat' split at h)
  all_goals first
    | (cases h; done)
    | (cases h; exact List.suffix_refl _)
    | (cases h; simp [List.suffix_cons_iff]; done)
    | (cases h
       rename_i ih
       refine (ih _ _ (by assumption)).trans ?_
       simp [List.suffix_cons_iff])

/-! ## tokens -/

def LxSuf {α : Type} (f : List Char → Lx α) : Prop := ∀ inp a r, f inp = .ok a r → r <:+ inp

theorem stripSign_suf' {inp l : List Char} (h : (stripSign inp).2 = l) : l <:+ inp := h ▸ stripSign_suffix inp

theorem lexStr_suf : LxSuf lexStr := by
  intro inp a r h
  unfold lexStr at h
  repeat' split at h
  all_goals first
    | (cases h; done)
    | (cases h; exact (scanString_suffix _ _ _ (by assumption)).trans (List.suffix_cons _ _))

theorem lexIdentM_suf (st : Bool) : LxSuf (lexIdentM st) := by
  intro inp a r h
  unfold lexIdentM at h
  repeat' split at h
  all_goals first
    | (cases h; done)
    | (cases h; exact (List.dropWhile_suffix _).trans (List.suffix_cons _ _))

theorem lexRadixM_suf (st : Bool) (tagc tagC : Char) (isD : Char → Bool) (radix : Nat) :
    LxSuf (lexRadixM st tagc tagC isD radix) := by
  intro inp a r h
  unfold lexRadixM at h
  repeat' split at h
  all_goals first
    | (cases h; done)
    | (cases h; exact List.nil_suffix)
    | (cases h
       exact (suf_dw (by assumption)).trans
         (((List.suffix_cons _ _).trans (List.suffix_cons _ _)).trans (stripSign_suf' (by assumption))))

theorem lexFloatM_suf (st : Bool) : LxSuf (lexFloatM st) := by
  intro inp a r h
  unfold lexFloatM at h
  repeat' split at h
  all_goals first
    | (cases h; done)
    | (cases h; exact lexFloat_suffix _ _ _ (by assumption))

theorem lexDecimalM_suf (st : Bool) : LxSuf (lexDecimalM st) := by
  intro inp a r h
  unfold lexDecimalM at h
  repeat' split at h
  all_goals first
    | (cases h; done)
    | exact lexFloatM_suf st _ _ _ h
    | (cases h; exact List.nil_suffix)
    | (cases h
       exact (suf_dw (by assumption)).trans (stripSign_suf' (by assumption)))

theorem lexNumM_suf (st : Bool) : LxSuf (lexNumM st) := by
  intro inp a r h
  unfold lexNumM at h
  repeat' split at h
  all_goals first
    | (cases h; done)
    | exact lexDecimalM_suf st _ _ _ h
    | exact lexRadixM_suf _ _ _ _ _ _ _ _ h

theorem lexBlobM_suf (st : Bool) : LxSuf (lexBlobM st) := by
  intro inp a r h
  unfold lexBlobM at h
  repeat' split at h
  all_goals first
    | (cases h; done)
    | (cases h; exact (lexB64_suffix _ _ _ _ (by assumption)).trans (List.suffix_cons _ _))

theorem lexPrimM_suf (st : Bool) : LxSuf (lexPrimM st) := by
  intro inp a r h
  unfold lexPrimM at h
  repeat' split at h
  all_goals first
    | (cases h; done)
    | (cases h; exact lexStr_suf _ _ _ (by assumption))
    | (cases h; exact lexIdentM_suf _ _ _ _ (by assumption))
    | (cases h; exact lexNumM_suf _ _ _ _ (by assumption))
    | (cases h; exact lexBlobM_suf _ _ _ _ (by assumption))

theorem lexName_suf : LxSuf lexName := by
  intro inp a r h
  unfold lexName at h
  repeat' split at h
  all_goals first
    | exact lexIdentM_suf _ _ _ _ h
    | exact lexStr_suf _ _ _ h

theorem lexAttr_suf : LxSuf lexAttr := by
  intro inp a r h
  unfold lexAttr at h
  repeat' split at h
  all_goals first
    | (cases h; done)
    | (cases h
       exact (List.suffix_cons _ _).trans ((lexName_suf _ _ _ (by assumption)).trans (List.suffix_cons _ _)))
    | (cases h
       exact (lexName_suf _ _ _ (by assumption)).trans (List.suffix_cons _ _))

theorem lineEndM_suf : LxSuf lineEndM := by
  intro inp a r h
  unfold lineEndM at h
  repeat' split at h
  all_goals first
    | (cases h; done)
    | (cases h; simp [List.suffix_cons_iff]; done)

theorem peekTerminator_suf : LxSuf peekTerminator := by
  intro inp a r h
  unfold peekTerminator at h
  repeat' split at h
  all_goals first
    | (cases h; done)
    | (cases h; exact List.suffix_refl _)

/-! ## steps -/

def StepSuf (f : List Char → Step) : Prop := ∀ inp evs am st r, f inp = .ok evs am st r → r <:+ inp

theorem endBody_rest (k : Kind) (evs : List Event) (below : List PS) (rest : List Char)
    (evs' : List Event) (am : Bool) (st : List PS) (r : List Char) :
    endBody k evs below rest = .ok evs' am st r → r = rest := by
  intro h
  unfold endBody at h
  repeat' split at h
  all_goals first
    | (cases h; done)
    | (cases h; rfl)

theorem attrStep_suf (primary : Bool) (cur : PS) (below : List PS) : StepSuf (attrStep primary cur below) := by
  intro inp evs am st r h
  unfold attrStep at h
  repeat' split at h
  all_goals first
    | (cases h; done)
    | (cases h; exact lexAttr_suf _ _ _ (by assumption))

/-- close one leaf of a step function. -/
macro "sclose " h:ident : tactic => `(tactic| first
  | (cases $h:ident; done)
  | (cases $h:ident; first
      | exact List.suffix_refl _
      | exact List.suffix_cons _ _
      | exact lexPrimM_suf _ _ _ _ (by assumption)
      | exact lineEndM_suf _ _ _ (by assumption))
  | (have hh := endBody_rest _ _ _ _ _ _ _ _ $h; subst hh; exact List.suffix_cons _ _)
  | exact attrStep_suf _ _ _ _ _ _ _ _ $h)

theorem stepInitS_suf (below : List PS) : StepSuf (stepInitS below) := by
  intro inp evs am st r h
  unfold stepInitS at h
  repeat' split at h
  all_goals sclose h

theorem stepAfterAttr_suf (below : List PS) : StepSuf (stepAfterAttr below) := by
  intro inp evs am st r h
  unfold stepAfterAttr at h
  repeat' split at h
  all_goals sclose h

theorem stepNotAfterItem_suf (k : Kind) (req : Bool) (cur : PS) (below : List PS) :
    StepSuf (stepNotAfterItem k req cur below) := by
  intro inp evs am st r h
  unfold stepNotAfterItem at h
  repeat' split at h
  all_goals sclose h

theorem stepSlotValue_suf (k : Kind) (cur : PS) (below : List PS) : StepSuf (stepSlotValue k cur below) := by
  intro inp evs am st r h
  unfold stepSlotValue at h
  repeat' split at h
  all_goals sclose h

theorem stepAfterItem_suf (k : Kind) (slotOk : Bool) (below : List PS) : StepSuf (stepAfterItem k slotOk below) := by
  intro inp evs am st r h
  unfold stepAfterItem at h
  repeat' split at h
  all_goals sclose h

/-! ## the automaton, the decoder loop, `decode` -/

theorem istep_suffix (stack : List PS) (inp : List Char) (evs : List Event) (am : Bool) (st : List PS) (r : List Char) :
    istep stack inp = .ok evs am st r → r <:+ inp := by
  intro h
  cases stack with
  | nil => simp [istep] at h
  | cons top below =>
    cases hs : skipSpaces inp with
    | nil => simp [istep, hs] at h
    | cons x i1 =>
      have h1 : x :: i1 <:+ inp := suf_dw (p := isSpace) hs
      cases top with
      | init =>
        simp only [istep, hs] at h
        cases hm : skipMulti (x :: i1) with
        | nil => simp [hm] at h
        | cons y i2 =>
          simp only [hm] at h
          exact (stepInitS_suf _ _ _ _ _ _ h).trans ((suf_dw (p := isMulti) hm).trans h1)
      | afterAttr =>
        simp only [istep, hs] at h
        exact (stepAfterAttr_suf _ _ _ _ _ _ h).trans h1
      | body k bs =>
        cases bs with
        | startOrNl =>
          simp only [istep, hs] at h
          cases hm : skipMulti (x :: i1) with
          | nil => simp [hm] at h
          | cons y i2 =>
            simp only [hm] at h
            exact (stepNotAfterItem_suf _ _ _ _ _ _ _ _ _ h).trans ((suf_dw (p := isMulti) hm).trans h1)
        | afterSep =>
          simp only [istep, hs] at h
          cases hm : skipMulti (x :: i1) with
          | nil => simp [hm] at h
          | cons y i2 =>
            simp only [hm] at h
            exact (stepNotAfterItem_suf _ _ _ _ _ _ _ _ _ h).trans ((suf_dw (p := isMulti) hm).trans h1)
        | afterValue =>
          simp only [istep, hs] at h
          exact (stepAfterItem_suf _ _ _ _ _ _ _ _ h).trans h1
        | afterSlot =>
          simp only [istep, hs] at h
          exact (stepAfterItem_suf _ _ _ _ _ _ _ _ h).trans h1
        | slot =>
          simp only [istep, hs] at h
          exact (stepSlotValue_suf _ _ _ _ _ _ _ _ h).trans h1

theorem decodeInner_suffix (st : List PS) (m : MSt) (cur : List Char) : (decodeInner st m cur).2.2.1 <:+ cur := by
  induction st, m, cur using decodeInner.induct with
  | case1 st m p evs am st' rest hs hlt m' hf ih =>
    rw [decodeInner.eq_def st m p]
    simp only [hs, hlt, ↓reduceIte, hf]
    exact ih.trans (istep_suffix _ _ _ _ _ _ hs)
  | case2 st m p evs am st' rest hs hlt m' v hf =>
    rw [decodeInner.eq_def st m p]
    simp only [hs, hlt, ↓reduceIte, hf]
    exact istep_suffix _ _ _ _ _ _ hs
  | case3 st m p evs am st' rest hs hlt m' hf =>
    rw [decodeInner.eq_def st m p]
    simp only [hs, hlt, ↓reduceIte, hf]
    exact istep_suffix _ _ _ _ _ _ hs
  | case4 st m p evs am st' rest hs hlt =>
    rw [decodeInner.eq_def st m p]
    simp [hs, hlt]
  | case5 st m p hs v hfl =>
    rw [decodeInner.eq_def st m p]
    simp [hs, hfl]
  | case6 st m p hs hfl =>
    rw [decodeInner.eq_def st m p]
    simp [hs, hfl]
  | case7 st m p hs =>
    rw [decodeInner.eq_def st m p]
    simp [hs]
  | case8 st m p hs =>
    rw [decodeInner.eq_def st m p]
    simp [hs]
  | case9 st m p hs =>
    rw [decodeInner.eq_def st m p]
    simp [hs]

theorem Raw.decode_suffix (d : Raw) (avail : List Char) : (d.decode avail).2.1 <:+ avail := by
  have hd := decodeInner_suffix d.stack d.m avail
  unfold Raw.decode
  split
  · rename_i heq; rw [heq] at hd; exact hd
  · rename_i heq; rw [heq] at hd; exact hd
  · exact List.suffix_refl _

/-! non-vacuity: a parser call that really consumes something, and leaves something -/
theorem istep_example :
    istep [.init] [' ', 'a', 'b', ' ', 'x'] = .ok [.text ['a', 'b']] false [] [' ', 'x'] := by rfl

example : [' ', 'x'] <:+ [' ', 'a', 'b', ' ', 'x'] := istep_suffix _ _ _ _ _ _ istep_example

end SwimVerif.ReconInc

