/-
C09, the incremental path on BYTES: `read_utf8` (`readUtf8`) on a prefix of the UTF-8 encoding of a text returns the
characters whose encoding is complete and leaves the (at most 3) bytes of the cut one; hence the bare decoder on byte
chunks (`rawRunB`) is the bare decoder on the corresponding character chunks (`rawRun`), a byte chunk that completes no
character becoming an empty character chunk.
-/
import SwimVerif.Proofs.Utf8
import SwimVerif.Proofs.ReconIncSuffix

set_option linter.unusedVariables false
namespace SwimVerif.ReconInc
open SwimVerif.Recon SwimVerif.ReconEq SwimVerif.Utf8

/-! ## the encoder -/

theorem encode_append (a b : List Char) : encode (a ++ b) = encode a ++ encode b := by
  induction a with
  | nil => rfl
  | cons c a ih => simp [encode, ih]

theorem encChar_length (c : Char) : (encChar c).length = utf8Len c := by
  unfold encChar utf8Len
  split
  · rfl
  · split
    · rfl
    · split <;> rfl

theorem encode_length (cs : List Char) : (encode cs).length = utf8LenL cs := by
  induction cs with
  | nil => rfl
  | cons c cs ih =>
    simp only [encode, List.length_append, ih, encChar_length, utf8LenL, List.map_cons, List.sum_cons]

theorem encode_eq_nil {cs : List Char} (h : encode cs = []) : cs = [] := by
  cases cs with
  | nil => rfl
  | cons c cs =>
    simp only [encode, List.append_eq_nil_iff] at h
    exact absurd h.1 (encChar_ne_nil c)

theorem charsOfBytes_encode_append (cs : List Char) (t : List Nat) :
    charsOfBytes (encode cs ++ t) = (Utf8.decode t).map (fun r => cs ++ r) := decode_encode_append cs t

/-! ## a cut character -/

/-- `t` is a non-empty proper prefix of the encoding of `c`. -/
def IsCut (c : Char) (t : List Nat) : Prop := t ≠ [] ∧ ∃ s, s ≠ [] ∧ t ++ s = encChar c

/-- The three shapes of a cut character, with the byte ranges `read_utf8` looks at. -/
theorem cut_shapes {c : Char} {t : List Nat} (h : IsCut c t) :
    (∃ a, t = [a] ∧ 0xC2 ≤ a ∧ a ≤ 0xF4) ∨
    (∃ a b, t = [a, b] ∧ 0xE0 ≤ a ∧ incompleteTail [a, b] = true ∧ 0x80 ≤ b ∧ b ≤ 0xBF) ∨
    (∃ a b d, t = [a, b, d] ∧ 0xF0 ≤ a ∧ incompleteTail [a, b, d] = true ∧ 0x80 ≤ b ∧ b ≤ 0xBF ∧ 0x80 ≤ d ∧ d ≤ 0xBF) := by
  obtain ⟨hne, s, hs, e⟩ := h
  have hv := char_valid c
  unfold encChar at e
  split at e
  · -- one byte: no proper non-empty prefix
    rcases t with _ | ⟨a, _ | ⟨b, t⟩⟩
    · exact absurd rfl hne
    · simp only [List.cons_append, List.nil_append, List.cons.injEq] at e
      exact absurd e.2 hs
    · simp at e
  · next h1 =>
    split at e
    · next h2 =>
      rcases t with _ | ⟨a, _ | ⟨b, _ | ⟨d, t⟩⟩⟩
      · exact absurd rfl hne
      · simp only [List.cons_append, List.nil_append, List.cons.injEq] at e
        exact .inl ⟨a, rfl, by omega, by omega⟩
      · simp only [List.cons_append, List.nil_append, List.cons.injEq] at e
        exact absurd e.2.2 hs
      · simp at e
    · next h2 =>
      split at e
      · next h3 =>
        rcases t with _ | ⟨a, _ | ⟨b, _ | ⟨d, _ | ⟨x, t⟩⟩⟩⟩
        · exact absurd rfl hne
        · simp only [List.cons_append, List.nil_append, List.cons.injEq] at e
          exact .inl ⟨a, rfl, by omega, by omega⟩
        · simp only [List.cons_append, List.nil_append, List.cons.injEq] at e
          refine .inr (.inl ⟨a, b, rfl, by omega, ?_, by omega, by omega⟩)
          obtain ⟨ea, eb, -⟩ := e
          simp only [incompleteTail, Bool.and_eq_true, decide_eq_true_eq]
          refine ⟨⟨by omega, by omega⟩, ?_⟩
          split
          · simp only [Bool.and_eq_true, decide_eq_true_eq]; omega
          · split
            · simp only [Bool.and_eq_true, decide_eq_true_eq]; omega
            · split
              · omega
              · split
                · omega
                · simp only [Bool.and_eq_true, decide_eq_true_eq]; omega
        · simp only [List.cons_append, List.nil_append, List.cons.injEq] at e
          exact absurd e.2.2.2 hs
        · simp at e
      · next h3 =>
        rcases t with _ | ⟨a, _ | ⟨b, _ | ⟨d, _ | ⟨x, _ | ⟨y, t⟩⟩⟩⟩⟩
        · exact absurd rfl hne
        · simp only [List.cons_append, List.nil_append, List.cons.injEq] at e
          exact .inl ⟨a, rfl, by omega, by omega⟩
        · simp only [List.cons_append, List.nil_append, List.cons.injEq] at e
          refine .inr (.inl ⟨a, b, rfl, by omega, ?_, by omega, by omega⟩)
          obtain ⟨ea, eb, -⟩ := e
          simp only [incompleteTail, Bool.and_eq_true, decide_eq_true_eq]
          refine ⟨⟨by omega, by omega⟩, ?_⟩
          split
          · omega
          · split
            · omega
            · split
              · simp only [Bool.and_eq_true, decide_eq_true_eq]; omega
              · split
                · simp only [Bool.and_eq_true, decide_eq_true_eq]; omega
                · simp only [Bool.and_eq_true, decide_eq_true_eq]; omega
        · simp only [List.cons_append, List.nil_append, List.cons.injEq] at e
          refine .inr (.inr ⟨a, b, d, rfl, by omega, ?_, by omega, by omega, by omega, by omega⟩)
          obtain ⟨ea, eb, ed, -⟩ := e
          simp only [incompleteTail, Bool.and_eq_true, decide_eq_true_eq]
          refine ⟨⟨⟨by omega, by omega⟩, ?_⟩, by omega, by omega⟩
          split
          · simp only [Bool.and_eq_true, decide_eq_true_eq]; omega
          · split
            · simp only [Bool.and_eq_true, decide_eq_true_eq]; omega
            · simp only [Bool.and_eq_true, decide_eq_true_eq]; omega
        · simp only [List.cons_append, List.nil_append, List.cons.injEq] at e
          exact absurd e.2.2.2.2 hs
        · simp at e

theorem cut_length {c : Char} {t : List Nat} (h : IsCut c t) : 1 ≤ t.length ∧ t.length ≤ 3 := by
  rcases cut_shapes h with ⟨a, rfl, _⟩ | ⟨a, b, rfl, _⟩ | ⟨a, b, d, rfl, _⟩ <;> simp

/-! ## `read_utf8` on a prefix of an encoding -/

theorem decStep_short1 (a : Nat) (h : 0xC2 ≤ a) : decStep [a] = none := by
  rw [decStep.eq_def]; simp only []
  rw [if_neg (by omega), if_neg (by omega)]
  repeat' split
  all_goals first | rfl | simp_all

theorem decStep_short2 (a b : Nat) (h : 0xE0 ≤ a) : decStep [a, b] = none := by
  rw [decStep.eq_def]; simp only []
  rw [if_neg (by omega), if_neg (by omega), if_neg (by omega)]
  repeat' split
  all_goals first | rfl | simp_all

theorem decStep_short3 (a b d : Nat) (h : 0xF0 ≤ a) : decStep [a, b, d] = none := by
  rw [decStep.eq_def]; simp only []
  rw [if_neg (by omega), if_neg (by omega), if_neg (by omega), if_neg (by omega)]
  repeat' split
  all_goals first | rfl | simp_all

theorem utf8Drop_append (E t : List Nat) (k : Nat) (hk : k ≤ t.length) :
    utf8Drop (E ++ t) k =
      if incompleteTail (t.drop (t.length - k)) = true then charsOfBytes (E ++ t.take (t.length - k)) else none := by
  unfold utf8Drop
  have e : (E ++ t).length - k = E.length + (t.length - k) := by simp only [List.length_append]; omega
  have hle' : k ≤ E.length + t.length := by omega
  have hd : List.drop (E.length + (t.length - k)) E = [] := List.drop_eq_nil_of_le (by omega)
  have ht : List.take (E.length + (t.length - k)) E = E := List.take_of_length_le (by omega)
  rw [e]
  simp [List.drop_append, List.take_append, hle', hd, ht]

theorem inc1_false (b : Nat) (h : b ≤ 0xBF) : incompleteTail [b] = false := by
  simp only [incompleteTail, Bool.and_eq_false_iff, decide_eq_false_iff_not]; omega

theorem inc2_false (b d : Nat) (h : b ≤ 0xBF) : incompleteTail [b, d] = false := by
  simp only [incompleteTail, Bool.and_eq_false_iff, decide_eq_false_iff_not]; left; left; omega

/-- **`read_utf8` on a cut encoding**: the complete characters, the cut one stays. -/
theorem readUtf8_cut (cs : List Char) {c : Char} {t : List Nat} (h : IsCut c t) :
    readUtf8 (encode cs ++ t) = some cs := by
  have hE : charsOfBytes (encode cs) = some cs := decode_encode cs
  rcases cut_shapes h with ⟨a, rfl, h1, h2⟩ | ⟨a, b, rfl, ha, hi, hb1, hb2⟩ | ⟨a, b, d, rfl, ha, hi, hb1, hb2, hdl, hdu⟩
  · have h0 : charsOfBytes (encode cs ++ [a]) = none := by
      rw [charsOfBytes_encode_append, decode_fail (by simp) (decStep_short1 a h1)]; rfl
    have hi : incompleteTail [a] = true := by
      simp only [incompleteTail, Bool.and_eq_true, decide_eq_true_eq]; omega
    have hd1 := utf8Drop_append (encode cs) [a] 1 (by simp)
    simp only [List.length_cons, List.length_nil, Nat.zero_add, Nat.sub_self, List.drop_zero, hi, List.take_zero,
      List.append_nil, hE, ↓reduceIte] at hd1
    simp only [readUtf8, h0, hd1]
  · have h0 : charsOfBytes (encode cs ++ [a, b]) = none := by
      rw [charsOfBytes_encode_append, decode_fail (by simp) (decStep_short2 a b ha)]; rfl
    have hd1 := utf8Drop_append (encode cs) [a, b] 1 (by simp)
    have hd2 := utf8Drop_append (encode cs) [a, b] 2 (by simp)
    simp only [List.length_cons, List.length_nil, Nat.zero_add, Nat.reduceAdd, Nat.reduceSub, List.drop_succ_cons,
      List.drop_zero, inc1_false b hb2, Bool.false_eq_true, ↓reduceIte] at hd1
    simp only [List.length_cons, List.length_nil, Nat.zero_add, Nat.reduceAdd, Nat.sub_self, List.drop_zero, hi,
      List.take_zero, List.append_nil, hE, ↓reduceIte] at hd2
    simp only [readUtf8, h0, hd1, hd2]
  · have h0 : charsOfBytes (encode cs ++ [a, b, d]) = none := by
      rw [charsOfBytes_encode_append, decode_fail (by simp) (decStep_short3 a b d ha)]; rfl
    have hd1 := utf8Drop_append (encode cs) [a, b, d] 1 (by simp)
    have hd2 := utf8Drop_append (encode cs) [a, b, d] 2 (by simp)
    have hd3 := utf8Drop_append (encode cs) [a, b, d] 3 (by simp)
    simp only [List.length_cons, List.length_nil, Nat.zero_add, Nat.reduceAdd, Nat.reduceSub, List.drop_succ_cons,
      List.drop_zero, inc1_false d hdu, Bool.false_eq_true, ↓reduceIte] at hd1
    simp only [List.length_cons, List.length_nil, Nat.zero_add, Nat.reduceAdd, Nat.reduceSub, List.drop_succ_cons,
      List.drop_zero, inc2_false b d hb2, Bool.false_eq_true, ↓reduceIte] at hd2
    simp only [List.length_cons, List.length_nil, Nat.zero_add, Nat.reduceAdd, Nat.sub_self, List.drop_zero, hi,
      List.take_zero, List.append_nil, hE, ↓reduceIte] at hd3
    simp only [readUtf8, h0, hd1, hd2, hd3]

/-- What the byte buffer holds beyond complete characters, given the text `R` still to come: nothing, or a cut of the
first character of `R`. -/
def TailState (R : List Char) (t : List Nat) : Prop := t = [] ∨ ∃ c R', R = c :: R' ∧ IsCut c t

theorem readUtf8_state (cs : List Char) {R : List Char} {t : List Nat} (h : TailState R t) :
    readUtf8 (encode cs ++ t) = some cs := by
  rcases h with rfl | ⟨c, R', -, hc⟩
  · have hE : charsOfBytes (encode cs) = some cs := decode_encode cs
    simp only [List.append_nil, readUtf8, hE]
  · exact readUtf8_cut cs hc

/-- **The prefix lemma.**  Every prefix `p` of the encoding of a text `T` is the encoding of a prefix `C` of `T` followed
by a (possibly empty) cut `t` of the next character. -/
theorem encode_prefix_split : ∀ (T : List Char) (p q : List Nat), p ++ q = encode T →
    ∃ C R t, T = C ++ R ∧ p = encode C ++ t ∧ t ++ q = encode R ∧ TailState R t
  | [], p, q, h => by
    simp only [encode, List.append_eq_nil_iff] at h
    exact ⟨[], [], [], rfl, by simp [h.1, encode], by simp [h.2, encode], .inl rfl⟩
  | c :: T, p, q, h => by
    simp only [encode] at h
    rcases List.append_eq_append_iff.mp h with ⟨a', e1, e2⟩ | ⟨c', e1, e2⟩
    · -- `p` ends inside (or at the end of) the encoding of `c`
      by_cases ha : a' = []
      · subst ha
        simp only [List.append_nil] at e1
        simp only [List.nil_append] at e2
        obtain ⟨C, R, t, hT, hp, hq, hs⟩ := encode_prefix_split T [] q (by simpa using e2)
        refine ⟨c :: C, R, t, by rw [hT]; rfl, ?_, hq, hs⟩
        rw [← e1]; simp only [encode, List.append_assoc]; rw [← hp]; simp
      · by_cases hp : p = []
        · subst hp
          exact ⟨[], c :: T, [], rfl, rfl, by simpa [encode] using h, .inl rfl⟩
        · exact ⟨[], c :: T, p, rfl, rfl, by simpa [encode] using h, .inr ⟨c, T, rfl, hp, a', ha, e1.symm⟩⟩
    · obtain ⟨C, R, t, hT, hp, hq, hs⟩ := encode_prefix_split T c' q e2.symm
      refine ⟨c :: C, R, t, by rw [hT]; rfl, ?_, hq, hs⟩
      rw [e1, hp]; simp only [encode, List.append_assoc]

/-- `read_utf8` on any prefix of an encoding: the complete characters; at most 3 bytes stay. -/
theorem readUtf8_prefix (T : List Char) (p q : List Nat) (h : p ++ q = encode T) :
    ∃ C R t, T = C ++ R ∧ p = encode C ++ t ∧ t.length ≤ 3 ∧ readUtf8 p = some C := by
  obtain ⟨C, R, t, hT, hp, hq, hs⟩ := encode_prefix_split T p q h
  refine ⟨C, R, t, hT, hp, ?_, by rw [hp]; exact readUtf8_state C hs⟩
  rcases hs with rfl | ⟨c, R', -, hc⟩
  · simp
  · exact (cut_length hc).2

/-! ## the decoder on bytes is the decoder on characters -/

/-- At the end of the input nothing is left over: no cut, no text. -/
theorem tailState_end {R : List Char} {t : List Nat} (hfl : t = encode R) (hs : TailState R t) : R = [] ∧ t = [] := by
  rcases hs with rfl | ⟨c, R', rfl, hc⟩
  · exact ⟨encode_eq_nil hfl.symm, rfl⟩
  · exfalso
    obtain ⟨hne, s, hsne, e⟩ := hc
    have hl := congrArg List.length e
    rw [hfl] at hl
    simp only [encode, List.length_append] at hl
    have : 0 < s.length := List.length_pos_iff.mpr hsne
    omega

/-- One `decode` call on a byte buffer = the call on the characters `read_utf8` finds; the cut stays in the buffer. -/
theorem decodeB_sim (d : Raw) (cb : List Char) {R : List Char} {t : List Nat} (h : TailState R t) :
    d.decodeB (encode cb ++ t) = ((d.decode cb).1, encode (d.decode cb).2.1 ++ t, (d.decode cb).2.2) := by
  unfold Raw.decodeB
  rw [readUtf8_state cb h]
  simp only
  obtain ⟨pre, hpre⟩ := Raw.decode_suffix d cb
  rcases hdec : d.decode cb with ⟨d', rest, o⟩
  rw [hdec] at hpre
  simp only at hpre ⊢
  have hlen : utf8LenL cb - utf8LenL rest = (encode pre).length := by
    rw [← encode_length, ← encode_length, ← hpre, encode_append, List.length_append]; omega
  rw [hlen, ← hpre, encode_append, List.append_assoc, List.drop_left]

/-- **Byte chunks = character chunks.**  With `encode cb ++ t` in the byte buffer (`t`: the cut character, if any) and
byte chunks that complete the encoding of the text `R` still to come, the run on bytes is the run on the character
buffer `cb` and some chunking of `R` into characters. -/
theorem rawRunB_sim : ∀ (bcs : List (List Nat)) (d : Raw) (cb : List Char) (t : List Nat) (R : List Char),
    t ++ bcs.flatten = encode R → TailState R t →
    ∃ ccs : List (List Char), ccs.flatten = R ∧ (bcs ≠ [] → ccs ≠ []) ∧
      rawRunB d (encode cb ++ t) bcs = rawRun d cb ccs
  | [], d, cb, t, R, hfl, hs => by
    simp only [List.flatten_nil, List.append_nil] at hfl
    obtain ⟨rfl, rfl⟩ := tailState_end hfl hs
    refine ⟨[], rfl, fun h => absurd rfl h, ?_⟩
    have hr : readUtf8 (encode cb) = some cb := by
      simpa using readUtf8_state cb (R := []) (t := []) (.inl rfl)
    have he : (encode cb).isEmpty = cb.isEmpty := by
      cases cb with
      | nil => rfl
      | cons c cb =>
        have := encChar_ne_nil c
        cases hx : encChar c with
        | nil => exact absurd hx this
        | cons x xs => simp [encode, hx]
    simp only [List.append_nil, rawRunB, rawRun, Raw.decodeEofB, hr, he]
  | c1 :: bcs, d, cb, t, R, hfl, hs => by
    simp only [List.flatten_cons] at hfl
    obtain ⟨C, R2, t', hR, hp, hq, hs'⟩ :=
      encode_prefix_split R (t ++ c1) bcs.flatten (by rw [List.append_assoc]; exact hfl)
    have hbuf : encode cb ++ t ++ c1 = encode (cb ++ C) ++ t' := by
      rw [List.append_assoc, hp, encode_append, List.append_assoc]
    rw [rawRunB, hbuf, decodeB_sim d (cb ++ C) hs']
    rcases hdec : d.decode (cb ++ C) with ⟨d', rest, o⟩
    simp only
    cases o with
    | none =>
      obtain ⟨ccs, hf, -, hrun⟩ := rawRunB_sim bcs d' rest t' R2 hq hs'
      refine ⟨C :: ccs, by simp [hf, hR], by simp, ?_⟩
      rw [rawRun, hdec]
      exact hrun
    | value v => exact ⟨[C, R2], by simp [hR], by simp, by rw [rawRun, hdec]⟩
    | err => exact ⟨[C, R2], by simp [hR], by simp, by rw [rawRun, hdec]⟩
    | panic => exact ⟨[C, R2], by simp [hR], by simp, by rw [rawRun, hdec]⟩
    | fuel => exact ⟨[C, R2], by simp [hR], by simp, by rw [rawRun, hdec]⟩

/-- **Incremental = one-shot (bare decoder, bytes).**  However the UTF-8 encoding of a text is cut into byte chunks —
also inside a multi-byte character — `decode` after every chunk and `decode_eof` at the end give the one-shot parser's
result. -/
theorem rawRunB_eq_parseOne (hP : LxStable (lexPrimM true)) (hC : FlushCoupled) (T : List Char) (bcs : List (List Nat))
    (hne : bcs ≠ []) (hfl : bcs.flatten = encode T) : cls (rawRunB {} [] bcs) = cls (parseOne T) := by
  obtain ⟨ccs, hf, hn, hrun⟩ := rawRunB_sim bcs {} [] [] T (by simpa using hfl) (.inl rfl)
  have h0 : encode [] ++ [] = ([] : List Nat) := rfl
  rw [h0] at hrun
  rw [hrun]
  cases ccs with
  | nil => exact absurd rfl (hn hne)
  | cons c cs => rw [← hf]; exact rawRun_eq_parseOne hP hC c cs

end SwimVerif.ReconInc
