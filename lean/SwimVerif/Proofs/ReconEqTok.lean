/-
C15 helper lemmas: the token functions of the automaton model (`lexStr`, `lexIdentM`, `lexNumM`, `lexBlobM`, both nom
modes) agree with C09's complete-input lexers wherever those succeed and a token-ending character follows — the bridge
that lets the automaton reuse C09's lexing lemmas for printer output.
-/
import SwimVerif.Proofs.ReconEqHash
import SwimVerif.Proofs.ReconStyles

namespace SwimVerif.ReconEq
open SwimVerif.Recon

/-! ### strings, identifiers -/

theorem lexStr_of_lexString {inp s r : List Char} (h : lexString inp = .ok (s, r)) : lexStr inp = .ok s r := by
  unfold lexString at h
  split at h
  · rename_i r0
    unfold lexStr
    simp only [↓reduceIte]
    cases hs : scanString r0 with
    | none => simp [hs] at h
    | some p =>
      obtain ⟨body, rest⟩ := p
      simp only [hs] at h ⊢
      cases hu : unescape body with
      | ok s' =>
        simp only [hu, Res.map, Res.ok.injEq, Prod.mk.injEq] at h
        obtain ⟨rfl, rfl⟩ := h
        rfl
      | err => simp [hu, Res.map] at h
      | panic => simp [hu, Res.map] at h
  · cases h

theorem lexIdentM_of_lexIdent (st : Bool) {inp s r : List Char} (h : lexIdent inp = some (s, r))
    (hr : st = true → r ≠ []) : lexIdentM st inp = .ok s r := by
  unfold lexIdent at h
  split at h
  · cases h
  · rename_i c r0
    split at h
    · rename_i hc
      simp only [Option.some.injEq, Prod.mk.injEq] at h
      obtain ⟨rfl, rfl⟩ := h
      unfold lexIdentM
      simp only [hc, ↓reduceIte]
      cases st
      · simp
      · have := hr rfl
        simp [this]
    · cases h

/-! ### blobs -/

theorem b64Inc_false : ∀ (fuel : Nat) (inp : List Char) (bs : List Nat) (rest : List Char),
    lexB64 fuel inp = some (bs, rest) → (∃ c t, rest = c :: t ∧ b64Val? c = none ∧ c ≠ '=') →
    b64Inc fuel inp = false := by
  intro fuel
  induction fuel with
  | zero => intro inp bs rest h; simp [lexB64] at h
  | succ f ih =>
    intro inp bs rest h hrest
    obtain ⟨c0, t0, hr, hc0, hpad⟩ := hrest
    match inp, h with
    | a :: b :: c :: d :: r, h =>
      simp only [b64Inc]
      by_cases hall : (isB64 a && isB64 b && isB64 c && isB64 d) = true
      · simp only [hall, ↓reduceIte]
        simp only [isB64, Bool.and_eq_true, Option.isSome_iff_exists] at hall
        obtain ⟨⟨⟨⟨x, hx⟩, ⟨y, hy⟩⟩, ⟨z, hz⟩⟩, ⟨w, hw⟩⟩ := hall
        simp only [lexB64, hx, hy, hz, hw] at h
        cases hrec : lexB64 f r with
        | none => simp [hrec] at h
        | some p =>
          obtain ⟨bs', rest'⟩ := p
          simp only [hrec, Option.some.injEq, Prod.mk.injEq] at h
          exact ih r bs' rest' hrec ⟨c0, t0, by rw [← hr]; exact h.2, hc0, hpad⟩
      · simp [hall]
    | [], h =>
      simp only [lexB64, Option.some.injEq, Prod.mk.injEq] at h
      rw [← h.2] at hr; cases hr
    | [a], h =>
      simp only [lexB64, Option.some.injEq, Prod.mk.injEq] at h
      rw [← h.2] at hr
      simp only [List.cons.injEq] at hr
      simp [b64Inc, b64FinalInc, isB64, hr.1, hc0]
    | [a, b], h =>
      simp only [lexB64, Option.some.injEq, Prod.mk.injEq] at h
      rw [← h.2] at hr
      simp only [List.cons.injEq] at hr
      simp [b64Inc, b64FinalInc, isB64, hr.1, hc0]
    | [a, b, c], h =>
      simp only [lexB64, Option.some.injEq, Prod.mk.injEq] at h
      rw [← h.2] at hr
      simp only [List.cons.injEq] at hr
      simp [b64Inc, b64FinalInc, isB64, hr.1, hc0]

theorem tokEnd_not_pad : ∀ c, tokEnd c = true → c ≠ '=' := by
  intro c h; rcases tokEnd_cases h with rfl | rfl | rfl | rfl | rfl | rfl <;> decide

theorem lexBlobM_of_lexBlob (st : Bool) {inp : List Char} {bs : List Nat} {rest : List Char}
    (h : lexBlob inp = some (.data bs, rest)) (hd : TokEnd rest) (hr : st = true → rest ≠ []) :
    lexBlobM st inp = .ok bs rest := by
  unfold lexBlob at h
  split at h
  · rename_i r
    cases hl : lexB64 (r.length + 1) r with
    | none => simp [hl] at h
    | some p =>
      obtain ⟨bs', rest'⟩ := p
      simp only [hl, Option.map_some, Option.some.injEq, Prod.mk.injEq, Value.data.injEq] at h
      obtain ⟨rfl, rfl⟩ := h
      unfold lexBlobM
      simp only [↓reduceIte, hl]
      cases st
      · simp
      · have hne := hr rfl
        cases hrest : rest' with
        | nil => exact absurd hrest hne
        | cons c t =>
          have hc : tokEnd c = true := hd c (by simp [hrest])
          have := b64Inc_false (r.length + 1) r bs' rest' hl ⟨c, t, hrest, b64_tokEnd c hc, tokEnd_not_pad c hc⟩
          simp [this, hrest]
  · cases h

/-! ### numbers -/

theorem numValue_mkInt (neg : Bool) (mag : Nat) : numValue (mkInt neg mag) = intValue neg mag := by
  cases neg
  · have := numValue_numOfInt (mag : Int)
    have hn : ¬ ((mag : Int) < 0) := by omega
    simp only [numOfInt, hn, decide_false, Int.natAbs_natCast] at this
    simpa [intValue] using this
  · by_cases h0 : mag = 0
    · subst h0; rfl
    · have := numValue_numOfInt (-(mag : Int))
      have hn : (-(mag : Int)) < 0 := by omega
      have ha : (-(mag : Int)).natAbs = mag := by omega
      simp only [numOfInt, hn, decide_true, ha] at this
      simpa [intValue] using this

theorem lexRadixM_some (st : Bool) (tc tC : Char) (isD : Char → Bool) (radix : Nat) {inp : List Char} {v : Value}
    {rest : List Char} (h : lexRadix tc tC isD radix inp = some (v, rest)) (hr : st = true → rest ≠ []) :
    ∃ n, lexRadixM st tc tC isD radix inp = .ok n rest ∧ numValue n = v := by
  unfold lexRadix lexRadixBody at h
  split at h
  · rename_i t r heq
    split at h
    · rename_i htag
      split at h
      · cases h
      · rename_i ds hds
        simp only [Option.some.injEq, Prod.mk.injEq] at h
        obtain ⟨rfl, rfl⟩ := h
        refine ⟨mkInt (stripSign inp).1 (readRadix radix (r.takeWhile isD)), ?_, numValue_mkInt _ _⟩
        unfold lexRadixM
        rw [heq]
        simp only [true_and, htag, ↓reduceIte]
        cases htw : r.takeWhile isD with
        | nil => exact absurd htw (by simpa using hds)
        | cons d ds' =>
          cases hdw : r.dropWhile isD with
          | nil =>
            cases st
            · simp
            · exact absurd hdw (hr rfl)
          | cons x xs => simp
    · cases h
  · cases h

/-- The inputs on which the streaming `natural(tag, digits)` runs into the end of the input. -/
def radixEof (tc tC : Char) (inp : List Char) : Prop :=
  (stripSign inp).2 = [] ∨ (stripSign inp).2 = ['0'] ∨ ∃ t, (stripSign inp).2 = ['0', t] ∧ (t = tc ∨ t = tC)

theorem lexRadixM_none (st : Bool) (tc tC : Char) (isD : Char → Bool) (radix : Nat) {inp : List Char}
    (h : lexRadix tc tC isD radix inp = none) :
    lexRadixM st tc tC isD radix inp = .err ∨ (st = true ∧ radixEof tc tC inp) := by
  unfold lexRadix lexRadixBody at h
  unfold lexRadixM radixEof
  match hs : (stripSign inp).2, h with
  | [], _ => cases st <;> simp
  | [c], _ =>
    by_cases hc : c = '0'
    · subst hc; cases st <;> simp
    · simp [hc]
  | c :: t :: r', h =>
    by_cases hc : c = '0'
    · subst hc
      by_cases htag : t = tc ∨ t = tC
      · simp only [htag, ↓reduceIte] at h
        simp only [true_and, htag, ↓reduceIte]
        cases htw : r'.takeWhile isD with
        | nil =>
          cases hdw : r'.dropWhile isD with
          | nil =>
            have hr' : r' = [] := by
              have := List.takeWhile_append_dropWhile (p := isD) (l := r')
              rw [htw, hdw] at this; simpa using this.symm
            subst hr'
            cases st
            · simp
            · right; exact ⟨rfl, Or.inr (Or.inr ⟨t, rfl, htag⟩)⟩
          | cons x xs => simp
        | cons d ds => simp [htw] at h
      · simp [htag]
    · simp [hc]

theorem lexFloat_isFloat {inp : List Char} {v : Value} {rest : List Char} (h : lexFloat inp = some (v, rest)) :
    ∃ f, v = .float f := by
  unfold lexFloat lexFloatBody at h
  split at h
  · split at h
    · cases h
    · split at h
      · simp only [Option.some.injEq, Prod.mk.injEq] at h; exact ⟨_, by rw [← h.1]; rfl⟩
      · cases h
  · cases h
  · split at h
    · simp only [Option.some.injEq, Prod.mk.injEq] at h; exact ⟨_, by rw [← h.1]; rfl⟩
    · cases h
  · split at h
    · simp only [Option.some.injEq, Prod.mk.injEq] at h; exact ⟨_, by rw [← h.1]; rfl⟩
    · cases h

theorem expInc_false {x : List Char} {en : Bool} {eds rest : List Char} (h : lexExponent x = some (en, eds, rest))
    (hx : x ≠ []) (hrest : rest ≠ []) : expInc x = false := by
  cases x with
  | nil => exact absurd rfl hx
  | cons c r' =>
    unfold expInc
    unfold lexExponent at h
    by_cases hc : c = 'e' ∨ c = 'E'
    · simp only [hc, ↓reduceIte] at h ⊢
      cases r' with
      | nil => simp [stripPlusMinus] at h
      | cons s r'' =>
        simp only
        split at h
        · cases h
        · simp only [Option.some.injEq, Prod.mk.injEq] at h
          obtain ⟨_, _, hdw⟩ := h
          cases hd : (stripPlusMinus (s :: r'')).2.dropWhile isDigit with
          | nil => rw [hd] at hdw; exact absurd hdw.symm hrest
          | cons y ys => rfl
    · simp [hc]

theorem lexExponent_nil_rest {en : Bool} {eds rest : List Char} (h : lexExponent [] = some (en, eds, rest)) :
    rest = [] := by
  simp [lexExponent] at h; exact h.2.2

theorem takeWhile_nil_dropWhile {p : Char → Bool} {l : List Char} (h : l.takeWhile p = []) : l.dropWhile p = l := by
  have := List.takeWhile_append_dropWhile (p := p) (l := l)
  rw [h] at this; simpa using this

/-- `lexFloatBody` by the shape of the digits at the head of its input. -/
theorem lexFloatBody_nodigits_other (neg : Bool) {x : Char} {r0 : List Char} (hx : x ≠ '.')
    (htw : (x :: r0).takeWhile isDigit = []) : lexFloatBody neg (x :: r0) = none := by
  have hdw := takeWhile_nil_dropWhile htw
  unfold lexFloatBody
  rw [htw, hdw]
  split <;> first | rfl | simp_all

theorem lexFloatBody_digits_other (neg : Bool) {r : List Char} {d y : Char} {ds r1 : List Char} (hy : y ≠ '.')
    (htw : r.takeWhile isDigit = d :: ds) (hdw : r.dropWhile isDigit = y :: r1) :
    lexFloatBody neg r = (match lexExponent (y :: r1) with
      | some (en, eds, rest) => some (mkFloat neg (d :: ds) [] en eds, rest)
      | none => none) := by
  unfold lexFloatBody
  rw [htw, hdw]
  split <;> first | rfl | simp_all

theorem fltIncBody_digits_other {r : List Char} {d y : Char} {ds r1 : List Char} (hy : y ≠ '.')
    (hr : r ≠ []) (htw : r.takeWhile isDigit = d :: ds) (hdw : r.dropWhile isDigit = y :: r1) :
    fltIncBody r = expInc (y :: r1) := by
  unfold fltIncBody
  cases r with
  | nil => exact absurd rfl hr
  | cons x r0 =>
    simp only
    rw [htw, hdw]
    split <;> first | rfl | simp_all

theorem fltIncBody_nodigits_other {x : Char} {r0 : List Char} (hx : x ≠ '.')
    (htw : (x :: r0).takeWhile isDigit = []) : fltIncBody (x :: r0) = false := by
  have hdw := takeWhile_nil_dropWhile htw
  unfold fltIncBody
  simp only
  rw [htw, hdw]
  split <;> first | rfl | simp_all

theorem fltIncBody_false {neg : Bool} {r : List Char} {v : Value} {rest : List Char}
    (h : lexFloatBody neg r = some (v, rest)) (hrest : rest ≠ []) : fltIncBody r = false := by
  cases r with
  | nil => simp [lexFloatBody] at h
  | cons x r0 =>
    cases htw : (x :: r0).takeWhile isDigit with
    | nil =>
      have hdw := takeWhile_nil_dropWhile htw
      by_cases hx : x = '.'
      · subst hx
        unfold lexFloatBody at h
        rw [htw, hdw] at h
        simp only at h
        unfold fltIncBody
        simp only
        rw [htw, hdw]
        simp only
        cases htw2 : r0.takeWhile isDigit with
        | nil => simp [htw2] at h
        | cons d ds =>
          simp only [htw2] at h
          cases hex : lexExponent (r0.dropWhile isDigit) with
          | none => simp [hex] at h
          | some p =>
            obtain ⟨en, eds, rest'⟩ := p
            simp only [hex, Option.some.injEq, Prod.mk.injEq] at h
            obtain ⟨_, rfl⟩ := h
            cases hdw2 : r0.dropWhile isDigit with
            | nil => rw [hdw2] at hex; exact absurd (lexExponent_nil_rest hex) hrest
            | cons y ys =>
              rw [hdw2] at hex
              simp only
              exact expInc_false hex (by simp) hrest
      · rw [lexFloatBody_nodigits_other neg hx htw] at h; cases h
    | cons d ds =>
      cases hdw : (x :: r0).dropWhile isDigit with
      | nil =>
        unfold lexFloatBody at h
        rw [htw, hdw] at h
        simp only at h
        cases hex : lexExponent [] with
        | none => simp [hex] at h
        | some p =>
          obtain ⟨en, eds, rest'⟩ := p
          simp only [hex, Option.some.injEq, Prod.mk.injEq] at h
          obtain ⟨_, rfl⟩ := h
          exact absurd (lexExponent_nil_rest hex) hrest
      | cons y r1 =>
        by_cases hy : y = '.'
        · subst hy
          unfold lexFloatBody at h
          rw [htw, hdw] at h
          simp only at h
          unfold fltIncBody
          simp only
          rw [htw, hdw]
          simp only
          cases hex : lexExponent (r1.dropWhile isDigit) with
          | none => simp [hex] at h
          | some p =>
            obtain ⟨en, eds, rest'⟩ := p
            simp only [hex, Option.some.injEq, Prod.mk.injEq] at h
            obtain ⟨_, rfl⟩ := h
            cases hdw2 : r1.dropWhile isDigit with
            | nil => rw [hdw2] at hex; exact absurd (lexExponent_nil_rest hex) hrest
            | cons z zs =>
              rw [hdw2] at hex
              simp only [List.isEmpty_cons, Bool.false_eq_true, ↓reduceIte]
              exact expInc_false hex (by simp) hrest
        · rw [lexFloatBody_digits_other neg hy htw hdw] at h
          rw [fltIncBody_digits_other hy (by simp) htw hdw]
          cases hex : lexExponent (y :: r1) with
          | none => simp [hex] at h
          | some p =>
            obtain ⟨en, eds, rest'⟩ := p
            simp only [hex, Option.some.injEq, Prod.mk.injEq] at h
            obtain ⟨_, rfl⟩ := h
            exact expInc_false hex (by simp) hrest

theorem fltInc_false {inp : List Char} {v : Value} {rest : List Char} (h : lexFloat inp = some (v, rest))
    (hrest : rest ≠ []) : fltInc inp = false := fltIncBody_false h hrest


theorem lexFloatM_of_lexFloat (st : Bool) {inp : List Char} {v : Value} {rest : List Char}
    (h : lexFloat inp = some (v, rest)) (hr : st = true → rest ≠ []) :
    ∃ n, lexFloatM st inp = .ok n rest ∧ numValue n = v := by
  obtain ⟨f, rfl⟩ := lexFloat_isFloat h
  refine ⟨.float f, ?_, rfl⟩
  unfold lexFloatM
  cases st
  · simp [h]
  · have hne := hr rfl
    have hi := fltInc_false h hne
    cases hrest : rest with
    | nil => exact absurd hrest hne
    | cons c t => subst hrest; simp [hi, h]

theorem stripSign_nil {inp : List Char} (h : (stripSign inp).2 = []) : inp = [] ∨ inp = ['-'] := by
  unfold stripSign at h
  split at h
  · rename_i r; simp only at h; subst h; exact Or.inr rfl
  · simp only at h; exact Or.inl h

theorem lexDecimalM_of_lexDecimal (st : Bool) {inp : List Char} {v : Value} {rest : List Char}
    (h : lexDecimal inp = some (v, rest)) (hr : st = true → rest ≠ []) :
    ∃ n, lexDecimalM st inp = .ok n rest ∧ numValue n = v := by
  unfold lexDecimal lexDecimalBody at h
  unfold lexDecimalM
  cases hinp : inp with
  | nil => subst hinp; simp [stripSign, lexFloat, lexFloatBody, stripPlusMinus] at h
  | cons a t =>
    simp only
    rw [← hinp]
    cases hs : (stripSign inp).2 with
    | nil =>
      rcases stripSign_nil hs with h0 | h0
      · rw [h0] at hinp; cases hinp
      · subst h0; simp [stripSign, lexFloat, lexFloatBody, stripPlusMinus] at h
    | cons x r =>
      rw [hs] at h
      simp only
      cases htw : (x :: r).takeWhile isDigit with
      | nil =>
        simp only [htw] at h
        exact lexFloatM_of_lexFloat st h hr
      | cons d ds =>
        simp only [htw] at h
        cases hdw : (x :: r).dropWhile isDigit with
        | nil =>
          simp only [hdw, Option.some.injEq, Prod.mk.injEq] at h
          obtain ⟨rfl, rfl⟩ := h
          cases st
          · exact ⟨_, by simp, numValue_mkInt _ _⟩
          · exact absurd rfl (hr rfl)
        | cons c rest' =>
          simp only [hdw] at h
          by_cases hc : c = '.' ∨ c = 'e' ∨ c = 'E'
          · simp only [hc, ↓reduceIte] at h ⊢
            exact lexFloatM_of_lexFloat st h hr
          · simp only [hc, ↓reduceIte, Option.some.injEq, Prod.mk.injEq] at h ⊢
            obtain ⟨rfl, rfl⟩ := h
            exact ⟨_, rfl, numValue_mkInt _ _⟩

theorem tag_not_tokEnd : tokEnd 'b' = false ∧ tokEnd 'B' = false ∧ tokEnd 'x' = false ∧ tokEnd 'X' = false := by decide

/-- The end-of-input cases of the streaming radix recognizers cannot occur before a token-ending character. -/
theorem radixEof_absurd {tc tC : Char} (htc : tokEnd tc = false ∧ isDigit tc = false ∧ tc ≠ '.' ∧ tc ≠ 'e' ∧ tc ≠ 'E')
    (htC : tokEnd tC = false ∧ isDigit tC = false ∧ tC ≠ '.' ∧ tC ≠ 'e' ∧ tC ≠ 'E') {inp : List Char} {v : Value}
    {rest : List Char} (h : lexDecimal inp = some (v, rest)) (hd : TokEnd rest) (hne : rest ≠ [])
    (he : radixEof tc tC inp) : False := by
  unfold lexDecimal lexDecimalBody at h
  rcases he with hs | hs | ⟨t, hs, ht⟩
  · rcases stripSign_nil hs with h0 | h0 <;> subst h0 <;>
      simp [stripSign, lexFloat, lexFloatBody, stripPlusMinus] at h
  · rw [hs] at h
    have h0 : isDigit '0' = true := by decide
    simp [List.takeWhile, List.dropWhile, h0] at h
    exact hne h.2
  · rw [hs] at h
    have htd : isDigit t = false := by rcases ht with rfl | rfl; exact htc.2.1; exact htC.2.1
    have hte : ¬ (t = '.' ∨ t = 'e' ∨ t = 'E') := by
      rcases ht with rfl | rfl
      · intro hh; rcases hh with hh | hh | hh
        · exact htc.2.2.1 hh
        · exact htc.2.2.2.1 hh
        · exact htc.2.2.2.2 hh
      · intro hh; rcases hh with hh | hh | hh
        · exact htC.2.2.1 hh
        · exact htC.2.2.2.1 hh
        · exact htC.2.2.2.2 hh
    have h0 : isDigit '0' = true := by decide
    simp [List.takeWhile, List.dropWhile, h0, htd, hte] at h
    have := hd t (by rw [← h.2]; simp)
    rcases ht with rfl | rfl
    · rw [htc.1] at this; cases this
    · rw [htC.1] at this; cases this

theorem lexRadix_nil (tc tC : Char) (isD : Char → Bool) (radix : Nat) : lexRadix tc tC isD radix [] = none := rfl

theorem lexNumM_of_lexNumber (st : Bool) {inp : List Char} {v : Value} {rest : List Char}
    (h : lexNumber inp = some (v, rest)) (hd : TokEnd rest) (hr : st = true → rest ≠ []) :
    ∃ n, lexNumM st inp = .ok n rest ∧ numValue n = v := by
  have hinp : inp ≠ [] := by
    intro h0; subst h0
    simp [lexNumber, lexRadix, lexRadixBody, stripSign, lexDecimal, lexDecimalBody, lexFloat, lexFloatBody,
      stripPlusMinus] at h
  unfold lexNumber at h
  unfold lexNumM
  cases hi : inp with
  | nil => exact absurd hi hinp
  | cons a t =>
    simp only
    rw [← hi]
    have hbT : tokEnd 'b' = false ∧ isDigit 'b' = false ∧ ('b' : Char) ≠ '.' ∧ ('b' : Char) ≠ 'e' ∧ ('b' : Char) ≠ 'E' := by decide
    have hBT : tokEnd 'B' = false ∧ isDigit 'B' = false ∧ ('B' : Char) ≠ '.' ∧ ('B' : Char) ≠ 'e' ∧ ('B' : Char) ≠ 'E' := by decide
    have hxT : tokEnd 'x' = false ∧ isDigit 'x' = false ∧ ('x' : Char) ≠ '.' ∧ ('x' : Char) ≠ 'e' ∧ ('x' : Char) ≠ 'E' := by decide
    have hXT : tokEnd 'X' = false ∧ isDigit 'X' = false ∧ ('X' : Char) ≠ '.' ∧ ('X' : Char) ≠ 'e' ∧ ('X' : Char) ≠ 'E' := by decide
    cases hb : lexRadix 'b' 'B' isBinDigit 2 inp with
    | some p =>
      rw [hb] at h
      simp only [Option.some.injEq] at h
      subst h
      obtain ⟨n, hn, hv⟩ := lexRadixM_some st 'b' 'B' isBinDigit 2 hb hr
      exact ⟨n, by rw [hn], hv⟩
    | none =>
      rw [hb] at h
      simp only at h
      cases hx : lexRadix 'x' 'X' isHexDigit 16 inp with
      | some p =>
        rw [hx] at h
        simp only [Option.some.injEq] at h
        subst h
        obtain ⟨n, hn, hv⟩ := lexRadixM_some st 'x' 'X' isHexDigit 16 hx hr
        have hbe : lexRadixM st 'b' 'B' isBinDigit 2 inp = .err := by
          rcases lexRadixM_none st 'b' 'B' isBinDigit 2 hb with he | ⟨_, he⟩
          · exact he
          · exfalso
            unfold lexRadix lexRadixBody at hx
            rcases he with hs | hs | ⟨t, hs, ht⟩
            · rw [hs] at hx; cases hx
            · rw [hs] at hx; cases hx
            · rw [hs] at hx
              rcases ht with rfl | rfl <;> simp at hx
        exact ⟨n, by rw [hbe]; simp only; rw [hn], hv⟩
      | none =>
        rw [hx] at h
        simp only at h
        have hbe : lexRadixM st 'b' 'B' isBinDigit 2 inp = .err := by
          rcases lexRadixM_none st 'b' 'B' isBinDigit 2 hb with he | ⟨hst, he⟩
          · exact he
          · exact absurd (radixEof_absurd hbT hBT h hd (hr hst) he) id
        have hxe : lexRadixM st 'x' 'X' isHexDigit 16 inp = .err := by
          rcases lexRadixM_none st 'x' 'X' isHexDigit 16 hx with he | ⟨hst, he⟩
          · exact he
          · exact absurd (radixEof_absurd hxT hXT h hd (hr hst) he) id
        obtain ⟨n, hn, hv⟩ := lexDecimalM_of_lexDecimal st h hr
        exact ⟨n, by rw [hbe]; simp only; rw [hxe]; simp only; exact hn, hv⟩

/-! ### the four primitive tokens together -/

theorem lexNumM_percent (st : Bool) (r : List Char) : lexNumM st ('%' :: r) = .err := by
  have h0 : isDigit '%' = false := by decide
  cases r with
  | nil => simp [lexNumM, lexRadixM, stripSign, lexDecimalM, List.takeWhile, h0, lexFloatM, fltInc, fltIncBody,
      stripPlusMinus, List.dropWhile, lexFloat, lexFloatBody]
  | cons y ys => simp [lexNumM, lexRadixM, stripSign, lexDecimalM, List.takeWhile, h0, lexFloatM, fltInc, fltIncBody,
      stripPlusMinus, List.dropWhile, lexFloat, lexFloatBody]

/-- Wherever C09's `lexPrim` reads a primitive token that is followed by a token-ending character, the automaton's
token alternative (`string_literal`, `identifier_or_bool`, `numeric_literal`, `blob`, in either nom mode) reads the
same token, up to the kind of an integer. -/
theorem lexPrimM_of_lexPrim (st : Bool) {inp : List Char} {v : Value} {rest : List Char}
    (h : lexPrim inp = some (.ok (v, rest))) (hd : TokEnd rest) (hr : st = true → rest ≠ []) :
    ∃ e, lexPrimM st inp = .ok e rest ∧ primValue e = some v := by
  unfold lexPrim at h
  cases hi : inp with
  | nil => rw [hi] at h; cases h
  | cons c t =>
    rw [hi] at h
    simp only at h
    rw [← hi] at h
    by_cases hq : c = '"'
    · simp only [hq, ↓reduceIte, Option.some.injEq] at h
      cases hl : lexString inp with
      | ok p =>
        obtain ⟨s, r⟩ := p
        simp only [hl, Res.map, Res.ok.injEq, Prod.mk.injEq] at h
        obtain ⟨rfl, rfl⟩ := h
        refine ⟨.text s, ?_, rfl⟩
        unfold lexPrimM
        rw [← hi, lexStr_of_lexString hl]
      | err => simp [hl, Res.map] at h
      | panic => simp [hl, Res.map] at h
    · simp only [hq, ↓reduceIte] at h
      have hstr : lexStr inp = .err := by rw [hi]; simp [lexStr, hq]
      by_cases hid : isIdentStart c = true
      · simp only [hid, ↓reduceIte] at h
        cases hl : lexIdent inp with
        | none => simp [hl] at h
        | some p =>
          obtain ⟨s, r⟩ := p
          simp only [hl, Option.some.injEq, Res.ok.injEq, Prod.mk.injEq] at h
          obtain ⟨hv, rfl⟩ := h
          refine ⟨identEvent s, ?_, ?_⟩
          · unfold lexPrimM
            rw [← hi, hstr]
            simp only
            rw [lexIdentM_of_lexIdent st hl hr]
          · by_cases h1 : s = "true".toList
            · rw [if_pos h1] at hv; subst hv; rw [identEvent, if_pos h1]; rfl
            · rw [if_neg h1] at hv
              by_cases h2 : s = "false".toList
              · rw [if_pos h2] at hv; subst hv; rw [identEvent, if_neg h1, if_pos h2]; rfl
              · rw [if_neg h2] at hv; subst hv; rw [identEvent, if_neg h1, if_neg h2]; rfl
      · simp only [hid, Bool.false_eq_true, ↓reduceIte] at h
        have hidm : lexIdentM st inp = .err := by rw [hi]; simp [lexIdentM, hid]
        by_cases hp : c = '%'
        · simp only [hp, ↓reduceIte] at h
          cases hl : lexBlob inp with
          | none => simp [hl] at h
          | some p =>
            simp only [hl, Option.some.injEq, Res.ok.injEq] at h
            subst h
            have hdata : ∃ bs, v = .data bs := by
              unfold lexBlob at hl
              split at hl
              · simp at hl
                obtain ⟨a, _, ha⟩ := hl
                exact ⟨a, ha.symm⟩
              · cases hl
            obtain ⟨bs, rfl⟩ := hdata
            refine ⟨.blob bs, ?_, rfl⟩
            unfold lexPrimM
            rw [← hi, hstr]
            simp only
            rw [hidm]
            simp only
            have hnum : lexNumM st inp = .err := by rw [hi, hp]; exact lexNumM_percent st t
            rw [hnum]
            simp only
            rw [lexBlobM_of_lexBlob st hl hd hr]
        · simp only [hp, ↓reduceIte] at h
          by_cases hn : isDigit c = true ∨ c = '-' ∨ c = '+' ∨ c = '.'
          · simp only [hn, ↓reduceIte] at h
            cases hl : lexNumber inp with
            | none => simp [hl] at h
            | some p =>
              simp only [hl, Option.some.injEq, Res.ok.injEq] at h
              subst h
              obtain ⟨n, hnm, hv⟩ := lexNumM_of_lexNumber st hl hd hr
              refine ⟨.num n, ?_, by simp [primValue, hv]⟩
              unfold lexPrimM
              rw [← hi, hstr]
              simp only
              rw [hidm]
              simp only
              rw [hnm]
          · simp [hn] at h

end SwimVerif.ReconEq

namespace SwimVerif.ReconEq
open SwimVerif.Recon

/-! ### exact events for printed primitives -/

/-- The event the parser produces for a primitive value. -/
def primEv : Value → Event
  | .extant => .extant
  | .int _ n => .num (numOfInt n)
  | .float f => .num (.float f)
  | .bool b => .bool b
  | .text s => .text s
  | .data bs => .blob bs
  | .record _ _ => .extant

theorem lexRadixM_ok_shape {st : Bool} {tc tC : Char} {isD : Char → Bool} {radix : Nat} {inp : List Char} {n : Num}
    {rest : List Char} (h : lexRadixM st tc tC isD radix inp = .ok n rest) :
    ∃ mag, n = mkInt (stripSign inp).1 mag := by
  unfold lexRadixM at h
  split at h
  · split at h <;> cases h
  · split at h
    · split at h <;> cases h
    · cases h
  · split at h
    · split at h
      · split at h <;> cases h
      · cases h
      · split at h
        · cases h
        · simp only [Lx.ok.injEq] at h; exact ⟨_, h.1.symm⟩
      · simp only [Lx.ok.injEq] at h; exact ⟨_, h.1.symm⟩
    · cases h

theorem lexFloatM_ok_shape {st : Bool} {inp : List Char} {n : Num} {rest : List Char}
    (h : lexFloatM st inp = .ok n rest) : ∃ f, n = .float f := by
  unfold lexFloatM at h
  split at h
  · cases h
  · split at h
    · split at h
      · cases h
      · simp only [Lx.ok.injEq] at h; exact ⟨_, h.1.symm⟩
    · cases h

theorem lexDecimalM_ok_shape {st : Bool} {inp : List Char} {n : Num} {rest : List Char}
    (h : lexDecimalM st inp = .ok n rest) : (∃ f, n = .float f) ∨ ∃ mag, n = mkInt (stripSign inp).1 mag := by
  unfold lexDecimalM at h
  split at h
  · split at h <;> cases h
  · split at h
    · split at h
      · cases h
      · exact Or.inl (lexFloatM_ok_shape h)
    · split at h
      · exact Or.inl (lexFloatM_ok_shape h)
      · split at h
        · cases h
        · simp only [Lx.ok.injEq] at h; exact Or.inr ⟨_, h.1.symm⟩
      · split at h
        · exact Or.inl (lexFloatM_ok_shape h)
        · simp only [Lx.ok.injEq] at h; exact Or.inr ⟨_, h.1.symm⟩

theorem lexNumM_ok_shape {st : Bool} {inp : List Char} {n : Num} {rest : List Char}
    (h : lexNumM st inp = .ok n rest) : (∃ f, n = .float f) ∨ ∃ mag, n = mkInt (stripSign inp).1 mag := by
  unfold lexNumM at h
  split at h
  · split at h <;> cases h
  · split at h
    · split at h
      · exact lexDecimalM_ok_shape h
      · rename_i r hr _
        exact Or.inr (lexRadixM_ok_shape (by rw [← h]))
    · rename_i r hr
      exact Or.inr (lexRadixM_ok_shape (by rw [← h]))

end SwimVerif.ReconEq

namespace SwimVerif.ReconEq
open SwimVerif.Recon

theorem identEvent_not_num (s : List Char) (n : Num) : identEvent s ≠ .num n := by
  unfold identEvent
  split
  · simp
  · split <;> simp

theorem lexPrimM_num_inv {st : Bool} {inp : List Char} {n : Num} {rest : List Char}
    (h : lexPrimM st inp = .ok (.num n) rest) : lexNumM st inp = .ok n rest := by
  unfold lexPrimM at h
  split at h
  · simp at h
  · cases h
  · split at h
    · simp only [Lx.ok.injEq] at h; exact absurd h.1 (identEvent_not_num _ _)
    · cases h
    · split at h
      · rename_i n' r' hn
        simp only [Lx.ok.injEq, Event.num.injEq] at h
        rw [hn, h.1, h.2]
      · cases h
      · split at h
        · simp at h
        · cases h
        · cases h

theorem intChars_stripSign (n : Int) (rest : List Char) :
    (stripSign (intChars n ++ rest)).1 = decide (n < 0) := by
  cases n with
  | ofNat m =>
    obtain ⟨d, ds, hd, hdd⟩ := natChars_head m
    have hm : d ≠ '-' := digit_ne hdd '-' (by decide)
    simp only [intChars, hd, List.cons_append, stripSign]
    split
    · rename_i heq; simp only [List.cons.injEq] at heq; exact absurd heq.1 hm
    · simp
  | negSucc m =>
    simp only [intChars, List.cons_append, stripSign]
    simp [Int.negSucc_lt_zero]

/-- The automaton's token alternative reads the printed text of a primitive value back as exactly `primEv v`. -/
theorem lexPrimM_printed (st : Bool) (i : Nat) {v : Value} (hp : v.isPrim = true) (hw : v.wf = true)
    {rest : List Char} (hd : TokEnd rest) (hr : st = true → rest ≠ []) :
    lexPrimM st (printV .compact i v ++ rest) = .ok (primEv v) rest := by
  obtain ⟨e, he, hv⟩ := lexPrimM_of_lexPrim st (lexPrim_value i hp hw hd) hd hr
  rw [he]
  congr 1
  cases v with
  | extant => simp [Value.isPrim] at hp
  | record a its => simp [Value.isPrim] at hp
  | text s =>
    simp only [Value.norm] at hv
    cases e <;> simp [primValue] at hv
    · subst hv; rfl
    · rename_i n; cases n <;> simp [numValue] at hv
  | bool b =>
    simp only [Value.norm] at hv
    cases e <;> simp [primValue] at hv
    · rename_i n; cases n <;> simp [numValue] at hv
    · subst hv; rfl
  | data bs =>
    simp only [Value.norm] at hv
    cases e <;> simp [primValue] at hv
    · rename_i n; cases n <;> simp [numValue] at hv
    · subst hv; rfl
  | float f =>
    simp only [Value.norm] at hv
    cases e <;> simp [primValue] at hv
    rename_i n
    cases n <;> simp [numValue] at hv
    subst hv; rfl
  | int k n =>
    simp only [Value.norm] at hv
    cases e <;> simp [primValue] at hv
    rename_i n'
    simp only [primEv, Event.num.injEq]
    have hnum := lexPrimM_num_inv he
    rcases lexNumM_ok_shape hnum with ⟨f, hf⟩ | ⟨mag, hm⟩
    · subst hf; simp [numValue] at hv
    · have hs : (stripSign (printV .compact i (.int k n) ++ rest)).1 = decide (n < 0) := by
        simpa [printV] using intChars_stripSign n rest
      rw [hs] at hm
      subst hm
      rw [numValue_mkInt] at hv
      simp only [intValue, Value.int.injEq] at hv
      unfold numOfInt
      by_cases hn : n < 0
      · simp only [hn, decide_true, ↓reduceIte] at hv ⊢
        have : mag = n.natAbs := by omega
        rw [this]
      · simp only [hn, decide_false, Bool.false_eq_true, ↓reduceIte] at hv ⊢
        have : mag = n.natAbs := by omega
        rw [this]

/-- No primitive token starts with a character that is not a token start. -/
theorem lexPrimM_not_start (st : Bool) {c : Char} (hc : primStart c = false) (t : List Char) :
    lexPrimM st (c :: t) = .err := by
  simp only [primStart, Bool.or_eq_false_iff, beq_eq_false_iff_ne] at hc
  obtain ⟨⟨⟨⟨⟨⟨hq, hid⟩, hdg⟩, hmin⟩, hpct⟩, hpl⟩, hdot⟩ := hc
  have hs : stripSign (c :: t) = (false, c :: t) := by
    unfold stripSign
    split
    · rename_i heq; simp only [List.cons.injEq] at heq; exact absurd heq.1 hmin
    · rfl
  have hsp : stripPlusMinus (c :: t) = (false, c :: t) := by
    unfold stripPlusMinus
    split
    · rename_i heq; simp only [List.cons.injEq] at heq; exact absurd heq.1 hmin
    · rename_i heq; simp only [List.cons.injEq] at heq; exact absurd heq.1 hpl
    · rfl
  have htw : (c :: t).takeWhile isDigit = [] := by simp [List.takeWhile, hdg]
  have h0 : c ≠ '0' := by intro h; subst h; simp [isDigit] at hdg
  have hrad : ∀ tc tC isD radix, lexRadixM st tc tC isD radix (c :: t) = .err := by
    intro tc tC isD radix
    unfold lexRadixM
    rw [hs]
    cases t with
    | nil => simp [h0]
    | cons y ys => simp [h0]
  have hfl : lexFloatM st (c :: t) = .err := by
    unfold lexFloatM fltInc lexFloat
    rw [hsp]
    simp only [fltIncBody_nodigits_other hdot htw, Bool.and_false, Bool.false_eq_true, ↓reduceIte,
      lexFloatBody_nodigits_other false hdot htw]
  unfold lexPrimM
  simp only [lexStr, hq, ↓reduceIte, lexIdentM, hid, Bool.false_eq_true]
  have hnum : lexNumM st (c :: t) = .err := by
    unfold lexNumM
    simp only [hrad]
    unfold lexDecimalM
    rw [hs]
    simp only [htw, hfl]
  rw [hnum]
  simp [lexBlobM, hpct]

/-! ### attribute names -/

/-- `alt((string_literal, identifier))` on a printed attribute name followed by a non-identifier character. -/
theorem lexName_printed (nm : List Char) {x : Char} (xs : List Char) (hx : isIdentChar x = false) :
    lexName (attrName nm ++ x :: xs) = .ok nm (x :: xs) := by
  unfold lexName
  rw [attrName_eq]
  cases h : isIdentifier nm
  · rw [stringLiteral_quoted h]
    simp only [List.cons_append, List.append_assoc, List.nil_append]
    rw [lexStr_of_lexString (lexString_escape nm (x :: xs))]
  · obtain ⟨hl, _⟩ := (quote_decision_agrees nm).mp h
    obtain ⟨c, cs, rfl, hc, _⟩ := (lexIdent_eq_self_iff nm).mp hl
    have hq : c ≠ '"' := by intro h'; subst h'; simp [quote_not_identStart] at hc
    have : stringLiteral (c :: cs) = c :: cs := by simp [stringLiteral, h]
    rw [this]
    have hlex := lexIdent_append hl (rest := x :: xs) (by intro y hy; simp at hy; subst hy; exact hx)
    have hstr : lexStr (c :: cs ++ x :: xs) = .err := by simp [lexStr, hq]
    rw [hstr]
    exact lexIdentM_of_lexIdent true hlex (by simp)

theorem lexAttr_body (nm : List Char) (r : List Char) :
    lexAttr ('@' :: (attrName nm ++ '(' :: r)) = .ok (nm, true) r := by
  unfold lexAttr
  simp only [↓reduceIte]
  rw [lexName_printed nm r (by decide)]
  simp

theorem lexAttr_nobody (nm : List Char) {x : Char} (xs : List Char) (hx : isIdentChar x = false) (hp : x ≠ '(') :
    lexAttr ('@' :: (attrName nm ++ x :: xs)) = .ok (nm, false) (x :: xs) := by
  unfold lexAttr
  simp only [↓reduceIte]
  rw [lexName_printed nm xs hx]
  simp [hp]

end SwimVerif.ReconEq
