/-
C16: the round-trip invariant `Good` for every well-formed schema, by induction over the schema.
-/
import SwimVerif.Proofs.FormSchema

namespace SwimVerif.Form

/-- The facts about a type that the layouts containing it rely on. -/
structure Good (t : Ty) : Prop where
  dec_enc : ∀ r x, okInst t x = true → (codecOf t).dec r ((codecOf t).enc x) = some x
  attr : ∀ r, attrSafe t = true → ∀ x, okInst t x = true → (codecOf t).decAttr r ((codecOf t).enc x) = some x
  body : ∀ r names, bodySafe names t = true → ∀ x, okInst t x = true →
    (codecOf t).decBody r (bodySplit ((codecOf t).enc x)).1 (bodySplit ((codecOf t).enc x)).2 = some x
    ∧ ∀ n v rs, (bodySplit ((codecOf t).enc x)).1 = (n, v) :: rs → names.contains n = false
  omitted : ∀ x, okInst t x = true → (codecOf t).omits x = true → (codecOf t).absent = some x
  notExtant : acceptsExtant t = false → ∀ x, okInst t x = true → ((codecOf t).enc x).isExtant = false
  decExtant : ∀ r, acceptsExtant t = false → (codecOf t).dec r .extant = none
  bare : ∀ r, acceptsBare t = false → ∀ items, (codecOf t).dec r (.record [] items) = none
  flat : ∀ r, hbSafe t = true → ∀ x, okInst t x = true → ∀ rest,
    (codecOf t).dec r (.record [] ((none, (codecOf t).enc x) :: rest)) = none
  dflt : hasDflt t = true → ∀ x, isDflt t x = true → (codecOf t).dflt = some x

theorem good_int (k : NumKind) : Good (.int k) where
  dec_enc := by
    intro r x hx
    cases x <;> simp [okInst] at hx
    simp [codecOf, intCodec, intDec, hx]
  attr := by
    intro r _ x hx
    cases x <;> simp [okInst] at hx
    simp [codecOf, intCodec, intDec, hx]
  body := by
    intro r names _ x hx
    cases x <;> simp [okInst] at hx
    simp [codecOf, intCodec, intDec, bodySplit, simpleBody, hx]
  omitted := by intro x _ h; simp [codecOf, intCodec] at h
  notExtant := by
    intro _ x hx
    cases x <;> simp [okInst] at hx
    simp [codecOf, intCodec, Val.isExtant]
  decExtant := by intro r _; simp [codecOf, intCodec, intDec]
  bare := by intro r _ items; simp [codecOf, intCodec, intDec]
  flat := by intro r _ x _ rest; simp [codecOf, intCodec, intDec]
  dflt := by
    intro _ x hx
    cases x <;> simp [isDflt] at hx
    simp [codecOf, intCodec, hx]

theorem good_bool : Good .bool where
  dec_enc := by
    intro r x hx
    cases x <;> simp [okInst] at hx
    simp [codecOf, boolCodec, boolDec]
  attr := by
    intro r _ x hx
    cases x <;> simp [okInst] at hx
    simp [codecOf, boolCodec, boolDec]
  body := by
    intro r names _ x hx
    cases x <;> simp [okInst] at hx
    simp [codecOf, boolCodec, boolDec, bodySplit, simpleBody]
  omitted := by intro x _ h; simp [codecOf, boolCodec] at h
  notExtant := by
    intro _ x hx
    cases x <;> simp [okInst] at hx
    simp [codecOf, boolCodec, Val.isExtant]
  decExtant := by intro r _; simp [codecOf, boolCodec, boolDec]
  bare := by intro r _ items; simp [codecOf, boolCodec, boolDec]
  flat := by intro r _ x _ rest; simp [codecOf, boolCodec, boolDec]
  dflt := by
    intro _ x hx
    cases x <;> simp [isDflt] at hx
    simp [codecOf, boolCodec, hx]

theorem good_text : Good .text where
  dec_enc := by
    intro r x hx
    cases x <;> simp [okInst] at hx
    simp [codecOf, textCodec, textDec]
  attr := by
    intro r _ x hx
    cases x <;> simp [okInst] at hx
    simp [codecOf, textCodec, textDec]
  body := by
    intro r names _ x hx
    cases x <;> simp [okInst] at hx
    simp [codecOf, textCodec, textDec, bodySplit, simpleBody]
  omitted := by intro x _ h; simp [codecOf, textCodec] at h
  notExtant := by
    intro _ x hx
    cases x <;> simp [okInst] at hx
    simp [codecOf, textCodec, Val.isExtant]
  decExtant := by intro r _; simp [codecOf, textCodec, textDec]
  bare := by intro r _ items; simp [codecOf, textCodec, textDec]
  flat := by intro r _ x _ rest; simp [codecOf, textCodec, textDec]
  dflt := by
    intro _ x hx
    cases x <;> simp [isDflt] at hx
    simp [codecOf, textCodec, hx]

theorem good_unit : Good .unit where
  dec_enc := by
    intro r x hx
    cases x <;> simp [okInst] at hx
    simp [codecOf, unitCodec, unitDec]
  attr := by
    intro r _ x hx
    cases x <;> simp [okInst] at hx
    simp [codecOf, unitCodec, unitDec]
  body := by
    intro r names _ x hx
    cases x <;> simp [okInst] at hx
    simp [codecOf, unitCodec, unitDec, bodySplit, simpleBody]
  omitted := by intro x _ h; simp [codecOf, unitCodec] at h
  notExtant := by intro h; simp [acceptsExtant] at h
  decExtant := by intro r h; simp [acceptsExtant] at h
  bare := by intro r _ items; simp [codecOf, unitCodec, unitDec]
  flat := by intro r _ x _ rest; simp [codecOf, unitCodec, unitDec]
  dflt := by
    intro _ x hx
    cases x <;> simp [isDflt] at hx
    simp [codecOf, unitCodec]

theorem optDec_notExtant (r : Bool) (c : Codec) (v : Val) (h : v.isExtant = false) :
    optDec r c v = (c.dec r v).map .some := by
  cases v <;> simp [optDec, Val.isExtant] at h ⊢

theorem optDecAttr_notExtant (r : Bool) (c : Codec) (v : Val) (h : v.isExtant = false) :
    optDecAttr r c v = (c.decAttr r v).map .some := by
  cases v <;> simp [optDecAttr, Val.isExtant] at h ⊢

theorem optBodyOK_spec (names : List String) (t : Ty) (h : optBodyOK names t = true) :
    bodySafe names t = true ∧ acceptsBare t = false := by
  cases t <;> simp [optBodyOK] at h <;> simp [bodySafe, acceptsBare, h] <;> exact h

theorem optDecBody_split (r : Bool) (c : Codec) (b : Val) (h1 : b.isExtant = false) (h2 : ∀ items, b ≠ .record [] items) :
    optDecBody r c (bodySplit b).1 (bodySplit b).2 = (c.decBody r (bodySplit b).1 (bodySplit b).2).map .some := by
  cases b with
  | extant => simp [Val.isExtant] at h1
  | num k n => simp [bodySplit, optDecBody]
  | bool v => simp [bodySplit, optDecBody]
  | text v => simp [bodySplit, optDecBody]
  | record attrs items =>
    cases attrs with
    | nil => exact absurd rfl (h2 items)
    | cons a as => simp [bodySplit, optDecBody]

theorem good_opt (t : Ty) (g : Good t) (hne : acceptsExtant t = false) : Good (.opt t) where
  dec_enc := by
    intro r x hx
    cases x <;> simp [okInst] at hx
    · simp [codecOf, optCodec, optDec, g.decExtant r hne]
    · rename_i y
      have h1 := g.notExtant hne y hx
      simp only [codecOf, optCodec]
      rw [optDec_notExtant _ _ _ h1, g.dec_enc r y hx]; rfl
  attr := by
    intro r ha x hx
    have ha' : attrSafe t = true := by simpa [attrSafe] using ha
    cases x <;> simp [okInst] at hx
    · simp [codecOf, optCodec, optDecAttr]
    · rename_i y
      have h1 := g.notExtant hne y hx
      simp only [codecOf, optCodec]
      rw [optDecAttr_notExtant _ _ _ h1, g.attr r ha' y hx]; rfl
  body := by
    intro r names h x hx
    have hspec := optBodyOK_spec names t (by simpa [bodySafe] using h)
    cases x <;> simp [okInst] at hx
    · simp [codecOf, optCodec, bodySplit, optDecBody, Generated.emptyBodyAcceptsExtant]
    · rename_i y
      have hb := g.body r names hspec.1 y hx
      have h1 := g.notExtant hne y hx
      have h2 : ∀ items, (codecOf t).enc y ≠ .record [] items := by
        intro items e
        have := g.dec_enc r y hx
        rw [e, g.bare r hspec.2 items] at this
        cases this
      simp only [codecOf, optCodec]
      rw [optDecBody_split _ _ _ h1 h2, hb.1]
      exact ⟨rfl, hb.2⟩
  omitted := by
    intro x hx h
    cases x <;> simp [codecOf, optCodec] at h ⊢
  notExtant := by intro h; simp [acceptsExtant] at h
  decExtant := by intro r h; simp [acceptsExtant] at h
  bare := by
    intro r h items
    have h' : acceptsBare t = false := by simpa [acceptsBare] using h
    simp [codecOf, optCodec, optDec, g.bare r h' items]
  flat := by
    intro r h x _ rest
    have h' : acceptsBare t = false := by simpa [hbSafe, acceptsBare] using h
    simp [codecOf, optCodec, optDec, g.bare r h' _]
  dflt := by
    intro _ x hx
    cases x <;> simp [isDflt] at hx
    simp [codecOf, optCodec]

theorem listItems_enc (c : Codec) (d : Val → Option Inst) (ys : List Inst) (h : ∀ y ∈ ys, d (c.enc y) = some y) :
    listItems d (ys.map fun y => (none, c.enc y)) = some ys := by
  induction ys with
  | nil => simp [listItems]
  | cons y ys ih =>
    simp only [List.map_cons, listItems, h y (List.mem_cons_self ..)]
    rw [ih (fun y' hy' => h y' (List.mem_cons_of_mem _ hy'))]

theorem listItemsFrom_enc (r : Bool) (c : Codec) (ys : List Inst) (h : ∀ r' y, y ∈ ys → c.dec r' (c.enc y) = some y) :
    listItemsFrom r c (ys.map fun y => (none, c.enc y)) = some ys := by
  cases ys with
  | nil => simp [listItemsFrom]
  | cons y ys =>
    simp only [List.map_cons, listItemsFrom, h r y (List.mem_cons_self ..)]
    rw [listItems_enc c (c.dec true) ys (fun y' hy' => h true y' (List.mem_cons_of_mem _ hy'))]

theorem good_list (t : Ty) (g : Good t) : Good (.list t) where
  dec_enc := by
    intro r x hx
    cases x <;> simp [okInst] at hx
    rename_i ys
    simp only [codecOf, listCodec, listDec]
    rw [listItemsFrom_enc r _ ys (fun r' y hy => g.dec_enc r' y (hx y hy))]; rfl
  attr := by
    intro r ha x hx
    have ha' : acceptsBare t = false := by simpa [attrSafe] using ha
    cases x <;> simp [okInst] at hx
    rename_i ys
    simp only [codecOf, listCodec, listDecAttr, g.bare r ha', listDec]
    rw [listItemsFrom_enc r _ ys (fun r' y hy => g.dec_enc r' y (hx y hy))]
    simp
  body := by
    intro r names _ x hx
    cases x <;> simp [okInst] at hx
    rename_i ys
    simp only [codecOf, listCodec, bodySplit, listDecBody]
    rw [listItemsFrom_enc r _ ys (fun r' y hy => g.dec_enc r' y (hx y hy))]
    simp
  omitted := by intro x _ h; simp [codecOf, listCodec] at h
  notExtant := by
    intro _ x hx
    cases x <;> simp [okInst] at hx
    simp [codecOf, listCodec, Val.isExtant]
  decExtant := by intro r _; simp [codecOf, listCodec, listDec]
  bare := by intro r h; simp [acceptsBare] at h
  flat := by
    intro r h x hx rest
    have h' : acceptsBare t = false := by simpa [hbSafe] using h
    cases x <;> simp [okInst] at hx
    simp [codecOf, listCodec, listDec, listItemsFrom, g.bare r h']
  dflt := by
    intro _ x hx
    cases x <;> simp [isDflt] at hx
    simp [codecOf, listCodec, hx]

/-! ### the field lists built from a schema -/

theorem fieldCs_idx_ge : (fs : Fields) → (k : Nat) → ∀ f ∈ fieldCs fs k, k ≤ f.idx
  | .nil, k => by simp [fieldCs]
  | .cons n l kd t rest, k => by
    intro f hf
    simp only [fieldCs, List.mem_cons] at hf
    rcases hf with rfl | hf
    · simp
    · have := fieldCs_idx_ge rest (k + 1) f hf
      omega

theorem idxNodup_fieldCs : (fs : Fields) → (k : Nat) → IdxNodup (fieldCs fs k)
  | .nil, k => by simp [fieldCs, IdxNodup]
  | .cons n l kd t rest, k => by
    simp only [fieldCs, IdxNodup]
    refine List.pairwise_cons.mpr ⟨?_, idxNodup_fieldCs rest (k + 1)⟩
    intro b hb
    have := fieldCs_idx_ge rest (k + 1) b hb
    simp only
    omega

theorem getD_append_length (pre : List Inst) (x : Inst) (xs : List Inst) :
    (pre ++ x :: xs).getD pre.length .unit = x := by
  simp [List.getD]

theorem map_fieldVal_fieldCs : (fs : Fields) → (k : Nat) → (pre xs : List Inst) → pre.length = k →
    okFields fs xs = true → (fieldCs fs k).map (fieldVal (pre ++ xs)) = xs
  | .nil, k, pre, xs, _, h => by
    simp [okFields] at h
    simp [fieldCs, h]
  | .cons n l kd t rest, k, pre, xs, hk, h => by
    cases xs with
    | nil => simp [okFields] at h
    | cons x xs' =>
      simp only [okFields, Bool.and_eq_true] at h
      simp only [fieldCs, List.map_cons]
      have h1 : fieldVal (pre ++ x :: xs') ⟨k, n, l, kd, codecOf t⟩ = x := by
        simp only [fieldVal]
        rw [← hk]
        exact getD_append_length pre x xs'
      rw [h1]
      have := map_fieldVal_fieldCs rest (k + 1) (pre ++ [x]) xs' (by simp [hk]) h.2
      rw [List.append_assoc] at this
      simp only [List.singleton_append] at this
      rw [this]

theorem segAs_names : (fs : Fields) → (k : Nat) → (segAs (fieldCs fs k)).map (·.name) = attrNames fs
  | .nil, k => by simp [fieldCs, segAs, attrNames]
  | .cons n l kd t rest, k => by
    have ih := segAs_names rest (k + 1)
    by_cases h : kd = .attr
    · subst h
      simp only [fieldCs, segAs, attrNames, List.filter_cons, isKind, beq_self_eq_true, ↓reduceIte, List.map_cons]
      simp only [segAs, isKind] at ih
      rw [ih]
    · have h' : (kd == FKind.attr) = false := by simpa using h
      simp only [fieldCs, segAs, attrNames, List.filter_cons, isKind, h', Bool.false_eq_true, ↓reduceIte]
      simp only [segAs, isKind] at ih
      exact ih

theorem findField_none_of_not_mem {tbl : List FieldC} {n : String}
    (h : (tbl.map (·.name)).contains n = false) : findField tbl n = none := by
  unfold findField
  rw [List.find?_eq_none]
  intro f hf
  have : ¬ (n ∈ tbl.map (·.name)) := by
    intro hm
    rw [← List.contains_iff_mem] at hm
    rw [h] at hm; cases hm
  intro e
  apply this
  exact List.mem_map.mpr ⟨f, hf, by simpa using e⟩

theorem structEnc_form (tag : String) (fs : List FieldC) (xs : List Inst) :
    ∃ hv rest items, structEnc tag fs xs = .record ((tag, hv) :: rest) items := by
  unfold structEnc
  cases segBody fs with
  | some b =>
    simp only [delegateBody_eq, List.cons_append]
    exact ⟨_, _, _, rfl⟩
  | none =>
    simp only
    by_cases h : bodyLabelled fs = true
    · simp only [h, ↓reduceIte]; exact ⟨_, _, _, rfl⟩
    · have h' : bodyLabelled fs = false := by simpa using h
      simp only [h', Bool.false_eq_true, ↓reduceIte]; exact ⟨_, _, _, rfl⟩

/-- What `good_fields` establishes for the fields of a struct (at any offset `k` into the instance), in both
recogniser modes. -/
def FieldsGood (names : List String) (fs : Fields) : Prop :=
  ∀ (r : Bool) (tbl : List FieldC), (∀ n, names.contains n = false → findField tbl n = none) →
  ∀ (k : Nat) (pre xs : List Inst), pre.length = k → okFields fs xs = true →
  ∀ f ∈ fieldCs fs k, FieldGood r tbl (pre ++ xs) f

theorem fieldGood_of_good (r : Bool) (names : List String) (tbl : List FieldC)
    (hlink : ∀ n, names.contains n = false → findField tbl n = none)
    (t : Ty) (g : Good t) (kd : FKind) (hpos : posSafe names kd t = true)
    (f : FieldC) (hc : f.c = codecOf t) (hkd : f.kind = kd) (zs : List Inst)
    (hok : (if kd == .skip then isDflt t (fieldVal zs f) else okInst t (fieldVal zs f)) = true) :
    FieldGood r tbl zs f where
  dec_enc := by
    intro hk
    have : (kd == FKind.skip) = false := by rw [← hkd]; simpa using hk
    simp only [this, Bool.false_eq_true, ↓reduceIte] at hok
    rw [hc]; exact g.dec_enc r _ hok
  attr := by
    intro hk
    have hns : (kd == FKind.skip) = false := by
      rcases hk with h | h <;> rw [← hkd, h] <;> decide
    simp only [hns, Bool.false_eq_true, ↓reduceIte] at hok
    have : attrSafe t = true := by
      rcases hk with h | h <;> rw [hkd] at h <;> subst h <;> simp [posSafe] at hpos
      · exact hpos
      · exact hpos.1
    rw [hc]; exact g.attr r this _ hok
  flat := by
    intro hk rest
    rw [hkd] at hk; subst hk
    simp only [posSafe, Bool.and_eq_true] at hpos
    have hok' : okInst t (fieldVal zs f) = true := by simpa using hok
    rw [hc]; exact g.flat r hpos.2 _ hok' rest
  body := by
    intro hk
    rw [hkd] at hk; subst hk
    simp only [posSafe] at hpos
    have hok' : okInst t (fieldVal zs f) = true := by simpa using hok
    rw [hc]
    have := g.body r names hpos _ hok'
    refine ⟨this.1, ?_⟩
    intro n v rs hr
    exact hlink n (this.2 n v rs hr)
  omitted := by
    intro hk ho
    have : (kd == FKind.skip) = false := by rw [← hkd]; simpa using hk
    simp only [this, Bool.false_eq_true, ↓reduceIte] at hok
    rw [hc] at ho ⊢; exact g.omitted _ hok ho
  skip := by
    intro hk
    rw [hkd] at hk; subst hk
    simp only [posSafe] at hpos
    have hok' : isDflt t (fieldVal zs f) = true := by simpa using hok
    rw [hc]; exact g.dflt hpos _ hok'

theorem good_struct (tag : String) (fs : Fields) (hwf : structWF (fieldCs fs 0) = true)
    (hf : FieldsGood (attrNames fs) fs) : Good (.struct tag fs) := by
  have hdec : ∀ r x, okInst (.struct tag fs) x = true →
      (codecOf (.struct tag fs)).dec r ((codecOf (.struct tag fs)).enc x) = some x := by
    intro r x hx
    cases x <;> simp [okInst] at hx
    rename_i xs
    simp only [codecOf, structCodec]
    have hlink : ∀ n, (attrNames fs).contains n = false → findField (segAs (fieldCs fs 0)) n = none := by
      intro n hn
      apply findField_none_of_not_mem
      rw [segAs_names]; exact hn
    have hg := hf r (segAs (fieldCs fs 0)) hlink 0 [] xs rfl hx
    simp only [List.nil_append] at hg
    rw [structDec_enc r tag (fieldCs fs 0) xs (idxNodup_fieldCs fs 0) hwf hg]
    have := map_fieldVal_fieldCs fs 0 [] xs rfl hx
    simp only [List.nil_append] at this
    rw [this]
  refine ⟨hdec, fun r _ => hdec r, ?_, ?_, ?_, ?_, ?_, ?_, ?_⟩
  · intro r names hb x hx
    have hd := hdec r x hx
    cases x <;> simp [okInst] at hx
    rename_i xs
    simp only [codecOf, structCodec] at hd ⊢
    obtain ⟨hv, rest, items, he⟩ := structEnc_form tag (fieldCs fs 0) xs
    rw [he] at hd ⊢
    simp only [bodySplit]
    refine ⟨hd, ?_⟩
    intro n v rs hr
    simp only [List.cons.injEq, Prod.mk.injEq] at hr
    have : names.contains tag = false := by simpa [bodySafe] using hb
    rw [← hr.1.1]; exact this
  · intro x _ h; simp [codecOf, structCodec] at h
  · intro _ x hx
    cases x <;> simp [okInst] at hx
    rename_i xs
    simp only [codecOf, structCodec]
    obtain ⟨hv, rest, items, he⟩ := structEnc_form tag (fieldCs fs 0) xs
    rw [he]; rfl
  · intro r _; simp [codecOf, structCodec, structDec]
  · intro r _ items; simp [codecOf, structCodec, structDec]
  · intro r _ x _ rest; simp [codecOf, structCodec, structDec]
  · intro h; simp [hasDflt] at h

/-! ### enums -/

/-- What `good_variants` establishes: the selected variant exists, its fields have the struct properties. -/
def VariantsGood (vs : Variants) : Prop :=
  ∀ (k : Nat) (xs : List Inst), okVariants vs k xs = true →
    ∃ tag fs, nthVariant vs k = some (tag, fs) ∧ okFields fs xs = true ∧ structWF (fieldCs fs 0) = true
      ∧ FieldsGood (attrNames fs) fs

theorem variantCs_get : (vs : Variants) → (k : Nat) → (tag : String) → (fs : Fields) →
    nthVariant vs k = some (tag, fs) → (variantCs vs)[k]? = some (tag, fieldCs fs 0)
  | .nil, k, tag, fs, h => by simp [nthVariant] at h
  | .cons t f rest, 0, tag, fs, h => by
    simp only [nthVariant, Option.some.injEq, Prod.mk.injEq] at h
    simp [variantCs, h.1, h.2]
  | .cons t f rest, k + 1, tag, fs, h => by
    simp only [nthVariant] at h
    simp only [variantCs, List.getElem?_cons_succ]
    exact variantCs_get rest k tag fs h

theorem variantCs_tags : (vs : Variants) → (variantCs vs).map (·.1) = variantTags vs
  | .nil => by simp [variantCs, variantTags]
  | .cons t f rest => by simp [variantCs, variantTags, variantCs_tags rest]

theorem findVariant_get (l : List (String × List FieldC)) :
    ∀ (j k : Nat) (tag : String) (fs : List FieldC), distinct (l.map (·.1)) = true →
      l[k]? = some (tag, fs) → findVariant l tag j = some (j + k, fs) := by
  induction l with
  | nil => intro j k tag fs _ h; simp at h
  | cons a l ih =>
    intro j k tag fs hd h
    obtain ⟨t, f⟩ := a
    simp only [List.map_cons, distinct, Bool.and_eq_true, Bool.not_eq_true'] at hd
    cases k with
    | zero =>
      simp only [List.getElem?_cons_zero, Option.some.injEq, Prod.mk.injEq] at h
      simp [findVariant, h.1, h.2]
    | succ k =>
      simp only [List.getElem?_cons_succ] at h
      have hne : (t == tag) = false := by
        have hm : tag ∈ l.map (·.1) := List.mem_map.mpr ⟨(tag, fs), List.mem_of_getElem? h, rfl⟩
        have : ¬ (t = tag) := by
          intro e
          rw [← e, ← List.contains_iff_mem] at hm
          rw [hd.1] at hm; cases hm
        simpa using this
      simp only [findVariant, hne, Bool.false_eq_true, ↓reduceIte]
      rw [ih (j + 1) k tag fs hd.2 h]
      congr 2
      omega

theorem mem_variantTags_of_nth : (vs : Variants) → (k : Nat) → (tag : String) → (fs : Fields) →
    nthVariant vs k = some (tag, fs) → tag ∈ variantTags vs
  | .nil, k, tag, fs, h => by simp [nthVariant] at h
  | .cons t f rest, 0, tag, fs, h => by
    simp only [nthVariant, Option.some.injEq, Prod.mk.injEq] at h
    simp [variantTags, h.1]
  | .cons t f rest, k + 1, tag, fs, h => by
    simp only [nthVariant] at h
    simp only [variantTags, List.mem_cons]
    exact Or.inr (mem_variantTags_of_nth rest k tag fs h)

theorem structDecAfterTag_of_structDec (tag : String) (fs : List FieldC) (hv : Val) (rest : List Attr)
    (items : List Item) :
    structDecAfterTag false fs hv rest items = structDec false tag fs (.record ((tag, hv) :: rest) items) := by
  simp [structDec]

theorem good_enum (vs : Variants) (hd : distinct (variantTags vs) = true) (hv : VariantsGood vs) :
    Good (.enum vs) := by
  have hkey : ∀ k xs, okVariants vs k xs = true →
      ∃ tag fs' hv' rest items, (variantCs vs)[k]? = some (tag, fs') ∧ tag ∈ variantTags vs
        ∧ structEnc tag fs' xs = .record ((tag, hv') :: rest) items
        ∧ enumDec (variantCs vs) (.record ((tag, hv') :: rest) items) = some (.variant k xs) := by
    intro k xs hok
    obtain ⟨tag, fs, hn, hokf, hswf, hfg⟩ := hv k xs hok
    have hget := variantCs_get vs k tag fs hn
    obtain ⟨hv', rest, items, he⟩ := structEnc_form tag (fieldCs fs 0) xs
    refine ⟨tag, fieldCs fs 0, hv', rest, items, hget, mem_variantTags_of_nth vs k tag fs hn, he, ?_⟩
    have hfind := findVariant_get (variantCs vs) 0 k tag (fieldCs fs 0) (by rw [variantCs_tags]; exact hd) hget
    have hlink : ∀ n, (attrNames fs).contains n = false → findField (segAs (fieldCs fs 0)) n = none := by
      intro n hn'
      apply findField_none_of_not_mem
      rw [segAs_names]; exact hn'
    have hg := hfg false (segAs (fieldCs fs 0)) hlink 0 [] xs rfl hokf
    simp only [List.nil_append] at hg
    have hsd := structDec_enc false tag (fieldCs fs 0) xs (idxNodup_fieldCs fs 0) hswf hg
    have hmap := map_fieldVal_fieldCs fs 0 [] xs rfl hokf
    simp only [List.nil_append] at hmap
    rw [hmap, he, ← structDecAfterTag_of_structDec] at hsd
    unfold enumDec
    simp only [hfind, Nat.zero_add, hsd]
  have hdec : ∀ (r : Bool) x, okInst (.enum vs) x = true →
      (codecOf (.enum vs)).dec r ((codecOf (.enum vs)).enc x) = some x := by
    intro r x hx
    cases x <;> simp [okInst] at hx
    rename_i k xs
    obtain ⟨tag, fs', hv', rest, items, hget, _, he, hd'⟩ := hkey k xs hx
    simp only [codecOf, enumCodec, hget, he]
    exact hd'
  refine ⟨hdec, fun r _ => hdec r, ?_, ?_, ?_, ?_, ?_, ?_, ?_⟩
  · intro r names hb x hx
    have hd' := hdec r x hx
    cases x <;> simp [okInst] at hx
    rename_i k xs
    obtain ⟨tag, fs', hv', rest, items, hget, hmem, he, _⟩ := hkey k xs hx
    simp only [codecOf, enumCodec, hget, he] at hd' ⊢
    simp only [bodySplit]
    refine ⟨hd', ?_⟩
    intro n v rs hr
    simp only [List.cons.injEq, Prod.mk.injEq] at hr
    simp only [bodySafe, List.all_eq_true, Bool.not_eq_true'] at hb
    rw [← hr.1.1]; exact hb tag hmem
  · intro x _ h; simp [codecOf, enumCodec] at h
  · intro _ x hx
    cases x <;> simp [okInst] at hx
    rename_i k xs
    obtain ⟨tag, fs', hv', rest, items, hget, _, he, _⟩ := hkey k xs hx
    simp only [codecOf, enumCodec, hget, he]; rfl
  · intro r _; simp [codecOf, enumCodec, enumDec]
  · intro r _ items; simp [codecOf, enumCodec, enumDec]
  · intro r _ x _ rest; simp [codecOf, enumCodec, enumDec]
  · intro h; simp [hasDflt] at h

/-! ### `#[form(newtype)]` -/

theorem dflt_of_isDflt (t : Ty) (x : Inst) (h1 : hasDflt t = true) (h2 : isDflt t x = true) :
    (codecOf t).dflt = some x := by
  cases t <;> simp [hasDflt] at h1 <;> cases x <;> simp [isDflt] at h2 <;>
    simp [codecOf, intCodec, boolCodec, textCodec, unitCodec, optCodec, listCodec, h2]

/-- all fields of an `allSkip` tail are skipped and hold their default -/
theorem allSkip_fields : (fs : Fields) → allSkip fs = true → (k : Nat) → (pre xs : List Inst) → pre.length = k →
    okFields fs xs = true →
    ∀ g ∈ fieldCs fs k, g.kind = .skip ∧ g.c.dflt = some (fieldVal (pre ++ xs) g)
  | .nil, _, k, pre, xs, _, _ => by intro g hg; simp [fieldCs] at hg
  | .cons n l kd t rest, h, k, pre, xs, hk, hok => by
    simp only [allSkip, Bool.and_eq_true, beq_iff_eq] at h
    cases xs with
    | nil => simp [okFields] at hok
    | cons x xs' =>
      obtain ⟨⟨hkd, hd⟩, hrest⟩ := h
      subst hkd
      simp only [okFields, beq_self_eq_true, ↓reduceIte, Bool.and_eq_true] at hok
      intro g hg
      simp only [fieldCs, List.mem_cons] at hg
      rcases hg with rfl | hg
      · refine ⟨rfl, ?_⟩
        have hv : fieldVal (pre ++ x :: xs') ⟨k, n, l, .skip, codecOf t⟩ = x := by
          simp only [fieldVal]; rw [← hk]; exact getD_append_length pre x xs'
        rw [hv]; exact dflt_of_isDflt t x hd hok.1
      · have := allSkip_fields rest hrest (k + 1) (pre ++ [x]) xs' (by simp [hk]) hok.2 g hg
        rw [List.append_assoc] at this
        simpa using this

theorem newtypeField_skip_all {l : List FieldC} (h : ∀ g ∈ l, g.kind = .skip) : newtypeField l = none := by
  unfold newtypeField
  rw [List.find?_eq_none]
  intro g hg
  simp [h g hg]

/-- What `good_nt` establishes for the fields of a newtype struct at offset `k`. -/
def NTGood (fs : Fields) : Prop :=
  ∀ (k : Nat), ∃ (f : FieldC) (t : Ty),
    f ∈ fieldCs fs k ∧ newtypeField (fieldCs fs k) = some f ∧ f.c = codecOf t ∧ Good t
    ∧ acceptsExtantNT fs = acceptsExtant t ∧ acceptsBareNT fs = acceptsBare t
    ∧ ∀ (pre xs : List Inst), pre.length = k → okFields fs xs = true →
        okInst t (fieldVal (pre ++ xs) f) = true
        ∧ (∀ g ∈ fieldCs fs k, g.kind = .skip → g.c.dflt = some (fieldVal (pre ++ xs) g))
        ∧ (∀ g ∈ fieldCs fs k, g.kind ≠ .skip → g.idx = f.idx)

theorem good_newtype (fs : Fields) (h : NTGood fs) : Good (.newtype fs) := by
  obtain ⟨f, t, hfm, hnf, hc, g, hae, hab, hdyn⟩ := h 0
  have hdec : ∀ (r : Bool) x, okInst (.newtype fs) x = true →
      (codecOf (.newtype fs)).dec r ((codecOf (.newtype fs)).enc x) = some x := by
    intro r x hx
    cases x <;> simp [okInst] at hx
    rename_i xs
    obtain ⟨hok, hskip, huniq⟩ := hdyn [] xs rfl hx
    simp only [List.nil_append] at hok hskip huniq
    simp only [codecOf, newtypeCodec, hnf, newtypeDec, hc]
    rw [g.dec_enc r _ hok]
    simp only
    have hasm : assemble [(f.idx, fieldVal xs f)] (fieldCs fs 0) = some ((fieldCs fs 0).map (fieldVal xs)) := by
      apply assemble_ok xs _ (consistent_pairsOf xs [f]) (fieldCs fs 0)
      · exact hskip
      · intro g' hg' hk
        left
        rw [huniq g' hg' hk]
        exact has_pairsOf (List.mem_singleton.mpr rfl)
    rw [hasm]
    have := map_fieldVal_fieldCs fs 0 [] xs rfl hx
    simp only [List.nil_append] at this
    rw [this]; rfl
  have henc : ∀ xs, (codecOf (.newtype fs)).enc (.struct xs) = (codecOf t).enc (fieldVal xs f) := by
    intro xs; simp [codecOf, newtypeCodec, hnf, hc]
  have hdecv : ∀ (r : Bool) v, (codecOf t).dec r v = none → (codecOf (.newtype fs)).dec r v = none := by
    intro r v hv; simp [codecOf, newtypeCodec, newtypeDec, hnf, hc, hv]
  refine ⟨hdec, fun r _ => hdec r, ?_, ?_, ?_, ?_, ?_, ?_, ?_⟩
  · intro r names hb; simp [bodySafe] at hb
  · intro x _ ho; simp [codecOf, newtypeCodec] at ho
  · intro hne x hx
    cases x <;> simp [okInst] at hx
    rename_i xs
    obtain ⟨hok, _, _⟩ := hdyn [] xs rfl hx
    simp only [List.nil_append] at hok
    rw [henc]
    exact g.notExtant (by rw [← hae]; simpa [acceptsExtant] using hne) _ hok
  · intro r hne
    exact hdecv r _ (g.decExtant r (by rw [← hae]; simpa [acceptsExtant] using hne))
  · intro r hnb items
    exact hdecv r _ (g.bare r (by rw [← hab]; simpa [acceptsBare] using hnb) items)
  · intro r hs x _ rest
    have hnb : acceptsBare t = false := by rw [← hab]; simpa [hbSafe, acceptsBare] using hs
    exact hdecv r _ (g.bare r hnb _)
  · intro hd; simp [hasDflt] at hd

mutual
theorem good_ty : (t : Ty) → tyWF t = true → Good t
  | .int k, _ => good_int k
  | .bool, _ => good_bool
  | .text, _ => good_text
  | .unit, _ => good_unit
  | .opt t, h => by
    simp only [tyWF, Bool.and_eq_true, Bool.not_eq_true'] at h
    exact good_opt t (good_ty t h.1) h.2
  | .list t, h => by
    simp only [tyWF] at h
    exact good_list t (good_ty t h)
  | .struct tag fs, h => by
    simp only [tyWF, Bool.and_eq_true] at h
    exact good_struct tag fs h.2 (good_fields fs (attrNames fs) h.1)
  | .newtype fs, h => by
    simp only [tyWF] at h
    exact good_newtype fs (good_nt fs h)
  | .enum vs, h => by
    simp only [tyWF, Bool.and_eq_true] at h
    exact good_enum vs h.2 (good_variants vs h.1)
theorem good_fields : (fs : Fields) → (names : List String) → fieldsWF names fs = true → FieldsGood names fs
  | .nil, _, _ => by
    intro r tbl _ k pre xs _ _ f hf
    simp [fieldCs] at hf
  | .cons n l kd t rest, names, h => by
    simp only [fieldsWF, Bool.and_eq_true] at h
    intro r tbl hlink k pre xs hk hok f hf
    cases xs with
    | nil => simp [okFields] at hok
    | cons x xs' =>
      simp only [okFields, Bool.and_eq_true] at hok
      simp only [fieldCs, List.mem_cons] at hf
      rcases hf with rfl | hf
      · have hv : fieldVal (pre ++ x :: xs') ⟨k, n, l, kd, codecOf t⟩ = x := by
          simp only [fieldVal]
          rw [← hk]
          exact getD_append_length pre x xs'
        apply fieldGood_of_good r names tbl hlink t (good_ty t h.1.1) kd h.1.2 _ rfl rfl
        rw [hv]; exact hok.1
      · have := good_fields rest names h.2 r tbl hlink (k + 1) (pre ++ [x]) xs' (by simp [hk]) hok.2 f hf
        rw [List.append_assoc] at this
        simpa using this
theorem good_nt : (fs : Fields) → ntWF fs = true → NTGood fs
  | .nil, h => by simp [ntWF] at h
  | .cons n l kd t rest, h => by
    intro k
    by_cases hkd : kd = .skip
    · subst hkd
      simp only [ntWF, beq_self_eq_true, ↓reduceIte, Bool.and_eq_true] at h
      obtain ⟨f, t', hfm, hnf, hc, g, hae, hab, hdyn⟩ := good_nt rest h.2 (k + 1)
      refine ⟨f, t', ?_, ?_, hc, g, ?_, ?_, ?_⟩
      · simp [fieldCs, hfm]
      · simp only [fieldCs, newtypeField, List.find?_cons, beq_self_eq_true, Bool.not_true]
        exact hnf
      · simp [acceptsExtantNT, hae]
      · simp [acceptsBareNT, hab]
      · intro pre xs hk hok
        cases xs with
        | nil => simp [okFields] at hok
        | cons x xs' =>
          simp only [okFields, beq_self_eq_true, ↓reduceIte, Bool.and_eq_true] at hok
          have := hdyn (pre ++ [x]) xs' (by simp [hk]) hok.2
          rw [List.append_assoc] at this
          simp only [List.singleton_append] at this
          obtain ⟨h1, h2, h3⟩ := this
          refine ⟨h1, ?_, ?_⟩
          · intro g' hg' hs
            simp only [fieldCs, List.mem_cons] at hg'
            rcases hg' with rfl | hg'
            · have hv : fieldVal (pre ++ x :: xs') ⟨k, n, l, .skip, codecOf t⟩ = x := by
                simp only [fieldVal]; rw [← hk]; exact getD_append_length pre x xs'
              rw [hv]; exact dflt_of_isDflt t x h.1 hok.1
            · exact h2 g' hg' hs
          · intro g' hg' hns
            simp only [fieldCs, List.mem_cons] at hg'
            rcases hg' with rfl | hg'
            · exact absurd rfl hns
            · exact h3 g' hg' hns
    · have hkd' : (kd == FKind.skip) = false := by simpa using hkd
      simp only [ntWF, hkd', Bool.false_eq_true, ↓reduceIte, Bool.and_eq_true] at h
      refine ⟨⟨k, n, l, kd, codecOf t⟩, t, ?_, ?_, rfl, good_ty t h.1, ?_, ?_, ?_⟩
      · simp [fieldCs]
      · simp [fieldCs, newtypeField, List.find?_cons, hkd']
      · simp [acceptsExtantNT, hkd']
      · simp [acceptsBareNT, hkd']
      · intro pre xs hk hok
        cases xs with
        | nil => simp [okFields] at hok
        | cons x xs' =>
          simp only [okFields, hkd', Bool.false_eq_true, ↓reduceIte, Bool.and_eq_true] at hok
          have hv : fieldVal (pre ++ x :: xs') ⟨k, n, l, kd, codecOf t⟩ = x := by
            simp only [fieldVal]; rw [← hk]; exact getD_append_length pre x xs'
          have hall := allSkip_fields rest h.2 (k + 1) (pre ++ [x]) xs' (by simp [hk]) hok.2
          rw [List.append_assoc] at hall
          simp only [List.singleton_append] at hall
          refine ⟨by rw [hv]; exact hok.1, ?_, ?_⟩
          · intro g' hg' hs
            simp only [fieldCs, List.mem_cons] at hg'
            rcases hg' with rfl | hg'
            · exact absurd hs hkd
            · exact (hall g' hg').2
          · intro g' hg' hns
            simp only [fieldCs, List.mem_cons] at hg'
            rcases hg' with rfl | hg'
            · rfl
            · exact absurd (hall g' hg').1 hns
theorem good_variants : (vs : Variants) → variantsWF vs = true → VariantsGood vs
  | .nil, _ => by
    intro k xs h
    simp [okVariants] at h
  | .cons tag fs rest, h => by
    simp only [variantsWF, Bool.and_eq_true] at h
    intro k xs hok
    cases k with
    | zero =>
      simp only [okVariants] at hok
      exact ⟨tag, fs, rfl, hok, h.1.2, good_fields fs (attrNames fs) h.1.1⟩
    | succ k =>
      simp only [okVariants] at hok
      obtain ⟨t', fs', hn, r⟩ := good_variants rest h.2 k xs hok
      exact ⟨t', fs', by simp [nthVariant, hn], r⟩
end

/-- The same by a recogniser that has been used before and `reset()`. -/
theorem fromValueReused_toValue (t : Ty) (x : Inst) (hwf : tyWF t = true) (hx : okInst t x = true) :
    fromValueReused t (toValue t x) = some x :=
  (good_ty t hwf).dec_enc true x hx

/-- **Round trip for every well-formed schema**: `try_from_value(as_value(x)) = x`. -/
theorem fromValue_toValue (t : Ty) (x : Inst) (hwf : tyWF t = true) (hx : okInst t x = true) :
    fromValue t (toValue t x) = some x :=
  (good_ty t hwf).dec_enc false x hx
