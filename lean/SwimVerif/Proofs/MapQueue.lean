import SwimVerif.Model.WriteTask

set_option linter.unusedSimpArgs false
set_option linter.unusedVariables false
namespace SwimVerif.WT

/-! ### The coalescing map queue refines "apply every operation in order" (C02, runtime side) -/

abbrev KMap := Nat → Option Bytes

def applyOp (m : KMap) : MapOp → KMap
  | .upd k v => fun x => if x = k then some v else m x
  | .rem k => fun x => if x = k then none else m x
  | .clear => fun _ => none

def applyAll (m : KMap) (ops : List MapOp) : KMap := ops.foldl applyOp m

theorem applyAll_append (m : KMap) (a b : List MapOp) : applyAll m (a ++ b) = applyAll (applyAll m a) b := by
  simp [applyAll, List.foldl_append]

/-- the entry for key `x` in a queue, if any -/
def findKey (x : Nat) : List MapOp → Option MapOp
  | [] => none
  | e :: rest => if e.key? = some x then some e else findKey x rest

def keysOfQ (q : List MapOp) : List Nat := q.filterMap MapOp.key?

def NoClear (q : List MapOp) : Prop := ∀ e, e ∈ q → e ≠ MapOp.clear

/-- the value an entry gives to its key -/
def entryVal : MapOp → Option Bytes
  | .upd _ v => some v
  | _ => none

theorem findKey_none_of_not_mem {x : Nat} {q : List MapOp} (h : x ∉ keysOfQ q) : findKey x q = none := by
  induction q with
  | nil => rfl
  | cons e rest ih =>
    simp only [findKey]
    cases hk : e.key? with
    | none =>
      have h' : x ∉ keysOfQ rest := by
        simpa [keysOfQ, List.filterMap_cons, hk] using h
      simp; exact ih h'
    | some k =>
      have h' : ¬ x = k ∧ x ∉ keysOfQ rest := by
        simpa [keysOfQ, List.filterMap_cons, hk, not_or] using h
      have : ¬ k = x := fun hh => h'.1 hh.symm
      simp [this]; exact ih h'.2

/-- On a queue without `clear` and with distinct keys the fold is: the entry's value for a queued key, the base
map's value otherwise. -/
theorem applyAll_char : ∀ (q : List MapOp) (m : KMap), NoClear q → (keysOfQ q).Nodup → ∀ x,
    applyAll m q x = match findKey x q with
      | some e => entryVal e
      | none => m x := by
  intro q
  induction q with
  | nil => intro m _ _ x; rfl
  | cons e rest ih =>
    intro m hnc hnd x
    have hnc' : NoClear rest := fun e' he' => hnc e' (List.mem_cons_of_mem _ he')
    cases e with
    | clear => exact absurd rfl (hnc .clear List.mem_cons_self)
    | upd k v =>
      simp only [keysOfQ, List.filterMap_cons, MapOp.key?, List.nodup_cons] at hnd
      simp only [applyAll, List.foldl_cons]
      have := ih (applyOp m (.upd k v)) hnc' hnd.2 x
      simp only [applyAll] at this
      rw [this]
      simp only [findKey, MapOp.key?]
      by_cases hx : k = x
      · subst hx
        have hn := findKey_none_of_not_mem hnd.1
        simp [hn, applyOp, entryVal]
      · have : ¬ (some k = some x) := fun hh => hx (Option.some.inj hh)
        simp only [this, if_false]
        cases findKey x rest with
        | some e' => rfl
        | none => simp [applyOp, Ne.symm hx]
    | rem k =>
      simp only [keysOfQ, List.filterMap_cons, MapOp.key?, List.nodup_cons] at hnd
      simp only [applyAll, List.foldl_cons]
      have := ih (applyOp m (.rem k)) hnc' hnd.2 x
      simp only [applyAll] at this
      rw [this]
      simp only [findKey, MapOp.key?]
      by_cases hx : k = x
      · subst hx
        have hn := findKey_none_of_not_mem hnd.1
        simp [hn, applyOp, entryVal]
      · have : ¬ (some k = some x) := fun hh => hx (Option.some.inj hh)
        simp only [this, if_false]
        cases findKey x rest with
        | some e' => rfl
        | none => simp [applyOp, Ne.symm hx]

/-- Well-formed coalescing queue: `clear` only at the head, at most one entry per key. -/
structure WFQ (q : List MapOp) : Prop where
  tail : NoClear q.tail
  keys : (keysOfQ q).Nodup

theorem wfq_nil : WFQ [] := ⟨fun e h => by simp at h, by simp [keysOfQ]⟩

theorem keysOfQ_cons_some {e : MapOp} {k : Nat} (rest : List MapOp) (h : e.key? = some k) :
    keysOfQ (e :: rest) = k :: keysOfQ rest := by simp [keysOfQ, List.filterMap_cons, h]

theorem keysOfQ_cons_none {e : MapOp} (rest : List MapOp) (h : e.key? = none) :
    keysOfQ (e :: rest) = keysOfQ rest := by simp [keysOfQ, List.filterMap_cons, h]

theorem applyOp_keyed (m : KMap) (op : MapOp) (k : Nat) (hk : op.key? = some k) (x : Nat) :
    applyOp m op x = if x = k then entryVal op else m x := by
  cases op with
  | clear => simp [MapOp.key?] at hk
  | upd k' v => simp [MapOp.key?] at hk; subst hk; simp [applyOp, entryVal]
  | rem k' => simp [MapOp.key?] at hk; subst hk; simp [applyOp, entryVal]

theorem mqReplace_spec (op : MapOp) (k : Nat) (hk : op.key? = some k) : ∀ (q q' : List MapOp),
    mqReplace op k q = some q' →
    (NoClear q → NoClear q') ∧ keysOfQ q' = keysOfQ q ∧ q'.length = q.length ∧
    (∀ x, findKey x q' = if x = k then some op else findKey x q) ∧ k ∈ keysOfQ q := by
  intro q
  induction q with
  | nil => intro q' h; simp [mqReplace] at h
  | cons e rest ih =>
    intro q' h
    unfold mqReplace at h
    by_cases he : e.key? = some k
    · rw [if_pos he] at h
      have : q' = op :: rest := (Option.some.inj h).symm
      subst this
      refine ⟨?_, ?_, rfl, ?_, ?_⟩
      · intro hnc e' he'
        rcases List.mem_cons.mp he' with rfl | hm
        · intro hc; rw [hc] at hk; simp [MapOp.key?] at hk
        · exact hnc e' (List.mem_cons_of_mem _ hm)
      · simp [keysOfQ, List.filterMap_cons, he, hk]
      · intro x
        simp only [findKey, hk, he]
        by_cases hx : x = k
        · subst hx; simp
        · have : ¬ (some k = some x) := fun hh => hx (Option.some.inj hh).symm
          simp [hx, this]
      · simp [keysOfQ, List.filterMap_cons, he]
    · rw [if_neg he] at h
      cases hr : mqReplace op k rest with
      | none => simp [hr] at h
      | some r =>
        simp only [hr] at h
        have : q' = e :: r := (Option.some.inj h).symm
        subst this
        obtain ⟨h1, h2, h3, h4, h5⟩ := ih r hr
        refine ⟨?_, ?_, by simp [h3], ?_, ?_⟩
        · intro hnc e' he'
          rcases List.mem_cons.mp he' with rfl | hm
          · exact hnc _ List.mem_cons_self
          · exact h1 (fun e'' he'' => hnc e'' (List.mem_cons_of_mem _ he'')) e' hm
        · simp only [keysOfQ, List.filterMap_cons] at h2 ⊢
          rw [h2]
        · intro x
          simp only [findKey]
          by_cases hx : x = k
          · subst hx
            have : ¬ e.key? = some x := he
            simp [this, h4]
          · simp only [hx, if_false]
            rw [h4 x]; simp [hx]
        · cases hke : e.key? with
          | none => rw [keysOfQ_cons_none rest hke]; exact h5
          | some k' => rw [keysOfQ_cons_some rest hke]; exact List.mem_cons_of_mem _ h5

theorem mqReplace_none (op : MapOp) (k : Nat) : ∀ (q : List MapOp), mqReplace op k q = none → k ∉ keysOfQ q := by
  intro q
  induction q with
  | nil => intro _; simp [keysOfQ]
  | cons e rest ih =>
    intro h
    unfold mqReplace at h
    by_cases he : e.key? = some k
    · rw [if_pos he] at h; simp at h
    · rw [if_neg he] at h
      cases hr : mqReplace op k rest with
      | some r => simp [hr] at h
      | none =>
        have := ih hr
        cases hke : e.key? with
        | none => rw [keysOfQ_cons_none rest hke]; exact this
        | some k' =>
          rw [keysOfQ_cons_some rest hke]
          intro hm
          rcases List.mem_cons.mp hm with h1 | h1
          · apply he; rw [hke, h1]
          · exact this h1

/-- Pushing into the coalescing queue is indistinguishable, for whoever applies the operations in order, from
appending to an unbounded FIFO. -/
theorem applyAll_mqPush_noclear (m : KMap) (q : List MapOp) (op : MapOp) (k : Nat) (hk : op.key? = some k)
    (hnc : NoClear q) (hnd : (keysOfQ q).Nodup) :
    applyAll m (mqPush q op) = applyAll m (q ++ [op]) := by
  unfold mqPush
  rw [hk]
  simp only []
  cases hr : mqReplace op k q with
  | none => rfl
  | some q' =>
    simp only []
    obtain ⟨h1, h2, h3, h4, h5⟩ := mqReplace_spec op k hk q q' hr
    funext x
    rw [applyAll_char q' m (h1 hnc) (by rw [h2]; exact hnd) x, applyAll_append]
    show _ = applyOp (applyAll m q) op x
    rw [applyOp_keyed _ op k hk, h4 x, applyAll_char q m hnc hnd x]
    by_cases hx : x = k <;> simp [hx]

theorem applyAll_mqPush (m : KMap) (q : List MapOp) (op : MapOp) (h : WFQ q) :
    applyAll m (mqPush q op) = applyAll m (q ++ [op]) := by
  cases hk : op.key? with
  | none =>
    have : op = .clear := by cases op <;> simp [MapOp.key?] at hk ⊢
    subst this
    funext x
    rw [applyAll_append]
    simp [mqPush, MapOp.key?, applyAll, applyOp]
  | some k =>
    cases q with
    | nil => simp [mqPush, hk, mqReplace]
    | cons e rest =>
      cases e with
      | clear =>
        -- the head `clear` resets the base; the rest is clear-free
        have hnc : NoClear rest := h.tail
        have hnd : (keysOfQ rest).Nodup := by simpa [keysOfQ, List.filterMap_cons, MapOp.key?] using h.keys
        have e1 : mqPush (.clear :: rest) op = .clear :: mqPush rest op := by
          have hne : ¬ (MapOp.clear.key? = some k) := by simp [MapOp.key?]
          simp only [mqPush, hk]
          rw [mqReplace, if_neg hne]
          cases mqReplace op k rest <;> rfl
        rw [e1]
        show applyAll (applyOp m .clear) (mqPush rest op) = applyAll (applyOp m .clear) (rest ++ [op])
        exact applyAll_mqPush_noclear _ rest op k hk hnc hnd
      | upd k' v =>
        apply applyAll_mqPush_noclear m _ op k hk _ h.keys
        intro e' he'
        rcases List.mem_cons.mp he' with rfl | hm
        · simp
        · exact h.tail e' hm
      | rem k' =>
        apply applyAll_mqPush_noclear m _ op k hk _ h.keys
        intro e' he'
        rcases List.mem_cons.mp he' with rfl | hm
        · simp
        · exact h.tail e' hm

theorem wfq_mqPush (q : List MapOp) (op : MapOp) (h : WFQ q) : WFQ (mqPush q op) := by
  cases hk : op.key? with
  | none =>
    simp only [mqPush, hk]
    exact ⟨fun e he => by simp at he, by
      have : keysOfQ [MapOp.clear] = [] := by simp [keysOfQ, MapOp.key?]
      rw [this]; exact List.nodup_nil⟩
  | some k =>
    simp only [mqPush, hk]
    have hop : op ≠ .clear := by intro hc; rw [hc] at hk; simp [MapOp.key?] at hk
    cases hr : mqReplace op k q with
    | none =>
      simp only []
      have hn := mqReplace_none op k q hr
      constructor
      · intro e he
        cases q with
        | nil => simp at he
        | cons a rest =>
          simp only [List.cons_append, List.tail_cons] at he
          rcases List.mem_append.mp he with h1 | h1
          · exact h.tail e h1
          · simp at h1; subst h1; exact hop
      · simp only [keysOfQ, List.filterMap_append, List.filterMap_cons, hk, List.filterMap_nil]
        rw [List.nodup_append]
        refine ⟨h.keys, by simp, ?_⟩
        intro a ha b hb
        simp at hb; subst hb
        intro hab; subst hab; exact hn ha
    | some q' =>
      simp only []
      obtain ⟨h1, h2, h3, h4, h5⟩ := mqReplace_spec op k hk q q' hr
      constructor
      · -- the tail of q' is clear-free: q' is q with one keyed entry replaced by a keyed entry
        cases q with
        | nil => simp [mqReplace] at hr
        | cons a rest =>
          unfold mqReplace at hr
          by_cases ha : a.key? = some k
          · rw [if_pos ha] at hr
            have : q' = op :: rest := (Option.some.inj hr).symm
            subst this; exact h.tail
          · rw [if_neg ha] at hr
            cases hr2 : mqReplace op k rest with
            | none => simp [hr2] at hr
            | some r =>
              simp only [hr2] at hr
              have : q' = a :: r := (Option.some.inj hr).symm
              subst this
              exact (mqReplace_spec op k hk rest r hr2).1 h.tail
      · rw [h2]; exact h.keys

/-- **Runtime coalescing preserves the fold (C02)**: for every interleaving of pushes and pops, applying what has
been popped and then what is still queued gives the same map as applying everything that was pushed. -/
structure MQSys where
  queue : List MapOp := []
  pushed : List MapOp := []
  popped : List MapOp := []

inductive MQOp | push (op : MapOp) | pop

def mqStep (s : MQSys) : MQOp → MQSys
  | .push op => { s with queue := mqPush s.queue op, pushed := s.pushed ++ [op] }
  | .pop => match s.queue with
    | [] => s
    | e :: rest => { s with queue := rest, popped := s.popped ++ [e] }

def mqRun (s : MQSys) (ops : List MQOp) : MQSys := ops.foldl mqStep s

theorem wfq_tail {e : MapOp} {rest : List MapOp} (h : WFQ (e :: rest)) : WFQ rest := by
  constructor
  · intro x hx; exact h.tail x (List.mem_of_mem_tail hx)
  · have := h.keys
    simp only [keysOfQ, List.filterMap_cons] at this
    cases hk : e.key? with
    | none => simpa [hk, keysOfQ] using this
    | some k => simp [hk] at this; exact this.2

theorem mq_refines (m : KMap) : ∀ (ops : List MQOp) (s : MQSys), WFQ s.queue →
    applyAll m (s.popped ++ s.queue) = applyAll m s.pushed →
    WFQ (mqRun s ops).queue ∧
    applyAll m ((mqRun s ops).popped ++ (mqRun s ops).queue) = applyAll m (mqRun s ops).pushed := by
  intro ops
  induction ops with
  | nil => intro s h1 h2; exact ⟨h1, h2⟩
  | cons op rest ih =>
    intro s h1 h2
    simp only [mqRun, List.foldl]
    cases op with
    | push o =>
      apply ih
      · exact wfq_mqPush _ _ h1
      · simp only [mqStep]
        rw [applyAll_append, applyAll_mqPush _ _ _ h1, ← applyAll_append, ← List.append_assoc, applyAll_append, h2,
          applyAll_append]
    | pop =>
      cases hq : s.queue with
      | nil =>
        apply ih
        · simp only [mqStep, hq]; rw [hq] at h1; exact h1
        · simp only [mqStep, hq]; rw [hq] at h2; exact h2
      | cons e r =>
        apply ih
        · simp only [mqStep, hq]; rw [hq] at h1; exact wfq_tail h1
        · simp only [mqStep, hq]
          rw [hq] at h2
          simpa [List.append_assoc] using h2

end SwimVerif.WT
