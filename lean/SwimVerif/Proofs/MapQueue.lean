import SwimVerif.Model.WriteTask

set_option linter.unusedSimpArgs false
set_option linter.unusedVariables false
namespace SwimVerif.WT

/-! ### The coalescing map queue refines "apply every operation in order" (C02, runtime side) -/

abbrev KMap := Nat → Option Bytes

def applyOp (m : KMap) : MapOp → KMap
  | .upd k v => fun x => if x = k then some v else m x
  | .rem k => fun x => if x = k then none else m x
  | .clear => fun _ => none

def applyAll (m : KMap) (ops : List MapOp) : KMap := ops.foldl applyOp m

theorem applyAll_append (m : KMap) (a b : List MapOp) : applyAll m (a ++ b) = applyAll (applyAll m a) b := by
  simp [applyAll, List.foldl_append]

/-- the entry for key `x` in a queue, if any -/
def findKey (x : Nat) : List MapOp → Option MapOp
  | [] => none
  | e :: rest => if e.key? = some x then some e else findKey x rest

def keysOfQ (q : List MapOp) : List Nat := q.filterMap MapOp.key?

def NoClear (q : List MapOp) : Prop := ∀ e, e ∈ q → e ≠ MapOp.clear

/-- the value an entry gives to its key -/
def entryVal : MapOp → Option Bytes
  | .upd _ v => some v
  | _ => none

theorem findKey_none_of_not_mem {x : Nat} {q : List MapOp} (h : x ∉ keysOfQ q) : findKey x q = none := by
  induction q with
  | nil => rfl
  | cons e rest ih =>
    simp only [keysOfQ, List.filterMap_cons] at h
    simp only [findKey]
    cases hk : e.key? with
    | none => simp [hk] at h ⊢; exact ih h
    | some k =>
      simp [hk] at h ⊢
      have : ¬ k = x := fun hh => h.1 hh.symm
      simp [this]; exact ih h.2

/-- On a queue without `clear` and with distinct keys the fold is: the entry's value for a queued key, the base
map's value otherwise. -/
theorem applyAll_char : ∀ (q : List MapOp) (m : KMap), NoClear q → (keysOfQ q).Nodup → ∀ x,
    applyAll m q x = match findKey x q with
      | some e => entryVal e
      | none => m x := by
  intro q
  induction q with
  | nil => intro m _ _ x; rfl
  | cons e rest ih =>
    intro m hnc hnd x
    have hnc' : NoClear rest := fun e' he' => hnc e' (List.mem_cons_of_mem _ he')
    cases e with
    | clear => exact absurd rfl (hnc .clear List.mem_cons_self)
    | upd k v =>
      simp only [keysOfQ, List.filterMap_cons, MapOp.key?, List.nodup_cons] at hnd
      simp only [applyAll, List.foldl_cons]
      have := ih (applyOp m (.upd k v)) hnc' hnd.2 x
      simp only [applyAll] at this
      rw [this]
      simp only [findKey, MapOp.key?]
      by_cases hx : k = x
      · subst hx
        have hn := findKey_none_of_not_mem hnd.1
        simp [hn, applyOp, entryVal]
      · have : ¬ (some k = some x) := fun hh => hx (Option.some.inj hh)
        simp only [this, if_false]
        cases findKey x rest with
        | some e' => rfl
        | none => simp [applyOp, Ne.symm hx]
    | rem k =>
      simp only [keysOfQ, List.filterMap_cons, MapOp.key?, List.nodup_cons] at hnd
      simp only [applyAll, List.foldl_cons]
      have := ih (applyOp m (.rem k)) hnc' hnd.2 x
      simp only [applyAll] at this
      rw [this]
      simp only [findKey, MapOp.key?]
      by_cases hx : k = x
      · subst hx
        have hn := findKey_none_of_not_mem hnd.1
        simp [hn, applyOp, entryVal]
      · have : ¬ (some k = some x) := fun hh => hx (Option.some.inj hh)
        simp only [this, if_false]
        cases findKey x rest with
        | some e' => rfl
        | none => simp [applyOp, Ne.symm hx]

/-- Well-formed coalescing queue: `clear` only at the head, at most one entry per key. -/
structure WFQ (q : List MapOp) : Prop where
  tail : NoClear q.tail
  keys : (keysOfQ q).Nodup

theorem wfq_nil : WFQ [] := ⟨fun e h => by simp at h, by simp [keysOfQ]⟩

end SwimVerif.WT
