/-
Helper lemmas for C07 (write task): the coalescing queue seen per key, and the order invariant
"what is on the wire or waiting in the back-pressure buffer is, per key, a subsequence of what was issued,
ending with the same command".
-/
import SwimVerif.Model.DownlinkRt

set_option linter.unusedSimpArgs false
set_option linter.unusedVariables false
namespace SwimVerif.DL
open WT (mqPush mqReplace)

/-! ### The map queue, projected on one key (clears are relevant to every key) -/

def selOp (k : Option Nat) (op : MapOp) : Bool := op == .clear || op.key? == k

def projOp (k : Option Nat) (q : List MapOp) : List MapOp := q.filter (selOp k)

/-- No `clear` except possibly at the head, at most one entry per key. -/
def QInv (q : List MapOp) : Prop := (∀ e ∈ q.tail, e ≠ WT.MapOp.clear) ∧ (q.filterMap WT.MapOp.key?).Nodup

def NC (q : List MapOp) : Prop := ∀ e ∈ q, e ≠ WT.MapOp.clear

theorem selOp_keyed_other {op : MapOp} {k : Nat} {k' : Option Nat} (h : op.key? = some k) (hk : k' ≠ some k) :
    selOp k' op = false := by
  cases op <;> simp_all [selOp, WT.MapOp.key?] <;> (intro h2; exact hk h2.symm)

theorem selOp_keyed_same {op : MapOp} {k : Nat} (h : op.key? = some k) : selOp (some k) op = true := by
  simp [selOp, h]

theorem selOp_nc_ne {e : MapOp} {k : Nat} (hc : e ≠ .clear) (hk : ¬ e.key? = some k) : selOp (some k) e = false := by
  simp [selOp, hc, hk]

/-- Replacing an entry of key `k` does not change the projection on any other key. -/
theorem mqReplace_other {op : MapOp} {k : Nat} {k' : Option Nat} (h : op.key? = some k) (hk : k' ≠ some k) :
    ∀ (q q' : List MapOp), mqReplace op k q = some q' → projOp k' q' = projOp k' q := by
  intro q
  induction q with
  | nil => intro q' hq; simp [mqReplace] at hq
  | cons e rest ih =>
    intro q' hq
    unfold mqReplace at hq
    split at hq
    · rename_i he
      cases hq
      simp [projOp, List.filter_cons, selOp_keyed_other h hk, selOp_keyed_other he hk]
    · split at hq
      · rename_i r hr
        cases hq
        simp only [projOp, List.filter_cons] at ih ⊢
        rw [ih r hr]
      · cases hq

theorem mqPush_other {op : MapOp} {k : Nat} {k' : Option Nat} (h : op.key? = some k) (hk : k' ≠ some k)
    (q : List MapOp) : projOp k' (mqPush q op) = projOp k' q := by
  unfold mqPush
  simp only [h]
  split
  · rename_i q' hq; exact mqReplace_other h hk q q' hq
  · simp [projOp, List.filter_append, selOp_keyed_other h hk]

/-- In a clear-free, duplicate-free list, replacing the entry of key `k`. -/
theorem mqReplace_same {op : MapOp} {k : Nat} (h : op.key? = some k) :
    ∀ (q q' : List MapOp), NC q → (q.filterMap WT.MapOp.key?).Nodup → mqReplace op k q = some q' →
      projOp (some k) q' = [op] ∧ (∃ old, projOp (some k) q = [old]) ∧ NC q' ∧
        q'.filterMap WT.MapOp.key? = q.filterMap WT.MapOp.key? := by
  intro q
  induction q with
  | nil => intro q' _ _ hq; simp [mqReplace] at hq
  | cons e rest ih =>
    intro q' hnc hnd hq
    have hnc' : NC rest := fun x hx => hnc x (List.mem_cons_of_mem _ hx)
    unfold mqReplace at hq
    split at hq
    · rename_i he
      cases hq
      -- the rest has neither a clear nor key `k`
      have hrest : projOp (some k) rest = [] := by
        simp only [projOp, List.filter_eq_nil_iff]
        intro x hx
        have hxk : ¬ x.key? = some k := by
          intro hxk
          simp only [List.filterMap_cons, he, List.nodup_cons] at hnd
          exact hnd.1 (List.mem_filterMap.mpr ⟨x, hx, hxk⟩)
        simp [selOp_nc_ne (hnc' x hx) hxk]
      refine ⟨?_, ⟨e, ?_⟩, ?_, ?_⟩
      · simp only [projOp, List.filter_cons, selOp_keyed_same h, ↓reduceIte] at hrest ⊢
        rw [hrest]
      · simp only [projOp, List.filter_cons, selOp_keyed_same he, ↓reduceIte] at hrest ⊢
        rw [hrest]
      · intro x hx
        rcases List.mem_cons.mp hx with hx | hx
        · subst hx; intro hcl; rw [hcl] at h; simp [WT.MapOp.key?] at h
        · exact hnc' x hx
      · simp [List.filterMap_cons, he, h]
    · rename_i he
      split at hq
      · rename_i r hr
        cases hq
        have hnd' : (rest.filterMap WT.MapOp.key?).Nodup := by
          cases hek : e.key? with
          | none => simpa [List.filterMap_cons, hek] using hnd
          | some ke => simp only [List.filterMap_cons, hek, List.nodup_cons] at hnd; exact hnd.2
        obtain ⟨h1, ⟨old, h2⟩, h3, h4⟩ := ih r hnc' hnd' hr
        have hsel : selOp (some k) e = false := selOp_nc_ne (hnc e (by simp)) he
        refine ⟨?_, ⟨old, ?_⟩, ?_, ?_⟩
        · simp only [projOp, List.filter_cons, hsel] at h1 ⊢; simpa using h1
        · simp only [projOp, List.filter_cons, hsel] at h2 ⊢; simpa using h2
        · intro x hx
          rcases List.mem_cons.mp hx with hx | hx
          · subst hx; exact hnc _ (by simp)
          · exact h3 x hx
        · simp only [List.filterMap_cons]; rw [h4]
      · cases hq

theorem mqReplace_none {op : MapOp} {k : Nat} :
    ∀ (q : List MapOp), mqReplace op k q = none → ∀ x ∈ q, ¬ x.key? = some k := by
  intro q
  induction q with
  | nil => intro _ x hx; simp at hx
  | cons e rest ih =>
    intro hq x hx
    unfold mqReplace at hq
    split at hq
    · cases hq
    · rename_i he
      split at hq
      · cases hq
      · rename_i hr
        rcases List.mem_cons.mp hx with hx | hx
        · subst hx; exact he
        · exact ih hr x hx

/-- Pushing a keyed operation: the projection on its key keeps a prefix `A` and ends with the new operation. -/
theorem mqPush_same {op : MapOp} {k : Nat} (h : op.key? = some k) (q : List MapOp) (hq : QInv q) :
    (∃ A old, projOp (some k) q = A ++ old ∧ projOp (some k) (mqPush q op) = A ++ [op]) ∧ QInv (mqPush q op) := by
  have hopnc : op ≠ .clear := by intro hc; rw [hc] at h; simp [WT.MapOp.key?] at h
  -- generic statement for a clear-free, duplicate-free list
  have core : ∀ r : List MapOp, NC r → (r.filterMap WT.MapOp.key?).Nodup →
      (∃ old, projOp (some k) r = old ∧ projOp (some k) (mqPush r op) = [op]) ∧ NC (mqPush r op) ∧
        ((mqPush r op).filterMap WT.MapOp.key?).Nodup := by
    intro r hnc hnd
    unfold mqPush
    simp only [h]
    split
    · rename_i r' hr
      obtain ⟨h1, ⟨old, h2⟩, h3, h4⟩ := mqReplace_same h r r' hnc hnd hr
      exact ⟨⟨_, rfl, h1⟩, h3, by rw [h4]; exact hnd⟩
    · rename_i hr
      have hno := mqReplace_none r hr
      have hproj : projOp (some k) r = [] := by
        simp only [projOp, List.filter_eq_nil_iff]
        intro x hx; simp [selOp_nc_ne (hnc x hx) (hno x hx)]
      refine ⟨⟨_, rfl, ?_⟩, ?_, ?_⟩
      · simp only [projOp, List.filter_append] at hproj ⊢
        rw [hproj]; simp [selOp_keyed_same h]
      · intro x hx
        rcases List.mem_append.mp hx with hx | hx
        · exact hnc x hx
        · simp at hx; subst hx; exact hopnc
      · simp only [List.filterMap_append, List.filterMap_cons, h, List.filterMap_nil]
        rw [List.nodup_append]
        refine ⟨hnd, by simp, ?_⟩
        intro a ha b hb
        simp at hb; subst hb
        intro hab; subst hab
        obtain ⟨x, hx, hxk⟩ := List.mem_filterMap.mp ha
        exact hno x hx hxk
  cases q with
  | nil =>
    obtain ⟨⟨old, h1, h2⟩, h3, h4⟩ := core [] (by intro x hx; simp at hx) (by simp)
    refine ⟨⟨[], old, by simpa using h1, by simpa using h2⟩, ?_, h4⟩
    intro e he; exact h3 e (List.mem_of_mem_tail he)
  | cons e rest =>
    have hncr : NC rest := fun x hx => hq.1 x (by simpa using hx)
    by_cases hec : e = .clear
    · subst hec
      have hndr : (rest.filterMap WT.MapOp.key?).Nodup := by simpa [List.filterMap_cons, WT.MapOp.key?] using hq.2
      obtain ⟨⟨old, h1, h2⟩, h3, h4⟩ := core rest hncr hndr
      -- pushing below a head `clear` is pushing into the rest
      have hpush : mqPush (WT.MapOp.clear :: rest) op = WT.MapOp.clear :: mqPush rest op := by
        unfold mqPush
        simp only [h]
        conv => lhs; unfold mqReplace
        simp only [WT.MapOp.key?, reduceCtorEq, ↓reduceIte]
        cases hr : mqReplace op k rest <;> simp
      rw [hpush]
      refine ⟨⟨[.clear], old, ?_, ?_⟩, ?_, ?_⟩
      · simp only [projOp, List.filter_cons] at h1 ⊢; simp [selOp, h1]
      · simp only [projOp, List.filter_cons] at h2 ⊢; simp [selOp, h2]
      · intro x hx; exact h3 x (by simpa using hx)
      · simpa [List.filterMap_cons, WT.MapOp.key?] using h4
    · have hnc : NC (e :: rest) := by
        intro x hx
        rcases List.mem_cons.mp hx with hx | hx
        · subst hx; exact hec
        · exact hncr x hx
      obtain ⟨⟨old, h1, h2⟩, h3, h4⟩ := core (e :: rest) hnc hq.2
      refine ⟨⟨[], old, by simpa using h1, by simpa using h2⟩, ?_, h4⟩
      intro x hx; exact h3 x (List.mem_of_mem_tail hx)

theorem dl_mem_mqReplace (op : MapOp) (k : Nat) : ∀ (q q' : List MapOp), mqReplace op k q = some q' →
    ∀ x, x ∈ q' → x ∈ q ∨ x = op := by
  intro q
  induction q with
  | nil => intro q' h; simp [mqReplace] at h
  | cons e rest ih =>
    intro q' h x hx
    unfold mqReplace at h
    split at h
    · cases h
      rcases List.mem_cons.mp hx with rfl | hm
      · right; rfl
      · left; exact List.mem_cons_of_mem _ hm
    · split at h
      · rename_i r hr
        cases h
        rcases List.mem_cons.mp hx with rfl | hm
        · left; exact List.mem_cons_self
        · rcases ih r hr x hm with h1 | h1
          · left; exact List.mem_cons_of_mem _ h1
          · right; exact h1
      · cases h

theorem dl_mem_mqPush (q : List MapOp) (op x : MapOp) (h : x ∈ mqPush q op) : x ∈ q ∨ x = op := by
  unfold mqPush at h
  split at h
  · rename_i hk
    have : op = .clear := by cases op <;> simp_all [WT.MapOp.key?]
    subst this
    simp at h; right; exact h
  · rename_i k hk
    split at h
    · rename_i q' hq; exact dl_mem_mqReplace op k q q' hq x h
    · rcases List.mem_append.mp h with h1 | h1
      · left; exact h1
      · right; simpa using h1

theorem qinv_nil : QInv [] := ⟨by intro e he; simp at he, by simp⟩
theorem qinv_clear : QInv [WT.MapOp.clear] := ⟨by intro e he; simp at he, by decide⟩

theorem mqPush_clear (q : List MapOp) : mqPush q .clear = [.clear] := by simp [mqPush, WT.MapOp.key?]

theorem qinv_push (q : List MapOp) (op : MapOp) (h : QInv q) : QInv (mqPush q op) := by
  cases hk : op.key? with
  | none =>
    have : op = .clear := by cases op <;> simp_all [WT.MapOp.key?]
    subst this; rw [mqPush_clear]; exact qinv_clear
  | some k => exact (mqPush_same hk q h).2


/-! ### Commands: projection on a key, the relation between what was issued and what is on the wire or waiting -/

def cmdSel (k : Option Nat) : Cmd → Bool
  | .val _ => true
  | .mp op => selOp k op

theorem projKey_eq (k : Option Nat) (cs : List Cmd) : projKey k cs = cs.filter (cmdSel k) := by
  unfold projKey
  congr 1
  funext c
  cases c with
  | val b => rfl
  | mp op => cases op <;> simp [cmdSel, selOp, WT.MapOp.key?]

theorem projKey_append (k : Option Nat) (a b : List Cmd) : projKey k (a ++ b) = projKey k a ++ projKey k b := by
  simp [projKey_eq]

theorem projKey_map_mp (k : Option Nat) (q : List MapOp) : projKey k (q.map Cmd.mp) = (projOp k q).map Cmd.mp := by
  simp only [projKey_eq, projOp]
  induction q with
  | nil => rfl
  | cons e rest ih =>
    simp only [List.map_cons, List.filter_cons, cmdSel, ih]
    split <;> simp

theorem projKey_single (k : Option Nat) (c : Cmd) : projKey k [c] = if cmdSel k c then [c] else [] := by
  simp [projKey_eq, List.filter_cons]

/-- What is on the wire followed by what waits in the back-pressure buffer. -/
def line (s : WSt) : List Cmd := sentCmds s ++ pendingCmds s

/-- Per key (clears count for every key; a value command for every key): a subsequence ending with the same command. -/
def Rel (issued ln : List Cmd) : Prop :=
  ∀ k : Option Nat, (projKey k ln).Sublist (projKey k issued) ∧ (projKey k ln).getLast? = (projKey k issued).getLast?

theorem rel_nil : Rel [] [] := by intro k; simp [projKey]

/-- Appending the same command to both. -/
theorem rel_snoc {issued ln : List Cmd} (c : Cmd) (h : Rel issued ln) : Rel (issued ++ [c]) (ln ++ [c]) := by
  intro k
  rw [projKey_append, projKey_append, projKey_single]
  by_cases hc : cmdSel k c = true
  · simp only [hc, ↓reduceIte]
    exact ⟨List.Sublist.append (h k).1 (List.Sublist.refl _), by simp⟩
  · simp only [hc, Bool.false_eq_true, ↓reduceIte, List.append_nil]
    exact h k

/-- Replacing the waiting part `old` by a command selected for the key. -/
theorem rel_replace_tail {issued pre old : List Cmd} (c : Cmd) (k : Option Nat)
    (h : (projKey k (pre ++ old)).Sublist (projKey k issued)) (hc : cmdSel k c = true) :
    (projKey k (pre ++ [c])).Sublist (projKey k (issued ++ [c])) ∧
      (projKey k (pre ++ [c])).getLast? = (projKey k (issued ++ [c])).getLast? := by
  rw [projKey_append, projKey_append, projKey_single, hc]
  rw [projKey_append] at h
  refine ⟨List.Sublist.append ?_ (List.Sublist.refl _), by simp⟩
  exact List.Sublist.trans (List.sublist_append_left _ _) h

/-! ### The invariant of the write task -/

def cmdIsMap : Cmd → Bool
  | .mp _ => true
  | .val _ => false

structure WInv (fl : Bool) (s : WSt) : Prop where
  quiet : s.mode = .idle ∨ s.mode = .linking → s.bpVal = none ∧ s.bpMap = []
  q : QInv s.bpMap
  homog : if fl then s.bpVal = none else s.bpMap = []
  rel : Rel s.issued (line s)
  mem : ∀ c ∈ line s, c ∈ s.issued
  flav : ∀ c ∈ s.issued, cmdIsMap c = fl

theorem winv_same {fl : Bool} {s t : WSt} (h : WInv fl s) (hI : t.issued = s.issued) (hS : t.sent = s.sent)
    (hV : t.bpVal = s.bpVal) (hM : t.bpMap = s.bpMap)
    (hq : t.mode = .idle ∨ t.mode = .linking → s.mode = .idle ∨ s.mode = .linking) : WInv fl t := by
  have hl : line t = line s := by simp [line, sentCmds, pendingCmds, hS, hV, hM]
  refine ⟨fun hm => ?_, ?_, ?_, ?_, ?_, ?_⟩
  · rw [hV, hM]; exact h.quiet (hq hm)
  · rw [hM]; exact h.q
  · rw [hV, hM]; exact h.homog
  · rw [hl, hI]; exact h.rel
  · rw [hl, hI]; exact h.mem
  · rw [hI]; exact h.flav

@[simp] theorem encode_issued (s : WSt) (f : Frame) : (encode s f).issued = s.issued := rfl
@[simp] theorem encode_bpVal (s : WSt) (f : Frame) : (encode s f).bpVal = s.bpVal := rfl
@[simp] theorem encode_bpMap (s : WSt) (f : Frame) : (encode s f).bpMap = s.bpMap := rfl
@[simp] theorem encode_mode (s : WSt) (f : Frame) : (encode s f).mode = s.mode := rfl
@[simp] theorem encode_sent (s : WSt) (f : Frame) : (encode s f).sent = s.sent ++ [f] := rfl

theorem sentCmds_encode_cmd (s : WSt) (c : Cmd) : sentCmds (encode s (.cmd c)) = sentCmds s ++ [c] := by
  simp [sentCmds, List.filterMap_append]

theorem sentCmds_encode_sync (s : WSt) : sentCmds (encode s .sync) = sentCmds s := by
  simp [sentCmds, List.filterMap_append]

theorem winv_encode_sync {fl : Bool} {s : WSt} (h : WInv fl s) : WInv fl (encode s .sync) := by
  have : line (encode s .sync) = line s := by
    simp only [line, sentCmds_encode_sync]; rfl
  exact ⟨fun hm => h.quiet hm, h.q, h.homog, by rw [this]; exact h.rel, by rw [this]; exact h.mem, h.flav⟩

theorem encodeAll_fields (s : WSt) (fs : List Frame) :
    (encodeAll s fs).issued = s.issued ∧ (encodeAll s fs).mode = s.mode ∧ (encodeAll s fs).bpVal = s.bpVal
      ∧ (encodeAll s fs).bpMap = s.bpMap := by
  induction fs generalizing s with
  | nil => exact ⟨rfl, rfl, rfl, rfl⟩
  | cons f fs ih => simp only [encodeAll]; have := ih (encode s f); simpa using this

theorem sentCmds_encodeAll (s : WSt) (cs : List Cmd) :
    sentCmds (encodeAll s (cs.map Frame.cmd)) = sentCmds s ++ cs := by
  induction cs generalizing s with
  | nil => simp [encodeAll]
  | cons c cs ih => simp only [List.map_cons, encodeAll]; rw [ih, sentCmds_encode_cmd]; simp

theorem pending_nil {s : WSt} (h : pendingCmds s = []) : s.bpVal = none ∧ s.bpMap = [] := by
  unfold pendingCmds at h
  cases hv : s.bpVal with
  | none => simpa [hv] using h
  | some b => simp [hv] at h

/-- `drainBp` followed by the return to `Idle`. -/
theorem winv_drain {fl : Bool} {s : WSt} (h : WInv fl s) : WInv fl { drainBp s with mode := .idle } := by
  unfold drainBp
  by_cases hp : (pendingCmds s).isEmpty = true
  · have hp' : pendingCmds s = [] := by simpa using hp
    obtain ⟨hv, hm⟩ := pending_nil hp'
    simp only [hp, ↓reduceIte]
    have : line { s with mode := WMode.idle } = line s := rfl
    exact ⟨fun _ => ⟨hv, hm⟩, h.q, h.homog, by rw [this]; exact h.rel, by rw [this]; exact h.mem, h.flav⟩
  · simp only [hp, Bool.false_eq_true, ↓reduceIte]
    obtain ⟨hI, _, _, _⟩ := encodeAll_fields s ((pendingCmds s).map Frame.cmd)
    have hl : ∀ t : WSt, t.sent = (encodeAll s ((pendingCmds s).map Frame.cmd)).sent → t.bpVal = none →
        t.bpMap = [] → line t = line s := by
      intro t hs hv hm
      have h1 : sentCmds t = sentCmds (encodeAll s ((pendingCmds s).map Frame.cmd)) := by simp [sentCmds, hs]
      simp only [line, h1, sentCmds_encodeAll, pendingCmds, hv, hm, List.map_nil, List.append_nil]
    have hl' := hl { encodeAll s ((pendingCmds s).map Frame.cmd) with bpVal := none, bpMap := [], flushed := false,
                                                                      mode := WMode.idle } rfl rfl rfl
    refine ⟨fun _ => ⟨rfl, rfl⟩, qinv_nil, by cases fl <;> rfl, ?_, ?_, ?_⟩
    · rw [hl']
      show Rel (encodeAll s ((pendingCmds s).map Frame.cmd)).issued (line s)
      rw [hI]; exact h.rel
    · rw [hl']
      show ∀ c ∈ line s, c ∈ (encodeAll s ((pendingCmds s).map Frame.cmd)).issued
      rw [hI]; exact h.mem
    · show ∀ c ∈ (encodeAll s ((pendingCmds s).map Frame.cmd)).issued, cmdIsMap c = fl
      rw [hI]; exact h.flav

theorem winv_stop {fl : Bool} {s : WSt} (h : WInv fl s) : WInv fl (stopW s) :=
  winv_same h rfl rfl rfl rfl (by intro hm; simp [stopW] at hm)

theorem winv_moveBytes {fl : Bool} {s : WSt} (h : WInv fl s) : WInv fl (moveBytes s) :=
  winv_same h rfl rfl rfl rfl (fun hm => hm)

theorem winv_wnorm {fl : Bool} {s : WSt} (h : WInv fl s) : WInv fl (wnorm s) := by
  unfold wnorm
  split
  · exact h
  · split
    · exact h
    · exact winv_moveBytes h


theorem sub_snoc {X O Y : List Cmd} (c : Cmd) (h : (X ++ O).Sublist Y) :
    (X ++ [c]).Sublist (Y ++ [c]) ∧ (X ++ [c]).getLast? = (Y ++ [c]).getLast? :=
  ⟨List.Sublist.append (List.Sublist.trans (List.sublist_append_left _ _) h) (List.Sublist.refl _), by simp⟩

theorem sentCmds_congr {s t : WSt} (h : t.sent = s.sent) : sentCmds t = sentCmds s := by simp [sentCmds, h]

/-- `push_operation` of a freshly issued command (the task is, or becomes, `Writing`). -/
theorem winv_push {fl : Bool} {s t : WSt} (c : Cmd) (h : WInv fl s) (hc : cmdIsMap c = fl)
    (hI : t.issued = s.issued ++ [c]) (hS : t.sent = s.sent) (hV : t.bpVal = (pushOp s c).bpVal)
    (hM : t.bpMap = (pushOp s c).bpMap) (hmode : t.mode = .writing) : WInv fl t := by
  have hq : t.mode = .idle ∨ t.mode = .linking → t.bpVal = none ∧ t.bpMap = [] := by
    intro hm; rw [hmode] at hm; simp at hm
  cases c with
  | val b =>
    have hfl : fl = false := by simpa [cmdIsMap] using hc.symm
    subst hfl
    have hm0 : s.bpMap = [] := by simpa using h.homog
    have hV' : t.bpVal = some b := by simpa [pushOp] using hV
    have hM' : t.bpMap = [] := by simpa [pushOp, hm0] using hM
    have hl : line t = sentCmds s ++ [Cmd.val b] := by
      simp [line, sentCmds_congr hS, pendingCmds, hV', hM']
    have hflav : ∀ c ∈ t.issued, cmdIsMap c = false := by
      rw [hI]; intro x hx
      rcases List.mem_append.mp hx with hx | hx
      · exact h.flav x hx
      · simp at hx; subst hx; rfl
    have hmem : ∀ x ∈ line t, x ∈ t.issued := by
      rw [hl, hI]; intro x hx
      rcases List.mem_append.mp hx with hx | hx
      · exact List.mem_append_left _ (h.mem x (List.mem_append_left _ hx))
      · exact List.mem_append_right _ hx
    refine ⟨hq, by rw [hM']; exact qinv_nil, by simpa using hM', ?_, hmem, hflav⟩
    rw [hl, hI]
    intro k
    exact rel_replace_tail (old := pendingCmds s) (Cmd.val b) k (h.rel k).1 rfl
  | mp op =>
    have hfl : fl = true := by simpa [cmdIsMap] using hc.symm
    subst hfl
    have hv0 : s.bpVal = none := by simpa using h.homog
    have hV' : t.bpVal = none := by simpa [pushOp, hv0] using hV
    have hM' : t.bpMap = mqPush s.bpMap op := by simpa [pushOp] using hM
    have hl : line t = sentCmds s ++ (mqPush s.bpMap op).map Cmd.mp := by
      simp [line, sentCmds_congr hS, pendingCmds, hV', hM']
    have hls : line s = sentCmds s ++ s.bpMap.map Cmd.mp := by simp [line, pendingCmds, hv0]
    have hflav : ∀ c ∈ t.issued, cmdIsMap c = true := by
      rw [hI]; intro x hx
      rcases List.mem_append.mp hx with hx | hx
      · exact h.flav x hx
      · simp at hx; subst hx; rfl
    have hmem : ∀ x ∈ line t, x ∈ t.issued := by
      rw [hl, hI]; intro x hx
      rcases List.mem_append.mp hx with hx | hx
      · exact List.mem_append_left _ (h.mem x (by rw [hls]; exact List.mem_append_left _ hx))
      · obtain ⟨o, ho, rfl⟩ := List.mem_map.mp hx
        rcases dl_mem_mqPush _ _ _ ho with ho | ho
        · exact List.mem_append_left _ (h.mem _ (by rw [hls]; exact List.mem_append_right _ (List.mem_map.mpr ⟨o, ho, rfl⟩)))
        · subst ho; exact List.mem_append_right _ (by simp)
    refine ⟨hq, by rw [hM']; exact qinv_push _ _ h.q, by simpa using hV', ?_, hmem, hflav⟩
    rw [hl, hI]
    intro k
    have hrel := h.rel k
    rw [hls, projKey_append, projKey_map_mp] at hrel
    rw [projKey_append, projKey_map_mp, projKey_append, projKey_single]
    cases hk : op.key? with
    | none =>
      have hop : op = .clear := by cases op <;> simp_all [WT.MapOp.key?]
      subst hop
      rw [mqPush_clear]
      have hsel : cmdSel k (Cmd.mp WT.MapOp.clear) = true := by simp [cmdSel, selOp]
      have hp : projOp k [WT.MapOp.clear] = [WT.MapOp.clear] := by simp [projOp, selOp]
      simp only [hsel, ↓reduceIte, hp, List.map_cons, List.map_nil]
      exact sub_snoc _ hrel.1
    | some k0 =>
      by_cases hkk : k = some k0
      · subst hkk
        obtain ⟨⟨A, old, h1, h2⟩, _⟩ := mqPush_same hk s.bpMap h.q
        have hsel : cmdSel (some k0) (Cmd.mp op) = true := by simp [cmdSel, selOp_keyed_same hk]
        rw [h1] at hrel
        simp only [hsel, ↓reduceIte, h2, List.map_append, List.map_cons, List.map_nil]
        have := sub_snoc (X := projKey (some k0) (sentCmds s) ++ A.map Cmd.mp) (O := old.map Cmd.mp) (Cmd.mp op)
          (by simpa [List.append_assoc] using hrel.1)
        simpa [List.append_assoc] using this
      · have hsel : cmdSel k (Cmd.mp op) = false := by simp [cmdSel, selOp_keyed_other hk hkk]
        simp only [hsel, Bool.false_eq_true, ↓reduceIte, List.append_nil, mqPush_other hk hkk]
        exact hrel

/-- `write_direct` of a freshly issued command while nothing is waiting. -/
theorem winv_direct {fl : Bool} {s t : WSt} (c : Cmd) (h : WInv fl s) (hc : cmdIsMap c = fl)
    (hq : s.bpVal = none ∧ s.bpMap = [])
    (hI : t.issued = s.issued ++ [c]) (hS : t.sent = s.sent ++ [.cmd c]) (hV : t.bpVal = s.bpVal)
    (hM : t.bpMap = s.bpMap) : WInv fl t := by
  have hl : line t = line s ++ [c] := by
    have h1 : sentCmds t = sentCmds s ++ [c] := by simp [sentCmds, hS, List.filterMap_append]
    simp [line, h1, pendingCmds, hV, hM, hq.1, hq.2]
  refine ⟨fun _ => by rw [hV, hM]; exact hq, by rw [hM]; exact h.q, by rw [hV, hM]; exact h.homog, ?_, ?_, ?_⟩
  · rw [hl, hI]; exact rel_snoc c h.rel
  · rw [hl, hI]; intro x hx
    rcases List.mem_append.mp hx with hx | hx
    · exact List.mem_append_left _ (h.mem x hx)
    · exact List.mem_append_right _ hx
  · rw [hI]; intro x hx
    rcases List.mem_append.mp hx with hx | hx
    · exact h.flav x hx
    · simp at hx; subst hx; exact hc


theorem winv_same' {fl : Bool} {s t : WSt} (h : WInv fl s) (hI : t.issued = s.issued)
    (hS : sentCmds t = sentCmds s) (hV : t.bpVal = s.bpVal) (hM : t.bpMap = s.bpMap)
    (hq : t.mode = .idle ∨ t.mode = .linking → s.mode = .idle ∨ s.mode = .linking) : WInv fl t := by
  have hl : line t = line s := by simp [line, pendingCmds, hS, hV, hM]
  refine ⟨fun hm => ?_, ?_, ?_, ?_, ?_, ?_⟩
  · rw [hV, hM]; exact h.quiet (hq hm)
  · rw [hM]; exact h.q
  · rw [hV, hM]; exact h.homog
  · rw [hl, hI]; exact h.rel
  · rw [hl, hI]; exact h.mem
  · rw [hI]; exact h.flav

theorem winv_wmicro {fl : Bool} {s s' : WSt} (h : WInv fl s) (hm : wmicro s = some s') : WInv fl s' := by
  unfold wmicro at hm
  repeat' (split at hm)
  all_goals first
    | (cases hm; done)
    | (cases hm; exact winv_stop h)
    | (cases hm; exact winv_drain h)
    | (cases hm
       exact winv_same' h rfl (by simp [sentCmds, encode, List.filterMap_append]) rfl rfl (by simp_all [encode]))

theorem winv_wsettle {fl : Bool} (n : Nat) : ∀ {s : WSt}, WInv fl s → WInv fl (wsettle n s) := by
  induction n with
  | zero => intro s h; exact winv_wnorm h
  | succ n ih =>
    intro s h
    simp only [wsettle]
    split
    · rename_i s' hs'; exact ih (winv_wmicro (winv_wnorm h) hs')
    · exact winv_wnorm h


/-- The flavour of the runtime fixes the kind of command its consumers can send. -/
def evOk (fl : Bool) : WEv → Bool
  | .command _ c => cmdIsMap c == fl
  | _ => true

theorem pushOp_fields (s : WSt) (c : Cmd) (l : List Cmd) :
    (pushOp { s with issued := l } c).bpVal = (pushOp s c).bpVal ∧
    (pushOp { s with issued := l } c).bpMap = (pushOp s c).bpMap ∧
    (pushOp { s with issued := l } c).issued = l ∧ (pushOp { s with issued := l } c).sent = s.sent ∧
    (pushOp { s with issued := l } c).mode = s.mode := by
  cases c <;> simp [pushOp]

theorem winv_onCommand {fl : Bool} {s : WSt} (c : Cmd) (h : WInv fl s) (hc : cmdIsMap c = fl) :
    WInv fl (onCommand s c) := by
  unfold onCommand
  split
  · rename_i hmode
    split
    · exact winv_direct c h hc (h.quiet (Or.inl hmode)) rfl rfl rfl rfl
    · split
      · exact winv_stop h
      · obtain ⟨h1, h2, h3, h4, _⟩ := pushOp_fields s c (s.issued ++ [c])
        exact winv_push c h hc h3 h4 h1 h2 rfl
  · rename_i hmode
    obtain ⟨h1, h2, h3, h4, h5⟩ := pushOp_fields s c (s.issued ++ [c])
    exact winv_push c h hc h3 h4 h1 h2 (by rw [h5]; exact hmode)
  · exact h

theorem winv_onProducersEmpty {fl : Bool} {s : WSt} (h : WInv fl s) : WInv fl (onProducersEmpty s) := by
  unfold onProducersEmpty
  split
  · split
    · exact winv_same' h rfl rfl rfl rfl (by simp_all)
    · split
      · exact winv_stop h
      · exact winv_same' h rfl rfl rfl rfl (by simp)
  · exact winv_same' h rfl rfl rfl rfl (by simp_all)
  · exact winv_same' h rfl rfl rfl rfl (by simp_all)

theorem winv_winput {fl : Bool} {s : WSt} (e : WEv) (h : WInv fl s) (he : evOk fl e = true) :
    WInv fl (winput s e).1 := by
  cases e with
  | register id sync => exact winv_same' h rfl rfl rfl rfl (fun hm => hm)
  | command id c =>
    simp only [winput]
    split
    · exact winv_onCommand c h (by simpa [evOk] using he)
    · exact h
  | producerClosed id =>
    simp only [winput]
    split
    · split
      · exact winv_onProducersEmpty h
      · exact winv_same' h rfl rfl rfl rfl (fun hm => hm)
    · exact h
  | drain k => exact winv_same' h rfl rfl rfl rfl (fun hm => hm)
  | sockClose => exact winv_same' h rfl rfl rfl rfl (fun hm => hm)
  | closeReq => exact winv_same' h rfl rfl rfl rfl (fun hm => hm)

theorem winv_wstep {fl : Bool} {s : WSt} (e : WEv) (h : WInv fl s) (he : evOk fl e = true) :
    WInv fl (wstep s e).1 :=
  winv_wsettle _ (winv_winput e h he)

theorem winv_wrun {fl : Bool} (evs : List WEv) : ∀ {s : WSt}, WInv fl s → (∀ e ∈ evs, evOk fl e = true) →
    WInv fl (wrun s evs) := by
  induction evs with
  | nil => intro s h _; exact h
  | cons e es ih =>
    intro s h hok
    exact ih (winv_wstep e h (hok e (by simp))) (fun e' he' => hok e' (List.mem_cons_of_mem _ he'))

theorem winv_init (fl : Bool) (cap hdr : Nat) : WInv fl (winit cap hdr) := by
  have : line (winit cap hdr) = [] := by simp [line, winit, encode, sentCmds, pendingCmds]
  refine ⟨fun _ => ⟨rfl, rfl⟩, qinv_nil, by cases fl <;> rfl, ?_, ?_, ?_⟩
  · rw [this]; exact rel_nil
  · rw [this]; intro c hc; simp at hc
  · intro c hc; simp [winit, encode] at hc


/-! ### The state of the lane is determined, key by key, by the last relevant command -/

def opVal : MapOp → Option Bytes
  | .upd _ v => some v
  | _ => none

theorem lookup_applyOp_sel (m : List (Nat × Bytes)) (op : MapOp) (k : Nat) (h : selOp (some k) op = true) :
    lookupKey (applyOp m op) k = opVal op := by
  cases op with
  | upd k' v =>
    have : k' = k := by simpa [selOp, WT.MapOp.key?] using h
    subst this
    simp [applyOp, lookupKey, opVal]
  | rem k' =>
    have : k' = k := by simpa [selOp, WT.MapOp.key?] using h
    subst this
    simp only [applyOp, lookupKey, opVal]
    have : List.find? (fun p => p.1 == k') (List.filter (fun p => p.1 != k') m) = none := by
      rw [List.find?_eq_none]
      intro x hx
      have := (List.mem_filter.mp hx).2
      simpa using this
    simp [this]
  | clear => simp [applyOp, lookupKey, opVal]

theorem lookup_filter_ne (m : List (Nat × Bytes)) (k k' : Nat) (h : ¬ k' = k) :
    List.find? (fun p => p.1 == k) (List.filter (fun p => p.1 != k') m) = List.find? (fun p => p.1 == k) m := by
  induction m with
  | nil => rfl
  | cons x xs ih =>
    have hkk : ¬ k = k' := fun hh => h hh.symm
    by_cases hx : x.1 = k'
    · have hxk : ¬ x.1 = k := by intro hh; exact h (hx ▸ hh)
      simp [List.filter_cons, hx, List.find?_cons, hxk, ih, h]
    · by_cases hxk : x.1 = k
      · simp [List.filter_cons, hx, List.find?_cons, hxk, hkk]
      · simp [List.filter_cons, hx, List.find?_cons, hxk, ih]

theorem lookup_applyOp_other (m : List (Nat × Bytes)) (op : MapOp) (k : Nat) (h : selOp (some k) op = false) :
    lookupKey (applyOp m op) k = lookupKey m k := by
  cases op with
  | upd k' v =>
    have hk : ¬ k' = k := by simpa [selOp, WT.MapOp.key?] using h
    simp only [applyOp, lookupKey, List.find?_cons]
    have : ((k', v).1 == k) = false := by simpa using hk
    simp only [this]
    rw [lookup_filter_ne m k k' hk]
  | rem k' =>
    have hk : ¬ k' = k := by simpa [selOp, WT.MapOp.key?] using h
    simp only [applyOp, lookupKey]
    rw [lookup_filter_ne m k k' hk]
  | clear => simp [selOp] at h

theorem lookup_fold (k : Nat) : ∀ (ops : List MapOp) (m : List (Nat × Bytes)),
    lookupKey (ops.foldl applyOp m) k =
      match (projOp (some k) ops).getLast? with
      | none => lookupKey m k
      | some op => opVal op := by
  intro ops
  induction ops with
  | nil => intro m; simp [projOp]
  | cons op rest ih =>
    intro m
    simp only [List.foldl_cons, ih, projOp, List.filter_cons]
    by_cases hs : selOp (some k) op = true
    · simp only [hs, ↓reduceIte]
      cases hr : (List.filter (selOp (some k)) rest).getLast? with
      | none =>
        have : List.filter (selOp (some k)) rest = [] := by simpa using hr
        simp [this, lookup_applyOp_sel m op k hs]
      | some x =>
        have hne : List.filter (selOp (some k)) rest ≠ [] := by intro hh; simp [hh] at hr
        simp [List.getLast?_cons_of_ne_nil hne, hr]
    · have hs' : selOp (some k) op = false := by simpa using hs
      simp only [hs', Bool.false_eq_true, ↓reduceIte]
      cases hr : (List.filter (selOp (some k)) rest).getLast? with
      | none => simp [lookup_applyOp_other m op k hs']
      | some x => simp

theorem foldCmds_map_mp (ops : List MapOp) : foldCmds (ops.map Cmd.mp) = ops.foldl applyOp [] := by
  unfold foldCmds
  rw [List.foldl_map]

theorem all_mp_eq_map {cs : List Cmd} (h : ∀ c ∈ cs, cmdIsMap c = true) : ∃ ops : List MapOp, cs = ops.map Cmd.mp := by
  induction cs with
  | nil => exact ⟨[], rfl⟩
  | cons c rest ih =>
    obtain ⟨ops, hops⟩ := ih (fun x hx => h x (List.mem_cons_of_mem _ hx))
    cases c with
    | val b => have := h (.val b) (by simp); simp [cmdIsMap] at this
    | mp op => exact ⟨op :: ops, by simp [hops]⟩

/-- Two map command lists that end, for key `k`, with the same relevant command leave `k` in the same state. -/
theorem lookup_of_last_eq {a b : List Cmd} (ha : ∀ c ∈ a, cmdIsMap c = true) (hb : ∀ c ∈ b, cmdIsMap c = true)
    (k : Nat) (h : (projKey (some k) a).getLast? = (projKey (some k) b).getLast?) :
    lookupKey (foldCmds a) k = lookupKey (foldCmds b) k := by
  obtain ⟨oa, rfl⟩ := all_mp_eq_map ha
  obtain ⟨ob, rfl⟩ := all_mp_eq_map hb
  rw [projKey_map_mp, projKey_map_mp, List.getLast?_map, List.getLast?_map] at h
  rw [foldCmds_map_mp, foldCmds_map_mp, lookup_fold, lookup_fold]
  cases h1 : (projOp (some k) oa).getLast? <;> cases h2 : (projOp (some k) ob).getLast? <;> simp_all

theorem projKey_all_val {cs : List Cmd} (k : Option Nat) (h : ∀ c ∈ cs, cmdIsMap c = false) : projKey k cs = cs := by
  rw [projKey_eq, List.filter_eq_self]
  intro c hc
  cases c with
  | val b => rfl
  | mp op => have := h _ hc; simp [cmdIsMap] at this


/-! ### The sync frame owed to a consumer that registered with SYNC -/

/-- A sync frame is owed only while the task is `Writing` with `NEEDS_SYNC` set (or has stopped), and only to
consumers that are still registered. -/
def OInv (s : WSt) : Prop :=
  (s.owed ≠ [] → (s.mode = .writing ∧ s.needsSync = true) ∨ s.mode = .stopped) ∧ (∀ i ∈ s.owed, i ∈ s.producers)

theorem encodeAll_cmd_owed (s : WSt) (cs : List Cmd) :
    (encodeAll s (cs.map Frame.cmd)).owed = s.owed ∧ (encodeAll s (cs.map Frame.cmd)).producers = s.producers ∧
    (encodeAll s (cs.map Frame.cmd)).needsSync = s.needsSync := by
  induction cs generalizing s with
  | nil => exact ⟨rfl, rfl, rfl⟩
  | cons c cs ih => simp only [List.map_cons, encodeAll]; have := ih (encode s (.cmd c)); simpa [encode] using this

theorem drainBp_owed (s : WSt) :
    (drainBp s).owed = s.owed ∧ (drainBp s).producers = s.producers ∧ (drainBp s).needsSync = s.needsSync := by
  unfold drainBp
  split
  · exact ⟨rfl, rfl, rfl⟩
  · exact encodeAll_cmd_owed s (pendingCmds s)

theorem encodeAll_regQ (s : WSt) (fs : List Frame) : (encodeAll s fs).regQ = s.regQ := by
  induction fs generalizing s with
  | nil => rfl
  | cons f fs ih => simp only [encodeAll]; rw [ih]; rfl

theorem drainBp_regQ (s : WSt) : (drainBp s).regQ = s.regQ := by
  unfold drainBp
  split
  · rfl
  · exact encodeAll_regQ s _

theorem oinv_init (cap hdr : Nat) : OInv (winit cap hdr) := by
  constructor
  · intro h; simp [winit, encode] at h
  · intro i hi; simp [winit, encode] at hi

theorem oinv_wnorm {s : WSt} (h : OInv s) : OInv (wnorm s) := by
  unfold wnorm
  split
  · exact h
  · split
    · exact h
    · exact h

theorem oinv_wmicro {s s' : WSt} (h : OInv s) (hm : wmicro s = some s') : OInv s' := by
  obtain ⟨h1, h2⟩ := h
  have hd := drainBp_owed s
  unfold wmicro at hm
  repeat' (split at hm)
  all_goals first
    | (cases hm; done)
    | (cases hm
       constructor
       · simp_all [encode, stopW]
       · intro i hi
         simp_all [encode, stopW]
         try (rcases hi with hi | hi <;> simp_all))


theorem oinv_wsettle (n : Nat) : ∀ {s : WSt}, OInv s → OInv (wsettle n s) := by
  induction n with
  | zero => intro s h; exact oinv_wnorm h
  | succ n ih =>
    intro s h
    simp only [wsettle]
    split
    · rename_i s' hs'; exact ih (oinv_wmicro (oinv_wnorm h) hs')
    · exact oinv_wnorm h

theorem pushOp_owed (s : WSt) (c : Cmd) :
    (pushOp s c).owed = s.owed ∧ (pushOp s c).producers = s.producers ∧ (pushOp s c).needsSync = s.needsSync ∧
    (pushOp s c).mode = s.mode := by
  cases c <;> simp [pushOp]

theorem oinv_winput {s : WSt} (e : WEv) (h : OInv s) : OInv (winput s e).1 := by
  obtain ⟨h1, h2⟩ := h
  cases e with
  | register id sync => exact ⟨h1, h2⟩
  | drain k => exact ⟨h1, h2⟩
  | sockClose => exact ⟨h1, h2⟩
  | closeReq => exact ⟨h1, h2⟩
  | command id c =>
    simp only [winput]
    split
    · unfold onCommand
      have hp := pushOp_owed { s with issued := s.issued ++ [c] } c
      split
      · split
        · constructor
          · simp_all [encode]
          · intro i hi; simp_all [encode]
        · split
          · constructor
            · simp_all [stopW]
            · intro i hi; simp_all [stopW]
          · constructor
            · simp_all
            · intro i hi; simp_all
      · obtain ⟨p1, p2, p3, p4⟩ := hp
        constructor
        · intro hne; rw [p1] at hne; rw [p4, p3]; exact h1 hne
        · intro i hi; rw [p1] at hi; rw [p2]; exact h2 i hi
      · exact ⟨h1, h2⟩
    · exact ⟨h1, h2⟩
  | producerClosed id =>
    simp only [winput]
    split
    · split
      · unfold onProducersEmpty
        split
        · split
          · exact ⟨by simp, by simp⟩
          · split
            · constructor
              · simp_all [stopW]
              · intro i hi; simp_all [stopW]
            · exact ⟨by simp, by simp⟩
        · exact ⟨by simp, by simp⟩
        · exact ⟨by simp, by simp⟩
      · constructor
        · intro hne
          apply h1
          intro h0; rw [h0] at hne; simp at hne
        · intro i hi
          simp only [List.mem_filter, bne_iff_ne, ne_eq] at hi
          exact (List.mem_erase_of_ne hi.2).mpr (h2 i hi.1)
    · exact ⟨h1, h2⟩

theorem oinv_wrun (evs : List WEv) : ∀ {s : WSt}, OInv s → OInv (wrun s evs) := by
  induction evs with
  | nil => intro s h; exact h
  | cons e es ih => intro s h; exact ih (oinv_wsettle _ (oinv_winput e h))

end SwimVerif.DL
