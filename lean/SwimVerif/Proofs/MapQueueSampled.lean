/-
Per-key sampling for the coalescing map queue (C02, `per_key_sampled`): for every key, the operations that concern it
(operations on that key, and every `clear`) leave the queue in the order they entered it, none twice — what is popped
(and what is still queued) is a *sub-sequence* of what was pushed. With `C02_runtime_queue_preserves_fold` (the last
pushed state is reached at quiescence) this is "monotone sampling" of each key's history.
-/
import SwimVerif.Proofs.MapQueue

set_option linter.unusedSimpArgs false
set_option linter.unusedVariables false
namespace SwimVerif.WT

/-- operation `e` concerns key `k`: it is an update/remove of `k`, or a `clear` -/
def touches (k : Nat) : MapOp → Bool
  | .upd k' _ => k' == k
  | .rem k' => k' == k
  | .clear => true

theorem touches_of_key {k : Nat} {e : MapOp} (h : e.key? = some k) (x : Nat) : touches x e = (k == x) := by
  cases e <;> simp_all [MapOp.key?, touches]

theorem touches_false {x : Nat} {e : MapOp} (h1 : e ≠ .clear) (h2 : e.key? ≠ some x) : touches x e = false := by
  cases e <;> simp_all [MapOp.key?, touches]

theorem mqReplace_decomp (op : MapOp) (k : Nat) : ∀ (q q' : List MapOp), mqReplace op k q = some q' →
    ∃ pre e post, q = pre ++ e :: post ∧ q' = pre ++ op :: post ∧ e.key? = some k := by
  intro q
  induction q with
  | nil => intro q' h; simp [mqReplace] at h
  | cons e rest ih =>
    intro q' h
    unfold mqReplace at h
    by_cases he : e.key? = some k
    · rw [if_pos he] at h
      exact ⟨[], e, rest, rfl, (Option.some.inj h).symm, he⟩
    · rw [if_neg he] at h
      cases hr : mqReplace op k rest with
      | none => simp [hr] at h
      | some r =>
        simp [hr] at h
        obtain ⟨pre, e', post, h1, h2, h3⟩ := ih r hr
        exact ⟨e :: pre, e', post, by simp [h1], by simp [← h, h2], h3⟩

theorem keysOfQ_append (a b : List MapOp) : keysOfQ (a ++ b) = keysOfQ a ++ keysOfQ b := by
  simp [keysOfQ, List.filterMap_append]

/-- replacing the queued operation on `k`: among the operations that concern `x`, nothing moves; for `x = k` the
last one is replaced -/
theorem filter_mqReplace {op : MapOp} {k : Nat} (hk : op.key? = some k) {q q' : List MapOp} (hw : WFQ q)
    (h : mqReplace op k q = some q') (x : Nat) :
    if k = x then ∃ pre e, q.filter (touches x) = pre ++ [e] ∧ q'.filter (touches x) = pre ++ [op]
    else q'.filter (touches x) = q.filter (touches x) := by
  obtain ⟨pre, e, post, h1, h2, h3⟩ := mqReplace_decomp op k q q' h
  subst h1; subst h2
  by_cases hx : k = x
  · rw [if_pos hx]; subst hx
    have hpost : post.filter (touches k) = [] := by
      apply List.filter_eq_nil_iff.mpr
      intro y hy
      have hy1 : y ≠ .clear := by
        apply hw.tail
        cases pre with
        | nil => simpa using hy
        | cons p pre' => simp [hy]
      have hy2 : y.key? ≠ some k := by
        intro hyk
        have hn := hw.keys
        rw [keysOfQ_append, keysOfQ_cons_some post h3] at hn
        have := (List.nodup_append.mp hn).2.1
        simp only [List.nodup_cons] at this
        apply this.1
        simp only [keysOfQ, List.mem_filterMap]
        exact ⟨y, hy, hyk⟩
      simp [touches_false hy1 hy2]
    refine ⟨pre.filter (touches k), e, ?_, ?_⟩
    · simp [List.filter_append, List.filter_cons, touches_of_key h3, hpost]
    · simp [List.filter_append, List.filter_cons, touches_of_key hk, hpost]
  · rw [if_neg hx]
    have hxb : (k == x) = false := by simpa using hx
    simp [List.filter_append, List.filter_cons, touches_of_key h3, touches_of_key hk, hxb]

/-- the sampling invariant for key `x` -/
def Sampled (x : Nat) (s : MQSys) : Prop :=
  (s.popped.filter (touches x) ++ s.queue.filter (touches x)).Sublist (s.pushed.filter (touches x))

theorem sampled_push {s : MQSys} (hw : WFQ s.queue) (x : Nat) (h : Sampled x s) (op : MapOp) :
    Sampled x (mqStep s (.push op)) := by
  unfold Sampled at h ⊢
  show (s.popped.filter (touches x) ++ (mqPush s.queue op).filter (touches x)).Sublist
    ((s.pushed ++ [op]).filter (touches x))
  have hpop : (s.popped.filter (touches x)).Sublist (s.pushed.filter (touches x)) :=
    (List.sublist_append_left _ _).trans h
  rw [List.filter_append]
  unfold mqPush
  cases hk : op.key? with
  | none =>
    have : op = .clear := by cases op <;> simp_all [MapOp.key?]
    subst this
    simp only [List.filter_cons, touches, List.filter_nil, ↓reduceIte]
    exact List.Sublist.append hpop (List.Sublist.refl _)
  | some k =>
    simp only []
    cases hr : mqReplace op k s.queue with
    | none =>
      simp only []
      rw [List.filter_append, ← List.append_assoc]
      exact List.Sublist.append h (List.Sublist.refl _)
    | some q' =>
      simp only []
      have := filter_mqReplace hk hw hr x
      by_cases hx : k = x
      · rw [if_pos hx] at this
        obtain ⟨pre, e, h1, h2⟩ := this
        rw [h2]
        have hop : [op].filter (touches x) = [op] := by simp [touches_of_key hk, hx]
        rw [hop, ← List.append_assoc]
        refine List.Sublist.append ?_ (List.Sublist.refl _)
        rw [h1, ← List.append_assoc] at h
        exact (List.sublist_append_left _ _).trans h
      · rw [if_neg hx] at this
        rw [this]
        have hxb : (k == x) = false := by simpa using hx
        have hop : [op].filter (touches x) = [] := by simp [touches_of_key hk, hxb]
        rw [hop, List.append_nil]; exact h

theorem sampled_pop {s : MQSys} (x : Nat) (h : Sampled x s) : Sampled x (mqStep s .pop) := by
  unfold Sampled at h ⊢
  cases hq : s.queue with
  | nil => simp only [mqStep, hq]; rw [hq] at h; exact h
  | cons e rest =>
    simp only [mqStep, hq]
    rw [hq] at h
    have : (s.popped ++ [e]).filter (touches x) ++ rest.filter (touches x) =
        s.popped.filter (touches x) ++ (e :: rest).filter (touches x) := by
      simp [List.filter_append, List.filter_cons]
      cases touches x e <;> simp
    rw [this]; exact h

theorem sampled_run (x : Nat) : ∀ (ops : List MQOp) (s : MQSys), WFQ s.queue → Sampled x s →
    Sampled x (mqRun s ops) := by
  intro ops
  induction ops with
  | nil => intro s _ h; exact h
  | cons op rest ih =>
    intro s hw h
    simp only [mqRun, List.foldl]
    cases op with
    | push o => exact ih _ (by simpa [mqStep] using wfq_mqPush _ o hw) (sampled_push hw x h o)
    | pop =>
      refine ih _ ?_ (sampled_pop x h)
      cases hq : s.queue with
      | nil => simp only [mqStep, hq]; rw [hq] at hw; exact hw
      | cons e r => simp only [mqStep, hq]; rw [hq] at hw; exact wfq_tail hw

theorem sampled_init (x : Nat) : Sampled x {} := by simp [Sampled]

end SwimVerif.WT
