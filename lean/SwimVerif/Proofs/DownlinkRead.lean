/-
Helper lemmas for C07 (read task): the timer invariant, the per-consumer session invariant, and the exact
tail of a registered consumer.
-/
import SwimVerif.Model.DownlinkRt

set_option linter.unusedSimpArgs false
set_option linter.unusedVariables false
namespace SwimVerif.DL

/-! ### Lists of notifications -/

theorem logOf_append (c : Nat) (a b : List (Nat × Note)) : logOf c (a ++ b) = logOf c a ++ logOf c b := by
  simp [logOf]

@[simp] theorem logOf_nil (c : Nat) : logOf c [] = [] := rfl

theorem accepts_append (p : Phase) (a b : List Note) :
    accepts p (a ++ b) = (accepts p a).bind fun q => accepts q b := by
  induction a generalizing p with
  | nil => simp [accepts]
  | cons n ns ih =>
    simp only [List.cons_append, accepts]
    cases h : p.next n with
    | none => simp
    | some q => simp [ih]

/-- The consumers with identifier `c` in a list. -/
def sel (c : Nat) (l : List Consumer) : List Consumer := l.filter fun x => x.id == c

@[simp] theorem sel_nil (c : Nat) : sel c [] = [] := rfl
theorem sel_append (c : Nat) (a b : List Consumer) : sel c (a ++ b) = sel c a ++ sel c b := by simp [sel]
theorem sel_filter (c : Nat) (l : List Consumer) (q : Consumer → Bool) : sel c (l.filter q) = (sel c l).filter q := by
  simp [sel, List.filter_filter, Bool.and_comm]

theorem logOf_notesTo (c : Nat) (cs : List Consumer) (ns : List Note) :
    logOf c (notesTo cs ns) = (sel c cs).flatMap fun _ => ns := by
  induction cs with
  | nil => simp [notesTo, logOf]
  | cons x xs ih =>
    have hx : logOf c (notesTo (x :: xs) ns) = logOf c (ns.map fun n => (x.id, n)) ++ logOf c (notesTo xs ns) := by
      simp [notesTo, logOf]
    rw [hx, ih]
    by_cases h : x.id = c
    · have : logOf c (ns.map fun n => (x.id, n)) = ns := by
        simp [logOf, h, List.filter_map, Function.comp_def]
      rw [this]; simp [sel, h]
    · have : logOf c (ns.map fun n => (x.id, n)) = [] := by
        simp [logOf, h, List.filter_map, Function.comp_def]
      simp [this, sel, h]

theorem logOf_notesTo_nil {c : Nat} {cs : List Consumer} (ns : List Note) (h : sel c cs = []) :
    logOf c (notesTo cs ns) = [] := by simp [logOf_notesTo, h]

theorem logOf_notesTo_one {c : Nat} {cs : List Consumer} {x : Consumer} (ns : List Note) (h : sel c cs = [x]) :
    logOf c (notesTo cs ns) = ns := by simp [logOf_notesTo, h]

theorem len_le_one {α} {l : List α} (h : l.length ≤ 1) : l = [] ∨ ∃ x, l = [x] := by
  match l, h with
  | [], _ => exact Or.inl rfl
  | [x], _ => exact Or.inr ⟨x, rfl⟩
  | _ :: _ :: _, h => simp at h


/-! ### Per-consumer session invariant: where consumer `c` is and which phase of the grammar it has reached -/

def PInv (c : Nat) (s : RSt) (p : Phase) (att : Bool) : Prop :=
  (sel c s.aLinked = [] ∧ sel c s.aSynced = [] ∧ sel c s.reg = [] ∧ (att = false → p = .fresh)) ∨
  (att = true ∧ ∃ x, sel c s.aLinked = [x] ∧ sel c s.aSynced = [] ∧ sel c s.reg = [] ∧ p = .fresh) ∨
  (att = true ∧ ∃ x, sel c s.aLinked = [] ∧ sel c s.aSynced = [x] ∧ sel c s.reg = [] ∧ p = .linked) ∨
  (att = true ∧ ∃ x, sel c s.aLinked = [] ∧ sel c s.aSynced = [] ∧ sel c s.reg = [x] ∧ (p = .linked ∨ p = .synced))

theorem pinv_unlinkAll {c : Nat} {s : RSt} {p : Phase} {att : Bool} (h : PInv c s p att) :
    ∃ p', accepts p (logOf c (unlinkAll s).2) = some p' ∧ PInv c (unlinkAll s).1 p' att := by
  rcases h with ⟨h1, h2, h3, h4⟩ | ⟨ha, x, h1, h2, h3, h4⟩ | ⟨ha, x, h1, h2, h3, h4⟩ | ⟨ha, x, h1, h2, h3, h4⟩
  · refine ⟨p, ?_, Or.inl ?_⟩
    · simp [unlinkAll, logOf_notesTo, sel_filter, sel_append, h1, h2, h3, accepts]
    · simp [unlinkAll]; exact h4
  all_goals
    have hp : p = .fresh ∨ p = .linked ∨ p = .synced := by
      first
        | exact Or.inl h4
        | exact Or.inr (Or.inl h4)
        | (rcases h4 with h4 | h4
           · exact Or.inr (Or.inl h4)
           · exact Or.inr (Or.inr h4))
    by_cases hx : s.alive x
    · refine ⟨.ended, ?_, Or.inl ?_⟩
      · rcases hp with hp | hp | hp <;>
          simp [unlinkAll, logOf_notesTo, sel_filter, sel_append, h1, h2, h3, hx, hp, accepts, Phase.next]
      · simp [unlinkAll, ha]
    · refine ⟨p, ?_, Or.inl ?_⟩
      · simp [unlinkAll, logOf_notesTo, sel_filter, sel_append, h1, h2, h3, hx, accepts]
      · simp [unlinkAll, ha]


theorem logOf_single (c i : Nat) (n : Note) : logOf c [(i, n)] = if i = c then [n] else [] := by
  by_cases h : i = c <;> simp [logOf, h]

theorem sel_one_eq {c : Nat} {y : Consumer} (h : y.id = c) : sel c [y] = [y] := by simp [sel, h]
theorem sel_one_ne {c : Nat} {y : Consumer} (h : ¬ y.id = c) : sel c [y] = [] := by simp [sel, h]

theorem pinv_onAttach {c : Nat} {s : RSt} {p : Phase} {att : Bool} (x : Consumer) (h : PInv c s p att)
    (hf : x.id = c → att = false) :
    ∃ p', accepts p (logOf c (onAttach s x).2) = some p' ∧ PInv c (onAttach s x).1 p' (att || (x.id == c)) := by
  by_cases hc : x.id = c
  · have ha := hf hc
    subst ha
    rcases h with ⟨h1, h2, h3, h4⟩ | ⟨ha, _⟩ | ⟨ha, _⟩ | ⟨ha, _⟩ <;> try (simp at ha)
    have hp := h4 rfl
    subst hp
    unfold onAttach
    split
    · refine ⟨.fresh, by simp [accepts], Or.inr (Or.inl ⟨by simp [hc], x, ?_, ?_, ?_, rfl⟩)⟩ <;>
        simp [sel_append, h1, h2, h3, sel_one_eq, hc]
    · by_cases hx : s.alive x = true
      · rw [if_pos hx]
        by_cases hs : x.sync = true
        · rw [if_pos hs]
          refine ⟨.linked, by simp [logOf_single, hc, accepts, Phase.next],
            Or.inr (Or.inr (Or.inl ⟨by simp [hc], x, ?_, ?_, ?_, rfl⟩))⟩ <;>
            simp [sel_append, h1, h2, h3, sel_one_eq, hc]
        · rw [if_neg hs]
          refine ⟨.linked, by simp [logOf_single, hc, accepts, Phase.next],
            Or.inr (Or.inr (Or.inr ⟨by simp [hc], x, ?_, ?_, ?_, Or.inl rfl⟩))⟩ <;>
            simp [sel_append, h1, h2, h3, sel_one_eq, hc]
      · rw [if_neg hx]
        refine ⟨.fresh, by simp [accepts], Or.inl ?_⟩
        simp [h1, h2, h3, hc]
  · have hsel : sel c [x] = [] := sel_one_ne hc
    have hb : (att || (x.id == c)) = att := by simp [hc]
    rw [hb]
    unfold onAttach
    split
    · exact ⟨p, by simp [accepts], by simpa [PInv, sel_append, hsel] using h⟩
    · by_cases hx : s.alive x = true
      · rw [if_pos hx]
        by_cases hs : x.sync = true
        · rw [if_pos hs]
          exact ⟨p, by simp [logOf_single, hc, accepts], by simpa [PInv, sel_append, hsel] using h⟩
        · rw [if_neg hs]
          exact ⟨p, by simp [logOf_single, hc, accepts], by simpa [PInv, sel_append, hsel] using h⟩
      · rw [if_neg hx]
        exact ⟨p, by simp [accepts], h⟩

theorem pinv_onLinked {c : Nat} {s : RSt} {p : Phase} {att : Bool} (h : PInv c s p att) :
    ∃ p', accepts p (logOf c (onLinked s).2) = some p' ∧ PInv c (onLinked s).1 p' att := by
  unfold onLinked
  by_cases ht : s.timer
  · exact ⟨p, by simp [ht, accepts], by simpa [ht, PInv] using h⟩
  · rcases h with ⟨h1, h2, h3, h4⟩ | ⟨ha, x, h1, h2, h3, h4⟩ | ⟨ha, x, h1, h2, h3, h4⟩ | ⟨ha, x, h1, h2, h3, h4⟩
    · refine ⟨p, ?_, Or.inl ?_⟩
      · simp [ht, logOf_notesTo, sel_filter, h1, accepts]
      · simp [ht, sel_append, sel_filter, h1, h2, h3]; exact h4
    · subst h4
      by_cases hx : s.alive x
      · by_cases hs : x.sync
        · refine ⟨.linked, ?_, Or.inr (Or.inr (Or.inl ⟨ha, x, ?_, ?_, ?_, rfl⟩))⟩ <;>
            simp [ht, logOf_notesTo, sel_append, sel_filter, h1, h2, h3, hx, hs, accepts, Phase.next]
        · refine ⟨.linked, ?_, Or.inr (Or.inr (Or.inr ⟨ha, x, ?_, ?_, ?_, Or.inl rfl⟩))⟩ <;>
            simp [ht, logOf_notesTo, sel_append, sel_filter, h1, h2, h3, hx, hs, accepts, Phase.next]
      · refine ⟨.fresh, ?_, Or.inl ?_⟩
        · simp [ht, logOf_notesTo, sel_filter, h1, hx, accepts]
        · simp [ht, sel_append, sel_filter, h1, h2, h3, hx, ha]
    · refine ⟨p, ?_, Or.inr (Or.inr (Or.inl ⟨ha, x, ?_, ?_, ?_, h4⟩))⟩ <;>
        simp [ht, logOf_notesTo, sel_append, sel_filter, h1, h2, h3, accepts]
    · refine ⟨p, ?_, Or.inr (Or.inr (Or.inr ⟨ha, x, ?_, ?_, ?_, h4⟩))⟩ <;>
        simp [ht, logOf_notesTo, sel_append, sel_filter, h1, h2, h3, accepts]

theorem pinv_onSynced {c : Nat} {s : RSt} {p : Phase} {att : Bool} (h : PInv c s p att) :
    ∃ p', accepts p (logOf c (onSynced s).2) = some p' ∧ PInv c (onSynced s).1 p' att := by
  unfold onSynced
  by_cases ht : s.timer
  · exact ⟨p, by simp [ht, accepts], by simpa [ht, PInv] using h⟩
  · rcases h with ⟨h1, h2, h3, h4⟩ | ⟨ha, x, h1, h2, h3, h4⟩ | ⟨ha, x, h1, h2, h3, h4⟩ | ⟨ha, x, h1, h2, h3, h4⟩
    · refine ⟨p, ?_, Or.inl ?_⟩
      · simp [ht, logOf_notesTo, sel_filter, h2, accepts]
      · simp [ht, sel_append, sel_filter, h1, h2, h3]; exact h4
    · refine ⟨p, ?_, Or.inr (Or.inl ⟨ha, x, ?_, ?_, ?_, h4⟩)⟩ <;>
        simp [ht, logOf_notesTo, sel_append, sel_filter, h1, h2, h3, accepts]
    · subst h4
      by_cases hx : s.alive x
      · refine ⟨.synced, ?_, Or.inr (Or.inr (Or.inr ⟨ha, x, ?_, ?_, ?_, Or.inr rfl⟩))⟩
        · by_cases hq : (s.single && s.syncEvent) = true <;>
            simp [ht, logOf_notesTo, sel_filter, h2, hx, hq, accepts, Phase.next]
        all_goals simp [ht, sel_append, sel_filter, h1, h2, h3, hx]
      · refine ⟨.linked, ?_, Or.inl ?_⟩
        · simp [ht, logOf_notesTo, sel_filter, h2, hx, accepts]
        · simp [ht, sel_append, sel_filter, h1, h2, h3, hx, ha]
    · refine ⟨p, ?_, Or.inr (Or.inr (Or.inr ⟨ha, x, ?_, ?_, ?_, h4⟩))⟩ <;>
        simp [ht, logOf_notesTo, sel_append, sel_filter, h1, h2, h3, accepts]

theorem pinv_dispatch {c : Nat} {s : RSt} {p : Phase} {att : Bool} (h : PInv c s p att) :
    ∃ p', accepts p (logOf c (dispatch s).2) = some p' ∧ PInv c (dispatch s).1 p' att := by
  unfold dispatch
  by_cases ht : s.timer
  · exact ⟨p, by simp [ht, accepts], by simpa [ht, PInv] using h⟩
  · rcases h with ⟨h1, h2, h3, h4⟩ | ⟨ha, x, h1, h2, h3, h4⟩ | ⟨ha, x, h1, h2, h3, h4⟩ | ⟨ha, x, h1, h2, h3, h4⟩
    · refine ⟨p, ?_, Or.inl ?_⟩
      · by_cases hsg : s.single <;> simp [ht, hsg, logOf_append, logOf_notesTo, sel_filter, h2, h3, accepts]
      · by_cases hsg : s.single <;> simp [ht, hsg, sel_filter, h1, h2, h3] <;> exact h4
    · refine ⟨p, ?_, Or.inr (Or.inl ⟨ha, x, ?_, ?_, ?_, h4⟩)⟩ <;>
        by_cases hsg : s.single <;> simp [ht, hsg, logOf_append, logOf_notesTo, sel_filter, h1, h2, h3, accepts]
    · subst h4
      by_cases hsg : s.single
      · refine ⟨.linked, ?_, Or.inr (Or.inr (Or.inl ⟨ha, x, ?_, ?_, ?_, rfl⟩))⟩ <;>
          simp [ht, hsg, logOf_append, logOf_notesTo, sel_filter, h1, h2, h3, accepts]
      · by_cases hx : s.alive x
        · refine ⟨.linked, ?_, Or.inr (Or.inr (Or.inl ⟨ha, x, ?_, ?_, ?_, rfl⟩))⟩ <;>
            simp [ht, hsg, logOf_append, logOf_notesTo, sel_filter, h1, h2, h3, hx, accepts, Phase.next]
        · refine ⟨.linked, ?_, Or.inl ?_⟩
          · simp [ht, hsg, logOf_append, logOf_notesTo, sel_filter, h1, h2, h3, hx, accepts]
          · simp [ht, hsg, sel_filter, h1, h2, h3, hx, ha]
    · by_cases hx : s.alive x
      · refine ⟨p, ?_, Or.inr (Or.inr (Or.inr ⟨ha, x, ?_, ?_, ?_, h4⟩))⟩
        · rcases h4 with h4 | h4 <;> by_cases hsg : s.single <;>
            simp [ht, hsg, logOf_append, logOf_notesTo, sel_filter, h1, h2, h3, hx, h4, accepts, Phase.next]
        all_goals by_cases hsg : s.single <;> simp [ht, hsg, sel_filter, h1, h2, h3, hx]
      · refine ⟨p, ?_, Or.inl ?_⟩
        · by_cases hsg : s.single <;>
            simp [ht, hsg, logOf_append, logOf_notesTo, sel_filter, h1, h2, h3, hx, accepts]
        · by_cases hsg : s.single <;> simp [ht, hsg, sel_filter, h1, h2, h3, hx, ha]


def attachOf (c : Nat) : REv → Bool
  | .attach x => x.id == c
  | _ => false

def attachIds : List REv → List Nat
  | [] => []
  | .attach x :: es => x.id :: attachIds es
  | _ :: es => attachIds es

theorem pinv_weaken {c : Nat} {s : RSt} {p : Phase} {att : Bool} (h : PInv c s p att) : PInv c s p true := by
  rcases h with ⟨h1, h2, h3, _⟩ | h | h | h
  · exact Or.inl ⟨h1, h2, h3, by simp⟩
  · exact Or.inr (Or.inl ⟨rfl, h.2⟩)
  · exact Or.inr (Or.inr (Or.inl ⟨rfl, h.2⟩))
  · exact Or.inr (Or.inr (Or.inr ⟨rfl, h.2⟩))

theorem pinv_fields {c : Nat} {s t : RSt} {p : Phase} {att : Bool} (h : PInv c s p att)
    (h1 : t.aLinked = s.aLinked) (h2 : t.aSynced = s.aSynced) (h3 : t.reg = s.reg) : PInv c t p att := by
  simpa [PInv, h1, h2, h3] using h

theorem pinv_step {c : Nat} {s : RSt} {p : Phase} {att : Bool} (ev : REv) (h : PInv c s p att)
    (hf : attachOf c ev = true → att = false) :
    ∃ p', accepts p (logOf c (rstep s ev).2) = some p' ∧ PInv c (rstep s ev).1 p' (att || attachOf c ev) := by
  have stay : ∃ p', accepts p (logOf c ([] : List (Nat × Note))) = some p' ∧ PInv c s p' (att || attachOf c ev) := by
    refine ⟨p, by simp [accepts], ?_⟩
    by_cases ha : attachOf c ev = true
    · simpa [ha] using pinv_weaken h
    · simpa [ha] using h
  cases ev with
  | dropReader d =>
    refine ⟨p, by simp [rstep, accepts], ?_⟩
    simpa [rstep, attachOf] using (pinv_fields h rfl rfl rfl : PInv c { s with dead := d :: s.dead } p att)
  | attach x =>
    by_cases hs : s.stopped
    · simpa [rstep, hs] using stay
    · simp only [rstep, hs, Bool.false_eq_true, ↓reduceIte]
      exact pinv_onAttach x h (by simpa [attachOf] using hf)
  | stop =>
    by_cases hs : s.stopped
    · simpa [rstep, hs] using stay
    · simp only [rstep, hs, Bool.false_eq_true, ↓reduceIte, attachOf, Bool.or_false]
      exact pinv_unlinkAll h
  | msg m =>
    by_cases hs : s.stopped
    · simpa [rstep, hs] using stay
    · simp only [rstep, hs, Bool.false_eq_true, ↓reduceIte, attachOf, Bool.or_false]
      cases m with
      | linked => exact pinv_onLinked h
      | synced => exact pinv_onSynced h
      | unlinked => exact pinv_unlinkAll h
      | event b => exact pinv_dispatch (pinv_fields h rfl rfl rfl)
      | badEvent =>
        simp only [onMsg]
        split
        · exact pinv_unlinkAll (pinv_fields h rfl rfl rfl)
        · exact ⟨p, by simp [accepts], pinv_fields h rfl rfl rfl⟩

theorem pinv_run (c : Nat) : ∀ (evs : List REv) (s : RSt) (p : Phase) (att : Bool), PInv c s p att →
    (att = true → c ∉ attachIds evs) → (attachIds evs).Nodup →
    ∃ p' att', accepts p (logOf c (rrun s evs).2) = some p' ∧ PInv c (rrun s evs).1 p' att' := by
  intro evs
  induction evs with
  | nil => intro s p att h _ _; exact ⟨p, att, by simp [rrun, accepts], h⟩
  | cons e es ih =>
    intro s p att h hatt hnd
    have hf : attachOf c e = true → att = false := by
      intro he
      cases e with
      | attach x =>
        cases hb : att with
        | false => rfl
        | true =>
          exfalso
          have : x.id = c := by simpa [attachOf] using he
          exact hatt hb (by simp [attachIds, this])
      | _ => simp [attachOf] at he
    obtain ⟨p1, hp1, hinv⟩ := pinv_step e h hf
    have hnd' : (attachIds es).Nodup := by
      cases e <;> simp [attachIds] at hnd ⊢ <;> first | exact hnd | exact hnd.2
    have hatt' : (att || attachOf c e) = true → c ∉ attachIds es := by
      intro hb
      cases e with
      | attach x =>
        by_cases hx : x.id = c
        · simp [attachIds] at hnd; rw [← hx]; exact hnd.1
        · have : att = true := by simpa [attachOf, hx] using hb
          have := hatt this
          simp [attachIds] at this; exact this.2
      | _ =>
        have : att = true := by simpa [attachOf] using hb
        simpa [attachIds] using hatt this
    obtain ⟨p2, att2, hp2, hinv2⟩ := ih (rstep s e).1 p1 (att || attachOf c e) hinv hatt' hnd'
    refine ⟨p2, att2, ?_, hinv2⟩
    simp only [rrun, logOf_append, accepts_append, hp1, Option.bind_some, hp2]

theorem pinv_init (c : Nat) (sg ab : Bool) : PInv c (rinit sg ab) .fresh false :=
  Or.inl ⟨rfl, rfl, rfl, fun _ => rfl⟩


/-! ### The "no consumers" timer is armed only when nobody is registered or awaiting sync -/

def TInv (s : RSt) : Prop := s.timer = true → s.reg = [] ∧ s.aSynced = [] ∧ s.aLinked = []

theorem tinv_init (sg ab : Bool) : TInv (rinit sg ab) := fun _ => ⟨rfl, rfl, rfl⟩

theorem tinv_unlinkAll (s : RSt) : TInv (unlinkAll s).1 := fun _ => ⟨rfl, rfl, rfl⟩

theorem tinv_dispatch {s : RSt} (h : TInv s) : TInv (dispatch s).1 := by
  unfold dispatch
  by_cases ht : s.timer
  · simpa [ht] using h
  · intro h2
    simp only [ht, Bool.false_eq_true, ↓reduceIte, Bool.and_eq_true, List.isEmpty_iff] at h2 ⊢
    exact ⟨h2.1.1, h2.1.2, h2.2⟩

theorem tinv_step {s : RSt} (ev : REv) (h : TInv s) : TInv (rstep s ev).1 := by
  cases ev with
  | dropReader d => simpa [rstep, TInv] using h
  | attach x =>
    by_cases hs : s.stopped
    · simpa [rstep, hs] using h
    · simp only [rstep, hs, Bool.false_eq_true, ↓reduceIte]
      unfold onAttach
      split
      · intro h2; simp at h2
      · by_cases hx : s.alive x = true
        · rw [if_pos hx]
          by_cases hsy : x.sync = true
          · rw [if_pos hsy]; intro h2; simp at h2
          · rw [if_neg hsy]; intro h2; simp at h2
        · rw [if_neg hx]; exact h
  | stop =>
    by_cases hs : s.stopped
    · simpa [rstep, hs] using h
    · simp only [rstep, hs, Bool.false_eq_true, ↓reduceIte]; exact tinv_unlinkAll s
  | msg m =>
    by_cases hs : s.stopped
    · simpa [rstep, hs] using h
    · simp only [rstep, hs, Bool.false_eq_true, ↓reduceIte]
      cases m with
      | linked =>
        simp only [onMsg]; unfold onLinked
        by_cases ht : s.timer
        · simpa [ht, TInv] using h
        · intro h2
          simp only [ht, Bool.false_eq_true, ↓reduceIte, Bool.and_eq_true, List.isEmpty_iff] at h2 ⊢
          first | exact ⟨h2.2, h2.1, rfl⟩ | exact ⟨h2.2, h2.1, trivial⟩ | exact ⟨h2.2, h2.1⟩
      | synced =>
        simp only [onMsg]; unfold onSynced
        by_cases ht : s.timer
        · simpa [ht, TInv] using h
        · intro h2
          simp only [ht, Bool.false_eq_true, ↓reduceIte, Bool.and_eq_true, List.isEmpty_iff] at h2 ⊢
          first | exact ⟨h2.1, rfl, h2.2⟩ | exact ⟨h2.1, trivial, h2.2⟩ | exact ⟨h2.1, h2.2⟩
      | unlinked => exact tinv_unlinkAll s
      | event b => exact tinv_dispatch (by simpa [TInv] using h)
      | badEvent =>
        simp only [onMsg]
        split
        · exact tinv_unlinkAll _
        · simpa [TInv] using h

theorem tinv_run {s : RSt} (evs : List REv) (h : TInv s) : TInv (rrun s evs).1 := by
  induction evs generalizing s with
  | nil => exact h
  | cons e es ih => exact ih (tinv_step e h)

/-! ### A registered consumer receives exactly the remote's events, in order, until the link closes -/

/-- Consumer `c` is (only) in `registered`, as `x`. -/
def RegAt (c : Nat) (s : RSt) (x : Consumer) : Prop :=
  sel c s.aLinked = [] ∧ sel c s.aSynced = [] ∧ sel c s.reg = [x]

/-- What a registered consumer must receive for a sequence of loop events. -/
def expectedTail (abort : Bool) : List REv → List Note
  | [] => []
  | .msg (.event b) :: r => .event b :: expectedTail abort r
  | .msg .badEvent :: r => if abort then [.unlinked, .eof] else expectedTail abort r
  | .msg .unlinked :: _ => [.unlinked, .eof]
  | .stop :: _ => [.unlinked, .eof]
  | _ :: r => expectedTail abort r

theorem rrun_stopped (c : Nat) {s : RSt} (evs : List REv) (h : s.stopped = true) : logOf c (rrun s evs).2 = [] := by
  induction evs generalizing s with
  | nil => simp [rrun]
  | cons e es ih =>
    have : (rstep s e).2 = [] ∧ (rstep s e).1.stopped = true := by
      cases e <;> simp [rstep, h]
    simp [rrun, logOf_append, this.1, ih this.2]

theorem abort_step (s : RSt) (e : REv) : (rstep s e).1.abort = s.abort := by
  cases e with
  | dropReader d => rfl
  | attach x =>
    simp only [rstep]; split
    · rfl
    · unfold onAttach; split
      · rfl
      · split
        · split <;> rfl
        · rfl
  | stop => simp only [rstep]; split <;> rfl
  | msg m =>
    simp only [rstep]; split
    · rfl
    · cases m with
      | linked => simp only [onMsg]; unfold onLinked; split <;> rfl
      | synced => simp only [onMsg]; unfold onSynced; split <;> rfl
      | unlinked => rfl
      | event b => simp only [onMsg]; unfold dispatch; split <;> rfl
      | badEvent => simp only [onMsg]; split <;> rfl

theorem regAt_id {c : Nat} {s : RSt} {x : Consumer} (h : RegAt c s x) : x.id = c := by
  have : x ∈ sel c s.reg := by rw [h.2.2]; simp
  simpa [sel] using (List.mem_filter.mp this).2

theorem regAt_timer {c : Nat} {s : RSt} {x : Consumer} (h : RegAt c s x) (ht : TInv s) : s.timer = false := by
  cases hb : s.timer with
  | false => rfl
  | true =>
    have := (ht hb).1
    have h3 := h.2.2
    rw [this] at h3
    simp at h3

theorem unlinkAll_reg {c : Nat} {s : RSt} {x : Consumer} (h : RegAt c s x) (hx : s.alive x = true) :
    logOf c (unlinkAll s).2 = [.unlinked, .eof] ∧ (unlinkAll s).1.stopped = true := by
  simp [unlinkAll, logOf_notesTo, sel_filter, sel_append, h.1, h.2.1, h.2.2, hx]

theorem dispatch_reg {c : Nat} {s : RSt} {x : Consumer} (h : RegAt c s x) (hx : s.alive x = true)
    (ht : s.timer = false) :
    logOf c (dispatch s).2 = [.event s.current] ∧ RegAt c (dispatch s).1 x ∧ (dispatch s).1.stopped = s.stopped
      ∧ (dispatch s).1.dead = s.dead := by
  unfold dispatch
  by_cases hsg : s.single <;>
    simp [ht, hsg, logOf_append, logOf_notesTo, sel_filter, h.1, h.2.1, h.2.2, hx, RegAt]

theorem registered_tail {c : Nat} (evs : List REv) : ∀ (s : RSt) (x : Consumer), TInv s → s.stopped = false →
    RegAt c s x → s.alive x = true → (∀ e ∈ evs, e ≠ .dropReader c) → c ∉ attachIds evs →
    logOf c (rrun s evs).2 = expectedTail s.abort evs := by
  induction evs with
  | nil => intro s x _ _ _ _ _ _; simp [rrun, expectedTail]
  | cons e es ih =>
    intro s x ht hs hr hx hnd hna
    have hid := regAt_id hr
    have htm := regAt_timer hr ht
    have hnd' : ∀ e ∈ es, e ≠ .dropReader c := fun e he => hnd e (List.mem_cons_of_mem _ he)
    have hab := abort_step s e
    have ht' := tinv_step e ht
    simp only [rrun, logOf_append]
    cases e with
    | dropReader d =>
      have hdc : d ≠ c := by
        intro hd; exact hnd (.dropReader d) (by simp) (by rw [hd])
      have hna' : c ∉ attachIds es := by simpa [attachIds] using hna
      have := ih { s with dead := d :: s.dead } x (by simpa [rstep] using ht') hs hr
        (by simp [RSt.alive, hid, Ne.symm hdc] at hx ⊢; exact hx) hnd' hna'
      simpa [rstep, expectedTail] using this
    | attach y =>
      have hy : ¬ y.id = c := by
        intro hy; apply hna; simp [attachIds, hy]
      have hna' : c ∉ attachIds es := by
        intro hm; apply hna; simp [attachIds, hm]
      simp only [rstep, hs, Bool.false_eq_true, ↓reduceIte, expectedTail] at ht' hab ⊢
      have key : logOf c (onAttach s y).2 = [] ∧ RegAt c (onAttach s y).1 x ∧ (onAttach s y).1.stopped = false
          ∧ (onAttach s y).1.alive x = true := by
        unfold onAttach
        split
        · refine ⟨rfl, ?_, hs, hx⟩
          simp [RegAt, sel_append, hr.1, hr.2.1, hr.2.2, sel_one_ne, hy]
        · by_cases hyx : s.alive y = true
          · rw [if_pos hyx]
            by_cases hys : y.sync = true
            · rw [if_pos hys]
              refine ⟨by simp [logOf_single, hy], ?_, hs, hx⟩
              simp [RegAt, sel_append, hr.1, hr.2.1, hr.2.2, sel_one_ne, hy]
            · rw [if_neg hys]
              refine ⟨by simp [logOf_single, hy], ?_, hs, hx⟩
              simp [RegAt, sel_append, hr.1, hr.2.1, hr.2.2, sel_one_ne, hy]
          · rw [if_neg hyx]
            exact ⟨rfl, hr, hs, hx⟩
      rw [key.1, List.nil_append, ih _ x ht' key.2.2.1 key.2.1 key.2.2.2 hnd' hna', hab]
    | stop =>
      simp only [rstep, hs, Bool.false_eq_true, ↓reduceIte, expectedTail]
      have := unlinkAll_reg hr hx
      rw [this.1, rrun_stopped c es this.2]; rfl
    | msg m =>
      have hna' : c ∉ attachIds es := by simpa [attachIds] using hna
      simp only [rstep, hs, Bool.false_eq_true, ↓reduceIte] at ht' hab ⊢
      cases m with
      | unlinked =>
        simp only [onMsg, expectedTail]
        have := unlinkAll_reg hr hx
        rw [this.1, rrun_stopped c es this.2]; rfl
      | linked =>
        simp only [onMsg, expectedTail] at ht' hab ⊢
        have key : logOf c (onLinked s).2 = [] ∧ RegAt c (onLinked s).1 x ∧ (onLinked s).1.stopped = false
            ∧ (onLinked s).1.alive x = true := by
          unfold onLinked
          simp [htm, logOf_notesTo, sel_filter, sel_append, hr.1, hr.2.1, hr.2.2, RegAt, hs]
          simpa [RSt.alive] using hx
        rw [key.1, List.nil_append, ih _ x ht' key.2.2.1 key.2.1 key.2.2.2 hnd' hna', hab]
      | synced =>
        simp only [onMsg, expectedTail] at ht' hab ⊢
        have key : logOf c (onSynced s).2 = [] ∧ RegAt c (onSynced s).1 x ∧ (onSynced s).1.stopped = false
            ∧ (onSynced s).1.alive x = true := by
          unfold onSynced
          simp [htm, logOf_notesTo, sel_filter, sel_append, hr.1, hr.2.1, hr.2.2, RegAt, hs]
          simpa [RSt.alive] using hx
        rw [key.1, List.nil_append, ih _ x ht' key.2.2.1 key.2.1 key.2.2.2 hnd' hna', hab]
      | event b =>
        simp only [onMsg, expectedTail] at ht' hab ⊢
        have key := dispatch_reg (s := { s with syncEvent := true, current := b }) (c := c) (x := x)
          (by simpa [RegAt] using hr) (by simpa [RSt.alive] using hx) htm
        rw [key.1, ih _ x ht' (by rw [key.2.2.1]; exact hs) key.2.1
          (by simp only [RSt.alive, key.2.2.2]; simpa [RSt.alive] using hx) hnd' hna', hab]
        rfl
      | badEvent =>
        simp only [onMsg, expectedTail] at ht' hab ⊢
        by_cases hA : s.abort = true
        · rw [if_pos hA] at ht' hab ⊢
          rw [if_pos hA]
          have := unlinkAll_reg (s := { s with syncEvent := true, current := .raw [] }) (c := c) (x := x)
            (by simpa [RegAt] using hr) (by simpa [RSt.alive] using hx)
          rw [this.1, rrun_stopped c es this.2]; rfl
        · rw [if_neg hA] at ht' hab ⊢
          rw [if_neg hA]
          have := ih { s with syncEvent := true, current := .raw [] } x ht' hs (by simpa [RegAt] using hr)
            (by simpa [RSt.alive] using hx) hnd' hna'
          simpa using this

/-! ### Who is sent `synced` -/

/-- Everybody awaiting `synced` asked for it. -/
def AInv (s : RSt) : Prop := ∀ x ∈ s.aSynced, x.sync = true

theorem ainv_init (sg ab : Bool) : AInv (rinit sg ab) := by intro x hx; simp [rinit] at hx

theorem ainv_step {s : RSt} (ev : REv) (h : AInv s) : AInv (rstep s ev).1 := by
  have hsub : ∀ t : RSt, (∀ x ∈ t.aSynced, x ∈ s.aSynced) → AInv t := fun t ht x hx => h x (ht x hx)
  cases ev with
  | dropReader d => exact hsub _ (fun x hx => hx)
  | attach y =>
    simp only [rstep]; split
    · exact h
    · unfold onAttach; split
      · exact hsub _ (fun x hx => hx)
      · split
        · split
          · rename_i hys
            intro x hx
            simp only [List.mem_append, List.mem_singleton] at hx
            rcases hx with hx | hx
            · exact h x hx
            · rw [hx]; exact hys
          · exact hsub _ (fun x hx => hx)
        · exact h
  | stop =>
    simp only [rstep]; split
    · exact h
    · intro x hx; simp [unlinkAll] at hx
  | msg m =>
    simp only [rstep]; split
    · exact h
    · cases m with
      | linked =>
        simp only [onMsg]; unfold onLinked; split
        · exact hsub _ (fun x hx => hx)
        · intro x hx
          simp only [List.mem_append, List.mem_filter] at hx
          rcases hx with hx | hx
          · exact h x hx
          · exact hx.2
      | synced =>
        simp only [onMsg]; unfold onSynced; split
        · exact hsub _ (fun x hx => hx)
        · intro x hx; simp at hx
      | unlinked => intro x hx; simp [onMsg, unlinkAll] at hx
      | event b =>
        simp only [onMsg]; unfold dispatch; split
        · exact hsub _ (fun x hx => hx)
        · refine hsub _ (fun x hx => ?_)
          simp only at hx
          split at hx
          · exact hx
          · exact (List.mem_filter.mp hx).1
      | badEvent =>
        simp only [onMsg]; split
        · intro x hx; simp [unlinkAll] at hx
        · exact hsub _ (fun x hx => hx)

theorem ainv_run {s : RSt} (evs : List REv) (h : AInv s) : AInv (rrun s evs).1 := by
  induction evs generalizing s with
  | nil => exact h
  | cons e es ih => exact ih (ainv_step e h)

theorem mem_notesTo {i : Nat} {n : Note} {cs : List Consumer} {ns : List Note} (h : (i, n) ∈ notesTo cs ns) :
    (∃ x ∈ cs, x.id = i) ∧ n ∈ ns := by
  simp only [notesTo, List.mem_flatMap, List.mem_map, Prod.mk.injEq] at h
  obtain ⟨x, hx, m, hm, h1, h2⟩ := h
  exact ⟨⟨x, hx, h1⟩, h2 ▸ hm⟩

/-- `synced` is only ever sent by the `Synced` handler, active, to live members of `awaiting_synced`. -/
theorem synced_source {s : RSt} (ev : REv) {i : Nat} (h : (i, Note.synced) ∈ (rstep s ev).2) :
    ev = .msg .synced ∧ s.stopped = false ∧ s.timer = false ∧ ∃ x ∈ s.aSynced, x.id = i ∧ s.alive x = true := by
  cases ev with
  | dropReader d => simp [rstep] at h
  | attach y =>
    simp only [rstep] at h; split at h
    · simp at h
    · unfold onAttach at h; split at h
      · simp at h
      · split at h
        · split at h <;> simp at h
        · simp at h
  | stop =>
    simp only [rstep] at h; split at h
    · simp at h
    · have := (mem_notesTo h).2; simp at this
  | msg m =>
    simp only [rstep] at h; split at h
    · simp at h
    · cases m with
      | linked =>
        simp only [onMsg] at h; unfold onLinked at h; split at h
        · simp at h
        · have := (mem_notesTo h).2; simp at this
      | synced =>
        simp only [onMsg] at h; unfold onSynced at h; split at h
        · simp at h
        · rename_i hst htm
          obtain ⟨x, hx, hi⟩ := (mem_notesTo h).1
          exact ⟨rfl, by simpa using hst, by simpa using htm, x, (List.mem_filter.mp hx).1, hi, (List.mem_filter.mp hx).2⟩
      | unlinked => have := (mem_notesTo (by simpa [onMsg, unlinkAll] using h)).2; simp at this
      | event b =>
        simp only [onMsg] at h; unfold dispatch at h; split at h
        · simp at h
        · simp only [List.mem_append] at h
          rcases h with h | h
          · have := (mem_notesTo h).2; simp at this
          · split at h
            · simp at h
            · have := (mem_notesTo h).2; simp at this
      | badEvent =>
        simp only [onMsg] at h; split at h
        · have := (mem_notesTo (by simpa [unlinkAll] using h)).2; simp at this
        · simp at h

theorem synced_only_to_awaiting {s : RSt} (ev : REv) {i : Nat} (h : (i, Note.synced) ∈ (rstep s ev).2) :
    ∃ x ∈ s.aSynced, x.id = i := by
  obtain ⟨_, _, _, x, hx, hi, _⟩ := synced_source ev h
  exact ⟨x, hx, hi⟩

theorem mem_logOf {c : Nat} {n : Note} {out : List (Nat × Note)} : n ∈ logOf c out ↔ (c, n) ∈ out := by
  simp only [logOf, List.mem_map, List.mem_filter]
  constructor
  · rintro ⟨⟨i, m⟩, ⟨hm, hi⟩, rfl⟩
    have : i = c := by simpa using hi
    subst this; exact hm
  · intro h; exact ⟨(c, n), ⟨h, by simp⟩, rfl⟩

/-- When consumer `c` is sent `synced` it is registered afterwards (and alive, and the task is running). -/
theorem synced_registers {c : Nat} {s : RSt} {p : Phase} {att : Bool} (ev : REv) (h : PInv c s p att)
    (hsy : Note.synced ∈ logOf c (rstep s ev).2) :
    ∃ x, RegAt c (rstep s ev).1 x ∧ (rstep s ev).1.alive x = true ∧ (rstep s ev).1.stopped = false := by
  obtain ⟨hev, hst, htm, y, hy, hyi, hya⟩ := synced_source ev (mem_logOf.mp hsy)
  subst hev
  have hsel : y ∈ sel c s.aSynced := List.mem_filter.mpr ⟨hy, by simp [hyi]⟩
  rcases h with ⟨_, h2, _, _⟩ | ⟨_, x, _, h2, _, _⟩ | ⟨_, x, h1, h2, h3, _⟩ | ⟨_, x, _, h2, _, _⟩ <;>
    try (rw [h2] at hsel; simp at hsel)
  have hxy : y = x := hsel
  subst hxy
  refine ⟨y, ?_, ?_, ?_⟩
  · simp [rstep, hst, onMsg, onSynced, htm, RegAt, sel_append, sel_filter, h1, h2, h3, hya]
  · simpa [rstep, hst, onMsg, onSynced, htm, RSt.alive] using hya
  · simp [rstep, hst, onMsg, onSynced, htm]

/-! ### The state delivered with `synced` is the latest the remote has sent -/

/-- Body of the last event in a sequence of loop events (`raw []` for an uninterpretable one or none at all). -/
def lastBody : List REv → Body → Body
  | [], b => b
  | .msg (.event b) :: r, _ => lastBody r b
  | .msg .badEvent :: r, _ => lastBody r (.raw [])
  | _ :: r, b => lastBody r b

def anyEvent : List REv → Bool → Bool
  | [], b => b
  | .msg (.event _) :: r, _ => anyEvent r true
  | .msg .badEvent :: r, _ => anyEvent r true
  | _ :: r, b => anyEvent r b

theorem current_step (s : RSt) (e : REv) (h : (rstep s e).1.stopped = false) :
    (rstep s e).1.current = lastBody [e] s.current ∧ (rstep s e).1.syncEvent = anyEvent [e] s.syncEvent ∧ s.stopped = false := by
  cases e with
  | dropReader d => exact ⟨rfl, rfl, h⟩
  | attach x =>
    simp only [rstep] at h ⊢; split at h
    · simp_all
    · rename_i hs
      simp only [hs, Bool.false_eq_true, ↓reduceIte]
      unfold onAttach; split
      · simp [lastBody, anyEvent, hs]
      · split
        · split <;> simp [lastBody, anyEvent, hs]
        · simp [lastBody, anyEvent, hs]
  | stop =>
    simp only [rstep] at h ⊢; split at h
    · simp_all
    · simp [unlinkAll] at h
  | msg m =>
    simp only [rstep] at h ⊢; split at h
    · simp_all
    · rename_i hs
      have hs' : s.stopped = false := by simpa using hs
      simp only [hs, Bool.false_eq_true, ↓reduceIte]
      cases m with
      | linked => simp only [onMsg]; unfold onLinked; split <;> simp [lastBody, anyEvent, hs']
      | synced => simp only [onMsg]; unfold onSynced; split <;> simp [lastBody, anyEvent, hs']
      | unlinked => simp [onMsg, unlinkAll] at h
      | event b => simp only [onMsg]; unfold dispatch; split <;> simp [lastBody, anyEvent, hs']
      | badEvent =>
        simp only [onMsg] at h ⊢; split at h
        · simp [unlinkAll] at h
        · rename_i ha
          simp only [ha, Bool.false_eq_true, ↓reduceIte]
          simp [lastBody, anyEvent, hs']

theorem lastBody_cons (e : REv) (es : List REv) (b : Body) : lastBody (e :: es) b = lastBody es (lastBody [e] b) := by
  cases e with
  | msg m => cases m <;> rfl
  | _ => rfl

theorem anyEvent_cons (e : REv) (es : List REv) (b : Bool) : anyEvent (e :: es) b = anyEvent es (anyEvent [e] b) := by
  cases e with
  | msg m => cases m <;> rfl
  | _ => rfl

theorem stopped_run {s : RSt} (evs : List REv) (h : s.stopped = true) : (rrun s evs).1.stopped = true := by
  induction evs generalizing s with
  | nil => exact h
  | cons e es ih =>
    apply ih
    cases e <;> simp [rstep, h]

theorem current_run (evs : List REv) : ∀ (s : RSt), (rrun s evs).1.stopped = false →
    (rrun s evs).1.current = lastBody evs s.current ∧ (rrun s evs).1.syncEvent = anyEvent evs s.syncEvent := by
  induction evs with
  | nil => intro s _; exact ⟨rfl, rfl⟩
  | cons e es ih =>
    intro s h
    simp only [rrun] at h ⊢
    have h1 : (rstep s e).1.stopped = false := by
      cases hb : (rstep s e).1.stopped with
      | false => rfl
      | true => rw [stopped_run es hb] at h; exact absurd h (by simp)
    have := current_step s e h1
    have := ih _ h
    rw [lastBody_cons, anyEvent_cons]
    simp_all


/-- `linked` is sent by the `Linked` handler (active) to live members of `awaiting_linked`, or at once to a
consumer that attaches when the link is already up. -/
theorem linked_source {s : RSt} (ev : REv) {i : Nat} (h : (i, Note.linked) ∈ (rstep s ev).2) :
    (ev = .msg .linked ∧ s.stopped = false ∧ s.timer = false ∧ ∃ x ∈ s.aLinked, x.id = i ∧ s.alive x = true) ∨
    (∃ y, ev = .attach y ∧ y.id = i ∧ s.dl ≠ .init) := by
  cases ev with
  | dropReader d => simp [rstep] at h
  | attach y =>
    simp only [rstep] at h; split at h
    · simp at h
    · unfold onAttach at h; split at h
      · simp at h
      · rename_i hdl
        split at h
        · have h' : (i, Note.linked) = (y.id, Note.linked) := by
            split at h <;> simpa using h
          simp only [Prod.mk.injEq] at h'
          exact Or.inr ⟨y, rfl, h'.1.symm, by intro hh; exact hdl hh⟩
        · simp at h
  | stop =>
    simp only [rstep] at h; split at h
    · simp at h
    · have := (mem_notesTo h).2; simp at this
  | msg m =>
    simp only [rstep] at h; split at h
    · simp at h
    · rename_i hst
      cases m with
      | linked =>
        simp only [onMsg] at h; unfold onLinked at h; split at h
        · simp at h
        · rename_i htm
          obtain ⟨x, hx, hi⟩ := (mem_notesTo h).1
          exact Or.inl ⟨rfl, by simpa using hst, by simpa using htm, x, (List.mem_filter.mp hx).1, hi,
            (List.mem_filter.mp hx).2⟩
      | synced =>
        simp only [onMsg] at h; unfold onSynced at h; split at h
        · simp at h
        · have := (mem_notesTo h).2
          split at this <;> simp at this
      | unlinked => have := (mem_notesTo (by simpa [onMsg, unlinkAll] using h)).2; simp at this
      | event b =>
        simp only [onMsg] at h; unfold dispatch at h; split at h
        · simp at h
        · simp only [List.mem_append] at h
          rcases h with h | h
          · have := (mem_notesTo h).2; simp at this
          · split at h
            · simp at h
            · have := (mem_notesTo h).2; simp at this
      | badEvent =>
        simp only [onMsg] at h; split at h
        · have := (mem_notesTo (by simpa [unlinkAll] using h)).2; simp at this
        · simp at h

/-- A consumer that did not ask for SYNC and is sent `linked` by the `Linked` handler is registered afterwards. -/
theorem linked_registers_nosync {c : Nat} {s : RSt} {p : Phase} {att : Bool} (h : PInv c s p att)
    (hl : Note.linked ∈ logOf c (rstep s (.msg .linked)).2) :
    ∃ x, (x.sync = false → RegAt c (rstep s (.msg .linked)).1 x) ∧ x ∈ s.aLinked ∧ x.id = c
      ∧ (rstep s (.msg .linked)).1.alive x = true ∧ (rstep s (.msg .linked)).1.stopped = false := by
  rcases linked_source _ (mem_logOf.mp hl) with ⟨_, hst, htm, y, hy, hyi, hya⟩ | ⟨y, hy, _⟩
  · have hsel : y ∈ sel c s.aLinked := List.mem_filter.mpr ⟨hy, by simp [hyi]⟩
    rcases h with ⟨h1, _, _, _⟩ | ⟨_, x, h1, h2, h3, _⟩ | ⟨_, x, h1, _, _, _⟩ | ⟨_, x, h1, _, _, _⟩ <;>
      try (rw [h1] at hsel; simp at hsel)
    have hxy : y = x := hsel
    subst hxy
    refine ⟨y, ?_, hy, hyi, ?_, ?_⟩
    · intro hns
      simp [rstep, hst, onMsg, onLinked, htm, RegAt, sel_append, sel_filter, h1, h2, h3, hya, hns]
    · simpa [rstep, hst, onMsg, onLinked, htm, RSt.alive] using hya
    · simp [rstep, hst, onMsg, onLinked, htm]
  · cases hy

/-! ### A consumer whose channel works is never dropped while the task runs -/

def RSt.members (s : RSt) : List Consumer := s.aLinked ++ s.aSynced ++ s.reg

theorem mem_members {s : RSt} {y : Consumer} :
    y ∈ s.members ↔ y ∈ s.aLinked ∨ y ∈ s.aSynced ∨ y ∈ s.reg := by
  simp [RSt.members, List.mem_append, or_assoc]

theorem onAttach_dead (s : RSt) (x : Consumer) : (onAttach s x).1.dead = s.dead := by
  unfold onAttach; split
  · rfl
  · split
    · split <;> rfl
    · rfl

theorem onAttach_members_mono (s : RSt) (x : Consumer) {y : Consumer} (h : y ∈ s.members) :
    y ∈ (onAttach s x).1.members := by
  rw [mem_members] at h
  unfold onAttach; split
  · rw [mem_members]; rcases h with h | h | h <;> simp [h]
  · split
    · split <;> (rw [mem_members]; rcases h with h | h | h <;> simp [h])
    · rw [mem_members]; exact h

theorem onAttach_self (s : RSt) (x : Consumer) (h : s.alive x = true) : x ∈ (onAttach s x).1.members := by
  unfold onAttach; split
  · rw [mem_members]; simp
  · rw [if_pos h]; split <;> (rw [mem_members]; simp)

/-- One loop event keeps every live member (unless the task stops); an attaching live consumer becomes one. -/
theorem members_step {s : RSt} (e : REv) {y : Consumer} (hrun : (rstep s e).1.stopped = false)
    (halive : (rstep s e).1.alive y = true) (hy : y ∈ s.members ∨ e = .attach y) : y ∈ (rstep s e).1.members := by
  have hst : s.stopped = false := by
    cases hb : s.stopped with
    | false => rfl
    | true => have : (rstep s e).1.stopped = true := by cases e <;> simp [rstep, hb]
              rw [this] at hrun; exact absurd hrun (by simp)
  cases e with
  | dropReader d =>
    rcases hy with hy | hy
    · simpa [rstep, RSt.members] using hy
    · cases hy
  | attach x =>
    simp only [rstep, hst, Bool.false_eq_true, ↓reduceIte] at hrun halive ⊢
    have hal : s.alive y = true := by simpa [RSt.alive, onAttach_dead] using halive
    rcases hy with hy | hy
    · exact onAttach_members_mono s x hy
    · cases hy; exact onAttach_self s y hal
  | stop => simp [rstep, hst, unlinkAll] at hrun
  | msg m =>
    have hy' : y ∈ s.members := by
      rcases hy with hy | hy
      · exact hy
      · cases hy
    rw [mem_members] at hy'
    simp only [rstep, hst, Bool.false_eq_true, ↓reduceIte] at hrun halive ⊢
    cases m with
    | unlinked => simp [onMsg, unlinkAll] at hrun
    | linked =>
      simp only [onMsg] at halive ⊢
      unfold onLinked at halive ⊢
      by_cases ht : s.timer = true
      · simp only [ht, ↓reduceIte] at halive ⊢; rw [mem_members]; exact hy'
      · simp only [ht, Bool.false_eq_true, ↓reduceIte] at halive ⊢
        have hal : s.alive y = true := by simpa [RSt.alive] using halive
        rw [mem_members]
        simp only [List.mem_append, List.mem_filter, List.not_mem_nil, false_or]
        rcases hy' with h | h | h
        · by_cases hs : y.sync = true
          · left; right; exact ⟨⟨h, hal⟩, hs⟩
          · right; right; exact ⟨⟨h, hal⟩, by simpa using hs⟩
        · left; left; exact h
        · right; left; exact h
    | synced =>
      simp only [onMsg] at halive ⊢
      unfold onSynced at halive ⊢
      by_cases ht : s.timer = true
      · simp only [ht, ↓reduceIte] at halive ⊢; rw [mem_members]; exact hy'
      · simp only [ht, Bool.false_eq_true, ↓reduceIte] at halive ⊢
        have hal : s.alive y = true := by simpa [RSt.alive] using halive
        rw [mem_members]
        simp only [List.mem_append, List.mem_filter, List.not_mem_nil, false_or]
        rcases hy' with h | h | h
        · left; exact h
        · right; right; exact ⟨h, hal⟩
        · right; left; exact h
    | event b =>
      simp only [onMsg] at halive ⊢
      unfold dispatch at halive ⊢
      by_cases ht : s.timer = true
      · simp only [ht, ↓reduceIte] at halive ⊢; rw [mem_members]; exact hy'
      · simp only [ht, Bool.false_eq_true, ↓reduceIte] at halive ⊢
        have hal : s.alive y = true := by simpa [RSt.alive] using halive
        rw [mem_members]
        simp only [List.mem_filter]
        rcases hy' with h | h | h
        · left; exact h
        · right; left
          by_cases hsg : s.single = true
          · simp only [hsg, ↓reduceIte]; exact h
          · simp only [hsg, Bool.false_eq_true, ↓reduceIte, List.mem_filter]; exact ⟨h, by simpa [RSt.alive] using hal⟩
        · right; right; exact ⟨h, by simpa [RSt.alive] using hal⟩
    | badEvent =>
      simp only [onMsg] at hrun halive ⊢
      by_cases ha : s.abort = true
      · simp [ha, unlinkAll] at hrun
      · simp only [ha, Bool.false_eq_true, ↓reduceIte] at halive ⊢
        rw [mem_members]; exact hy'

theorem dead_step (s : RSt) (e : REv) (d : Nat) (h : d ∈ (rstep s e).1.dead) : d ∈ s.dead ∨ e = .dropReader d := by
  cases e with
  | dropReader d' =>
    simp only [rstep, List.mem_cons] at h
    rcases h with h | h
    · right; rw [h]
    · left; exact h
  | attach x =>
    left
    simp only [rstep] at h; split at h
    · exact h
    · unfold onAttach at h; split at h
      · exact h
      · split at h
        · split at h <;> exact h
        · exact h
  | stop => left; simp only [rstep] at h; split at h <;> exact h
  | msg m =>
    left
    simp only [rstep] at h; split at h
    · exact h
    · cases m with
      | linked => simp only [onMsg] at h; unfold onLinked at h; split at h <;> exact h
      | synced => simp only [onMsg] at h; unfold onSynced at h; split at h <;> exact h
      | unlinked => exact h
      | event b => simp only [onMsg] at h; unfold dispatch at h; split at h <;> exact h
      | badEvent => simp only [onMsg] at h; split at h <;> exact h

theorem dead_mono (s : RSt) (e : REv) (d : Nat) (h : d ∈ s.dead) : d ∈ (rstep s e).1.dead := by
  cases e with
  | dropReader d' => simp [rstep, h]
  | attach x =>
    simp only [rstep]; split
    · exact h
    · unfold onAttach; split
      · exact h
      · split
        · split <;> exact h
        · exact h
  | stop => simp only [rstep]; split <;> exact h
  | msg m =>
    simp only [rstep]; split
    · exact h
    · cases m with
      | linked => simp only [onMsg]; unfold onLinked; split <;> exact h
      | synced => simp only [onMsg]; unfold onSynced; split <;> exact h
      | unlinked => exact h
      | event b => simp only [onMsg]; unfold dispatch; split <;> exact h
      | badEvent => simp only [onMsg]; split <;> exact h

theorem dead_mono_run (evs : List REv) : ∀ (s : RSt) (d : Nat), d ∈ s.dead → d ∈ (rrun s evs).1.dead := by
  induction evs with
  | nil => intro s d h; exact h
  | cons e es ih => intro s d h; exact ih _ d (dead_mono s e d h)

theorem dead_run (evs : List REv) : ∀ (s : RSt) (d : Nat), d ∈ (rrun s evs).1.dead →
    d ∈ s.dead ∨ REv.dropReader d ∈ evs := by
  induction evs with
  | nil => intro s d h; exact Or.inl h
  | cons e es ih =>
    intro s d h
    rcases ih _ d h with h1 | h1
    · rcases dead_step s e d h1 with h2 | h2
      · exact Or.inl h2
      · right; rw [h2]; simp
    · right; exact List.mem_cons_of_mem _ h1

/-- A consumer that attached, kept its reader and is looking at a running task is still a member. -/
theorem members_run (y : Consumer) (evs : List REv) : ∀ (s : RSt), (y ∈ s.members ∨ REv.attach y ∈ evs) →
    (rrun s evs).1.stopped = false → (rrun s evs).1.alive y = true → y ∈ (rrun s evs).1.members := by
  induction evs with
  | nil =>
    intro s h _ _
    rcases h with h | h
    · exact h
    · simp at h
  | cons e es ih =>
    intro s h hrun hal
    simp only [rrun] at hrun hal ⊢
    have hrun1 : (rstep s e).1.stopped = false := by
      cases hb : (rstep s e).1.stopped with
      | false => rfl
      | true => rw [stopped_run es hb] at hrun; exact absurd hrun (by simp)
    have hal1 : (rstep s e).1.alive y = true := by
      cases hb : (rstep s e).1.alive y with
      | true => rfl
      | false =>
        have hd : y.id ∈ (rstep s e).1.dead := by simpa [RSt.alive] using hb
        have := dead_mono_run es _ _ hd
        simp [RSt.alive, this] at hal
    apply ih _ _ hrun hal
    rcases h with h | h
    · exact Or.inl (members_step e hrun1 hal1 (Or.inl h))
    · rcases List.mem_cons.mp h with h | h
      · exact Or.inl (members_step e hrun1 hal1 (Or.inr h.symm))
      · exact Or.inr h

theorem accepts_fresh_nil {p : Phase} {l : List Note} (h : accepts p l = some .fresh) : l = [] := by
  induction l generalizing p with
  | nil => rfl
  | cons n ns ih =>
    simp only [accepts] at h
    split at h
    · rename_i q hq
      have := ih h
      subst this
      simp only [accepts, Option.some.injEq] at h
      subst h
      cases p <;> cases n <;> simp [Phase.next] at hq
    · cases h

theorem abort_run (s : RSt) (evs : List REv) : (rrun s evs).1.abort = s.abort := by
  induction evs generalizing s with
  | nil => rfl
  | cons e es ih => simp only [rrun]; rw [ih, abort_step]

theorem single_step (s : RSt) (e : REv) : (rstep s e).1.single = s.single := by
  cases e with
  | dropReader d => rfl
  | attach x =>
    simp only [rstep]; split
    · rfl
    · unfold onAttach; split
      · rfl
      · split
        · split <;> rfl
        · rfl
  | stop => simp only [rstep]; split <;> rfl
  | msg m =>
    simp only [rstep]; split
    · rfl
    · cases m with
      | linked => simp only [onMsg]; unfold onLinked; split <;> rfl
      | synced => simp only [onMsg]; unfold onSynced; split <;> rfl
      | unlinked => rfl
      | event b => simp only [onMsg]; unfold dispatch; split <;> rfl
      | badEvent => simp only [onMsg]; split <;> rfl

theorem single_run (s : RSt) (evs : List REv) : (rrun s evs).1.single = s.single := by
  induction evs generalizing s with
  | nil => rfl
  | cons e es ih => simp only [rrun]; rw [ih, single_step]

end SwimVerif.DL
