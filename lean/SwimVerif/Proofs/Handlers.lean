/-
Lemmas for C06: the `run_handler` loop over the small-step `step` of every combinator computes the big-step
reference `eval`, for every oracle `trig` (what the recursive `run_handler` call does), hence for `trigD`/`refD`.
-/
import SwimVerif.Model.Handlers

namespace SwimVerif.Handlers

/-! ### the modifying lane handlers report `Modification::of` (both flags): checked against the regenerated flags -/

@[simp] theorem valueSet_eq (id : Nat) : Mod.valueSet id = Mod.of id := rfl
@[simp] theorem mapUpdate_eq (id : Nat) : Mod.mapUpdate id = Mod.of id := rfl
@[simp] theorem mapRemove_eq (id : Nat) : Mod.mapRemove id = Mod.of id := rfl
@[simp] theorem mapClear_eq (id : Nat) : Mod.mapClear id = Mod.of id := rfl
@[simp] theorem mapTransform_eq (id : Nat) : Mod.mapTransform id = Mod.of id := rfl

/-- The four arms of `transform_entry` as the lane operations they amount to. -/
theorem xfM_cases (st : St) (m k : Nat) (f : Xf) :
    (∃ v2, f.app (alGet (st.readM m) k) = some v2 ∧ st.xfM m k f = (st.updM m k v2, true)) ∨
    (∃ v, f.app (alGet (st.readM m) k) = none ∧ alGet (st.readM m) k = some v ∧ st.xfM m k f = (st.remM m k, true)) ∨
    (f.app (alGet (st.readM m) k) = none ∧ alGet (st.readM m) k = none ∧ st.xfM m k f = (st, false)) := by
  unfold St.xfM
  cases h1 : f.app (alGet (st.readM m) k) with
  | some v2 => exact Or.inl ⟨v2, rfl, rfl⟩
  | none =>
    cases h2 : alGet (st.readM m) k with
    | some v => exact Or.inr (Or.inl ⟨v, rfl, rfl, rfl⟩)
    | none => exact Or.inr (Or.inr ⟨rfl, rfl, rfl⟩)

/-! ### every `Continue` makes the handler smaller -/

theorem wrapStep_size (W : H → H) (nx : Option H) (r : H × St × Out) (a : H) (m : Option Mod)
    (hW : ∀ x, size x < size a → size (W x) < size (W a))
    (hnx : ∀ h, nx = some h → size h < size (W a))
    (ih : ∀ m, r.2.2 = .cont m → size r.1 < size a)
    (h : (wrapStep W nx r).2.2 = .cont m) : size (wrapStep W nx r).1 < size (W a) := by
  obtain ⟨a', st', o⟩ := r
  cases o with
  | cont m' => simp only [wrapStep] at h ⊢; exact hW _ (ih m' rfl)
  | fail e => simp [wrapStep] at h
  | complete m' =>
    cases nx with
    | none => simp [wrapStep] at h
    | some x => simp only [wrapStep]; exact hnx x rfl

theorem seqNext_size (t x : H) (h : seqNext t = some x) : size x < size t := by
  cases t <;> simp [seqNext] at h
  subst h; simp [size]

theorem step_size (h : H) : ∀ (st : St) (m : Option Mod), (step st h).2.2 = .cont m → size (step st h).1 < size h := by
  induction h with
  | fby a b iha _ =>
    intro st m hc
    exact wrapStep_size (fun x => .fby x b) (some (.snd b)) (step st a) a m
      (by intro x hx; simp [size]; omega) (by intro h hh; cases hh; simp [size]; omega) (iha st) hc
  | athen a b iha _ =>
    intro st m hc
    exact wrapStep_size (fun x => .athen x b) (some (.snd b)) (step st a) a m
      (by intro x hx; simp [size]; omega) (by intro h hh; cases hh; simp [size]; omega) (iha st) hc
  | snd b ih =>
    intro st m hc
    exact wrapStep_size .snd none (step st b) b m
      (by intro x hx; simp [size]; omega) (by intro h hh; cases hh) (ih st) hc
  | seqCons a t iha _ =>
    intro st m hc
    have := wrapStep_size (fun x => .seqRun x t) (seqNext t) (step st a) a m
      (by intro x hx; simp [size]; omega)
      (by intro h hh; have := seqNext_size t h hh; simp [size]; omega) (iha st) hc
    simp only [step, size] at this ⊢; omega
  | seqRun a t iha _ =>
    intro st m hc
    exact wrapStep_size (fun x => .seqRun x t) (seqNext t) (step st a) a m
      (by intro x hx; simp [size]; omega)
      (by intro h hh; have := seqNext_size t h hh; simp [size]; omega) (iha st) hc
  | left a ih =>
    intro st m hc
    exact wrapStep_size .left none (step st a) a m
      (by intro x hx; simp [size]; omega) (by intro h hh; cases hh) (ih st) hc
  | right a ih =>
    intro st m hc
    exact wrapStep_size .right none (step st a) a m
      (by intro x hx; simp [size]; omega) (by intro h hh; cases hh) (ih st) hc
  | optSome a ih =>
    intro st m hc
    exact wrapStep_size .optSome none (step st a) a m
      (by intro x hx; simp [size]; omega) (by intro h hh; cases hh) (ih st) hc
  | remMulti mm keys =>
    intro st m hc
    cases keys with
    | nil => simp [step] at hc
    | cons k rest => simp [step, size]
  | _ => intro st m hc; simp [step] at hc <;> simp [step, size]

/-! ### fuel irrelevance -/

theorem runLoop_fuel (trig : Trig) : ∀ (n : Nat) (h : H) (st : St) (n' : Nat), size h < n → size h < n' →
    runLoop trig n h st = runLoop trig n' h st := by
  intro n
  induction n with
  | zero => intro h st n' h1; omega
  | succ n ih =>
    intro h st n' h1 h2
    cases n' with
    | zero => omega
    | succ n' =>
      simp only [runLoop]
      rcases hs : step st h with ⟨h', st', o⟩
      cases o with
      | cont m =>
        have hlt : size h' < size h := by
          have := step_size h st m (by rw [hs]); rw [hs] at this; exact this
        simp only
        rcases afterMod trig m st' with ⟨st'', oc⟩
        cases oc with
        | ok => simp only; exact ih h' st'' n' (by omega) (by omega)
        | err e => rfl
      | fail e => rfl
      | complete m => rfl

theorem runLoop_eq_run (trig : Trig) (n : Nat) (h : H) (st : St) (hn : size h < n) :
    runLoop trig n h st = run trig h st :=
  runLoop_fuel trig n h st (size h + 1) hn (by omega)

/-! ### the wrapping combinators: run the inner handler, then go on -/

/-- What a wrapper does once its inner handler has run to completion. -/
def afterWrap (trig : Trig) (nx : Option H) (r : St × Outcome) : St × Outcome :=
  match r with
  | (st, .ok) =>
    match nx with
    | some h => run trig h st
    | none => (st, .ok)
  | (st, .err e) => (st, .err e)

theorem runLoop_wrap (trig : Trig) (W : H → H) (nx : Option H)
    (hstep : ∀ st a, step st (W a) = wrapStep W nx (step st a))
    (hW : ∀ x a, size x < size a → size (W x) < size (W a))
    (hnx : ∀ h a, nx = some h → size h < size (W a)) :
    ∀ (n : Nat) (a : H) (st : St) (N : Nat), size a < n → size (W a) < N →
      runLoop trig N (W a) st = afterWrap trig nx (runLoop trig n a st) := by
  intro n
  induction n with
  | zero => intro a st N h1; omega
  | succ n ih =>
    intro a st N h1 h2
    cases N with
    | zero => omega
    | succ N =>
      simp only [runLoop, hstep]
      rcases hs : step st a with ⟨a', st', o⟩
      cases o with
      | cont m =>
        have hlt : size a' < size a := by
          have := step_size a st m (by rw [hs]); rw [hs] at this; exact this
        simp only [wrapStep]
        rcases afterMod trig m st' with ⟨st'', oc⟩
        cases oc with
        | ok => simp only; exact ih a' st'' N (by omega) (by have := hW a' a hlt; omega)
        | err e => simp [afterWrap]
      | fail e => simp [wrapStep, afterWrap]
      | complete m =>
        cases nx with
        | none =>
          simp only [wrapStep]
          rcases afterMod trig m st' with ⟨st'', oc⟩
          cases oc <;> simp [afterWrap]
        | some x =>
          simp only [wrapStep]
          rcases afterMod trig m st' with ⟨st'', oc⟩
          cases oc with
          | ok =>
            simp only [afterWrap]
            exact runLoop_eq_run trig N x st'' (by have := hnx x a rfl; omega)
          | err e => simp [afterWrap]

theorem run_wrap (trig : Trig) (W : H → H) (nx : Option H)
    (hstep : ∀ st a, step st (W a) = wrapStep W nx (step st a))
    (hW : ∀ x a, size x < size a → size (W x) < size (W a))
    (hnx : ∀ h a, nx = some h → size h < size (W a)) (a : H) (st : St) :
    run trig (W a) st = afterWrap trig nx (run trig a st) :=
  runLoop_wrap trig W nx hstep hW hnx (size a + 1) a st (size (W a) + 1) (by omega) (by omega)

theorem run_snd (trig : Trig) (b : H) (st : St) : run trig (.snd b) st = run trig b st := by
  rw [run_wrap trig .snd none (fun _ _ => rfl) (by intro x a h; simp [size]; omega) (by intro h a hh; cases hh)]
  rcases run trig b st with ⟨st', o⟩
  cases o <;> rfl

theorem run_fby (trig : Trig) (a b : H) (st : St) :
    run trig (.fby a b) st = seqThen (run trig a st) (run trig b) := by
  rw [run_wrap trig (fun x => .fby x b) (some (.snd b)) (fun _ _ => rfl)
    (by intro x a h; simp [size]; omega) (by intro h a hh; cases hh; simp [size]; omega)]
  rcases run trig a st with ⟨st', o⟩
  cases o <;> simp [afterWrap, seqThen, run_snd]

theorem run_athen (trig : Trig) (a b : H) (st : St) :
    run trig (.athen a b) st = seqThen (run trig a st) (run trig b) := by
  rw [run_wrap trig (fun x => .athen x b) (some (.snd b)) (fun _ _ => rfl)
    (by intro x a h; simp [size]; omega) (by intro h a hh; cases hh; simp [size]; omega)]
  rcases run trig a st with ⟨st', o⟩
  cases o <;> simp [afterWrap, seqThen, run_snd]

theorem run_left (trig : Trig) (a : H) (st : St) : run trig (.left a) st = run trig a st := by
  rw [run_wrap trig .left none (fun _ _ => rfl) (by intro x a h; simp [size]; omega) (by intro h a hh; cases hh)]
  rcases run trig a st with ⟨st', o⟩
  cases o <;> rfl

theorem run_right (trig : Trig) (a : H) (st : St) : run trig (.right a) st = run trig a st := by
  rw [run_wrap trig .right none (fun _ _ => rfl) (by intro x a h; simp [size]; omega) (by intro h a hh; cases hh)]
  rcases run trig a st with ⟨st', o⟩
  cases o <;> rfl

theorem run_optSome (trig : Trig) (a : H) (st : St) : run trig (.optSome a) st = run trig a st := by
  rw [run_wrap trig .optSome none (fun _ _ => rfl) (by intro x a h; simp [size]; omega) (by intro h a hh; cases hh)]
  rcases run trig a st with ⟨st', o⟩
  cases o <;> rfl

theorem run_seqRun (trig : Trig) (a t : H) (st : St) :
    run trig (.seqRun a t) st = afterWrap trig (seqNext t) (run trig a st) :=
  run_wrap trig (fun x => .seqRun x t) (seqNext t) (fun _ _ => rfl)
    (by intro x a h; simp [size]; omega)
    (by intro h a hh; have := seqNext_size t h hh; simp [size]; omega) a st

/-- `Sequentially::Init` does in its first `step` what `Running` does. -/
theorem run_seqCons (trig : Trig) (a t : H) (st : St) :
    run trig (.seqCons a t) st = run trig (.seqRun a t) st := by
  have h1 : run trig (.seqCons a t) st = runLoop trig (size (H.seqRun a t) + 2) (.seqCons a t) st := by
    simp [run, size]
  rw [h1, ← runLoop_eq_run trig (size (H.seqRun a t) + 2) (.seqRun a t) st (by omega)]
  simp only [runLoop, step]

/-- `MapLaneRemoveMultiple`: one removal, the handlers it triggers run to completion, then the remaining keys. -/
theorem run_remMulti_cons (trig : Trig) (m k : Nat) (rest : List Nat) (st : St) :
    run trig (.remMulti m (k :: rest)) st =
      seqThen (trig (mid m) ((st.remM m k).addDirty (mid m))) (run trig (.remMulti m rest)) := by
  have hrun : ∀ s, runLoop trig (rest.length + 2) (.remMulti m rest) s = run trig (.remMulti m rest) s :=
    fun s => rfl
  have hsz : size (H.remMulti m (k :: rest)) + 1 = (rest.length + 2) + 1 := by simp [size]
  unfold run
  rw [hsz]
  generalize rest.length + 2 = N at hrun ⊢
  simp only [runLoop, step, afterMod, mapRemove_eq, Mod.of, if_true]
  rcases trig (mid m) ((st.remM m k).addDirty (mid m)) with ⟨st', o⟩
  cases o with
  | ok => exact hrun st'
  | err e => rfl

theorem run_remMulti_nil (trig : Trig) (m : Nat) (st : St) : run trig (.remMulti m []) st = (st, .ok) := by
  simp [run, runLoop, step, afterMod]

/-! ### the loop computes the reference -/

theorem run_eq_eval (trig : Trig) (h : H) : ∀ st, run trig h st = eval trig h st := by
  induction h with
  | emit e => intro st; simp [run, runLoop, step, afterMod, eval]
  | getLog l => intro st; simp [run, size, runLoop, step, afterMod, eval, wrapStep]
  | copy s d k => intro st; simp [run, size, runLoop, step, afterMod, eval, wrapStep, Mod.of]
  | set l n => intro st; simp [run, runLoop, step, afterMod, eval, Mod.of]
  | mupd m k n => intro st; simp [run, runLoop, step, afterMod, eval, Mod.of]
  | mrem m k => intro st; simp [run, runLoop, step, afterMod, eval, Mod.of]
  | mclr m => intro st; simp [run, runLoop, step, afterMod, eval, Mod.of]
  | mgetLog m k => intro st; simp [run, size, runLoop, step, afterMod, eval, wrapStep]
  | mxf m k f =>
    intro st
    simp only [run, runLoop, step, eval]
    cases (st.xfM m k f).2 <;> simp [afterMod, Mod.of]
  | mwithLog m k => intro st; simp [run, size, runLoop, step, afterMod, eval, wrapStep]
  | remMulti m keys =>
    intro st
    simp only [eval]
    induction keys generalizing st with
    | nil => rw [run_remMulti_nil]; rfl
    | cons k rest ih =>
      rw [run_remMulti_cons]; simp only [evalRem]
      rcases trig (mid m) ((st.remM m k).addDirty (mid m)) with ⟨st', o⟩
      cases o <;> simp [seqThen, ih]
  | fby a b iha ihb =>
    intro st; rw [run_fby, iha]; simp only [eval]
    rcases eval trig a st with ⟨st', o⟩; cases o <;> simp [seqThen, ihb]
  | athen a b iha ihb =>
    intro st; rw [run_athen, iha]; simp only [eval]
    rcases eval trig a st with ⟨st', o⟩; cases o <;> simp [seqThen, ihb]
  | snd b ih => intro st; rw [run_snd, ih]; simp [eval]
  | seqNil => intro st; simp [run, runLoop, step, afterMod, eval]
  | seqCons a t iha iht =>
    intro st; rw [run_seqCons, run_seqRun, iha]; simp only [eval]
    rcases eval trig a st with ⟨st', o⟩
    cases o with
    | err e => simp [afterWrap, seqThen]
    | ok =>
      cases t <;> simp [afterWrap, seqThen, seqNext]
      rename_i h2 t2
      rw [← iht, run_seqCons]
  | seqRun a t iha iht =>
    intro st; rw [run_seqRun, iha]; simp only [eval]
    rcases eval trig a st with ⟨st', o⟩
    cases o with
    | err e => simp [afterWrap, seqThen]
    | ok =>
      cases t <;> simp [afterWrap, seqThen, seqNext]
      rename_i h2 t2
      rw [← iht, run_seqCons]
  | left a ih => intro st; rw [run_left, ih]; simp [eval]
  | right a ih => intro st; rw [run_right, ih]; simp [eval]
  | optNone => intro st; simp [run, runLoop, step, afterMod, eval]
  | optSome a ih => intro st; rw [run_optSome, ih]; simp [eval]
  | fail => intro st; simp [run, runLoop, step, eval]
  | stop => intro st; simp [run, runLoop, step, eval]
  | suspend a => intro st; simp [run, runLoop, step, afterMod, eval]
  | done => intro st; simp [run, runLoop, step, eval]

theorem trigD_eq_refD (P : Prog) : ∀ d, trigD P d = refD P d := by
  intro d
  induction d with
  | zero => rfl
  | succ d ih =>
    funext id st
    simp only [trigD, refD]
    rcases consequence P id st with ⟨st', c⟩
    cases c with
    | none => rfl
    | some x =>
      cases x with
      | error e => rfl
      | ok h => simp only; rw [ih]; exact run_eq_eval (refD P d) h st'

end SwimVerif.Handlers
