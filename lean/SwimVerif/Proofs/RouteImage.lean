/-
C18: the image of `RoutePattern::parse` is exactly the set of `renderable` pattern values
(second parser invariant: literals never start with `:`, the scheme is a letter + `:`-,`/`-free bytes, a pattern
without segments is `scheme:`).
-/
import SwimVerif.Proofs.RouteParse

set_option linter.unusedSimpArgs false
set_option linter.unusedVariables false
namespace SwimVerif.Route

theorem toSeg_lit (st : Nat) (acc : Bytes) : Segment.toSeg ⟨st, acc, false⟩ = .lit acc := by simp [Segment.toSeg]
theorem toSeg_param (st : Nat) (acc : Bytes) : Segment.toSeg ⟨st, acc, true⟩ = .param acc := by simp [Segment.toSeg]
theorem noColonStart_param (n : Bytes) : Seg.noColonStart (.param n) = true := by simp [Seg.noColonStart]

theorem isAlpha_58 : isAlpha 58 = false := by decide

theorem noColonStart_single (c : Nat) (h : c ≠ 58) : Seg.noColonStart (.lit [c]) = true := by
  unfold Seg.noColonStart
  split <;> simp_all

theorem noColonStart_snoc (acc : Bytes) (c : Nat) (hne : acc ≠ []) (h : Seg.noColonStart (.lit acc) = true) :
    Seg.noColonStart (.lit (acc ++ [c])) = true := by
  cases acc with
  | nil => exact absurd rfl hne
  | cons b tl =>
    unfold Seg.noColonStart at h ⊢
    split at h
    · simp at h
    · rename_i hn
      split
      · rename_i heq
        simp only [List.cons_append, Seg.lit.injEq, List.cons.injEq] at heq
        exact absurd (by rw [heq.1]) (hn tl)
      · rfl

theorem schemeOk_single (c : Nat) (h : isAlpha c = true) : patSchemeOk (some [c]) = true := by
  simp [patSchemeOk, h]

theorem schemeOk_snoc (acc : Bytes) (c : Nat) (h : patSchemeOk (some acc) = true) (h1 : c ≠ 58) (h2 : c ≠ 47) :
    patSchemeOk (some (acc ++ [c])) = true := by
  cases acc with
  | nil => simp [patSchemeOk] at h
  | cons b tl =>
    simp only [patSchemeOk, Bool.and_eq_true, Bool.not_eq_eq_eq_not, Bool.not_true, List.cons_append] at h ⊢
    refine ⟨⟨h.1.1, ?_⟩, ?_⟩
    · simp only [List.contains_eq_mem, List.mem_append, List.mem_singleton, decide_eq_false_iff_not] at h ⊢
      intro e; rcases e with e | e
      · exact h.1.2 e
      · exact h1 e.symm
    · simp only [List.contains_eq_mem, List.mem_append, List.mem_singleton, decide_eq_false_iff_not] at h ⊢
      intro e; rcases e with e | e
      · exact h.2 e
      · exact h2 e.symm

theorem schemeOk_noColonStart (acc : Bytes) (h : patSchemeOk (some acc) = true) :
    Seg.noColonStart (.lit acc) = true := by
  cases acc with
  | nil => simp [patSchemeOk] at h
  | cons b tl =>
    simp only [patSchemeOk, Bool.and_eq_true] at h
    unfold Seg.noColonStart
    split
    · rename_i heq
      simp only [Seg.lit.injEq, List.cons.injEq] at heq
      have := h.1.1
      rw [heq.1, isAlpha_58] at this
      simp at this
    · rfl

theorem schemeOk_ne_nil (acc : Bytes) (h : patSchemeOk (some acc) = true) : acc ≠ [] := by
  intro e; subst e; simp [patSchemeOk] at h

theorem forall_mem_snoc {α : Type} {P : α → Prop} {xs : List α} {x : α} (h : ∀ s ∈ xs, P s) (hx : P x) :
    ∀ s ∈ xs ++ [x], P s := by
  intro s hs
  simp only [List.mem_append, List.mem_singleton] at hs
  rcases hs with hs | rfl
  · exact h s hs
  · exact hx

def curOk2 (scheme : Option Bytes) (absolute : Bool) : PState → Prop
  | .start => scheme = none ∧ absolute = false
  | .schemeOrLiteral _ acc => scheme = none ∧ absolute = false ∧ patSchemeOk (some acc) = true
  | .literal _ acc => acc ≠ [] ∧ Seg.noColonStart (.lit acc) = true
  | .afterScheme => absolute = false
  | _ => True

structure RInv (a : PAcc) : Prop where
  segs : ∀ s ∈ a.segments, s.toSeg.noColonStart = true
  sch : patSchemeOk a.scheme = true
  cur : curOk2 a.scheme a.absolute a.st

theorem rinv_init : RInv {} := ⟨by simp, by simp [patSchemeOk], by simp [curOk2]⟩

theorem rinv_transition (a : PAcc) (c offset : Nat) (h : RInv a) : RInv (transition a c offset) := by
  obtain ⟨st, scheme, absolute, segments⟩ := a
  obtain ⟨hs, hsch, hc⟩ := h
  simp only at hs hsch hc
  cases st <;> simp only [curOk2] at hc <;> simp only [transition] <;> (repeat' split) <;>
    refine ⟨?_, ?_, ?_⟩
  all_goals
    first
    | exact hs
    | exact hsch
    | exact hc.2.2
    | trivial
    | (apply forall_mem_snoc hs
       simp_all [toSeg_lit, toSeg_param, noColonStart_param, schemeOk_noColonStart]
       done)
    | (simp_all [curOk2, schemeOk_single, schemeOk_snoc, noColonStart_single, noColonStart_snoc]
       done)

theorem rinv_loop (a : PAcc) (offset : Nat) (s : Bytes) (a' : PAcc) (off' : Nat)
    (h : parseLoop a offset s = .ok (a', off')) (hi : RInv a) : RInv a' := by
  induction s generalizing a offset with
  | nil => simp [parseLoop] at h; obtain ⟨rfl, rfl⟩ := h; exact hi
  | cons c rest ih =>
    simp only [parseLoop] at h
    split at h
    · simp at h
    · exact ih _ _ h (rinv_transition a c offset hi)

theorem rinv_end (a : PAcc) (offset : Nat) (segs : List Segment) (hi : RInv a) (hp : PInv a)
    (hf : ∀ o, a.st ≠ .failed o) (h : parseEnd a offset = .ok segs) :
    (∀ s ∈ segs, s.toSeg.noColonStart = true) ∧ (segs = [] → a.scheme ≠ none ∧ a.absolute = false) := by
  obtain ⟨st, scheme, absolute, segments⟩ := a
  obtain ⟨hs, hsch, hc⟩ := hi
  obtain ⟨_, hpc, _⟩ := hp
  simp only at hs hsch hc hpc
  cases st <;> simp only [curOk2] at hc <;> simp only [curOk] at hpc <;> simp only [parseEnd] at h <;>
    (repeat' split at h) <;> simp at h <;> (try subst h) <;> refine ⟨?_, ?_⟩
  all_goals
    first
    | exact hs
    | (simp_all; done)
    | (apply forall_mem_snoc hs
       simp_all [toSeg_lit, toSeg_param, noColonStart_param, schemeOk_noColonStart]
       done)

theorem parsePattern_renderable (s : Bytes) (p : Pat) (h : parsePattern s = .ok p) : p.renderable = true := by
  have hso := parsePattern_structOk s p h
  unfold parsePattern at h
  split at h
  · simp at h
  · rename_i a offset hloop
    have hr := rinv_loop _ _ _ _ _ hloop rinv_init
    have hp := pinv_loop _ _ _ _ _ hloop pinv_init
    have hnf := parseLoop_not_failed _ _ _ _ _ hloop (by simp)
    split at h
    · simp at h
    · rename_i segments hend
      obtain ⟨hnc, hemp⟩ := rinv_end a offset segments hr hp hnf hend
      split at h
      · simp at h
      · simp only [Except.ok.injEq] at h
        subst h
        simp only [Pat.renderable, Bool.and_eq_true, List.all_eq_true, List.mem_map, forall_exists_index, and_imp,
          forall_apply_eq_imp_iff₂]
        refine ⟨⟨⟨hso, hnc⟩, hr.sch⟩, ?_⟩
        cases segments with
        | nil =>
          obtain ⟨h1, h2⟩ := hemp rfl
          cases hsc : a.scheme with
          | none => exact absurd hsc h1
          | some x => simp [h2]
        | cons x xs => simp

/-- The image of `parse` is exactly `renderable`. -/
theorem parse_image (p : Pat) : (∃ s, parsePattern s = .ok p) ↔ p.renderable = true :=
  ⟨fun ⟨s, h⟩ => parsePattern_renderable s p h, fun h => ⟨p.render, parsePattern_render p h⟩⟩

end SwimVerif.Route
