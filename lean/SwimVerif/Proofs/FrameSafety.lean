/-
C10 — no modelled decoder panics or aborts, on any input (after the fixes cd6bc7e, 442681d): every call of every
`decode` ends in `more`, `item` or `err`; hence no read, under any chunking, ends in `panic` / `abort`.
-/
import SwimVerif.Proofs.FrameCodecs

set_option linter.unusedSimpArgs false
namespace SwimVerif.Frames
open SwimVerif.Generated.Wire

/-- An outcome that is neither a panic nor an abort. -/
def Out.safe {α : Type} : Out α → Prop
  | .panic => False
  | .abort => False
  | _ => True

def PSafe {α : Type} (p : Parser α) : Prop := ∀ buf, (p buf).2.safe
def DSafe {α : Type} (D : Dec α) : Prop := ∀ s buf, (D.step s buf).2.2.safe

theorem Out.safe_map {α β : Type} (f : α → β) (o : Out α) (h : o.safe) : (o.map f).safe := by
  cases o <;> simp_all [Out.map, Out.safe]

macro "psafe" : tactic => `(tactic| (intro buf; (repeat' split) <;> simp [Out.safe]))

theorem wlb_safe : PSafe wlb := by unfold PSafe wlb; psafe
theorem rawMapOp_safe : PSafe rawMapOp := by
  unfold PSafe rawMapOp rawMapOpUpdate rawMapOpRemove rawMapOpUpdateFrame; psafe
theorem rawMapMsg_safe : PSafe rawMapMsg := by
  intro buf
  unfold rawMapMsg
  repeat' split
  all_goals first | (simp [Out.safe]; done) | exact Out.safe_map _ _ (rawMapOp_safe buf)
theorem downlinkOp_safe : PSafe downlinkOp := by unfold PSafe downlinkOp; psafe
theorem storeInitialized_safe : PSafe storeInitialized := by unfold PSafe storeInitialized; psafe
theorem rawRequest_safe : PSafe rawRequest := by unfold PSafe rawRequest msgAfterHeader; psafe
theorem rawResponse_safe : PSafe rawResponse := by unfold PSafe rawResponse msgAfterHeader; psafe

theorem Dec.ofParser_safe {α : Type} {p : Parser α} (h : PSafe p) : DSafe (Dec.ofParser p) := by
  intro s buf; exact h buf

variable {β : Type} {p : Parser β}

theorem laneReqBody_safe (h : PSafe p) (buf : Bytes) : (laneReqBody p buf).2.2.safe := by
  have := h buf
  unfold laneReqBody
  cases hp : (p buf).2 <;> simp_all [Out.safe]

theorem laneRequest_safe (h : PSafe p) : DSafe (laneRequest p) := by
  intro s buf
  cases s with
  | body => exact laneReqBody_safe h buf
  | header =>
    simp only [laneRequest, laneReqStep]
    repeat' split
    all_goals first | (simp [Out.safe]; done) | exact laneReqBody_safe h _

theorem laneRespBody_safe (h : PSafe p) (st : RespSt) (w : β → LaneResponse β) (buf : Bytes) :
    (laneRespBody p st w buf).2.2.safe := by
  have := h buf
  unfold laneRespBody
  cases hp : (p buf).2 <;> simp_all [Out.safe]

theorem laneResponse_safe (h : PSafe p) : DSafe (laneResponse p) := by
  intro s buf
  cases s with
  | std => exact laneRespBody_safe h _ _ buf
  | sync id => exact laneRespBody_safe h _ _ buf
  | header =>
    simp only [laneResponse, laneRespStep]
    repeat' split
    all_goals first | (simp [Out.safe]; done) | exact laneRespBody_safe h _ _ _

theorem storeInitBody_safe (h : PSafe p) (buf : Bytes) : (storeInitBody p buf).2.2.safe := by
  have := h buf
  unfold storeInitBody
  cases hp : (p buf).2 <;> simp_all [Out.safe]

theorem storeInit_safe (h : PSafe p) : DSafe (storeInit p) := by
  intro s buf
  cases s with
  | body => exact storeInitBody_safe h buf
  | header =>
    simp only [storeInit, storeInitStep]
    repeat' split
    all_goals first | (simp [Out.safe]; done) | exact storeInitBody_safe h _

theorem storeRespBody_safe (h : PSafe p) (buf : Bytes) : (storeRespBody p buf).2.2.safe := by
  have := h buf
  unfold storeRespBody
  cases hp : (p buf).2 <;> simp_all [Out.safe]

theorem storeResponse_safe (h : PSafe p) : DSafe (storeResponse p) := by
  intro s buf
  cases s with
  | body => exact storeRespBody_safe h buf
  | header =>
    simp only [storeResponse, storeRespStep]
    repeat' split
    all_goals first | (simp [Out.safe]; done) | exact storeRespBody_safe h _

theorem cmdBody_safe (st : CmdSt) (w : Bytes → CmdMsg) (buf : Bytes) : (cmdBody st w buf).2.2.safe := by
  have := wlb_safe buf
  unfold cmdBody
  cases hp : (wlb buf).2 <;> simp_all [Out.safe]

theorem cmdStrings_safe {α : Type} (hh : Bool) (a b c : Nat) (buf : Bytes) (k : Addr → Bytes → CmdSt × Bytes × Out α)
    (hk : ∀ x y, (k x y).2.2.safe) : (cmdStrings hh a b c buf k).2.2.safe := by
  unfold cmdStrings
  repeat' split
  all_goals first | (simp [Out.safe]; done) | exact hk _ _

theorem rawCommand_safe : DSafe rawCommand := by
  have hA : ∀ f buf, (cmdAddressedHeader f buf).2.2.safe := by
    intro f buf
    dsimp only [cmdAddressedHeader]
    repeat' split
    all_goals first | (simp [Out.safe]; done) | (apply cmdStrings_safe; intro x y; exact cmdBody_safe _ _ _)
  have hR : ∀ f buf, (cmdRegistrationArm f buf).2.2.safe := by
    intro f buf
    dsimp only [cmdRegistrationArm]
    repeat' split
    all_goals first | (simp [Out.safe]; done) | (apply cmdStrings_safe; intro x y; simp [Out.safe])
  have hH : ∀ f buf, (cmdRegisteredHeader f buf).2.2.safe := by
    intro f buf
    unfold cmdRegisteredHeader
    split
    · simp [Out.safe]
    · exact cmdBody_safe _ _ _
  intro s buf
  cases s with
  | init =>
    simp only [rawCommand, cmdStep]
    repeat' split
    all_goals first | (simp [Out.safe]; done) | exact hA _ _ | exact hR _ _ | exact hH _ _
  | readingRegistration f => exact hR f buf
  | readingRegisteredHeader f => exact hH f buf
  | readingAddressedHeader f => exact hA f buf
  | readingAddressedBody a ow => exact cmdBody_safe _ _ _
  | readingRegisteredBody id ow => exact cmdBody_safe _ _ _

/-! run level -/
def Status.safe : Status → Prop
  | .panic => False
  | .abort => False
  | _ => True

theorem loop_safe {α : Type} {D : Dec α} (h : DSafe D) :
    ∀ (fuel : Nat) (s : D.σ) (buf : List Nat) (acc : List α), (loop D fuel s buf acc).status.safe := by
  intro fuel
  induction fuel with
  | zero => intro s buf acc; simp [loop, Status.safe]
  | succ n ih =>
    intro s buf acc
    have hs := h s buf
    unfold loop
    cases ho : (D.step s buf).2.2 with
    | more => simp [Status.safe]
    | item a => simpa using ih _ _ _
    | err => simp [Status.safe]
    | panic => rw [ho] at hs; exact hs.elim
    | abort => rw [ho] at hs; exact hs.elim

theorem feedAll_safe {α : Type} {D : Dec α} (h : DSafe D) :
    ∀ (chunks : List (List Nat)) (s : D.σ) (buf : List Nat) (acc : List α),
      (feedAll D s buf chunks acc).status.safe := by
  intro chunks
  induction chunks with
  | nil => intro s buf acc; simp [feedAll, Status.safe]
  | cons c cs ih =>
    intro s buf acc
    unfold feedAll
    split
    · exact ih _ _ _
    · exact loop_safe h _ _ _ _

theorem run_safe {α : Type} {D : Dec α} (h : DSafe D) (chunks : List (List Nat)) :
    (run D chunks).status ≠ .panic ∧ (run D chunks).status ≠ .abort := by
  have := feedAll_safe h chunks D.init [] []
  unfold run
  constructor <;> intro hc <;> rw [hc] at this <;> exact this

end SwimVerif.Frames
