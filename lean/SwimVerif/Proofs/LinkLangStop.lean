/-
T2 statements about the whole write task (C04): what is owed to a remote after `unlink_all` (every linked
(remote, lane) gets exactly one `unlinked`, the others none), and after an unknown-lane request.
-/
import SwimVerif.Proofs.LinkLangDone

set_option linter.unusedSimpArgs false
set_option linter.unusedVariables false
namespace SwimVerif.WT

/-- After the `unlinked`s for the pairs `ps` have been pushed, what is owed to remote `r` on the name of lane
`l` has grown by exactly one `unlinked` if `(l, r)` is listed and is unchanged otherwise. -/
theorem pend_foldUnl (m : UnlinkMsg) (st : List (Nat × Bool)) : ∀ (ps : List (Nat × Nat)) (s : St)
    (L : Nat → Nat → Prop), ps.Nodup → s.reg.Nodup → SInv s.reg st L s.remotes → (∀ p ∈ ps, L p.2 p.1) →
    ∀ r rem, alGet s.remotes r = some rem →
    ∃ rem', alGet (foldUnl m ps s).remotes r = some rem' ∧
      ∀ l n, s.reg.nameFor l = some n →
        pend s.reg rem'.up rem'.inflight n =
          pend s.reg rem.up rem.inflight n ++ (if (l, r) ∈ ps then [Note.unlinked m] else []) := by
  intro ps
  induction ps with
  | nil =>
    intro s L _ _ _ _ r rem hg
    exact ⟨rem, hg, fun l n _ => by simp⟩
  | cons p ps ih =>
    intro s L hnd hreg hs hp r rem hg
    simp only [foldUnl, List.foldl]
    have hsame := same_pushSpecial s p.2 (.unlinked p.1 m)
    have h1 : SInv s.reg st (fun r l => L r l ∧ ¬ (r = p.2 ∧ l = p.1))
        (s.pushSpecial p.2 (.unlinked p.1 m)).1.remotes :=
      sinv_pushSpecial_unlinked hs hreg p.2 p.1 m (hp p (by simp)) (fun r' l' h => h)
    have hnd' := List.nodup_cons.mp hnd
    have hp1 : ∀ q ∈ ps, (fun r l => L r l ∧ ¬ (r = p.2 ∧ l = p.1)) q.2 q.1 := by
      intro q hq
      refine ⟨hp q (by simp [hq]), ?_⟩
      intro ⟨e1, e2⟩
      apply hnd'.1
      have : q = p := Prod.ext e2 e1
      rw [← this]; exact hq
    -- the entry of `r` after the first push
    have hrem1 : ∃ rem1, alGet (s.pushSpecial p.2 (.unlinked p.1 m)).1.remotes r = some rem1 ∧
        ∀ l n, s.reg.nameFor l = some n →
          pend s.reg rem1.up rem1.inflight n =
            pend s.reg rem.up rem.inflight n ++ (if (l, r) = p then [Note.unlinked m] else []) := by
      rw [pushSpecial_eq]
      simp only [alGet_updR]
      by_cases he : p.2 = r
      · rw [if_pos he]
        subst he
        rw [hg]
        refine ⟨_, rfl, ?_⟩
        intro l n hn
        have hpi := hs p.2 rem hg
        have hlt : p.1 < s.reg.length := hpi.vl p.1 (hp p (by simp))
        obtain ⟨m0, hm0, _⟩ := nameFor_lt hlt
        have c6 := (pushSpecial_core hpi (.unlinked p.1 m) hlt).2.2.2.2.2 n
        simp only [psRemote]
        rw [c6, wNotes_unlinked hm0]
        by_cases hl : l = p.1
        · subst hl
          rw [hm0] at hn
          cases hn
          simp
        · have hmn : ¬ m0 = n := by
            intro e; subst e
            exact hl (nameFor_inj hreg hn hm0)
          have hpe : ¬ ((l, p.2) = p) := by
            intro e
            apply hl
            rw [← e]
          rw [if_neg hmn, if_neg hpe]
      · rw [if_neg he]
        refine ⟨rem, hg, ?_⟩
        intro l n _
        have hpe : ¬ ((l, r) = p) := by
          intro e
          apply he
          rw [← e]
        rw [if_neg hpe]; simp
    obtain ⟨rem1, hg1, hpend1⟩ := hrem1
    obtain ⟨rem', hg', hpend'⟩ := ih (s.pushSpecial p.2 (.unlinked p.1 m)).1 _ hnd'.2
      (by rw [hsame.reg]; exact hreg) (by rw [hsame.reg]; exact h1) hp1 r rem1 hg1
    refine ⟨rem', hg', ?_⟩
    intro l n hn
    have e1 := hpend' l n (by rw [hsame.reg]; exact hn)
    rw [hsame.reg] at e1
    rw [e1, hpend1 l n hn, List.append_assoc]
    congr 1
    by_cases hh : (l, r) = p
    · have hnt : (l, r) ∉ ps := by rw [hh]; exact hnd'.1
      rw [if_pos hh, if_neg hnt, if_pos (by rw [hh]; exact List.mem_cons_self)]
      rfl
    · by_cases ht : (l, r) ∈ ps
      · rw [if_neg hh, if_pos ht, if_pos (List.mem_cons_of_mem _ ht)]
        rfl
      · rw [if_neg hh, if_neg ht, if_neg (by simp only [List.mem_cons, not_or]; exact ⟨hh, ht⟩)]
        rfl

theorem mem_of_alGet : ∀ (f : List (Nat × LaneLinks)) (id : Nat) (e : LaneLinks), alGet f id = some e → (id, e) ∈ f := by
  intro f
  induction f with
  | nil => intro id e h; simp [alGet] at h
  | cons q rest ih =>
    intro id e h
    obtain ⟨k, e0⟩ := q
    simp only [alGet] at h
    split at h
    · rename_i hk; subst hk
      cases h
      exact List.mem_cons_self
    · exact List.mem_cons_of_mem _ (ih id e h)

theorem mem_pairs_of_isLinked (l : Links) (id r : Nat) (h : l.isLinked r id = true) : (id, r) ∈ l.pairs := by
  unfold Links.isLinked at h
  cases hg : alGet l.forward id with
  | none => rw [hg] at h; simp at h
  | some e =>
    rw [hg] at h
    simp only [List.contains_eq_mem, decide_eq_true_eq] at h
    unfold Links.pairs
    simp only [List.mem_flatMap, List.mem_map, Prod.mk.injEq]
    exact ⟨(id, e), mem_of_alGet _ _ _ hg, r, h, rfl, rfl⟩

/-- **Stop closes every link**: from a state satisfying the invariant, after `unlink_all` nothing is linked any
more, and what is owed to every attached remote on every registered lane has grown by exactly one `unlinked`
if the remote was linked to the lane and is unchanged otherwise. -/
theorem stop_closes_all_of_ginv {s : St} {st : List (Nat × Bool)} {seen : List Nat} (h : GInv s st seen) :
    (∀ r l, (step s .stop).1.links.isLinked r l = false) ∧
    (∀ r rem, s.remote? r = some rem →
      ∃ rem', (step s .stop).1.remote? r = some rem' ∧
        ∀ l n, s.reg.nameFor l = some n →
          pend s.reg rem'.up rem'.inflight n =
            pend s.reg rem.up rem.inflight n ++
              (if s.links.isLinked r l = true then [Note.unlinked .none] else [])) := by
  have e : (step s .stop).1 = foldUnl .none s.links.removeAllLinks.2 { s with links := s.links.removeAllLinks.1 } := by
    simp only [step]
    rw [stop_fold_fst]
  have hsame := (sinv_foldUnl .none st s.links.removeAllLinks.2
    { s with links := s.links.removeAllLinks.1 } (fun r l => s.links.isLinked r l = true)
    (pairs_nodup h.li.t) h.regN h.sinv
    (fun p hp => isLinked_of_mem_pairs h.li.t.keys p.1 p.2 hp)).1
  rw [e]
  constructor
  · intro r l
    rw [hsame.links]
    exact isLinked_removeAll s.links r l
  · intro r rem hg
    obtain ⟨rem', h1, h2⟩ := pend_foldUnl .none st s.links.removeAllLinks.2
      { s with links := s.links.removeAllLinks.1 } (fun r l => s.links.isLinked r l = true)
      (pairs_nodup h.li.t) h.regN h.sinv
      (fun p hp => isLinked_of_mem_pairs h.li.t.keys p.1 p.2 hp) r rem hg
    refine ⟨rem', h1, ?_⟩
    intro l n hn
    rw [h2 l n hn]
    congr 1
    by_cases hl : s.links.isLinked r l = true
    · have : (l, r) ∈ s.links.removeAllLinks.2 := mem_pairs_of_isLinked s.links l r hl
      simp [hl, this]
    · have : (l, r) ∉ s.links.removeAllLinks.2 := fun hm => hl (isLinked_of_mem_pairs h.li.t.keys l r hm)
      simp [hl, this]

/-- **Unknown lane**: the request is answered by exactly one `@laneNotFound` write for the requested name —
scheduled at once if the remote's writer is idle, otherwise appended to its special queue; nothing else of the
remote changes. -/
theorem unknown_lane_of_ginv {s : St} {st : List (Nat × Bool)} {seen : List Nat} (h : GInv s st seen)
    (r name : Nat) (rem : Remote) (hg : s.remote? r = some rem) :
    ∃ rem', (step s (.unknown r name)).1.remote? r = some rem' ∧
      rem'.up.value = rem.up.value ∧ rem'.up.supply = rem.up.supply ∧ rem'.up.map = rem.up.map ∧
      rem'.up.writeQueue = rem.up.writeQueue ∧
      ((rem.inflight = none ∧ rem'.inflight = some ⟨some name, [Note.unlinked .notFound], none⟩ ∧
          rem.up.specialQueue = [] ∧ rem'.up.specialQueue = []) ∨
       (rem.inflight ≠ none ∧ rem'.inflight = rem.inflight ∧
          rem'.up.specialQueue = rem.up.specialQueue ++ [.laneNotFound name])) := by
  have hp := h.sinv r rem hg
  have e : (step s (.unknown r name)).1 = (s.pushSpecial r (.laneNotFound name)).1 := by simp [step]
  rw [e, pushSpecial_eq]
  refine ⟨psRemote s.reg (.laneNotFound name) rem, ?_, ?_⟩
  · simp only [St.remote?, alGet_updR, if_true]
    have : alGet s.remotes r = some rem := hg
    rw [this]; rfl
  · cases hh : rem.up.writerHome with
    | true =>
      have hi := hp.w.mp hh
      have hs := (hp.q.home hh).1
      simp only [psRemote, pushSpecial_home _ _ _ hh, schedI, specialWrite]
      exact ⟨trivial, trivial, trivial, trivial, Or.inl ⟨hi, trivial, hs, hs⟩⟩
    | false =>
      have hi : rem.inflight ≠ none := fun hn => by have := hp.w.mpr hn; rw [hh] at this; simp at this
      simp only [psRemote, Uplinks.pushSpecial, hh, Bool.false_eq_true, if_false, schedI]
      exact ⟨trivial, trivial, trivial, trivial, Or.inr ⟨hi, trivial, trivial⟩⟩

end SwimVerif.WT
