/-
The global link-language invariant under the completion of a write (frames are delivered here), the removal of
a remote (failed write, prune) and completions of orphaned writes; then the step theorem and the run theorem
(C04).
-/
import SwimVerif.Proofs.LinkLangGInv

set_option linter.unusedSimpArgs false
set_option linter.unusedVariables false
namespace SwimVerif.WT

theorem wOk_congr {reg : Registry} {b b' : Nat → Bool} {w : Write} (h : wOk reg b w)
    (hb : ∀ n, n ∈ reg → b' n = b n) : wOk reg b' w := by
  obtain ⟨n, h1, h2, h3⟩ := h
  refine ⟨n, h1, h2, ?_⟩
  rcases h2 with h2 | h2
  · rw [hb n h2]; exact h3
  · rw [h2]; simp [runNotes, frameOk]

theorem wOk_run {reg : Registry} {b : Nat → Bool} {w : Write} (h : wOk reg b w) :
    ∃ n0 b1, w.lane = some n0 ∧ runNotes (b n0) w.notes = some b1 ∧ (n0 ∈ reg ∨ b1 = b n0) := by
  obtain ⟨n, h1, h2, h3⟩ := h
  cases hr : runNotes (b n) w.notes with
  | none => exact absurd hr h3
  | some b1 =>
    refine ⟨n, b1, h1, hr, ?_⟩
    rcases h2 with h2 | h2
    · exact Or.inl h2
    · right
      rw [h2] at hr
      simp [runNotes, frameOk] at hr
      exact hr.symm

/-- Delivering an acceptable write of remote `r`: the checker accepts; only the key of (`r`, its lane name) moves,
and no key of a registered lane of another remote is touched. -/
theorem deliver {reg : Registry} (hB : ∀ n, n ∈ reg → n < 100000) {st : List (Nat × Bool)} {r : Nat} {w : Write}
    (hw : wOk reg (bOf st r) w) :
    ∃ st' n0 b1, w.lane = some n0 ∧ runNotes (bOf st r n0) w.notes = some b1 ∧
      langFrames st r (w.notes.map (fun x => (w.lane, x))) = some st' ∧
      (∀ n, bOf st' r n = if n = n0 then b1 else bOf st r n) ∧
      (∀ r' n, r' ≠ r → n ∈ reg → bOf st' r' n = bOf st r' n) := by
  obtain ⟨n0, b1, h1, h2, h3⟩ := wOk_run hw
  obtain ⟨st', f1, f2, f3⟩ := langFrames_notes r n0 w.notes st b1 h2
  refine ⟨st', n0, b1, h1, h2, by rw [h1]; exact f1, ?_, ?_⟩
  · intro n
    unfold bOf
    split
    · rename_i he; subst he; exact f2
    · rename_i he; apply f3; unfold lkey; omega
  · intro r' n hr hn
    unfold bOf
    by_cases hk : lkey r' n = lkey r n0
    · rcases h3 with h3 | h3
      · exact absurd (lkey_inj (hB n hn) (hB n0 h3) hk).1 hr
      · rw [hk, f2, h3]; rfl
    · exact f3 _ hk

/-! ### orphaned writes -/

theorem eraseP_key_ne (r : Nat) : ∀ (l : List (Nat × Write)), (l.map (·.1)).Nodup →
    ∀ q, q ∈ l.eraseP (fun p => p.1 = r) → q.1 ≠ r := by
  intro l
  induction l with
  | nil => intro _ q hq; simp at hq
  | cons a l ih =>
    intro hn q hq
    simp only [List.map_cons, List.nodup_cons] at hn
    by_cases ha : a.1 = r
    · simp only [List.eraseP_cons, ha, decide_true, cond_true] at hq
      intro hc
      apply hn.1
      rw [ha, ← hc]
      exact List.mem_map_of_mem (f := (·.1)) hq
    · simp only [List.eraseP_cons, ha, decide_false, cond_false, List.mem_cons] at hq
      rcases hq with hq | hq
      · rw [hq]; exact ha
      · exact ih hn.2 q hq

theorem ginv_stepOrphan {s : St} {st : List (Nat × Bool)} {seen : List Nat} (h : GInv s st seen) (r : Nat)
    (ok : Bool) :
    ∃ st', langFrames st r (stepOrphan s r ok).2.frames = some st' ∧ GInv (stepOrphan s r ok).1 st' seen := by
  unfold stepOrphan
  cases hf : s.orphans.find? (fun p => p.1 = r) with
  | none => exact ⟨st, rfl, h⟩
  | some p =>
    obtain ⟨r0, w⟩ := p
    simp only []
    have hmem : (r0, w) ∈ s.orphans := List.mem_of_find?_eq_some hf
    have hr0 : r0 = r := by have := List.find?_some hf; simpa using this
    subst hr0
    have hna : alGet s.remotes r0 = none := h.orphR _ hmem
    have key : ∀ st', (∀ r' n, r' ≠ r0 → n ∈ s.reg → bOf st' r' n = bOf st r' n) →
        GInv { s with orphans := s.orphans.eraseP (fun p => p.1 = r0) } st' seen := by
      intro st' hb
      refine ⟨h.regN, h.regB, h.li, ?_, h.lkLt, h.seenL, h.seenR,
        fun p hp => h.seenO p (List.mem_of_mem_eraseP hp), fun p hp => h.orphR p (List.mem_of_mem_eraseP hp),
        ?_, ?_⟩
      · intro r' rem' hg
        have hne : r' ≠ r0 := by intro e; subst e; rw [hna] at hg; simp at hg
        exact pinv_congr (h.sinv r' rem' hg) (fun n hn => hb r' n hne hn)
      · exact List.Nodup.sublist (List.Sublist.map _ List.eraseP_sublist) h.orphN
      · intro q hq
        have hne := eraseP_key_ne r0 s.orphans h.orphN q hq
        exact wOk_congr (h.orphOk q (List.mem_of_mem_eraseP hq)) (fun n hn => hb q.1 n hne hn)
    cases ok with
    | false => exact ⟨st, rfl, key st (fun _ _ _ _ => rfl)⟩
    | true =>
      obtain ⟨st', n0, b1, d1, d2, d3, d4, d5⟩ := deliver h.regB (h.orphOk _ hmem)
      exact ⟨st', d3, key st' d5⟩

/-! ### removal of a remote -/

theorem ginv_drop {s : St} {st : List (Nat × Bool)} {seen : List Nat} (h : GInv s st seen) (r : Nat)
    (rs' : List (Nat × Remote)) (orph' : List (Nat × Write))
    (hrs : ∀ r', alGet rs' r' = if r = r' then none else alGet s.remotes r')
    (ho : orph' = s.orphans ∨
      ∃ w rem, orph' = s.orphans ++ [(r, w)] ∧ alGet s.remotes r = some rem ∧ rem.inflight = some w) :
    GInv { reg := s.reg, links := s.links.removeRemote r, remotes := rs', orphans := orph' } st seen := by
  have hsub : ∀ r' rem', alGet rs' r' = some rem' → alGet s.remotes r' = some rem' := by
    intro r' rem' hg
    rw [hrs] at hg
    split at hg
    · simp at hg
    · exact hg
  have base : (∀ r' l, (s.links.removeRemote r).isLinked r' l = true → s.links.isLinked r' l = true) :=
    fun r' l hl => isLinked_removeRemote s.links r r' l hl
  have part1 : SInv s.reg st (fun r' l => (s.links.removeRemote r).isLinked r' l = true) rs' := by
    intro r' rem' hg
    exact pinv_mono (h.sinv r' rem' (hsub r' rem' hg)) (fun l hl => base r' l hl)
  rcases ho with ho | ⟨w, rem, ho, hg, hi⟩
  · subst ho
    refine ⟨h.regN, h.regB, linv_step h.li (.removeRemote r) trivial, part1,
      fun r' l hl => h.lkLt r' l (base r' l hl), fun r' l hl => h.seenL r' l (base r' l hl),
      fun r' rem' hg => h.seenR r' rem' (hsub r' rem' hg), h.seenO, ?_, h.orphN, h.orphOk⟩
    intro p hp
    show alGet rs' p.1 = none
    rw [hrs]
    split
    · rfl
    · exact h.orphR p hp
  · subst ho
    have hp := h.sinv r rem hg
    rw [hi] at hp
    refine ⟨h.regN, h.regB, linv_step h.li (.removeRemote r) trivial, part1,
      fun r' l hl => h.lkLt r' l (base r' l hl), fun r' l hl => h.seenL r' l (base r' l hl),
      fun r' rem' hg => h.seenR r' rem' (hsub r' rem' hg), ?_, ?_, ?_, ?_⟩
    · intro p hp'
      have hp'' : p ∈ s.orphans ++ [(r, w)] := hp'
      simp only [List.mem_append, List.mem_singleton] at hp''
      rcases hp'' with hp'' | hp''
      · exact h.seenO p hp''
      · rw [hp'']; exact h.seenR r rem hg
    · intro p hp'
      have hp'' : p ∈ s.orphans ++ [(r, w)] := hp'
      simp only [List.mem_append, List.mem_singleton] at hp''
      show alGet rs' p.1 = none
      rw [hrs]
      split
      · rfl
      · rcases hp'' with hp'' | hp''
        · exact h.orphR p hp''
        · rename_i hne; rw [hp''] at hne; exact absurd rfl hne
    · show ((s.orphans ++ [(r, w)]).map (·.1)).Nodup
      rw [List.map_append, List.nodup_append]
      refine ⟨h.orphN, by simp, ?_⟩
      intro a ha b hb hab
      simp at hb
      subst hb; subst hab
      simp only [List.mem_map] at ha
      obtain ⟨p, hp1, hp2⟩ := ha
      have := h.orphR p hp1
      rw [hp2, hg] at this
      simp at this
    · intro p hp'
      have hp'' : p ∈ s.orphans ++ [(r, w)] := hp'
      simp only [List.mem_append, List.mem_singleton] at hp''
      rcases hp'' with hp'' | hp''
      · exact h.orphOk p hp''
      · rw [hp'']; exact pinv_infl_ok hp

theorem ginv_removeRemote {s : St} {st : List (Nat × Bool)} {seen : List Nat} (h : GInv s st seen) (r : Nat)
    (why : Reason) : GInv (s.removeRemote r why).1 st seen := by
  unfold St.removeRemote
  simp only [St.remote?]
  cases hg : alGet s.remotes r with
  | none =>
    simp only []
    exact ginv_drop h r s.remotes s.orphans (fun r' => by
      split
      · rename_i he; subst he; exact hg
      · rfl) (Or.inl rfl)
  | some rem =>
    simp only []
    cases hi : rem.inflight with
    | none =>
      simp only []
      exact ginv_drop h r (alErase s.remotes r) s.orphans (fun r' => alGet_alErase _ _ _) (Or.inl rfl)
    | some w =>
      simp only []
      exact ginv_drop h r (alErase s.remotes r) (s.orphans ++ [(r, w)]) (fun r' => alGet_alErase _ _ _)
        (Or.inr ⟨w, rem, rfl, hg, hi⟩)

theorem ginv_prune {s : St} {st : List (Nat × Bool)} {seen : List Nat} (h : GInv s st seen) (r : Nat) :
    GInv (step s (.prune r)).1 st seen := by
  simp only [step]
  cases alGet s.links.backwards r with
  | some _ => exact h
  | none => exact ginv_removeRemote h r .timedOut

/-! ### completion of a write -/

theorem ginv_done {s : St} {st : List (Nat × Bool)} {seen : List Nat} (h : GInv s st seen) (r : Nat) (ok : Bool) :
    ∃ st', langFrames st r (step s (.done r ok)).2.frames = some st' ∧ GInv (step s (.done r ok)).1 st' seen := by
  simp only [step]
  cases h0 : s.remote? r with
  | none => exact ginv_stepOrphan h r ok
  | some rem =>
    simp only []
    cases h1 : rem.inflight with
    | none => exact ginv_stepOrphan h r ok
    | some w =>
      simp only []
      have hg : alGet s.remotes r = some rem := h0
      cases ok with
      | true =>
        simp only [if_true]
        have hp := h.sinv r rem hg
        rw [h1] at hp
        obtain ⟨st', n0, b1, d1, d2, d3, d4, d5⟩ := deliver h.regB (pinv_infl_ok hp)
        have hp' := pinv_done hp d1 d2 (bOf st' r) d4
        refine ⟨st', d3, h.regN, h.regB, h.li, ?_, h.lkLt, h.seenL, ?_, h.seenO, ?_, h.orphN, ?_⟩
        · intro r' rem' hg'
          simp only [alGet_alSet] at hg'
          split at hg'
          · rename_i he; subst he
            simp only [Option.some.injEq] at hg'
            subst hg'
            exact hp'
          · rename_i hne
            exact pinv_congr (h.sinv r' rem' hg') (fun n hn => d5 r' n (fun e => hne e.symm) hn)
        · intro r' rem' hg'
          simp only [alGet_alSet] at hg'
          split at hg'
          · rename_i he; subst he; exact h.seenR r rem hg
          · exact h.seenR r' rem' hg'
        · intro p hp0
          have hne : r ≠ p.1 := by
            intro e
            have := h.orphR p hp0
            rw [← e, hg] at this
            simp at this
          show alGet (alSet s.remotes r _) p.1 = none
          rw [alGet_alSet_ne _ _ hne]
          exact h.orphR p hp0
        · intro p hp0
          have hne : p.1 ≠ r := by
            intro e
            have := h.orphR p hp0
            rw [e, hg] at this
            simp at this
          exact wOk_congr (h.orphOk p hp0) (fun n hn => d5 p.1 n hne hn)
      | false =>
        simp only [Bool.false_eq_true, if_false]
        refine ⟨st, rfl, ?_⟩
        unfold St.removeRemote
        simp only [St.remote?, alGet_alSet_same]
        exact ginv_drop h r _ s.orphans (fun r' => by
          rw [alGet_alErase, alGet_alSet]
          split
          · rfl
          · rfl) (Or.inl rfl)

/-! ### the step and run theorems -/

/-- The conditions `wellFormed` and `lanesFresh` put on one event. -/
def evOk (s : St) (seen : List Nat) : Ev → Prop
  | .event lane _ _ => lane < s.reg.length
  | .laneFailed lane => lane < s.reg.length
  | .attach r => r ∉ seen
  | .lane name _ => name < 100000 ∧ name ∉ s.reg
  | _ => True

def seenAfter (seen : List Nat) : Ev → List Nat
  | .attach r => r :: seen
  | _ => seen

/-- What the checker does at one event. -/
def frameSt (s : St) (st : List (Nat × Bool)) : Ev → Option (List (Nat × Bool))
  | .done r ok => langFrames st r (step s (.done r ok)).2.frames
  | _ => some st

theorem langOk_cons (s : St) (st : List (Nat × Bool)) (e : Ev) (rest : List Ev) :
    langOk s st (e :: rest) = true ↔ ∃ st', frameSt s st e = some st' ∧ langOk (step s e).1 st' rest = true := by
  cases e <;> simp only [langOk, frameSt, Option.some.injEq, exists_eq_left']
  rename_i r ok
  cases langFrames st r (step s (.done r ok)).2.frames <;> simp

theorem ginv_step {s : St} {st : List (Nat × Bool)} {seen : List Nat} (h : GInv s st seen) (e : Ev)
    (he : evOk s seen e) : ∃ st', frameSt s st e = some st' ∧ GInv (step s e).1 st' (seenAfter seen e) := by
  cases e with
  | lane name rep => exact ⟨st, rfl, ginv_lane h name rep he.1 he.2⟩
  | attach r => exact ⟨st, rfl, ginv_attach h r he⟩
  | link r name => exact ⟨st, rfl, ginv_link h r name⟩
  | unlink r name => exact ⟨st, rfl, ginv_unlink h r name⟩
  | unknown r name => exact ⟨st, rfl, ginv_unknown h r name⟩
  | event lane target resp =>
    cases target with
    | none => exact ⟨st, rfl, ginv_event_broadcast h lane resp⟩
    | some r => exact ⟨st, rfl, ginv_event_target h lane r resp he⟩
  | done r ok => exact ginv_done h r ok
  | laneFailed lane => exact ⟨st, rfl, ginv_laneFailed h lane⟩
  | prune r => exact ⟨st, rfl, ginv_prune h r⟩
  | stop => exact ⟨st, rfl, ginv_stop h⟩
  | snapshot => exact ⟨st, rfl, ginv_snapshot h⟩

theorem wf_cons (s : St) (seen : List Nat) (e : Ev) (rest : List Ev)
    (h1 : wellFormed s seen (e :: rest) = true) (h2 : lanesFresh s (e :: rest) = true) :
    evOk s seen e ∧ wellFormed (step s e).1 (seenAfter seen e) rest = true ∧
      lanesFresh (step s e).1 rest = true := by
  cases e <;> simp_all [wellFormed, lanesFresh, evOk, seenAfter]

/-- From any state satisfying the invariant, every well-formed continuation is accepted by the checker. -/
theorem langOk_of_ginv : ∀ (evs : List Ev) (s : St) (st : List (Nat × Bool)) (seen : List Nat),
    GInv s st seen → wellFormed s seen evs = true → lanesFresh s evs = true → langOk s st evs = true := by
  intro evs
  induction evs with
  | nil => intro s st seen _ _ _; rfl
  | cons e rest ih =>
    intro s st seen h h1 h2
    obtain ⟨c1, c2, c3⟩ := wf_cons s seen e rest h1 h2
    obtain ⟨st', f1, f2⟩ := ginv_step h e c1
    rw [langOk_cons]
    exact ⟨st', f1, ih _ _ _ f2 c2 c3⟩

/-- The invariant holds along every well-formed run. -/
theorem ginv_run : ∀ (evs : List Ev) (s : St) (st : List (Nat × Bool)) (seen : List Nat),
    GInv s st seen → wellFormed s seen evs = true → lanesFresh s evs = true →
    ∃ st' seen', GInv (run s evs) st' seen' := by
  intro evs
  induction evs with
  | nil => intro s st seen h _ _; exact ⟨st, seen, h⟩
  | cons e rest ih =>
    intro s st seen h h1 h2
    obtain ⟨c1, c2, c3⟩ := wf_cons s seen e rest h1 h2
    obtain ⟨st', _, f2⟩ := ginv_step h e c1
    exact ih _ _ _ f2 c2 c3

end SwimVerif.WT
