/-
C20, the final accounting over write-task runs:
* per lane: snapshots of the lane's reader + residual + routed-but-uncounted = responses routed for that lane;
* under the runtime's discipline (`liveOk`) nothing is routed uncounted, neither for a lane nor in aggregate.
-/
import SwimVerif.Proofs.LinksWTLive

set_option linter.unusedSimpArgs false
set_option linter.unusedVariables false
namespace SwimVerif.WT

/-- the event count of lane `id`'s reporter returned by the snapshot of a step (0 if none is taken) -/
def snapLane (id : Nat) (o : Out) : Nat :=
  match o.snap with
  | some p => ((alGet p.2 id).getD {}).events
  | none => 0

/-- The lane a step's response comes from. -/
def evLane : Ev → Option Nat
  | .event lane _ _ => some lane
  | _ => none

/-- Responses of lane `id` handed to the uplinks of remotes by one step. -/
def routedLane (s : St) (id : Nat) (e : Ev) : Nat := if evLane e = some id then routed s e else 0

/-- Responses of lane `id` routed by a step that the lane's reporter is not told about (there is no aggregate
reporter, or the lane has no entry holding a reporter). -/
def missedLane (s : St) (id : Nat) (e : Ev) : Nat :=
  if evLane e = some id then (if s.links.repCounts id then 0 else routed s e) else 0

theorem step_laneRead (s : St) (id : Nat) (e : Ev) :
    laneTotalRead id s.links (stepOps s e) = snapLane id (step s e).2 := by
  unfold snapLane
  rw [step_snap]
  cases e <;> simp only [stepOps, linkOps, unlinkOps, eventOps, doneOps, pruneOps] <;>
    (repeat' split) <;> simp_all [laneTotalRead, laneRead, Links.laneEv]

theorem step_laneDropped {s : St} (h : Fresh s) (id : Nat) (e : Ev) :
    laneTotalDropped id s.links (stepOps s e) = 0 := by
  cases e with
  | lane name rep =>
    cases rep
    · simp [stepOps, laneTotalDropped]
    · simp only [stepOps, if_true, laneTotalDropped, laneDropped]
      by_cases hh : s.reg.length = id
      · have := (h id (by omega)).c
        simp [hh, Links.laneEv, this]
      · simp [hh]
  | _ =>
    simp only [stepOps, linkOps, unlinkOps, eventOps, doneOps, pruneOps] <;>
      (repeat' split) <;> simp_all [laneTotalDropped, laneDropped]

theorem laneAdded_insert (l : Links) (id id' r : Nat) : laneAdded l id (.insert id' r) = 0 := rfl

theorem step_laneAdded (s : St) (id : Nat) (e : Ev) :
    laneTotalAdded id s.links (stepOps s e) + missedLane s id e = routedLane s id e := by
  cases e with
  | event lane target resp =>
    simp only [missedLane, routedLane, evLane, Option.some.injEq]
    cases target with
    | some r =>
      simp only [stepOps, eventOps, routed]
      by_cases hr : (s.remote? r).isNone = true
      · simp [hr, laneTotalAdded]
      · simp only [hr, if_false, Bool.false_eq_true]
        by_cases hl : (s.links.countSingle lane).isLinked r lane = true
        · rw [if_pos hl]
          simp only [laneTotalAdded, laneAdded]
          by_cases hid : lane = id
          · subst hid; simp only [if_true]; split <;> omega
          · simp [hid]
        · rw [if_neg hl]
          simp only [laneTotalAdded, laneAdded]
          by_cases hid : lane = id
          · subst hid; simp only [if_true]; split <;> omega
          · simp [hid]
    | none =>
      simp only [stepOps, eventOps, routed]
      by_cases hemp : (s.links.linkedFrom lane).isEmpty = true
      · have : (s.links.linkedFrom lane).length = 0 := by simpa using hemp
        simp [hemp, laneTotalAdded, this]
      · rw [if_neg hemp]
        simp only [laneTotalAdded, laneAdded]
        by_cases hid : lane = id
        · subst hid; simp only [if_true]; split <;> omega
        · simp [hid]
  | lane name rep => cases rep <;> simp [stepOps, laneTotalAdded, laneAdded, missedLane, routedLane, evLane]
  | attach r => simp [stepOps, laneTotalAdded, missedLane, routedLane, evLane]
  | link r name =>
    cases h1 : s.reg.idFor name <;> cases h2 : s.remote? r <;>
      simp [stepOps, linkOps, h1, h2, laneTotalAdded, laneAdded, missedLane, routedLane, evLane]
  | unlink r name =>
    cases h1 : s.reg.idFor name with
    | none => simp [stepOps, unlinkOps, h1, laneTotalAdded, missedLane, routedLane, evLane]
    | some id' =>
      cases h2 : s.links.isLinked r id' <;>
        simp [stepOps, unlinkOps, h1, h2, laneTotalAdded, laneAdded, missedLane, routedLane, evLane]
  | unknown r name => simp [stepOps, laneTotalAdded, missedLane, routedLane, evLane]
  | done r ok =>
    cases h1 : s.remote? r with
    | none => simp [stepOps, doneOps, h1, laneTotalAdded, missedLane, routedLane, evLane]
    | some rem =>
      cases h2 : rem.inflight with
      | none => simp [stepOps, doneOps, h1, h2, laneTotalAdded, missedLane, routedLane, evLane]
      | some w =>
        cases ok <;> simp [stepOps, doneOps, h1, h2, laneTotalAdded, laneAdded, missedLane, routedLane, evLane]
  | laneFailed lane => simp [stepOps, laneTotalAdded, laneAdded, missedLane, routedLane, evLane]
  | prune r =>
    cases h1 : alGet s.links.backwards r <;>
      simp [stepOps, pruneOps, h1, laneTotalAdded, laneAdded, missedLane, routedLane, evLane]
  | stop => simp [stepOps, laneTotalAdded, laneAdded, missedLane, routedLane, evLane]
  | snapshot => simp [stepOps, laneTotalAdded, laneAdded, missedLane, routedLane, evLane]

/-- One step, one lane: snapshot + new counter + routed-but-uncounted = old counter + routed. -/
theorem step_lane_events {s : St} (h : Fresh s) (id : Nat) (e : Ev) :
    snapLane id (step s e).2 + (step s e).1.links.laneEv id + missedLane s id e
      = s.links.laneEv id + routedLane s id e := by
  have h1 := lane_counts_conserved id (stepOps s e) s.links
  rw [← (step_links_reg s e).1, step_laneRead, step_laneDropped h] at h1
  have h2 := step_laneAdded s id e
  omega

def wtSnapLane (id : Nat) : St → List Ev → Nat
  | _, [] => 0
  | s, e :: rest => snapLane id (step s e).2 + wtSnapLane id (step s e).1 rest

def wtRoutedLane (id : Nat) : St → List Ev → Nat
  | _, [] => 0
  | s, e :: rest => routedLane s id e + wtRoutedLane id (step s e).1 rest

def wtMissedLane (id : Nat) : St → List Ev → Nat
  | _, [] => 0
  | s, e :: rest => missedLane s id e + wtMissedLane id (step s e).1 rest

theorem run_lane_events (id : Nat) : ∀ (evs : List Ev) (s : St), Fresh s → EnvOk s evs →
    wtSnapLane id s evs + (run s evs).links.laneEv id + wtMissedLane id s evs
      = s.links.laneEv id + wtRoutedLane id s evs := by
  intro evs
  induction evs with
  | nil => intro s _ _; simp [wtSnapLane, wtMissedLane, wtRoutedLane, run]
  | cons e rest ih =>
    intro s hf hok
    have h1 := ih (step s e).1 (fresh_step hf e hok.1) hok.2
    have h2 := step_lane_events hf id e
    simp only [wtSnapLane, wtMissedLane, wtRoutedLane, run, List.foldl] at h1 ⊢
    omega

/-! ### under the runtime's discipline nothing goes uncounted -/

theorem live_missed {n : Nat} {failed : List Nat} {s : St} (h : Live n failed s) (ha : s.links.hasAgg = true)
    (e : Ev) (hh : liveHead n failed e = true) : missed s e = 0 ∧ ∀ id, missedLane s id e = 0 := by
  cases e with
  | event lane target resp =>
    simp only [liveHead, Bool.and_eq_true, decide_eq_true_eq, Bool.not_eq_true', List.contains_eq_mem,
      decide_eq_false_iff_not] at hh
    have hrep := h.rep lane hh.1 (by simpa using hh.2)
    have hsome : (alGet s.links.forward lane).isSome = true := by
      unfold Links.hasRep at hrep
      cases hg : alGet s.links.forward lane with
      | none => simp [hg] at hrep
      | some e => rfl
    constructor
    · cases target with
      | some r => simp [missed, Links.countsFor, ha, hsome]
      | none => simp [missed, ha]
    · intro id
      simp only [missedLane, evLane, Option.some.injEq]
      by_cases hid : lane = id
      · subst hid; simp [Links.repCounts, ha, hrep]
      · simp [hid]
  | _ => exact ⟨rfl, fun id => by simp [missedLane, evLane]⟩

theorem live_no_miss : ∀ (evs : List Ev) (n : Nat) (failed : List Nat) (s : St), Live n failed s →
    s.links.hasAgg = true → liveOk n failed evs = true →
    wtMissed s evs = 0 ∧ ∀ id, wtMissedLane id s evs = 0 := by
  intro evs
  induction evs with
  | nil => intro n failed s _ _ _; exact ⟨rfl, fun _ => rfl⟩
  | cons e rest ih =>
    intro n failed s h ha hl
    rw [liveOk_cons, Bool.and_eq_true] at hl
    have h1 := ih _ _ _ (live_step h e hl.1) ((step_hasAgg s e).trans ha) hl.2
    have h2 := live_missed h ha e hl.1
    refine ⟨?_, fun id => ?_⟩
    · simp only [wtMissed]; rw [h1.1, h2.1]
    · simp only [wtMissedLane]; rw [h1.2 id, h2.2 id]

end SwimVerif.WT
