/-
C15-N3, the additive-size argument as a theorem: `<ValueValidator as PartialEq>::eq` sees of every builder only its key,
its `attrs` and the SUM `items_len` of its items; and `Record(0, n).len = 1 + n` for `n ≥ 1`.  So after `p…, { ys }` and
after `{ p…, ys }` (the opening brace moved left across the preceding items `p…`) the validators compare equal, in
every context — which is why `incremental_compare`, once it has skipped the `StartBody` on either side, cannot tell
the two apart.
-/
import SwimVerif.Proofs.ReconEqValid

namespace SwimVerif.ReconEq
open SwimVerif.Recon

/-- What the validator's equality can see of a builder. -/
def Sim (a b : BuilderState) : Prop := a.key = b.key ∧ a.attrs = b.attrs ∧ a.items.itemsLen = b.items.itemsLen

def simL : List BuilderState → List BuilderState → Prop
  | [], [] => True
  | a :: l, b :: m => Sim a b ∧ simL l m
  | _, _ => False

theorem Sim.refl (a : BuilderState) : Sim a a := ⟨rfl, rfl, rfl⟩

theorem simL_refl : (l : List BuilderState) → simL l l
  | [] => trivial
  | a :: l => ⟨Sim.refl a, simL_refl l⟩

theorem simL_append : (a b c d : List BuilderState) → simL a b → simL c d → simL (a ++ c) (b ++ d)
  | [], [], _, _, _, h => h
  | _ :: _, [], _, _, h, _ => h.elim
  | [], _ :: _, _, _, h, _ => h.elim
  | x :: a, y :: b, c, d, h, h' => ⟨h.1, simL_append a b c d h.2 h'⟩

theorem absorb_sim : (l m : List BuilderState) → simL l m → ∀ il al,
    (absorbNoKey l il al).1 = (absorbNoKey m il al).1 ∧ (absorbNoKey l il al).2.1 = (absorbNoKey m il al).2.1 ∧
    simL (absorbNoKey l il al).2.2 (absorbNoKey m il al).2.2
  | [], [], _, il, al => by simp [absorbNoKey, simL]
  | _ :: _, [], h, _, _ => h.elim
  | [], _ :: _, h, _, _ => h.elim
  | x :: l, y :: m, h, il, al => by
    obtain ⟨⟨hk, ha, hi⟩, hl⟩ := h
    unfold absorbNoKey
    rw [← hk, ← ha, ← hi]
    by_cases hx : x.key = .noKey
    · simp only [hx, ↓reduceIte]
      exact absorb_sim l m hl _ _
    · simp only [hx, ↓reduceIte]
      first | exact ⟨trivial, trivial, ⟨hk, ha, hi⟩, hl⟩ | exact ⟨rfl, rfl, ⟨hk, ha, hi⟩, hl⟩

/-- The stack comparison is blind to everything but keys, `attrs` and the sums of item sizes. -/
theorem stacksEq_sim (fuel : Nat) : ∀ l m : List BuilderState, simL l m → stacksEq fuel l m = true := by
  induction fuel with
  | zero => intro l m _; simp [stacksEq]
  | succ n ih =>
    intro l m h
    cases l with
    | nil => cases m <;> simp [stacksEq]
    | cons s ss =>
      cases m with
      | nil => exact h.elim
      | cons o os =>
        obtain ⟨⟨hk, ha, hi⟩, hl⟩ := h
        obtain ⟨h1, h2, h3⟩ := absorb_sim ss os hl s.items.itemsLen s.attrs
        simp only [stacksEq]
        rw [← hi, ← ha, ← h1, ← h2]
        simp only [and_self, ↓reduceIte]
        exact ih _ _ h3

theorem vtype_len_pos (v : Value) : 1 ≤ (vtype v).len := by
  cases v <;> simp [vtype, ValueType.len]
  split <;> omega

theorem ilen_pos (ys : Items) (h : ys ≠ .nil) : 1 ≤ ilen ys := by
  cases ys with
  | nil => exact absurd rfl h
  | val v r => have := vtype_len_pos v; simp [ilen]; omega
  | slot k v r => have := vtype_len_pos v; simp [ilen]; omega

/-- **C15-N3, the mechanism.**  In any context (any builder on top that is in its body, anything below), feed the
validator the items `ps` and then the record `{ ys }` — or the record `{ ps, ys }`, i.e. the same events with the
`StartBody` moved left across `ps`.  If `ys` is not empty the two validators compare equal: the brace move is invisible
to `ValueValidator::eq`, for ALL items `ps`, `ys` (values of any shape, slots, attributes). -/
theorem validator_blind_to_brace_move (ps ys : Items) (hy : ys ≠ .nil) (key : KeyState) (a : Nat) (c : ItemCollection)
    (rest : List BuilderState) :
    (feedAll (S (F key true a c :: rest) none) (evsI ps ++ .startBody :: (evsI ys ++ [.endRecord]))).beq
      (feedAll (S (F key true a c :: rest) none) (.startBody :: (evsI ps ++ (evsI ys ++ [.endRecord])))) = true := by
  have hA : feedAll (S (F key true a c :: rest) none) (evsI ps ++ .startBody :: (evsI ys ++ [.endRecord]))
      = S (F key true a ((pushItems c ps).push (.value (.record 0 (pushItems {} ys).itemsLen))) :: rest) none := by
    rw [feedAll_items ps, feedAll, feed_startBody_inBody, feedAll_items ys, feedAll, feed_endRecord]
    rfl
  have hB : feedAll (S (F key true a c :: rest) none) (.startBody :: (evsI ps ++ (evsI ys ++ [.endRecord])))
      = S (F key true a (c.push (.value (.record 0 (pushItems (pushItems {} ps) ys).itemsLen))) :: rest) none := by
    rw [feedAll, feed_startBody_inBody, feedAll_items ps, feedAll_items ys, feedAll, feed_endRecord]
    rfl
  rw [hA, hB]
  have hy1 := ilen_pos ys hy
  have hlen : ((pushItems c ps).push (.value (.record 0 (pushItems {} ys).itemsLen))).itemsLen
      = (c.push (.value (.record 0 (pushItems (pushItems {} ps) ys).itemsLen))).itemsLen := by
    rw [itemsLen_push, itemsLen_push, itemsLen_pushItems, itemsLen_pushItems, itemsLen_pushItems, itemsLen_pushItems]
    have h0 : ({} : ItemCollection).itemsLen = 0 := rfl
    simp only [h0, ItemType.len, ValueType.len, ↓reduceIte, Nat.zero_add]
    rw [if_neg (by omega), if_neg (by omega)]
    omega
  unfold VV.beq
  simp only [↓reduceIte]
  apply stacksEq_sim
  simp only [List.reverse_cons]
  exact simL_append _ _ _ _ (simL_refl _) ⟨⟨rfl, rfl, hlen⟩, trivial⟩

end SwimVerif.ReconEq
