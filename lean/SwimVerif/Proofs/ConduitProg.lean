/-
The programs the translator generated from `channel/mod.rs` (`Generated/ConduitSrc.lean`) compute exactly the
hand-written steps of `Model/Conduit.lean`, for every state and every argument.
-/
import SwimVerif.Generated.ConduitSrc
import SwimVerif.Generated.CoopSrc

set_option linter.unusedSimpArgs false
namespace SwimVerif.ConduitProg
open SwimVerif.Conduit SwimVerif.Generated.ConduitSrc

def runRead (s : St) (k : Nat) : M := exec reader_poll_read (enter s .R k [])

theorem reader_poll_read_eq (s : St) (k : Nat) :
    outOf (runRead s k) (resRead (runRead s k)) = pollRead s k := by
  unfold runRead reader_poll_read pollRead
  rcases hb : budgetStep s.budget with ⟨b, ok⟩
  cases ok <;> cases hd : s.data <;> cases hc : s.closed <;> rcases hw : s.waker with _ | (_|_) <;>
    by_cases hk : 0 < min s.data.length k <;>
    simp_all [exec, enter, setWait, evalCond, touch, consumeBudget, outOf, resRead, selfWake, trackPending,
      wakeOut, wake]

def runWrite (s : St) (bs : List Nat) : M := exec writer_poll_write (enter s .W 0 bs)

theorem writer_poll_write_eq (s : St) (bs : List Nat) :
    outOf (runWrite s bs) (resWrite (runWrite s bs)) = pollWrite s bs := by
  unfold runWrite writer_poll_write pollWrite
  rcases hb : budgetStep s.budget with ⟨b, ok⟩
  cases ok <;> cases hd : bs <;> cases hc : s.closed <;> rcases hw : s.waker with _ | (_|_) <;>
    by_cases hk : s.cap - s.data.length = 0 <;>
    simp_all [exec, enter, setWait, evalCond, touch, consumeBudget, outOf, resWrite, selfWake, trackPending,
      wakeOut, wake]

def runFlush (s : St) : M := exec writer_poll_flush (enter s .W 0 [])

theorem writer_poll_flush_eq (s : St) : outOf (runFlush s) (resWrite (runFlush s)) = pollFlush s := by
  unfold runFlush writer_poll_flush pollFlush
  rcases hb : budgetStep s.budget with ⟨b, ok⟩
  cases ok <;>
    simp_all [exec, enter, setWait, evalCond, touch, consumeBudget, outOf, resWrite, selfWake]

def runShutdown (s : St) : M := exec writer_poll_shutdown (enter s .W 0 [])

theorem writer_poll_shutdown_eq (s : St) :
    outOf (runShutdown s) (resWrite (runShutdown s)) = pollShutdown s := by
  unfold runShutdown writer_poll_shutdown pollShutdown
  rcases hb : budgetStep s.budget with ⟨b, ok⟩
  cases ok <;> rcases hw : s.waker with _ | (_|_) <;>
    simp_all [exec, enter, setWait, evalCond, touch, consumeBudget, outOf, resWrite, selfWake, closeOut, wakeOut, wake]

def runDropR (s : St) : M := exec reader_drop (enterDrop s .R)
def runDropW (s : St) : M := exec writer_drop (enterDrop s .W)

theorem reader_drop_eq (s : St) :
    outOf (runDropR s) (resDrop (runDropR s)) = closeOut { s with rAlive := false, waitR := false } .unit := by
  unfold runDropR reader_drop
  rcases hw : s.waker with _ | (_|_) <;>
    simp_all [exec, enterDrop, evalCond, touch, outOf, resDrop, closeOut, wakeOut, wake]

theorem writer_drop_eq (s : St) :
    outOf (runDropW s) (resDrop (runDropW s)) = closeOut { s with wAlive := false, waitW := false } .unit := by
  unfold runDropW writer_drop
  rcases hw : s.waker with _ | (_|_) <;>
    simp_all [exec, enterDrop, evalCond, touch, outOf, resDrop, closeOut, wakeOut, wake]

/-- the whole `step` of the model, operation by operation, is the generated program of that operation -/
def runOp (s : St) : Op → M
  | .read k => runRead s k
  | .write bs => runWrite s bs
  | .flush => runFlush s
  | .shutdown => runShutdown s
  | .dropR => runDropR s
  | .dropW => runDropW s
  | .setBudget _ => enter s .R 0 []

/-- Lock discipline of every generated program: the mutex is taken at most once per call, and no statement that
reads or writes the shared `Conduit` runs before it is taken. -/
theorem lock_discipline (s : St) (op : Op) :
    (runOp s op).locks ≤ 1 ∧ (runOp s op).unlockedTouch = false := by
  cases op with
  | read k =>
    simp only [runOp, runRead, reader_poll_read]
    rcases hb : budgetStep s.budget with ⟨b, ok⟩
    cases ok <;> cases hd : s.data <;> cases hc : s.closed <;> rcases hw : s.waker with _ | (_|_) <;>
      by_cases hk : 0 < min s.data.length k <;>
      simp_all [exec, enter, setWait, evalCond, touch, trackPending]
  | write bs =>
    simp only [runOp, runWrite, writer_poll_write]
    rcases hb : budgetStep s.budget with ⟨b, ok⟩
    cases ok <;> cases hd : bs <;> cases hc : s.closed <;> rcases hw : s.waker with _ | (_|_) <;>
      by_cases hk : s.cap - s.data.length = 0 <;>
      simp_all [exec, enter, setWait, evalCond, touch, trackPending]
  | flush =>
    simp only [runOp, runFlush, writer_poll_flush]
    rcases hb : budgetStep s.budget with ⟨b, ok⟩
    cases ok <;> simp_all [exec, enter, setWait, evalCond, touch]
  | shutdown =>
    simp only [runOp, runShutdown, writer_poll_shutdown]
    rcases hb : budgetStep s.budget with ⟨b, ok⟩
    cases ok <;> rcases hw : s.waker with _ | (_|_) <;> simp_all [exec, enter, setWait, evalCond, touch]
  | dropR =>
    simp only [runOp, runDropR, reader_drop]
    rcases hw : s.waker with _ | (_|_) <;> simp_all [exec, enterDrop, evalCond, touch]
  | dropW =>
    simp only [runOp, runDropW, writer_drop]
    rcases hw : s.waker with _ | (_|_) <;> simp_all [exec, enterDrop, evalCond, touch]
  | setBudget n => simp [runOp, enter]

/-! ### `coop/mod.rs` -/
open SwimVerif.Generated.CoopSrc

/-- the translated `consume_budget` is `budgetStep`: new cell, `Ready` or `Pending`, and it wakes the polling task
itself exactly when it answers `Pending` -/
theorem consume_budget_eq (c : Option Nat) :
    (execB consume_budget { cell := c }).cell = (budgetStep c).1 ∧
    (execB consume_budget { cell := c }).ret = some (if (budgetStep c).2 then .ready else .pending) ∧
    (execB consume_budget { cell := c }).wokeSelf = !(budgetStep c).2 := by
  cases c with
  | none => simp [consume_budget, execB, budgetStep]
  | some b =>
    by_cases h : b - 1 = 0 <;> simp [consume_budget, execB, budgetStep, h]

/-- the translated `track_progress` is `trackBudget` on a `Pending` poll and the identity otherwise; it returns
the poll it was given -/
theorem track_progress_eq (c : Option Nat) (p : Bool) :
    (execB track_progress { cell := c, pollPending := p }).cell = (if p then trackBudget c else c) ∧
    (execB track_progress { cell := c, pollPending := p }).ret = some .same := by
  cases c <;> cases p <;> simp [track_progress, execB, trackBudget]

end SwimVerif.ConduitProg
