/-
C10 — the ad hoc command decoder (`CommandDecoder<S, WithLengthBytesCodec>`, after 5ec6b4e / cd6bc7e) is lawful for
`RawCommandMessageEncoder`: six decoder states, three message kinds, optional host.
-/
import SwimVerif.Proofs.FrameSafety

set_option linter.unusedSimpArgs false
set_option linter.unusedVariables false
namespace SwimVerif.Frames
open SwimVerif.Generated.Wire

structure OkCAddr (a : Addr) : Prop where
  hn : a.node.length < SZ
  hl : a.lane.length < SZ
  un : utf8Valid a.node = true
  ul : utf8Valid a.lane = true
  hh : ∀ h, a.host = some h → h.length < SZ ∧ utf8Valid h = true

@[simp] theorem drop16_be8 (n m : Nat) (l : List Nat) : List.drop 16 (be 8 n ++ (be 8 m ++ l)) = l := by
  show List.drop (8 + 8) _ = _
  rw [← List.drop_drop, drop_be8, drop_be8]

theorem cmdStrings_ok {α : Type} (a : Addr) (A : OkCAddr a) (rest : Bytes)
    (k : Addr → Bytes → CmdSt × Bytes × Out α) :
    cmdStrings a.host.isSome (a.host.getD []).length a.node.length a.lane.length
      ((a.host.getD []) ++ (a.node ++ (a.lane ++ rest))) k = k a rest := by
  obtain ⟨h0, n, l⟩ := a
  cases h0 with
  | none =>
    have := A.un; have := A.ul
    simp_all [cmdStrings]
  | some h =>
    have hv := (A.hh h rfl).2
    have := A.un; have := A.ul
    simp_all [cmdStrings]

theorem cmdBody_of_item (st : CmdSt) (w : Bytes → CmdMsg) (buf rest : Bytes) (x : Bytes) (h : wlb buf = (rest, .item x)) :
    cmdBody st w buf = (.init, rest, .item (w x)) := by
  unfold cmdBody
  simp only [h]
theorem cmdBody_of_more (st : CmdSt) (w : Bytes → CmdMsg) (buf : Bytes) (h : wlb buf = (buf, .more)) :
    cmdBody st w buf = (st, buf, .more) := by
  unfold cmdBody
  simp only [h]
theorem cmdBody_complete (st : CmdSt) (w : Bytes → CmdMsg) (body tail : Bytes) (hb : okBytes body) :
    cmdBody st w (encWlb body ++ tail) = (.init, tail, .item (w body)) :=
  cmdBody_of_item st w _ _ _ (wlb_lawful.complete body hb tail)


/-- `ReadingAddressedHeader` once the whole address is there: the body decoder takes over. -/
theorem cmdAddressedHeader_header (f : Nat) (a : Addr) (A : OkCAddr a) (rest : Bytes)
    (hf : hasFlag f cmdHasHost = a.host.isSome) :
    cmdAddressedHeader f (encAddr a ++ rest)
      = cmdBody (.readingAddressedBody a (hasFlag f cmdOverwrite))
          (fun body => .addressed a body (hasFlag f cmdOverwrite)) rest := by
  obtain ⟨h0, n, l⟩ := a
  have hn := A.hn; have hl := A.hl
  simp only at hn hl
  have r1 : rd (be 8 n.length) = n.length := rd_be8 (by omega)
  have r2 : rd (be 8 l.length) = l.length := rd_be8 (by omega)
  cases h0 with
  | none =>
    simp only [Option.isSome_none] at hf
    have hs := cmdStrings_ok (α := CmdMsg) ⟨none, n, l⟩ A rest
    simp only [Option.isSome_none, Option.getD_none, List.length_nil, List.nil_append] at hs
    simp only [cmdAddressedHeader, hf, encAddr, List.append_assoc, take_be8, drop_be8, drop16_be8, r1, r2,
      cmdMinRequired, cmdMaxRequired, Bool.false_and, Bool.false_eq_true, if_false, hs]
    simp
    ifs
  | some h =>
    simp only [Option.isSome_some] at hf
    have hh := (A.hh h rfl).1
    have r0 : rd (be 8 h.length) = h.length := rd_be8 (by omega)
    have hs := cmdStrings_ok (α := CmdMsg) ⟨some h, n, l⟩ A rest
    simp only [Option.isSome_some, Option.getD_some] at hs
    simp only [cmdAddressedHeader, hf, encAddr, List.append_assoc, take_be8, drop_be8, drop16_be8, r0, r1, r2,
      cmdMinRequired, cmdMaxRequired, Bool.true_and, if_true, hs]
    simp
    ifs

theorem cmdAddressedHeader_complete (f : Nat) (a : Addr) (A : OkCAddr a) (body tail : Bytes) (hb : okBytes body)
    (hf : hasFlag f cmdHasHost = a.host.isSome) :
    cmdAddressedHeader f (encAddr a ++ (encWlb body ++ tail))
      = (.init, tail, .item (.addressed a body (hasFlag f cmdOverwrite))) := by
  rw [cmdAddressedHeader_header f a A _ hf, cmdBody_complete _ _ body tail hb]

/-- `ReadingRegistration` on a complete register frame (without its flags byte). -/
theorem cmdRegistrationArm_complete (f : Nat) (a : Addr) (A : OkCAddr a) (id : Nat) (hid : id < 65536) (tail : Bytes)
    (hf : hasFlag f cmdHasHost = a.host.isSome) :
    cmdRegistrationArm f (encAddr a ++ (be 2 id ++ tail)) = (.init, tail, .item (.register a id)) := by
  obtain ⟨h0, n, l⟩ := a
  have hn := A.hn; have hl := A.hl
  simp only at hn hl
  have r1 : rd (be 8 n.length) = n.length := rd_be8 (by omega)
  have r2 : rd (be 8 l.length) = l.length := rd_be8 (by omega)
  have r3 : rd (be 2 id) = id := rd_be_lt (by simpa using hid)
  have t2 : List.take 2 (be 2 id ++ tail) = be 2 id := List.take_left' (be_length 2 id)
  have d2 : List.drop 2 (be 2 id ++ tail) = tail := List.drop_left' (be_length 2 id)
  cases h0 with
  | none =>
    simp only [Option.isSome_none] at hf
    have hs := cmdStrings_ok (α := CmdMsg) ⟨none, n, l⟩ A (be 2 id ++ tail)
    simp only [Option.isSome_none, Option.getD_none, List.length_nil, List.nil_append] at hs
    simp only [cmdRegistrationArm, hf, encAddr, List.append_assoc, take_be8, drop_be8, drop16_be8, r1, r2,
      cmdMinRequired, cmdMaxRequired, cmdIdLen, Bool.false_eq_true, if_false, hs, t2, d2, r3]
    simp
    ifs
  | some h =>
    simp only [Option.isSome_some] at hf
    have hh := (A.hh h rfl).1
    have r0 : rd (be 8 h.length) = h.length := rd_be8 (by omega)
    have hs := cmdStrings_ok (α := CmdMsg) ⟨some h, n, l⟩ A (be 2 id ++ tail)
    simp only [Option.isSome_some, Option.getD_some] at hs
    simp only [cmdRegistrationArm, hf, encAddr, List.append_assoc, take_be8, drop_be8, drop16_be8, r0, r1, r2,
      cmdMinRequired, cmdMaxRequired, cmdIdLen, if_true, hs, t2, d2, r3]
    simp
    ifs

theorem cmdRegisteredHeader_unfold (f t : Nat) (l : Bytes) :
    cmdRegisteredHeader f (be 2 t ++ l) =
      cmdBody (.readingRegisteredBody (rd ((be 2 t ++ l).take 2)) (hasFlag f cmdOverwrite))
        (fun body => .registered (rd ((be 2 t ++ l).take 2)) body (hasFlag f cmdOverwrite)) ((be 2 t ++ l).drop 2) := by
  unfold cmdRegisteredHeader
  rw [if_neg (by simp [cmdIdLen])]

theorem take2_be2 (t : Nat) (l : Bytes) : (be 2 t ++ l).take 2 = be 2 t := List.take_left' (be_length 2 t)
theorem drop2_be2 (t : Nat) (l : Bytes) : (be 2 t ++ l).drop 2 = l := List.drop_left' (be_length 2 t)
theorem rd_be2 {t : Nat} (ht : t < 65536) : rd (be 2 t) = t := rd_be_lt (by simpa using ht)

theorem cmdRegisteredHeader_complete (f t : Nat) (ht : t < 65536) (body tail : Bytes) (hb : okBytes body) :
    cmdRegisteredHeader f (be 2 t ++ (encWlb body ++ tail))
      = (.init, tail, .item (.registered t body (hasFlag f cmdOverwrite))) := by
  rw [cmdRegisteredHeader_unfold, take2_be2, drop2_be2, rd_be2 ht, cmdBody_complete _ _ body tail hb]

/-! ### the three header arms behind one dispatcher -/

def okCmd : CmdMsg → Prop
  | .register a id => OkCAddr a ∧ id < 65536
  | .addressed a b _ => OkCAddr a ∧ okBytes b
  | .registered t b _ => t < 65536 ∧ okBytes b

def flagsOf : CmdMsg → Nat
  | .register a _ => cmdRegistration + hostFlag a
  | .addressed a _ ow => owFlag ow + hostFlag a
  | .registered _ _ ow => cmdRegistered + owFlag ow

def contentOf : CmdMsg → Bytes
  | .register a id => encAddr a ++ be 2 id
  | .addressed a b _ => encAddr a ++ encWlb b
  | .registered t b _ => be 2 t ++ encWlb b

theorem encCmd_eq (m : CmdMsg) : encCmd m = flagsOf m :: contentOf m := by
  cases m <;> rfl

/-- What `Init` does after reading the flags byte, and what the three header states do. -/
def armStep (f : Nat) (buf : Bytes) : CmdSt × Bytes × Out CmdMsg :=
  if hasFlag f cmdRegistration then cmdRegistrationArm f buf
  else if hasFlag f cmdRegistered then cmdRegisteredHeader f buf
  else cmdAddressedHeader f buf

theorem cmdStep_init (f : Nat) (rest : Bytes) (hf : f < 16) : cmdStep .init (f :: rest) = armStep f rest := by
  have : f % 16 = f := Nat.mod_eq_of_lt hf
  simp [cmdStep, armStep, cmdFlagsLen, this]

def wfCmd : CmdSt → Prop
  | .init => True
  | .readingRegistration f => f < 16 ∧ hasFlag f cmdRegistration = true
  | .readingRegisteredHeader f => f < 16 ∧ hasFlag f cmdRegistration = false ∧ hasFlag f cmdRegistered = true
  | .readingAddressedHeader f => f < 16 ∧ hasFlag f cmdRegistration = false ∧ hasFlag f cmdRegistered = false
  | .readingAddressedBody a _ => OkCAddr a
  | .readingRegisteredBody id _ => id < 65536

theorem flagsOf_lt (m : CmdMsg) : flagsOf m < 16 := by
  cases m with
  | register a id => cases h : a.host <;> simp [flagsOf, hostFlag, h, cmdRegistration, cmdHasHost]
  | addressed a b ow => cases h : a.host <;> cases ow <;> simp [flagsOf, hostFlag, owFlag, h, cmdOverwrite, cmdHasHost]
  | registered t b ow => cases ow <;> simp [flagsOf, owFlag, cmdOverwrite, cmdRegistered]

theorem flags_register (a : Addr) :
    hasFlag (cmdRegistration + hostFlag a) cmdRegistration = true ∧
    hasFlag (cmdRegistration + hostFlag a) cmdHasHost = a.host.isSome := by
  cases h : a.host <;> simp [hostFlag, h, hasFlag, cmdRegistration, cmdHasHost]

theorem flags_addressed (a : Addr) (ow : Bool) :
    hasFlag (owFlag ow + hostFlag a) cmdRegistration = false ∧
    hasFlag (owFlag ow + hostFlag a) cmdRegistered = false ∧
    hasFlag (owFlag ow + hostFlag a) cmdHasHost = a.host.isSome ∧
    hasFlag (owFlag ow + hostFlag a) cmdOverwrite = ow := by
  cases h : a.host <;> cases ow <;>
    simp [hostFlag, owFlag, h, hasFlag, cmdRegistration, cmdRegistered, cmdHasHost, cmdOverwrite]

theorem flags_registered (ow : Bool) :
    hasFlag (cmdRegistered + owFlag ow) cmdRegistration = false ∧
    hasFlag (cmdRegistered + owFlag ow) cmdRegistered = true ∧
    hasFlag (cmdRegistered + owFlag ow) cmdOverwrite = ow := by
  cases ow <;> simp [owFlag, hasFlag, cmdRegistration, cmdRegistered, cmdOverwrite]

/-- Lemma A: a complete frame behind its flags byte. -/
theorem armStep_complete (m : CmdMsg) (hm : okCmd m) (tail : Bytes) :
    armStep (flagsOf m) (contentOf m ++ tail) = (.init, tail, .item m) := by
  cases m with
  | register a id =>
    obtain ⟨A, hid⟩ := hm
    obtain ⟨h1, h2⟩ := flags_register a
    simp only [armStep, flagsOf, contentOf, h1, if_true, List.append_assoc]
    exact cmdRegistrationArm_complete _ a A id hid tail h2
  | addressed a b ow =>
    obtain ⟨A, hb⟩ := hm
    obtain ⟨h1, h2, h3, h4⟩ := flags_addressed a ow
    simp only [armStep, flagsOf, contentOf, h1, h2, Bool.false_eq_true, if_false, List.append_assoc]
    rw [cmdAddressedHeader_complete _ a A b tail hb h3, h4]
  | registered t b ow =>
    obtain ⟨ht, hb⟩ := hm
    obtain ⟨h1, h2, h3⟩ := flags_registered ow
    simp only [armStep, flagsOf, contentOf, h1, h2, Bool.false_eq_true, if_false, if_true, List.append_assoc]
    rw [cmdRegisteredHeader_complete _ t ht b tail hb, h3]

/-! ### strict prefixes -/

theorem cmdRegistrationArm_prefix (f : Nat) (a : Addr) (A : OkCAddr a) (id : Nat) (pre q : Bytes)
    (hpq : pre ++ q = encAddr a ++ be 2 id) (hq : q ≠ []) (hf : hasFlag f cmdHasHost = a.host.isSome) :
    cmdRegistrationArm f pre = (.readingRegistration f, pre, .more) := by
  have hql : 0 < q.length := List.length_pos_iff.mpr hq
  obtain ⟨h0, n, l⟩ := a
  have hn := A.hn; have hl := A.hl
  simp only at hn hl
  have r1 : rd (be 8 n.length) = n.length := rd_be8 (by omega)
  have r2 : rd (be 8 l.length) = l.length := rd_be8 (by omega)
  cases h0 with
  | none =>
    simp only [Option.isSome_none] at hf
    by_cases h : pre.length < 16
    · simp [cmdRegistrationArm, hf, cmdMinRequired, h]
    · have hpq' : pre ++ q = (be 8 n.length ++ be 8 l.length) ++ (n ++ (l ++ be 2 id)) := by
        simp [hpq, encAddr]
      obtain ⟨p', e1, e2⟩ := split_of_le hpq' (by simp; omega)
      have hl2 := congrArg List.length e2
      simp at hl2
      subst e1
      simp only [cmdRegistrationArm, hf, List.append_assoc, take_be8, drop_be8, drop16_be8, r1, r2,
        cmdMinRequired, cmdMaxRequired, cmdIdLen, Bool.false_eq_true, if_false]
      simp
      ifs
  | some h =>
    simp only [Option.isSome_some] at hf
    have hh := (A.hh h rfl).1
    have r0 : rd (be 8 h.length) = h.length := rd_be8 (by omega)
    by_cases hlt : pre.length < 24
    · simp [cmdRegistrationArm, hf, cmdMaxRequired, hlt]
    · have hpq' : pre ++ q = (be 8 h.length ++ (be 8 n.length ++ be 8 l.length)) ++ (h ++ (n ++ (l ++ be 2 id))) := by
        simp [hpq, encAddr]
      obtain ⟨p', e1, e2⟩ := split_of_le hpq' (by simp; omega)
      have hl2 := congrArg List.length e2
      simp at hl2
      subst e1
      simp only [cmdRegistrationArm, hf, List.append_assoc, take_be8, drop_be8, drop16_be8, r0, r1, r2,
        cmdMinRequired, cmdMaxRequired, cmdIdLen, if_true]
      simp
      ifs

theorem encAddr_length (a : Addr) :
    (encAddr a).length = (if a.host.isSome then 24 else 16) + (a.host.getD []).length + a.node.length + a.lane.length := by
  obtain ⟨h0, n, l⟩ := a
  cases h0 <;> simp [encAddr] <;> omega

/-- A strict prefix of an addressed frame (without its flags byte): either the address is not complete yet and
nothing is consumed, or the address is consumed and the body decoder waits. -/
theorem cmdAddressedHeader_prefix (f : Nat) (a : Addr) (A : OkCAddr a) (body : Bytes) (hb : okBytes body)
    (pre q : Bytes) (hpq : pre ++ q = encAddr a ++ encWlb body) (hq : q ≠ [])
    (hf : hasFlag f cmdHasHost = a.host.isSome) :
    cmdAddressedHeader f pre = (.readingAddressedHeader f, pre, .more) ∨
    ∃ p', pre = encAddr a ++ p' ∧
      cmdAddressedHeader f pre = (.readingAddressedBody a (hasFlag f cmdOverwrite), p', .more) := by
  have hql : 0 < q.length := List.length_pos_iff.mpr hq
  by_cases hlen : (encAddr a).length ≤ pre.length
  · right
    obtain ⟨p', e1, e2⟩ := split_of_le hpq hlen
    refine ⟨p', e1, ?_⟩
    rw [e1, cmdAddressedHeader_header f a A p' hf]
    exact cmdBody_of_more _ _ _ (wlb_lawful.prefix_more body hb p' q e2.symm hq)
  · left
    obtain ⟨a', ha', e1, e2⟩ := split_of_lt hpq (by omega)
    have hal : 0 < a'.length := List.length_pos_iff.mpr ha'
    obtain ⟨h0, n, l⟩ := a
    have hn := A.hn; have hl := A.hl
    simp only at hn hl
    have r1 : rd (be 8 n.length) = n.length := rd_be8 (by omega)
    have r2 : rd (be 8 l.length) = l.length := rd_be8 (by omega)
    cases h0 with
    | none =>
      simp only [Option.isSome_none] at hf
      by_cases h : pre.length < 16
      · simp [cmdAddressedHeader, hf, cmdMinRequired, h]
      · have e1' : pre ++ a' = (be 8 n.length ++ be 8 l.length) ++ (n ++ l) := by simp [← e1, encAddr]
        obtain ⟨p', f1, f2⟩ := split_of_le e1' (by simp; omega)
        have hl2 := congrArg List.length f2
        simp at hl2
        subst f1
        simp only [cmdAddressedHeader, hf, List.append_assoc, take_be8, drop_be8, drop16_be8, r1, r2,
          cmdMinRequired, cmdMaxRequired, Bool.false_and, Bool.false_eq_true, if_false]
        simp
        ifs
    | some h =>
      simp only [Option.isSome_some] at hf
      have hh := (A.hh h rfl).1
      have r0 : rd (be 8 h.length) = h.length := rd_be8 (by omega)
      by_cases hlt : pre.length < 24
      · by_cases h16 : pre.length < 16
        · simp [cmdAddressedHeader, hf, cmdMinRequired, h16]
        · simp [cmdAddressedHeader, hf, cmdMinRequired, cmdMaxRequired, h16, hlt]
      · have e1' : pre ++ a' = (be 8 h.length ++ (be 8 n.length ++ be 8 l.length)) ++ (h ++ (n ++ l)) := by
          simp [← e1, encAddr]
        obtain ⟨p', f1, f2⟩ := split_of_le e1' (by simp; omega)
        have hl2 := congrArg List.length f2
        simp at hl2
        subst f1
        simp only [cmdAddressedHeader, hf, List.append_assoc, take_be8, drop_be8, drop16_be8, r0, r1, r2,
          cmdMinRequired, cmdMaxRequired, Bool.true_and, if_true]
        simp
        ifs

theorem cmdRegisteredHeader_prefix (f t : Nat) (ht : t < 65536) (body : Bytes) (hb : okBytes body) (pre q : Bytes)
    (hpq : pre ++ q = be 2 t ++ encWlb body) (hq : q ≠ []) :
    (pre.length < 2 ∧ cmdRegisteredHeader f pre = (.readingRegisteredHeader f, pre, .more)) ∨
    ∃ p', pre = be 2 t ++ p' ∧
      cmdRegisteredHeader f pre = (.readingRegisteredBody t (hasFlag f cmdOverwrite), p', .more) := by
  by_cases h : pre.length < 2
  · left; exact ⟨h, by simp [cmdRegisteredHeader, cmdIdLen, h]⟩
  · right
    obtain ⟨p', e1, e2⟩ := split_of_le hpq (by simp; omega)
    refine ⟨p', e1, ?_⟩
    rw [e1, cmdRegisteredHeader_unfold, take2_be2, drop2_be2, rd_be2 ht]
    exact cmdBody_of_more _ _ _ (wlb_lawful.prefix_more body hb p' q e2.symm hq)

/-- Lemma B: a strict prefix behind the flags byte. -/
theorem armStep_prefix (m : CmdMsg) (hm : okCmd m) (pre q : Bytes) (hpq : pre ++ q = contentOf m) (hq : q ≠ []) :
    wfCmd (armStep (flagsOf m) pre).1 ∧ (armStep (flagsOf m) pre).2.2 = .more ∧
      rawCommand.view (armStep (flagsOf m) pre).1 ++ (armStep (flagsOf m) pre).2.1 = flagsOf m :: pre := by
  have hlt := flagsOf_lt m
  cases m with
  | register a id =>
    obtain ⟨A, hid⟩ := hm
    obtain ⟨h1, h2⟩ := flags_register a
    simp only [flagsOf] at hlt
    simp only [armStep, flagsOf, contentOf, h1, if_true] at hpq ⊢
    rw [cmdRegistrationArm_prefix _ a A id pre q hpq hq h2]
    exact ⟨⟨hlt, h1⟩, rfl, rfl⟩
  | addressed a b ow =>
    obtain ⟨A, hb⟩ := hm
    obtain ⟨h1, h2, h3, h4⟩ := flags_addressed a ow
    simp only [flagsOf] at hlt
    simp only [armStep, flagsOf, contentOf, h1, h2, Bool.false_eq_true, if_false] at hpq ⊢
    rcases cmdAddressedHeader_prefix _ a A b hb pre q hpq hq h3 with h | ⟨p', e1, h⟩
    · rw [h]; exact ⟨⟨hlt, h1, h2⟩, rfl, rfl⟩
    · rw [h, h4]; exact ⟨A, rfl, by simp [rawCommand, e1]⟩
  | registered t b ow =>
    obtain ⟨ht, hb⟩ := hm
    obtain ⟨h1, h2, h3⟩ := flags_registered ow
    simp only [flagsOf] at hlt
    simp only [armStep, flagsOf, contentOf, h1, h2, Bool.false_eq_true, if_false, if_true] at hpq ⊢
    rcases cmdRegisteredHeader_prefix (cmdRegistered + owFlag ow) t ht b hb pre q hpq hq with ⟨_, h⟩ | ⟨p', e1, h⟩
    · rw [h]; exact ⟨⟨hlt, h1, h2⟩, rfl, rfl⟩
    · rw [h, h3]; exact ⟨ht, rfl, by simp [rawCommand, e1]⟩

/-! ### injectivity of the header encodings (to identify the message from a body state) -/

theorem be8_inj {x y : Nat} (hx : x < M64) (hy : y < M64) (h : be 8 x = be 8 y) : x = y := by
  have := congrArg rd h
  rwa [rd_be8 hx, rd_be8 hy] at this

theorem be8_app_inj {x y : Nat} {r s : Bytes} (hx : x < M64) (hy : y < M64) (h : be 8 x ++ r = be 8 y ++ s) :
    x = y ∧ r = s := by
  obtain ⟨h1, h2⟩ := List.append_inj h (by simp)
  exact ⟨be8_inj hx hy h1, h2⟩

theorem encAddr_inj (a a' : Addr) (A : OkCAddr a) (A' : OkCAddr a') (x y : Bytes)
    (hh : a.host.isSome = a'.host.isSome) (h : encAddr a ++ x = encAddr a' ++ y) : a = a' ∧ x = y := by
  obtain ⟨h0, n, l⟩ := a
  obtain ⟨h0', n', l'⟩ := a'
  have hn := A.hn; have hl := A.hl; have hn' := A'.hn; have hl' := A'.hl
  simp only at hn hl hn' hl'
  cases h0 with
  | none =>
    cases h0' with
    | some _ => simp at hh
    | none =>
      simp only [encAddr, List.append_assoc] at h
      obtain ⟨e1, k1⟩ := be8_app_inj (by omega) (by omega) h
      obtain ⟨e2, k2⟩ := be8_app_inj (by omega) (by omega) k1
      obtain ⟨e3, k3⟩ := List.append_inj k2 e1
      obtain ⟨e4, k4⟩ := List.append_inj k3 e2
      subst e3 e4; exact ⟨rfl, k4⟩
  | some g =>
    cases h0' with
    | none => simp at hh
    | some g' =>
      have hg := (A.hh g rfl).1; have hg' := (A'.hh g' rfl).1
      simp only [encAddr, List.append_assoc] at h
      obtain ⟨e0, k0⟩ := be8_app_inj (by omega) (by omega) h
      obtain ⟨e1, k1⟩ := be8_app_inj (by omega) (by omega) k0
      obtain ⟨e2, k2⟩ := be8_app_inj (by omega) (by omega) k1
      obtain ⟨e5, k5⟩ := List.append_inj k2 e0
      obtain ⟨e3, k3⟩ := List.append_inj k5 e1
      obtain ⟨e4, k4⟩ := List.append_inj k3 e2
      subst e3 e4 e5; exact ⟨rfl, k4⟩

theorem be2_app_inj {x y : Nat} {r s : Bytes} (hx : x < 65536) (hy : y < 65536) (h : be 2 x ++ r = be 2 y ++ s) :
    x = y ∧ r = s := by
  obtain ⟨h1, h2⟩ := List.append_inj h (by simp)
  have := congrArg rd h1
  rw [rd_be2 hx, rd_be2 hy] at this
  exact ⟨this, h2⟩

/-- From the addressed-body state: the only frames that continue it. -/
theorem addressedBody_cont (a : Addr) (ow : Bool) (A : OkCAddr a) (m : CmdMsg) (hm : okCmd m) (x y : Bytes)
    (h : (owFlag ow + hostFlag a) :: (encAddr a ++ x) = flagsOf m :: (contentOf m ++ y)) :
    ∃ b, m = .addressed a b ow ∧ okBytes b ∧ x = encWlb b ++ y := by
  obtain ⟨hf, hc⟩ := List.cons.inj h
  cases m with
  | register a' id =>
    exfalso
    cases h1 : a.host <;> cases h2 : a'.host <;> cases ow <;>
      simp [flagsOf, hostFlag, owFlag, h1, h2, cmdRegistration, cmdHasHost, cmdOverwrite] at hf
  | registered t b ow' =>
    exfalso
    cases h1 : a.host <;> cases ow <;> cases ow' <;>
      simp [flagsOf, hostFlag, owFlag, h1, cmdRegistered, cmdHasHost, cmdOverwrite] at hf
  | addressed a' b ow' =>
    obtain ⟨A', hb⟩ := hm
    have hflags : ow = ow' ∧ a.host.isSome = a'.host.isSome := by
      cases h1 : a.host <;> cases h2 : a'.host <;> cases ow <;> cases ow' <;>
        simp [flagsOf, hostFlag, owFlag, h1, h2, cmdHasHost, cmdOverwrite] at hf ⊢
    obtain ⟨e1, e2⟩ := hflags
    simp only [contentOf, List.append_assoc] at hc
    obtain ⟨e3, e4⟩ := encAddr_inj a a' A A' _ _ e2 hc
    subst e1 e3
    exact ⟨b, rfl, hb, e4⟩

theorem registeredBody_cont (id : Nat) (ow : Bool) (hid : id < 65536) (m : CmdMsg) (hm : okCmd m) (x y : Bytes)
    (h : (cmdRegistered + owFlag ow) :: (be 2 id ++ x) = flagsOf m :: (contentOf m ++ y)) :
    ∃ b, m = .registered id b ow ∧ okBytes b ∧ x = encWlb b ++ y := by
  obtain ⟨hf, hc⟩ := List.cons.inj h
  cases m with
  | register a' id' =>
    exfalso
    cases h2 : a'.host <;> cases ow <;>
      simp [flagsOf, hostFlag, owFlag, h2, cmdRegistration, cmdRegistered, cmdHasHost, cmdOverwrite] at hf
  | addressed a' b ow' =>
    exfalso
    cases h2 : a'.host <;> cases ow <;> cases ow' <;>
      simp [flagsOf, hostFlag, owFlag, h2, cmdRegistered, cmdHasHost, cmdOverwrite] at hf
  | registered t b ow' =>
    obtain ⟨ht, hb⟩ := hm
    have e1 : ow = ow' := by
      cases ow <;> cases ow' <;> simp [flagsOf, owFlag, cmdRegistered, cmdOverwrite] at hf ⊢
    simp only [contentOf, List.append_assoc] at hc
    obtain ⟨e2, e3⟩ := be2_app_inj hid ht hc
    subst e1 e2
    exact ⟨b, rfl, hb, e3⟩

theorem cmdStep_header_states (s : CmdSt) (hwf : wfCmd s) (buf : Bytes) :
    (∀ f, s = .readingRegistration f → cmdStep s buf = armStep f buf) ∧
    (∀ f, s = .readingRegisteredHeader f → cmdStep s buf = armStep f buf) ∧
    (∀ f, s = .readingAddressedHeader f → cmdStep s buf = armStep f buf) := by
  refine ⟨?_, ?_, ?_⟩ <;> intro f hs <;> subst hs
  · simp [cmdStep, armStep, hwf.2]
  · simp [cmdStep, armStep, hwf.2.1, hwf.2.2]
  · simp [cmdStep, armStep, hwf.2.1, hwf.2.2]

/-- `RawCommandMessageDecoder` is lawful for `RawCommandMessageEncoder`. -/
theorem rawCommand_lawful : Lawful rawCommand encCmd okCmd wfCmd where
  wf_init := trivial
  view_init := rfl
  enc_ne := by intro m _ h; rw [encCmd_eq] at h; cases h
  complete := by
    intro m hm s buf tail hwf hv
    rw [encCmd_eq] at hv
    obtain ⟨k1, k2, k3⟩ := cmdStep_header_states s hwf buf
    have hdr : ∀ f, rawCommand.view s = [f] → rawCommand.step s buf = armStep f buf →
        rawCommand.step s buf = (rawCommand.init, tail, .item m) := by
      intro f hview hstep
      rw [hview] at hv
      simp only [List.cons_append, List.nil_append] at hv
      obtain ⟨e1, e2⟩ := List.cons.inj hv
      subst e1 e2
      rw [hstep, armStep_complete m hm tail]; rfl
    cases s with
    | init =>
      simp only [rawCommand, List.nil_append, List.cons_append] at hv
      subst hv
      simp only [rawCommand]
      rw [cmdStep_init _ _ (flagsOf_lt m), armStep_complete m hm tail]
    | readingRegistration f => exact hdr f rfl (k1 f rfl)
    | readingRegisteredHeader f => exact hdr f rfl (k2 f rfl)
    | readingAddressedHeader f => exact hdr f rfl (k3 f rfl)
    | readingAddressedBody a ow =>
      have hv' : (owFlag ow + hostFlag a) :: (encAddr a ++ buf) = flagsOf m :: (contentOf m ++ tail) := by
        simpa [rawCommand] using hv
      obtain ⟨b, e1, hb, e2⟩ := addressedBody_cont a ow hwf m hm buf tail hv'
      subst e1 e2
      simp only [rawCommand, cmdStep]
      rw [cmdBody_complete _ _ b tail hb]
    | readingRegisteredBody id ow =>
      have hv' : (cmdRegistered + owFlag ow) :: (be 2 id ++ buf) = flagsOf m :: (contentOf m ++ tail) := by
        simpa [rawCommand] using hv
      obtain ⟨b, e1, hb, e2⟩ := registeredBody_cont id ow hwf m hm buf tail hv'
      subst e1 e2
      simp only [rawCommand, cmdStep]
      rw [cmdBody_complete _ _ b tail hb]
  prefix_more := by
    intro m hm pre q hpq hq s buf hwf hv
    rw [encCmd_eq] at hpq
    obtain ⟨k1, k2, k3⟩ := cmdStep_header_states s hwf buf
    have hdr : ∀ f, rawCommand.view s = [f] → rawCommand.step s buf = armStep f buf →
        wfCmd (rawCommand.step s buf).1 ∧ (rawCommand.step s buf).2.2 = .more ∧
          rawCommand.view (rawCommand.step s buf).1 ++ (rawCommand.step s buf).2.1 = pre := by
      intro f hview hstep
      rw [hview] at hv
      subst hv
      simp only [List.cons_append, List.nil_append] at hpq
      obtain ⟨e1, e2⟩ := List.cons.inj hpq
      subst e1
      rw [hstep]
      simpa using armStep_prefix m hm buf q e2 hq
    cases s with
    | init =>
      simp only [rawCommand, List.nil_append] at hv
      subst hv
      cases buf with
      | nil => exact ⟨trivial, by simp [rawCommand, cmdStep, cmdFlagsLen], by simp [rawCommand, cmdStep, cmdFlagsLen]⟩
      | cons f pre' =>
        simp only [List.cons_append] at hpq
        obtain ⟨e1, e2⟩ := List.cons.inj hpq
        subst e1
        have := armStep_prefix m hm pre' q e2 hq
        rw [← cmdStep_init _ _ (flagsOf_lt m)] at this
        exact this
    | readingRegistration f => exact hdr f rfl (k1 f rfl)
    | readingRegisteredHeader f => exact hdr f rfl (k2 f rfl)
    | readingAddressedHeader f => exact hdr f rfl (k3 f rfl)
    | readingAddressedBody a ow =>
      have hv' : (owFlag ow + hostFlag a) :: (encAddr a ++ (buf ++ q)) = flagsOf m :: (contentOf m ++ []) := by
        rw [← hv] at hpq; simpa [rawCommand] using hpq
      obtain ⟨b, e1, hb, e2⟩ := addressedBody_cont a ow hwf m hm (buf ++ q) [] hv'
      have hw := wlb_lawful.prefix_more b hb buf q (by simpa using e2) hq
      have hstep : rawCommand.step (.readingAddressedBody a ow) buf = (.readingAddressedBody a ow, buf, .more) := by
        simp only [rawCommand, cmdStep]
        rw [cmdBody_of_more _ _ _ hw]
      rw [hstep]
      exact ⟨hwf, rfl, hv⟩
    | readingRegisteredBody id ow =>
      have hv' : (cmdRegistered + owFlag ow) :: (be 2 id ++ (buf ++ q)) = flagsOf m :: (contentOf m ++ []) := by
        rw [← hv] at hpq; simpa [rawCommand] using hpq
      obtain ⟨b, e1, hb, e2⟩ := registeredBody_cont id ow hwf m hm (buf ++ q) [] hv'
      have hw := wlb_lawful.prefix_more b hb buf q (by simpa using e2) hq
      have hstep : rawCommand.step (.readingRegisteredBody id ow) buf = (.readingRegisteredBody id ow, buf, .more) := by
        simp only [rawCommand, cmdStep]
        rw [cmdBody_of_more _ _ _ hw]
      rw [hstep]
      exact ⟨hwf, rfl, hv⟩

end SwimVerif.Frames
