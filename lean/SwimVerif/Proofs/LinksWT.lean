/-
The write task drives the link registry by registry operations (C20): every `WT.step` changes `s.links` exactly by
the sequence `stepOps s e` of `LOp`s; the other components of the state (remotes, in-flight writes, orphans) never
touch the registry.
-/
import SwimVerif.Proofs.LinksEvents

set_option linter.unusedSimpArgs false
set_option linter.unusedVariables false
namespace SwimVerif.WT

/-! ### the remote tracker leaves the registry alone -/

@[simp] theorem sched_links (s : St) (r : Nat) (u : Uplinks) (w i : Option Write) : (s.sched r u w i).links = s.links := rfl
@[simp] theorem sched_reg (s : St) (r : Nat) (u : Uplinks) (w i : Option Write) : (s.sched r u w i).reg = s.reg := rfl

@[simp] theorem pushSpecial_links (s : St) (r : Nat) (a : Special) : (s.pushSpecial r a).1.links = s.links := by
  unfold St.pushSpecial; split <;> rfl
@[simp] theorem pushSpecial_reg (s : St) (r : Nat) (a : Special) : (s.pushSpecial r a).1.reg = s.reg := by
  unfold St.pushSpecial; split <;> rfl
@[simp] theorem pushWrite_links (s : St) (r lane : Nat) (ev : Resp) : (s.pushWrite r lane ev).1.links = s.links := by
  unfold St.pushWrite; split <;> rfl
@[simp] theorem pushWrite_reg (s : St) (r lane : Nat) (ev : Resp) : (s.pushWrite r lane ev).1.reg = s.reg := by
  unfold St.pushWrite; split <;> rfl

@[simp] theorem removeRemote_links (s : St) (r : Nat) (why : Reason) :
    (s.removeRemote r why).1.links = s.links.removeRemote r := by
  unfold St.removeRemote; simp only []; split <;> rfl
@[simp] theorem removeRemote_reg (s : St) (r : Nat) (why : Reason) : (s.removeRemote r why).1.reg = s.reg := by
  unfold St.removeRemote; simp only []; split <;> rfl

@[simp] theorem stepOrphan_links (s : St) (r : Nat) (ok : Bool) : (stepOrphan s r ok).1.links = s.links := by
  unfold stepOrphan; split <;> rfl
@[simp] theorem stepOrphan_reg (s : St) (r : Nat) (ok : Bool) : (stepOrphan s r ok).1.reg = s.reg := by
  unfold stepOrphan; split <;> rfl

/-- the three loops of `step` (broadcast, `remove_lane`, `unlink_all`), as named functions -/
def bcastFold (lane : Nat) (resp : Resp) (targets : List Nat) (acc : St × List Nat) : St × List Nat :=
  targets.foldl (fun (acc : St × List Nat) r =>
    let x := acc.1.pushWrite r lane resp; (x.1, acc.2 ++ x.2)) acc

def failFold (lane : Nat) (ps : List (Nat × Bool)) (acc : St × List Nat) : St × List Nat :=
  ps.foldl (fun (acc : St × List Nat) (p : Nat × Bool) =>
    let x := acc.1.pushSpecial p.1 (.unlinked lane .none); (x.1, acc.2 ++ x.2)) acc

def stopFold (ps : List (Nat × Nat)) (acc : St × List Nat) : St × List Nat :=
  ps.foldl (fun (acc : St × List Nat) (p : Nat × Nat) =>
    let x := acc.1.pushSpecial p.2 (.unlinked p.1 .none); (x.1, acc.2 ++ x.2)) acc

theorem bcastFold_fields (lane : Nat) (resp : Resp) (targets : List Nat) : ∀ acc : St × List Nat,
    (bcastFold lane resp targets acc).1.links = acc.1.links ∧ (bcastFold lane resp targets acc).1.reg = acc.1.reg := by
  induction targets with
  | nil => intro acc; exact ⟨rfl, rfl⟩
  | cons r rest ih =>
    intro acc
    simp only [bcastFold, List.foldl] at ih ⊢
    have := ih ((acc.1.pushWrite r lane resp).1, acc.2 ++ (acc.1.pushWrite r lane resp).2)
    exact ⟨this.1.trans (pushWrite_links _ _ _ _), this.2.trans (pushWrite_reg _ _ _ _)⟩

theorem failFold_fields (lane : Nat) (ps : List (Nat × Bool)) : ∀ acc : St × List Nat,
    (failFold lane ps acc).1.links = acc.1.links ∧ (failFold lane ps acc).1.reg = acc.1.reg := by
  induction ps with
  | nil => intro acc; exact ⟨rfl, rfl⟩
  | cons p rest ih =>
    intro acc
    simp only [failFold, List.foldl] at ih ⊢
    have := ih ((acc.1.pushSpecial p.1 (.unlinked lane .none)).1, acc.2 ++ (acc.1.pushSpecial p.1 (.unlinked lane .none)).2)
    exact ⟨this.1.trans (pushSpecial_links _ _ _), this.2.trans (pushSpecial_reg _ _ _)⟩

theorem stopFold_fields (ps : List (Nat × Nat)) : ∀ acc : St × List Nat,
    (stopFold ps acc).1.links = acc.1.links ∧ (stopFold ps acc).1.reg = acc.1.reg := by
  induction ps with
  | nil => intro acc; exact ⟨rfl, rfl⟩
  | cons p rest ih =>
    intro acc
    simp only [stopFold, List.foldl] at ih ⊢
    have := ih ((acc.1.pushSpecial p.2 (.unlinked p.1 .none)).1, acc.2 ++ (acc.1.pushSpecial p.2 (.unlinked p.1 .none)).2)
    exact ⟨this.1.trans (pushSpecial_links _ _ _), this.2.trans (pushSpecial_reg _ _ _)⟩

/-! ### the registry operations of one step -/

def linkOps (s : St) (r name : Nat) : List LOp :=
  match s.reg.idFor name, s.remote? r with
  | some id, some _ => [.insert id r]
  | _, _ => []

def unlinkOps (s : St) (r name : Nat) : List LOp :=
  match s.reg.idFor name with
  | some id => if s.links.isLinked r id then [.remove id r] else []
  | none => []

def eventOps (s : St) (lane : Nat) : Option Nat → List LOp
  | some r =>
    if (s.remote? r).isNone then []
    else if (s.links.countSingle lane).isLinked r lane then [.countSingle lane]
    else [.countSingle lane, .insert lane r]
  | none => if (s.links.linkedFrom lane).isEmpty then [] else [.countBroadcast lane]

def doneOps (s : St) (r : Nat) (ok : Bool) : List LOp :=
  match s.remote? r with
  | none => []
  | some rem =>
    match rem.inflight with
    | none => []
    | some _ => if ok then [] else [.removeRemote r]

def pruneOps (s : St) (r : Nat) : List LOp :=
  match alGet s.links.backwards r with
  | some _ => []
  | none => [.removeRemote r]

/-- The registry operations (`links.rs` calls) one iteration of the write-task loop performs, in order. -/
def stepOps (s : St) : Ev → List LOp
  | .lane _ rep => if rep then [.register s.reg.length] else []
  | .attach _ => []
  | .link r name => linkOps s r name
  | .unlink r name => unlinkOps s r name
  | .unknown _ _ => []
  | .event lane target _ => eventOps s lane target
  | .done r ok => doneOps s r ok
  | .laneFailed lane => [.removeLane lane]
  | .prune r => pruneOps s r
  | .stop => [.removeAll]
  | .snapshot => [.snapshot]

theorem step_links_reg (s : St) (e : Ev) :
    (step s e).1.links = lrun s.links (stepOps s e) ∧
    (step s e).1.reg = (match e with | .lane name _ => s.reg ++ [name] | _ => s.reg) := by
  cases e with
  | lane name rep =>
    cases rep <;> simp [step, stepOps, lrun, lstep]
  | attach r =>
    simp only [step, stepOps, lrun, List.foldl]
    split <;> exact ⟨rfl, rfl⟩
  | link r name =>
    cases h1 : s.reg.idFor name <;> cases h2 : s.remote? r <;>
      simp [step, stepOps, linkOps, h1, h2, lrun, lstep]
  | unlink r name =>
    cases h1 : s.reg.idFor name with
    | none => simp [step, stepOps, unlinkOps, h1, lrun]
    | some id =>
      cases h2 : s.links.isLinked r id <;> simp [step, stepOps, unlinkOps, h1, h2, lrun, lstep]
  | unknown r name => simp [step, stepOps, lrun]
  | event lane target resp =>
    cases target with
    | some r =>
      simp only [step, stepOps, eventOps]
      split
      · exact ⟨rfl, rfl⟩
      · split
        · simp [lrun, lstep]
        · simp [lrun, lstep]
    | none =>
      simp only [step, stepOps, eventOps]
      split
      · exact ⟨rfl, rfl⟩
      · have := bcastFold_fields lane resp (s.links.linkedFrom lane)
          ({ s with links := s.links.countBroadcast lane }, [])
        simp only [bcastFold] at this
        simp only [lrun, List.foldl, lstep]
        exact this
  | done r ok =>
    cases h1 : s.remote? r with
    | none => simp [step, stepOps, doneOps, h1, lrun]
    | some rem =>
      cases h2 : rem.inflight with
      | none => simp [step, stepOps, doneOps, h1, h2, lrun]
      | some w => cases ok <;> simp [step, stepOps, doneOps, h1, h2, lrun, lstep]
  | laneFailed lane =>
    have := failFold_fields lane (s.links.removeLane lane).2 ({ s with links := (s.links.removeLane lane).1 }, [])
    simp only [failFold] at this
    simp only [step, stepOps, lrun, List.foldl, lstep]
    exact this
  | prune r =>
    cases h1 : alGet s.links.backwards r <;> simp [step, stepOps, pruneOps, h1, lrun, lstep]
  | stop =>
    have := stopFold_fields s.links.removeAllLinks.2 ({ s with links := s.links.removeAllLinks.1 }, [])
    simp only [stopFold] at this
    simp only [step, stepOps, lrun, List.foldl, lstep]
    exact this
  | snapshot => exact ⟨rfl, rfl⟩

end SwimVerif.WT
