/-
The programs generated from `timeout_coord/mod.rs` (`Generated/TimeoutSrc.lean`) are the steps of
`Model/TimeoutCoord.lean`, and their atomic accesses are the atomic steps of the interleaving model.
-/
import SwimVerif.Generated.TimeoutSrc

set_option linter.unusedSimpArgs false
namespace SwimVerif.CoordProg
open SwimVerif.Coord SwimVerif.Generated.TimeoutSrc

theorem vote_eq (s : St) (i : Nat) (v : Voter) (hv : s.voters[i]? = some v) (hpc : v.pc = .idle) :
    let m := execC vote (start s i v)
    (finish m .idle, m.ret) = ((stepAct s i .vote).1, some (stepAct s i .vote).2) := by
  simp only [stepAct, hv, hpc, doVote, vote, start]
  by_cases h : s.flags = inverseOf s.n i <;>
    simp [execC, evalC, finish, setVoter, h]

theorem set_self {α} (l : List α) (i : Nat) (v : α) (h : l[i]? = some v) : l.set i v = l := by
  apply List.ext_getElem?
  intro j
  rw [List.getElem?_set]
  split
  · next hij => subst hij; split <;> simp_all
  · rfl

theorem setVoter_self (s : St) (i : Nat) (v : Voter) (h : s.voters[i]? = some v) : setVoter s i v = s := by
  unfold setVoter; rw [set_self _ _ _ h]

/-- a whole `rescind` call without interference is the model's `apiRescind` (its `load` step, then its
`compare_exchange` step, which cannot fail when nobody interferes) -/
theorem rescind_eq (s : St) (i : Nat) (v : Voter) (hv : s.voters[i]? = some v) (hpc : v.pc = .idle) :
    let m := execC rescind (start s i v)
    (finish m .idle, m.ret) = ((apiRescind s i).1, some (apiRescind s i).2) := by
  obtain ⟨vd, pc⟩ := v
  simp only at hpc
  subst hpc
  have hlen : i < s.voters.length := by
    rcases Nat.lt_or_ge i s.voters.length with h | h
    · exact h
    · simp [List.getElem?_eq_none h] at hv
  cases vd
  · have h1 : stepAct s i .rescind = (s, .pending) := by simp [stepAct, hv]
    simp [apiRescind, h1, rescind, start, execC, evalC, finish, setVoter_self s i _ hv]
  · by_cases h2 : inverseOf s.n i < Generated.twoVotersLim
    · by_cases hf : s.flags = flagOf i
      · have h1 : stepAct s i .rescind =
            (setVoter { s with flags := Generated.coordInit } i { voted := false, pc := .idle }, .pending) := by
          simp [stepAct, hv, h2, hf]
        simp [apiRescind, h1, rescind, start, execC, evalC, finish, h2, hf, setVoter]
      · have h1 : stepAct s i .rescind = (s, .unanimous) := by simp [stepAct, hv, h2, hf]
        simp [apiRescind, h1, rescind, start, execC, evalC, finish, h2, hf, setVoter_self s i _ hv]
    · by_cases ha : s.flags = (inverseOf s.n i ||| flagOf i)
      · have h1 : stepAct s i .rescind = (s, .unanimous) := by simp [stepAct, hv, h2, ha]
        simp [apiRescind, h1, rescind, start, execC, evalC, finish, h2, ha, loopN, loopFuel, setVoter_self s i _ hv]
      · have h1 : stepAct s i .rescind = (setVoter s i { voted := true, pc := .loaded s.flags }, .cont) := by
          simp [stepAct, hv, h2, ha]
        have h3 : stepAct (setVoter s i { voted := true, pc := .loaded s.flags }) i .cas =
            (setVoter { s with flags := s.flags &&& notU8 (flagOf i) } i { voted := false, pc := .idle }, .pending) := by
          simp [stepAct, setVoter, List.getElem?_set, hlen, List.set_set]
        have hr : apiRescind s i =
            (setVoter { s with flags := s.flags &&& notU8 (flagOf i) } i { voted := false, pc := .idle }, .pending) := by
          simp [apiRescind, h1, h3]
        simp [hr, rescind, start, execC, evalC, finish, h2, ha, loopN, loopFuel, setVoter]

theorem drop_eq (s : St) (i : Nat) (v : Voter) (hv : s.voters[i]? = some v) (hpc : v.pc = .idle) :
    let m := execC drop (start s i v)
    (finish m .dead, m.ret) = ((stepAct s i .drop).1, none) := by
  obtain ⟨vd, pc⟩ := v
  simp only at hpc
  subst hpc
  cases vd
  · by_cases h : s.flags = inverseOf s.n i <;>
      simp [stepAct, hv, doVote, drop, start, execC, evalC, finish, setVoter, h]
  · simp [stepAct, hv, drop, start, execC, evalC, finish, setVoter]

/-- `Receiver::poll` without interference (both loads see the same word) is the model's `poll` step -/
theorem poll_eq (s : St) :
    let m := execC poll { s := s, i := 0, voted := false }
    (m.s, m.ret) = ((step s .poll).1, some (step s .poll).2) := by
  by_cases h : s.flags = allMask s.n <;> simp [step, poll, execC, evalC, h]

/-! ### The atomic accesses of each call, in program order -/

def traceOf (p : CStmt) (s : St) (i : Nat) (voted : Bool) : List Acc :=
  (execC p { s := s, i := i, voted := voted }).trace

/-- `vote` is ONE access to the shared word (`fetch_or`), followed by `wake` exactly when that very access completed
the set; `rescind` is nothing (not voted), one `compare_exchange` (two parties), or `load` then — unless the set is
complete — one `compare_exchange` (the two atomic steps `rescind` / `cas` of the model); `drop` is nothing or a `vote`;
`poll` is `load`, and when that does not see the complete set, `register` and a SECOND `load` (the order the
no-lost-wake-up theorem `C17_poll_no_lost_wakeup` needs). -/
theorem atomic_accesses (s : St) (i : Nat) (voted : Bool) :
    (traceOf vote s i voted = [.fetchOr] ∨ (traceOf vote s i voted = [.fetchOr, .wake] ∧ s.flags = inverseOf s.n i)) ∧
    (traceOf rescind s i voted ∈ [[], [.cas true], [.cas false], [.load], [.load, .cas true]]) ∧
    (traceOf drop s i voted = [] ∨ traceOf drop s i voted = traceOf vote s i voted) ∧
    (traceOf poll s i voted = [.load] ∧ s.flags = allMask s.n ∨
     traceOf poll s i voted = [.load, .register, .load] ∧ s.flags ≠ allMask s.n) := by
  refine ⟨?_, ?_, ?_, ?_⟩
  · by_cases h : s.flags = inverseOf s.n i <;> simp [traceOf, vote, execC, evalC, h]
  · cases voted
    · simp [traceOf, rescind, execC, evalC]
    · by_cases h2 : inverseOf s.n i < Generated.twoVotersLim
      · by_cases hf : s.flags = flagOf i <;> simp [traceOf, rescind, execC, evalC, h2, hf]
      · by_cases ha : s.flags = (inverseOf s.n i ||| flagOf i) <;>
          simp [traceOf, rescind, execC, evalC, loopN, loopFuel, h2, ha]
  · cases voted <;> by_cases h : s.flags = inverseOf s.n i <;> simp [traceOf, drop, vote, execC, evalC, h]
  · by_cases h : s.flags = allMask s.n <;> simp [traceOf, poll, execC, evalC, h]

end SwimVerif.CoordProg
