/-
Helper lemmas for the model of the write task's prune glue (`Model/PruneRt.lean`).
-/
import SwimVerif.Model.PruneRt

set_option linter.unusedVariables false
namespace SwimVerif.PruneRt
open SwimVerif

/-- invariant of the loop that fires the due prune timeouts (everything but "every deadline lies in the future") -/
structure LInvX (x : Option Nat) (s : St) : Prop where
  dpos : 0 < s.D
  /-- the queue is in deadline order and no deadline is further away than the delay -/
  sorted : s.queue.Pairwise (fun a b => a.2 ≤ b.2)
  q2 : ∀ r d, (r, d) ∈ s.queue → d ≤ s.now + s.D
  /-- a registered remote without links has the timeout of its current link-less period queued -/
  q3 : ∀ r, r ∈ s.reg → some r ≠ x → linkless s r = true → (r, idleOf s r + s.D) ∈ s.queue
  q4 : ∀ l r, (l, r) ∈ s.links → r ∈ s.reg
  q5 : ∀ r, r ∈ s.reg → r ∈ s.att
  /-- every queued deadline is the delay after a moment at which a timeout was scheduled for that remote -/
  q6 : ∀ r d, (r, d) ∈ s.queue → ∃ p, (r, p) ∈ s.sched ∧ d = p + s.D ∧ p ≤ s.now
  /-- a timeout is scheduled for a remote only at a moment at which it has no link; `idle` is the latest of them -/
  q7 : ∀ r p, (r, p) ∈ s.sched → p ≤ idleOf s r ∧ idleOf s r ≤ s.now

/-- (`x` = a remote for which the timeout is just about to be scheduled) -/
abbrev LInv (s : St) : Prop := LInvX none s

structure PInv (s : St) : Prop extends LInvX none s where
  q1 : ∀ r d, (r, d) ∈ s.queue → s.now < d

theorem pinv_init (D : Nat) (hD : 0 < D) : PInv (init D) := by
  refine ⟨⟨hD, List.Pairwise.nil, ?_, ?_, ?_, ?_, ?_, ?_⟩, ?_⟩ <;> simp [init]

theorem linkless_iff (s : St) (r : Nat) : linkless s r = true ↔ ∀ l, (l, r) ∉ s.links := by
  simp only [linkless, Bool.not_eq_true', List.any_eq_false]
  constructor
  · intro h l hl
    have := h (l, r) hl
    simp at this
  · intro h p hp
    cases p with
    | mk a b =>
      by_cases hb : b = r
      · subst hb; exact absurd hp (h a)
      · simp [hb]

/-! `push` -/

theorem linv_push {s : St} {x : Option Nat} (r : Nat) (h : LInvX x s) (hx : x = none ∨ x = some r)
    (hq1 : ∀ r d, (r, d) ∈ s.queue → s.now < d) : LInv (push s r) ∧ (∀ r' d, (r', d) ∈ (push s r).queue → (push s r).now < d) := by
  have hD := h.dpos
  refine ⟨⟨hD, ?_, ?_, ?_, h.q4, h.q5, ?_, ?_⟩, ?_⟩
  · show (s.queue ++ [(r, s.now + s.D)]).Pairwise _
    rw [List.pairwise_append]
    refine ⟨h.sorted, List.pairwise_singleton _ _, ?_⟩
    intro a ha b hb
    simp at hb; subst hb
    exact h.q2 a.1 a.2 ha
  · intro r' d hm
    have hm' : (r', d) ∈ s.queue ++ [(r, s.now + s.D)] := hm
    rw [List.mem_append] at hm'
    rcases hm' with hm' | hm'
    · exact h.q2 r' d hm'
    · simp at hm'; show d ≤ s.now + s.D; omega
  · intro r' hr' _ hl
    show (r', idleOf (push s r) r' + s.D) ∈ s.queue ++ [(r, s.now + s.D)]
    by_cases e : r = r'
    · subst e
      have : idleOf (push s r) r = s.now := by simp [push, idleOf, List.find?]
      rw [this]; simp
    · have : idleOf (push s r) r' = idleOf s r' := by simp [push, idleOf, List.find?, e]
      rw [this, List.mem_append]
      refine Or.inl (h.q3 r' hr' ?_ hl)
      rcases hx with hx | hx <;> rw [hx] <;> simp
      exact fun e' => e e'.symm
  · intro r' d hm
    have hm' : (r', d) ∈ s.queue ++ [(r, s.now + s.D)] := hm
    rw [List.mem_append] at hm'
    rcases hm' with hm' | hm'
    · obtain ⟨p, hp, hd, hle⟩ := h.q6 r' d hm'
      exact ⟨p, List.mem_cons_of_mem _ hp, hd, hle⟩
    · simp at hm'
      exact ⟨s.now, by rw [hm'.1]; exact List.mem_cons_self, hm'.2, Nat.le_refl _⟩
  · intro r' p hm
    have hm' : (r', p) ∈ (r, s.now) :: s.sched := hm
    rw [List.mem_cons] at hm'
    by_cases e : r = r'
    · subst e
      have hi : idleOf (push s r) r = s.now := by simp [push, idleOf, List.find?]
      rw [hi]
      rcases hm' with hm' | hm'
      · simp at hm'; exact ⟨by show p ≤ s.now; omega, Nat.le_refl _⟩
      · exact ⟨Nat.le_trans (h.q7 r p hm').1 (h.q7 r p hm').2, Nat.le_refl _⟩
    · have hi : idleOf (push s r) r' = idleOf s r' := by simp [push, idleOf, List.find?, e]
      rw [hi]
      rcases hm' with hm' | hm'
      · simp at hm'; exact absurd hm'.1.symm e
      · exact h.q7 r' p hm'
  · intro r' d hm
    have hm' : (r', d) ∈ s.queue ++ [(r, s.now + s.D)] := hm
    rw [List.mem_append] at hm'
    rcases hm' with hm' | hm'
    · exact hq1 r' d hm'
    · simp at hm'; show s.now < d; omega

/-! links -/

theorem linkless_addLink_of {s : St} {l r r' : Nat} (h : linkless (addLink s l r) r' = true) : linkless s r' = true := by
  rw [linkless_iff] at h ⊢
  intro l' hl'
  apply h l'
  unfold addLink; split
  · exact hl'
  · exact List.mem_cons_of_mem _ hl'

theorem mem_addLink {s : St} {l r a b : Nat} (h : (a, b) ∈ (addLink s l r).links) : (a, b) = (l, r) ∨ (a, b) ∈ s.links := by
  unfold addLink at h; split at h
  · exact Or.inr h
  · simpa using h

theorem linv_addLink {s : St} (h : LInv s) (l r : Nat) (hr : r ∈ s.reg) : LInv (addLink s l r) := by
  have hf : ∀ {P : St → Prop}, P s → P { s with links := (l, r) :: s.links } → P (addLink s l r) := by
    intro P h1 h2; unfold addLink; split; exact h1; exact h2
  refine ⟨?_, ?_, ?_, ?_, ?_, ?_, ?_, ?_⟩
  · exact hf (P := fun x => 0 < x.D) h.dpos h.dpos
  · exact hf (P := fun x => x.queue.Pairwise _) h.sorted h.sorted
  · exact hf (P := fun x => ∀ r d, (r, d) ∈ x.queue → d ≤ x.now + x.D) h.q2 h.q2
  · intro r' hr' hx hl
    have h1 : (addLink s l r).reg = s.reg := by unfold addLink; split <;> rfl
    have h2 : idleOf (addLink s l r) r' = idleOf s r' := by unfold addLink; split <;> rfl
    have h3 : (addLink s l r).queue = s.queue ∧ (addLink s l r).D = s.D := by unfold addLink; split <;> exact ⟨rfl, rfl⟩
    rw [h2, h3.1, h3.2]
    exact h.q3 r' (h1 ▸ hr') hx (linkless_addLink_of hl)
  · intro a b hab
    have h1 : (addLink s l r).reg = s.reg := by unfold addLink; split <;> rfl
    rw [h1]
    rcases mem_addLink hab with e | e
    · cases e; exact hr
    · exact h.q4 a b e
  · exact hf (P := fun x => ∀ r, r ∈ x.reg → r ∈ x.att) h.q5 h.q5
  · exact hf (P := fun x => ∀ r d, (r, d) ∈ x.queue → ∃ p, (r, p) ∈ x.sched ∧ d = p + x.D ∧ p ≤ x.now) h.q6 h.q6
  · exact hf (P := fun x => ∀ r p, (r, p) ∈ x.sched → p ≤ idleOf x r ∧ idleOf x r ≤ x.now) h.q7 h.q7

theorem linkless_delLink_ne {s : St} {l r r' : Nat} (hne : r' ≠ r) :
    linkless (delLink s l r) r' = linkless s r' := by
  have : ∀ b, (linkless (delLink s l r) r' = b) ↔ (linkless s r' = b) := by
    intro b
    cases b with
    | true =>
      rw [linkless_iff, linkless_iff]
      constructor
      · intro h l' hl'
        apply h l'
        simp only [delLink, List.mem_filter]
        refine ⟨hl', ?_⟩
        simp; intro _ e; exact hne e
      · intro h l' hl'
        simp only [delLink, List.mem_filter] at hl'
        exact h l' hl'.1
    | false =>
      simp only [linkless, Bool.not_eq_false', List.any_eq_true]
      constructor
      · rintro ⟨p, hp, hr⟩
        simp only [delLink, List.mem_filter] at hp
        exact ⟨p, hp.1, hr⟩
      · rintro ⟨p, hp, hr⟩
        refine ⟨p, ?_, hr⟩
        simp only [delLink, List.mem_filter]
        refine ⟨hp, ?_⟩
        cases p with
        | mk a b => simp at hr ⊢; intro _ e; exact hne (hr ▸ e)
  cases hb : linkless s r' with
  | true => exact (this true).mpr hb
  | false => exact (this false).mpr hb

theorem linv_delLink {s : St} (h : LInv s) (l r : Nat) : LInvX (some r) (delLink s l r) := by
  refine ⟨h.dpos, h.sorted, h.q2, ?_, ?_, h.q5, h.q6, h.q7⟩
  · intro r' hr' hx hl
    have hne : r' ≠ r := fun e => hx (by rw [e])
    rw [linkless_delLink_ne hne] at hl
    exact h.q3 r' hr' (by simp) hl
  · intro a b hab
    simp only [delLink, List.mem_filter] at hab
    exact h.q4 a b hab.1

/-! the loop -/

theorem linv_fire {s : St} (h : LInv s) {r d : Nat} {rest : List (Nat × Nat)} (hq : s.queue = (r, d) :: rest)
    (hw : ∀ r' d', (r', d') ∈ s.queue → s.now ≤ d') :
    LInv (fire s r d rest).1 ∧ (∀ r' d', (r', d') ∈ (fire s r d rest).1.queue → (fire s r d rest).1.now ≤ d') ∧
    (fire s r d rest).1.queue = rest ∧ (fire s r d rest).1.now = max s.now d := by
  have hsorted := h.sorted
  rw [hq] at hsorted
  have hhead : ∀ a, a ∈ rest → d ≤ a.2 := (List.pairwise_cons.mp hsorted).1
  have hrest : rest.Pairwise (fun a b => a.2 ≤ b.2) := (List.pairwise_cons.mp hsorted).2
  have hin : ∀ a, a ∈ rest → a ∈ s.queue := fun a ha => by rw [hq]; exact List.mem_cons_of_mem _ ha
  have hw' : ∀ r' d', (r', d') ∈ rest → max s.now d ≤ d' := by
    intro r' d' hm
    have := hw r' d' (hin _ hm)
    have := hhead _ hm
    simp at this
    omega
  have hq2 : ∀ r' d', (r', d') ∈ rest → d' ≤ max s.now d + s.D := by
    intro r' d' hm; have := h.q2 r' d' (hin _ hm); omega
  have hq6 : ∀ r' d', (r', d') ∈ rest → ∃ p, (r', p) ∈ s.sched ∧ d' = p + s.D ∧ p ≤ max s.now d := by
    intro r' d' hm
    obtain ⟨p, hp, hd, hle⟩ := h.q6 r' d' (hin _ hm)
    exact ⟨p, hp, hd, by omega⟩
  have hq7 : ∀ r' p, (r', p) ∈ s.sched → p ≤ idleOf s r' ∧ idleOf s r' ≤ max s.now d := by
    intro r' p hm; have := h.q7 r' p hm; exact ⟨this.1, by omega⟩
  -- no entry of a remote is later than the timeout of its current link-less period
  have hlate : ∀ r' d', (r', d') ∈ s.queue → d' ≤ idleOf s r' + s.D := by
    intro r' d' hm
    obtain ⟨p, hp, hd', _⟩ := h.q6 r' d' hm
    have := (h.q7 r' p hp).1
    omega
  unfold fire
  by_cases hc : (s.reg.contains r && linkless s r && !(rest.any (fun e => e.1 == r))) = true
  · rw [if_pos hc]
    simp only [Bool.and_eq_true] at hc
    refine ⟨⟨h.dpos, hrest, hq2, ?_, ?_, ?_, hq6, hq7⟩, hw', rfl, rfl⟩
    · intro r' hr' _ hl
      simp only [List.mem_filter] at hr'
      have hne : r' ≠ r := by simpa using hr'.2
      have := h.q3 r' hr'.1 (by simp) hl
      rw [hq, List.mem_cons] at this
      rcases this with e | e
      · cases e; exact absurd rfl hne
      · exact e
    · intro a b hab
      simp only [List.mem_filter]
      refine ⟨h.q4 a b hab, ?_⟩
      have : b ≠ r := by
        intro e
        have hl := (linkless_iff s r).mp hc.1.2 a
        exact hl (e ▸ hab)
      simp [this]
    · intro r' hr'
      simp only [List.mem_filter] at hr'
      exact h.q5 r' hr'.1
  · rw [if_neg hc]
    refine ⟨⟨h.dpos, hrest, hq2, ?_, h.q4, h.q5, hq6, hq7⟩, hw', rfl, rfl⟩
    intro r' hr' _ hl
    have hr'' : r' ∈ s.reg := hr'
    have := h.q3 r' hr'' (by simp) hl
    rw [hq, List.mem_cons] at this
    rcases this with e | e
    · cases e
      -- the popped entry is the current one: it was spared only because a later one is queued, which must be it
      have hany : rest.any (fun e => e.1 == r) = true := by
        cases ha : rest.any (fun e => e.1 == r) with
        | true => rfl
        | false =>
          exfalso; apply hc
          simp only [Bool.and_eq_true]
          exact ⟨⟨by simpa using hr'', hl⟩, by simp [ha]⟩
      rw [List.any_eq_true] at hany
      obtain ⟨⟨a, b⟩, hab, hra⟩ := hany
      have hra' : a = r := by simpa using hra
      subst hra'
      have h1 := hlate a b (hin _ hab)
      have h2 := hhead _ hab
      simp at h2
      have : b = idleOf s a + s.D := by omega
      rw [this] at hab; exact hab
    · exact e

theorem advLoop_nil (fuel target : Nat) (s : St) (hq : s.queue = []) :
    advLoop (fuel + 1) target s = ({ s with now := max s.now target }, []) := by
  simp only [advLoop, hq]

theorem advLoop_due (fuel target : Nat) (s : St) {r d : Nat} {rest : List (Nat × Nat)} (hq : s.queue = (r, d) :: rest)
    (hd : d ≤ target) :
    advLoop (fuel + 1) target s =
      ((advLoop fuel target (fire s r d rest).1).1, (fire s r d rest).2 ++ (advLoop fuel target (fire s r d rest).1).2) := by
  simp only [advLoop, hq, hd, if_true]

theorem advLoop_notdue (fuel target : Nat) (s : St) {r d : Nat} {rest : List (Nat × Nat)}
    (hq : s.queue = (r, d) :: rest) (hd : ¬ d ≤ target) :
    advLoop (fuel + 1) target s = ({ s with now := max s.now target }, []) := by
  simp only [advLoop, hq, hd, if_false]

theorem pinv_advLoop (fuel target : Nat) {s : St} (h : LInv s) (hw : ∀ r' d', (r', d') ∈ s.queue → s.now ≤ d')
    (hn : s.now ≤ target) (hf : s.queue.length < fuel) : PInv (advLoop fuel target s).1 := by
  induction fuel generalizing s with
  | zero => omega
  | succ fuel ih =>
    have hmax : max s.now target = target := by omega
    have hfin : (∀ r' d', (r', d') ∈ s.queue → target < d') → PInv ({ s with now := max s.now target } : St) := by
      intro hgt
      refine ⟨⟨h.dpos, h.sorted, ?_, h.q3, h.q4, h.q5, ?_, ?_⟩, ?_⟩
      · intro r' d' hm; have := h.q2 r' d' hm; show d' ≤ max s.now target + s.D; omega
      · intro r' d' hm
        obtain ⟨p, hp, hd', hle⟩ := h.q6 r' d' hm
        exact ⟨p, hp, hd', by show p ≤ max s.now target; omega⟩
      · intro r' p hm; have := h.q7 r' p hm; exact ⟨this.1, by show idleOf s r' ≤ max s.now target; omega⟩
      · intro r' d' hm
        show max s.now target < d'
        rw [hmax]; exact hgt r' d' hm
    match hq : s.queue with
    | [] =>
      rw [advLoop_nil _ _ _ hq]
      exact hfin (by intro r' d' hm; rw [hq] at hm; cases hm)
    | (r, d) :: rest =>
      by_cases hd : d ≤ target
      · rw [advLoop_due _ _ _ hq hd]
        obtain ⟨h1, hw1, hq1, hn1⟩ := linv_fire h hq hw
        apply ih h1 hw1
        · rw [hn1]; omega
        · rw [hq1]; rw [hq] at hf; simp at hf; omega
      · rw [advLoop_notdue _ _ _ hq hd]
        apply hfin
        have hsorted := h.sorted
        rw [hq] at hsorted
        have hhead : ∀ a, a ∈ rest → d ≤ a.2 := (List.pairwise_cons.mp hsorted).1
        intro r' d' hm
        rw [hq, List.mem_cons] at hm
        rcases hm with e | e
        · cases e; omega
        · have := hhead _ e; simp at this; omega

/-- what the loop closes: a registered remote without links whose own queue entry has come due -/
theorem closed_of_advLoop (fuel target : Nat) (s : St) (r t : Nat)
    (hm : (r, Ev.closed t) ∈ (advLoop fuel target s).2) :
    (r, t) ∈ s.queue ∧ linkless s r = true ∧ r ∈ s.reg ∧ t ≤ target := by
  induction fuel generalizing s with
  | zero => simp [advLoop] at hm
  | succ fuel ih =>
    match hq : s.queue with
    | [] => rw [advLoop_nil _ _ _ hq] at hm; cases hm
    | (r0, d) :: rest =>
      by_cases hd : d ≤ target
      · rw [advLoop_due _ _ _ hq hd] at hm
        simp only [List.mem_append] at hm
        rcases hm with hm | hm
        · unfold fire at hm
          split at hm
          · rename_i hc
            simp only [Bool.and_eq_true] at hc
            simp at hm
            obtain ⟨rfl, rfl⟩ := hm
            exact ⟨List.mem_cons_self, hc.1.2, by simpa using hc.1.1, hd⟩
          · simp at hm
        · have := ih _ hm
          have hq' : (fire s r0 d rest).1.queue = rest := by unfold fire; split <;> rfl
          have hl' : (fire s r0 d rest).1.links = s.links := by unfold fire; split <;> rfl
          have hr' : ∀ x, x ∈ (fire s r0 d rest).1.reg → x ∈ s.reg := by
            intro x hx; unfold fire at hx; split at hx
            · simp only [List.mem_filter] at hx; exact hx.1
            · exact hx
          refine ⟨List.mem_cons_of_mem _ (hq' ▸ this.1), ?_, hr' r this.2.2.1, this.2.2.2⟩
          have := this.2.1
          simp only [linkless, hl'] at this ⊢
          exact this
      · rw [advLoop_notdue _ _ _ hq hd] at hm; cases hm

/-- … and then exactly the full delay after its current link-less period began -/
theorem closed_time_of_advLoop (fuel target : Nat) {s : St} (h : LInv s)
    (hw : ∀ r' d', (r', d') ∈ s.queue → s.now ≤ d') (r t : Nat)
    (hm : (r, Ev.closed t) ∈ (advLoop fuel target s).2) : t = idleOf s r + s.D := by
  induction fuel generalizing s with
  | zero => simp [advLoop] at hm
  | succ fuel ih =>
    match hq : s.queue with
    | [] => rw [advLoop_nil _ _ _ hq] at hm; cases hm
    | (r0, d) :: rest =>
      by_cases hd : d ≤ target
      · rw [advLoop_due _ _ _ hq hd] at hm
        simp only [List.mem_append] at hm
        rcases hm with hm | hm
        · unfold fire at hm
          split at hm
          · rename_i hc
            simp only [Bool.and_eq_true] at hc
            simp at hm
            obtain ⟨rfl, rfl⟩ := hm
            have := h.q3 r (by simpa using hc.1.1) (by simp) hc.1.2
            rw [hq, List.mem_cons] at this
            rcases this with e | e
            · cases e; rfl
            · exfalso
              have hn : rest.any (fun e => e.1 == r) = false := by simpa using hc.2
              rw [List.any_eq_false] at hn
              exact hn _ e (by simp)
          · simp at hm
        · obtain ⟨h1, hw1, _, _⟩ := linv_fire h hq hw
          have := ih h1 hw1 hm
          have hi : idleOf (fire s r0 d rest).1 r = idleOf s r := by unfold fire; split <;> rfl
          have hD : (fire s r0 d rest).1.D = s.D := by unfold fire; split <;> rfl
          rw [this, hi, hD]
      · rw [advLoop_notdue _ _ _ hq hd] at hm; cases hm

/-! ### every step keeps the invariant -/

theorem addLink_same (s : St) (l r : Nat) :
    (addLink s l r).queue = s.queue ∧ (addLink s l r).now = s.now ∧ (addLink s l r).reg = s.reg := by
  unfold addLink; split <;> exact ⟨rfl, rfl, rfl⟩

theorem pinv_addLink {s : St} (h : PInv s) (l r : Nat) (hr : r ∈ s.reg) : PInv (addLink s l r) :=
  ⟨linv_addLink h.toLInvX l r hr, by
    intro r' d hm
    rw [(addLink_same s l r).1] at hm; rw [(addLink_same s l r).2.1]; exact h.q1 r' d hm⟩

theorem linvx_drop {s : St} {r : Nat} (h : LInvX (some r) s) (hl : linkless s r = false) : LInvX none s :=
  ⟨h.dpos, h.sorted, h.q2, fun r' hr' _ hl' => by
    by_cases e : r' = r
    · subst e; rw [hl] at hl'; cases hl'
    · exact h.q3 r' hr' (by simpa using e) hl', h.q4, h.q5, h.q6, h.q7⟩

theorem pinv_step {s : St} (h : PInv s) (op : Op) : PInv (step s op).1 := by
  cases op with
  | attach r =>
    simp only [step]
    split
    · exact h
    · have h1 : LInvX (some r) ({ s with att := r :: s.att, reg := r :: s.reg } : St) := by
        refine ⟨h.dpos, h.sorted, h.q2, ?_, ?_, ?_, h.q6, h.q7⟩
        · intro r' hr' hx hl
          have hr'' : r' ∈ r :: s.reg := hr'
          rw [List.mem_cons] at hr''
          rcases hr'' with e | e
          · exact absurd (by rw [e]) hx
          · exact h.q3 r' e (by simp) hl
        · intro a b hab; exact List.mem_cons_of_mem _ (h.q4 a b hab)
        · intro r' hr'
          have hr'' : r' ∈ r :: s.reg := hr'
          rw [List.mem_cons] at hr'' ⊢
          rcases hr'' with e | e
          · exact Or.inl e
          · exact Or.inr (h.q5 r' e)
      obtain ⟨a, b⟩ := linv_push r h1 (Or.inr rfl) h.q1
      exact ⟨a, b⟩
  | link r l =>
    simp only [step]
    split
    · split
      · rename_i hr; exact pinv_addLink h l r (by simpa using hr)
      · exact h
    · exact h
  | rsync r l =>
    simp only [step]
    split
    · split
      · rename_i hr; exact pinv_addLink h l r (by simpa using hr)
      · exact h
    · exact h
  | unlink r l =>
    simp only [step]
    split
    · split
      · have h2 := linv_delLink h.toLInvX l r
        split
        · obtain ⟨a, b⟩ := linv_push r h2 (Or.inr rfl) h.q1
          exact ⟨a, b⟩
        · rename_i hl
          exact ⟨linvx_drop h2 (by simpa using hl), h.q1⟩
      · exact h
    · exact h
  | ev l => exact h
  | adv k =>
    simp only [step]
    exact pinv_advLoop _ _ h.toLInvX (fun r d hm => Nat.le_of_lt (h.q1 r d hm)) (by omega) (by omega)

theorem pinv_run {s : St} (h : PInv s) (ops : List Op) : PInv (run s ops) := by
  induction ops generalizing s with
  | nil => exact h
  | cons op ops ih => exact ih (pinv_step h op)

/-- only the clock closes a remote's channel, and only like this -/
theorem closed_of_step (s : St) (op : Op) (r t : Nat) (hm : (r, Ev.closed t) ∈ (step s op).2.2) :
    (∃ k, op = .adv k) ∧ (r, t) ∈ s.queue ∧ linkless s r = true ∧ r ∈ s.reg := by
  cases op with
  | adv k =>
    simp only [step] at hm
    have := closed_of_advLoop _ _ s r t hm
    exact ⟨⟨k, rfl⟩, this.1, this.2.1, this.2.2.1⟩
  | attach r' => simp only [step] at hm; split at hm <;> simp at hm
  | link r' l => simp only [step] at hm; (repeat' split at hm) <;> simp at hm
  | unlink r' l => simp only [step] at hm; (repeat' split at hm) <;> simp at hm
  | rsync r' l => simp only [step] at hm; (repeat' split at hm) <;> simp at hm
  | ev l => simp only [step] at hm; simp at hm

theorem closed_time_of_step {s : St} (h : PInv s) (op : Op) (r t : Nat) (hm : (r, Ev.closed t) ∈ (step s op).2.2) :
    t = idleOf s r + s.D := by
  obtain ⟨⟨k, rfl⟩, _⟩ := closed_of_step s op r t hm
  simp only [step] at hm
  exact closed_time_of_advLoop _ _ h.toLInvX (fun r d hm => Nat.le_of_lt (h.q1 r d hm)) r t hm

end SwimVerif.PruneRt
