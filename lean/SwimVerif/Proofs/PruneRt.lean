import SwimVerif.Model.PruneRt
