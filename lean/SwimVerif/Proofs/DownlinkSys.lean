/-
C07, the COMPOSED downlink runtime `Sys` (read task + write task + attachment task + kill switch): projection of a
run of `Sys` onto a run of each task model, so that the task-level theorems (`Proofs/DownlinkRead.lean`,
`Proofs/DownlinkWrite.lean`, `Props/C07.lean`) apply to the components of every reachable `Sys` state.

`stepREvs s op` / `stepWEvs s op` = the loop events the read task / the inputs the write task sees during the `Sys`
step `op` from `s`: the op's own event (if any), then `stop` / `closeReq` from the kill switch (`couple`, two rounds).
-/
import SwimVerif.Proofs.DownlinkRead
import SwimVerif.Proofs.DownlinkWrite

set_option linter.unusedSimpArgs false
set_option linter.unusedVariables false
namespace SwimVerif.DL

theorem rrun_append (s : RSt) (a b : List REv) :
    rrun s (a ++ b) = ((rrun (rrun s a).1 b).1, (rrun s a).2 ++ (rrun (rrun s a).1 b).2) := by
  induction a generalizing s with
  | nil => simp [rrun]
  | cons e es ih => simp [rrun, ih, List.append_assoc]

theorem wrun_append (s : WSt) (a b : List WEv) : wrun s (a ++ b) = wrun (wrun s a) b := by
  induction a generalizing s with
  | nil => rfl
  | cons e es ih => simp [wrun, ih]

/-! ### a run of `Sys` and its projections -/

def sysRun (s : Sys) : List Op → Sys
  | [] => s
  | op :: ops => sysRun (sysStep s op).1 ops

/-- the loop event the op itself gives to the read task -/
def opREv (s : Sys) : Op → List REv
  | .attach sync keep => if s.attStopped then [] else [.attach { id := s.n, sync := sync, keep := keep }]
  | .remote m => if s.sockInOpen then [.msg m] else []
  | .remoteEof => [.stop]
  | .dropR c => if c < s.n then [.dropReader c] else []
  | .dropBoth c => if c < s.n then [.dropReader c] else []
  | _ => []

/-- the input the op itself gives to the write task -/
def opWEv (s : Sys) : Op → List WEv
  | .drain k => if s.sockOutOpen then (if s.sockEof then [] else [.drain k]) else []
  | .attach sync _ => if s.attStopped then [] else [.register s.n sync]
  | .cmd c x => if s.wHeld.contains c && s.w.producers.contains c then [.command c x] else []
  | .dropW c => if decide (c < s.n) && s.wHeld.contains c then [.producerClosed c] else []
  | .dropBoth c => if decide (c < s.n) && s.wHeld.contains c then [.producerClosed c] else []
  | .sockClose => [.sockClose]
  | _ => []

/-- a consumer attaching after the attachment task has gone only sees its channel end -/
def opLate (s : Sys) : Op → List (Nat × Note)
  | .attach _ _ => if s.attStopped then [(s.n, .eof)] else []
  | _ => []

def opInc : Op → Nat
  | .attach _ _ => 1
  | _ => 0

/-- the kill switch, one round -/
def coupleREv (s : Sys) : List REv := if s.attStopped && !s.r.stopped then [.stop] else []
def coupleWEv (s : Sys) : List WEv := if s.attStopped && !s.w.reqClosed then [.closeReq] else []

/-- the state after the op itself, before the coupling; `none` = the op is not executed (`stopped`, `unmodelled`,
`na`): the state does not change -/
def midSys (s : Sys) (op : Op) : Option Sys :=
  if s.done && !isDrain op then none
  else match sysOp s op with
    | none => none
    | some (s1, o) => match o.special with
      | some _ => none
      | none => some s1

def stepREvs (s : Sys) (op : Op) : List REv :=
  match midSys s op with
  | none => []
  | some s1 => opREv s op ++ coupleREv s1 ++ coupleREv (couple s1).1

def stepWEvs (s : Sys) (op : Op) : List WEv :=
  match midSys s op with
  | none => []
  | some s1 => opWEv s op ++ coupleWEv s1 ++ coupleWEv (couple s1).1

def stepLate (s : Sys) (op : Op) : List (Nat × Note) :=
  match midSys s op with
  | none => []
  | some _ => opLate s op

def stepInc (s : Sys) (op : Op) : Nat :=
  match midSys s op with
  | none => 0
  | some _ => opInc op

/-- the notifications the consumers receive in one step (what `sysStep` renders) -/
def stepNotes (s : Sys) (op : Op) : List (Nat × Note) :=
  if s.done && !isDrain op then []
  else match sysOp s op with
    | none => []
    | some (s1, o) => match o.special with
      | some _ => []
      | none => o.notes ++ (couple2 s1).2

def sysREvs (s : Sys) : List Op → List REv
  | [] => []
  | op :: ops => stepREvs s op ++ sysREvs (sysStep s op).1 ops

def sysWEvs (s : Sys) : List Op → List WEv
  | [] => []
  | op :: ops => stepWEvs s op ++ sysWEvs (sysStep s op).1 ops

def sysNotes (s : Sys) : List Op → List (Nat × Note)
  | [] => []
  | op :: ops => stepNotes s op ++ sysNotes (sysStep s op).1 ops

/-! ### one op -/

theorem sysOp_proj (s : Sys) (op : Op) (s1 : Sys) (o : Obs) (h : sysOp s op = some (s1, o)) (hs : o.special = none) :
    s1.r = (rrun s.r (opREv s op)).1 ∧ s1.w = wrun s.w (opWEv s op) ∧
    o.notes = opLate s op ++ (rrun s.r (opREv s op)).2 ∧ s1.mapFl = s.mapFl ∧ s1.n = s.n + opInc op := by
  cases op with
  | drain k =>
    simp only [sysOp] at h
    split at h
    · split at h
      · cases h; simp_all [opREv, opWEv, opLate, opInc, rrun, wrun, rstep]
      · cases h; simp_all [opREv, opWEv, opLate, opInc, rrun, wrun, rstep]
    · cases h; simp_all [opREv, opWEv, opLate, opInc, rrun, wrun, rstep]
  | attach sync keep =>
    simp only [sysOp] at h
    split at h
    · cases h; simp_all [opREv, opWEv, opLate, opInc, rrun, wrun, rstep]
    · cases h; simp_all [opREv, opWEv, opLate, opInc, rrun, wrun, rstep]
  | remote m =>
    simp only [sysOp] at h
    split at h
    · cases h; simp_all [opREv, opWEv, opLate, opInc, rrun, wrun, rstep]
    · cases h; simp at hs
  | remoteEof =>
    simp only [sysOp] at h
    cases h; simp_all [opREv, opWEv, opLate, opInc, rrun, wrun, rstep]
  | cmd c x =>
    simp only [sysOp] at h
    split at h
    · split at h
      · cases h; simp_all [opREv, opWEv, opLate, opInc, rrun, wrun, rstep]
      · split at h
        · cases h
        · cases h; simp_all [opREv, opWEv, opLate, opInc, rrun, wrun, rstep]
    · cases h; simp at hs
  | dropR c =>
    simp only [sysOp] at h
    split at h
    · cases h; simp_all [opREv, opWEv, opLate, opInc, rrun, wrun, rstep]
    · cases h; simp at hs
  | dropW c =>
    simp only [sysOp] at h
    split at h
    · rename_i hc
      simp only [dropWriter] at h
      split at h
      · split at h
        · simp at h
        · simp at h
          obtain ⟨rfl, rfl⟩ := h
          simp_all [opREv, opWEv, opLate, opInc, rrun, wrun, rstep]
      · simp at h
        obtain ⟨rfl, rfl⟩ := h
        simp_all [opREv, opWEv, opLate, opInc, rrun, wrun, rstep]
    · cases h; simp at hs
  | dropBoth c =>
    simp only [sysOp] at h
    split at h
    · rename_i hc
      simp only [dropWriter] at h
      split at h
      · split at h
        · simp at h
        · simp at h
          obtain ⟨rfl, rfl⟩ := h
          simp_all [opREv, opWEv, opLate, opInc, rrun, wrun, rstep]
      · simp at h
        obtain ⟨rfl, rfl⟩ := h
        simp_all [opREv, opWEv, opLate, opInc, rrun, wrun, rstep]
    · cases h; simp at hs
  | stop =>
    simp only [sysOp] at h
    cases h; simp_all [opREv, opWEv, opLate, opInc, rrun, wrun, rstep]
  | sockClose =>
    simp only [sysOp] at h
    cases h; simp_all [opREv, opWEv, opLate, opInc, rrun, wrun, rstep]

/-- an op answered `na` / outside the envelope leaves the state as it was -/
theorem sysOp_special (s : Sys) (op : Op) (s1 : Sys) (o : Obs) (t : String) (h : sysOp s op = some (s1, o))
    (hs : o.special = some t) : s1 = s := by
  cases op with
  | drain k =>
    simp only [sysOp] at h
    split at h
    · split at h <;> (cases h; simp at hs)
    · cases h; simp at hs
  | attach sync keep => simp only [sysOp] at h; split at h <;> (cases h; simp at hs)
  | remote m =>
    simp only [sysOp] at h
    split at h
    · cases h; simp at hs
    · cases h; rfl
  | remoteEof => simp only [sysOp] at h; cases h; simp at hs
  | cmd c x =>
    simp only [sysOp] at h
    split at h
    · split at h
      · cases h; simp at hs
      · split at h
        · cases h
        · cases h; rfl
    · cases h; rfl
  | dropR c =>
    simp only [sysOp] at h
    split at h
    · cases h; simp at hs
    · cases h; rfl
  | dropW c =>
    simp only [sysOp] at h
    split at h
    · simp only [Option.map_eq_some_iff] at h
      obtain ⟨a, _, h2⟩ := h
      cases h2; simp at hs
    · cases h; rfl
  | dropBoth c =>
    simp only [sysOp] at h
    split at h
    · simp only [Option.map_eq_some_iff] at h
      obtain ⟨a, _, h2⟩ := h
      cases h2; simp at hs
    · cases h; rfl
  | stop => simp only [sysOp] at h; cases h; simp at hs
  | sockClose => simp only [sysOp] at h; cases h; simp at hs

/-! ### the kill switch -/

theorem couple_proj (s : Sys) :
    (couple s).1.r = (rrun s.r (coupleREv s)).1 ∧ (couple s).1.w = wrun s.w (coupleWEv s) ∧
    (couple s).2 = (rrun s.r (coupleREv s)).2 ∧ (couple s).1.mapFl = s.mapFl ∧ (couple s).1.n = s.n := by
  unfold couple coupleREv coupleWEv
  by_cases ha : s.attStopped = true
  · rw [if_pos ha]
    by_cases h1 : s.r.stopped = true <;> by_cases h2 : s.w.reqClosed = true <;>
      simp [ha, h1, h2, rrun, wrun]
  · rw [if_neg ha]
    simp [ha, rrun, wrun]

theorem couple2_proj (s : Sys) :
    (couple2 s).1.r = (rrun s.r (coupleREv s ++ coupleREv (couple s).1)).1 ∧
    (couple2 s).1.w = wrun s.w (coupleWEv s ++ coupleWEv (couple s).1) ∧
    (couple2 s).2 = (rrun s.r (coupleREv s ++ coupleREv (couple s).1)).2 ∧
    (couple2 s).1.mapFl = s.mapFl ∧ (couple2 s).1.n = s.n := by
  obtain ⟨a1, a2, a3, a4, a5⟩ := couple_proj s
  obtain ⟨b1, b2, b3, b4, b5⟩ := couple_proj (couple s).1
  unfold couple2
  rw [rrun_append, wrun_append]
  simp only
  rw [b1, b2, b3, a1, a2, a3, b4, b5, a4, a5]
  exact ⟨rfl, rfl, rfl, rfl, rfl⟩

/-! ### one step of `Sys` -/

theorem sysStep_none (s : Sys) (op : Op) (h : midSys s op = none) :
    (sysStep s op).1 = s ∧ stepNotes s op = [] := by
  unfold midSys at h
  unfold sysStep stepNotes
  by_cases hd : (s.done && !isDrain op) = true
  · simp [hd]
  · rw [if_neg hd] at h ⊢
    rw [if_neg hd]
    cases hso : sysOp s op with
    | none => simp
    | some p =>
      obtain ⟨s1, o⟩ := p
      rw [hso] at h
      simp only at h ⊢
      cases hsp : o.special with
      | none => rw [hsp] at h; cases h
      | some t => simp only; exact ⟨sysOp_special s op s1 o t hso hsp, trivial⟩

theorem sysStep_some (s : Sys) (op : Op) (s1 : Sys) (h : midSys s op = some s1) :
    ∃ o, sysOp s op = some (s1, o) ∧ o.special = none ∧
      (sysStep s op).1 = { (couple2 s1).1 with doneReported := s1.doneReported || (couple2 s1).1.done } ∧
      stepNotes s op = o.notes ++ (couple2 s1).2 := by
  unfold midSys at h
  unfold sysStep stepNotes
  by_cases hd : (s.done && !isDrain op) = true
  · rw [if_pos hd] at h; cases h
  · rw [if_neg hd] at h ⊢
    rw [if_neg hd]
    cases hso : sysOp s op with
    | none => rw [hso] at h; cases h
    | some p =>
      obtain ⟨s1', o⟩ := p
      rw [hso] at h
      simp only at h ⊢
      cases hsp : o.special with
      | some t => rw [hsp] at h; cases h
      | none =>
        rw [hsp] at h
        simp only [Option.some.injEq] at h
        subst h
        exact ⟨o, rfl, hsp, rfl, rfl⟩

/-- `stepNotes` is what the line protocol shows: the answer of an executed op is the rendering of its observation
with exactly these notifications -/
theorem sysStep_output (s : Sys) (op : Op) (s1 : Sys) (h : midSys s op = some s1) :
    ∃ o, sysOp s op = some (s1, o) ∧
      (sysStep s op).2 = renderObs (couple2 s1).1.n { o with notes := stepNotes s op }
        ((couple2 s1).1.done && !s1.doneReported) := by
  obtain ⟨o, hso, hsp, _, hn⟩ := sysStep_some s op s1 h
  refine ⟨o, hso, ?_⟩
  rw [hn]
  unfold midSys at h
  unfold sysStep
  by_cases hd : (s.done && !isDrain op) = true
  · rw [if_pos hd] at h; cases h
  · rw [if_neg hd, hso]
    simp only [hsp]

/-- **Projection of one step**: the read task makes the run `stepREvs`, the write task the run `stepWEvs`; what the
consumers receive is what the read task sent, plus `eof` for a consumer that attached after the attachment task
had gone. -/
theorem sysStep_proj (s : Sys) (op : Op) :
    (sysStep s op).1.r = (rrun s.r (stepREvs s op)).1 ∧ (sysStep s op).1.w = wrun s.w (stepWEvs s op) ∧
    stepNotes s op = stepLate s op ++ (rrun s.r (stepREvs s op)).2 ∧
    (sysStep s op).1.mapFl = s.mapFl ∧ (sysStep s op).1.n = s.n + stepInc s op := by
  unfold stepREvs stepWEvs stepLate stepInc
  cases hm : midSys s op with
  | none =>
    obtain ⟨h1, h2⟩ := sysStep_none s op hm
    simp [h1, h2, rrun, wrun]
  | some s1 =>
    obtain ⟨o, hso, hsp, h1, h2⟩ := sysStep_some s op s1 hm
    obtain ⟨a1, a2, a3, a4, a5⟩ := sysOp_proj s op s1 o hso hsp
    obtain ⟨b1, b2, b3, b4, b5⟩ := couple2_proj s1
    simp only
    rw [h1, h2, List.append_assoc, List.append_assoc, rrun_append, wrun_append]
    simp only
    rw [b1, b2, b3, a1, a2, a3, b4, b5, a4, a5]
    simp [List.append_assoc]

/-! ### a run of `Sys` -/

/-- **Projection of a run**: the read-task component of the state reached by `ops` is the state the read task
reaches by the loop events `sysREvs s ops`, the write-task component the one reached by the inputs `sysWEvs s ops`. -/
theorem sysRun_proj (s : Sys) (ops : List Op) :
    (sysRun s ops).r = (rrun s.r (sysREvs s ops)).1 ∧ (sysRun s ops).w = wrun s.w (sysWEvs s ops) ∧
    (sysRun s ops).mapFl = s.mapFl := by
  induction ops generalizing s with
  | nil => exact ⟨rfl, rfl, rfl⟩
  | cons op ops ih =>
    obtain ⟨a1, a2, _, a4, _⟩ := sysStep_proj s op
    obtain ⟨b1, b2, b3⟩ := ih (sysStep s op).1
    simp only [sysRun, sysREvs, sysWEvs, rrun_append, wrun_append]
    rw [b1, b2, b3, a1, a2, a4]
    exact ⟨rfl, rfl, rfl⟩

theorem sysRun_append (s : Sys) (a b : List Op) : sysRun s (a ++ b) = sysRun (sysRun s a) b := by
  induction a generalizing s with
  | nil => rfl
  | cons op ops ih => simp [sysRun, ih]

/-! ### consumer identifiers -/

theorem attachIds_append (a b : List REv) : attachIds (a ++ b) = attachIds a ++ attachIds b := by
  induction a with
  | nil => rfl
  | cons e es ih => cases e <;> simp [attachIds, ih]

theorem attachIds_couple (s : Sys) : attachIds (coupleREv s) = [] := by
  unfold coupleREv; split <;> rfl

/-- a step attaches at most one consumer, `s.n`: to the read task, or (attachment task gone) to nobody -/
theorem step_ids (s : Sys) (op : Op) :
    (stepInc s op = 0 ∧ attachIds (stepREvs s op) = [] ∧ stepLate s op = []) ∨
    (stepInc s op = 1 ∧ attachIds (stepREvs s op) = [s.n] ∧ stepLate s op = []) ∨
    (stepInc s op = 1 ∧ attachIds (stepREvs s op) = [] ∧ stepLate s op = [(s.n, .eof)]) := by
  unfold stepInc stepREvs stepLate
  cases hm : midSys s op with
  | none => exact Or.inl ⟨rfl, rfl, rfl⟩
  | some s1 =>
    simp only [attachIds_append, attachIds_couple, List.append_nil]
    cases op with
    | attach sync keep =>
      by_cases ha : s.attStopped = true
      · right; right; simp [opInc, opREv, opLate, ha, attachIds]
      · right; left; simp [opInc, opREv, opLate, ha, attachIds]
    | remote m => left; simp only [opInc, opREv, opLate]; split <;> simp [attachIds]
    | dropR c => left; simp only [opInc, opREv, opLate]; split <;> simp [attachIds]
    | dropBoth c => left; simp only [opInc, opREv, opLate]; split <;> simp [attachIds]
    | _ => left; simp [opInc, opREv, opLate, attachIds]

theorem mem_couple (s : Sys) (e : REv) (h : e ∈ coupleREv s) : e = .stop := by
  unfold coupleREv at h; split at h <;> simp at h; exact h

/-- the read task is told that a reader is gone only by the ops that drop it -/
theorem step_dropReader (s : Sys) (op : Op) (c : Nat) (h : REv.dropReader c ∈ stepREvs s op) :
    op = .dropR c ∨ op = .dropBoth c := by
  unfold stepREvs at h
  cases hm : midSys s op with
  | none => rw [hm] at h; simp at h
  | some s1 =>
    rw [hm] at h
    simp only [List.mem_append] at h
    rcases h with (h | h) | h
    · cases op with
      | attach sync keep => simp only [opREv] at h; split at h <;> simp at h
      | remote m => simp only [opREv] at h; split at h <;> simp at h
      | dropR c' => simp only [opREv] at h; split at h <;> simp at h; left; rw [h]
      | dropBoth c' => simp only [opREv] at h; split at h <;> simp at h; right; rw [h]
      | _ => simp [opREv] at h
    · cases mem_couple _ _ h
    · cases mem_couple _ _ h

/-! ### a consumer the read task does not know receives nothing from it -/

def NotIn (c : Nat) (s : RSt) : Prop := sel c s.aLinked = [] ∧ sel c s.aSynced = [] ∧ sel c s.reg = []

theorem notIn_pinv {c : Nat} {s : RSt} (h : NotIn c s) : PInv c s .fresh false :=
  Or.inl ⟨h.1, h.2.1, h.2.2, fun _ => rfl⟩

theorem pinv_false {c : Nat} {s : RSt} {p : Phase} (h : PInv c s p false) : NotIn c s ∧ p = .fresh := by
  rcases h with ⟨h1, h2, h3, h4⟩ | ⟨h, _⟩ | ⟨h, _⟩ | ⟨h, _⟩
  · exact ⟨⟨h1, h2, h3⟩, h4 rfl⟩
  · cases h
  · cases h
  · cases h

theorem notIn_step {c : Nat} {s : RSt} (e : REv) (h : NotIn c s) (he : attachOf c e = false) :
    logOf c (rstep s e).2 = [] ∧ NotIn c (rstep s e).1 := by
  obtain ⟨p1, hp1, hinv⟩ := pinv_step e (notIn_pinv h) (fun _ => rfl)
  rw [he] at hinv
  obtain ⟨hn, hp⟩ := pinv_false hinv
  subst hp
  exact ⟨accepts_fresh_nil hp1, hn⟩

theorem notIn_run {c : Nat} (evs : List REv) : ∀ (s : RSt), NotIn c s → c ∉ attachIds evs →
    logOf c (rrun s evs).2 = [] ∧ NotIn c (rrun s evs).1 := by
  induction evs with
  | nil => intro s h _; exact ⟨by simp [rrun, logOf], h⟩
  | cons e es ih =>
    intro s h hc
    have he : attachOf c e = false := by
      cases e with
      | attach x =>
        simp only [attachIds, List.mem_cons, not_or] at hc
        simp only [attachOf, beq_eq_false_iff_ne, ne_eq]
        exact fun h' => hc.1 h'.symm
      | _ => rfl
    have hc' : c ∉ attachIds es := by
      cases e <;> simp [attachIds] at hc ⊢ <;> first | exact hc | exact hc.2
    obtain ⟨h1, h2⟩ := notIn_step e h he
    obtain ⟨h3, h4⟩ := ih _ h2 hc'
    simp only [rrun, logOf_append, h1, h3, List.append_nil]
    exact ⟨trivial, h4⟩

/-! ### the session invariant of consumer `c` in `Sys` -/

/-- `c` has not attached yet (identifiers are handed out in order), or its session is in phase `p` -/
def SInv (c : Nat) (s : Sys) (p : Phase) : Prop :=
  (s.n ≤ c ∧ NotIn c s.r ∧ p = .fresh) ∨ (c < s.n ∧ PInv c s.r p true)

theorem sinv_init (c : Nat) (mapFl : Bool) (cap node lane : Nat) (abort : Bool) :
    SInv c (sysInit mapFl cap node lane abort) .fresh :=
  Or.inl ⟨Nat.zero_le _, ⟨rfl, rfl, rfl⟩, rfl⟩

theorem sinv_step {c : Nat} {s : Sys} {p : Phase} (op : Op) (h : SInv c s p) :
    ∃ p', accepts p (logOf c (stepNotes s op)) = some p' ∧ SInv c (sysStep s op).1 p' := by
  obtain ⟨hr, _, hn, _, hnn⟩ := sysStep_proj s op
  rw [hn, logOf_append]
  have ids := step_ids s op
  rcases h with ⟨hc, hni, rfl⟩ | ⟨hc, hp⟩
  · by_cases hin : c ∈ attachIds (stepREvs s op)
    · -- `c` attaches to the read task in this step
      rcases ids with ⟨_, h2, _⟩ | ⟨h1, h2, h3⟩ | ⟨_, h2, _⟩
      · rw [h2] at hin; simp at hin
      · have hcn : c = s.n := by rw [h2] at hin; simpa using hin
        obtain ⟨p', att', hp', hinv⟩ := pinv_run c (stepREvs s op) s.r .fresh false (notIn_pinv hni) (by simp)
          (by rw [h2]; simp)
        refine ⟨p', ?_, Or.inr ⟨by rw [hnn, h1]; omega, ?_⟩⟩
        · rw [h3]; simpa [logOf] using hp'
        · rw [hr]; exact pinv_weaken hinv
      · rw [h2] at hin; simp at hin
    · obtain ⟨hl, hni'⟩ := notIn_run (stepREvs s op) s.r hni hin
      rw [hl, List.append_nil]
      rcases ids with ⟨h1, _, h3⟩ | ⟨h1, h2, h3⟩ | ⟨h1, _, h3⟩
      · rw [h3]
        exact ⟨.fresh, by simp [logOf, accepts], Or.inl ⟨by rw [hnn, h1]; omega, by rw [hr]; exact hni', rfl⟩⟩
      · rw [h3]
        have : c ≠ s.n := by intro e; apply hin; rw [h2, e]; simp
        exact ⟨.fresh, by simp [logOf, accepts], Or.inl ⟨by rw [hnn, h1]; omega, by rw [hr]; exact hni', rfl⟩⟩
      · rw [h3]
        by_cases e : s.n = c
        · -- attached after the attachment task has gone: `eof` only
          refine ⟨.ended, by simp [logOf, e, accepts, Phase.next], Or.inr ⟨by rw [hnn, h1]; omega, ?_⟩⟩
          rw [hr]
          exact Or.inl ⟨hni'.1, hni'.2.1, hni'.2.2, fun h => by cases h⟩
        · exact ⟨.fresh, by simp [logOf, e, accepts], Or.inl ⟨by rw [hnn, h1]; omega, by rw [hr]; exact hni', rfl⟩⟩
  · have hlate : logOf c (stepLate s op) = [] := by
      rcases ids with ⟨_, _, h3⟩ | ⟨_, _, h3⟩ | ⟨_, _, h3⟩
      · rw [h3]; rfl
      · rw [h3]; rfl
      · rw [h3]
        have : ¬ s.n = c := by omega
        simp [logOf, this]
    have hnot : c ∉ attachIds (stepREvs s op) := by
      rcases ids with ⟨_, h2, _⟩ | ⟨_, h2, _⟩ | ⟨_, h2, _⟩ <;> rw [h2] <;> simp <;> omega
    have hnd : (attachIds (stepREvs s op)).Nodup := by
      rcases ids with ⟨_, h2, _⟩ | ⟨_, h2, _⟩ | ⟨_, h2, _⟩ <;> rw [h2] <;> simp
    obtain ⟨p', att', hp', hinv⟩ := pinv_run c (stepREvs s op) s.r p true hp (fun _ => hnot) hnd
    refine ⟨p', by rw [hlate]; exact hp', Or.inr ⟨by rw [hnn]; omega, ?_⟩⟩
    rw [hr]; exact pinv_weaken hinv

theorem sinv_run {c : Nat} (ops : List Op) : ∀ (s : Sys) (p : Phase), SInv c s p →
    ∃ p', accepts p (logOf c (sysNotes s ops)) = some p' ∧ SInv c (sysRun s ops) p' := by
  induction ops with
  | nil => intro s p h; exact ⟨p, by simp [sysNotes, logOf, accepts], h⟩
  | cons op ops ih =>
    intro s p h
    obtain ⟨p1, hp1, h1⟩ := sinv_step op h
    obtain ⟨p2, hp2, h2⟩ := ih _ p1 h1
    refine ⟨p2, ?_, h2⟩
    simp only [sysNotes, logOf_append, accepts_append, hp1, Option.bind_some, hp2]

/-! ### a consumer the read task knows: its log in `Sys` is its log in the read task -/

theorem known_run {c : Nat} (ops : List Op) : ∀ (s : Sys), c < s.n →
    logOf c (sysNotes s ops) = logOf c (rrun s.r (sysREvs s ops)).2 ∧ c ∉ attachIds (sysREvs s ops) ∧
    ((∀ op ∈ ops, op ≠ .dropR c ∧ op ≠ .dropBoth c) → ∀ e ∈ sysREvs s ops, e ≠ .dropReader c) := by
  induction ops with
  | nil => intro s _; simp [sysNotes, sysREvs, rrun, attachIds]
  | cons op ops ih =>
    intro s hc
    obtain ⟨hr, _, hn, _, hnn⟩ := sysStep_proj s op
    obtain ⟨i1, i2, i3⟩ := ih (sysStep s op).1 (by rw [hnn]; omega)
    have ids := step_ids s op
    have hlate : logOf c (stepLate s op) = [] := by
      rcases ids with ⟨_, _, h3⟩ | ⟨_, _, h3⟩ | ⟨_, _, h3⟩
      · rw [h3]; rfl
      · rw [h3]; rfl
      · rw [h3]
        have : ¬ s.n = c := by omega
        simp [logOf, this]
    have hnot : c ∉ attachIds (stepREvs s op) := by
      rcases ids with ⟨_, h2, _⟩ | ⟨_, h2, _⟩ | ⟨_, h2, _⟩ <;> rw [h2] <;> simp <;> omega
    refine ⟨?_, ?_, ?_⟩
    · simp only [sysNotes, sysREvs, rrun_append, logOf_append, hn, hlate, List.nil_append, i1, hr]
    · simp only [sysREvs, attachIds_append, List.mem_append, not_or]
      exact ⟨hnot, i2⟩
    · intro hk e he
      simp only [sysREvs, List.mem_append] at he
      rcases he with he | he
      · intro e'
        subst e'
        have := step_dropReader s op c he
        have hk' := hk op (by simp)
        rcases this with h | h
        · exact hk'.1 h
        · exact hk'.2 h
      · exact i3 (fun op' h' => hk op' (by simp [h'])) e he

/-! ### the write task of `Sys` -/

/-- a command op of the flavour of the runtime (what `parseOp` admits) -/
def opOk (fl : Bool) : Op → Bool
  | .cmd _ x => cmdIsMap x == fl
  | _ => true

theorem mem_coupleW (s : Sys) (e : WEv) (h : e ∈ coupleWEv s) : e = .closeReq := by
  unfold coupleWEv at h; split at h <;> simp at h; exact h

theorem stepWEvs_ok (fl : Bool) (s : Sys) (op : Op) (hop : opOk fl op = true) : ∀ e ∈ stepWEvs s op, evOk fl e = true := by
  intro e he
  unfold stepWEvs at he
  cases hm : midSys s op with
  | none => rw [hm] at he; simp at he
  | some s1 =>
    rw [hm] at he
    simp only [List.mem_append] at he
    rcases he with (he | he) | he
    · cases op with
      | drain k => simp only [opWEv] at he; split at he <;> (try split at he) <;> simp at he <;> (subst he; rfl)
      | attach sync keep => simp only [opWEv] at he; split at he <;> simp at he; subst he; rfl
      | cmd c x => simp only [opWEv] at he; split at he <;> simp at he; subst he; exact hop
      | dropW c => simp only [opWEv] at he; split at he <;> simp at he; subst he; rfl
      | dropBoth c => simp only [opWEv] at he; split at he <;> simp at he; subst he; rfl
      | sockClose => simp [opWEv] at he; subst he; rfl
      | _ => simp [opWEv] at he
    · rw [mem_coupleW _ _ he]; rfl
    · rw [mem_coupleW _ _ he]; rfl

theorem sysWEvs_ok (fl : Bool) (ops : List Op) : ∀ (s : Sys), (∀ op ∈ ops, opOk fl op = true) →
    ∀ e ∈ sysWEvs s ops, evOk fl e = true := by
  induction ops with
  | nil => intro s _ e he; simp [sysWEvs] at he
  | cons op ops ih =>
    intro s h e he
    simp only [sysWEvs, List.mem_append] at he
    rcases he with he | he
    · exact stepWEvs_ok fl s op (h op (by simp)) e he
    · exact ih _ (fun op' h' => h op' (by simp [h'])) e he

/-- the write task of a fresh runtime has run to quiescence once: the same as the remote reading nothing -/
theorem sysInit_w (mapFl : Bool) (cap node lane : Nat) (abort : Bool) :
    (sysInit mapFl cap node lane abort).w =
      wrun (winit cap (Generated.dlHeaderInitLen + node + lane)) [.drain 0] := by
  have h : (winput (winit cap (Generated.dlHeaderInitLen + node + lane)) (.drain 0)).1 =
      winit cap (Generated.dlHeaderInitLen + node + lane) := by
    have hpos : ¬ Generated.dlHeaderInitLen + node + lane ≤ 0 := by
      have : Generated.dlHeaderInitLen = 32 := rfl
      omega
    simp [winput, winit, encode, consume, Frame.len, hpos]
  simp only [sysInit, wrun, wstep, h]
  rfl

/-- **Projection onto the write task**: the write-task component of every reachable `Sys` state is a reachable state
of the write-task model (`wrun (winit cap hdr) evs`), for inputs of the runtime's flavour. -/
theorem sysRun_w (mapFl : Bool) (cap node lane : Nat) (abort : Bool) (ops : List Op) :
    (sysRun (sysInit mapFl cap node lane abort) ops).w =
      wrun (winit cap (Generated.dlHeaderInitLen + node + lane))
        (.drain 0 :: sysWEvs (sysInit mapFl cap node lane abort) ops) := by
  rw [(sysRun_proj _ ops).2.1, sysInit_w]
  rfl

theorem sysRun_w_ok (fl : Bool) (s : Sys) (ops : List Op) (h : ∀ op ∈ ops, opOk fl op = true) :
    ∀ e ∈ WEv.drain 0 :: sysWEvs s ops, evOk fl e = true := by
  intro e he
  rcases List.mem_cons.mp he with rfl | he
  · rfl
  · exact sysWEvs_ok fl ops s h e he

/-! ### every issued command is a consumer's command op -/

theorem wnorm_issued (s : WSt) : (wnorm s).issued = s.issued := by
  unfold wnorm; split
  · rfl
  · split <;> rfl

theorem drainBp_issued (s : WSt) : (drainBp s).issued = s.issued := by
  unfold drainBp; split
  · rfl
  · exact (encodeAll_fields s _).1

theorem wmicro_issued {s s' : WSt} (hm : wmicro s = some s') : s'.issued = s.issued := by
  have hd := drainBp_issued s
  unfold wmicro at hm
  repeat' (split at hm)
  all_goals first
    | (cases hm; done)
    | (cases hm; simp_all [encode, stopW]; done)

theorem wsettle_issued (n : Nat) : ∀ (s : WSt), (wsettle n s).issued = s.issued := by
  induction n with
  | zero => intro s; exact wnorm_issued s
  | succ n ih =>
    intro s
    simp only [wsettle]
    split
    · rename_i s' hs'; rw [ih, wmicro_issued hs', wnorm_issued]
    · exact wnorm_issued s

theorem wstep_issued (s : WSt) (e : WEv) (x : Cmd) (h : x ∈ (wstep s e).1.issued) :
    x ∈ s.issued ∨ ∃ id, e = .command id x ∧ s.producers.contains id = true := by
  simp only [wstep, wsettle_issued] at h
  cases e with
  | command id c =>
    simp only [winput] at h
    split at h
    · rename_i hc
      simp only [onCommand] at h
      split at h
      · split at h
        · simp [encode] at h
          rcases h with h | h
          · exact Or.inl h
          · exact Or.inr ⟨id, by rw [h], hc⟩
        · split at h
          · exact Or.inl h
          · rw [(pushOp_fields s c _).2.2.1] at h
            simp at h
            rcases h with h | h
            · exact Or.inl h
            · exact Or.inr ⟨id, by rw [h], hc⟩
      · rw [(pushOp_fields s c _).2.2.1] at h
        simp at h
        rcases h with h | h
        · exact Or.inl h
        · exact Or.inr ⟨id, by rw [h], hc⟩
      · exact Or.inl h
    · exact Or.inl h
  | producerClosed id =>
    left
    simp only [winput] at h
    split at h
    · split at h
      · simp only [onProducersEmpty] at h
        split at h
        · split at h
          · exact h
          · split at h <;> exact h
        · exact h
        · exact h
      · exact h
    · exact h
  | _ => left; simpa [winput] using h

theorem wrun_issued (evs : List WEv) : ∀ (s : WSt) (x : Cmd), x ∈ (wrun s evs).issued →
    x ∈ s.issued ∨ ∃ id, WEv.command id x ∈ evs := by
  induction evs with
  | nil => intro s x h; exact Or.inl h
  | cons e es ih =>
    intro s x h
    rcases ih _ x h with h1 | ⟨id, h1⟩
    · rcases wstep_issued s e x h1 with h2 | ⟨id, h2, _⟩
      · exact Or.inl h2
      · exact Or.inr ⟨id, by rw [h2]; simp⟩
    · exact Or.inr ⟨id, by simp [h1]⟩

theorem stepWEvs_command (s : Sys) (op : Op) (id : Nat) (x : Cmd) (h : WEv.command id x ∈ stepWEvs s op) :
    op = .cmd id x := by
  unfold stepWEvs at h
  cases hm : midSys s op with
  | none => rw [hm] at h; simp at h
  | some s1 =>
    rw [hm] at h
    simp only [List.mem_append] at h
    rcases h with (h | h) | h
    · cases op with
      | drain k => simp only [opWEv] at h; split at h <;> (try split at h) <;> simp at h
      | attach sync keep => simp only [opWEv] at h; split at h <;> simp at h
      | cmd c y => simp only [opWEv] at h; split at h <;> simp at h; rw [h.1, h.2]
      | dropW c => simp only [opWEv] at h; split at h <;> simp at h
      | dropBoth c => simp only [opWEv] at h; split at h <;> simp at h
      | _ => simp [opWEv] at h
    · cases mem_coupleW _ _ h
    · cases mem_coupleW _ _ h

theorem sysWEvs_command (ops : List Op) : ∀ (s : Sys) (id : Nat) (x : Cmd), WEv.command id x ∈ sysWEvs s ops →
    Op.cmd id x ∈ ops := by
  induction ops with
  | nil => intro s id x h; simp [sysWEvs] at h
  | cons op ops ih =>
    intro s id x h
    simp only [sysWEvs, List.mem_append] at h
    rcases h with h | h
    · rw [stepWEvs_command s op id x h]; simp
    · exact List.mem_cons_of_mem _ (ih _ id x h)

/-! ### identifiers attached to the read task are distinct -/

theorem sysREvs_ids (ops : List Op) : ∀ (s : Sys),
    (∀ i ∈ attachIds (sysREvs s ops), s.n ≤ i) ∧ (attachIds (sysREvs s ops)).Nodup := by
  induction ops with
  | nil => intro s; simp [sysREvs, attachIds]
  | cons op ops ih =>
    intro s
    obtain ⟨_, _, _, _, hnn⟩ := sysStep_proj s op
    obtain ⟨i1, i2⟩ := ih (sysStep s op).1
    rw [hnn] at i1
    simp only [sysREvs, attachIds_append]
    rcases step_ids s op with ⟨h1, h2, _⟩ | ⟨h1, h2, _⟩ | ⟨h1, h2, _⟩
    · rw [h2]; simp only [List.nil_append]
      exact ⟨fun i hi => by have := i1 i hi; omega, i2⟩
    · rw [h2]
      refine ⟨?_, ?_⟩
      · intro i hi
        simp only [List.cons_append, List.nil_append, List.mem_cons] at hi
        rcases hi with rfl | hi
        · omega
        · have := i1 i hi; omega
      · simp only [List.cons_append, List.nil_append, List.nodup_cons]
        refine ⟨?_, i2⟩
        intro hi
        have := i1 _ hi
        omega
    · rw [h2]; simp only [List.nil_append]
      exact ⟨fun i hi => by have := i1 i hi; omega, i2⟩

/-! ### `synced` in a step of `Sys` comes from the op's own event -/

theorem stop_no_synced (s : RSt) (i : Nat) : (i, Note.synced) ∉ (rstep s .stop).2 := by
  simp only [rstep]
  split
  · simp
  · intro h
    have := (mem_notesTo h).2
    simp at this

theorem couple_no_synced (s : RSt) (t : Sys) (i : Nat) : (i, Note.synced) ∉ (rrun s (coupleREv t)).2 := by
  unfold coupleREv
  split
  · simp only [rrun, List.append_nil]; exact stop_no_synced s i
  · simp [rrun]

theorem step_synced (s : Sys) (op : Op) (i : Nat) (h : (i, Note.synced) ∈ stepNotes s op) :
    ∃ e, (i, Note.synced) ∈ (rstep s.r e).2 := by
  rw [(sysStep_proj s op).2.2.1] at h
  rw [List.mem_append] at h
  rcases h with h | h
  · rcases step_ids s op with ⟨_, _, h3⟩ | ⟨_, _, h3⟩ | ⟨_, _, h3⟩ <;> rw [h3] at h <;> simp at h
  · unfold stepREvs at h
    cases hm : midSys s op with
    | none => rw [hm] at h; simp [rrun] at h
    | some s1 =>
      rw [hm] at h
      simp only [List.append_assoc, rrun_append, List.mem_append] at h
      rcases h with h | h | h
      · -- the op's own event (at most one)
        have hone : opREv s op = [] ∨ ∃ e, opREv s op = [e] := by
          cases op <;> simp only [opREv] <;> (try split) <;> simp
        rcases hone with h0 | ⟨e, h0⟩
        · rw [h0] at h; simp [rrun] at h
        · rw [h0] at h
          simp only [rrun, List.append_nil] at h
          exact ⟨e, h⟩
      · exact absurd h (couple_no_synced _ _ i)
      · exact absurd h (couple_no_synced _ _ i)

end SwimVerif.DL
