import SwimVerif.Model.SupplyLane

set_option linter.unusedVariables false
set_option linter.unusedSimpArgs false
namespace SwimVerif.Sup

variable {α : Type}

@[simp] theorem events_nil : events ([] : List (Frame α)) = [] := rfl
@[simp] theorem synceds_nil : synceds ([] : List (Frame α)) = [] := rfl

theorem events_append (a b : List (Frame α)) : events (a ++ b) = events a ++ events b := by
  induction a with
  | nil => rfl
  | cons f rest ih => cases f <;> simp [events, ih]

theorem synceds_append (a b : List (Frame α)) : synceds (a ++ b) = synceds a ++ synceds b := by
  induction a with
  | nil => rfl
  | cons f rest ih => cases f <;> simp [synceds, ih]

/-- what one `write_to_buffer` does to the queues and what it emits -/
theorem write_spec (l : Lane α) :
    events l.write.2.1.toList ++ l.write.1.eventQ = l.eventQ ∧
    synceds l.write.2.1.toList ++ l.write.1.syncQ = l.syncQ ∧
    l.write.2.2 = l.write.1.result := by
  unfold Lane.write
  cases hs : l.syncQ with
  | cons r rest => simp [events, synceds]
  | nil =>
    cases he : l.eventQ with
    | cons a rest => simp [events, synceds, hs]
    | nil => simp [events, synceds, hs, he]

/-- a sync request pre-empts the items: while one is pending no item is written -/
theorem write_sync_first (l : Lane α) (r : Nat) (rest : List Nat) (h : l.syncQ = r :: rest) :
    l.write.2.1 = some (.synced r) ∧ l.write.1.eventQ = l.eventQ := by
  simp [Lane.write, h]

/-- with no sync pending the OLDEST item is written, alone -/
theorem write_oldest (l : Lane α) (a : α) (rest : List α) (hs : l.syncQ = []) (h : l.eventQ = a :: rest) :
    l.write.2.1 = some (.event a) ∧ l.write.1.eventQ = rest := by
  simp [Lane.write, h, hs]

theorem result_done_iff (l : Lane α) : l.result = .done ↔ l.eventQ = [] ∧ l.syncQ = [] := by
  unfold Lane.result
  cases l.eventQ <;> cases l.syncQ <;> simp

structure Inv (s : St α) : Prop where
  fifo : events s.written ++ s.lane.eventQ = s.pushed
  syncs : synceds s.written ++ s.lane.syncQ = s.requested

theorem inv_init : Inv ({} : St α) := ⟨rfl, rfl⟩

theorem inv_step {s : St α} (h : Inv s) (op : Op α) : Inv (step s op) := by
  cases op with
  | push a =>
    refine ⟨?_, ?_⟩
    · show events s.written ++ (s.lane.eventQ ++ [a]) = s.pushed ++ [a]
      rw [← List.append_assoc, h.fifo]
    · exact h.syncs
  | sync r =>
    refine ⟨?_, ?_⟩
    · exact h.fifo
    · show synceds s.written ++ (s.lane.syncQ ++ [r]) = s.requested ++ [r]
      rw [← List.append_assoc, h.syncs]
  | write =>
    obtain ⟨e1, e2, _⟩ := write_spec s.lane
    refine ⟨?_, ?_⟩
    · show events (s.written ++ s.lane.write.2.1.toList) ++ s.lane.write.1.eventQ = s.pushed
      rw [events_append, List.append_assoc, e1, h.fifo]
    · show synceds (s.written ++ s.lane.write.2.1.toList) ++ s.lane.write.1.syncQ = s.requested
      rw [synceds_append, List.append_assoc, e2, h.syncs]

theorem inv_run (ops : List (Op α)) : ∀ (s : St α), Inv s → Inv (run s ops) := by
  induction ops with
  | nil => intro s h; exact h
  | cons op rest ih => intro s h; exact ih _ (inv_step h op)

/-- the result of the last write tells the truth about the queues as long as nothing is pushed afterwards -/
theorem lastResult_after_write (s : St α) : (step s .write).lastResult = some (step s .write).lane.result := by
  show some s.lane.write.2.2 = some s.lane.write.1.result
  rw [(write_spec s.lane).2.2]

/-- number of `write` ops -/
def writes : List (Op α) → Nat
  | [] => 0
  | .write :: rest => writes rest + 1
  | _ :: rest => writes rest

theorem written_le_writes (ops : List (Op α)) : ∀ (s : St α),
    (run s ops).written.length ≤ s.written.length + writes ops := by
  induction ops with
  | nil => intro s; simp [run, writes]
  | cons op rest ih =>
    intro s
    have := ih (step s op)
    cases op with
    | push a => simpa [run, writes, step] using this
    | sync r => simpa [run, writes, step] using this
    | write =>
      have hl : (step s .write).written.length ≤ s.written.length + 1 := by
        show (s.written ++ s.lane.write.2.1.toList).length ≤ _
        cases s.lane.write.2.1 <;> simp
      simp only [run, List.foldl_cons, writes] at this ⊢
      omega

/-- draining: `n` consecutive writes with `n ≥` everything owed empty both queues -/
theorem drain (n : Nat) : ∀ (s : St α), s.lane.eventQ.length + s.lane.syncQ.length ≤ n →
    (run s (List.replicate n .write)).lane.eventQ = [] ∧ (run s (List.replicate n .write)).lane.syncQ = [] := by
  induction n with
  | zero =>
    intro s h
    have h1 : s.lane.eventQ.length = 0 := by omega
    have h2 : s.lane.syncQ.length = 0 := by omega
    exact ⟨List.eq_nil_of_length_eq_zero h1, List.eq_nil_of_length_eq_zero h2⟩
  | succ n ih =>
    intro s h
    have hstep : (step s .write).lane.eventQ.length + (step s .write).lane.syncQ.length ≤ n := by
      show s.lane.write.1.eventQ.length + s.lane.write.1.syncQ.length ≤ n
      unfold Lane.write
      cases hs : s.lane.syncQ with
      | cons r rest => simp [hs] at h ⊢; omega
      | nil =>
        cases he : s.lane.eventQ with
        | cons a rest => simp [hs, he] at h ⊢; omega
        | nil => simp [hs, he]
    simpa [run, List.replicate_succ] using ih (step s .write) hstep

theorem writes_keep_pushed (n : Nat) : ∀ (s : St α), (run s (List.replicate n .write)).pushed = s.pushed := by
  induction n with
  | zero => intro s; rfl
  | succ n ih =>
    intro s
    have h1 : (step s .write).pushed = s.pushed := rfl
    have h2 := ih (step s .write)
    rw [h1] at h2
    simpa [run, List.replicate_succ] using h2

end SwimVerif.Sup
