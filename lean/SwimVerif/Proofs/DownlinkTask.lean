/-
Helper definitions and lemmas for C08: the legal grammar of notification sequences, the reference fold, the
simulation relations between each implementation model and the fold, and association-list facts.
-/
import SwimVerif.Model.DownlinkMon

set_option linter.unusedVariables false
namespace SwimVerif.Dl

/-! ### association lists -/

theorem del_of_look_none (k : Int) (m : AMap) (h : look k m = none) : del k m = m := by
  induction m with
  | nil => rfl
  | cons p r ih =>
    simp only [look] at h
    by_cases hp : p.1 = k
    · simp [hp] at h
    · simp only [hp, ↓reduceIte] at h
      simp [del, hp, ih h]

theorem look_ins_same (k v : Int) (m : AMap) : look k (ins k v m) = some v := by
  induction m with
  | nil => simp [ins, look]
  | cons p r ih =>
    simp only [ins]
    by_cases h1 : k < p.1
    · simp [h1, look]
    · by_cases h2 : p.1 = k
      · simp [h1, h2, look]
      · simp [h1, h2, look, ih]

theorem look_ins_other (k k' v : Int) (m : AMap) (h : k' ≠ k) : look k' (ins k v m) = look k' m := by
  induction m with
  | nil => simp [ins, look]; omega
  | cons p r ih =>
    simp only [ins]
    by_cases h1 : k < p.1
    · simp only [h1, ↓reduceIte, look]
      have : ¬ k = k' := fun e => h e.symm
      simp [this]
    · by_cases h2 : p.1 = k
      · simp only [h1, h2, ↓reduceIte, look]
        have : ¬ k = k' := fun e => h e.symm
        simp [look, this]
      · simp [h1, h2, look, ih]

theorem look_del_same (k : Int) (m : AMap) : look k (del k m) = none := by
  induction m with
  | nil => rfl
  | cons p r ih =>
    by_cases h : p.1 = k
    · simp [del, h, ih]
    · simp [del, h, look, ih]

theorem look_del_other (k k' : Int) (m : AMap) (h : k' ≠ k) : look k' (del k m) = look k' m := by
  induction m with
  | nil => rfl
  | cons p r ih =>
    by_cases h1 : p.1 = k
    · have : ¬ p.1 = k' := by omega
      simp [del, h1, look, ih]
      intro e; omega
    · simp [del, h1, look, ih]

/-! ### the legal grammar `linked ev* synced ev* unlinked (relink ..)` and the reference fold -/

def Msg.isBasic : Msg → Bool
  | .update _ _ => true | .remove _ => true | .clear => true | _ => false

/-- restrictions under which a statement is claimed -/
structure Restr where
  /-- only update / remove / clear events -/
  noTakeDrop : Bool

def evOk (R : Restr) (c : Cfg) (p : Phase) (e : Msg) : Bool :=
  !R.noTakeDrop || e.isBasic

/-- one step of the grammar; `none` = the notification is not legal here -/
def phaseStep (R : Restr) (c : Cfg) (p : Phase) (n : Note) : Option Phase :=
  match p, n with
  | .U, .linked => some .L
  | .L, .ev e => if evOk R c .L e then some .L else none
  | .S, .ev e => if evOk R c .S e then some .S else none
  | .L, .synced => some .S
  | .L, .unlinked => some (if c.tou then .E else .U)
  | .S, .unlinked => some (if c.tou then .E else .U)
  | _, _ => none

def phaseRun (R : Restr) (c : Cfg) : Phase → List Note → Option Phase
  | p, [] => some p
  | p, n :: r => match phaseStep R c p n with
    | some p' => phaseRun R c p' r
    | none => none

/-- the replica a notification sequence implies: `none` = not linked -/
def specStep (s : Option AMap) : Note → Option AMap
  | .linked => match s with | none => some [] | some m => some m
  | .synced => s
  | .ev e => match s with | none => none | some m => some (applyMsg m e)
  | .unlinked => none

def specRun (s : Option AMap) (ns : List Note) : Option AMap := ns.foldl specStep s

/-- callbacks the fold implies for a notification (`disp` = callbacks enabled), update/remove/clear only -/
def specCbs (s : Option AMap) (disp : Bool) : Note → List Cb
  | .linked => [.linked]
  | .synced => [.syncedM (s.getD [])]
  | .unlinked => [.unlinked]
  | .ev (.update k v) => cbIf disp (.update k (look k (s.getD [])) v (ins k v (s.getD [])))
  | .ev (.remove k) => match look k (s.getD []) with
    | some v => cbIf disp (.remove k v (del k (s.getD [])))
    | none => []
  | .ev .clear => cbIf disp (.clear (s.getD []))
  | .ev _ => []

/-! ### running the models -/

def MClient.run (c : Cfg) : MClient → List MOp → MClient × List (List Cb)
  | s, [] => (s, [])
  | s, op :: r => ((MClient.run c (s.step c op).1 r).1, (s.step c op).2 :: (MClient.run c (s.step c op).1 r).2)

def MHosted.run (c : Cfg) : MHosted → List MOp → MHosted × List (List Cb)
  | s, [] => (s, [])
  | s, op :: r => ((MHosted.run c (s.step c op).1 r).1, (s.step c op).2 :: (MHosted.run c (s.step c op).1 r).2)

def notes (ns : List Note) : List MOp := ns.map .note

/-- the replica held by the client (`none` = `State::Unlinked`) -/
def CSt.replica : CSt → Option AMap
  | .unlinked => none | .linked m => some m | .synced m => some m

/-! ### events -/

theorem cEvent_fst_basic (m : AMap) (e : Msg) (d : Bool) (h : e.isBasic = true) :
    (cEvent m e d).1 = applyMsg m e := by
  cases e with
  | update k v => rfl
  | remove k =>
    simp only [cEvent, applyMsg]
    cases hl : look k m with
    | none => simp [del_of_look_none k m hl]
    | some v => rfl
  | clear => rfl
  | take n => simp [Msg.isBasic] at h
  | drop n => simp [Msg.isBasic] at h

theorem hEvent_fst_basic (m : AMap) (e : Msg) (d : Bool) (h : e.isBasic = true) :
    (hEvent m e d).1 = applyMsg m e := by
  cases e with
  | update k v => rfl
  | remove k =>
    simp only [hEvent, applyMsg]
    cases hl : look k m with
    | none => simp [del_of_look_none k m hl]
    | some v => rfl
  | clear => rfl
  | take n => simp [Msg.isBasic] at h
  | drop n => simp [Msg.isBasic] at h

theorem cEvent_snd_basic (m : AMap) (e : Msg) (d : Bool) (h : e.isBasic = true) :
    (cEvent m e d).2 = specCbs (some m) d (.ev e) := by
  cases e with
  | update k v => rfl
  | remove k =>
    simp only [cEvent, specCbs, Option.getD]
    cases hl : look k m <;> rfl
  | clear => rfl
  | take n => simp [Msg.isBasic] at h
  | drop n => simp [Msg.isBasic] at h

theorem hEvent_snd_basic (m : AMap) (e : Msg) (d : Bool) (h : e.isBasic = true) :
    (hEvent m e d).2 = specCbs (some m) d (.ev e) := by
  cases e with
  | update k v => rfl
  | remove k =>
    simp only [hEvent, specCbs, Option.getD]
    cases hl : look k m <;> rfl
  | clear => rfl
  | take n => simp [Msg.isBasic] at h
  | drop n => simp [Msg.isBasic] at h

/-! ### simulation relations -/

/-- client model state vs (phase, fold) -/
def RelC (p : Phase) (sp : Option AMap) (s : MClient) : Prop :=
  match p with
  | .U => s = { st := .unlinked, fin := none } ∧ sp = none
  | .L => ∃ m, s = { st := .linked m, fin := none } ∧ sp = some m
  | .S => ∃ m, s = { st := .synced m, fin := none } ∧ sp = some m
  | .E => s.fin = some .ok ∧ sp = none

/-- hosted model state vs (phase, fold) -/
def RelH (p : Phase) (sp : Option AMap) (s : MHosted) : Prop :=
  match p with
  | .U => s = { dl := .unlinked, map := [], fin := none } ∧ sp = none
  | .L => s.dl = .linked ∧ s.fin = none ∧ sp = some s.map
  | .S => s.dl = .synced ∧ s.fin = none ∧ sp = some s.map
  | .E => s.fin = some .ok ∧ s.map = [] ∧ sp = none

/-- callbacks enabled in phase `p` -/
def dispIn (c : Cfg) (p : Phase) : Bool := p = .S || c.ews

theorem evOk_basic {R : Restr} {c : Cfg} {p : Phase} {e : Msg} (hR : R.noTakeDrop = true)
    (h : evOk R c p e = true) : e.isBasic = true := by
  simpa [evOk, hR] using h

/-- one legal notification keeps the client on the fold -/
theorem relC_step {R : Restr} (hR : R.noTakeDrop = true) (c : Cfg) {p p' : Phase} {sp : Option AMap} {s : MClient}
    {n : Note} (hrel : RelC p sp s) (hp : phaseStep R c p n = some p') :
    RelC p' (specStep sp n) (s.step c (.note n)).1 := by
  cases p with
  | U =>
    cases n with
    | linked =>
      simp only [phaseStep, Option.some.injEq] at hp
      subst hp
      obtain ⟨hs, hsp⟩ := hrel
      subst hs hsp
      exact ⟨[], rfl, rfl⟩
    | synced => simp [phaseStep] at hp
    | unlinked => simp [phaseStep] at hp
    | ev e => simp [phaseStep] at hp
  | L =>
    obtain ⟨m, hs, hsp⟩ := hrel
    subst hs hsp
    cases n with
    | linked => simp [phaseStep] at hp
    | synced =>
      simp only [phaseStep, Option.some.injEq] at hp
      subst hp
      exact ⟨m, rfl, rfl⟩
    | unlinked =>
      simp only [phaseStep, Option.some.injEq] at hp
      subst hp
      cases ht : c.tou <;> simp [RelC, MClient.step, cRead, ht, specStep]
    | ev e =>
      simp only [phaseStep] at hp
      by_cases hok : evOk R c .L e = true
      · simp only [hok, ↓reduceIte, Option.some.injEq] at hp
        subst hp
        have hb := evOk_basic hR hok
        refine ⟨applyMsg m e, ?_, rfl⟩
        simp [MClient.step, cRead, cEvent_fst_basic m e c.ews hb]
      · simp [hok] at hp
  | S =>
    obtain ⟨m, hs, hsp⟩ := hrel
    subst hs hsp
    cases n with
    | linked => simp [phaseStep] at hp
    | synced => simp [phaseStep] at hp
    | unlinked =>
      simp only [phaseStep, Option.some.injEq] at hp
      subst hp
      cases ht : c.tou <;> simp [RelC, MClient.step, cRead, ht, specStep]
    | ev e =>
      simp only [phaseStep] at hp
      by_cases hok : evOk R c .S e = true
      · simp only [hok, ↓reduceIte, Option.some.injEq] at hp
        subst hp
        have hb := evOk_basic hR hok
        refine ⟨applyMsg m e, ?_, rfl⟩
        simp [MClient.step, cRead, cEvent_fst_basic m e true hb]
      · simp [hok] at hp
  | E => cases n <;> simp [phaseStep] at hp

/-- one legal notification (update / remove / clear events) keeps the hosted downlink on the fold -/
theorem relH_step {R : Restr} (hR : R.noTakeDrop = true) (c : Cfg) {p p' : Phase} {sp : Option AMap} {s : MHosted}
    {n : Note} (hrel : RelH p sp s) (hp : phaseStep R c p n = some p') :
    RelH p' (specStep sp n) (s.step c (.note n)).1 := by
  cases p with
  | U =>
    cases n with
    | linked =>
      simp only [phaseStep, Option.some.injEq] at hp
      subst hp
      obtain ⟨hs, hsp⟩ := hrel
      subst hs hsp
      simp [RelH, MHosted.step, hNext, specStep]
    | synced => simp [phaseStep] at hp
    | unlinked => simp [phaseStep] at hp
    | ev e => simp [phaseStep] at hp
  | L =>
    obtain ⟨hdl, hfin, hsp⟩ := hrel
    subst hsp
    cases n with
    | linked => simp [phaseStep] at hp
    | synced =>
      simp only [phaseStep, Option.some.injEq] at hp
      subst hp
      simp [RelH, MHosted.step, hNext, specStep, hfin]
    | unlinked =>
      simp only [phaseStep, Option.some.injEq] at hp
      subst hp
      cases ht : c.tou <;> simp [RelH, MHosted.step, hNext, specStep, hfin, ht, dlAfterUnlinked]
    | ev e =>
      simp only [phaseStep] at hp
      by_cases hok : evOk R c .L e = true
      · simp only [hok, ↓reduceIte, Option.some.injEq] at hp
        subst hp
        have hb := evOk_basic hR hok
        simp [RelH, MHosted.step, hNext, specStep, hfin, hdl, hEvent_fst_basic _ e _ hb]
      · simp [hok] at hp
  | S =>
    obtain ⟨hdl, hfin, hsp⟩ := hrel
    subst hsp
    cases n with
    | linked => simp [phaseStep] at hp
    | synced => simp [phaseStep] at hp
    | unlinked =>
      simp only [phaseStep, Option.some.injEq] at hp
      subst hp
      cases ht : c.tou <;> simp [RelH, MHosted.step, hNext, specStep, hfin, ht, dlAfterUnlinked]
    | ev e =>
      simp only [phaseStep] at hp
      by_cases hok : evOk R c .S e = true
      · simp only [hok, ↓reduceIte, Option.some.injEq] at hp
        subst hp
        have hb := evOk_basic hR hok
        simp [RelH, MHosted.step, hNext, specStep, hfin, hdl, hEvent_fst_basic _ e _ hb]
      · simp [hok] at hp
  | E => cases n <;> simp [phaseStep] at hp

/-- callbacks of the client for one legal notification are the ones the fold implies -/
theorem cbsC_step {R : Restr} (hT : R.noTakeDrop = true) (c : Cfg) {p p' : Phase}
    {sp : Option AMap} {s : MClient} {n : Note} (hrel : RelC p sp s) (hp : phaseStep R c p n = some p') :
    (s.step c (.note n)).2 = specCbs sp (dispIn c p) n := by
  cases p with
  | U =>
    obtain ⟨hs, hsp⟩ := hrel
    subst hs hsp
    cases n <;> simp [phaseStep] at hp
    rfl
  | L =>
    obtain ⟨m, hs, hsp⟩ := hrel
    subst hs hsp
    cases n with
    | linked => simp [phaseStep] at hp
    | synced => rfl
    | unlinked => cases ht : c.tou <;> simp [MClient.step, cRead, ht, specCbs]
    | ev e =>
      simp only [phaseStep] at hp
      by_cases hok : evOk R c .L e = true
      · have hb := evOk_basic hT hok
        simp [MClient.step, cRead, cEvent_snd_basic m e c.ews hb, dispIn]
      · simp [hok] at hp
  | S =>
    obtain ⟨m, hs, hsp⟩ := hrel
    subst hs hsp
    cases n with
    | linked => simp [phaseStep] at hp
    | synced => simp [phaseStep] at hp
    | unlinked => cases ht : c.tou <;> simp [MClient.step, cRead, ht, specCbs]
    | ev e =>
      simp only [phaseStep] at hp
      by_cases hok : evOk R c .S e = true
      · have hb := evOk_basic hT hok
        simp [MClient.step, cRead, cEvent_snd_basic m e true hb, dispIn]
      · simp [hok] at hp
  | E => cases n <;> simp [phaseStep] at hp

/-- callbacks of the hosted downlink for one legal notification are the ones the fold implies -/
theorem cbsH_step {R : Restr} (hT : R.noTakeDrop = true) (c : Cfg) {p p' : Phase}
    {sp : Option AMap} {s : MHosted} {n : Note} (hrel : RelH p sp s) (hp : phaseStep R c p n = some p') :
    (s.step c (.note n)).2 = specCbs sp (dispIn c p) n := by
  cases p with
  | U =>
    obtain ⟨hs, hsp⟩ := hrel
    subst hs hsp
    cases n <;> simp [phaseStep] at hp
    rfl
  | L =>
    obtain ⟨hdl, hfin, hsp⟩ := hrel
    subst hsp
    cases n with
    | linked => simp [phaseStep] at hp
    | synced => simp [MHosted.step, hNext, hfin, specCbs]
    | unlinked => simp [MHosted.step, hNext, hfin, specCbs]
    | ev e =>
      simp only [phaseStep] at hp
      by_cases hok : evOk R c .L e = true
      · have hb := evOk_basic hT hok
        simp [MHosted.step, hNext, hfin, hdl, hEvent_snd_basic _ e _ hb, dispIn]
      · simp [hok] at hp
  | S =>
    obtain ⟨hdl, hfin, hsp⟩ := hrel
    subst hsp
    cases n with
    | linked => simp [phaseStep] at hp
    | synced => simp [phaseStep] at hp
    | unlinked => simp [MHosted.step, hNext, hfin, specCbs]
    | ev e =>
      simp only [phaseStep] at hp
      by_cases hok : evOk R c .S e = true
      · have hb := evOk_basic hT hok
        simp [MHosted.step, hNext, hfin, hdl, hEvent_snd_basic _ e _ hb, dispIn]
      · simp [hok] at hp
  | E => cases n <;> simp [phaseStep] at hp

/-! ### whole sequences -/

theorem specRun_cons (sp : Option AMap) (n : Note) (r : List Note) :
    specRun sp (n :: r) = specRun (specStep sp n) r := rfl

theorem relC_run {R : Restr} (hR : R.noTakeDrop = true) (c : Cfg) (ns : List Note) {p p' : Phase}
    {sp : Option AMap} {s : MClient} (hrel : RelC p sp s) (hp : phaseRun R c p ns = some p') :
    RelC p' (specRun sp ns) (MClient.run c s (notes ns)).1 := by
  induction ns generalizing p sp s with
  | nil =>
    simp only [phaseRun, Option.some.injEq] at hp
    subst hp
    exact hrel
  | cons n r ih =>
    simp only [phaseRun] at hp
    cases hq : phaseStep R c p n with
    | none => simp [hq] at hp
    | some q =>
      simp only [hq] at hp
      exact ih (relC_step hR c hrel hq) hp

theorem relH_run {R : Restr} (hR : R.noTakeDrop = true) (c : Cfg) (ns : List Note) {p p' : Phase}
    {sp : Option AMap} {s : MHosted} (hrel : RelH p sp s) (hp : phaseRun R c p ns = some p') :
    RelH p' (specRun sp ns) (MHosted.run c s (notes ns)).1 := by
  induction ns generalizing p sp s with
  | nil =>
    simp only [phaseRun, Option.some.injEq] at hp
    subst hp
    exact hrel
  | cons n r ih =>
    simp only [phaseRun] at hp
    cases hq : phaseStep R c p n with
    | none => simp [hq] at hp
    | some q =>
      simp only [hq] at hp
      exact ih (relH_step hR c hrel hq) hp

/-- the callback trace the fold implies for a legal sequence -/
def specTrace (R : Restr) (c : Cfg) : Phase → Option AMap → List Note → List (List Cb)
  | _, _, [] => []
  | p, sp, n :: r =>
    specCbs sp (dispIn c p) n ::
      (match phaseStep R c p n with
       | some p' => specTrace R c p' (specStep sp n) r
       | none => [])

theorem traceC_run {R : Restr} (hT : R.noTakeDrop = true) (c : Cfg) (ns : List Note)
    {p p' : Phase} {sp : Option AMap} {s : MClient} (hrel : RelC p sp s) (hp : phaseRun R c p ns = some p') :
    (MClient.run c s (notes ns)).2 = specTrace R c p sp ns := by
  induction ns generalizing p sp s with
  | nil => rfl
  | cons n r ih =>
    simp only [phaseRun] at hp
    cases hq : phaseStep R c p n with
    | none => simp [hq] at hp
    | some q =>
      simp only [hq] at hp
      simp only [notes, List.map_cons, MClient.run, specTrace, hq]
      rw [cbsC_step hT c hrel hq]
      congr 1
      exact ih (relC_step hT c hrel hq) hp

theorem traceH_run {R : Restr} (hT : R.noTakeDrop = true) (c : Cfg) (ns : List Note)
    {p p' : Phase} {sp : Option AMap} {s : MHosted} (hrel : RelH p sp s) (hp : phaseRun R c p ns = some p') :
    (MHosted.run c s (notes ns)).2 = specTrace R c p sp ns := by
  induction ns generalizing p sp s with
  | nil => rfl
  | cons n r ih =>
    simp only [phaseRun] at hp
    cases hq : phaseStep R c p n with
    | none => simp [hq] at hp
    | some q =>
      simp only [hq] at hp
      simp only [notes, List.map_cons, MHosted.run, specTrace, hq]
      rw [cbsH_step hT c hrel hq]
      congr 1
      exact ih (relH_step hT c hrel hq) hp

theorem relC_init : RelC .U none {} := ⟨rfl, rfl⟩
theorem relH_init : RelH .U none {} := ⟨rfl, rfl⟩

/-! ### value downlinks -/

/-- grammar state of a value link; it carries the last value received since `linked` -/
inductive VG
  | U | L (v : Option Int) | S (v : Int) | E
  deriving DecidableEq, Repr

/-- legal: `linked`, at least one event before `synced` (a value lane always sends its value), events, `unlinked` -/
def vStep (c : Cfg) : VG → VNote → Option VG
  | .U, .linked => some (.L none)
  | .L _, .ev b => some (.L (some b))
  | .L (some v), .synced => some (.S v)
  | .S _, .ev b => some (.S b)
  | .L _, .unlinked => some (if c.tou then .E else .U)
  | .S _, .unlinked => some (if c.tou then .E else .U)
  | _, _ => none

def vRunG (c : Cfg) : VG → List VNote → Option VG
  | g, [] => some g
  | g, n :: r => match vStep c g n with
    | some g' => vRunG c g' r
    | none => none

/-- the value a notification sequence implies: `none` = not linked, `some none` = linked, nothing received yet -/
def vSpecStep (s : Option (Option Int)) : VNote → Option (Option Int)
  | .linked => match s with | none => some none | some v => some v
  | .synced => s
  | .ev b => match s with | none => none | some _ => some (some b)
  | .unlinked => none

def vSpecRun (s : Option (Option Int)) (ns : List VNote) : Option (Option Int) := ns.foldl vSpecStep s

def VG.spec : VG → Option (Option Int)
  | .U => none | .L v => some v | .S v => some (some v) | .E => none

def VG.disp (c : Cfg) : VG → Bool
  | .S _ => true | _ => c.ews

def VG.value : VG → Option Int
  | .L v => v | .S v => some v | _ => none

/-- callbacks the received values imply -/
def vSpecCbs (c : Cfg) (g : VG) : VNote → List Cb
  | .linked => [.linked]
  | .synced => match g.value with | some v => [.syncedV v] | none => []
  | .ev b => if g.disp c then [.event b, .set g.value b] else []
  | .unlinked => [.unlinked]

theorem vStep_spec {c : Cfg} {g g' : VG} {n : VNote} (h : vStep c g n = some g') : g'.spec = vSpecStep g.spec n := by
  cases g with
  | U => cases n <;> simp [vStep] at h; subst h; rfl
  | L v =>
    cases n with
    | linked => simp [vStep] at h
    | synced => cases v <;> simp [vStep] at h; subst h; rfl
    | unlinked => simp only [vStep, Option.some.injEq] at h; subst h; cases c.tou <;> rfl
    | ev b => simp only [vStep, Option.some.injEq] at h; subst h; rfl
  | S v =>
    cases n with
    | linked => simp [vStep] at h
    | synced => simp [vStep] at h
    | unlinked => simp only [vStep, Option.some.injEq] at h; subst h; cases c.tou <;> rfl
    | ev b => simp only [vStep, Option.some.injEq] at h; subst h; rfl
  | E => cases n <;> simp [vStep] at h

def RelVC (g : VG) (s : VClient) : Prop :=
  match g with
  | .U => s = { st := .unlinked, fin := none }
  | .L v => s = { st := .linked v, fin := none }
  | .S v => s = { st := .synced v, fin := none }
  | .E => s.fin = some .ok

def RelVH (g : VG) (s : VHosted) : Prop :=
  match g with
  | .U => s = { dl := .unlinked, val := none, fin := none }
  | .L v => s = { dl := .linked, val := v, fin := none }
  | .S v => s = { dl := .synced, val := some v, fin := none }
  | .E => s.fin = some .ok ∧ s.val = none

theorem relVC_step (c : Cfg) {g g' : VG} {s : VClient} {n : VNote} (hrel : RelVC g s) (h : vStep c g n = some g') :
    RelVC g' (s.step c (.note n)).1 ∧ (s.step c (.note n)).2 = vSpecCbs c g n := by
  cases g with
  | U =>
    simp only [RelVC] at hrel; subst hrel
    cases n <;> simp [vStep] at h; subst h
    exact ⟨rfl, rfl⟩
  | L v =>
    simp only [RelVC] at hrel; subst hrel
    cases n with
    | linked => simp [vStep] at h
    | synced =>
      cases v with
      | none => simp [vStep] at h
      | some v => simp only [vStep, Option.some.injEq] at h; subst h; exact ⟨rfl, rfl⟩
    | unlinked =>
      simp only [vStep, Option.some.injEq] at h; subst h
      cases ht : c.tou <;> simp [RelVC, VClient.step, vcRead, ht, vSpecCbs]
    | ev b =>
      simp only [vStep, Option.some.injEq] at h; subst h
      cases he : c.ews <;> simp [RelVC, VClient.step, vcRead, he, vSpecCbs, VG.disp, VG.value]
  | S v =>
    simp only [RelVC] at hrel; subst hrel
    cases n with
    | linked => simp [vStep] at h
    | synced => simp [vStep] at h
    | unlinked =>
      simp only [vStep, Option.some.injEq] at h; subst h
      cases ht : c.tou <;> simp [RelVC, VClient.step, vcRead, ht, vSpecCbs]
    | ev b =>
      simp only [vStep, Option.some.injEq] at h; subst h
      simp [RelVC, VClient.step, vcRead, vSpecCbs, VG.disp, VG.value]
  | E => cases n <;> simp [vStep] at h

theorem relVH_step (c : Cfg) {g g' : VG} {s : VHosted} {n : VNote} (hrel : RelVH g s) (h : vStep c g n = some g') :
    RelVH g' (s.step c (.note n)).1 ∧ (s.step c (.note n)).2 = vSpecCbs c g n := by
  cases g with
  | U =>
    simp only [RelVH] at hrel; subst hrel
    cases n <;> simp [vStep] at h; subst h
    exact ⟨rfl, rfl⟩
  | L v =>
    simp only [RelVH] at hrel; subst hrel
    cases n with
    | linked => simp [vStep] at h
    | synced =>
      cases v with
      | none => simp [vStep] at h
      | some v => simp only [vStep, Option.some.injEq] at h; subst h; exact ⟨rfl, rfl⟩
    | unlinked =>
      simp only [vStep, Option.some.injEq] at h; subst h
      cases ht : c.tou <;> simp [RelVH, VHosted.step, vhNext, ht, vSpecCbs, dlAfterUnlinked]
    | ev b =>
      simp only [vStep, Option.some.injEq] at h; subst h
      cases he : c.ews <;> simp [RelVH, VHosted.step, vhNext, he, vSpecCbs, VG.disp, VG.value]
  | S v =>
    simp only [RelVH] at hrel; subst hrel
    cases n with
    | linked => simp [vStep] at h
    | synced => simp [vStep] at h
    | unlinked =>
      simp only [vStep, Option.some.injEq] at h; subst h
      cases ht : c.tou <;> simp [RelVH, VHosted.step, vhNext, ht, vSpecCbs, dlAfterUnlinked]
    | ev b =>
      simp only [vStep, Option.some.injEq] at h; subst h
      simp [RelVH, VHosted.step, vhNext, vSpecCbs, VG.disp, VG.value]
  | E => cases n <;> simp [vStep] at h

def VClient.run (c : Cfg) : VClient → List VOp → VClient × List (List Cb)
  | s, [] => (s, [])
  | s, op :: r => ((VClient.run c (s.step c op).1 r).1, (s.step c op).2 :: (VClient.run c (s.step c op).1 r).2)

def VHosted.run (c : Cfg) : VHosted → List VOp → VHosted × List (List Cb)
  | s, [] => (s, [])
  | s, op :: r => ((VHosted.run c (s.step c op).1 r).1, (s.step c op).2 :: (VHosted.run c (s.step c op).1 r).2)

def vnotes (ns : List VNote) : List VOp := ns.map .note

def vSpecTrace (c : Cfg) : VG → List VNote → List (List Cb)
  | _, [] => []
  | g, n :: r => vSpecCbs c g n :: (match vStep c g n with | some g' => vSpecTrace c g' r | none => [])

theorem relVC_run (c : Cfg) (ns : List VNote) {g g' : VG} {s : VClient} (hrel : RelVC g s)
    (h : vRunG c g ns = some g') :
    RelVC g' (VClient.run c s (vnotes ns)).1 ∧ (VClient.run c s (vnotes ns)).2 = vSpecTrace c g ns := by
  induction ns generalizing g s with
  | nil => simp only [vRunG, Option.some.injEq] at h; subst h; exact ⟨hrel, rfl⟩
  | cons n r ih =>
    simp only [vRunG] at h
    cases hq : vStep c g n with
    | none => simp [hq] at h
    | some q =>
      simp only [hq] at h
      have hs := relVC_step c hrel hq
      have := ih hs.1 h
      simp only [vnotes, List.map_cons, VClient.run, vSpecTrace, hq]
      exact ⟨this.1, by rw [hs.2]; congr 1; exact this.2⟩

theorem relVH_run (c : Cfg) (ns : List VNote) {g g' : VG} {s : VHosted} (hrel : RelVH g s)
    (h : vRunG c g ns = some g') :
    RelVH g' (VHosted.run c s (vnotes ns)).1 ∧ (VHosted.run c s (vnotes ns)).2 = vSpecTrace c g ns := by
  induction ns generalizing g s with
  | nil => simp only [vRunG, Option.some.injEq] at h; subst h; exact ⟨hrel, rfl⟩
  | cons n r ih =>
    simp only [vRunG] at h
    cases hq : vStep c g n with
    | none => simp [hq] at h
    | some q =>
      simp only [hq] at h
      have hs := relVH_step c hrel hq
      have := ih hs.1 h
      simp only [vnotes, List.map_cons, VHosted.run, vSpecTrace, hq]
      exact ⟨this.1, by rw [hs.2]; congr 1; exact this.2⟩

theorem vRunG_spec (c : Cfg) (ns : List VNote) {g g' : VG} (h : vRunG c g ns = some g') :
    g'.spec = vSpecRun g.spec ns := by
  induction ns generalizing g with
  | nil => simp only [vRunG, Option.some.injEq] at h; subst h; rfl
  | cons n r ih =>
    simp only [vRunG] at h
    cases hq : vStep c g n with
    | none => simp [hq] at h
    | some q =>
      simp only [hq] at h
      rw [ih h, vStep_spec hq]; rfl

/-! ### hosted `take` / `drop`: removing the sorted key suffix / prefix one key at a time is `List.take` / `List.drop` -/

/-- keys strictly increasing (`BTreeMap` order; what `drop_or_take` establishes by sorting) -/
def SortedK (m : AMap) : Prop := (keys m).Pairwise (· < ·)

theorem del_eq_filter (k : Int) (m : AMap) : del k m = m.filter (fun p => !(p.1 == k)) := by
  induction m with
  | nil => rfl
  | cons p r ih =>
    by_cases h : p.1 = k
    · simp [del, h, ih]
    · simp [del, h, ih]

theorem removeSeq_fst (d : Bool) (ks : List Int) (m : AMap) :
    (removeSeq d m ks).1 = m.filter (fun p => !(ks.contains p.1)) := by
  induction ks generalizing m with
  | nil =>
    simp only [removeSeq, List.contains_nil, Bool.not_false]
    exact (List.filter_eq_self.mpr (fun _ _ => rfl)).symm
  | cons k ks ih =>
    have key : ((del k m).filter fun p => !(ks.contains p.1)) = m.filter (fun p => !((k :: ks).contains p.1)) := by
      rw [del_eq_filter, List.filter_filter]
      congr 1
      funext p
      by_cases h : p.1 = k
      · simp [h]
      · have h' : ¬ k = p.1 := fun e => h e.symm
        simp [List.contains_cons, h, h', Bool.and_comm]
    simp only [removeSeq]
    cases hl : look k m with
    | none =>
      simp only []
      rw [ih, ← key, del_of_look_none k m hl]
    | some v =>
      simp only []
      rw [ih, key]

theorem keys_take (m : AMap) (n : Nat) : keys (m.take n) = (keys m).take n := by simp [keys, List.map_take]
theorem keys_drop (m : AMap) (n : Nat) : keys (m.drop n) = (keys m).drop n := by simp [keys, List.map_drop]

theorem sorted_split (m : AMap) (n : Nat) (h : SortedK m) :
    ∀ a ∈ keys (m.take n), ∀ b ∈ keys (m.drop n), a < b := by
  have : keys m = keys (m.take n) ++ keys (m.drop n) := by
    rw [keys_take, keys_drop, List.take_append_drop]
  unfold SortedK at h
  rw [this, List.pairwise_append] at h
  exact h.2.2

theorem filter_drop_keys (m : AMap) (n : Nat) (h : SortedK m) :
    m.filter (fun p => !((keys (m.drop n)).contains p.1)) = m.take n := by
  have hs := sorted_split m n h
  have split : ∀ f : Int × Int → Bool, m.filter f = (m.take n).filter f ++ (m.drop n).filter f := by
    intro f; rw [← List.filter_append, List.take_append_drop]
  have h1 : (m.take n).filter (fun p => !((keys (m.drop n)).contains p.1)) = m.take n := by
    rw [List.filter_eq_self]
    intro p hp
    simp only [Bool.not_eq_true', List.contains_eq_mem, decide_eq_false_iff_not]
    intro hmem
    have ha : p.1 ∈ keys (m.take n) := List.mem_map_of_mem (f := fun (q : Int × Int) => q.1) hp
    have := hs p.1 ha p.1 hmem
    omega
  have h2 : (m.drop n).filter (fun p => !((keys (m.drop n)).contains p.1)) = [] := by
    rw [List.filter_eq_nil_iff]
    intro p hp
    have hb : p.1 ∈ keys (m.drop n) := List.mem_map_of_mem (f := fun (q : Int × Int) => q.1) hp
    simp [hb]
  rw [split, h1, h2, List.append_nil]

theorem filter_take_keys (m : AMap) (n : Nat) (h : SortedK m) :
    m.filter (fun p => !((keys (m.take n)).contains p.1)) = m.drop n := by
  have hs := sorted_split m n h
  have split : ∀ f : Int × Int → Bool, m.filter f = (m.take n).filter f ++ (m.drop n).filter f := by
    intro f; rw [← List.filter_append, List.take_append_drop]
  have h1 : (m.take n).filter (fun p => !((keys (m.take n)).contains p.1)) = [] := by
    rw [List.filter_eq_nil_iff]
    intro p hp
    have hb : p.1 ∈ keys (m.take n) := List.mem_map_of_mem (f := fun (q : Int × Int) => q.1) hp
    simp [hb]
  have h2 : (m.drop n).filter (fun p => !((keys (m.take n)).contains p.1)) = m.drop n := by
    rw [List.filter_eq_self]
    intro p hp
    simp only [Bool.not_eq_true', List.contains_eq_mem, decide_eq_false_iff_not]
    intro hmem
    have hb : p.1 ∈ keys (m.drop n) := List.mem_map_of_mem (f := fun (q : Int × Int) => q.1) hp
    have := hs p.1 hmem p.1 hb
    omega
  rw [split, h1, h2, List.nil_append]

/-- on a key-sorted map the hosted operations compute the fold, for all five messages -/
theorem hEvent_fst_sorted (m : AMap) (e : Msg) (d : Bool) (h : SortedK m) : (hEvent m e d).1 = applyMsg m e := by
  cases e with
  | update k v => rfl
  | remove k =>
    simp only [hEvent, applyMsg]
    cases hl : look k m with
    | none => simp [del_of_look_none k m hl]
    | some v => rfl
  | clear => rfl
  | take n =>
    simp only [hEvent, applyMsg]
    by_cases hn : n < m.length
    · simp only [hn, ↓reduceIte]
      rw [removeSeq_fst, ← keys_drop]
      exact filter_drop_keys m n h
    · simp only [hn, ↓reduceIte]
      exact (List.take_of_length_le (by omega)).symm
  | drop n =>
    simp only [hEvent, applyMsg]
    by_cases hn : m.length ≤ n
    · simp only [hn, ↓reduceIte]
      exact (List.drop_of_length_le hn).symm
    · simp only [hn, ↓reduceIte]
      rw [removeSeq_fst, ← keys_take]
      exact filter_take_keys m n h

theorem mem_keys_ins (k v k' : Int) (m : AMap) (h : k' ∈ keys (ins k v m)) : k' = k ∨ k' ∈ keys m := by
  induction m with
  | nil => simp [ins, keys] at h; exact Or.inl h
  | cons p r ih =>
    simp only [ins] at h
    by_cases h1 : k < p.1
    · simp only [h1, ↓reduceIte, keys, List.map_cons, List.mem_cons] at h
      simp only [keys, List.map_cons, List.mem_cons]
      rcases h with h | h | h
      · exact Or.inl h
      · exact Or.inr (Or.inl h)
      · exact Or.inr (Or.inr h)
    · by_cases h2 : p.1 = k
      · rw [if_neg h1, if_pos h2] at h
        simp only [keys, List.map_cons, List.mem_cons] at h
        simp only [keys, List.map_cons, List.mem_cons]
        rcases h with h | h
        · exact Or.inl h
        · exact Or.inr (Or.inr h)
      · rw [if_neg h1, if_neg h2] at h
        simp only [keys, List.map_cons, List.mem_cons] at h
        simp only [keys, List.map_cons, List.mem_cons]
        rcases h with h | h
        · exact Or.inr (Or.inl h)
        · rcases ih h with h | h
          · exact Or.inl h
          · exact Or.inr (Or.inr h)

theorem ins_sorted (k v : Int) (m : AMap) (h : SortedK m) : SortedK (ins k v m) := by
  induction m with
  | nil => simp [ins, SortedK, keys]
  | cons p r ih =>
    unfold SortedK at h
    simp only [keys, List.map_cons, List.pairwise_cons] at h
    obtain ⟨hp, hr⟩ := h
    simp only [ins]
    by_cases h1 : k < p.1
    · simp only [h1, ↓reduceIte]
      unfold SortedK
      simp only [keys, List.map_cons, List.pairwise_cons, List.mem_cons]
      refine ⟨?_, hp, hr⟩
      intro a ha
      rcases ha with ha | ha
      · omega
      · have := hp a ha; omega
    · by_cases h2 : p.1 = k
      · rw [if_neg h1, if_pos h2]
        unfold SortedK
        simp only [keys, List.map_cons, List.pairwise_cons]
        exact ⟨fun a ha => by have := hp a ha; omega, hr⟩
      · rw [if_neg h1, if_neg h2]
        unfold SortedK
        simp only [keys, List.map_cons, List.pairwise_cons]
        refine ⟨?_, ih hr⟩
        intro a ha
        rcases mem_keys_ins k v a r ha with ha | ha
        · omega
        · exact hp a ha

theorem sublist_sorted {m m' : AMap} (hs : m'.Sublist m) (h : SortedK m) : SortedK m' :=
  List.Pairwise.sublist (List.Sublist.map (fun (q : Int × Int) => q.1) hs) h

theorem del_sorted (k : Int) (m : AMap) (h : SortedK m) : SortedK (del k m) := by
  rw [del_eq_filter]; exact sublist_sorted List.filter_sublist h

theorem applyMsg_sorted (m : AMap) (e : Msg) (h : SortedK m) : SortedK (applyMsg m e) := by
  cases e with
  | update k v => exact ins_sorted k v m h
  | remove k => exact del_sorted k m h
  | clear => simp [applyMsg, SortedK, keys]
  | take n => exact sublist_sorted (List.take_sublist n m) h
  | drop n => exact sublist_sorted (List.drop_sublist n m) h

/-- hosted step for all five messages, carrying the sortedness invariant -/
theorem relH_step_all {R : Restr} (c : Cfg) {p p' : Phase} {sp : Option AMap} {s : MHosted}
    {n : Note} (hrel : RelH p sp s) (hso : SortedK s.map) (hp : phaseStep R c p n = some p') :
    RelH p' (specStep sp n) (s.step c (.note n)).1 ∧ SortedK (s.step c (.note n)).1.map := by
  have hnil : SortedK ([] : AMap) := by simp [SortedK, keys]
  cases p with
  | U =>
    cases n with
    | linked =>
      simp only [phaseStep, Option.some.injEq] at hp
      subst hp
      obtain ⟨hs, hsp⟩ := hrel
      subst hs hsp
      simp [RelH, MHosted.step, hNext, specStep, hnil]
    | synced => simp [phaseStep] at hp
    | unlinked => simp [phaseStep] at hp
    | ev e => simp [phaseStep] at hp
  | L =>
    obtain ⟨hdl, hfin, hsp⟩ := hrel
    subst hsp
    cases n with
    | linked => simp [phaseStep] at hp
    | synced =>
      simp only [phaseStep, Option.some.injEq] at hp
      subst hp
      simp [RelH, MHosted.step, hNext, specStep, hfin, hso]
    | unlinked =>
      simp only [phaseStep, Option.some.injEq] at hp
      subst hp
      cases ht : c.tou <;> simp [RelH, MHosted.step, hNext, specStep, hfin, ht, dlAfterUnlinked, hnil]
    | ev e =>
      simp only [phaseStep] at hp
      by_cases hok : evOk R c .L e = true
      · simp only [hok, ↓reduceIte, Option.some.injEq] at hp
        subst hp
        simp [RelH, MHosted.step, hNext, specStep, hfin, hdl, hEvent_fst_sorted _ e _ hso, applyMsg_sorted _ e hso]
      · simp [hok] at hp
  | S =>
    obtain ⟨hdl, hfin, hsp⟩ := hrel
    subst hsp
    cases n with
    | linked => simp [phaseStep] at hp
    | synced => simp [phaseStep] at hp
    | unlinked =>
      simp only [phaseStep, Option.some.injEq] at hp
      subst hp
      cases ht : c.tou <;> simp [RelH, MHosted.step, hNext, specStep, hfin, ht, dlAfterUnlinked, hnil]
    | ev e =>
      simp only [phaseStep] at hp
      by_cases hok : evOk R c .S e = true
      · simp only [hok, ↓reduceIte, Option.some.injEq] at hp
        subst hp
        simp [RelH, MHosted.step, hNext, specStep, hfin, hdl, hEvent_fst_sorted _ e _ hso, applyMsg_sorted _ e hso]
      · simp [hok] at hp
  | E => cases n <;> simp [phaseStep] at hp

theorem relH_run_all {R : Restr} (c : Cfg) (ns : List Note) {p p' : Phase}
    {sp : Option AMap} {s : MHosted} (hrel : RelH p sp s) (hso : SortedK s.map) (hp : phaseRun R c p ns = some p') :
    RelH p' (specRun sp ns) (MHosted.run c s (notes ns)).1 := by
  induction ns generalizing p sp s with
  | nil =>
    simp only [phaseRun, Option.some.injEq] at hp
    subst hp
    exact hrel
  | cons n r ih =>
    simp only [phaseRun] at hp
    cases hq : phaseStep R c p n with
    | none => simp [hq] at hp
    | some q =>
      simp only [hq] at hp
      have := relH_step_all c hrel hso hq
      exact ih this.1 this.2 hp

/-- the client (repaired code: keys collected, removed one at a time) computes the fold for all five messages -/
theorem cEvent_fst_sorted (m : AMap) (e : Msg) (d : Bool) (h : SortedK m) : (cEvent m e d).1 = applyMsg m e := by
  cases e with
  | update k v => rfl
  | remove k =>
    simp only [cEvent, applyMsg]
    cases hl : look k m with
    | none => simp [del_of_look_none k m hl]
    | some v => rfl
  | clear => rfl
  | take n =>
    simp only [cEvent, applyMsg]
    rw [removeSeq_fst, ← keys_drop]
    exact filter_drop_keys m n h
  | drop n =>
    simp only [cEvent, applyMsg]
    rw [removeSeq_fst, ← keys_take]
    exact filter_take_keys m n h

/-- client and hosted event handling coincide (state and callbacks) except for `drop n` with `n ≥ len`, where the
hosted downlink calls `on_clear` once and the client `on_remove` per key -/
theorem cEvent_eq_hEvent (m : AMap) (e : Msg) (d : Bool)
    (h : match e with | .drop n => n < m.length | _ => True) : cEvent m e d = hEvent m e d := by
  cases e with
  | update k v => rfl
  | remove k => rfl
  | clear => rfl
  | take n =>
    simp only [cEvent, hEvent]
    by_cases hn : n < m.length
    · simp [hn]
    · have : (keys m).drop n = [] := by
        apply List.drop_of_length_le
        simp only [keys, List.length_map]; omega
      simp [hn, this, removeSeq]
  | drop n =>
    have hn : ¬ m.length ≤ n := by simp only at h; omega
    simp [cEvent, hEvent, hn]

/-- client step for all five messages, carrying the sortedness invariant -/
theorem relC_step_all {R : Restr} (c : Cfg) {p p' : Phase} {sp : Option AMap} {s : MClient}
    {n : Note} (hrel : RelC p sp s) (hso : SortedK (sp.getD [])) (hp : phaseStep R c p n = some p') :
    RelC p' (specStep sp n) (s.step c (.note n)).1 ∧ SortedK ((specStep sp n).getD []) := by
  have hnil : SortedK ([] : AMap) := by simp [SortedK, keys]
  cases p with
  | U =>
    cases n with
    | linked =>
      simp only [phaseStep, Option.some.injEq] at hp
      subst hp
      obtain ⟨hs, hsp⟩ := hrel
      subst hs hsp
      exact ⟨⟨[], rfl, rfl⟩, hnil⟩
    | synced => simp [phaseStep] at hp
    | unlinked => simp [phaseStep] at hp
    | ev e => simp [phaseStep] at hp
  | L =>
    obtain ⟨m, hs, hsp⟩ := hrel
    subst hs hsp
    cases n with
    | linked => simp [phaseStep] at hp
    | synced =>
      simp only [phaseStep, Option.some.injEq] at hp
      subst hp
      exact ⟨⟨m, rfl, rfl⟩, hso⟩
    | unlinked =>
      simp only [phaseStep, Option.some.injEq] at hp
      subst hp
      cases ht : c.tou <;> simp [RelC, MClient.step, cRead, ht, specStep, hnil]
    | ev e =>
      simp only [phaseStep] at hp
      by_cases hok : evOk R c .L e = true
      · simp only [hok, ↓reduceIte, Option.some.injEq] at hp
        subst hp
        have hm : SortedK m := hso
        refine ⟨⟨applyMsg m e, ?_, rfl⟩, applyMsg_sorted m e hm⟩
        simp [MClient.step, cRead, cEvent_fst_sorted m e c.ews hm]
      · simp [hok] at hp
  | S =>
    obtain ⟨m, hs, hsp⟩ := hrel
    subst hs hsp
    cases n with
    | linked => simp [phaseStep] at hp
    | synced => simp [phaseStep] at hp
    | unlinked =>
      simp only [phaseStep, Option.some.injEq] at hp
      subst hp
      cases ht : c.tou <;> simp [RelC, MClient.step, cRead, ht, specStep, hnil]
    | ev e =>
      simp only [phaseStep] at hp
      by_cases hok : evOk R c .S e = true
      · simp only [hok, ↓reduceIte, Option.some.injEq] at hp
        subst hp
        have hm : SortedK m := hso
        refine ⟨⟨applyMsg m e, ?_, rfl⟩, applyMsg_sorted m e hm⟩
        simp [MClient.step, cRead, cEvent_fst_sorted m e true hm]
      · simp [hok] at hp
  | E => cases n <;> simp [phaseStep] at hp

theorem relC_run_all {R : Restr} (c : Cfg) (ns : List Note) {p p' : Phase}
    {sp : Option AMap} {s : MClient} (hrel : RelC p sp s) (hso : SortedK (sp.getD []))
    (hp : phaseRun R c p ns = some p') :
    RelC p' (specRun sp ns) (MClient.run c s (notes ns)).1 := by
  induction ns generalizing p sp s with
  | nil =>
    simp only [phaseRun, Option.some.injEq] at hp
    subst hp
    exact hrel
  | cons n r ih =>
    simp only [phaseRun] at hp
    cases hq : phaseStep R c p n with
    | none => simp [hq] at hp
    | some q =>
      simp only [hq] at hp
      have := relC_step_all c hrel hso hq
      exact ih this.1 this.2 hp

/-! ### hosted `take` / `drop` callbacks: one `on_remove` per removed entry, in key order, each with the map after it -/

theorem look_of_mem_sorted (m : AMap) (p : Int × Int) (h : SortedK m) (hp : p ∈ m) : look p.1 m = some p.2 := by
  induction m with
  | nil => cases hp
  | cons q r ih =>
    unfold SortedK at h
    simp only [keys, List.map_cons, List.pairwise_cons] at h
    obtain ⟨hq, hr⟩ := h
    rcases List.mem_cons.mp hp with hp | hp
    · subst hp; simp [look]
    · have hk : p.1 ∈ List.map (fun (x : Int × Int) => x.1) r := List.mem_map_of_mem (f := fun (x : Int × Int) => x.1) hp
      have := hq p.1 hk
      have hne : ¬ q.1 = p.1 := by omega
      simp only [look, hne, ↓reduceIte]
      exact ih hr hp

theorem removeSeq_snd_sorted (m b : AMap) (h : SortedK m) (hb : b.Sublist m) :
    (removeSeq true m (keys b)).2 = refRemoveSeq m b := by
  induction b generalizing m with
  | nil => rfl
  | cons p r ih =>
    have hp : p ∈ m := hb.subset (List.mem_cons_self)
    have hl := look_of_mem_sorted m p h hp
    have hbs : SortedK (p :: r) := sublist_sorted hb h
    unfold SortedK at hbs
    simp only [keys, List.map_cons, List.pairwise_cons] at hbs
    have hr : r.Sublist (del p.1 m) := by
      rw [del_eq_filter]
      have h1 : (r.filter fun q => !(q.1 == p.1)) = r := by
        rw [List.filter_eq_self]
        intro q hq
        have hk : q.1 ∈ List.map (fun (x : Int × Int) => x.1) r := List.mem_map_of_mem (f := fun (x : Int × Int) => x.1) hq
        have := hbs.1 q.1 hk
        have hne : ¬ q.1 = p.1 := by omega
        simp [hne]
      rw [← h1]
      exact List.Sublist.filter _ ((List.sublist_cons_self p r).trans hb)
    simp only [keys, List.map_cons, removeSeq, hl, refRemoveSeq, cbIf, ↓reduceIte, List.singleton_append]
    congr 1
    exact ih (del p.1 m) (del_sorted p.1 m h) hr

theorem sortedK_nil : SortedK ([] : AMap) := by simp [SortedK, keys]

theorem specCbs_not_synced (sp : Option AMap) (d : Bool) (n : Note) (hn : n ≠ .synced) (m : AMap) :
    Cb.syncedM m ∉ specCbs sp d n := by
  cases n with
  | linked => simp [specCbs]
  | synced => exact absurd rfl hn
  | unlinked => simp [specCbs]
  | ev e =>
    cases e with
    | update k v => cases d <;> simp [specCbs, cbIf]
    | remove k =>
      simp only [specCbs]
      cases look k (sp.getD []) <;> cases d <;> simp [cbIf]
    | clear => cases d <;> simp [specCbs, cbIf]
    | take n => simp [specCbs]
    | drop n => simp [specCbs]

/-! ### the mode switch (`drop-handle`, `close-out`, `stop`) -/

def MClientIO.run (c : Cfg) : MClientIO → List (IoOp MOp) → MClientIO × List (List Cb)
  | s, [] => (s, [])
  | s, op :: r => ((MClientIO.run c (s.step c op).1 r).1, (s.step c op).2 :: (MClientIO.run c (s.step c op).1 r).2)

def VClientIO.run (c : Cfg) : VClientIO → List (IoOp VOp) → VClientIO × List (List Cb)
  | s, [] => (s, [])
  | s, op :: r => ((VClientIO.run c (s.step c op).1 r).1, (s.step c op).2 :: (VClientIO.run c (s.step c op).1 r).2)

def MHostedIO.run (c : Cfg) : MHostedIO → List (IoOp MOp) → MHostedIO × List (List Cb)
  | s, [] => (s, [])
  | s, op :: r => ((MHostedIO.run c (s.step c op).1 r).1, (s.step c op).2 :: (MHostedIO.run c (s.step c op).1 r).2)

def VHostedIO.run (c : Cfg) : VHostedIO → List (IoOp VOp) → VHostedIO × List (List Cb)
  | s, [] => (s, [])
  | s, op :: r => ((VHostedIO.run c (s.step c op).1 r).1, (s.step c op).2 :: (VHostedIO.run c (s.step c op).1 r).2)

def MOp.isWrite : MOp → Bool
  | .write _ => true | _ => false

def VOp.isWrite : VOp → Bool
  | .write _ => true | _ => false

/-- The run in which the handle is never dropped (`d` = "already dropped"): the `drop-handle` ops disappear (as do
`close-out` / `stop`, which are not in the base alphabet) and so do the local writes after the first `drop-handle` — they
cannot happen any more. Everything else, in particular every notification, is kept. -/
def neverDropped {α : Type} (isWrite : α → Bool) : Bool → List (IoOp α) → List α
  | _, [] => []
  | _, .dropHandle :: r => neverDropped isWrite true r
  | d, .op o :: r => if d && isWrite o then neverDropped isWrite d r else o :: neverDropped isWrite d r
  | d, _ :: r => neverDropped isWrite d r

/-- the outputs of the ops that `neverDropped` keeps -/
def keptOuts {α : Type} (isWrite : α → Bool) : Bool → List (IoOp α) → List (List Cb) → List (List Cb)
  | _, .dropHandle :: r, _ :: os => keptOuts isWrite true r os
  | d, .op o :: r, x :: os => if d && isWrite o then keptOuts isWrite d r os else x :: keptOuts isWrite d r os
  | d, _ :: r, _ :: os => keptOuts isWrite d r os
  | _, _, _ => []

/-- the outputs of the ops that `neverDropped` removes -/
def removedOuts {α : Type} (isWrite : α → Bool) : Bool → List (IoOp α) → List (List Cb) → List (List Cb)
  | _, .dropHandle :: r, x :: os => x :: removedOuts isWrite true r os
  | d, .op o :: r, x :: os => if d && isWrite o then x :: removedOuts isWrite d r os else removedOuts isWrite d r os
  | d, _ :: r, x :: os => x :: removedOuts isWrite d r os
  | _, _, _ => []

theorem MClient.step_fin (c : Cfg) (s : MClient) (o : MOp) (h : s.fin.isSome = true) : s.step c o = (s, []) := by
  cases o <;> simp [MClient.step, h]

theorem VClient.step_fin (c : Cfg) (s : VClient) (o : VOp) (h : s.fin.isSome = true) : s.step c o = (s, []) := by
  cases o <;> simp [VClient.step, h]

/-- the `Mode::Read` loop of the map task does to a notification / decode error / EOF exactly what the read arm of the
`Mode::ReadWrite` loop does -/
theorem MClient.stepRO_eq (c : Cfg) (s : MClient) (o : MOp) (hf : s.fin.isSome = false) (hw : o.isWrite = false) :
    s.stepRO c o = s.step c o := by
  cases o <;> simp_all [MClient.stepRO, MClient.step, MOp.isWrite]

/-- the same for the value task — for *every* op (a local write changes nothing in either mode) -/
theorem VClient.stepRO_eq (c : Cfg) (s : VClient) (o : VOp) (hf : s.fin.isSome = false) :
    s.stepRO c o = s.step c o := by
  cases o <;> simp_all [VClient.stepRO, VClient.step]

/-- the handle has been dropped ⇒ the task is in `Mode::Read` (or has finished); not dropped ⇒ `Mode::ReadWrite` -/
def ModeInv (d : Bool) (s : MClientIO) : Prop :=
  (d = false → s.mode = .readWrite) ∧ (d = true → s.mode = .read ∨ s.core.fin.isSome = true)

theorem mclientIO_run_eq (c : Cfg) (ops : List (IoOp MOp)) (d : Bool) (s : MClientIO) (hinv : ModeInv d s) :
    (MClientIO.run c s ops).1.core = (MClient.run c s.core (neverDropped MOp.isWrite d ops)).1 ∧
    keptOuts MOp.isWrite d ops (MClientIO.run c s ops).2 = (MClient.run c s.core (neverDropped MOp.isWrite d ops)).2 ∧
    (∀ x ∈ removedOuts MOp.isWrite d ops (MClientIO.run c s ops).2, x = []) := by
  induction ops generalizing d s with
  | nil => simp [MClientIO.run, MClient.run, neverDropped, keptOuts, removedOuts]
  | cons op r ih =>
    cases op with
    | dropHandle =>
      have hinv' : ModeInv true (s.step c .dropHandle).1 := by
        refine ⟨fun h => (by cases h), fun _ => ?_⟩
        cases hf : s.core.fin.isSome <;> simp [MClientIO.step, hf]
      have := ih true _ hinv'
      have hcore : (s.step c .dropHandle).1.core = s.core := by
        cases hf : s.core.fin.isSome <;> simp [MClientIO.step, hf]
      have hout : (s.step c .dropHandle).2 = [] := by
        cases hf : s.core.fin.isSome <;> simp [MClientIO.step, hf]
      rw [hcore] at this
      simp only [MClientIO.run, neverDropped, keptOuts, removedOuts, List.mem_cons, hout]
      refine ⟨this.1, this.2.1, ?_⟩
      intro x hx
      rcases hx with hx | hx
      · exact hx
      · exact this.2.2 x hx
    | closeOut =>
      have h1 : s.step c .closeOut = (s, []) := rfl
      have := ih d s hinv
      simp only [MClientIO.run, neverDropped, keptOuts, removedOuts, List.mem_cons, h1]
      refine ⟨this.1, this.2.1, ?_⟩
      intro x hx
      rcases hx with hx | hx
      · exact hx
      · exact this.2.2 x hx
    | stop =>
      have h1 : s.step c .stop = (s, []) := rfl
      have := ih d s hinv
      simp only [MClientIO.run, neverDropped, keptOuts, removedOuts, List.mem_cons, h1]
      refine ⟨this.1, this.2.1, ?_⟩
      intro x hx
      rcases hx with hx | hx
      · exact hx
      · exact this.2.2 x hx
    | op o =>
      by_cases hskip : (d && o.isWrite) = true
      · -- a local write after the handle was dropped: nothing happens, and it is not part of the other run
        have hd : d = true := by cases d <;> simp_all
        have hw : o.isWrite = true := by cases d <;> simp_all
        have hstep : s.step c (.op o) = (s, []) := by
          cases hf : s.core.fin.isSome
          · have hm : s.mode = .read := by
              rcases hinv.2 hd with h | h
              · exact h
              · rw [hf] at h; cases h
            cases s with
            | mk core mode =>
              simp only at hm hf
              subst hm
              cases o <;> simp_all [MClientIO.step, MClient.stepRO, MOp.isWrite]
          · simp [MClientIO.step, hf]
        have := ih d s hinv
        simp only [MClientIO.run, neverDropped, keptOuts, removedOuts, hskip, ↓reduceIte, hstep, List.mem_cons]
        refine ⟨this.1, this.2.1, ?_⟩
        intro x hx
        rcases hx with hx | hx
        · exact hx
        · exact this.2.2 x hx
      · have hcore : (s.step c (.op o)).1.core = (s.core.step c o).1 ∧ (s.step c (.op o)).2 = (s.core.step c o).2 ∧
            (s.step c (.op o)).1.mode = s.mode := by
          cases hf : s.core.fin.isSome
          · cases hm : s.mode
            · simp [MClientIO.step, hf, hm]
            · have hd : d = true := by
                cases d
                · have := hinv.1 rfl; rw [hm] at this; cases this
                · rfl
              have hw : o.isWrite = false := by cases d <;> simp_all
              simp [MClientIO.step, hf, hm, MClient.stepRO_eq c s.core o hf hw]
          · simp [MClientIO.step, hf, MClient.step_fin c s.core o hf]
        have hinv' : ModeInv d (s.step c (.op o)).1 := by
          refine ⟨fun h => by rw [hcore.2.2]; exact hinv.1 h, fun h => ?_⟩
          rcases hinv.2 h with hm | hfin
          · left; rw [hcore.2.2]; exact hm
          · right; rw [hcore.1, MClient.step_fin c s.core o hfin]; exact hfin
        have := ih d _ hinv'
        rw [hcore.1] at this
        have hs : (d && o.isWrite) = false := by simpa using hskip
        simp only [MClientIO.run, neverDropped, keptOuts, removedOuts, hs, Bool.false_eq_true, ↓reduceIte, MClient.run,
          hcore.2.1]
        exact ⟨this.1, by rw [this.2.1], this.2.2⟩

theorem vclientIO_run_eq (c : Cfg) (ops : List (IoOp VOp)) (d : Bool) (s : VClientIO) :
    (VClientIO.run c s ops).1.core = (VClient.run c s.core (neverDropped VOp.isWrite d ops)).1 ∧
    keptOuts VOp.isWrite d ops (VClientIO.run c s ops).2 = (VClient.run c s.core (neverDropped VOp.isWrite d ops)).2 ∧
    (∀ x ∈ removedOuts VOp.isWrite d ops (VClientIO.run c s ops).2, x = []) := by
  induction ops generalizing d s with
  | nil => simp [VClientIO.run, VClient.run, neverDropped, keptOuts, removedOuts]
  | cons op r ih =>
    -- every op leaves `core` as `VClient.step` would (identity for the handle-side ops and for local writes)
    have hcoreop : ∀ o, (s.step c (.op o)).1.core = (s.core.step c o).1 ∧ (s.step c (.op o)).2 = (s.core.step c o).2 := by
      intro o
      cases hf : s.core.fin.isSome
      · cases hm : s.mode
        · cases o <;> simp [VClientIO.step, hf, hm, VClient.step] <;> split <;> simp
        · simp [VClientIO.step, hf, hm, VClient.stepRO_eq c s.core o hf]
      · simp [VClientIO.step, hf, VClient.step_fin c s.core o hf]
    have hside : ∀ op : IoOp VOp, (∀ o, op ≠ .op o) → (s.step c op).1.core = s.core ∧ (s.step c op).2 = [] := by
      intro op hne
      cases op with
      | op o => exact absurd rfl (hne o)
      | dropHandle => cases hf : s.core.fin.isSome <;> simp [VClientIO.step, hf]
      | closeOut => cases hf : s.core.fin.isSome <;> simp [VClientIO.step, hf]
      | stop => simp [VClientIO.step]
    cases op with
    | dropHandle =>
      obtain ⟨h1, h2⟩ := hside .dropHandle (fun o h => by cases h)
      have := ih true (s.step c .dropHandle).1
      rw [h1] at this
      simp only [VClientIO.run, neverDropped, keptOuts, removedOuts, List.mem_cons, h2]
      refine ⟨this.1, this.2.1, ?_⟩
      intro x hx
      rcases hx with hx | hx
      · exact hx
      · exact this.2.2 x hx
    | closeOut =>
      obtain ⟨h1, h2⟩ := hside .closeOut (fun o h => by cases h)
      have := ih d (s.step c .closeOut).1
      rw [h1] at this
      simp only [VClientIO.run, neverDropped, keptOuts, removedOuts, List.mem_cons, h2]
      refine ⟨this.1, this.2.1, ?_⟩
      intro x hx
      rcases hx with hx | hx
      · exact hx
      · exact this.2.2 x hx
    | stop =>
      obtain ⟨h1, h2⟩ := hside .stop (fun o h => by cases h)
      have := ih d (s.step c .stop).1
      rw [h1] at this
      simp only [VClientIO.run, neverDropped, keptOuts, removedOuts, List.mem_cons, h2]
      refine ⟨this.1, this.2.1, ?_⟩
      intro x hx
      rcases hx with hx | hx
      · exact hx
      · exact this.2.2 x hx
    | op o =>
      obtain ⟨h1, h2⟩ := hcoreop o
      have := ih d (s.step c (.op o)).1
      rw [h1] at this
      by_cases hskip : (d && o.isWrite) = true
      · have hw : o.isWrite = true := by cases d <;> simp_all
        have hid : s.core.step c o = (s.core, []) := by
          cases o <;> simp_all [VOp.isWrite, VClient.step]
        rw [hid] at this h2
        simp only [VClientIO.run, neverDropped, keptOuts, removedOuts, hskip, ↓reduceIte, List.mem_cons, h2]
        refine ⟨this.1, this.2.1, ?_⟩
        intro x hx
        rcases hx with hx | hx
        · exact hx
        · exact this.2.2 x hx
      · have hs : (d && o.isWrite) = false := by simpa using hskip
        simp only [VClientIO.run, neverDropped, keptOuts, removedOuts, hs, Bool.false_eq_true, ↓reduceIte, VClient.run, h2]
        exact ⟨this.1, by rw [this.2.1], this.2.2⟩

/-! #### dropping the handle at one point of a notification sequence -/

def ionotes (ns : List Note) : List (IoOp MOp) := ns.map fun n => .op (.note n)
def iovnotes (ns : List VNote) : List (IoOp VOp) := ns.map fun n => .op (.note n)

theorem MClient.run_append (c : Cfg) (a b : List MOp) (s : MClient) :
    MClient.run c s (a ++ b) =
      ((MClient.run c (MClient.run c s a).1 b).1, (MClient.run c s a).2 ++ (MClient.run c (MClient.run c s a).1 b).2) := by
  induction a generalizing s with
  | nil => simp [MClient.run]
  | cons o r ih => simp [MClient.run, ih]

theorem VClient.run_append (c : Cfg) (a b : List VOp) (s : VClient) :
    VClient.run c s (a ++ b) =
      ((VClient.run c (VClient.run c s a).1 b).1, (VClient.run c s a).2 ++ (VClient.run c (VClient.run c s a).1 b).2) := by
  induction a generalizing s with
  | nil => simp [VClient.run]
  | cons o r ih => simp [VClient.run, ih]

theorem MClientIO.run_append (c : Cfg) (a b : List (IoOp MOp)) (s : MClientIO) :
    MClientIO.run c s (a ++ b) =
      ((MClientIO.run c (MClientIO.run c s a).1 b).1,
        (MClientIO.run c s a).2 ++ (MClientIO.run c (MClientIO.run c s a).1 b).2) := by
  induction a generalizing s with
  | nil => simp [MClientIO.run]
  | cons o r ih => simp [MClientIO.run, ih]

theorem VClientIO.run_append (c : Cfg) (a b : List (IoOp VOp)) (s : VClientIO) :
    VClientIO.run c s (a ++ b) =
      ((VClientIO.run c (VClientIO.run c s a).1 b).1,
        (VClientIO.run c s a).2 ++ (VClientIO.run c (VClientIO.run c s a).1 b).2) := by
  induction a generalizing s with
  | nil => simp [VClientIO.run]
  | cons o r ih => simp [VClientIO.run, ih]

theorem MClient.run_length (c : Cfg) (ops : List MOp) (s : MClient) : (MClient.run c s ops).2.length = ops.length := by
  induction ops generalizing s with
  | nil => rfl
  | cons o r ih => simp [MClient.run, ih]

theorem VClient.run_length (c : Cfg) (ops : List VOp) (s : VClient) : (VClient.run c s ops).2.length = ops.length := by
  induction ops generalizing s with
  | nil => rfl
  | cons o r ih => simp [VClient.run, ih]

/-- a notification is processed in either mode as by the `Mode::ReadWrite` read arm, and the mode does not change -/
theorem MClientIO.step_note (c : Cfg) (s : MClientIO) (n : Note) :
    (s.step c (.op (.note n))).1.core = (s.core.step c (.note n)).1 ∧
    (s.step c (.op (.note n))).2 = (s.core.step c (.note n)).2 ∧
    (s.step c (.op (.note n))).1.mode = s.mode := by
  cases hf : s.core.fin.isSome
  · cases hm : s.mode
    · simp [MClientIO.step, hf, hm]
    · simp [MClientIO.step, hf, hm, MClient.stepRO_eq c s.core (.note n) hf rfl]
  · simp [MClientIO.step, hf, MClient.step_fin c s.core (.note n) hf]

theorem VClientIO.step_note (c : Cfg) (s : VClientIO) (n : VNote) :
    (s.step c (.op (.note n))).1.core = (s.core.step c (.note n)).1 ∧
    (s.step c (.op (.note n))).2 = (s.core.step c (.note n)).2 := by
  cases hf : s.core.fin.isSome
  · cases hm : s.mode
    · simp [VClientIO.step, hf, hm]
    · simp [VClientIO.step, hf, hm, VClient.stepRO_eq c s.core (.note n) hf]
  · simp [VClientIO.step, hf, VClient.step_fin c s.core (.note n) hf]

theorem mclientIO_run_notes (c : Cfg) (ns : List Note) (s : MClientIO) :
    (MClientIO.run c s (ionotes ns)).1.core = (MClient.run c s.core (notes ns)).1 ∧
    (MClientIO.run c s (ionotes ns)).2 = (MClient.run c s.core (notes ns)).2 := by
  induction ns generalizing s with
  | nil => simp [ionotes, notes, MClientIO.run, MClient.run]
  | cons n r ih =>
    obtain ⟨h1, h2, _⟩ := MClientIO.step_note c s n
    have := ih (s.step c (.op (.note n))).1
    rw [h1] at this
    simp only [ionotes, notes, List.map_cons, MClientIO.run, MClient.run, h2] at this ⊢
    exact ⟨this.1, by rw [this.2]⟩

theorem vclientIO_run_notes (c : Cfg) (ns : List VNote) (s : VClientIO) :
    (VClientIO.run c s (iovnotes ns)).1.core = (VClient.run c s.core (vnotes ns)).1 ∧
    (VClientIO.run c s (iovnotes ns)).2 = (VClient.run c s.core (vnotes ns)).2 := by
  induction ns generalizing s with
  | nil => simp [iovnotes, vnotes, VClientIO.run, VClient.run]
  | cons n r ih =>
    obtain ⟨h1, h2⟩ := VClientIO.step_note c s n
    have := ih (s.step c (.op (.note n))).1
    rw [h1] at this
    simp only [iovnotes, vnotes, List.map_cons, VClientIO.run, VClient.run, h2] at this ⊢
    exact ⟨this.1, by rw [this.2]⟩

/-! #### hosted channels -/

theorem mhostedIO_run_eq (c : Cfg) (ops : List (IoOp MOp)) (d : Bool) (s : MHostedIO)
    (hno : ∀ o ∈ ops, o ≠ .op .reconnect ∧ o ≠ .stop) :
    (MHostedIO.run c s ops).1.core = (MHosted.run c s.core (neverDropped MOp.isWrite d ops)).1 ∧
    keptOuts MOp.isWrite d ops (MHostedIO.run c s ops).2 = (MHosted.run c s.core (neverDropped MOp.isWrite d ops)).2 ∧
    (∀ x ∈ removedOuts MOp.isWrite d ops (MHostedIO.run c s ops).2, x = []) := by
  induction ops generalizing d s with
  | nil => simp [MHostedIO.run, MHosted.run, neverDropped, keptOuts, removedOuts]
  | cons op r ih =>
    have hno' : ∀ o ∈ r, o ≠ .op .reconnect ∧ o ≠ .stop := fun o ho => hno o (List.mem_cons_of_mem _ ho)
    have hside : ∀ d' : Bool, (op = .dropHandle ∨ op = .closeOut) → (s.step c op).1.core = s.core ∧ (s.step c op).2 = [] := by
      intro _ h
      rcases h with h | h <;> subst h
      · cases hf : s.core.fin.isSome <;> simp [MHostedIO.step, hf]
      · simp [MHostedIO.step]
    cases op with
    | dropHandle =>
      obtain ⟨h1, h2⟩ := hside d (Or.inl rfl)
      have := ih true (s.step c .dropHandle).1 hno'
      rw [h1] at this
      simp only [MHostedIO.run, neverDropped, keptOuts, removedOuts, List.mem_cons, h2]
      refine ⟨this.1, this.2.1, ?_⟩
      intro x hx
      rcases hx with hx | hx
      · exact hx
      · exact this.2.2 x hx
    | closeOut =>
      obtain ⟨h1, h2⟩ := hside d (Or.inr rfl)
      have := ih d (s.step c .closeOut).1 hno'
      rw [h1] at this
      simp only [MHostedIO.run, neverDropped, keptOuts, removedOuts, List.mem_cons, h2]
      refine ⟨this.1, this.2.1, ?_⟩
      intro x hx
      rcases hx with hx | hx
      · exact hx
      · exact this.2.2 x hx
    | stop => exact absurd rfl (hno .stop (List.mem_cons_self ..)).2
    | op o =>
      have hne : o ≠ .reconnect := fun h => (hno (.op o) (List.mem_cons_self ..)).1 (by rw [h])
      have hcore : (s.step c (.op o)).1.core = (s.core.step c o).1 ∧ (s.step c (.op o)).2 = (s.core.step c o).2 := by
        cases o <;> simp_all [MHostedIO.step]
      have := ih d (s.step c (.op o)).1 hno'
      rw [hcore.1] at this
      by_cases hskip : (d && o.isWrite) = true
      · have hid : s.core.step c o = (s.core, []) := by
          cases o <;> simp_all [MOp.isWrite, MHosted.step]
        rw [hid] at this hcore
        simp only [MHostedIO.run, neverDropped, keptOuts, removedOuts, hskip, ↓reduceIte, List.mem_cons, hcore.2]
        refine ⟨this.1, this.2.1, ?_⟩
        intro x hx
        rcases hx with hx | hx
        · exact hx
        · exact this.2.2 x hx
      · have hs : (d && o.isWrite) = false := by simpa using hskip
        simp only [MHostedIO.run, neverDropped, keptOuts, removedOuts, hs, Bool.false_eq_true, ↓reduceIte, MHosted.run,
          hcore.2]
        exact ⟨this.1, by rw [this.2.1], this.2.2⟩

theorem vhostedIO_run_eq (c : Cfg) (ops : List (IoOp VOp)) (d : Bool) (s : VHostedIO)
    (hno : ∀ o ∈ ops, o ≠ .op .reconnect ∧ o ≠ .stop) :
    (VHostedIO.run c s ops).1.core = (VHosted.run c s.core (neverDropped VOp.isWrite d ops)).1 ∧
    keptOuts VOp.isWrite d ops (VHostedIO.run c s ops).2 = (VHosted.run c s.core (neverDropped VOp.isWrite d ops)).2 ∧
    (∀ x ∈ removedOuts VOp.isWrite d ops (VHostedIO.run c s ops).2, x = []) := by
  induction ops generalizing d s with
  | nil => simp [VHostedIO.run, VHosted.run, neverDropped, keptOuts, removedOuts]
  | cons op r ih =>
    have hno' : ∀ o ∈ r, o ≠ .op .reconnect ∧ o ≠ .stop := fun o ho => hno o (List.mem_cons_of_mem _ ho)
    have hside : ∀ d' : Bool, (op = .dropHandle ∨ op = .closeOut) → (s.step c op).1.core = s.core ∧ (s.step c op).2 = [] := by
      intro _ h
      rcases h with h | h <;> subst h
      · cases hf : s.core.fin.isSome <;> simp [VHostedIO.step, hf]
      · simp [VHostedIO.step]
    cases op with
    | dropHandle =>
      obtain ⟨h1, h2⟩ := hside d (Or.inl rfl)
      have := ih true (s.step c .dropHandle).1 hno'
      rw [h1] at this
      simp only [VHostedIO.run, neverDropped, keptOuts, removedOuts, List.mem_cons, h2]
      refine ⟨this.1, this.2.1, ?_⟩
      intro x hx
      rcases hx with hx | hx
      · exact hx
      · exact this.2.2 x hx
    | closeOut =>
      obtain ⟨h1, h2⟩ := hside d (Or.inr rfl)
      have := ih d (s.step c .closeOut).1 hno'
      rw [h1] at this
      simp only [VHostedIO.run, neverDropped, keptOuts, removedOuts, List.mem_cons, h2]
      refine ⟨this.1, this.2.1, ?_⟩
      intro x hx
      rcases hx with hx | hx
      · exact hx
      · exact this.2.2 x hx
    | stop => exact absurd rfl (hno .stop (List.mem_cons_self ..)).2
    | op o =>
      have hne : o ≠ .reconnect := fun h => (hno (.op o) (List.mem_cons_self ..)).1 (by rw [h])
      have hcore : (s.step c (.op o)).1.core = (s.core.step c o).1 ∧ (s.step c (.op o)).2 = (s.core.step c o).2 := by
        cases o <;> simp_all [VHostedIO.step]
      have := ih d (s.step c (.op o)).1 hno'
      rw [hcore.1] at this
      by_cases hskip : (d && o.isWrite) = true
      · have hid : s.core.step c o = (s.core, []) := by
          cases o <;> simp_all [VOp.isWrite, VHosted.step]
        rw [hid] at this hcore
        simp only [VHostedIO.run, neverDropped, keptOuts, removedOuts, hskip, ↓reduceIte, List.mem_cons, hcore.2]
        refine ⟨this.1, this.2.1, ?_⟩
        intro x hx
        rcases hx with hx | hx
        · exact hx
        · exact this.2.2 x hx
      · have hs : (d && o.isWrite) = false := by simpa using hskip
        simp only [VHostedIO.run, neverDropped, keptOuts, removedOuts, hs, Bool.false_eq_true, ↓reduceIte, VHosted.run,
          hcore.2]
        exact ⟨this.1, by rw [this.2.1], this.2.2⟩

end SwimVerif.Dl
