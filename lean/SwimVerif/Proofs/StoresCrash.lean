/-
C13: crash cuts of the RocksDB store model.

Trusted (RocksDB's WAL, not modelled): every single RocksDB write (`put_cf`, `delete_cf`, `delete_range_cf`, `merge_cf`)
is atomic and durable once it has returned, and writes become durable in program order.  Under that assumption the
database directory found after a `SIGKILL` is the state after a *prefix of the RocksDB writes* of the op in flight.
Every `NodePersistence` method of the RocksDB store issues at most one write, except `id_for` of a name not yet stored
(`KeyStore::id_for`: `merge_keyspace(counter, STEP)` and then `put_keyspace(lane/<uri>/<name>, id)`, two separate
unbatched writes).  `crashCuts` enumerates these cuts; `recover` is the re-opened directory.
-/
import SwimVerif.Proofs.Stores

set_option linter.unusedVariables false
set_option linter.unusedSimpArgs false
namespace SwimVerif.Store.Rocks
open SwimVerif.Generated.Store

/-- `KeyStore::id_for` of a new name killed between its two writes: the merged counter is durable, the name is not. -/
def midIdFor (pl : Plane) : Plane :=
  { pl with counter := .some (pl.counter.getD counterInitial + counterStep) }

/-- The cuts of `id_for name` through handle `(p, uri)`. -/
def idForCuts (s : St) (slot p : Nat) (uri name : Bytes) : List St :=
  match aget (getPlane s p).lanes (laneKey uri name) with
  | .some _ => [s]
  | .none => [s, setPlane s p (midIdFor (getPlane s p)), (step s (.data slot (.idFor name))).1]

/-- The states (process memory included; it is discarded by `recover`) the store can be in when the process is
killed while `op` is in flight: `s` after a prefix of the op's RocksDB writes. -/
def crashCuts (s : St) : Op → List St
  | .data slot (.idFor name) =>
    match aget s.slots slot with
    | .some (p, uri) => idForCuts s slot p uri name
    | .none => [s]
  | op => [s, (step s op).1]

/-- The directory opened again after the kill: durable maps as they are, no handles, `KeyStore` counter not loaded. -/
def recover (s : St) : St := (step s .reopen).1

/-- One id allocated and never given to a name. -/
def burn (t : Spec) : Spec := { t with next := t.next + 1 }

theorem abs_midIdFor (pl : Plane) : abs (midIdFor pl) = burn (abs pl) := rfl

theorem absSt_recover (s : St) : absSt (recover s) = (sstep (absSt s) .reopen).1 := rfl

theorem absSt_setPlane (s : St) (p : Nat) (pl : Plane) : absSt (setPlane s p pl) = sset (absSt s) p (abs pl) := by
  by_cases hp : p = 0 <;> simp [setPlane, sset, absSt, hp]

theorem abs_getPlane (s : St) (p : Nat) : abs (getPlane s p) = sget (absSt s) p := by
  by_cases hp : p = 0 <;> simp [getPlane, sget, absSt, hp]

theorem srunOut_append (a b : List Op) : ∀ s : SSt, (srunOut s (a ++ b)).1 = (srunOut (srunOut s a).1 b).1 := by
  induction a with
  | nil => intro s; rfl
  | cons o os ih => intro s; simp only [List.cons_append, srunOut]; exact ih _

theorem srunOut_single (s : SSt) (o : Op) : (srunOut s [o]).1 = (sstep s o).1 := rfl

theorem srunOut_two (s : SSt) (o o' : Op) : (srunOut s [o, o']).1 = (sstep (sstep s o).1 o').1 := rfl

theorem inv_midIdFor {pl : Plane} (h : Inv pl) : Inv { midIdFor pl with count := none } :=
  ⟨h.sorted, h.wf, by intro c hc; simp at hc⟩

theorem stInv_recover {s : St} (h : StInv s) : StInv (recover s) :=
  ⟨inv_close h.i0, inv_close h.i1, by intro sl q u hq; simp [recover, step, aget] at hq⟩

theorem recover_setPlane_inv {s : St} (h : StInv s) (p : Nat) :
    StInv (recover (setPlane s p (midIdFor (getPlane s p)))) := by
  by_cases hp : p = 0
  · subst hp
    exact ⟨inv_midIdFor h.i0, inv_close h.i1, by intro sl q u hq; simp [recover, step, aget] at hq⟩
  · refine ⟨?_, ?_, by intro sl q u hq; simp [recover, step, aget] at hq⟩
    · simpa [recover, step, setPlane, hp] using inv_close h.i0
    · simpa [recover, step, setPlane, getPlane, hp] using inv_midIdFor h.i1

/-- The three shapes of a recovered state, relative to the state `s` before the op in flight. -/
theorem crashCuts_cases (s : St) (hinv : StInv s) (op : Op) (hop : Op.idOk op) (x : St) (hx : x ∈ crashCuts s op) :
    StInv (recover x) ∧
    (absSt (recover x) = (sstep (absSt s) .reopen).1 ∨
     absSt (recover x) = (sstep (sstep (absSt s) op).1 .reopen).1 ∨
     ∃ slot p uri name, op = .data slot (.idFor name) ∧ aget s.slots slot = some (p, uri) ∧
       (sget (absSt s) p).ids (laneKey uri name) = none ∧
       absSt (recover x) = (sstep (sset (absSt s) p (burn (sget (absSt s) p))) .reopen).1) := by
  have hstep := step_refines s hinv op hop
  have two : x = s ∨ x = (step s op).1 →
      StInv (recover x) ∧
      (absSt (recover x) = (sstep (absSt s) .reopen).1 ∨
       absSt (recover x) = (sstep (sstep (absSt s) op).1 .reopen).1 ∨
       ∃ slot p uri name, op = .data slot (.idFor name) ∧ aget s.slots slot = some (p, uri) ∧
         (sget (absSt s) p).ids (laneKey uri name) = none ∧
         absSt (recover x) = (sstep (sset (absSt s) p (burn (sget (absSt s) p))) .reopen).1) := by
    intro hx
    rcases hx with rfl | rfl
    · exact ⟨stInv_recover hinv, Or.inl (absSt_recover _)⟩
    · exact ⟨stInv_recover hstep.1, Or.inr (Or.inl (by rw [absSt_recover, hstep.2.1]))⟩
  cases op with
  | opn slot p uri => exact two (by simpa [crashCuts] using hx)
  | poll slot => exact two (by simpa [crashCuts] using hx)
  | drp slot => exact two (by simpa [crashCuts] using hx)
  | reopen => exact two (by simpa [crashCuts] using hx)
  | data slot d =>
    cases d with
    | idFor name =>
      simp only [crashCuts] at hx
      rcases hs : aget s.slots slot with _ | ⟨p, uri⟩
      · simp only [hs] at hx
        exact two (Or.inl (by simpa using hx))
      · simp only [hs, idForCuts] at hx
        rcases hl : aget (getPlane s p).lanes (laneKey uri name) with _ | n
        · simp only [hl, List.mem_cons, List.not_mem_nil, or_false] at hx
          rcases hx with rfl | rfl | rfl
          · exact two (Or.inl rfl)
          · refine ⟨recover_setPlane_inv hinv p, Or.inr (Or.inr ⟨slot, p, uri, name, rfl, hs, ?_, ?_⟩)⟩
            · rw [← abs_getPlane]; exact hl
            · rw [absSt_recover, absSt_setPlane, abs_midIdFor, abs_getPlane]
          · exact two (Or.inr rfl)
        · simp only [hl] at hx
          exact two (Or.inl (by simpa using hx))
    | get id => exact two (by simpa [crashCuts] using hx)
    | put id v => exact two (by simpa [crashCuts] using hx)
    | del id => exact two (by simpa [crashCuts] using hx)
    | upd id k v => exact two (by simpa [crashCuts] using hx)
    | rem id k => exact two (by simpa [crashCuts] using hx)
    | clr id => exact two (by simpa [crashCuts] using hx)
    | read id => exact two (by simpa [crashCuts] using hx)

/-- Everything a client can read back (names ↦ ids, values, maps, open handles): all of a specification state but the
allocation counters. -/
def SameData (a b : SSt) : Prop :=
  a.p0.ids = b.p0.ids ∧ a.p0.vals = b.p0.vals ∧ a.p0.maps = b.p0.maps ∧
  a.p1.ids = b.p1.ids ∧ a.p1.vals = b.p1.vals ∧ a.p1.maps = b.p1.maps ∧ a.slots = b.slots

theorem sameData_refl (a : SSt) : SameData a a := ⟨rfl, rfl, rfl, rfl, rfl, rfl, rfl⟩

theorem sameData_burn (a : SSt) (p : Nat) :
    SameData (sstep (sset a p (burn (sget a p))) .reopen).1 (sstep a .reopen).1 := by
  by_cases hp : p = 0 <;> simp [SameData, sstep, sset, sget, burn, hp]

theorem idsInv_burn {t : Spec} (h : IdsInv 1 t) : IdsInv 1 (burn t) :=
  ⟨fun nm n hn => by have := h.bound nm n hn; simp only [burn]; omega, h.inj⟩

end SwimVerif.Store.Rocks
