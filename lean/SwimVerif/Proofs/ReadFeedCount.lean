/-
C20, command counters of the read task (`Model/ReadFeed.lean`): the lane reporters' and the aggregate reporter's
`command_count` under every interleaving of envelopes, idle flushes, agent reads and snapshots.
-/
import SwimVerif.Proofs.ReadFeed

set_option linter.unusedVariables false
set_option linter.unusedSimpArgs false
namespace SwimVerif.RF

def isCmd : Env → Bool
  | .command _ => true
  | _ => false

/-- number of command envelopes for lane `l` among envelopes `(remote, lane, op)` -/
def cmdsFor (l : Nat) (ms : List (Nat × Msg)) : Nat :=
  (ms.filter (fun p => decide (p.2.1 = l) && isCmd p.2.2)).length

/-- number of command envelopes for existing lanes -/
def cmdsKnown (c : Cfg) (ms : List (Nat × Msg)) : Nat :=
  (ms.filter (fun p => c.known.contains p.2.1 && isCmd p.2.2)).length

theorem length_filter_single {α : Type} (p : α → Bool) (x : α) :
    ([x].filter p).length = if p x = true then 1 else 0 := by
  cases h : p x <;> simp [List.filter, h]

theorem length_filter_cons {α : Type} (p : α → Bool) (x : α) (xs : List α) :
    ((x :: xs).filter p).length = (if p x = true then 1 else 0) + (xs.filter p).length := by
  cases h : p x <;> simp [List.filter, h]; omega

theorem cmdsFor_snoc (l' : Nat) (ms : List (Nat × Msg)) (r l : Nat) (e : Env) :
    cmdsFor l' (ms ++ [(r, l, e)]) = cmdsFor l' ms + (if (decide (l = l') && isCmd e) = true then 1 else 0) := by
  unfold cmdsFor
  rw [List.filter_append, List.length_append, length_filter_single]

theorem cmdsKnown_snoc (c : Cfg) (ms : List (Nat × Msg)) (r l : Nat) (e : Env) :
    cmdsKnown c (ms ++ [(r, l, e)]) = cmdsKnown c ms + (if (c.known.contains l && isCmd e) = true then 1 else 0) := by
  unfold cmdsKnown
  rw [List.filter_append, List.length_append, length_filter_single]

/-! ### what each piece does to the counters -/

@[simp] theorem flushLane_laneCount (s : St) : (flushLane s).laneCount = s.laneCount := by
  unfold flushLane; cases h : s.needsFlush <;> rfl
@[simp] theorem flushLane_aggCount (s : St) : (flushLane s).aggCount = s.aggCount := by
  unfold flushLane; cases h : s.needsFlush <;> rfl
@[simp] theorem flushLane_laneSnap (s : St) : (flushLane s).laneSnap = s.laneSnap := by
  unfold flushLane; cases h : s.needsFlush <;> rfl
@[simp] theorem flushLane_aggSnap (s : St) : (flushLane s).aggSnap = s.aggSnap := by
  unfold flushLane; cases h : s.needsFlush <;> rfl

@[simp] theorem switchTo_laneCount (s : St) (l : Nat) : (switchTo s l).laneCount = s.laneCount := by
  unfold switchTo; cases h : s.needsFlush with
  | none => rfl
  | some i => by_cases hi : i = l <;> simp [hi]
@[simp] theorem switchTo_aggCount (s : St) (l : Nat) : (switchTo s l).aggCount = s.aggCount := by
  unfold switchTo; cases h : s.needsFlush with
  | none => rfl
  | some i => by_cases hi : i = l <;> simp [hi]
@[simp] theorem switchTo_laneSnap (s : St) (l : Nat) : (switchTo s l).laneSnap = s.laneSnap := by
  unfold switchTo; cases h : s.needsFlush with
  | none => rfl
  | some i => by_cases hi : i = l <;> simp [hi]
@[simp] theorem switchTo_aggSnap (s : St) (l : Nat) : (switchTo s l).aggSnap = s.aggSnap := by
  unfold switchTo; cases h : s.needsFlush with
  | none => rfl
  | some i => by_cases hi : i = l <;> simp [hi]

/-- **A command for an existing lane is counted once by the lane and once by the aggregate — accepted or rejected.** -/
theorem handleCommand_counts (c : Cfg) (s : St) (r l b : Nat) :
    (handleCommand c s r l b).laneCount = upd s.laneCount l (s.laneCount l + 1) ∧
    (handleCommand c s r l b).aggCount = s.aggCount + 1 ∧
    (handleCommand c s r l b).laneSnap = s.laneSnap ∧ (handleCommand c s r l b).aggSnap = s.aggSnap := by
  unfold handleCommand
  by_cases hr : c.rejects l (.command b) = true
  · rw [if_pos hr]; exact ⟨rfl, rfl, rfl, rfl⟩
  · rw [if_neg hr]; exact ⟨rfl, rfl, rfl, rfl⟩

theorem handle_counts (c : Cfg) (s : St) (r l : Nat) (e : Env) :
    (∀ l', (handle c s r l e).laneCount l' =
      s.laneCount l' + (if (c.known.contains l && (decide (l = l') && isCmd e)) = true then 1 else 0)) ∧
    (handle c s r l e).aggCount = s.aggCount + (if (c.known.contains l && isCmd e) = true then 1 else 0) ∧
    (handle c s r l e).laneSnap = s.laneSnap ∧ (handle c s r l e).aggSnap = s.aggSnap := by
  unfold handle
  by_cases hk : c.known.contains l = true
  · rw [if_pos hk]
    cases e with
    | link => simp [isCmd]
    | unlink => simp [isCmd]
    | sync => simp [isCmd]
    | command b =>
      obtain ⟨h1, h2, h3, h4⟩ := handleCommand_counts c (switchTo s l) r l b
      simp only []
      refine ⟨fun l' => ?_, ?_, ?_, ?_⟩
      · rw [h1]
        by_cases hl : l' = l
        · subst hl; simp only [upd_same, switchTo_laneCount, hk, isCmd, decide_true, Bool.and_self, if_true]
        · have hl2 : ¬ l = l' := fun x => hl x.symm
          simp [upd_ne _ _ hl, hl2]
      · rw [h2]; simp only [switchTo_aggCount, hk, isCmd, Bool.and_self, if_true]
      · rw [h3]; simp
      · rw [h4]; simp
  · rw [if_neg hk]
    have hk' : c.known.contains l = false := by
      cases hx : c.known.contains l with
      | false => rfl
      | true => exact absurd hx hk
    cases e <;> simp only [hk', Bool.false_and, flushLane_laneCount, flushLane_aggCount, flushLane_laneSnap,
      flushLane_aggSnap] <;> simp

/-! ### the invariant -/

structure CInv (c : Cfg) (s : St) : Prop where
  lane : ∀ l, c.known.contains l = true → s.laneSnap l + s.laneCount l = cmdsFor l s.picked
  other : ∀ l, c.known.contains l = false → s.laneSnap l + s.laneCount l = 0
  agg : s.aggSnap + s.aggCount = cmdsKnown c s.picked

theorem cinv_init (c : Cfg) : CInv c {} :=
  ⟨fun l _ => by simp [cmdsFor], fun l _ => rfl, by simp [cmdsKnown]⟩

theorem cinv_step (c : Cfg) {s : St} (h : CInv c s) (op : Op) : CInv c (step c s op) := by
  cases op with
  | send r l e => exact ⟨h.lane, h.other, h.agg⟩
  | pick r =>
    simp only [step]
    cases hi : s.inbox r with
    | nil => simpa [hi] using h
    | cons m rest =>
      simp only []
      obtain ⟨l, e⟩ := m
      obtain ⟨k1, k2, k3, k4⟩ :=
        handle_counts c { s with inbox := upd s.inbox r rest, picked := s.picked ++ [(r, (l, e))] } r l e
      refine ⟨fun l' hk => ?_, fun l' hk => ?_, ?_⟩
      · rw [handle_picked, k1 l', k3]
        show s.laneSnap l' + (s.laneCount l' + _) = cmdsFor l' (s.picked ++ [(r, l, e)])
        rw [cmdsFor_snoc, ← h.lane l' hk, Nat.add_assoc]
        by_cases hl : l = l'
        · subst hl; simp only [hk, Bool.true_and]
        · simp [hl]
      · rw [k1 l', k3]
        show s.laneSnap l' + (s.laneCount l' + _) = 0
        have h0 := h.other l' hk
        have hz : (c.known.contains l && (decide (l = l') && isCmd e)) = false := by
          by_cases hl : l = l'
          · subst hl; simp only [hk, Bool.false_and]
          · simp [hl]
        rw [hz]; simpa using h0
      · rw [handle_picked, k2, k4]
        show s.aggSnap + (s.aggCount + _) = cmdsKnown c (s.picked ++ [(r, l, e)])
        rw [cmdsKnown_snoc, ← h.agg, Nat.add_assoc]
  | idle =>
    refine ⟨fun l hk => ?_, fun l hk => ?_, ?_⟩
    · show (flushLane s).laneSnap l + (flushLane s).laneCount l = cmdsFor l (flushLane s).picked
      simp only [flushLane_laneSnap, flushLane_laneCount, flushLane_picked]; exact h.lane l hk
    · show (flushLane s).laneSnap l + (flushLane s).laneCount l = 0
      simp only [flushLane_laneSnap, flushLane_laneCount]; exact h.other l hk
    · show (flushLane s).aggSnap + (flushLane s).aggCount = cmdsKnown c (flushLane s).picked
      simp only [flushLane_aggSnap, flushLane_aggCount, flushLane_picked]; exact h.agg
  | take l =>
    simp only [step]
    cases hc : (s.sender l).chan with
    | nil => simpa [hc] using h
    | cons q rest => exact ⟨h.lane, h.other, h.agg⟩
  | snapLane l =>
    refine ⟨fun l' hk => ?_, fun l' hk => ?_, h.agg⟩
    · show upd s.laneSnap l (s.laneSnap l + s.laneCount l) l' + upd s.laneCount l 0 l' = cmdsFor l' s.picked
      rw [← h.lane l' hk]
      by_cases hl : l' = l
      · subst hl; simp
      · simp [upd_ne _ _ hl]
    · show upd s.laneSnap l (s.laneSnap l + s.laneCount l) l' + upd s.laneCount l 0 l' = 0
      have h0 := h.other l' hk
      by_cases hl : l' = l
      · subst hl; simpa using h0
      · simpa [upd_ne _ _ hl] using h0
  | snapAgg =>
    refine ⟨h.lane, h.other, ?_⟩
    show s.aggSnap + s.aggCount + 0 = cmdsKnown c s.picked
    rw [Nat.add_zero]; exact h.agg

theorem cinv_run (c : Cfg) (ops : List Op) : ∀ (s : St), CInv c s → CInv c (run c s ops) := by
  induction ops with
  | nil => intro s h; exact h
  | cons op rest ih => intro s h; exact ih _ (cinv_step c h op)

/-! ### the aggregate is the sum of the lanes -/

theorem sum_indicator (x : Nat) (b : Bool) : ∀ (ks : List Nat), ks.Nodup →
    (ks.map (fun l => if (decide (x = l) && b) = true then 1 else 0)).sum
      = if (ks.contains x && b) = true then 1 else 0 := by
  intro ks
  induction ks with
  | nil => intro _; simp
  | cons k rest ih =>
    intro hn
    have hn' := List.nodup_cons.mp hn
    rw [List.map_cons, List.sum_cons, ih hn'.2]
    by_cases hx : x = k
    · subst hx
      have : rest.contains x = false := by simpa using hn'.1
      cases b <;> simp [this, hn'.1]
    · have hx' : ¬ k = x := fun h => hx h.symm
      cases b <;> simp [hx, hx', List.contains_cons]

theorem sum_map_add (ks : List Nat) (f g : Nat → Nat) :
    (ks.map (fun l => f l + g l)).sum = (ks.map f).sum + (ks.map g).sum := by
  induction ks with
  | nil => rfl
  | cons k rest ih => simp only [List.map_cons, List.sum_cons, ih]; omega

theorem cmdsKnown_eq_sum (c : Cfg) (hn : c.known.Nodup) (ms : List (Nat × Msg)) :
    cmdsKnown c ms = (c.known.map (fun l => cmdsFor l ms)).sum := by
  induction ms with
  | nil =>
    have hz : ∀ ks : List Nat, (ks.map (fun _ => 0)).sum = 0 := by
      intro ks; induction ks with
      | nil => rfl
      | cons k rest ih => simp [ih]
    simp [cmdsKnown, cmdsFor, hz]
  | cons p ms ih =>
    obtain ⟨r, l, e⟩ := p
    have h1 : cmdsKnown c ((r, l, e) :: ms)
        = (if (c.known.contains l && isCmd e) = true then 1 else 0) + cmdsKnown c ms := by
      unfold cmdsKnown; rw [length_filter_cons]
    have h2 : (fun l' => cmdsFor l' ((r, l, e) :: ms))
        = (fun l' => (if (decide (l = l') && isCmd e) = true then 1 else 0) + cmdsFor l' ms) := by
      funext l'; unfold cmdsFor; rw [length_filter_cons]
    rw [h1, h2, sum_map_add, sum_indicator l (isCmd e) c.known hn, ih]

end SwimVerif.RF
