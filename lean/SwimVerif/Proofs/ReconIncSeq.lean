/-
C09, several documents through one decoder instance: `RecognizerDecoder::decode` resets parser and recogniser after a
value *and* after an error, `decode_eof` always — so after any finished document, however it was chunked and whatever
came out, the decoder is the fresh decoder, and the documents that follow decode exactly as with a new one.
-/
import SwimVerif.Proofs.ReconIncCoupled

set_option linter.unusedSimpArgs false
set_option linter.unusedVariables false
namespace SwimVerif.ReconInc
open SwimVerif.Recon SwimVerif.ReconEq SwimVerif.Generated.Recon

/-- `decode`: anything but "need more" leaves a fresh decoder (`decodeResetsOnError` is read from the source). -/
theorem decode_fresh (d : Raw) (avail : List Char) (h : (d.decode avail).2.2 ≠ .none) : (d.decode avail).1 = {} := by
  unfold Raw.decode at h ⊢
  rcases hd : decodeInner d.stack d.m avail with ⟨st, m, rest, o⟩
  rw [hd] at h
  cases o with
  | none => simp at h
  | value v => rfl
  | err => simp [Raw.afterErr, decodeResetsOnError]
  | panic => simp [Raw.afterErr, decodeResetsOnError]
  | fuel => simp [Raw.afterErr, decodeResetsOnError]

/-- After a finished document the bare decoder is fresh. -/
theorem rawDoc_fresh : ∀ (cs : List (List Char)) (d : Raw) (buf : List Char), (rawDoc d buf cs).1 = {}
  | [], d, buf => rfl
  | c :: cs, d, buf => by
    rw [rawDoc]
    have hf := decode_fresh d (buf ++ c)
    rcases hd : d.decode (buf ++ c) with ⟨d', rest, o⟩
    rw [hd] at hf
    cases o with
    | none => exact rawDoc_fresh cs d' rest
    | value v => exact hf (by simp)
    | err => exact hf (by simp)
    | panic => exact hf (by simp)
    | fuel => exact hf (by simp)

theorem rawDoc_snd : ∀ (cs : List (List Char)) (d : Raw) (buf : List Char), (rawDoc d buf cs).2 = rawRun d buf cs
  | [], d, buf => rfl
  | c :: cs, d, buf => by
    rw [rawDoc, rawRun]
    rcases hd : d.decode (buf ++ c) with ⟨d', rest, o⟩
    cases o with
    | none => exact rawDoc_snd cs d' rest
    | value v => rfl
    | err => rfl
    | panic => rfl
    | fuel => rfl

/-- A sequence through one decoder = each document through a decoder of its own. -/
theorem rawSeq_eq : ∀ (docs : List (List (List Char))) (d : Raw),
    rawSeq d docs = match docs with
      | [] => []
      | doc :: rest => rawRun d [] doc :: rest.map (rawRun {} [])
  | [], d => rfl
  | doc :: rest, d => by
    rw [rawSeq, rawDoc_snd, rawDoc_fresh, rawSeq_eq rest {}]
    cases rest with
    | nil => rfl
    | cons a b => rfl

theorem rawSeq_fresh (docs : List (List (List Char))) : rawSeq {} docs = docs.map (rawRun {} []) := by
  rw [rawSeq_eq]; cases docs <;> rfl

/-! ### bytes -/

theorem decodeB_fresh (d : Raw) (buf : List Nat) (h : (d.decodeB buf).2.2 ≠ .none) : (d.decodeB buf).1 = {} := by
  unfold Raw.decodeB at h ⊢
  cases hr : readUtf8 buf with
  | none => rfl
  | some avail =>
    rw [hr] at h
    simp only at h ⊢
    have := decode_fresh d avail
    rcases hd : d.decode avail with ⟨d', rest, o⟩
    rw [hd] at h this
    exact this h

/-- `decode_eof` leaves a fresh decoder — unless the buffer is not UTF-8 and the early return skips the reset. -/
theorem decodeEofB_fresh (d : Raw) (buf : List Nat) (h : eofBadUtf8Resets = true ∨ readUtf8 buf ≠ none) :
    (d.decodeEofB buf).1 = {} := by
  unfold Raw.decodeEofB
  cases hr : readUtf8 buf with
  | none =>
    rcases h with h | h
    · simp [h]
    · exact absurd hr h
  | some avail => rfl

/-- The decoders the length-delimited decoder holds between frames (and while it skips the rest of a frame). -/
def WLFresh (w : WL) : Prop :=
  match w.state with
  | .body _ => True
  | _ => w.inner = {}

theorem consumeBounded_fresh (hE : eofBadUtf8Resets = true) (inner : Raw) (remaining : Nat) (src : List Nat)
    (h : (consumeBounded inner remaining src).2.2.2 ≠ .none) : (consumeBounded inner remaining src).1 = {} := by
  simp only [consumeBounded] at h ⊢
  split
  · exact decodeEofB_fresh _ _ (Or.inl hE)
  · rename_i hne
    simp only [hne, ↓reduceIte] at h
    exact decodeB_fresh _ _ h

/-- Between frames the inner decoder is fresh: whatever a frame held and however it was cut, once it is finished
(value, error, rest skipped) the length-delimited decoder is back in its initial state. -/
theorem WL_decode_fresh (hE : eofBadUtf8Resets = true) : ∀ (fuel : Nat) (w : WL) (src : List Nat),
    WLFresh w → WLFresh (WL.decode fuel w src).1
  | 0, w, src, h => h
  | fuel + 1, w, src, h => by
    rw [WL.decode]
    cases hs : w.state with
    | header =>
      simp only
      split
      · exact h
      · exact WL_decode_fresh hE fuel _ _ (by simp [WLFresh])
    | body remaining =>
      simp only
      have hf := consumeBounded_fresh hE w.inner remaining src
      rcases hc : consumeBounded w.inner remaining src with ⟨inner', src', consumed, o⟩
      rw [hc] at hf
      cases o with
      | none => simp [WLFresh]
      | value v => exact WL_decode_fresh hE fuel _ _ (by simp only [WLFresh]; exact hf (by simp))
      | err =>
        simp only
        split
        · simp only [WLFresh]; exact hf (by simp)
        · exact WL_decode_fresh hE fuel _ _ (by simp only [WLFresh]; exact hf (by simp))
      | panic =>
        simp only
        split
        · simp only [WLFresh]; exact hf (by simp)
        · exact WL_decode_fresh hE fuel _ _ (by simp only [WLFresh]; exact hf (by simp))
      | fuel =>
        simp only
        split
        · simp only [WLFresh]; exact hf (by simp)
        · exact WL_decode_fresh hE fuel _ _ (by simp only [WLFresh]; exact hf (by simp))
    | afterBody remaining v =>
      have hi : w.inner = {} := by simpa [WLFresh, hs] using h
      simp only
      split <;> simp [WLFresh, hi]
    | discarding remaining e =>
      have hi : w.inner = {} := by simpa [WLFresh, hs] using h
      simp only
      split <;> simp [WLFresh, hi]

/-- … so at every frame boundary it *is* the fresh decoder. -/
theorem WL_header_fresh (hE : eofBadUtf8Resets = true) (fuel : Nat) (w : WL) (src : List Nat) (h : WLFresh w)
    (hh : (WL.decode fuel w src).1.state = .header) : (WL.decode fuel w src).1 = {} := by
  have := WL_decode_fresh hE fuel w src h
  rcases hw : (WL.decode fuel w src).1 with ⟨inner, state⟩
  rw [hw] at this hh
  simp only at hh
  subst hh
  simp only [WLFresh] at this
  rw [this]

end SwimVerif.ReconInc
