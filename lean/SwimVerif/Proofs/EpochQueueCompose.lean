/-
Both real (indexed, wrapping-epoch) queues refine the specification queue `mqPush` on which the C02 convergence
theorems are proved:
* runtime `MapOperationQueue` = `EQV.Q` with payloads,
* agent `EventQueue<K, ()>` = `ML.EQ` (key-only), by a structure-preserving simulation into `EQV.Q`.
-/
import SwimVerif.Proofs.EpochQueueRun
import SwimVerif.Proofs.MapQueue
import SwimVerif.Model.MapLane

set_option linter.unusedVariables false
namespace SwimVerif.EQV
open SwimVerif.WT (MapOp mqPush mqReplace MQSys MQOp mqStep mqRun)

/-! ### `specPush` is `mqPush`, through any key-preserving translation of the entries -/

theorem specReplace_map (f : Entry → MapOp) (hf : ∀ e, (f e).key? = e.key?) (a : Entry) (k : Nat) :
    ∀ (q : List Entry), (specReplace a k q).map (List.map f) = mqReplace (f a) k (q.map f) := by
  intro q
  induction q with
  | nil => rfl
  | cons e rest ih =>
    simp only [specReplace, List.map_cons, mqReplace, hf]
    by_cases he : e.key? = some k
    · simp [he]
    · simp only [he, ↓reduceIte]
      rw [← ih]
      cases specReplace a k rest <;> rfl

theorem specPush_map (f : Entry → MapOp) (hf : ∀ e, (f e).key? = e.key?) (hc : f .clear = .clear)
    (q : List Entry) (a : Entry) : (specPush q a).map f = mqPush (q.map f) (f a) := by
  unfold specPush mqPush
  rw [hf a]
  cases hk : a.key? with
  | none => simp [hc]
  | some k =>
    simp only []
    rw [← specReplace_map f hf a k q]
    cases specReplace a k q <;> simp

/-! ### the indexed queue with its history -/

structure Sys where
  q : Q := {}
  pushed : List Entry := []
  popped : List Entry := []

def sysStep (s : Sys) : Op → Sys
  | .push a => { s with q := s.q.push a, pushed := s.pushed ++ [a] }
  | .pop => { s with q := s.q.pop.2, popped := s.popped ++ s.q.pop.1.toList }

def sysRun (s : Sys) (ops : List Op) : Sys := ops.foldl sysStep s

theorem sysRun_q : ∀ (ops : List Op) (s : Sys), (sysRun s ops).q = runQ s.q ops := by
  intro ops
  induction ops with
  | nil => intro s; rfl
  | cons op rest ih =>
    intro s
    show (sysRun (sysStep s op) rest).q = runQ (stepQ s.q op) rest
    rw [ih]; cases op <;> rfl

/-- abstraction to the specification system -/
def abs (f : Entry → MapOp) (s : Sys) : MQSys :=
  { queue := s.q.events.map f, pushed := s.pushed.map f, popped := s.popped.map f }

def opMap (f : Entry → MapOp) : Op → MQOp
  | .push a => .push (f a)
  | .pop => .pop

theorem sys_step_refines (f : Entry → MapOp) (hf : ∀ e, (f e).key? = e.key?) (hc : f .clear = .clear)
    {s : Sys} (h : Inv s.q) (hlen : s.q.events.length < M64) (op : Op) :
    abs f (sysStep s op) = mqStep (abs f s) (opMap f op) := by
  cases op with
  | push a =>
    have := (push_refines h hlen a).1
    simp only [abs, sysStep, opMap, mqStep, this, specPush_map f hf hc, List.map_append, List.map_cons, List.map_nil]
  | pop =>
    simp only [abs, sysStep, opMap, mqStep, pop_fst, pop_events]
    cases s.q.events <;> simp

/-- **The indexed queue, with everything it was given and everything it gave back, is the specification queue**
(up to the translation `f` of the entries), for every run that keeps fewer than 2^64 - 1 entries queued. -/
theorem sys_run_refines (f : Entry → MapOp) (hf : ∀ e, (f e).key? = e.key?) (hc : f .clear = .clear) :
    ∀ (ops : List Op) (s : Sys), Inv s.q → (∀ n, (specRun s.q.events (ops.take n)).length + 1 < M64) →
    abs f (sysRun s ops) = mqRun (abs f s) (ops.map (opMap f)) := by
  intro ops
  induction ops with
  | nil => intro s _ _; rfl
  | cons op rest ih =>
    intro s h hb
    have h0 : s.q.events.length + 1 < M64 := by simpa using hb 0
    have hs := sys_step_refines f hf hc h (by omega) op
    have hq : (sysStep s op).q = stepQ s.q op := by cases op <;> rfl
    obtain ⟨he, hi⟩ := step_refines h (by omega : s.q.events.length < M64) op
    have := ih (sysStep s op) (by rw [hq]; exact hi) (by
      intro n; have := hb (n + 1); rw [hq, he]; simpa using this)
    show abs f (sysRun (sysStep s op) rest) = mqRun (mqStep (abs f s) (opMap f op)) (rest.map (opMap f))
    rw [this, hs]

theorem sys_run_refines_short (f : Entry → MapOp) (hf : ∀ e, (f e).key? = e.key?) (hc : f .clear = .clear)
    (ops : List Op) (s : Sys) (h : Inv s.q) (hlen : s.q.events.length + ops.length + 1 < M64) :
    abs f (sysRun s ops) = mqRun (abs f s) (ops.map (opMap f)) := by
  apply sys_run_refines f hf hc ops s h
  intro n
  have h1 := specRun_length_le (ops.take n) s.q.events
  have h2 : (ops.take n).length ≤ ops.length := by simp; omega
  omega

/-- the runtime queue's translation: payload `v` ↦ body `[v]` -/
def entryOp : Entry → MapOp
  | .upd k v => .upd k [v]
  | .rem k => .rem k
  | .clear => .clear

theorem entryOp_key (e : Entry) : (entryOp e).key? = e.key? := by cases e <;> rfl

/-- the agent queue's translation: key-only (`EventQueue<K, ()>`), the value slot is unused -/
def entryKeyOp : Entry → MapOp
  | .upd k _ => .upd k []
  | .rem k => .rem k
  | .clear => .clear

theorem entryKeyOp_key (e : Entry) : (entryKeyOp e).key? = e.key? := by cases e <;> rfl

end SwimVerif.EQV

/-! ### the agent's `EventQueue<K, ()>` (`ML.EQ`) is the same indexed queue -/

namespace SwimVerif.ML
open SwimVerif.WT (MapOp mqPush mqReplace MQSys MQOp mqStep mqRun)

def actE : Act → EQV.Entry
  | .upd k => .upd k 0
  | .rem k => .rem k
  | .clear => .clear

def actOp : Act → MapOp
  | .upd k => .upd k []
  | .rem k => .rem k
  | .clear => .clear

theorem actE_key (a : Act) : (actE a).key? = a.key? := by cases a <;> rfl
theorem entryKeyOp_actE (a : Act) : EQV.entryKeyOp (actE a) = actOp a := by cases a <;> rfl

def toQ (q : EQ) : EQV.Q := { events := q.events.map actE, head := q.head, emap := q.emap }

theorem toQ_slot (q : EQ) (k : Nat) : (toQ q).slot k = q.slot k := by
  have hM : ML.M64 = EQV.M64 := rfl
  unfold EQV.Q.slot EQ.slot
  simp only [toQ, List.length_map, hM]
  cases alGet q.emap k <;> rfl

theorem toQ_push (q : EQ) (a : Act) : toQ (q.push a) = (toQ q).push (actE a) := by
  have hM : ML.M64 = EQV.M64 := rfl
  unfold EQV.Q.push EQ.push
  rw [actE_key]
  cases hk : a.key? with
  | none =>
    have : a = .clear := by cases a <;> simp_all [Act.key?]
    subst this; rfl
  | some k =>
    simp only [toQ_slot]
    cases hs : q.slot k with
    | none => simp [toQ, hM]
    | some i => simp [toQ, List.map_set]

theorem toQ_pop (q : EQ) : toQ q.pop.2 = (toQ q).pop.2 ∧ q.pop.1.map actE = (toQ q).pop.1 := by
  have hM : ML.M64 = EQV.M64 := rfl
  unfold EQV.Q.pop EQ.pop
  cases he : q.events with
  | nil => simp [toQ, he]
  | cons a rest =>
    simp only [toQ, he, List.map_cons, actE_key, hM]
    cases a.key? <;> simp

structure EQSys where
  q : EQ := {}
  pushed : List Act := []
  popped : List Act := []

inductive EQOp
  | push (a : Act)
  | pop

def eqStep (s : EQSys) : EQOp → EQSys
  | .push a => { s with q := s.q.push a, pushed := s.pushed ++ [a] }
  | .pop => { s with q := s.q.pop.2, popped := s.popped ++ s.q.pop.1.toList }

def eqRun (s : EQSys) (ops : List EQOp) : EQSys := ops.foldl eqStep s

def sim (s : EQSys) : EQV.Sys := { q := toQ s.q, pushed := s.pushed.map actE, popped := s.popped.map actE }

def opE : EQOp → EQV.Op
  | .push a => .push (actE a)
  | .pop => .pop

theorem sim_step (s : EQSys) (op : EQOp) : sim (eqStep s op) = EQV.sysStep (sim s) (opE op) := by
  cases op with
  | push a => simp [sim, eqStep, EQV.sysStep, opE, toQ_push]
  | pop =>
    have := toQ_pop s.q
    simp only [sim, eqStep, EQV.sysStep, opE, this.1, ← this.2, List.map_append]
    cases s.q.pop.1 <;> simp

theorem sim_run : ∀ (ops : List EQOp) (s : EQSys), sim (eqRun s ops) = EQV.sysRun (sim s) (ops.map opE) := by
  intro ops
  induction ops with
  | nil => intro s; rfl
  | cons op rest ih =>
    intro s
    show sim (eqRun (eqStep s op) rest) = EQV.sysRun (EQV.sysStep (sim s) (opE op)) (rest.map opE)
    rw [ih, sim_step]

/-- abstraction of the agent's indexed queue to the specification system (key-only operations) -/
def absA (s : EQSys) : MQSys :=
  { queue := s.q.events.map actOp, pushed := s.pushed.map actOp, popped := s.popped.map actOp }

def opA : EQOp → MQOp
  | .push a => .push (actOp a)
  | .pop => .pop

theorem absA_eq (s : EQSys) : absA s = EQV.abs EQV.entryKeyOp (sim s) := by
  have : EQV.entryKeyOp ∘ actE = actOp := funext entryKeyOp_actE
  simp [absA, EQV.abs, sim, toQ, List.map_map, this]

theorem opA_eq (op : EQOp) : opA op = EQV.opMap EQV.entryKeyOp (opE op) := by
  cases op with
  | push a => simp [opA, opE, EQV.opMap, entryKeyOp_actE]
  | pop => rfl

/-- **The agent's indexed event queue is the specification queue on key-only operations**, for every run of fewer
than 2^64 - 1 operations from the empty queue (`head_epoch = 0`, as `EventQueue::default`). -/
theorem agent_run_refines (ops : List EQOp) (hlen : ops.length + 1 < EQV.M64) :
    absA (eqRun {} ops) = mqRun {} (ops.map opA) := by
  rw [absA_eq, sim_run]
  have := EQV.sys_run_refines_short EQV.entryKeyOp EQV.entryKeyOp_key rfl (ops.map opE) (sim {})
    (EQV.inv_empty (by simp [EQV.M64])) (by simpa [sim, toQ] using hlen)
  rw [this, List.map_map]
  have : EQV.opMap EQV.entryKeyOp ∘ opE = opA := funext fun op => (opA_eq op).symm
  rw [this]; rfl

end SwimVerif.ML
