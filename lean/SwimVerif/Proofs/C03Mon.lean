/-
C03 (map lane): the monitor `ML.Mon` on typed operations / frames (`Mon.opT`, `Mon.frameT`: what `Mon.step` does once
the line and the output are parsed), the per-key history of a pending request, sorted maps.
-/
import SwimVerif.Model.MapLane
import SwimVerif.Proofs.AssocList

set_option linter.unusedVariables false
set_option linter.unusedSimpArgs false
namespace SwimVerif.ML

/-! ### sorted association lists -/

def Sorted (l : List (Nat × Nat)) : Prop := l.Pairwise (fun a b => a.1 < b.1)

theorem alGet_insertSorted (k v : Nat) (l : List (Nat × Nat)) (j : Nat) :
    alGet (insertSorted k v l) j = if k = j then some v else alGet l j := by
  induction l with
  | nil => simp [insertSorted, alGet]
  | cons p rest ih =>
    obtain ⟨k', v'⟩ := p
    unfold insertSorted
    by_cases h1 : k < k'
    · simp only [h1, if_true, alGet]
    · simp only [h1, if_false]
      by_cases h2 : k = k'
      · subst h2
        simp only [if_true, alGet]
        by_cases h3 : k = j <;> simp [h3]
      · simp only [h2, if_false, alGet, ih]
        by_cases h3 : k' = j
        · subst h3; simp [h2]
        · simp [h3]

theorem mem_insertSorted (k v : Nat) (l : List (Nat × Nat)) (p : Nat × Nat) (h : p ∈ insertSorted k v l) :
    p = (k, v) ∨ p ∈ l := by
  induction l with
  | nil => simp [insertSorted] at h; exact Or.inl h
  | cons q rest ih =>
    obtain ⟨k', v'⟩ := q
    unfold insertSorted at h
    by_cases h1 : k < k'
    · simp only [h1, if_true, List.mem_cons] at h
      rcases h with h | h | h
      · exact Or.inl h
      · exact Or.inr (by simp [h])
      · exact Or.inr (by simp [h])
    · simp only [h1, if_false] at h
      by_cases h2 : k = k'
      · simp only [h2, if_true, List.mem_cons] at h
        rcases h with h | h
        · exact Or.inl (by rw [h, h2])
        · exact Or.inr (by simp [h])
      · simp only [h2, if_false, List.mem_cons] at h
        rcases h with h | h
        · exact Or.inr (by simp [h])
        · rcases ih h with h | h
          · exact Or.inl h
          · exact Or.inr (by simp [h])

theorem sorted_insertSorted (k v : Nat) (l : List (Nat × Nat)) (h : Sorted l) : Sorted (insertSorted k v l) := by
  induction l with
  | nil => simp [insertSorted, Sorted]
  | cons q rest ih =>
    obtain ⟨k', v'⟩ := q
    unfold Sorted at h ih ⊢
    have h' := List.pairwise_cons.mp h
    unfold insertSorted
    by_cases h1 : k < k'
    · simp only [h1, if_true]
      refine List.pairwise_cons.mpr ⟨?_, h⟩
      intro p hp
      rcases List.mem_cons.mp hp with hp | hp
      · subst hp; exact h1
      · exact Nat.lt_trans h1 (h'.1 p hp)
    · simp only [h1, if_false]
      by_cases h2 : k = k'
      · subst h2
        simp only [if_true]
        exact List.pairwise_cons.mpr ⟨h'.1, h'.2⟩
      · simp only [h2, if_false]
        refine List.pairwise_cons.mpr ⟨?_, ih h'.2⟩
        intro p hp
        rcases mem_insertSorted k v rest p hp with hp | hp
        · subst hp; simp only; omega
        · exact h'.1 p hp

theorem alErase_eq_filter (l : List (Nat × Nat)) (k : Nat) : alErase l k = l.filter (fun p => !(p.1 == k)) := by
  induction l with
  | nil => simp [alErase]
  | cons q rest ih =>
    obtain ⟨k', v'⟩ := q
    by_cases h : k' = k <;> simp [alErase, h, ih]

theorem sorted_alErase (l : List (Nat × Nat)) (k : Nat) (h : Sorted l) : Sorted (alErase l k) := by
  unfold Sorted at *
  rw [alErase_eq_filter]
  exact h.sublist List.filter_sublist

theorem alErase_absent (l : List (Nat × Nat)) (k : Nat) (h : alGet l k = none) : alErase l k = l := by
  induction l with
  | nil => simp [alErase]
  | cons q rest ih =>
    obtain ⟨k', v'⟩ := q
    by_cases hk : k' = k
    · simp [alGet, hk] at h
    · simp only [alGet, hk, if_false] at h
      simp [alErase, hk, ih h]

theorem alGet_none_of_ne (l : List (Nat × Nat)) (k : Nat) (h : ∀ p, p ∈ l → p.1 ≠ k) : alGet l k = none := by
  induction l with
  | nil => simp
  | cons q rest ih =>
    obtain ⟨k', v'⟩ := q
    have := h (k', v') (List.mem_cons_self ..)
    simp only [ne_eq] at this
    simp only [alGet, this, if_false]
    exact ih (fun p hp => h p (List.mem_cons_of_mem _ hp))

theorem mem_keys_of_alGet (l : List (Nat × Nat)) (k : Nat) (h : alGet l k ≠ none) : k ∈ l.map (·.1) := by
  induction l with
  | nil => simp at h
  | cons q rest ih =>
    obtain ⟨k', v'⟩ := q
    by_cases hk : k' = k
    · simp [hk]
    · simp only [alGet, hk, if_false] at h
      simp [ih h]

theorem sorted_ext : ∀ (l1 l2 : List (Nat × Nat)), Sorted l1 → Sorted l2 → (∀ k, alGet l1 k = alGet l2 k) → l1 = l2 := by
  intro l1
  induction l1 with
  | nil =>
    intro l2 _ _ h
    cases l2 with
    | nil => rfl
    | cons q r2 =>
      have := h q.1
      simp [alGet] at this
  | cons p r1 ih =>
    intro l2 h1 h2 h
    cases l2 with
    | nil =>
      have := h p.1
      simp [alGet] at this
    | cons q r2 =>
      obtain ⟨k1, v1⟩ := p
      obtain ⟨k2, v2⟩ := q
      unfold Sorted at h1 h2
      have h1' := List.pairwise_cons.mp h1
      have h2' := List.pairwise_cons.mp h2
      have n1 : alGet r1 k1 = none := alGet_none_of_ne r1 k1 (fun p hp => by have := h1'.1 p hp; simp at this; omega)
      have n2 : alGet r2 k2 = none := alGet_none_of_ne r2 k2 (fun p hp => by have := h2'.1 p hp; simp at this; omega)
      have hk : k1 = k2 := by
        rcases Nat.lt_trichotomy k1 k2 with hlt | heq | hgt
        · have := h k1
          have n3 : alGet r2 k1 = none :=
            alGet_none_of_ne r2 k1 (fun p hp => by have := h2'.1 p hp; simp at this; omega)
          have hne : ¬ k2 = k1 := by omega
          simp [alGet, hne, n3] at this
        · exact heq
        · have := h k2
          have n3 : alGet r1 k2 = none :=
            alGet_none_of_ne r1 k2 (fun p hp => by have := h1'.1 p hp; simp at this; omega)
          have hne : ¬ k1 = k2 := by omega
          simp [alGet, hne, n3] at this
      subst hk
      have hv : v1 = v2 := by
        have := h k1
        simpa [alGet] using this
      subst hv
      have : r1 = r2 := by
        apply ih r2 h1'.2 h2'.2
        intro k
        by_cases hk : k1 = k
        · subst hk; rw [n1, n2]
        · have := h k
          simpa [alGet, hk] using this
      rw [this]

/-! ### typed monitor -/

def Pending.apply (p : Pending) (fr : Frame) : Pending :=
  { p with linkedRep := applyFrame p.linkedRep fr, freshRep := applyFrame p.freshRep fr }

def updFirst (r : Nat) (fr : Frame) : List Pending → List Pending
  | [] => []
  | p :: ps => if p.r = r then p.apply fr :: ps else p :: updFirst r fr ps

def Mon.rmKey (m : Mon) (k : Nat) : Mon := ({ m with cur := alErase m.cur k }).change k none

def Mon.clearT (m : Mon) : Mon := { (m.cur.foldl (fun (acc : Mon) p => acc.change p.1 none) m) with cur := [] }

def Mon.syncT (m : Mon) (r : Nat) : Mon :=
  { m with pend := m.pend ++ [{ r := r, linkedRep := m.rep, freshRep := [],
                                allowed := m.cur.map (fun p => (p.1, [some p.2])) }] }

/-- the monitor on an operation that writes nothing -/
def Mon.opT (m : Mon) : Op → Mon
  | .update k v => ({ m with cur := insertSorted k v m.cur }).change k (some v)
  | .remove k => if (alGet m.cur k).isSome then m.rmKey k else m
  | .clear => m.clearT
  | .dropFirst n => ((m.cur.map (·.1)).take n).foldl Mon.rmKey m
  | .takeFirst n => ((m.cur.map (·.1)).drop n).foldl Mon.rmKey m
  | .sync r => m.syncT r
  | .write => m

def Mon.bcast (m : Mon) (fr : Frame) : Mon :=
  { m with rep := applyFrame m.rep fr, pend := m.pend.map (fun p => p.apply fr) }

def syncedVerdict (p : Pending) (keysSeen : List Nat) : Option String :=
  if !(consistent p p.freshRep keysSeen) then some "snapshot-inconsistent-fresh-remote"
  else if !(consistent p p.linkedRep keysSeen) then some "snapshot-inconsistent-linked-remote"
  else none

/-- the monitor on a written frame -/
def Mon.frameT (m : Mon) : Frame → Mon × Option String
  | .upd k v => if alGet m.cur k ≠ some v then (m, some "map-event-value-not-current") else (m.bcast (.upd k v), none)
  | .rem k => (m.bcast (.rem k), none)
  | .clear => (m.bcast .clear, none)
  | .sync r k v =>
    if alGet m.cur k ≠ some v then (m, some "sync-event-value-not-current")
    else if !(m.pend.any (·.r = r)) then (m, some "sync-event-for-no-request")
    else ({ m with pend := updFirst r (.sync r k v) m.pend }, none)
  | .synced r =>
    match m.pend.find? (·.r = r) with
    | none => (m, some "synced-without-request")
    | some p => ({ m with pend := m.pend.eraseP (·.r = r) }, syncedVerdict p m.keysSeen)

/-- the monitor on a write that produced nothing -/
def Mon.noDataT (m : Mon) : Option String :=
  if !m.pend.isEmpty then some "sync-request-never-answered"
  else if m.rep ≠ m.cur then some "map-replica-diverged"
  else none

/-! ### history of a pending request -/

theorem allowedOf_note (p : Pending) (k : Nat) (v : Option Nat) (j : Nat) :
    allowedOf (p.note k v) j = if k = j then allowedOf p k ++ [v] else allowedOf p j := by
  simp only [allowedOf, Pending.note, alGet_alSet]
  by_cases h : k = j <;> simp [h, allowedOf]

/-- `p'` is `p` with a longer history -/
structure PExt (p p' : Pending) : Prop where
  r : p'.r = p.r
  linked : p'.linkedRep = p.linkedRep
  fresh : p'.freshRep = p.freshRep
  hist : ∀ k x, x ∈ allowedOf p k → x ∈ allowedOf p' k

theorem PExt.refl (p : Pending) : PExt p p := ⟨rfl, rfl, rfl, fun _ _ h => h⟩

theorem PExt.trans {p q s : Pending} (h1 : PExt p q) (h2 : PExt q s) : PExt p s :=
  ⟨h2.r.trans h1.r, h2.linked.trans h1.linked, h2.fresh.trans h1.fresh, fun k x h => h2.hist k x (h1.hist k x h)⟩

theorem pext_note (p : Pending) (k : Nat) (v : Option Nat) : PExt p (p.note k v) := by
  refine ⟨rfl, rfl, rfl, ?_⟩
  intro j x hx
  rw [allowedOf_note]
  by_cases h : k = j
  · subst h; simp [hx]
  · simp [h, hx]

theorem mem_note (p : Pending) (k : Nat) (v : Option Nat) : v ∈ allowedOf (p.note k v) k := by
  rw [allowedOf_note]; simp

def noteKeys (p : Pending) (ks : List Nat) : Pending := ks.foldl (fun p k => p.note k none) p

theorem pext_noteKeys (ks : List Nat) : ∀ (p : Pending), PExt p (noteKeys p ks) := by
  induction ks with
  | nil => intro p; exact PExt.refl p
  | cons k ks ih => intro p; exact (pext_note p k none).trans (ih _)

theorem mem_noteKeys (ks : List Nat) : ∀ (p : Pending) (k : Nat), k ∈ ks → none ∈ allowedOf (noteKeys p ks) k := by
  induction ks with
  | nil => intro p k h; simp at h
  | cons k0 ks ih =>
    intro p k h
    rcases List.mem_cons.mp h with h | h
    · subst h
      exact (pext_noteKeys ks (p.note k none)).hist k none (mem_note p k none)
    · exact ih _ k h

@[simp] theorem change_cur (m : Mon) (k : Nat) (v : Option Nat) : (m.change k v).cur = m.cur := rfl
@[simp] theorem change_rep (m : Mon) (k : Nat) (v : Option Nat) : (m.change k v).rep = m.rep := rfl
@[simp] theorem change_pend (m : Mon) (k : Nat) (v : Option Nat) :
    (m.change k v).pend = m.pend.map (fun p => p.note k v) := rfl

theorem clearFold (l : List (Nat × Nat)) : ∀ (m : Mon),
    (l.foldl (fun (acc : Mon) p => acc.change p.1 none) m).pend = m.pend.map (fun p => noteKeys p (l.map (·.1))) ∧
    (l.foldl (fun (acc : Mon) p => acc.change p.1 none) m).rep = m.rep ∧
    (l.foldl (fun (acc : Mon) p => acc.change p.1 none) m).cur = m.cur := by
  induction l with
  | nil => intro m; simp [noteKeys]
  | cons q rest ih =>
    intro m
    obtain ⟨h1, h2, h3⟩ := ih (m.change q.1 none)
    simp only [List.foldl_cons, h1, h2, h3]
    simp [List.map_map, noteKeys, Function.comp_def]

theorem clearT_pend (m : Mon) : m.clearT.pend = m.pend.map (fun p => noteKeys p (m.cur.map (·.1))) :=
  (clearFold m.cur m).1
theorem clearT_rep (m : Mon) : m.clearT.rep = m.rep := (clearFold m.cur m).2.1
theorem clearT_cur (m : Mon) : m.clearT.cur = [] := rfl

/-- the history of a fresh request holds just the lane's value -/
theorem allowedOf_init (r : Nat) (rep fr : List (Nat × Nat)) (cur : List (Nat × Nat)) (k : Nat) :
    allowedOf { r := r, linkedRep := rep, freshRep := fr, allowed := cur.map (fun p => (p.1, [some p.2])) } k
      = [alGet cur k] := by
  simp only [allowedOf]
  induction cur with
  | nil => simp
  | cons q rest ih =>
    obtain ⟨k', v'⟩ := q
    by_cases h : k' = k
    · simp [alGet, h]
    · simp only [List.map_cons, alGet, h, if_false]
      exact ih

end SwimVerif.ML
