/-
C09, all three layouts: the reference parser reads back what `print_recon`, `print_recon_compact` and
`print_recon_pretty` write, for the fragment `Value.wf` (same strong induction as `ReconStruct.lean`, with the white
space of the standard and pretty layouts: padding, line breaks and indentation).
-/
import SwimVerif.Proofs.ReconStruct

set_option linter.unusedSimpArgs false
set_option linter.unusedVariables false
set_option linter.unusedSectionVars false
namespace SwimVerif.Recon
open SwimVerif.Generated.Recon


/-! ## white space written by the layouts -/

def Spaces (w : List Char) : Prop := ∀ c ∈ w, c = ' '
def White (w : List Char) : Prop := ∀ c ∈ w, c = ' ' ∨ c = '\n'
/-- What `end_block` writes: spaces, or a line feed and spaces. -/
def EndW (e : List Char) : Prop := Spaces e ∨ ∃ s, e = '\n' :: s ∧ Spaces s

theorem Spaces.nil : Spaces [] := by intro c hc; simp at hc
theorem White.nil : White [] := by intro c hc; simp at hc
theorem Spaces.white {w : List Char} (h : Spaces w) : White w := fun c hc => Or.inl (h c hc)
theorem EndW.white {e : List Char} (h : EndW e) : White e := by
  rcases h with h | ⟨s, rfl, hs⟩
  · exact h.white
  · intro c hc
    rcases List.mem_cons.mp hc with rfl | hc
    · exact Or.inr rfl
    · exact Or.inl (hs c hc)

theorem spaces_spaces (n : Nat) : Spaces (spaces n) := by
  intro c hc; simp [spaces] at hc; exact hc.2

theorem newLine_char : Char.ofNat newLine = '\n' := by decide

theorem newLineAt_endw (i : Nat) : EndW (newLineAt i) :=
  Or.inr ⟨spaces (prettyIndent * i), by simp [newLineAt, newLine_char], spaces_spaces _⟩

theorem pad_spaces (st : Style) : Spaces (pad st) := by
  cases st <;> intro c hc <;> simp [pad] at hc <;> exact hc

theorem startBlock_white (st : Style) (i n : Nat) : White (startBlock st i n) := by
  unfold startBlock
  split
  · exact White.nil
  · cases st
    · intro c hc; simp at hc; exact Or.inl hc
    · exact White.nil
    · exact (newLineAt_endw _).white

theorem endBlock_endw (st : Style) (i : Nat) : EndW (endBlock st i) := by
  cases st
  · exact Or.inl (by intro c hc; simp [endBlock] at hc; exact hc)
  · exact Or.inl Spaces.nil
  · exact newLineAt_endw i

theorem itemPad_white (st : Style) (i : Nat) (b : Bool) : White (itemPad st i b) := by
  cases st
  · intro c hc; simp [itemPad] at hc; exact Or.inl hc
  · exact White.nil
  · cases b
    · intro c hc; simp [itemPad] at hc; exact Or.inl hc
    · exact (newLineAt_endw _).white

theorem skipMulti_white {w : List Char} (h : White w) (x : List Char) : skipMulti (w ++ x) = skipMulti x := by
  induction w with
  | nil => rfl
  | cons c w ih =>
    have hc : isMulti c = true := by
      rcases h c (by simp) with rfl | rfl <;> decide
    simp only [List.cons_append, skipMulti, List.dropWhile, hc]
    exact ih (fun d hd => h d (by simp [hd]))

theorem skipSpaces_spaces {w : List Char} (h : Spaces w) (x : List Char) : skipSpaces (w ++ x) = skipSpaces x := by
  induction w with
  | nil => rfl
  | cons c w ih =>
    have hc : c = ' ' := h c (by simp)
    subst hc
    simp only [List.cons_append, skipSpaces, List.dropWhile, show isSpace ' ' = true by decide]
    exact ih (fun d hd => h d (by simp [hd]))

theorem skipSpaces_idem (x : List Char) : skipSpaces (skipSpaces x) = skipSpaces x := by
  induction x with
  | nil => rfl
  | cons c x ih =>
    by_cases hc : isSpace c = true
    · simp only [skipSpaces, List.dropWhile, hc] at ih ⊢; exact ih
    · have hc' : isSpace c = false := by simpa using hc
      simp [skipSpaces, List.dropWhile, hc']

/-- `skipMulti` only looks at the input after its leading spaces. -/
theorem skipMulti_of_skipSpaces_eq {x y : List Char} (h : skipSpaces x = skipSpaces y) : skipMulti x = skipMulti y := by
  have key : ∀ z : List Char, skipMulti (skipSpaces z) = skipMulti z := by
    intro z
    induction z with
    | nil => rfl
    | cons c z ih =>
      by_cases hc : isSpace c = true
      · have hm : isMulti c = true := by
          simp only [isSpace, Bool.or_eq_true, decide_eq_true_eq] at hc
          rcases hc with rfl | rfl <;> decide
        simp only [skipSpaces, skipMulti, List.dropWhile, hc, hm] at ih ⊢; exact ih
      · have hc' : isSpace c = false := by simpa using hc
        simp [skipSpaces, List.dropWhile, hc']
  rw [← key x, ← key y, h]




/-! ## layout equations for any style -/

theorem printV_prim_style (st : Style) (i : Nat) {v : Value} (hp : v.isPrim = true) :
    printV st i v = printV .compact i v := by
  cases v <;> simp [Value.isPrim] at hp <;> simp [printV]

theorem printItems_notFirst' (st : Style) (j i : Nat) (br : Bool) (its : Items) :
    printItems st j i false br its =
      (match its with | .nil => [] | _ => ',' :: (itemPad st i br ++ printItems st j i true br its)) := by
  cases its <;> simp [printItems]

theorem printV_record_nil' (st : Style) (i : Nat) (its : Items) :
    printV st i (.record .nil its) =
      '{' :: (startBlock st i its.length ++ (printItems st (inner st i its.length) i true true its ++
        ((if its.length = 0 then [] else endBlock st i) ++ ['}']))) := by
  simp [printV, Attrs.isEmpty]

theorem printAttrs_cons' (st : Style) (i : Nat) (n : List Char) (v : Value) (r : Attrs) :
    printAttrs st i (.cons n v r) =
      '@' :: (attrName n ++ (printA st i v ++ (if r.isEmpty = true then [] else pad st ++ printAttrs st i r))) := by
  cases r <;> simp [printAttrs, Attrs.isEmpty]

theorem printV_record_cons' (st : Style) (i : Nat) (n : List Char) (v : Value) (r : Attrs) (its : Items) :
    printV st i (.record (.cons n v r) its) =
      printAttrs st i (.cons n v r) ++
        (if its.length = 0 then [] else if its.isSoleVal = true then ' ' :: printItems st i i true false its
         else pad st ++ '{' :: (startBlock st i its.length ++ (printItems st (inner st i its.length) i true true its ++
            (endBlock st i ++ ['}'])))) := by
  simp [printV, Attrs.isEmpty]

/-- First character of the text of a value (any style). -/
theorem head_value' (st : Style) (i : Nat) {v : Value} (hw : v.wf = true) (hne : v ≠ .extant) :
    ∃ c t, printV st i v = c :: t ∧ okStart c = true := by
  cases v with
  | extant => exact absurd rfl hne
  | float f =>
    rw [printV_prim_style st i rfl]
    obtain ⟨c, t, h, hc⟩ := head_prim i (v := .float f) rfl hw
    exact ⟨c, t, h, okStart_of_prim hc⟩
  | record a its =>
    cases a with
    | nil => exact ⟨'{', _, printV_record_nil' st i its, by decide⟩
    | cons n w r =>
      rw [printV_record_cons', printAttrs_cons']
      exact ⟨'@', _, List.cons_append .., by decide⟩
  | int k n =>
    rw [printV_prim_style st i rfl]
    obtain ⟨c, t, h, hc⟩ := head_prim i (v := .int k n) rfl hw
    exact ⟨c, t, h, okStart_of_prim hc⟩
  | bool b =>
    rw [printV_prim_style st i rfl]
    obtain ⟨c, t, h, hc⟩ := head_prim i (v := .bool b) rfl hw
    exact ⟨c, t, h, okStart_of_prim hc⟩
  | text s =>
    rw [printV_prim_style st i rfl]
    obtain ⟨c, t, h, hc⟩ := head_prim i (v := .text s) rfl hw
    exact ⟨c, t, h, okStart_of_prim hc⟩
  | data bs =>
    rw [printV_prim_style st i rfl]
    obtain ⟨c, t, h, hc⟩ := head_prim i (v := .data bs) rfl hw
    exact ⟨c, t, h, okStart_of_prim hc⟩

/-- What the attribute printer writes, any style. -/
theorem printA_body' (st : Style) (i : Nat) {w : Value} (hw : w.wf = true) (hne : w ≠ .extant)
    (hnf : ∀ f, w ≠ .float f) :
    printA st i w = '(' :: (printItems st i i true false (bodyItems w) ++ [')']) := by
  cases w with
  | extant => exact absurd rfl hne
  | float f => exact absurd rfl (hnf f)
  | int k n => simp [printA, bodyItems, printItems, printV]
  | bool b => simp [printA, bodyItems, printItems, printV]
  | text s => simp [printA, bodyItems, printItems, printV]
  | data bs => simp [printA, bodyItems, printItems, printV]
  | record a its =>
    cases a with
    | nil =>
      by_cases h0 : its.length = 0
      · have : its = .nil := by cases its <;> simp [Items.length] at h0 <;> rfl
        subst this
        simp [printA, bodyItems, printItems, printV, Attrs.isEmpty, Items.length, startBlock]
      · by_cases h1 : its.isSoleVal = true
        · have hl : its.length = 1 := by
            cases its with
            | nil => simp [Items.length] at h0
            | slot _ _ _ => simp [Items.isSoleVal] at h1
            | val x xs => cases xs <;> simp [Items.isSoleVal] at h1 <;> simp [Items.length]
          simp [printA, bodyItems, h0, h1, Attrs.isEmpty, printItems, printV_record_nil', hl]
        · simp [printA, bodyItems, h0, h1, Attrs.isEmpty]
    | cons n v r =>
      simp [printA, bodyItems, printItems, printV_record_cons', Attrs.isEmpty]




/-! ## the parser states only look past leading spaces -/

theorem pAfterValue_congr (f : Nat) (k : Kind) (v : Value) {x y : List Char} (h : skipSpaces x = skipSpaces y) :
    pAfterValue f k v x = pAfterValue f k v y := by
  cases f with
  | zero => simp [pAfterValue]
  | succ f => rw [pAfterValue, pAfterValue, h]

theorem pSlot_congr (f : Nat) (k : Kind) (v : Value) {x y : List Char} (h : skipSpaces x = skipSpaces y) :
    pSlot f k v x = pSlot f k v y := by
  cases f with
  | zero => simp [pSlot]
  | succ f => rw [pSlot, pSlot, h]

theorem pAfterSlot_congr (f : Nat) (k : Kind) (a v : Value) {x y : List Char} (h : skipSpaces x = skipSpaces y) :
    pAfterSlot f k a v x = pAfterSlot f k a v y := by
  cases f with
  | zero => simp [pAfterSlot]
  | succ f => rw [pAfterSlot, pAfterSlot, h]

theorem pAfterAttr_congr (f : Nat) (acc : Attrs) {x y : List Char} (h : skipSpaces x = skipSpaces y) :
    pAfterAttr f acc x = pAfterAttr f acc y := by
  cases f with
  | zero => simp [pAfterAttr]
  | succ f => rw [pAfterAttr, pAfterAttr, h]

theorem pItems_congr (f : Nat) (k : Kind) (req : Bool) {x y : List Char} (h : skipMulti x = skipMulti y) :
    pItems f k req x = pItems f k req y := by
  cases f with
  | zero => simp [pItems]
  | succ f => rw [pItems, pItems, h]

theorem skipSpaces_close (k : Kind) (rest : List Char) : skipSpaces (k.close :: rest) = k.close :: rest :=
  skipSpaces_cons (close_not_space k) rest

theorem nl_facts (k : Kind) : isSpace '\n' = false ∧ ('\n' : Char) ≠ k.close ∧ isSep '\n' = false ∧ ('\n' : Char) ≠ ':' := by
  cases k <;> decide

/-- The end of a block: after the (possibly empty) padding comes the closing delimiter; `pItems` takes it. -/
theorem pItems_end {g : Nat} (k : Kind) {w : List Char} (hw : White w) (rest : List Char) (req : Bool) :
    pItems (g + 1) k req (w ++ k.close :: rest) = .ok (if req then .val .extant .nil else .nil, rest) := by
  rw [pItems_congr (g + 1) k req (skipMulti_white hw (k.close :: rest))]
  exact pItems_close g k req rest

section endings
variable {g : Nat} (k : Kind) {e : List Char} (he : EndW e) (rest : List Char)
include he

theorem pAfterValue_end (v' : Value) :
    pAfterValue (g + 1 + 1) k v' (e ++ k.close :: rest) = .ok (.val v' .nil, rest) := by
  rcases he with hs | ⟨s, rfl, hs⟩
  · rw [pAfterValue, skipSpaces_spaces hs, skipSpaces_close]; simp
  · obtain ⟨n1, n2, n3, n4⟩ := nl_facts k
    have hp := pItems_end (g := g) k hs.white rest false
    rw [pAfterValue]
    simp only [List.cons_append, skipSpaces_cons n1, n2, ↓reduceIte, n3, Bool.false_eq_true, n4, lineEnding?, hp]

theorem pSlot_end (key' : Value) :
    pSlot (g + 1 + 1) k key' (e ++ k.close :: rest) = .ok (.slot key' .extant .nil, rest) := by
  rcases he with hs | ⟨s, rfl, hs⟩
  · rw [pSlot, skipSpaces_spaces hs, skipSpaces_close]; simp
  · obtain ⟨n1, n2, n3, n4⟩ := nl_facts k
    have hp := pItems_end (g := g) k hs.white rest false
    rw [pSlot]
    simp only [List.cons_append, skipSpaces_cons n1, n2, ↓reduceIte, n3, Bool.false_eq_true, lineEnding?, hp]

theorem pAfterSlot_end (key' v' : Value) :
    pAfterSlot (g + 1 + 1) k key' v' (e ++ k.close :: rest) = .ok (.slot key' v' .nil, rest) := by
  rcases he with hs | ⟨s, rfl, hs⟩
  · rw [pAfterSlot, skipSpaces_spaces hs, skipSpaces_close]; simp
  · obtain ⟨n1, n2, n3, n4⟩ := nl_facts k
    have hp := pItems_end (g := g) k hs.white rest false
    rw [pAfterSlot]
    simp only [List.cons_append, skipSpaces_cons n1, n2, ↓reduceIte, n3, Bool.false_eq_true, lineEnding?, hp]
end endings

/-- What follows an item ends a token, and ends a body-less record. -/
theorem end_follow (k : Kind) {e : List Char} (he : EndW e) (rest : List Char) :
    TokEnd (e ++ k.close :: rest) ∧ endsRecord (skipSpaces (e ++ k.close :: rest)) = true := by
  have hclose : TokEnd (k.close :: rest) ∧ endsRecord (k.close :: rest) = true := by
    cases k
    · exact ⟨by intro c hc; simp [Kind.close] at hc; subst hc; decide, by simp [endsRecord, Kind.close]⟩
    · exact ⟨by intro c hc; simp [Kind.close] at hc; subst hc; decide, by simp [endsRecord, Kind.close]⟩
  rcases he with hs | ⟨s, rfl, hs⟩
  · constructor
    · cases e with
      | nil => exact hclose.1
      | cons c e' =>
        have : c = ' ' := hs c (by simp)
        subst this
        intro x hx; simp at hx; subst hx; decide
    · rw [skipSpaces_spaces hs, skipSpaces_close]; exact hclose.2
  · constructor
    · intro x hx; simp at hx; subst hx; decide
    · simp [skipSpaces_cons (show isSpace '\n' = false by decide), endsRecord, lineEnding?]




/-- What may follow the attributes of a record (any layout). -/
def AttrFollow' (tail : List Char) : Prop :=
  ∀ c ∈ tail.head?, c = ' ' ∨ c = '{' ∨ c = ',' ∨ c = ':' ∨ c = ')' ∨ c = '}' ∨ c = '\n'

/-- Induction hypothesis for all layouts. -/
structure IHs (n : Nat) : Prop where
  elem : ∀ v : Value, v.size ≤ n → v.wf = true → v ≠ .extant → ∀ (st : Style) (i fuel : Nat) (rest : List Char),
      TokEnd rest → (isBareAttr v = true → endsRecord (skipSpaces rest) = true) → 6 * v.size ≤ fuel →
      ∃ rest', pElem fuel (printV st i v ++ rest) = .ok (v.norm, rest') ∧ skipSpaces rest' = skipSpaces rest
  items : ∀ its : Items, its.size ≤ n → its.wf = true → ∀ (st : Style) (k : Kind) (j i : Nat) (br : Bool) (fuel : Nat)
      (rest : List Char) (req : Bool) (w e : List Char), White w → EndW e →
      (req = false → its.isSoleExtant = false) → (req = true → its ≠ .nil) → 6 * its.size + 2 ≤ fuel →
      pItems fuel k req (w ++ (printItems st j i true br its ++ (e ++ k.close :: rest))) = .ok (its.norm, rest)
  attrs : ∀ (nm : List Char) (v : Value) (r : Attrs), (Attrs.cons nm v r).size ≤ n → (Attrs.cons nm v r).wf = true →
      ∀ (st : Style) (acc : Attrs) (i fuel : Nat) (tail : List Char) (R : Res (Value × List Char)) (F0 : Nat),
      AttrFollow' tail →
      (∀ f, F0 ≤ f → pAfterAttr f (acc.append (Attrs.cons nm v r).norm) tail = R) → 1 ≤ F0 →
      6 * (Attrs.cons nm v r).size + F0 ≤ fuel →
      pAttrs fuel acc (attrName nm ++ (printA st i v ++ ((if r.isEmpty = true then [] else pad st ++ printAttrs st i r) ++ tail))) = R

section tails
variable {n : Nat} (ih : IHs n) (st : Style) (r : Items) (hs : r.size ≤ n) (hw : r.wf = true) (k : Kind) (j i : Nat)
  (br : Bool) (g : Nat) (rest : List Char) {e : List Char} (he : EndW e) (hg : 6 * r.size + 2 ≤ g)
include ih hs hw he hg

/-- The text after an item: the end of the block, or a comma and the remaining items (which are then read back). -/
theorem tail_cases' :
    (r = .nil ∧ printItems st j i false br r ++ (e ++ k.close :: rest) = e ++ k.close :: rest) ∨
    (∃ t, printItems st j i false br r ++ (e ++ k.close :: rest) = ',' :: t ∧
      pItems g k true t = .ok (r.norm, rest)) := by
  rw [printItems_notFirst']
  cases r with
  | nil => left; simp
  | val v r' =>
    right
    refine ⟨_, by simp only [List.cons_append, List.append_assoc]; rfl, ?_⟩
    exact ih.items _ hs hw st k j i br g rest true _ e (itemPad_white st i br) he (by simp) (by simp) hg
  | slot k' v r' =>
    right
    refine ⟨_, by simp only [List.cons_append, List.append_assoc]; rfl, ?_⟩
    exact ih.items _ hs hw st k j i br g rest true _ e (itemPad_white st i br) he (by simp) (by simp) hg

theorem tail_follow' :
    TokEnd (printItems st j i false br r ++ (e ++ k.close :: rest)) ∧
      endsRecord (skipSpaces (printItems st j i false br r ++ (e ++ k.close :: rest))) = true := by
  rw [printItems_notFirst']
  cases r with
  | nil => simpa using end_follow k he rest
  | val v r' =>
    exact ⟨by intro c hc; simp at hc; subst hc; decide,
      by simp [skipSpaces_cons (show isSpace ',' = false by decide), endsRecord, sep_comma]⟩
  | slot k' v r' =>
    exact ⟨by intro c hc; simp at hc; subst hc; decide,
      by simp [skipSpaces_cons (show isSpace ',' = false by decide), endsRecord, sep_comma]⟩

theorem after_value' (v' : Value) {x : List Char}
    (hx : skipSpaces x = skipSpaces (printItems st j i false br r ++ (e ++ k.close :: rest))) :
    pAfterValue (g + 1) k v' x = .ok (.val v' r.norm, rest) := by
  rw [pAfterValue_congr _ _ _ hx]
  obtain ⟨g', rfl⟩ : ∃ g', g = g' + 1 := ⟨g - 1, by omega⟩
  rcases tail_cases' ih st r hs hw k j i br (g' + 1) rest he hg with ⟨rfl, h⟩ | ⟨t, h, hp⟩
  · rw [h, pAfterValue_end k he]; simp [Items.norm]
  · rw [h, pAfterValue]; simp [skipSpaces_cons comma_not_space, comma_ne_close k, sep_comma, hp]

theorem slot_extant' (key' : Value) {x : List Char}
    (hx : skipSpaces x = skipSpaces (printItems st j i false br r ++ (e ++ k.close :: rest))) :
    pSlot (g + 1) k key' x = .ok (.slot key' .extant r.norm, rest) := by
  rw [pSlot_congr _ _ _ hx]
  obtain ⟨g', rfl⟩ : ∃ g', g = g' + 1 := ⟨g - 1, by omega⟩
  rcases tail_cases' ih st r hs hw k j i br (g' + 1) rest he hg with ⟨rfl, h⟩ | ⟨t, h, hp⟩
  · rw [h, pSlot_end k he]; simp [Items.norm]
  · rw [h, pSlot]; simp [skipSpaces_cons comma_not_space, comma_ne_close k, sep_comma, hp]

theorem after_slot' (key' v' : Value) {x : List Char}
    (hx : skipSpaces x = skipSpaces (printItems st j i false br r ++ (e ++ k.close :: rest))) :
    pAfterSlot (g + 1) k key' v' x = .ok (.slot key' v' r.norm, rest) := by
  rw [pAfterSlot_congr _ _ _ _ hx]
  obtain ⟨g', rfl⟩ : ∃ g', g = g' + 1 := ⟨g - 1, by omega⟩
  rcases tail_cases' ih st r hs hw k j i br (g' + 1) rest he hg with ⟨rfl, h⟩ | ⟨t, h, hp⟩
  · rw [h, pAfterSlot_end k he]; simp [Items.norm]
  · rw [h, pAfterSlot]; simp [skipSpaces_cons comma_not_space, comma_ne_close k, sep_comma, hp]

/-- An `Extant` value item (nothing is printed for it), after any white space. -/
theorem item_extant' (req : Bool) (hreq : req = false → r ≠ .nil) {w : List Char} (hww : White w) :
    pItems (g + 1) k req (w ++ (printItems st j i false br r ++ (e ++ k.close :: rest))) =
      .ok (.val .extant r.norm, rest) := by
  rcases tail_cases' ih st r hs hw k j i br g rest he hg with ⟨rfl, h⟩ | ⟨t, h, hp⟩
  · cases req
    · exact absurd rfl (hreq rfl)
    · rw [h, ← List.append_assoc]
      have hwe : White (w ++ e) := by
        intro c hc
        rcases List.mem_append.mp hc with hc | hc
        · exact hww c hc
        · exact he.white c hc
      rw [pItems_end k hwe]; simp [Items.norm]
  · rw [h, pItems_congr _ _ _ (skipMulti_white hww _), pItems]
    simp [skipMulti_cons comma_not_multi, comma_ne_close k, sep_comma, hp]
end tails




/-- The value part of a slot (after the padding that follows the colon) and whatever follows it. -/
theorem slot_value' {n : Nat} (ih : IHs n) (st : Style) (v : Value) (r : Items) (hvs : v.size ≤ n) (hrs : r.size ≤ n)
    (hvw : v.wf = true) (hrw : r.wf = true) (k : Kind) (j i : Nat) (br : Bool) (h : Nat) (rest : List Char)
    {e : List Char} (he : EndW e) (key' : Value) (hh1 : 6 * v.size ≤ h) (hh2 : 6 * r.size + 3 ≤ h) :
    pSlot (h + 1) k key'
        (pad st ++ (printV st j v ++ (printItems st j i false br r ++ (e ++ k.close :: rest)))) =
      .ok (.slot key' v.norm r.norm, rest) := by
  by_cases hve : v = .extant
  · subst hve
    simp only [printV, List.nil_append, Value.norm]
    exact slot_extant' ih st r hrs hrw k j i br h rest he (by omega) key' (skipSpaces_spaces (pad_spaces st) _)
  · obtain ⟨c, t, hc, hok⟩ := head_value' st j hvw hve
    obtain ⟨f1, f2, f3, f4, f5, f6⟩ := okStart_facts hok k
    obtain ⟨td, te⟩ := tail_follow' ih st r hrs hrw k j i br h rest he (by omega)
    obtain ⟨rest', he', hsk⟩ := ih.elem v hvs hvw hve st j h _ td (fun _ => te) hh1
    obtain ⟨h', rfl⟩ : ∃ h', h = h' + 1 := ⟨h - 1, by omega⟩
    have ha := after_slot' ih st r hrs hrw k j i br h' rest he (by omega) key' v.norm hsk
    rw [pSlot_congr _ _ _ (skipSpaces_spaces (pad_spaces st) _)]
    rw [hc] at he' ⊢
    simp only [List.cons_append] at he' ⊢
    rw [pSlot]
    simp only [skipSpaces_cons f2, f3, ↓reduceIte, f4, Bool.false_eq_true, f6, he', ha]

theorem items_step' {n : Nat} (ih : IHs n) (its : Items) (hs : its.size ≤ n + 1) (hw : its.wf = true) (st : Style)
    (k : Kind) (j i : Nat) (br : Bool) (fuel : Nat) (rest : List Char) (req : Bool) (w e : List Char)
    (hww : White w) (he : EndW e) (h1 : req = false → its.isSoleExtant = false) (h2 : req = true → its ≠ .nil)
    (hf : 6 * its.size + 2 ≤ fuel) :
    pItems fuel k req (w ++ (printItems st j i true br its ++ (e ++ k.close :: rest))) = .ok (its.norm, rest) := by
  obtain ⟨f, rfl⟩ : ∃ f, fuel = f + 1 := ⟨fuel - 1, by omega⟩
  cases its with
  | nil =>
    cases req
    · simp only [printItems, List.nil_append, Items.norm]
      rw [← List.append_assoc]
      have hwe : White (w ++ e) := by
        intro c hc
        rcases List.mem_append.mp hc with hc | hc
        · exact hww c hc
        · exact he.white c hc
      simpa using pItems_end (g := f) k hwe rest false
    · exact absurd rfl (h2 rfl)
  | val v r =>
    simp only [Items.size] at hs hf
    simp only [Items.wf, Bool.and_eq_true] at hw
    simp only [printItems, ↓reduceIte, List.nil_append, List.append_assoc]
    by_cases hve : v = .extant
    · subst hve
      simp only [printV, List.nil_append, Items.norm, Value.norm]
      refine item_extant' ih st r (by omega) hw.2 k j i br f rest he (by omega) req ?_ hww
      intro hr hrn; subst hrn; have := h1 hr; simp [Items.isSoleExtant] at this
    · obtain ⟨c, t, hc, hok⟩ := head_value' st j hw.1 hve
      obtain ⟨f1, f2, f3, f4, f5, f6⟩ := okStart_facts hok k
      obtain ⟨td, te⟩ := tail_follow' ih st r (by omega) hw.2 k j i br f rest he (by omega)
      obtain ⟨rest', he', hsk⟩ := ih.elem v (by omega) hw.1 hve st j f _ td (fun _ => te) (by omega)
      obtain ⟨g, rfl⟩ : ∃ g, f = g + 1 := ⟨f - 1, by omega⟩
      have ha := after_value' ih st r (by omega) hw.2 k j i br g rest he (by omega) v.norm hsk
      rw [pItems_congr _ _ _ (skipMulti_white hww _)]
      rw [hc] at he' ⊢
      simp only [List.cons_append] at he' ⊢
      rw [pItems]
      simp only [skipMulti_cons f1, f3, ↓reduceIte, f4, Bool.false_eq_true, f5, he', ha, Items.norm]
  | slot key v r =>
    simp only [Items.size] at hs hf
    simp only [Items.wf, Bool.and_eq_true] at hw
    obtain ⟨⟨hkw, hvw⟩, hrw⟩ := hw
    obtain ⟨c1, c2, c3⟩ := colon_facts k
    simp only [printItems, ↓reduceIte, List.nil_append, List.append_assoc, List.cons_append]
    rw [pItems_congr _ _ _ (skipMulti_white hww _)]
    by_cases hke : key = .extant
    · subst hke
      obtain ⟨g, rfl⟩ : ∃ g, f = g + 1 := ⟨f - 1, by omega⟩
      have hsv := slot_value' ih st v r (by omega) (by omega) hvw hrw k j i br g rest he .extant (by omega) (by omega)
      simp only [printV, List.nil_append, Items.norm, Value.norm]
      rw [pItems]
      simp only [skipMulti_cons c1, colon_ne_close k, ↓reduceIte, c3, Bool.false_eq_true, hsv]
    · obtain ⟨c, t, hc, hok⟩ := head_value' st j hkw hke
      obtain ⟨f1, f2, f3, f4, f5, f6⟩ := okStart_facts hok k
      have td : TokEnd (':' :: (pad st ++ (printV st j v ++ (printItems st j i false br r ++ (e ++ k.close :: rest))))) := by
        intro x hx; simp at hx; subst hx; decide
      obtain ⟨rest', he', hsk⟩ := ih.elem key (by omega) hkw hke st j f _ td
        (by intro _; simp [skipSpaces_cons c2, endsRecord]) (by omega)
      obtain ⟨g, rfl⟩ : ∃ g, f = g + 1 := ⟨f - 1, by omega⟩
      obtain ⟨g', rfl⟩ : ∃ g', g = g' + 1 := ⟨g - 1, by omega⟩
      have hsv := slot_value' ih st v r (by omega) (by omega) hvw hrw k j i br g' rest he key.norm (by omega) (by omega)
      have hav : pAfterValue (g' + 1 + 1) k key.norm rest' = .ok (.slot key.norm v.norm r.norm, rest) := by
        rw [pAfterValue_congr _ _ _ hsk, pAfterValue]
        simp only [skipSpaces_cons c2, colon_ne_close k, ↓reduceIte, c3, Bool.false_eq_true, hsv]
      rw [hc] at he' ⊢
      simp only [List.cons_append] at he' ⊢
      rw [pItems]
      simp only [skipMulti_cons f1, f3, ↓reduceIte, f4, Bool.false_eq_true, f5, he', hav, Items.norm]




/-- After an attribute: the remaining attributes (after the padding), then whatever the record continues with. -/
theorem attrs_cont' {n : Nat} (ih : IHs n) (st : Style) (nm : List Char) (v' : Value) (r : Attrs) (hrs : r.size ≤ n)
    (hrw : r.wf = true) (acc : Attrs) (i : Nat) (tail : List Char) (R : Res (Value × List Char)) (F0 : Nat)
    (hfol : AttrFollow' tail)
    (hR : ∀ f, F0 ≤ f → pAfterAttr f (acc.append (.cons nm v' r.norm)) tail = R) (h1 : 1 ≤ F0)
    (f : Nat) (hf : 6 * r.size + F0 + 1 ≤ f) :
    pAfterAttr f (acc.append (.cons nm v' .nil))
      ((if r.isEmpty = true then [] else pad st ++ printAttrs st i r) ++ tail) = R := by
  cases r with
  | nil =>
    simp only [Attrs.isEmpty, ↓reduceIte, List.nil_append]
    exact hR f (by omega)
  | cons n2 v2 r2 =>
    obtain ⟨g, rfl⟩ : ∃ g, f = g + 1 := ⟨f - 1, by omega⟩
    simp only [Attrs.isEmpty, Bool.false_eq_true, ↓reduceIte, List.append_assoc]
    rw [pAfterAttr_congr _ _ (skipSpaces_spaces (pad_spaces st) _)]
    rw [printAttrs_cons']
    simp only [List.cons_append, List.append_assoc]
    rw [pAfterAttr]
    simp only [skipSpaces_cons at_facts.1]
    exact ih.attrs n2 v2 r2 hrs hrw st (acc.append (.cons nm v' .nil)) i g tail R F0 hfol
      (by intro f' hf'; rw [Attrs.append_cons_assoc]; exact hR f' hf') h1 (by omega)

theorem attrs_step' {n : Nat} (ih : IHs n) (nm : List Char) (v : Value) (r : Attrs)
    (hs : (Attrs.cons nm v r).size ≤ n + 1) (hw : (Attrs.cons nm v r).wf = true) (st : Style) (acc : Attrs)
    (i fuel : Nat) (tail : List Char) (R : Res (Value × List Char)) (F0 : Nat) (hfol : AttrFollow' tail)
    (hR : ∀ f, F0 ≤ f → pAfterAttr f (acc.append (Attrs.cons nm v r).norm) tail = R) (h1 : 1 ≤ F0)
    (hf : 6 * (Attrs.cons nm v r).size + F0 ≤ fuel) :
    pAttrs fuel acc (attrName nm ++ (printA st i v ++ ((if r.isEmpty = true then [] else pad st ++ printAttrs st i r) ++ tail))) = R := by
  obtain ⟨f, rfl⟩ : ∃ f, fuel = f + 1 := ⟨fuel - 1, by omega⟩
  simp only [Attrs.size] at hs hf
  simp only [Attrs.wf, Bool.and_eq_true] at hw
  obtain ⟨hvw, hrw⟩ := hw
  simp only [Attrs.norm] at hR
  have hcont := attrs_cont' ih st nm v.norm r (by omega) hrw acc i tail R F0 hfol hR h1
  -- the text after this attribute: its first character is neither `(` nor an identifier character
  have hXhead : ∀ x xs, (if r.isEmpty = true then [] else pad st ++ printAttrs st i r) ++ tail = x :: xs →
      x ≠ '(' ∧ isIdentChar x = false := by
    cases r with
    | nil =>
      simp only [Attrs.isEmpty, ↓reduceIte, List.nil_append]
      intro x xs hxe; subst hxe
      rcases hfol x (by simp) with rfl | rfl | rfl | rfl | rfl | rfl | rfl <;> decide
    | cons n2 v2 r2 =>
      simp only [Attrs.isEmpty, Bool.false_eq_true, ↓reduceIte]
      rw [printAttrs_cons']
      intro x xs hxe
      cases st <;> (simp [pad] at hxe; rw [← hxe.1]; decide)
  by_cases hve : v = .extant
  · subst hve
    simp only [printA, List.nil_append, Value.norm] at hcont ⊢
    cases hXe : (if r.isEmpty = true then [] else pad st ++ printAttrs st i r) ++ tail with
    | nil =>
      have hr : r = .nil := by
        cases r with
        | nil => rfl
        | cons n2 v2 r2 =>
          simp only [Attrs.isEmpty, Bool.false_eq_true, ↓reduceIte, printAttrs_cons'] at hXe
          cases st <;> simp [pad] at hXe
      subst hr
      have ht : tail = [] := by simpa [Attrs.isEmpty] using hXe
      subst ht
      rw [List.append_nil, pAttrs_name_end]
      have hRF := hR F0 (Nat.le_refl _)
      obtain ⟨g, rfl⟩ : ∃ g, F0 = g + 1 := ⟨F0 - 1, by omega⟩
      rw [pAfterAttr] at hRF
      simp only [skipSpaces, List.dropWhile, lexPrim, endsRecord, ↓reduceIte, Attrs.norm] at hRF
      simpa [Value.norm] using hRF
    | cons x xs =>
      obtain ⟨hx, hxi⟩ := hXhead x xs hXe
      rw [hXe] at hcont
      rw [pAttrs_name_nobody f acc nm hx hxi]
      exact hcont f (by omega)
  · by_cases hfl : ∃ x, v = .float x
    · -- a float in attribute position is written in the `{:e}` layout
      obtain ⟨x, rfl⟩ := hfl
      cases x with
      | nan => simp [Value.wf, Flt.isCanon] at hvw
      | inf b => simp [Value.wf, Flt.isCanon] at hvw
      | fin fneg fm fe =>
        have hcan := Flt.canon_cases (by simpa [Value.wf] using hvw)
        have hte : TokEnd (')' :: ((if r.isEmpty = true then [] else pad st ++ printAttrs st i r) ++ tail)) := by
          intro y hy; simp at hy; subst hy; decide
        have hl := lexPrim_expChars fneg fm fe hcan hte
        obtain ⟨g, rfl⟩ : ∃ g, f = g + 1 := ⟨f - 1, by omega⟩
        obtain ⟨g', rfl⟩ : ∃ g', g = g' + 1 := ⟨g - 1, by omega⟩
        have hb : pItems (g' + 1 + 1) .ab false (expChars (.fin fneg fm fe) ++
            ')' :: ((if r.isEmpty = true then [] else pad st ++ printAttrs st i r) ++ tail)) =
            .ok (.val (.float (.fin fneg fm fe)) .nil,
              (if r.isEmpty = true then [] else pad st ++ printAttrs st i r) ++ tail) := by
          cases hx : expChars (.fin fneg fm fe) with
          | nil =>
            rw [hx] at hl; simp only [List.nil_append] at hl
            exfalso
            rcases lexPrim_head hl with h | h | h | h | h | h | h <;> revert h <;> decide
          | cons c t =>
            rw [hx] at hl
            simp only [List.cons_append] at hl ⊢
            have hps : primStart c = true := by
              rcases lexPrim_head hl with h | h | h | h | h | h | h <;> simp [primStart, h]
            obtain ⟨f1, f2, f3, f4, f5, f6⟩ := okStart_facts (okStart_of_prim hps) .ab
            have he := pElem_prim (f := g') (primStart_ne hps '@' (by decide)) (primStart_ne hps '{' (by decide)) hl
            rw [pItems]
            simp only [skipMulti_cons f1, f3, ↓reduceIte, f4, Bool.false_eq_true, f5, he]
            rw [pAfterValue]
            simp [skipSpaces, List.dropWhile, isSpace, Kind.close]
        simp only [printA, List.cons_append, List.append_assoc, List.nil_append]
        rw [pAttrs_name_body _ acc nm hb]
        simpa [attrBody, Value.norm] using hcont (g' + 1 + 1) (by omega)
    · rw [printA_body' st i hvw hve (by intro x hx; exact hfl ⟨x, hx⟩)]
      have hb := ih.items (bodyItems v) (by have := bodyItems_size v; omega) (bodyItems_wf hvw) st .ab i i false f
        ((if r.isEmpty = true then [] else pad st ++ printAttrs st i r) ++ tail) false [] [] White.nil (Or.inl Spaces.nil)
        (fun _ => bodyItems_notSoleExtant hve) (by intro h; cases h)
        (by have := bodyItems_size v; omega)
      simp only [Kind.close, List.nil_append] at hb
      simp only [List.append_assoc, List.cons_append, List.nil_append] at hb ⊢
      rw [pAttrs_name_body f acc nm hb, attrBody_bodyItems]
      exact hcont f (by omega)

theorem elem_prim' {f : Nat} (st : Style) (i : Nat) {v : Value} (hp : v.isPrim = true) (hw : v.wf = true)
    {rest : List Char} (hd : TokEnd rest) : pElem (f + 1) (printV st i v ++ rest) = .ok (v.norm, rest) := by
  rw [printV_prim_style st i hp]
  have hl := lexPrim_value i hp hw hd
  obtain ⟨c, t, hc, hps⟩ := head_prim i hp hw
  rw [hc] at hl ⊢
  simp only [List.cons_append] at hl ⊢
  exact pElem_prim (primStart_ne hps '@' (by decide)) (primStart_ne hps '{' (by decide)) hl

theorem endsRecord_head {c : Char} {t : List Char} (h : endsRecord (c :: t) = true) :
    c = ',' ∨ c = ';' ∨ c = ')' ∨ c = '}' ∨ c = ':' ∨ c = '\n' ∨ c = '\r' := by
  simp only [endsRecord, Bool.or_eq_true, decide_eq_true_eq] at h
  rcases h with (((h | h) | h) | h) | h
  · have hs : separators = [44, 59] := by decide
    simp only [isSep, hs, List.contains_cons, List.contains_nil, Bool.or_false, Bool.or_eq_true, beq_iff_eq] at h
    rcases h with h | h
    · left; rw [← Char.ofNat_toNat c, h]
    · right; left; rw [← Char.ofNat_toNat c, h]
  · exact Or.inr (Or.inr (Or.inl h))
  · exact Or.inr (Or.inr (Or.inr (Or.inl h)))
  · exact Or.inr (Or.inr (Or.inr (Or.inr (Or.inl h))))
  · unfold lineEnding? at h
    split at h
    · rename_i heq; simp only [List.cons.injEq] at heq; exact Or.inr (Or.inr (Or.inr (Or.inr (Or.inr (Or.inl heq.1)))))
    · rename_i heq; simp only [List.cons.injEq] at heq; exact Or.inr (Or.inr (Or.inr (Or.inr (Or.inr (Or.inr heq.1)))))
    · simp at h

/-- A body-less record ends where a separator, a closing delimiter, a line ending or the end of the document follows
(after spaces); the spaces are consumed. -/
theorem pAfterAttr_end' {g : Nat} {A : Attrs} {rest : List Char} (hrec : endsRecord (skipSpaces rest) = true) :
    pAfterAttr (g + 1) A rest = .ok (.record A .nil, skipSpaces rest) := by
  rw [pAfterAttr]
  cases hx : skipSpaces rest with
  | nil => simp [lexPrim, endsRecord]
  | cons c t =>
    rw [hx] at hrec
    have hfacts : c ≠ '@' ∧ c ≠ '{' ∧ lexPrim (c :: t) = none := by
      rcases endsRecord_head hrec with rfl | rfl | rfl | rfl | rfl | rfl | rfl
      · exact ⟨by decide, by decide, by simp [lexPrim, show isIdentStart ',' = false by decide, show isDigit ',' = false by decide]⟩
      · exact ⟨by decide, by decide, by simp [lexPrim, show isIdentStart ';' = false by decide, show isDigit ';' = false by decide]⟩
      · exact ⟨by decide, by decide, by simp [lexPrim, show isIdentStart ')' = false by decide, show isDigit ')' = false by decide]⟩
      · exact ⟨by decide, by decide, by simp [lexPrim, show isIdentStart '}' = false by decide, show isDigit '}' = false by decide]⟩
      · exact ⟨by decide, by decide, by simp [lexPrim, show isIdentStart ':' = false by decide, show isDigit ':' = false by decide]⟩
      · exact ⟨by decide, by decide, by simp [lexPrim, show isIdentStart '\n' = false by decide, show isDigit '\n' = false by decide]⟩
      · exact ⟨by decide, by decide, by simp [lexPrim, show isIdentStart '\r' = false by decide, show isDigit '\r' = false by decide]⟩
    obtain ⟨f2, f3, f4⟩ := hfacts
    split
    · rename_i heq; simp only [List.cons.injEq] at heq; exact absurd heq.1 f2
    · rename_i heq; simp only [List.cons.injEq] at heq; exact absurd heq.1 f3
    · simp [f4, hrec]

theorem pAfterAttr_brace' {g : Nat} {A : Attrs} {p r rest : List Char} {its : Items} (hp : Spaces p)
    (hb : pItems g .rb false r = .ok (its, rest)) :
    pAfterAttr (g + 1) A (p ++ '{' :: r) = .ok (.record A its, rest) := by
  rw [pAfterAttr_congr _ _ (skipSpaces_spaces hp _)]
  exact pAfterAttr_brace hb




theorem endBlockOpt_endw (st : Style) (i n : Nat) : EndW (if n = 0 then [] else endBlock st i) := by
  split
  · exact Or.inl Spaces.nil
  · exact endBlock_endw st i

theorem elem_step' {n : Nat} (ih : IHs n) (v : Value) (hs : v.size ≤ n + 1) (hw : v.wf = true) (hne : v ≠ .extant)
    (st : Style) (i fuel : Nat) (rest : List Char) (hd : TokEnd rest)
    (hb : isBareAttr v = true → endsRecord (skipSpaces rest) = true) (hf : 6 * v.size ≤ fuel) :
    ∃ rest', pElem fuel (printV st i v ++ rest) = .ok (v.norm, rest') ∧ skipSpaces rest' = skipSpaces rest := by
  have hsz : 1 ≤ v.size := by cases v <;> simp [Value.size] <;> omega
  obtain ⟨f, rfl⟩ : ∃ f, fuel = f + 1 := ⟨fuel - 1, by omega⟩
  cases v with
  | extant => exact absurd rfl hne
  | float x => exact ⟨rest, elem_prim' st i rfl hw hd, rfl⟩
  | int k m => exact ⟨rest, elem_prim' st i rfl hw hd, rfl⟩
  | bool b => exact ⟨rest, elem_prim' st i rfl hw hd, rfl⟩
  | text s => exact ⟨rest, elem_prim' st i rfl hw hd, rfl⟩
  | data bs => exact ⟨rest, elem_prim' st i rfl hw hd, rfl⟩
  | record a its =>
    simp only [Value.size] at hs hf
    simp only [Value.wf, Bool.and_eq_true, Bool.not_eq_true', Bool.or_eq_true] at hw
    obtain ⟨⟨⟨haw, hiw⟩, hnse⟩, hsole⟩ := hw
    cases a with
    | nil =>
      refine ⟨rest, ?_, rfl⟩
      rw [printV_record_nil']
      have hbi := ih.items its (by simp [Attrs.size] at hs; omega) hiw st .rb (inner st i its.length) i true f rest false
        (startBlock st i its.length) (if its.length = 0 then [] else endBlock st i) (startBlock_white st i _)
        (endBlockOpt_endw st i _) (fun _ => hnse) (by intro h; cases h) (by simp [Attrs.size] at hf; omega)
      simp only [Kind.close] at hbi
      simp only [List.cons_append, List.append_assoc, List.nil_append]
      rw [pElem_brace hbi]
      simp [Value.norm, Attrs.norm]
    | cons nm w r =>
      rw [printV_record_cons', printAttrs_cons']
      simp only [List.cons_append, List.append_assoc]
      rw [pElem_at]
      have key : ∀ (tail rest' : List Char), AttrFollow' tail →
          (∀ g, 6 * its.size + 3 ≤ g → pAfterAttr g (Attrs.cons nm w r).norm tail =
            .ok (.record (Attrs.cons nm w r).norm its.norm, rest')) →
          pAttrs f .nil (attrName nm ++ (printA st i w ++ ((if r.isEmpty = true then [] else pad st ++ printAttrs st i r) ++ tail))) =
            .ok ((Value.record (Attrs.cons nm w r) its).norm, rest') := by
        intro tail rest' hfol hR
        have := ih.attrs nm w r (by omega) haw st .nil i f tail _ (6 * its.size + 3) hfol
          (by intro g hg; simpa [Attrs.append] using hR g hg) (by omega) (by omega)
        simpa [Value.norm] using this
      by_cases h0 : its.length = 0
      · have hnil : its = .nil := by cases its <;> simp [Items.length] at h0 <;> rfl
        subst hnil
        simp only [Items.length, ↓reduceIte, List.nil_append]
        refine ⟨skipSpaces rest, key rest (skipSpaces rest) ?_ ?_, skipSpaces_idem rest⟩
        · intro x hx
          rcases tokEnd_cases (hd x hx) with h | h | h | h | h | h <;> simp [h]
        · intro g hg
          obtain ⟨g', rfl⟩ : ∃ g', g = g' + 1 := ⟨g - 1, by omega⟩
          simpa [Items.norm] using pAfterAttr_end' (A := (Attrs.cons nm w r).norm) (hb rfl)
      · by_cases h1 : its.isSoleVal = true
        · -- exactly one value item: a primitive
          simp only [h0, ↓reduceIte, h1]
          cases its with
          | nil => simp [Items.length] at h0
          | slot _ _ _ => simp [Items.isSoleVal] at h1
          | val x xs =>
            cases xs with
            | val _ _ => simp [Items.isSoleVal] at h1
            | slot _ _ _ => simp [Items.isSoleVal] at h1
            | nil =>
              have hxp : x.isPrim = true := by
                rcases hsole with h | h
                · rcases h with h | h
                  · simp [Attrs.isEmpty] at h
                  · simp [Items.isSoleVal] at h
                · simpa [Items.isSolePrim] using h
              have hxw : x.wf = true := by simp only [Items.wf, Bool.and_eq_true] at hiw; exact hiw.1
              simp only [printItems, ↓reduceIte, List.nil_append, List.append_nil]
              rw [printV_prim_style st i hxp]
              obtain ⟨c, t, hc, hps⟩ := head_prim i hxp hxw
              have hl := lexPrim_value i hxp hxw hd
              rw [hc] at hl ⊢
              simp only [List.cons_append] at hl ⊢
              refine ⟨rest, key _ rest (by intro y hy; simp at hy; simp [← hy]) ?_, rfl⟩
              intro g hg
              obtain ⟨g', rfl⟩ : ∃ g', g = g' + 1 := ⟨g - 1, by omega⟩
              simpa [Items.norm] using pAfterAttr_prim (A := (Attrs.cons nm w r).norm) hps hl
        · -- braces
          simp only [h0, ↓reduceIte, h1, Bool.false_eq_true]
          refine ⟨rest, ?_, rfl⟩
          have hfol : AttrFollow' (pad st ++ '{' :: (startBlock st i its.length ++
              (printItems st (inner st i its.length) i true true its ++ (endBlock st i ++ ['}'])) ++ rest)) := by
            cases st <;> (intro y hy; simp [pad] at hy; simp [← hy])
          have := key _ rest hfol (by
            intro g hg
            obtain ⟨g', rfl⟩ : ∃ g', g = g' + 1 := ⟨g - 1, by omega⟩
            have hbi := ih.items its (by simp [Attrs.size] at hs; omega) hiw st .rb (inner st i its.length) i true g'
              rest false (startBlock st i its.length) (endBlock st i) (startBlock_white st i _) (endBlock_endw st i)
              (fun _ => hnse) (by intro h; cases h) (by omega)
            simp only [Kind.close] at hbi
            have := pAfterAttr_brace' (A := (Attrs.cons nm w r).norm) (pad_spaces st) hbi
            simpa [List.append_assoc] using this)
          simpa [List.append_assoc] using this

theorem ih_all' : ∀ n, IHs n
  | 0 => {
      elem := by
        intro v hs; have : 1 ≤ v.size := by cases v <;> simp [Value.size] <;> omega
        omega
      items := by
        intro its hs hw st k j i br fuel rest req w e hww he h1 h2 hf
        cases its with
        | nil =>
          obtain ⟨f, rfl⟩ : ∃ f, fuel = f + 1 := ⟨fuel - 1, by omega⟩
          cases req
          · simp only [printItems, List.nil_append, Items.norm]
            rw [← List.append_assoc]
            have hwe : White (w ++ e) := by
              intro c hc
              rcases List.mem_append.mp hc with hc | hc
              · exact hww c hc
              · exact he.white c hc
            simpa using pItems_end (g := f) k hwe rest false
          · exact absurd rfl (h2 rfl)
        | val v r => simp [Items.size] at hs <;> omega
        | slot a b c => simp [Items.size] at hs <;> omega
      attrs := by intro nm v r hs; simp [Attrs.size] at hs <;> omega }
  | n + 1 =>
    have ih := ih_all' n
    { elem := fun v hs hw hne st i fuel rest hd hb hf => elem_step' ih v hs hw hne st i fuel rest hd hb hf
      items := fun its hs hw st k j i br fuel rest req w e hww he h1 h2 hf =>
        items_step' ih its hs hw st k j i br fuel rest req w e hww he h1 h2 hf
      attrs := fun nm v r hs hw st acc i fuel tail R F0 hfol hR h1 hf =>
        attrs_step' ih nm v r hs hw st acc i fuel tail R F0 hfol hR h1 hf }

/-- **parse ∘ print** for the three printers, with explicit fuel. -/
theorem parseFuel_print (st : Style) (v : Value) (hw : v.wf = true) (fuel : Nat) (hf : 6 * v.size ≤ fuel) :
    parseFuel fuel (print st v) = .ok v.norm := by
  unfold parseFuel print
  by_cases hve : v = .extant
  · subst hve; simp [printV, skipMulti, Value.norm]
  · obtain ⟨c, t, hc, hok⟩ := head_value' st 0 hw hve
    obtain ⟨f1, _⟩ := okStart_facts hok .rb
    obtain ⟨rest', he, _⟩ := (ih_all' v.size).elem v (Nat.le_refl _) hw hve st 0 fuel [] TokEnd.nil
      (by intro _; simp [skipSpaces, endsRecord]) hf
    rw [List.append_nil] at he
    rw [hc] at he ⊢
    rw [skipMulti_cons f1]
    simp [he, Res.map]


/-! ## the built-in fuel of `parse` is enough (any layout) -/


mutual
theorem size_le_V' (st : Style) : (i : Nat) → (v : Value) → v.wf = true → v.size ≤ 2 * (printV st i v).length + 1
  | _, .extant, _ => by simp [Value.size]
  | _, .int k n, _ => by simp [Value.size]
  | _, .float f, _ => by simp [Value.size]
  | _, .bool b, _ => by simp [Value.size]
  | _, .text s, _ => by simp [Value.size]
  | _, .data bs, _ => by simp [Value.size]
  | i, .record a its, hw => by
    simp only [Value.wf, Bool.and_eq_true] at hw
    have ha := size_le_A' st i a hw.1.1.1
    cases a with
    | nil =>
      have hi := size_le_I' st (inner st i its.length) i true its hw.1.1.2
      rw [printV_record_nil']
      simp only [Value.size, Attrs.size, List.length_cons, List.length_append, List.length_nil]
      omega
    | cons n v r =>
      rw [printV_record_cons']
      simp only [Value.size, List.length_append]
      by_cases h0 : its.length = 0
      · have := (Items.length_zero_iff its).mp h0
        subst this
        simp [Items.size] at ha ⊢
        omega
      · by_cases h1 : its.isSoleVal = true
        · have hi := size_le_I' st i i false its hw.1.1.2
          simp only [h0, ↓reduceIte, h1, List.length_cons]; omega
        · have hi := size_le_I' st (inner st i its.length) i true its hw.1.1.2
          simp only [h0, ↓reduceIte, h1, Bool.false_eq_true, List.length_cons, List.length_append, List.length_nil]; omega
theorem size_le_A' (st : Style) : (i : Nat) → (a : Attrs) → a.wf = true → a.size ≤ 2 * (printAttrs st i a).length
  | _, .nil, _ => by simp [Attrs.size]
  | i, .cons n v r, hw => by
    simp only [Attrs.wf, Bool.and_eq_true] at hw
    have hn := attrName_length_pos n
    have hv := size_le_PA' st i v hw.1
    have hr := size_le_A' st i r hw.2
    rw [printAttrs_cons']
    simp only [Attrs.size, List.length_cons, List.length_append]
    split
    · rename_i he
      have : r = .nil := by cases r <;> simp [Attrs.isEmpty] at he <;> rfl
      subst this
      simp [Attrs.size]; omega
    · simp only [List.length_append]; omega
theorem size_le_I' (st : Style) : (j i : Nat) → (br : Bool) → (its : Items) → its.wf = true →
    its.size ≤ 2 * (printItems st j i true br its).length + 2 ∧
    its.size ≤ 2 * (printItems st j i false br its).length
  | _, _, _, .nil, _ => by simp [Items.size]
  | j, i, br, .val v r, hw => by
    simp only [Items.wf, Bool.and_eq_true] at hw
    have hv := size_le_V' st j v hw.1
    have hr := (size_le_I' st j i br r hw.2).2
    simp only [Items.size, printItems, ↓reduceIte, List.nil_append, List.length_append,
      Bool.false_eq_true, List.length_cons, List.length_nil]
    omega
  | j, i, br, .slot k v r, hw => by
    simp only [Items.wf, Bool.and_eq_true] at hw
    have hk := size_le_V' st j k hw.1.1
    have hv := size_le_V' st j v hw.1.2
    have hr := (size_le_I' st j i br r hw.2).2
    simp only [Items.size, printItems, ↓reduceIte, List.nil_append, List.length_append,
      Bool.false_eq_true, List.length_cons, List.length_nil]
    omega
theorem size_le_PA' (st : Style) : (i : Nat) → (v : Value) → v.wf = true → v.size ≤ 2 * (printA st i v).length + 1
  | _, .extant, _ => by simp [Value.size]
  | _, .int k n, _ => by simp [Value.size]
  | _, .float f, _ => by simp [Value.size]
  | _, .bool b, _ => by simp [Value.size]
  | _, .text s, _ => by simp [Value.size]
  | _, .data bs, _ => by simp [Value.size]
  | i, .record a its, hw => by
    simp only [Value.wf, Bool.and_eq_true] at hw
    have ha := size_le_A' st i a hw.1.1.1
    cases a with
    | nil =>
      simp only [printA, Attrs.isEmpty, ↓reduceIte, Value.size, Attrs.size]
      by_cases h0 : its.length = 0
      · have := (Items.length_zero_iff its).mp h0
        subst this
        simp [Items.size, Items.length]
      · by_cases h1 : its.isSoleVal = true
        · have hi := size_le_I' st (inner st i 1) i true its hw.1.1.2
          simp only [h0, ↓reduceIte, h1, List.length_cons, List.length_append, List.length_nil]
          have : ("})".toList).length = 2 := by decide
          omega
        · have hi := size_le_I' st i i false its hw.1.1.2
          simp only [h0, ↓reduceIte, h1, Bool.false_eq_true, List.length_cons, List.length_append, List.length_nil]; omega
    | cons n v r =>
      simp only [printA, Attrs.isEmpty, Bool.false_eq_true, ↓reduceIte, Value.size, List.length_cons,
        List.length_append, List.length_nil]
      by_cases h0 : its.length = 0
      · have := (Items.length_zero_iff its).mp h0
        subst this
        simp [Items.size, Items.length] at ha ⊢
        omega
      · by_cases h1 : its.isSoleVal = true
        · have hi := size_le_I' st i i false its hw.1.1.2
          simp only [h0, ↓reduceIte, h1, List.length_cons]; omega
        · have hi := size_le_I' st (inner st i its.length) i true its hw.1.1.2
          simp only [h0, ↓reduceIte, h1, Bool.false_eq_true, List.length_cons, List.length_append, List.length_nil]; omega
end

/-- **parse ∘ print** for `parse` itself and the three printers. -/
theorem parse_print (st : Style) (v : Value) (hw : v.wf = true) : parse (print st v) = .ok v.norm := by
  unfold parse
  apply parseFuel_print st v hw
  have := size_le_V' st 0 v hw
  unfold print
  omega

theorem parse_fixpoint (st : Style) (v : Value) (hw : v.wf = true) : parse (print st v.norm) = .ok v.norm := by
  have := parse_print st v.norm (by rw [Value.wf_norm]; exact hw)
  rwa [Value.norm_norm] at this


end SwimVerif.Recon
