/-
C16 — the fuel of `mpRead` suffices for every written value (`depthV v + 1 ≤ 2 * (wV v).length`), and `mpOk` values
are written without error (`mpOk v → wFits v`).
-/
import SwimVerif.Proofs.MsgPackExt

namespace SwimVerif.MsgPack
open SwimVerif.Recon

theorem wInt_len (n : Int) : 1 ≤ (wInt n).length := by
  unfold wInt
  repeat' split
  all_goals simp

theorem wStrLen_len (n : Nat) : 1 ≤ (wStrLen n).length := by
  unfold wStrLen
  repeat' split
  all_goals simp

theorem wBinLen_len (n : Nat) : 1 ≤ (wBinLen n).length := by
  unfold wBinLen
  repeat' split
  all_goals simp

theorem wMapLen_len (n : Nat) : 1 ≤ (wMapLen n).length := by
  unfold wMapLen
  repeat' split
  all_goals simp

theorem wArrLen_len (n : Nat) : 1 ≤ (wArrLen n).length := by
  unfold wArrLen
  repeat' split
  all_goals simp

theorem wExtMeta_len (n t : Nat) : 1 ≤ (wExtMeta n t).length := by
  unfold wExtMeta
  repeat' split
  all_goals simp

theorem wStr_len (s : List Char) : 1 ≤ (wStr s).length := by
  have := wStrLen_len (utf8Enc s).length
  simp only [wStr, List.length_append]; omega

theorem wV_prim_len (v : Value) (h : isRec v = false) : 1 ≤ (wV v).length := by
  cases v with
  | record a i => simp [isRec] at h
  | extant => simp [wV]
  | float d => simp [wV]
  | bool b => simp [wV]
  | text s => simpa [wV] using wStr_len s
  | data bs =>
    have := wBinLen_len bs.length
    simp only [wV, List.length_append]; omega
  | int k n =>
    cases k with
    | big =>
      have := wExtMeta_len (byteLen n.natAbs + 1) 0
      simp only [wV, wBigInt, List.length_append]; omega
    | ubig =>
      have := wExtMeta_len (byteLen n.toNat) 1
      simp only [wV, wBigUint, List.length_append]; omega
    | i32 => simpa [wV] using wInt_len n
    | i64 => simpa [wV] using wInt_len n
    | u32 => simpa [wV] using wInt_len n
    | u64 => simpa [wV] using wInt_len n

theorem depthV_prim (v : Value) (h : isRec v = false) : depthV v = 1 := by
  cases v <;> simp_all [depthV, isRec]

mutual
theorem fuelV : ∀ v, depthV v + 1 ≤ 2 * (wV v).length
  | .record a i => by
    have ha := fuelA a
    have hi := fuelI (isMapBody i) i
    have h1 := wMapLen_len a.length
    have h2 : 1 ≤ (if isMapBody i = true then wMapLen i.length else wArrLen i.length).length := by
      split
      · exact wMapLen_len _
      · exact wArrLen_len _
    simp only [depthV, wV, List.length_append]
    omega
  | .extant => by rw [depthV_prim _ rfl]; have := wV_prim_len .extant rfl; omega
  | .int k n => by rw [depthV_prim _ rfl]; have := wV_prim_len (.int k n) rfl; omega
  | .float d => by rw [depthV_prim _ rfl]; have := wV_prim_len (.float d) rfl; omega
  | .bool b => by rw [depthV_prim _ rfl]; have := wV_prim_len (.bool b) rfl; omega
  | .text s => by rw [depthV_prim _ rfl]; have := wV_prim_len (.text s) rfl; omega
  | .data bs => by rw [depthV_prim _ rfl]; have := wV_prim_len (.data bs) rfl; omega
theorem fuelA : ∀ a, depthA a ≤ 2 * (wA a).length
  | .nil => by simp [depthA]
  | .cons n v r => by
    have hv := fuelV v
    have hr := fuelA r
    have hn := wStr_len n
    simp only [depthA, wA, List.length_append]
    omega
theorem fuelI : ∀ m i, depthI i ≤ 2 * (wI m i).length
  | _, .nil => by simp [depthI]
  | m, .val v r => by
    have hv := fuelV v
    have hr := fuelI m r
    simp only [depthI, wI, List.length_append]
    omega
  | m, .slot k v r => by
    have hk := fuelV k
    have hv := fuelV v
    have hr := fuelI m r
    simp only [depthI, wI, List.length_append]
    omega
end

mutual
theorem fitsV : ∀ v, mpOk v = true → wFits v = true
  | .record a i => by
    intro h
    simp only [mpOk, Bool.and_eq_true, decide_eq_true_eq] at h
    simp only [wFits, Bool.and_eq_true, decide_eq_true_eq]
    exact ⟨⟨⟨h.1.1.1, h.1.1.2⟩, fitsA a h.1.2⟩, fitsI i h.2⟩
  | .extant => by intro _; simp [wFits]
  | .int k n => by
    intro h
    cases k <;> simp_all [wFits, mpOk, kindOk]
  | .float d => by intro _; simp [wFits]
  | .bool b => by intro _; simp [wFits]
  | .text s => by intro _; simp [wFits]
  | .data bs => by intro _; simp [wFits]
theorem fitsA : ∀ a, mpOkA a = true → wFitsA a = true
  | .nil => by intro _; simp [wFitsA]
  | .cons n v r => by
    intro h
    simp only [mpOkA, Bool.and_eq_true, decide_eq_true_eq] at h
    simp only [wFitsA, Bool.and_eq_true]
    exact ⟨fitsV v h.1.2, fitsA r h.2⟩
theorem fitsI : ∀ i, mpOkI i = true → wFitsI i = true
  | .nil => by intro _; simp [wFitsI]
  | .val v r => by
    intro h
    simp only [mpOkI, Bool.and_eq_true] at h
    simp only [wFitsI, Bool.and_eq_true]
    exact ⟨fitsV v h.1, fitsI r h.2⟩
  | .slot k v r => by
    intro h
    simp only [mpOkI, Bool.and_eq_true] at h
    simp only [wFitsI, Bool.and_eq_true]
    exact ⟨⟨fitsV k h.1.1, fitsV v h.1.2⟩, fitsI r h.2⟩
end

/-- Unconditional round trip at the level of `mpWrite` / `mpRead`. -/
theorem mp_roundtrip (v : Value) (hok : mpOk v = true) (rest : List Nat) :
    ∃ bs, mpWrite v = some bs ∧ mpRead (bs ++ rest) = some (mpNorm v, rest) := by
  refine ⟨wV v, by simp [mpWrite, fitsV v hok], ?_⟩
  have hf := fuelV v
  unfold mpRead
  exact ((goodV primRT nameRT lenRT v) hok).2 _ rest (by simp only [List.length_append]; omega)

end SwimVerif.MsgPack
