/-
The programs generated from `agent/reporting/mod.rs` (`Generated/CounterSrc.lean`) perform exactly the atomic steps of
`Model/Counters.lean`.
-/
import SwimVerif.Generated.CounterSrc

set_option linter.unusedSimpArgs false
namespace SwimVerif.CounterProg
open SwimVerif.Ctr SwimVerif.Generated.CounterSrc

/-- the steps of one `snapshot_value` call whose `compare_exchange_weak` fails spuriously `k` times -/
def snapTrace (k : Nat) : List Ev := (List.replicate k [Ev.load, Ev.cas true]).flatten ++ [.load, .cas false]

def body : KStmt := .seq .loadCount (.ite .casWeakZeroOk .breakCount .skip)

theorem run_snapTrace (s : St) (hl : s.loaded = none) (k : Nat) :
    run s (snapTrace k) = { s with n := 0, taken := s.taken + s.n } := by
  induction k with
  | zero => simp [snapTrace, run, step, hl]
  | succ k ih =>
    have h1 : step (step s .load) (.cas true) = s := by
      cases s; simp_all [step]
    have : snapTrace (k + 1) = [Ev.load, Ev.cas true] ++ snapTrace k := by
      simp [snapTrace, List.replicate_succ]
    rw [this]
    simp only [run, List.foldl_append, List.foldl_cons, List.foldl_nil] at ih ⊢
    rw [h1]; exact ih

theorem loop_lemma (F k : Nat) (s : St) (o : List Bool) (m c : Nat) (tr : List Ev) (hl : s.loaded = none)
    (ho : o = List.replicate k true ++ [false]) :
    (loopN (k + 1) (fun y => execK F body y) ⟨s, o, m, c, none, tr⟩).ret = some s.n ∧
    (loopN (k + 1) (fun y => execK F body y) ⟨s, o, m, c, none, tr⟩).trace = tr ++ snapTrace k ∧
    (loopN (k + 1) (fun y => execK F body y) ⟨s, o, m, c, none, tr⟩).s = { s with n := 0, taken := s.taken + s.n } := by
  induction k generalizing o c tr with
  | zero =>
    subst ho
    simp [loopN, body, execK, step, hl, snapTrace]
  | succ k ih =>
    have ho' : o = true :: (List.replicate k true ++ [false]) := by
      rw [ho]; simp [List.replicate_succ]
    subst ho'
    have hs : step (step s .load) (.cas true) = s := by
      cases s; simp_all [step]
    have hb : execK F body ⟨s, true :: (List.replicate k true ++ [false]), m, c, none, tr⟩ =
        ⟨s, List.replicate k true ++ [false], m, s.n, none, tr ++ [.load] ++ [.cas true]⟩ := by
      simp [body, execK, hs]
    rw [loopN]
    simp only [hb, Option.isSome_none, Bool.false_eq_true, ↓reduceIte]
    have := ih (List.replicate k true ++ [false]) s.n (tr ++ [.load] ++ [.cas true]) rfl
    refine ⟨this.1, ?_, this.2.2⟩
    rw [this.2.1]
    simp [snapTrace, List.replicate_succ]

/-- **`snapshot_value` without interference**, for any number `k` of spurious `compare_exchange_weak` failures: it
returns the counter, leaves it at zero, and its atomic accesses are `k` failed `load; cas` rounds and one successful
round — exactly the `load` / `cas` steps of `Model/Counters.lean`. -/
theorem snapshot_value_eq (s : St) (hl : s.loaded = none) (k : Nat) (tr : List Ev) :
    let x := execK (k + 1) snapshot_value { s := s, oracle := List.replicate k true ++ [false], trace := tr }
    x.ret = some s.n ∧ x.trace = tr ++ snapTrace k ∧ x.s = run s (snapTrace k) ∧
    x.s.n = 0 ∧ x.s.taken = s.taken + s.n := by
  have h := loop_lemma (k + 1) k s (List.replicate k true ++ [false]) 0 0 tr hl rfl
  have hx : execK (k + 1) snapshot_value { s := s, oracle := List.replicate k true ++ [false], trace := tr } =
      loopN (k + 1) (fun y => execK (k + 1) body y) ⟨s, List.replicate k true ++ [false], 0, 0, none, tr⟩ := rfl
  simp only [hx]
  refine ⟨h.1, h.2.1, ?_, ?_, ?_⟩
  · rw [h.2.2, run_snapTrace s hl k]
  · rw [h.2.2]
  · rw [h.2.2]

/-- `saturating_add` is one atomic `add` step (saturation at `u64::MAX` is outside the model: counters are naturals) -/
theorem saturating_add_eq (s : St) (m : Nat) (tr : List Ev) :
    (execK 0 saturating_add { s := s, m := m, trace := tr }).s = step s (.add m) ∧
    (execK 0 saturating_add { s := s, m := m, trace := tr }).trace = tr ++ [.add m] := by
  simp [saturating_add, execK]

end SwimVerif.CounterProg
