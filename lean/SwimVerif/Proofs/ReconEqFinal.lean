/-
C15: what `recon_hash` and `compare_recon_values` (as modelled) do on the output of the three printers, for every
well-formed value — from `top_fin` (the automaton on printed documents).
-/
import SwimVerif.Proofs.ReconEqTop
import SwimVerif.Proofs.ReconEqCmp
import SwimVerif.Proofs.ReconEqValid

namespace SwimVerif.ReconEq
open SwimVerif.Recon

/-! ### the run over a printed document -/

/-- The modelled parser over `print st v`: the observed emits are `obsV v`, and it finishes. -/
theorem run_print (st : Style) (v : Value) (hw : v.wf = true) :
    (run (print st v)).1.map obsOf = obsV v ∧ (run (print st v)).2 = .fin := by
  obtain ⟨k, hk, r⟩ := top_fin st v hw
  have hsz := size_le_V' st 0 v hw
  have hlen : (print st v).length = (printV st 0 v).length := rfl
  have hf := r (12 * (print st v).length + 8 - k)
  have hk' : k + (12 * (print st v).length + 8 - k) = 12 * (print st v).length + 8 := by omega
  rw [hk'] at hf
  unfold run
  simp only [ro, Prod.mk.injEq] at hf
  exact hf

/-- The events the modelled parser reads from a printed value: the printers' layout of the value's stream. -/
theorem events_print (st : Style) (v : Value) (hw : v.wf = true) : events (print st v) = (evsP v, .fin) := by
  obtain ⟨h1, h2⟩ := run_print st v hw
  have : (run (print st v)).1.map (·.ev) = evsP v := by
    rw [← obsV_fst v, ← h1, map_obsOf_fst]
  simp [events, eventsOf, this, h2]

/-! ### `HashParser` on observed emits -/

/-- `hashEmits` as a function of the observations. -/
def hashObs : List Bool → List (Event × Bool) → List HTok
  | _, [] => []
  | cb, (e, b) :: es =>
    match e with
    | .startAttr _ =>
      if b then evCalls e ++ evCalls .startBody ++ hashObs (true :: cb) es
      else evCalls e ++ hashObs (false :: cb) es
    | .endAttr =>
      (match cb with
       | true :: cb' => evCalls .endRecord ++ evCalls .endAttr ++ hashObs cb' es
       | false :: cb' => evCalls .endAttr ++ hashObs cb' es
       | [] => evCalls .endAttr ++ hashObs [] es)
    | _ => evCalls e ++ hashObs cb es

theorem hashEmits_obs (l : List Emit) : ∀ cb, hashEmits cb l = hashObs cb (l.map obsOf) := by
  induction l with
  | nil => intro cb; rfl
  | cons e es ih =>
    intro cb
    obtain ⟨ev, more, rest⟩ := e
    cases ev <;> simp only [List.map_cons, hashEmits, obsOf, hashObs, ih]
    rcases cb with _ | ⟨_ | _, _⟩ <;> rfl

theorem hashObs_plain (cb : List Bool) (e : Event) (h1 : e.isStartAttr = false) (h2 : e ≠ .endAttr)
    (es : List (Event × Bool)) : hashObs cb ((e, false) :: es) = evCalls e ++ hashObs cb es := by
  cases e <;> simp [Event.isStartAttr] at h1 h2 <;> rfl

theorem obsB_explicit {v : Value} (hi : implicitBody v = false) (hne : v ≠ .extant) : obsB v = obsV v := by
  cases v with
  | extant => exact absurd rfl hne
  | record a i =>
    cases a with
    | nil => simp [obsB, hi, obsV, obsA]
    | cons _ _ _ => rfl
  | _ => rfl

theorem implicitBody_shape {v : Value} (hi : implicitBody v = true) : ∃ i, v = .record .nil i := by
  cases v with
  | record a i =>
    cases a with
    | nil => exact ⟨i, rfl⟩
    | cons _ _ _ => simp [implicitBody] at hi
  | _ => simp [implicitBody] at hi

mutual
theorem hoV : (x : Value) → (cb : List Bool) → (tail : List (Event × Bool)) →
    hashObs cb (obsV x ++ tail) = callsE (evsV x) ++ hashObs cb tail
  | .extant, cb, tail => by simp [obsV, evsV, callsE, hashObs]
  | .int _ _, cb, tail => by simp [obsV, evsV, callsE, hashObs]
  | .float _, cb, tail => by simp [obsV, evsV, callsE, hashObs]
  | .bool _, cb, tail => by simp [obsV, evsV, callsE, hashObs]
  | .text _, cb, tail => by simp [obsV, evsV, callsE, hashObs]
  | .data _, cb, tail => by simp [obsV, evsV, callsE, hashObs]
  | .record a i, cb, tail => by
    simp only [obsV, evsV, List.append_assoc, List.cons_append, callsE_append, callsE_cons]
    rw [hoA a, hashObs_plain _ _ rfl (by simp), hoI i]
    simp only [List.nil_append, List.cons_append]
    rw [hashObs_plain _ _ rfl (by simp)]
    simp [callsE]
theorem hoA : (a : Attrs) → (cb : List Bool) → (tail : List (Event × Bool)) →
    hashObs cb (obsA a ++ tail) = callsE (evsA a) ++ hashObs cb tail
  | .nil, cb, tail => by simp [obsA, evsA, callsE]
  | .cons n v r, cb, tail => by
    rw [obsA_cons, evsA_cons]
    by_cases hve : v = .extant
    · subst hve
      simp only [implicitBody, obsB, bodyEvs, List.nil_append, List.cons_append, List.append_assoc, callsE_append,
        callsE_cons]
      simp only [hashObs, Bool.false_eq_true, ↓reduceIte]
      rw [hoA r]
      try simp [callsE]
    · cases hi : implicitBody v
      · rw [obsB_explicit hi hve]
        have hb : bodyEvs v = evsV v := by cases v <;> first | rfl | exact absurd rfl hve
        rw [hb]
        simp only [List.cons_append, List.append_assoc, List.nil_append, callsE_append, callsE_cons]
        simp only [hashObs, Bool.false_eq_true, ↓reduceIte]
        rw [hoV v]
        simp only [hashObs]
        rw [hoA r]
        try simp [callsE]
      · obtain ⟨i, rfl⟩ := implicitBody_shape hi
        have hb : obsB (.record .nil i) = obsI i := by simp [obsB, hi]
        rw [hb]
        simp only [List.cons_append, List.append_assoc, List.nil_append]
        simp only [hashObs, ↓reduceIte]
        rw [hoI i]
        simp only [hashObs]
        rw [hoA r]
        simp [callsE, bodyEvs, evsV, evsA]
theorem hoI : (i : Items) → (cb : List Bool) → (tail : List (Event × Bool)) →
    hashObs cb (obsI i ++ tail) = callsE (evsI i) ++ hashObs cb tail
  | .nil, cb, tail => by simp [obsI, evsI, callsE]
  | .val v r, cb, tail => by
    simp only [obsI, evsI, List.append_assoc, callsE_append]
    rw [hoV v, hoI r]
  | .slot k v r, cb, tail => by
    simp only [obsI, evsI, List.append_assoc, List.cons_append, callsE_append, callsE_cons]
    rw [hoV k, hashObs_plain _ _ rfl (by simp), hoV v, hoI r]
    try simp
end

/-- **`recon_hash` on printer output**: the hasher calls for the text any printer gives for a well-formed value are
the calls of the value's canonical event stream (nothing else is hashed: the parse succeeds). -/
theorem hashCalls_print (st : Style) (v : Value) (hw : v.wf = true) :
    hashCalls (print st v) = (evsV v).flatMap evCalls := by
  obtain ⟨h1, h2⟩ := run_print st v hw
  unfold hashCalls hashOf
  rw [hashEmits_obs, h1, h2]
  have := hoV v [] []
  simp only [List.append_nil, hashObs] at this
  simp [this, callsE]

end SwimVerif.ReconEq

namespace SwimVerif.ReconEq
open SwimVerif.Recon

variable {ch : List Char → Bool}

/-! ### equal values have agreeing streams in every layout -/

theorem implicitBody_veq (v w : Value) (h : veq v w = true) : implicitBody v = implicitBody w := by
  cases v with
  | record a i =>
    cases w with
    | record a' i' =>
      simp only [veq, Bool.and_eq_true] at h
      cases a with
      | cons n x r =>
        cases a' with
        | nil => simp [aeq] at h
        | cons n' x' r' => simp [implicitBody]
      | nil =>
        cases a' with
        | cons n' x' r' => simp [aeq] at h
        | nil =>
          have h2 := h.2
          rcases i with _ | ⟨x, _ | _ | _⟩ | ⟨k, x, _ | _ | _⟩ <;>
            rcases i' with _ | ⟨x', _ | _ | _⟩ | ⟨k', x', _ | _ | _⟩ <;>
            first | rfl | (simp [ieq] at h2)
    | _ => simp [veq] at h
  | _ => cases w <;> simp [veq] at h <;> rfl

mutual
theorem gV_agree : (v w : Value) → veq v w = true → evsAgree (evsG ch v) (evsG ch w) = true
  | .extant, w, h => by cases w <;> simp [veq] at h; rfl
  | .int k n, w, h => by
    cases w <;> simp [veq] at h
    subst h; exact evsAgree_refl _
  | .float f, w, h => by
    cases w <;> simp [veq] at h
    simp [evsG, evsAgree, Event.beq, Num.beq, h]
  | .bool b, w, h => by
    cases w <;> simp [veq] at h
    subst h; exact evsAgree_refl _
  | .text s, w, h => by
    cases w <;> simp [veq] at h
    subst h; exact evsAgree_refl _
  | .data bs, w, h => by
    cases w <;> simp [veq] at h
    subst h; exact evsAgree_refl _
  | .record a i, w, h => by
    cases w <;> simp [veq] at h
    simp only [evsG]
    exact evsAgree_append _ _ _ _ (gA_agree a _ h.1)
      (evsAgree_cons _ _ _ _ rfl (evsAgree_append _ _ _ _ (gI_agree i _ h.2) (evsAgree_refl _)))
theorem gA_agree : (a b : Attrs) → aeq a b = true → evsAgree (evsGA ch a) (evsGA ch b) = true
  | .nil, b, h => by cases b <;> simp [aeq] at h; rfl
  | .cons n v r, b, h => by
    cases b with
    | nil => simp [aeq] at h
    | cons n' v' r' =>
      simp only [aeq, Bool.and_eq_true, beq_iff_eq] at h
      obtain ⟨⟨hn, hv⟩, hr⟩ := h
      subst hn
      rw [evsGA_cons, evsGA_cons]
      refine evsAgree_append _ _ _ _
        (evsAgree_cons _ _ _ _ (Event.beq_refl _) (evsAgree_append _ _ _ _ ?_ (evsAgree_refl _)))
        (gA_agree r r' hr)
      -- the bodies
      have hi := implicitBody_veq v v' hv
      by_cases hve : v = .extant
      · subst hve
        cases v' <;> simp [veq] at hv
        rfl
      · have hve' : v' ≠ .extant := by
          intro h'; subst h'; cases v <;> simp [veq] at hv; exact hve rfl
        by_cases hb : (ch n && implicitBody v) = true
        · have hb' : (ch n && implicitBody v') = true := by rw [← hi]; exact hb
          simp only [Bool.and_eq_true] at hb hb'
          obtain ⟨i, rfl⟩ := implicitBody_shape hb.2
          obtain ⟨i', rfl⟩ := implicitBody_shape hb'.2
          simp only [bodyG, hb.1, hb.2, hb'.2, Bool.and_self, ↓reduceIte]
          simp only [veq, aeq, Bool.true_and] at hv
          exact gI_agree i i' hv
        · have hb' : ¬ (ch n && implicitBody v') = true := by rw [← hi]; exact hb
          have e1 : bodyG ch n v = evsG ch v := by
            cases v with
            | extant => exact absurd rfl hve
            | record a i =>
              cases a with
              | nil => simp only [bodyG, hb, Bool.false_eq_true, ↓reduceIte, evsG, evsGA, List.nil_append]
              | cons _ _ _ => rfl
            | _ => rfl
          have e2 : bodyG ch n v' = evsG ch v' := by
            cases v' with
            | extant => exact absurd rfl hve'
            | record a i =>
              cases a with
              | nil => simp only [bodyG, hb', Bool.false_eq_true, ↓reduceIte, evsG, evsGA, List.nil_append]
              | cons _ _ _ => rfl
            | _ => rfl
          rw [e1, e2]
          exact gV_agree v v' hv
theorem gI_agree : (i j : Items) → ieq i j = true → evsAgree (evsGI ch i) (evsGI ch j) = true
  | .nil, j, h => by cases j <;> simp [ieq] at h; rfl
  | .val v r, j, h => by
    cases j with
    | nil => simp [ieq] at h
    | slot _ _ _ => simp [ieq] at h
    | val v' r' =>
      simp only [ieq, Bool.and_eq_true] at h
      simp only [evsGI]
      exact evsAgree_append _ _ _ _ (gV_agree v v' h.1) (gI_agree r r' h.2)
  | .slot k v r, j, h => by
    cases j with
    | nil => simp [ieq] at h
    | val _ _ => simp [ieq] at h
    | slot k' v' r' =>
      simp only [ieq, Bool.and_eq_true] at h
      simp only [evsGI]
      exact evsAgree_append _ _ _ _ (gV_agree k k' h.1.1)
        (evsAgree_cons _ _ _ _ rfl (evsAgree_append _ _ _ _ (gV_agree v v' h.1.2) (gI_agree r r' h.2)))
end

end SwimVerif.ReconEq

namespace SwimVerif.ReconEq
open SwimVerif.Recon

variable {ch : List Char → Bool}

/-! ### the validator on any layout: every value goes in as one item, never `Invalid` -/

/-- An attribute's end always succeeds above a record header: the builder reports some size for the body. -/
theorem feed_endAttr_any (c : ItemCollection) (key : KeyState) (attrs : Nat) (items : ItemCollection)
    (rest : List BuilderState) : ∃ m,
    ((S (F .attr true 0 c :: F key false attrs items :: rest) none).feed .endAttr).1
      = S (F key false (attrs + m) items :: rest) none := by
  simp only [VV.feed, VV.pop, Event.isPrim]
  exact ⟨_, rfl⟩

theorem bodyG_explicit {n : List Char} {v : Value} (hve : v ≠ .extant) (hb : ¬ (ch n && implicitBody v) = true) :
    bodyG ch n v = evsG ch v := by
  cases v with
  | extant => exact absurd rfl hve
  | record a i =>
    cases a with
    | nil => simp only [bodyG, hb, Bool.false_eq_true, ↓reduceIte, evsG, evsGA, List.nil_append]
    | cons _ _ _ => rfl
  | _ => rfl

mutual
theorem fgV : (x : Value) → ∀ (key : KeyState) (attrs : Nat) (items : ItemCollection) (rest : List BuilderState)
    (sk : Option ValueType) (tail : List Event), ∃ t,
    feedAll (S (F key true attrs items :: rest) sk) (evsG ch x ++ tail)
      = feedAll (S (F key true attrs (items.push (mkItem sk t)) :: rest) none) tail
  | .extant, key, attrs, items, rest, sk, tail => ⟨.primitive, by
    simp only [evsG, List.cons_append, List.nil_append, feedAll]; rw [feed_prim _ _ _ _ _ _ rfl]⟩
  | .int k n, key, attrs, items, rest, sk, tail => ⟨.primitive, by
    simp only [evsG, List.cons_append, List.nil_append, feedAll]; rw [feed_prim _ _ _ _ _ _ rfl]⟩
  | .float f, key, attrs, items, rest, sk, tail => ⟨.primitive, by
    simp only [evsG, List.cons_append, List.nil_append, feedAll]; rw [feed_prim _ _ _ _ _ _ rfl]⟩
  | .bool b, key, attrs, items, rest, sk, tail => ⟨.primitive, by
    simp only [evsG, List.cons_append, List.nil_append, feedAll]; rw [feed_prim _ _ _ _ _ _ rfl]⟩
  | .text s, key, attrs, items, rest, sk, tail => ⟨.primitive, by
    simp only [evsG, List.cons_append, List.nil_append, feedAll]; rw [feed_prim _ _ _ _ _ _ rfl]⟩
  | .data bs, key, attrs, items, rest, sk, tail => ⟨.primitive, by
    simp only [evsG, List.cons_append, List.nil_append, feedAll]; rw [feed_prim _ _ _ _ _ _ rfl]⟩
  | .record .nil i, key, attrs, items, rest, sk, tail => by
    obtain ⟨c', hc⟩ := fgI i (keyOf sk) 0 {} (F key true attrs items :: rest) (.endRecord :: tail)
    refine ⟨.record 0 c'.itemsLen, ?_⟩
    simp only [evsG, evsGA, List.nil_append, List.cons_append, List.append_assoc, feedAll]
    rw [feed_startBody_inBody, hc, feedAll, feed_endRecord]
  | .record (.cons n v r) i, key, attrs, items, rest, sk, tail => by
    have h1 : feedAll (S (F key true attrs items :: rest) sk) (evsG ch (.record (.cons n v r) i) ++ tail)
        = feedAll (S (F (keyOf sk) false 0 {} :: F key true attrs items :: rest) none)
            (evsG ch (.record (.cons n v r) i) ++ tail) := by
      simp only [evsG, evsGA_cons, List.cons_append, List.append_assoc, feedAll]
      rw [feed_startAttr_inBody]
    obtain ⟨m, hm⟩ := fgA (.cons n v r) (keyOf sk) 0 {} (F key true attrs items :: rest)
      (.startBody :: (evsGI ch i ++ .endRecord :: tail))
    obtain ⟨c', hc⟩ := fgI i (keyOf sk) (0 + m) {} (F key true attrs items :: rest) (.endRecord :: tail)
    refine ⟨.record (0 + m) c'.itemsLen, ?_⟩
    rw [h1]
    simp only [evsG, List.append_assoc, List.cons_append, List.nil_append] at hm ⊢
    rw [hm, feedAll, feed_startBody_header, hc, feedAll, feed_endRecord]
theorem fgA : (a : Attrs) → ∀ (key : KeyState) (attrs : Nat) (items : ItemCollection) (rest : List BuilderState)
    (tail : List Event), ∃ m,
    feedAll (S (F key false attrs items :: rest) none) (evsGA ch a ++ tail)
      = feedAll (S (F key false (attrs + m) items :: rest) none) tail
  | .nil, key, attrs, items, rest, tail => ⟨0, by simp [evsGA]⟩
  | .cons n v r, key, attrs, items, rest, tail => by
    by_cases hve : v = .extant
    · subst hve
      obtain ⟨m, hm⟩ := fgA r key (attrs + ValueType.primitive.len) items rest tail
      refine ⟨ValueType.primitive.len + m, ?_⟩
      rw [evsGA_cons]
      simp only [bodyG, List.cons_append, List.append_assoc, List.nil_append, feedAll]
      rw [feed_startAttr_header, feed_endAttr_empty, hm, Nat.add_assoc]
    · by_cases hb : (ch n && implicitBody v) = true
      · simp only [Bool.and_eq_true] at hb
        obtain ⟨i, rfl⟩ := implicitBody_shape hb.2
        obtain ⟨c', hc⟩ := fgI i .attr 0 {} (F key false attrs items :: rest) (.endAttr :: (evsGA ch r ++ tail))
        obtain ⟨mb, hmb⟩ := feed_endAttr_any c' key attrs items rest
        obtain ⟨m, hm⟩ := fgA r key (attrs + mb) items rest tail
        refine ⟨mb + m, ?_⟩
        rw [evsGA_cons]
        simp only [bodyG, hb.1, hb.2, Bool.and_self, ↓reduceIte, List.cons_append, List.append_assoc, List.nil_append,
          feedAll]
        rw [feed_startAttr_header, hc, feedAll, hmb, hm, Nat.add_assoc]
      · obtain ⟨t, ht⟩ := fgV v .attr 0 {} (F key false attrs items :: rest) none (.endAttr :: (evsGA ch r ++ tail))
        obtain ⟨m, hm⟩ := fgA r key (attrs + t.len) items rest tail
        refine ⟨t.len + m, ?_⟩
        rw [evsGA_cons, bodyG_explicit hve hb]
        simp only [List.cons_append, List.append_assoc, List.nil_append, feedAll]
        simp only [mkItem] at ht
        rw [feed_startAttr_header, ht, feedAll, feed_endAttr_one, hm, Nat.add_assoc]
theorem fgI : (i : Items) → ∀ (key : KeyState) (attrs : Nat) (items : ItemCollection) (rest : List BuilderState)
    (tail : List Event), ∃ c',
    feedAll (S (F key true attrs items :: rest) none) (evsGI ch i ++ tail)
      = feedAll (S (F key true attrs c' :: rest) none) tail
  | .nil, key, attrs, items, rest, tail => ⟨items, by simp [evsGI]⟩
  | .val v r, key, attrs, items, rest, tail => by
    obtain ⟨t, ht⟩ := fgV v key attrs items rest none (evsGI ch r ++ tail)
    obtain ⟨c', hc⟩ := fgI r key attrs (items.push (.value t)) rest tail
    refine ⟨c', ?_⟩
    simp only [mkItem] at ht
    simp only [evsGI, List.append_assoc]
    rw [ht, hc]
  | .slot k v r, key, attrs, items, rest, tail => by
    obtain ⟨t, ht⟩ := fgV k key attrs items rest none (.slot :: (evsG ch v ++ (evsGI ch r ++ tail)))
    obtain ⟨t', ht'⟩ := fgV v key attrs { (items.push (.value t)) with last := none } rest (some t) (evsGI ch r ++ tail)
    obtain ⟨c', hc⟩ := fgI r key attrs
      (({ (items.push (.value t)) with last := none } : ItemCollection).push (mkItem (some t) t')) rest tail
    refine ⟨c', ?_⟩
    simp only [mkItem] at ht
    simp only [evsGI, List.append_assoc, List.cons_append]
    rw [ht, feedAll, feed_slot, ht', hc]
end

/-- At the top level the stream of any value in any layout brings the validator back to its initial state. -/
theorem feedAll_top_layout (x : Value) : feedAll {} (evsG ch x) = {} := by
  cases x with
  | record a i =>
    cases a with
    | nil =>
      obtain ⟨c', hc⟩ := fgI (ch := ch) i .noKey 0 {} [] [.endRecord]
      simp only [evsG, evsGA, List.nil_append, feedAll]
      have h0 : ((({} : VV).feed .startBody).1) = S [F .noKey true 0 {}] none := rfl
      rw [h0, hc]
      rfl
    | cons n v r =>
      have h0 : feedAll {} (evsG ch (.record (.cons n v r) i))
          = feedAll (S [F .noKey false 0 {}] none) (evsG ch (.record (.cons n v r) i)) := by
        simp only [evsG, evsGA_cons, List.cons_append, List.append_assoc, feedAll]
        rfl
      obtain ⟨m, hm⟩ := fgA (ch := ch) (.cons n v r) .noKey 0 {} [] (.startBody :: (evsGI ch i ++ [.endRecord]))
      obtain ⟨c', hc⟩ := fgI (ch := ch) i .noKey (0 + m) {} [] [.endRecord]
      rw [h0]
      simp only [evsG]
      rw [hm, feedAll, feed_startBody_header, hc]
      rfl
  | _ => rfl

/-- Equal values, each in any layout (the same choice of implicit bodies on both sides), compare `Some(true)`. -/
theorem layout_equal (v w : Value) (h : veq v w = true) :
    incrementalCompare (stream (evsG ch v, .fin)) (stream (evsG ch w, .fin)) = some true := by
  have hs : ∀ l : List Event, stream (l, Term.fin) = l.map SItem.ev := by
    intro l; simp [stream]
  rw [hs, hs]
  unfold incrementalCompare
  apply cmpLoop_agree_valid
  · simp; omega
  · exact VV.init_beq
  · exact gV_agree v w h
  · rw [feedAll_top_layout]; decide

/-- **`compare_recon_values` on printer output**: equal well-formed values, printed by any two of the three printers,
compare equal — no false splits on what the writers produce. -/
theorem compare_print (s1 s2 : Style) (v w : Value) (hv : v.wf = true) (hw : w.wf = true) (h : veq v w = true) :
    compareRecon (print s1 v) (print s2 w) = true := by
  have e1 := events_print s1 v hv
  have e2 := events_print s2 w hw
  unfold events at e1 e2
  unfold compareRecon compareOf
  rw [e1, e2]
  have := layout_equal (ch := fun _ => true) v w h
  unfold evsP
  rw [this]

end SwimVerif.ReconEq
