/-
C03 (map lane): concurrent syncs. What a request of remote `r` changes for the others is the schedule only (which
write serves whom): every step of the write queues is a step of the write queues in which `r` never asked, or a step
that touches nothing but `r`'s own queue.
-/
import SwimVerif.Proofs.C03Pop

set_option linter.unusedVariables false
set_option linter.unusedSimpArgs false
namespace SwimVerif.ML

/-- the frames a run of the lane writes -/
def indepFramesOf : St → List Op → List Frame
  | _, [] => []
  | s, op :: rest =>
    (match (step s op).2 with
      | some (_, some f) => [f]
      | _ => []) ++ indepFramesOf (step s op).1 rest

def Frame.isTo (r : Nat) : Frame → Bool
  | .sync r' _ _ => r' == r
  | .synced r' => r' == r
  | _ => false

def Op.isSyncOf (r : Nat) : Op → Bool
  | .sync r' => r' == r
  | _ => false

/-- one step of the write queues with the choice of whom to serve left open (`WriteQueues::pop` makes one such
choice: `popR_nPop`) -/
inductive NPop : EQ → List SyncQ → ToWrite → EQ → List SyncQ → Prop
  | event (q : EQ) (l : List SyncQ) (a : Act) (rest : List Act) : q.events = a :: rest →
      NPop q l (.event a) { events := rest, head := (q.head + 1) % M64, emap := popEmap q.emap a } (updateSyncs l a)
  | syncEvent (q : EQ) (l : List SyncQ) (i r k : Nat) (ks : List Nat) (p : Nat) : l[i]? = some ⟨r, k :: ks, p⟩ →
      NPop q l (.syncEvent r k) q (l.set i ⟨r, ks, p⟩)
  | synced (q : EQ) (l : List SyncQ) (i r p : Nat) : l[i]? = some ⟨r, [], p⟩ → (p = 0 ∨ q.events = []) →
      NPop q l (.synced r) q (l.eraseIdx i)

theorem popR_nPop {w : WQ} {t : ToWrite} {w' : WQ} (h : PopR w (some t) w') : NPop w.eq w.syncs t w'.eq w'.syncs := by
  cases h with
  | event a rest he => exact NPop.event _ _ a rest he
  | syncEvent r k ks p hg => exact NPop.syncEvent _ _ _ r k ks p hg
  | synced r p hg hp => exact NPop.synced _ _ _ r p hg hp

/-- the sync queues without the one of remote `r` -/
def eraseRemote (r : Nat) (l : List SyncQ) : List SyncQ := l.filter (fun q => !(q.r == r))

def ToWrite.isFor (r : Nat) : ToWrite → Bool
  | .syncEvent r' _ => r' == r
  | .synced r' => r' == r
  | .event _ => false

theorem eraseRemote_updateSyncs (r : Nat) (l : List SyncQ) (a : Act) :
    eraseRemote r (updateSyncs l a) = updateSyncs (eraseRemote r l) a := by
  induction l with
  | nil => cases a <;> rfl
  | cons x xs ih =>
    cases a <;>
    · simp only [eraseRemote, updateSyncs, List.map_cons, List.filter_cons] at ih ⊢
      split <;> simp_all

theorem eraseRemote_set_same (r : Nat) (q q' : SyncQ) (hq : q.r = r) (hq' : q'.r = r) :
    ∀ (l : List SyncQ) (i : Nat), l[i]? = some q → eraseRemote r (l.set i q') = eraseRemote r l := by
  intro l
  induction l with
  | nil => intro i h; simp at h
  | cons x xs ih =>
    intro i h
    cases i with
    | zero =>
      simp at h; subst h
      simp [eraseRemote, List.filter_cons, hq, hq']
    | succ i =>
      simp at h
      have := ih i h
      simp only [eraseRemote, List.set_cons_succ, List.filter_cons] at this ⊢
      rw [this]

theorem eraseRemote_eraseIdx_same (r : Nat) (q : SyncQ) (hq : q.r = r) :
    ∀ (l : List SyncQ) (i : Nat), l[i]? = some q → eraseRemote r (l.eraseIdx i) = eraseRemote r l := by
  intro l
  induction l with
  | nil => intro i h; simp at h
  | cons x xs ih =>
    intro i h
    cases i with
    | zero =>
      simp at h; subst h
      simp [eraseRemote, List.filter_cons, hq]
    | succ i =>
      simp at h
      have := ih i h
      simp only [eraseRemote, List.eraseIdx_cons_succ, List.filter_cons] at this ⊢
      rw [this]

theorem eraseRemote_set_other (r : Nat) (q q' : SyncQ) (hq : q.r ≠ r) (hq' : q'.r ≠ r) :
    ∀ (l : List SyncQ) (i : Nat), l[i]? = some q →
    ∃ j, (eraseRemote r l)[j]? = some q ∧ eraseRemote r (l.set i q') = (eraseRemote r l).set j q' := by
  intro l
  induction l with
  | nil => intro i h; simp at h
  | cons x xs ih =>
    intro i h
    cases i with
    | zero =>
      simp at h; subst h
      refine ⟨0, ?_, ?_⟩ <;> simp [eraseRemote, List.filter_cons, hq, hq']
    | succ i =>
      simp at h
      obtain ⟨j, hj1, hj2⟩ := ih i h
      simp only [eraseRemote] at hj1 hj2
      by_cases hx : x.r = r
      · refine ⟨j, ?_, ?_⟩ <;> simp [eraseRemote, List.filter_cons, hx, hj1, hj2]
      · refine ⟨j + 1, ?_, ?_⟩ <;> simp [eraseRemote, List.filter_cons, hx, hj1, hj2]

theorem eraseRemote_eraseIdx_other (r : Nat) (q : SyncQ) (hq : q.r ≠ r) :
    ∀ (l : List SyncQ) (i : Nat), l[i]? = some q →
    ∃ j, (eraseRemote r l)[j]? = some q ∧ eraseRemote r (l.eraseIdx i) = (eraseRemote r l).eraseIdx j := by
  intro l
  induction l with
  | nil => intro i h; simp at h
  | cons x xs ih =>
    intro i h
    cases i with
    | zero =>
      simp at h; subst h
      refine ⟨0, ?_, ?_⟩ <;> simp [eraseRemote, List.filter_cons, hq]
    | succ i =>
      simp at h
      obtain ⟨j, hj1, hj2⟩ := ih i h
      simp only [eraseRemote] at hj1 hj2
      by_cases hx : x.r = r
      · refine ⟨j, ?_, ?_⟩ <;> simp [eraseRemote, List.filter_cons, hx, hj1, hj2]
      · refine ⟨j + 1, ?_, ?_⟩ <;> simp [eraseRemote, List.filter_cons, hx, hj1, hj2]

/-- **Independence up to the schedule**: a step that serves `r` changes nothing but `r`'s queue; any other step is
the same step of the write queues from which `r`'s request is erased. -/
theorem nPop_erase {q : EQ} {l : List SyncQ} {t : ToWrite} {q' : EQ} {l' : List SyncQ} (h : NPop q l t q' l') (r : Nat) :
    (t.isFor r = true → q' = q ∧ eraseRemote r l' = eraseRemote r l) ∧
    (t.isFor r = false → NPop q (eraseRemote r l) t q' (eraseRemote r l')) := by
  cases h with
  | event a rest he =>
    refine ⟨fun hf => by simp [ToWrite.isFor] at hf, fun _ => ?_⟩
    rw [eraseRemote_updateSyncs]
    exact NPop.event _ _ a rest he
  | syncEvent i r0 k ks p hg =>
    constructor
    · intro hf
      simp only [ToWrite.isFor, beq_iff_eq] at hf
      exact ⟨rfl, eraseRemote_set_same r ⟨r0, k :: ks, p⟩ ⟨r0, ks, p⟩ hf hf _ _ hg⟩
    · intro hf
      simp only [ToWrite.isFor, beq_eq_false_iff_ne, ne_eq] at hf
      obtain ⟨j, hj1, hj2⟩ := eraseRemote_set_other r ⟨r0, k :: ks, p⟩ ⟨r0, ks, p⟩ hf hf _ _ hg
      rw [hj2]
      exact NPop.syncEvent _ _ j r0 k ks p hj1
  | synced i r0 p hg hp =>
    constructor
    · intro hf
      simp only [ToWrite.isFor, beq_iff_eq] at hf
      exact ⟨rfl, eraseRemote_eraseIdx_same r ⟨r0, [], p⟩ hf _ _ hg⟩
    · intro hf
      simp only [ToWrite.isFor, beq_eq_false_iff_ne, ne_eq] at hf
      obtain ⟨j, hj1, hj2⟩ := eraseRemote_eraseIdx_other r ⟨r0, [], p⟩ hf _ _ hg
      rw [hj2]
      exact NPop.synced _ _ j r0 p hj1 hp

/-- a sync request of `r` itself is invisible in the erased queues; one of another remote is the same request -/
theorem eraseRemote_sync (r r' : Nat) (l : List SyncQ) (keys : List Nat) (p : Nat) :
    eraseRemote r (l ++ [⟨r', keys, p⟩]) =
      if r' = r then eraseRemote r l else eraseRemote r l ++ [⟨r', keys, p⟩] := by
  by_cases h : r' = r <;> simp [eraseRemote, List.filter_append, List.filter_cons, h]

end SwimVerif.ML
