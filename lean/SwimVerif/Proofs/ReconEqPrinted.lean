/-
C15: the pushdown automaton on the output of the three printers.  For every value of C09's fragment `Value.wf`, in
every style, the run of the modelled `IncrementalReconParser` over the printed text emits exactly the events of the
printers' layout `evsP v` (with the implicit-record decisions `HashParser` takes), by the same size induction as C09's
`parse_print`, reusing its layout lemmas and — through the token bridge — its lexing lemmas.
-/
import SwimVerif.Proofs.ReconEqRun

namespace SwimVerif.ReconEq
open SwimVerif.Recon

/-! ### what is observed for a printed value -/

mutual
def obsV : Value → List (Event × Bool)
  | .record a i => obsA a ++ ((.startBody, false) :: (obsI i ++ [(.endRecord, false)]))
  | .extant => [(.extant, false)]
  | .int _ n => [(.num (numOfInt n), false)]
  | .float f => [(.num (.float f), false)]
  | .bool b => [(.bool b, false)]
  | .text s => [(.text s, false)]
  | .data bs => [(.blob bs, false)]
def obsA : Attrs → List (Event × Bool)
  | .nil => []
  | .cons n v r =>
    ((.startAttr n, implicitBody v) :: ((match v with
        | .extant => []
        | .record .nil i =>
          if implicitBody (.record .nil i) then obsI i else (.startBody, false) :: (obsI i ++ [(.endRecord, false)])
        | w => obsV w) ++ [(.endAttr, false)])) ++ obsA r
def obsI : Items → List (Event × Bool)
  | .nil => []
  | .val v r => obsV v ++ obsI r
  | .slot k v r => obsV k ++ ((.slot, false) :: (obsV v ++ obsI r))
end

/-- The observation of an attribute's body. -/
def obsB (v : Value) : List (Event × Bool) :=
  match v with
  | .extant => []
  | .record .nil i =>
    if implicitBody (.record .nil i) then obsI i else (.startBody, false) :: (obsI i ++ [(.endRecord, false)])
  | w => obsV w

theorem obsA_cons (n : List Char) (v : Value) (r : Attrs) :
    obsA (.cons n v r) = ((.startAttr n, implicitBody v) :: (obsB v ++ [(.endAttr, false)])) ++ obsA r := by
  cases v with
  | record a i => cases a <;> simp [obsA, obsB]
  | _ => simp [obsA, obsB]

theorem obsV_prim {v : Value} (hp : v.isPrim = true) : obsV v = [(primEv v, false)] := by
  cases v <;> simp [Value.isPrim] at hp <;> rfl

theorem implicitBody_iff (its : Items) :
    implicitBody (.record .nil its) = !(decide (its.length = 0) || its.isSoleVal) := by
  cases its with
  | nil => rfl
  | val x r => cases r <;> simp [implicitBody, Items.length, Items.isSoleVal]
  | slot k x r => cases r <;> simp [implicitBody, Items.length, Items.isSoleVal]

theorem obsB_bodyItems (v : Value) (hne : v ≠ .extant) : obsB v = obsI (bodyItems v) := by
  cases v with
  | extant => exact absurd rfl hne
  | record a its =>
    cases a with
    | nil =>
      simp only [obsB, bodyItems, implicitBody_iff]
      by_cases h : its.length = 0 ∨ its.isSoleVal = true
      · have : (decide (its.length = 0) || its.isSoleVal) = true := by
          rcases h with h | h <;> simp [h]
        simp [h, this, obsI, obsV, obsA]
      · have : (decide (its.length = 0) || its.isSoleVal) = false := by
          simp only [not_or] at h
          simp [h.1, h.2]
        simp [h, this]
    | cons m w q => simp [obsB, bodyItems, obsI]
  | _ => simp [obsB, bodyItems, obsI]

/-! ### the events are those of the printers' layout -/

mutual
theorem obsV_fst : (v : Value) → (obsV v).map Prod.fst = evsP v
  | .record a i => by
    simp only [obsV, evsP, evsG, List.map_append, List.map_cons, List.map_nil]
    rw [obsA_fst a, obsI_fst i]
  | .extant => rfl
  | .int _ _ => rfl
  | .float _ => rfl
  | .bool _ => rfl
  | .text _ => rfl
  | .data _ => rfl
theorem obsA_fst : (a : Attrs) → (obsA a).map Prod.fst = evsGA (fun _ => true) a
  | .nil => rfl
  | .cons n .extant r => by simp [obsA, evsGA, obsA_fst r]
  | .cons n (.record .nil i) r => by
    simp only [obsA, evsGA, Bool.true_and]
    by_cases h : implicitBody (.record .nil i) = true
    · simp [h, obsI_fst i, obsA_fst r]
    · simp [h, obsI_fst i, obsA_fst r]
  | .cons n (.record (.cons m w q) i) r => by
    have := obsV_fst (.record (.cons m w q) i)
    simp only [evsP] at this
    simp [obsA, evsGA, this, obsA_fst r]
  | .cons n (.int k z) r => by simp [obsA, evsGA, obsV, evsG, obsA_fst r]
  | .cons n (.float f) r => by simp [obsA, evsGA, obsV, evsG, obsA_fst r]
  | .cons n (.bool b) r => by simp [obsA, evsGA, obsV, evsG, obsA_fst r]
  | .cons n (.text t) r => by simp [obsA, evsGA, obsV, evsG, obsA_fst r]
  | .cons n (.data bs) r => by simp [obsA, evsGA, obsV, evsG, obsA_fst r]
theorem obsI_fst : (i : Items) → (obsI i).map Prod.fst = evsGI (fun _ => true) i
  | .nil => rfl
  | .val v r => by
    have := obsV_fst v
    simp only [evsP] at this
    simp [obsI, evsGI, this, obsI_fst r]
  | .slot k v r => by
    have h1 := obsV_fst k
    have h2 := obsV_fst v
    simp only [evsP] at h1 h2
    simp [obsI, evsGI, h1, h2, obsI_fst r]
end

theorem obsB_fst (n : List Char) (v : Value) : (obsB v).map Prod.fst = bodyG (fun _ => true) n v := by
  cases v with
  | extant => rfl
  | record a i =>
    cases a with
    | nil =>
      simp only [obsB, bodyG, Bool.true_and]
      by_cases h : implicitBody (.record .nil i) = true
      · simp [h, obsI_fst i]
      · simp [h, obsI_fst i]
    | cons m w q =>
      have := obsV_fst (.record (.cons m w q) i)
      simp only [evsP] at this
      simp [obsB, bodyG, this]
  | int _ _ => rfl
  | float _ => rfl
  | bool _ => rfl
  | text _ => rfl
  | data _ => rfl

end SwimVerif.ReconEq

namespace SwimVerif.ReconEq
open SwimVerif.Recon

/-! ### the induction hypothesis -/

theorem step_congr (S : List PS) {x y : List Char} (h : skipSpaces x = skipSpaces y) : step S x = step S y := by
  cases S with
  | nil => rfl
  | cons top below => unfold step; rw [h]

theorem finalStep_congr (S : List PS) {x y : List Char} (h : skipSpaces x = skipSpaces y) :
    finalStep S x = finalStep S y := by
  have hm := skipMulti_of_skipSpaces_eq h
  unfold finalStep
  split
  · rw [hm]
  · rw [h]
  · rfl

theorem ro_congr (f : Nat) (S : List PS) {x y : List Char} (h : skipSpaces x = skipSpaces y) : ro f S x = ro f S y := by
  cases f with
  | zero => rfl
  | succ n => simp only [ro, runFrom, step_congr S h, finalStep_congr S h]

theorem Run.congr {S S' : List PS} {x y rest : List Char} {O : List (Event × Bool)} {K : Nat}
    (h : Run S y O S' rest K) (hxy : skipSpaces x = skipSpaces y) : Run S x O S' rest K := by
  obtain ⟨k, hk, r⟩ := h
  exact ⟨k, hk, fun f => by rw [ro_congr _ _ hxy]; exact r f⟩

theorem finalStep_white (top : PS) (below : List PS)
    (htop : top = .init ∨ ∃ k, top = .body k .startOrNl ∨ top = .body k .afterSep)
    {w : List Char} (hw : White w) (inp : List Char) :
    finalStep (top :: below) (w ++ inp) = finalStep (top :: below) inp := by
  rcases htop with rfl | ⟨k, rfl | rfl⟩
  · cases below with
    | nil => simp only [finalStep, skipMulti_white hw]
    | cons b bs => rfl
  · rfl
  · rfl

theorem ro_white (top : PS) (below : List PS)
    (htop : top = .init ∨ ∃ k, top = .body k .startOrNl ∨ top = .body k .afterSep)
    {w : List Char} (hw : White w) {x : Char} (hx : isMulti x = false) (t : List Char) (f : Nat) :
    ro f (top :: below) (w ++ x :: t) = ro f (top :: below) (x :: t) := by
  cases f with
  | zero => rfl
  | succ n => simp only [ro, runFrom, step_white_multi top below htop hw hx, finalStep_white top below htop hw]

theorem Run.white {top : PS} {below S' : List PS} {rest : List Char} {O : List (Event × Bool)} {K : Nat}
    (htop : top = .init ∨ ∃ k, top = .body k .startOrNl ∨ top = .body k .afterSep)
    {w : List Char} (hw : White w) {x : Char} (hx : isMulti x = false) {t : List Char}
    (h : Run (top :: below) (x :: t) O S' rest K) : Run (top :: below) (w ++ x :: t) O S' rest K := by
  obtain ⟨k, hk, r⟩ := h
  exact ⟨k, hk, fun f => by rw [ro_white top below htop hw hx]; exact r f⟩

/-- What follows a value inside a body (after spaces): a separator, a closing delimiter, a colon or a new line. -/
def RecEnd (rest : List Char) : Prop :=
  ∃ x xs, skipSpaces rest = x :: xs ∧ (x = ',' ∨ x = ')' ∨ x = '}' ∨ x = ':' ∨ x = '\n')

/-- Induction hypothesis (all layouts), in the shape of C09's `IHs`. -/
structure RH (n : Nat) : Prop where
  elem : ∀ v : Value, v.size ≤ n → v.wf = true → v ≠ .extant → ∀ (st : Style) (i : Nat) (cur : PS) (below : List PS)
      (rest : List Char), ItemStart cur → TokEnd rest → rest ≠ [] → RecEnd rest →
      ∃ rest', skipSpaces rest' = skipSpaces rest ∧
        Run (cur :: below) (printV st i v ++ rest) (obsV v) (afterOf cur :: below) rest' (4 * v.size)
  items : ∀ its : Items, its.size ≤ n → its.wf = true → ∀ (st : Style) (k : Kind) (j i : Nat) (br : Bool)
      (below S' : List PS) (rest : List Char) (req : Bool) (w e : List Char), White w → EndW e →
      endStack k below = some S' → (req = false → its.isSoleExtant = false) → (req = true → its ≠ .nil) →
      Run (.body k (if req then .afterSep else .startOrNl) :: below)
        (w ++ (printItems st j i true br its ++ (e ++ k.close :: rest)))
        (obsI its ++ [(kindEndEvent k, false)]) S' rest (4 * its.size + 3)
  attrs : ∀ r : Attrs, r.size ≤ n → r.wf = true → ∀ (st : Style) (i : Nat) (B : List PS) (tail : List Char),
      AttrFollow' tail → tail ≠ [] →
      Run (.afterAttr :: B) ((if r.isEmpty = true then [] else pad st ++ printAttrs st i r) ++ tail) (obsA r)
        (.afterAttr :: B) tail (4 * r.size)

theorem kindEnd_plain (k : Kind) : (kindEndEvent k).isStartAttr = false := by cases k <;> rfl

section tails
variable {n : Nat} (ih : RH n) (st : Style) (r : Items) (hs : r.size ≤ n) (hw : r.wf = true) (k : Kind) (j i : Nat)
  (br : Bool) (below : List PS) {S' : List PS} (hS : endStack k below = some S') (rest : List Char) {e : List Char}
  (he : EndW e)
include ih hs hw hS he

/-- After an item (in `AfterValue` / `AfterSlot`): the end of the block, or a comma and the remaining items. -/
theorem after_item (slotOk : Bool) {x : List Char}
    (hx : skipSpaces x = skipSpaces (printItems st j i false br r ++ (e ++ k.close :: rest))) :
    Run (.body k (if slotOk then .afterValue else .afterSlot) :: below) x
      (obsI r ++ [(kindEndEvent k, false)]) S' rest (4 * r.size + 4) := by
  refine Run.congr ?_ hx
  rw [printItems_notFirst']
  cases r with
  | nil =>
    simp only [List.nil_append, obsI]
    exact (run_close_after k slotOk below hS he rest).mono (by omega)
  | val v r' =>
    simp only [List.cons_append, List.append_assoc]
    have h1 := Run.of_step (step_comma_after k slotOk below
      (itemPad st i br ++ (printItems st j i true br (.val v r') ++ (e ++ k.close :: rest))))
    have h2 := ih.items _ hs hw st k j i br below S' rest true _ e (itemPad_white st i br) he hS (by simp) (by simp)
    simp only [↓reduceIte] at h2
    exact ((h1.trans h2).mono (by omega)).cast rfl (by simp [obsEmits, emits])
  | slot k' v r' =>
    simp only [List.cons_append, List.append_assoc]
    have h1 := Run.of_step (step_comma_after k slotOk below
      (itemPad st i br ++ (printItems st j i true br (.slot k' v r') ++ (e ++ k.close :: rest))))
    have h2 := ih.items _ hs hw st k j i br below S' rest true _ e (itemPad_white st i br) he hS (by simp) (by simp)
    simp only [↓reduceIte] at h2
    exact ((h1.trans h2).mono (by omega)).cast rfl (by simp [obsEmits, emits])

/-- What follows an item ends a token, is not empty, and ends a body-less record. -/
theorem tail_facts :
    TokEnd (printItems st j i false br r ++ (e ++ k.close :: rest)) ∧
    printItems st j i false br r ++ (e ++ k.close :: rest) ≠ [] ∧
    RecEnd (printItems st j i false br r ++ (e ++ k.close :: rest)) := by
  rw [printItems_notFirst']
  cases r with
  | nil =>
    obtain ⟨h1, _⟩ := end_follow k he rest
    refine ⟨by simpa using h1, by simp, ?_⟩
    simp only [List.nil_append]
    rcases he with hsp | ⟨s, rfl, hsp⟩
    · refine ⟨k.close, rest, by rw [skipSpaces_spaces hsp, skipSpaces_close], ?_⟩
      cases k <;> simp [Kind.close]
    · exact ⟨'\n', s ++ k.close :: rest, by simp [skipSpaces_cons (show isSpace '\n' = false by decide)], by simp⟩
  | val v r' =>
    exact ⟨by intro c hc; simp at hc; subst hc; decide, by simp,
      ⟨',', _, by simp [skipSpaces_cons (show isSpace ',' = false by decide)]; rfl, by simp⟩⟩
  | slot k' v r' =>
    exact ⟨by intro c hc; simp at hc; subst hc; decide, by simp,
      ⟨',', _, by simp [skipSpaces_cons (show isSpace ',' = false by decide)]; rfl, by simp⟩⟩

/-- An `Extant` item (nothing is printed for it) in `StartOrNl` / `AfterSep`, after any white space. -/
theorem item_extant (req : Bool) (hreq : req = false → r ≠ .nil) {w : List Char} (hww : White w) :
    Run (.body k (if req then .afterSep else .startOrNl) :: below)
      (w ++ (printItems st j i false br r ++ (e ++ k.close :: rest)))
      ((.extant, false) :: (obsI r ++ [(kindEndEvent k, false)])) S' rest (4 * r.size + 4) := by
  rw [printItems_notFirst']
  cases r with
  | nil =>
    cases req with
    | false => exact absurd rfl (hreq rfl)
    | true =>
      simp only [List.nil_append, obsI]
      rw [← List.append_assoc]
      have hwe : White (w ++ e) := by
        intro c hc
        rcases List.mem_append.mp hc with hc | hc
        · exact hww c hc
        · exact he.white c hc
      have := run_close_start k true below hS hwe rest
      simp only [↓reduceIte, plain, List.map_cons, List.map_nil] at this
      exact this.mono (by omega)
  | val v r' =>
    simp only [List.cons_append, List.append_assoc]
    have h0 := step_comma_start k req below
      (itemPad st i br ++ (printItems st j i true br (.val v r') ++ (e ++ k.close :: rest)))
    rw [← step_white_multi _ below (Or.inr ⟨k, by cases req <;> simp⟩) hww comma_not_multi] at h0
    have h2 := ih.items _ hs hw st k j i br below S' rest true _ e (itemPad_white st i br) he hS (by simp) (by simp)
    simp only [↓reduceIte] at h2
    exact (((Run.of_step h0).trans h2).mono (by omega)).cast rfl (by simp [obsEmits, emits, obsOf])
  | slot k' v r' =>
    simp only [List.cons_append, List.append_assoc]
    have h0 := step_comma_start k req below
      (itemPad st i br ++ (printItems st j i true br (.slot k' v r') ++ (e ++ k.close :: rest)))
    rw [← step_white_multi _ below (Or.inr ⟨k, by cases req <;> simp⟩) hww comma_not_multi] at h0
    have h2 := ih.items _ hs hw st k j i br below S' rest true _ e (itemPad_white st i br) he hS (by simp) (by simp)
    simp only [↓reduceIte] at h2
    exact (((Run.of_step h0).trans h2).mono (by omega)).cast rfl (by simp [obsEmits, emits, obsOf])

/-- An `Extant` slot value (nothing is printed after the colon), in the `Slot` state. -/
theorem slot_extant {x : List Char}
    (hx : skipSpaces x = skipSpaces (printItems st j i false br r ++ (e ++ k.close :: rest))) :
    Run (.body k .slot :: below) x ((.extant, false) :: (obsI r ++ [(kindEndEvent k, false)])) S' rest
      (4 * r.size + 4) := by
  refine Run.congr ?_ hx
  rw [printItems_notFirst']
  cases r with
  | nil =>
    simp only [List.nil_append, obsI]
    rcases he with hsp | ⟨s, rfl, hsp⟩
    · have h := step_close_slot k below hS rest
      rw [← step_spaces _ hsp] at h
      exact ((Run.of_step h).mono (by omega)).cast rfl (by
        rw [obsEmits_plain _ _ _ (by intro x hx; simp at hx; rcases hx with rfl | rfl; rfl; exact kindEnd_plain k)]; rfl)
    · have h1 : step (.body k .slot :: below) ('\n' :: s ++ k.close :: rest)
          = .ok [.extant] false (.body k .startOrNl :: below) (s ++ k.close :: rest) := by
        have hp : primStart '\n' = false := by decide
        simp [step, skipSpaces, List.dropWhile, isSpace, stepSlotValue, lexPrimM_not_start true hp, lineEndM]
      have h2 := run_close_start k false below hS hsp.white rest
      simp only [Bool.false_eq_true, ↓reduceIte, plain, List.map_cons, List.map_nil] at h2
      exact (((Run.of_step h1).trans h2).mono (by omega)).cast rfl (by simp [obsEmits, emits, obsOf])
  | val v r' =>
    simp only [List.cons_append, List.append_assoc]
    have h1 := Run.of_step (step_comma_slot k below
      (itemPad st i br ++ (printItems st j i true br (.val v r') ++ (e ++ k.close :: rest))))
    have h2 := ih.items _ hs hw st k j i br below S' rest true _ e (itemPad_white st i br) he hS (by simp) (by simp)
    simp only [↓reduceIte] at h2
    exact ((h1.trans h2).mono (by omega)).cast rfl (by simp [obsEmits, emits, obsOf])
  | slot k' v r' =>
    simp only [List.cons_append, List.append_assoc]
    have h1 := Run.of_step (step_comma_slot k below
      (itemPad st i br ++ (printItems st j i true br (.slot k' v r') ++ (e ++ k.close :: rest))))
    have h2 := ih.items _ hs hw st k j i br below S' rest true _ e (itemPad_white st i br) he hS (by simp) (by simp)
    simp only [↓reduceIte] at h2
    exact ((h1.trans h2).mono (by omega)).cast rfl (by simp [obsEmits, emits, obsOf])
end tails

end SwimVerif.ReconEq

namespace SwimVerif.ReconEq
open SwimVerif.Recon

theorem itemStart_slot (k : Kind) : ItemStart (.body k .slot) := ⟨k, Or.inr (Or.inr rfl)⟩
theorem itemStart_req (k : Kind) (req : Bool) : ItemStart (.body k (if req then .afterSep else .startOrNl)) := by
  cases req
  · exact ⟨k, Or.inl rfl⟩
  · exact ⟨k, Or.inr (Or.inl rfl)⟩

theorem afterOf_req (k : Kind) (req : Bool) :
    afterOf (.body k (if req then .afterSep else .startOrNl)) = .body k .afterValue := by cases req <;> rfl

/-- The value part of a slot (after the padding that follows the colon) and whatever follows it. -/
theorem slot_value {n : Nat} (ih : RH n) (st : Style) (v : Value) (r : Items) (hvs : v.size ≤ n) (hrs : r.size ≤ n)
    (hvw : v.wf = true) (hrw : r.wf = true) (k : Kind) (j i : Nat) (br : Bool) (below : List PS) {S' : List PS}
    (hS : endStack k below = some S') (rest : List Char) {e : List Char} (he : EndW e) :
    Run (.body k .slot :: below)
      (pad st ++ (printV st j v ++ (printItems st j i false br r ++ (e ++ k.close :: rest))))
      (obsV v ++ (obsI r ++ [(kindEndEvent k, false)])) S' rest (4 * v.size + 4 * r.size + 4) := by
  by_cases hve : v = .extant
  · subst hve
    simp only [printV, List.nil_append, obsV, List.cons_append]
    exact (slot_extant ih st r hrs hrw k j i br below hS rest he (skipSpaces_spaces (pad_spaces st) _)).mono (by omega)
  · obtain ⟨c, t, hc, hok⟩ := head_value' st j hvw hve
    obtain ⟨td, tne, te⟩ := tail_facts ih st r hrs hrw k j i br below hS rest he
    obtain ⟨rest', hsk, hrun⟩ := ih.elem v hvs hvw hve st j (.body k .slot) below _ (itemStart_slot k) td tne te
    have ha := after_item ih st r hrs hrw k j i br below hS rest he false hsk
    simp only [Bool.false_eq_true, ↓reduceIte] at ha
    have := (hrun.trans ha).mono (show 4 * v.size + (4 * r.size + 4) ≤ 4 * v.size + 4 * r.size + 4 by omega)
    exact this.congr (skipSpaces_spaces (pad_spaces st) _)

theorem items_step {n : Nat} (ih : RH n) (its : Items) (hs : its.size ≤ n + 1) (hw : its.wf = true) (st : Style)
    (k : Kind) (j i : Nat) (br : Bool) (below S' : List PS) (rest : List Char) (req : Bool) (w e : List Char)
    (hww : White w) (he : EndW e) (hS : endStack k below = some S') (h1 : req = false → its.isSoleExtant = false)
    (h2 : req = true → its ≠ .nil) :
    Run (.body k (if req then .afterSep else .startOrNl) :: below)
      (w ++ (printItems st j i true br its ++ (e ++ k.close :: rest)))
      (obsI its ++ [(kindEndEvent k, false)]) S' rest (4 * its.size + 3) := by
  cases its with
  | nil =>
    cases req with
    | true => exact absurd rfl (h2 rfl)
    | false =>
      simp only [printItems, List.nil_append, obsI]
      rw [← List.append_assoc]
      have hwe : White (w ++ e) := by
        intro c hc
        rcases List.mem_append.mp hc with hc | hc
        · exact hww c hc
        · exact he.white c hc
      have := run_close_start k false below hS hwe rest
      simp only [Bool.false_eq_true, ↓reduceIte, plain, List.map_cons, List.map_nil] at this ⊢
      exact this.mono (by omega)
  | val v r =>
    simp only [Items.size] at hs
    simp only [Items.wf, Bool.and_eq_true] at hw
    simp only [printItems, ↓reduceIte, List.nil_append, List.append_assoc, obsI, Items.size]
    by_cases hve : v = .extant
    · subst hve
      simp only [printV, List.nil_append, obsV, List.cons_append]
      refine (item_extant ih st r (by omega) hw.2 k j i br below hS rest he req ?_ hww).mono (by omega)
      intro hr hrn; subst hrn; have := h1 hr; simp [Items.isSoleExtant] at this
    · obtain ⟨c, t, hc, hok⟩ := head_value' st j hw.1 hve
      obtain ⟨f1, _⟩ := okStart_facts hok k
      obtain ⟨td, tne, te⟩ := tail_facts ih st r (by omega) hw.2 k j i br below hS rest he
      obtain ⟨rest', hsk, hrun⟩ := ih.elem v (by omega) hw.1 hve st j _ below _ (itemStart_req k req) td tne te
      rw [afterOf_req] at hrun
      have ha := after_item ih st r (by omega) hw.2 k j i br below hS rest he true hsk
      simp only [↓reduceIte] at ha
      have hall := (hrun.trans ha).mono (show 4 * v.size + (4 * r.size + 4) ≤ 4 * (1 + v.size + r.size) + 3 by omega)
      rw [hc] at hall ⊢
      simp only [List.cons_append] at hall ⊢
      exact hall.white (Or.inr ⟨k, by cases req <;> simp⟩) hww f1
  | slot key v r =>
    simp only [Items.size] at hs
    simp only [Items.wf, Bool.and_eq_true] at hw
    obtain ⟨⟨hkw, hvw⟩, hrw⟩ := hw
    obtain ⟨c1, c2, c3⟩ := colon_facts k
    simp only [printItems, ↓reduceIte, List.nil_append, List.append_assoc, List.cons_append, obsI, Items.size]
    have hsv := slot_value ih st v r (by omega) (by omega) hvw hrw k j i br below hS rest he
    by_cases hke : key = .extant
    · subst hke
      simp only [printV, List.nil_append, obsV, List.cons_append]
      have h0 := step_colon_start k req below
        (pad st ++ (printV st j v ++ (printItems st j i false br r ++ (e ++ k.close :: rest))))
      rw [← step_white_multi _ below (Or.inr ⟨k, by cases req <;> simp⟩) hww c1] at h0
      exact (((Run.of_step h0).trans hsv).mono (by omega)).cast rfl (by simp [obsEmits, emits, obsOf])
    · obtain ⟨c, t, hc, hok⟩ := head_value' st j hkw hke
      obtain ⟨f1, _⟩ := okStart_facts hok k
      have td : TokEnd (':' :: (pad st ++ (printV st j v ++ (printItems st j i false br r ++ (e ++ k.close :: rest))))) := by
        intro x hx; simp at hx; subst hx; decide
      obtain ⟨rest', hsk, hrun⟩ := ih.elem key (by omega) hkw hke st j _ below _ (itemStart_req k req) td (by simp)
        ⟨':', _, by simp [skipSpaces_cons c2]; rfl, by simp⟩
      rw [afterOf_req] at hrun
      have hcol := (Run.of_step (step_colon_after k below
        (pad st ++ (printV st j v ++ (printItems st j i false br r ++ (e ++ k.close :: rest)))))).congr
        (x := rest') (by rw [hsk])
      have hall := ((hrun.trans hcol).trans hsv).mono
        (show 4 * key.size + 1 + (4 * v.size + 4 * r.size + 4) ≤ 4 * (1 + key.size + v.size + r.size) + 3 by omega)
      have hall' := hall.cast rfl (show obsV key ++ obsEmits [Event.slot] false _ ++ (obsV v ++ (obsI r ++ [(kindEndEvent k, false)]))
          = obsV key ++ ((Event.slot, false) :: (obsV v ++ (obsI r ++ [(kindEndEvent k, false)]))) by
        simp [obsEmits, emits, obsOf])
      rw [hc] at hall' ⊢
      simp only [List.cons_append, List.append_assoc] at hall' ⊢
      exact hall'.white (Or.inr ⟨k, by cases req <;> simp⟩) hww f1

end SwimVerif.ReconEq

namespace SwimVerif.ReconEq
open SwimVerif.Recon

/-! ### attributes -/

/-- In this context an `@` is handed to `primary_attr` (`primary = true`) / `secondary_attr`. -/
def AttrCtx (primary : Bool) (cur0 : PS) (B : List PS) : Prop :=
  ∀ t, step (cur0 :: B) ('@' :: t) = attrStep primary cur0 B ('@' :: t)

theorem attrCtx_item {cur : PS} (hc : ItemStart cur) (B : List PS) : AttrCtx true cur B := by
  intro t
  rw [step_value hc B (by decide)]
  unfold valueStep
  rw [lexPrimM_not_start true (by decide)]
  simp only
  cases h : attrStep true cur B ('@' :: t) <;> simp only []
  unfold attrStep at h
  cases hl : lexAttr ('@' :: t) with
  | ok p r => obtain ⟨nm, b⟩ := p; cases b <;> simp [hl] at h
  | inc => simp [hl] at h
  | err => rfl

theorem attrCtx_afterAttr (B : List PS) : AttrCtx false .afterAttr B := by
  intro t
  simp only [step, skipSpaces_cons at_facts.1, stepAfterAttr, lexPrimM_not_start true (show primStart '@' = false by decide)]
  cases h : attrStep false .afterAttr B ('@' :: t) <;> simp only []
  unfold attrStep at h
  cases hl : lexAttr ('@' :: t) with
  | ok p r => obtain ⟨nm, b⟩ := p; cases b <;> simp [hl] at h
  | inc => simp [hl] at h
  | err =>
    have hp : peekTerminator ('@' :: t) = .err := by
      simp [peekTerminator, show isSep '@' = false by decide, lineEndM]
    simp [hp]

theorem attrCtx_init (B : List PS) : AttrCtx false .init B := by
  intro t
  simp only [step, skipSpaces_cons at_facts.1, skipMulti_cons (show isMulti '@' = false by decide), stepInit,
    lexPrimM_not_start false (show primStart '@' = false by decide)]
  cases h : attrStep false .init B ('@' :: t) <;> simp only []
  unfold attrStep at h
  cases hl : lexAttr ('@' :: t) with
  | ok p r => obtain ⟨nm, b⟩ := p; cases b <;> simp [hl] at h
  | inc => simp [hl] at h
  | err => rfl

theorem attrStep_body (primary : Bool) (cur0 : PS) (B : List PS) (nm r : List Char) :
    attrStep primary cur0 B ('@' :: (attrName nm ++ '(' :: r)) =
      .ok [.startAttr nm] false
        (.body .ab .startOrNl :: (if primary then .init :: cur0 :: B else cur0 :: B)) r := by
  unfold attrStep
  rw [lexAttr_body]
  cases primary <;> rfl

theorem attrStep_nobody (primary : Bool) (cur0 : PS) (B : List PS) (nm : List Char) {x : Char} (xs : List Char)
    (hx : isIdentChar x = false) (hp : x ≠ '(') :
    attrStep primary cur0 B ('@' :: (attrName nm ++ x :: xs)) =
      .ok [.startAttr nm, .endAttr] false (if primary then .afterAttr :: cur0 :: B else .afterAttr :: B) (x :: xs) := by
  unfold attrStep
  rw [lexAttr_nobody nm xs hx hp]
  cases primary <;> rfl

/-- The stack below the `AfterAttr` frame of the record the attribute belongs to. -/
def attrBase (primary : Bool) (cur0 : PS) (B : List PS) : List PS := if primary then cur0 :: B else B

theorem map_obsOf_fst (l : List Emit) : (l.map obsOf).map Prod.fst = l.map (·.ev) := by
  induction l with
  | nil => rfl
  | cons e r ih => simp [obsOf, ih]

/-- The look-ahead of the repaired `is_implicit_record` on the printed body of an attribute. -/
theorem implicit_printed {n : Nat} (ih : RH n) (nm : List Char) (v : Value) (hvs : v.size + 1 ≤ n) (hvw : v.wf = true)
    (hve : v ≠ .extant) (st : Style) (i : Nat) (more : List Char) :
    isImplicitRecord (printItems st i i true false (bodyItems v) ++ ')' :: more) = implicitBody v := by
  have hbs := bodyItems_size v
  have hrun := ih.items (bodyItems v) (by omega) (bodyItems_wf hvw) st .ab i i false [.init] [.afterAttr] more false [] []
    White.nil (Or.inl Spaces.nil) rfl (fun _ => bodyItems_notSoleExtant hve) (by intro h; cases h)
  simp only [Bool.false_eq_true, ↓reduceIte, List.nil_append, Kind.close] at hrun
  obtain ⟨k, hk, hr⟩ := hrun
  have hsz := (size_le_I' st i i false (bodyItems v) (bodyItems_wf hvw)).1
  have hF : k ≤ 12 * (printItems st i i true false (bodyItems v) ++ ')' :: more).length + 8 := by
    simp only [List.length_append, List.length_cons]
    omega
  obtain ⟨f0, hf0⟩ : ∃ f0, 12 * (printItems st i i true false (bodyItems v) ++ ')' :: more).length + 8 = k + f0 :=
    ⟨_, (Nat.add_sub_cancel' hF).symm⟩
  have hro := hr f0
  rw [← hf0] at hro
  have hev : (runFrom (12 * (printItems st i i true false (bodyItems v) ++ ')' :: more).length + 8)
      [.body .ab .startOrNl, .init] (printItems st i i true false (bodyItems v) ++ ')' :: more)).1.map (·.ev)
      = (obsI (bodyItems v) ++ [(kindEndEvent .ab, false)] ++ (ro f0 [.afterAttr] more).1).map Prod.fst := by
    rw [← map_obsOf_fst]
    have := congrArg (fun p => p.1.map Prod.fst) hro
    simpa [ro, pre] using this
  unfold isImplicitRecord
  simp only [show Generated.ReconEq.implicitByStructure = true by decide, ↓reduceIte]
  rw [hev]
  simp only [List.map_append, List.map_cons, List.map_nil, kindEndEvent, List.append_assoc, List.cons_append,
    List.nil_append]
  rw [← obsB_bodyItems v hve, obsB_fst nm v]
  have := look_body (ch := fun _ => true) nm v ((ro f0 [.afterAttr] more).1.map Prod.fst)
  simpa using this

end SwimVerif.ReconEq

namespace SwimVerif.ReconEq
open SwimVerif.Recon

/-- The events of a run start with what a big-step lemma says, whatever the fuel beyond its bound. -/
theorem run_events_prefix {S S' : List PS} {inp rest : List Char} {O : List (Event × Bool)} {K : Nat}
    (h : Run S inp O S' rest K) (F : Nat) (hF : K ≤ F) :
    ∃ X, (runFrom F S inp).1.map (·.ev) = O.map Prod.fst ++ X := by
  obtain ⟨k, hk, hr⟩ := h
  obtain ⟨f0, hf0⟩ : ∃ f0, F = k + f0 := ⟨F - k, by omega⟩
  refine ⟨(ro f0 S' rest).1.map Prod.fst, ?_⟩
  rw [← map_obsOf_fst]
  have := congrArg (fun p => p.1.map Prod.fst) (hr f0)
  rw [hf0]
  simpa [ro, pre] using this

theorem lexPrimM_expChars (st : Bool) (neg : Bool) (m : Nat) (e : Int) (hc : m % 10 ≠ 0 ∨ (m = 0 ∧ e = 0))
    {rest : List Char} (hd : TokEnd rest) (hr : st = true → rest ≠ []) :
    lexPrimM st (expChars (.fin neg m e) ++ rest) = .ok (.num (.float (.fin neg m e))) rest := by
  obtain ⟨ev, he, hv⟩ := lexPrimM_of_lexPrim st (lexPrim_expChars neg m e hc hd) hd hr
  rw [he]
  congr 1
  cases ev <;> simp [primValue] at hv
  rename_i n
  cases n <;> simp [numValue] at hv
  subst hv; rfl

theorem expChars_head (neg : Bool) (m : Nat) (e : Int) (hc : m % 10 ≠ 0 ∨ (m = 0 ∧ e = 0)) :
    ∃ c t, expChars (.fin neg m e) = c :: t ∧ primStart c = true := by
  have hl := lexPrim_expChars neg m e hc TokEnd.nil
  rw [List.append_nil] at hl
  cases hx : expChars (.fin neg m e) with
  | nil => rw [hx] at hl; simp [lexPrim] at hl
  | cons c t =>
    rw [hx] at hl
    refine ⟨c, t, rfl, ?_⟩
    rcases lexPrim_head hl with h | h | h | h | h | h | h <;> simp [primStart, h]

theorem popAfterAttr_base (primary : Bool) (cur0 : PS) (B : List PS) :
    popAfterAttr (if primary then .init :: cur0 :: B else cur0 :: B) = .afterAttr :: attrBase primary cur0 B := by
  cases primary <;> rfl

/-- One printed attribute, in any of the three contexts an `@` can stand in. -/
theorem attr_one {n : Nat} (ih : RH n) (nm : List Char) (v : Value) (hvs : v.size + 1 ≤ n) (hvw : v.wf = true)
    (st : Style) (i : Nat) (primary : Bool) (cur0 : PS) (B : List PS) (hctx : AttrCtx primary cur0 B)
    (more : List Char) (hmore : v = .extant → more ≠ [] ∧ ∀ x ∈ more.head?, isIdentChar x = false ∧ x ≠ '(') :
    Run (cur0 :: B) ('@' :: (attrName nm ++ (printA st i v ++ more)))
      ((.startAttr nm, implicitBody v) :: (obsB v ++ [(.endAttr, false)]))
      (.afterAttr :: attrBase primary cur0 B) more (4 * v.size + 8) := by
  by_cases hve : v = .extant
  · subst hve
    obtain ⟨hm, hmore⟩ := hmore rfl
    cases more with
    | nil => exact absurd rfl hm
    | cons x xs =>
      obtain ⟨hx1, hx2⟩ := hmore x (by simp)
      have hstep := hctx (attrName nm ++ x :: xs)
      rw [attrStep_nobody primary cur0 B nm xs hx1 hx2] at hstep
      simp only [printA, List.nil_append]
      have hr := (Run.of_step hstep).mono (show 1 ≤ 4 * Value.extant.size + 8 by omega)
      have hst : (if primary then PS.afterAttr :: cur0 :: B else PS.afterAttr :: B)
          = PS.afterAttr :: attrBase primary cur0 B := by cases primary <;> rfl
      rw [hst] at hr
      exact hr.cast rfl (by simp [obsEmits, emits, obsOf, implicitBody, obsB])
  · by_cases hfl : ∃ x, v = .float x
    · obtain ⟨x, rfl⟩ := hfl
      cases x with
      | nan => simp [Value.wf, Flt.isCanon] at hvw
      | inf b => simp [Value.wf, Flt.isCanon] at hvw
      | fin fneg fm fe =>
        have hcan := Flt.canon_cases (by simpa [Value.wf] using hvw)
        have hte : TokEnd (')' :: more) := by intro y hy; simp at hy; subst hy; decide
        obtain ⟨c, t, hc, hps⟩ := expChars_head fneg fm fe hcan
        have hlex := lexPrimM_expChars true fneg fm fe hcan hte (by simp)
        -- the two steps inside the parentheses, on any stack
        have inner : ∀ X : List PS, Run (.body .ab .startOrNl :: X) (expChars (.fin fneg fm fe) ++ ')' :: more)
            [(.num (.float (.fin fneg fm fe)), false), (.endAttr, false)] (popAfterAttr X) more 2 := by
          intro X
          have h1 : step (.body .ab .startOrNl :: X) (expChars (.fin fneg fm fe) ++ ')' :: more)
              = .ok [.num (.float (.fin fneg fm fe))] false (.body .ab .afterValue :: X) (')' :: more) := by
            rw [hc] at hlex ⊢
            simp only [List.cons_append] at hlex ⊢
            rw [step_value ⟨.ab, Or.inl rfl⟩ X (okStart_of_prim hps)]
            simp [valueStep, hlex, afterOf]
          have h2 := step_close_after .ab true X (S' := popAfterAttr X) rfl more
          simp only [↓reduceIte, Kind.close] at h2
          exact ((Run.of_step h1).trans (Run.of_step h2)).cast rfl (by simp [obsEmits, emits, obsOf, kindEndEvent])
        have hdec : isImplicitRecord (expChars (.fin fneg fm fe) ++ ')' :: more) = false := by
          obtain ⟨X, hX⟩ := run_events_prefix (inner [.init]) (12 * (expChars (.fin fneg fm fe) ++ ')' :: more).length + 8) (by omega)
          unfold isImplicitRecord
          simp only [show Generated.ReconEq.implicitByStructure = true by decide, ↓reduceIte]
          rw [hX]
          simp [implicitLook]
        have hstep := hctx (attrName nm ++ '(' :: (expChars (.fin fneg fm fe) ++ ')' :: more))
        rw [attrStep_body] at hstep
        have hall := (Run.of_step hstep).trans (inner _)
        rw [popAfterAttr_base] at hall
        simp only [printA, List.cons_append, List.append_assoc, List.nil_append]
        refine (hall.mono (by simp [Value.size])).cast rfl ?_
        simp [obsEmits, emits, obsOf, hdec, implicitBody, obsB, obsV]
    · have hnf : ∀ f, v ≠ .float f := fun f hf => hfl ⟨f, hf⟩
      rw [printA_body' st i hvw hve hnf]
      simp only [List.cons_append, List.append_assoc, List.nil_append]
      have hbs := bodyItems_size v
      have hstep := hctx (attrName nm ++ '(' :: (printItems st i i true false (bodyItems v) ++ ')' :: more))
      rw [attrStep_body] at hstep
      have hit := ih.items (bodyItems v) (by omega) (bodyItems_wf hvw) st .ab i i false
        (if primary then .init :: cur0 :: B else cur0 :: B) _ more false [] [] White.nil (Or.inl Spaces.nil)
        (by simp only [endStack]; rw [popAfterAttr_base]) (fun _ => bodyItems_notSoleExtant hve) (by intro h; cases h)
      simp only [Bool.false_eq_true, ↓reduceIte, List.nil_append, Kind.close] at hit
      have hdec := implicit_printed ih nm v hvs hvw hve st i more
      refine (((Run.of_step hstep).trans hit).mono (by omega)).cast rfl ?_
      simp [obsEmits, emits, obsOf, hdec, obsB_bodyItems v hve, kindEndEvent]

end SwimVerif.ReconEq

namespace SwimVerif.ReconEq
open SwimVerif.Recon

theorem attrFollow_head {tail : List Char} (h : AttrFollow' tail) : ∀ x ∈ tail.head?, isIdentChar x = false ∧ x ≠ '(' := by
  intro x hx
  rcases h x hx with rfl | rfl | rfl | rfl | rfl | rfl | rfl <;> decide

/-- The text after an attribute (the remaining attributes, then `tail`) starts with a character that ends its name. -/
theorem more_head (st : Style) (i : Nat) (r : Attrs) {tail : List Char} (hfol : AttrFollow' tail) (ht : tail ≠ []) :
    ((if r.isEmpty = true then [] else pad st ++ printAttrs st i r) ++ tail) ≠ [] ∧
    ∀ x ∈ ((if r.isEmpty = true then [] else pad st ++ printAttrs st i r) ++ tail).head?, isIdentChar x = false ∧ x ≠ '(' := by
  cases r with
  | nil =>
    simp only [Attrs.isEmpty, ↓reduceIte, List.nil_append]
    exact ⟨ht, attrFollow_head hfol⟩
  | cons n2 v2 r2 =>
    simp only [Attrs.isEmpty, Bool.false_eq_true, ↓reduceIte]
    rw [printAttrs_cons']
    cases st <;> simp [pad] <;> decide

theorem attrs_step {n : Nat} (ih : RH n) (r : Attrs) (hs : r.size ≤ n + 1) (hw : r.wf = true) (st : Style) (i : Nat)
    (B : List PS) (tail : List Char) (hfol : AttrFollow' tail) (ht : tail ≠ []) :
    Run (.afterAttr :: B) ((if r.isEmpty = true then [] else pad st ++ printAttrs st i r) ++ tail) (obsA r)
      (.afterAttr :: B) tail (4 * r.size) := by
  cases r with
  | nil =>
    simp only [Attrs.isEmpty, ↓reduceIte, List.nil_append, obsA]
    exact (Run.refl _ _).mono (by omega)
  | cons n2 v2 r2 =>
    simp only [Attrs.size] at hs
    simp only [Attrs.wf, Bool.and_eq_true] at hw
    simp only [Attrs.isEmpty, Bool.false_eq_true, ↓reduceIte, List.append_assoc]
    refine Run.congr ?_ (skipSpaces_spaces (pad_spaces st) _)
    rw [printAttrs_cons']
    simp only [List.cons_append, List.append_assoc]
    obtain ⟨hm1, hm2⟩ := more_head st i r2 hfol ht
    have h1 := attr_one ih n2 v2 (by omega) hw.1 st i false .afterAttr B (attrCtx_afterAttr B) _ (fun _ => ⟨hm1, hm2⟩)
    have h2 := ih.attrs r2 (by omega) hw.2 st i B tail hfol ht
    simp only [attrBase, Bool.false_eq_true, ↓reduceIte] at h1
    refine ((h1.trans h2).mono (by simp [Attrs.size]; omega)).cast rfl ?_
    rw [obsA_cons]
    try simp

/-- The token-ending characters, as the first character after a record's attributes. -/
theorem tokEnd_follow {rest : List Char} (hd : TokEnd rest) : AttrFollow' rest := by
  intro x hx
  rcases tokEnd_cases (hd x hx) with h | h | h | h | h | h <;> simp [h]

theorem lexAttr_not_at {c : Char} (hc : c ≠ '@') (t : List Char) : lexAttr (c :: t) = .err := by
  simp [lexAttr, hc]

theorem attrStep_not_at (primary : Bool) (cur : PS) (B : List PS) {c : Char} (hc : c ≠ '@') (t : List Char) :
    attrStep primary cur B (c :: t) = .err := by
  simp [attrStep, lexAttr_not_at hc]

/-- The opening brace of a record body after its attributes. -/
theorem step_afterAttr_brace (B : List PS) {p : List Char} (hp : Spaces p) (t : List Char) :
    step (.afterAttr :: B) (p ++ '{' :: t) = .ok [.startBody] false (.body .rb .startOrNl :: B) t := by
  rw [step_spaces _ hp]
  simp [step, skipSpaces_cons (show isSpace '{' = false by decide), stepAfterAttr,
    lexPrimM_not_start true (show primStart '{' = false by decide), attrStep_not_at false .afterAttr B (show ('{' : Char) ≠ '@' by decide)]

/-- A record without a body ends where a terminator follows its attributes. -/
theorem step_afterAttr_end {cur : PS} (hc : ItemStart cur) (below : List PS) {rest : List Char} (hr : RecEnd rest) :
    ∃ x xs, skipSpaces rest = x :: xs ∧
      step (.afterAttr :: cur :: below) rest = .ok [.startBody, .endRecord] false (afterOf cur :: below) (x :: xs) := by
  obtain ⟨x, xs, hsk, hx⟩ := hr
  refine ⟨x, xs, hsk, ?_⟩
  have hps : primStart x = false := by rcases hx with rfl | rfl | rfl | rfl | rfl <;> decide
  have hat : x ≠ '@' := by rcases hx with rfl | rfl | rfl | rfl | rfl <;> decide
  have hbr : x ≠ '{' := by rcases hx with rfl | rfl | rfl | rfl | rfl <;> decide
  have hpk : peekTerminator (x :: xs) = .ok () (x :: xs) := by
    rcases hx with rfl | rfl | rfl | rfl | rfl <;> simp [peekTerminator, sep_comma, lineEndM] <;> decide
  unfold step
  rw [hsk]
  simp only [stepAfterAttr, lexPrimM_not_start true hps, attrStep_not_at false .afterAttr (cur :: below) hat, hpk,
    popAfterItem_itemStart hc]
  split
  · rename_i heq; simp only [List.cons.injEq] at heq; exact absurd heq.1 hbr
  · rfl

theorem elem_step {n : Nat} (ih : RH n) (v : Value) (hs : v.size ≤ n + 1) (hw : v.wf = true) (hne : v ≠ .extant)
    (st : Style) (i : Nat) (cur : PS) (below : List PS) (rest : List Char) (hcur : ItemStart cur) (hd : TokEnd rest)
    (hrne : rest ≠ []) (hre : RecEnd rest) :
    ∃ rest', skipSpaces rest' = skipSpaces rest ∧
      Run (cur :: below) (printV st i v ++ rest) (obsV v) (afterOf cur :: below) rest' (4 * v.size) := by
  have hsz : 1 ≤ v.size := by cases v <;> simp [Value.size] <;> omega
  have prim : ∀ {x : Value}, x.isPrim = true → x.wf = true →
      Run (cur :: below) (printV st i x ++ rest) (obsV x) (afterOf cur :: below) rest 1 := by
    intro x hp hxw
    rw [printV_prim_style st i hp]
    obtain ⟨c, t, hc, hps⟩ := head_prim i hp hxw
    have hl := lexPrimM_printed true i hp hxw hd (fun _ => hrne)
    have hstep : step (cur :: below) (printV .compact i x ++ rest) = .ok [primEv x] false (afterOf cur :: below) rest := by
      rw [hc] at hl ⊢
      simp only [List.cons_append] at hl ⊢
      rw [step_value hcur below (okStart_of_prim hps)]
      simp [valueStep, hl]
    refine (Run.of_step hstep).cast rfl ?_
    rw [obsV_prim hp, obsEmits_plain _ _ _ (by intro e he; simp at he; subst he; cases x <;> simp [Value.isPrim] at hp <;> rfl)]
    rfl
  cases v with
  | extant => exact absurd rfl hne
  | float x => exact ⟨rest, rfl, (prim rfl hw).mono (by omega)⟩
  | int k m => exact ⟨rest, rfl, (prim rfl hw).mono (by omega)⟩
  | bool b => exact ⟨rest, rfl, (prim rfl hw).mono (by omega)⟩
  | text s => exact ⟨rest, rfl, (prim rfl hw).mono (by omega)⟩
  | data bs => exact ⟨rest, rfl, (prim rfl hw).mono (by omega)⟩
  | record a its =>
    simp only [Value.size] at hs
    simp only [Value.wf, Bool.and_eq_true, Bool.not_eq_true', Bool.or_eq_true] at hw
    obtain ⟨⟨⟨haw, hiw⟩, hnse⟩, hsole⟩ := hw
    cases a with
    | nil =>
      refine ⟨rest, rfl, ?_⟩
      rw [printV_record_nil']
      simp only [List.cons_append, List.append_assoc, List.nil_append]
      have h1 : step (cur :: below) ('{' :: (startBlock st i its.length ++ (printItems st (inner st i its.length) i true true its ++
          ((if its.length = 0 then [] else endBlock st i) ++ '}' :: rest))))
          = .ok [.startBody] false (.body .rb .startOrNl :: cur :: below)
              (startBlock st i its.length ++ (printItems st (inner st i its.length) i true true its ++
                ((if its.length = 0 then [] else endBlock st i) ++ '}' :: rest))) := by
        rw [step_value hcur below (by decide)]
        simp [valueStep, lexPrimM_not_start true (show primStart '{' = false by decide),
          attrStep_not_at true cur below (show ('{' : Char) ≠ '@' by decide)]
      have h2 := ih.items its (by simp [Attrs.size] at hs; omega) hiw st .rb (inner st i its.length) i true (cur :: below)
        (afterOf cur :: below) rest false (startBlock st i its.length) (if its.length = 0 then [] else endBlock st i)
        (startBlock_white st i _) (endBlockOpt_endw st i _) (popAfterItem_itemStart hcur below) (fun _ => hnse)
        (by intro h; cases h)
      simp only [Bool.false_eq_true, ↓reduceIte, Kind.close] at h2
      refine (((Run.of_step h1).trans h2).mono (by simp [Value.size, Attrs.size]; omega)).cast rfl ?_
      simp [obsEmits, emits, obsOf, obsV, obsA, kindEndEvent]
    | cons nm w r =>
      simp only [Attrs.size] at hs
      simp only [Attrs.wf, Bool.and_eq_true] at haw
      rw [printV_record_cons', printAttrs_cons']
      simp only [List.cons_append, List.append_assoc]
      -- the three parts: first attribute, remaining attributes, body
      have key : ∀ (tail rest' : List Char) (Ob : List (Event × Bool)) (Kb : Nat), AttrFollow' tail → tail ≠ [] →
          Run (.afterAttr :: cur :: below) tail Ob (afterOf cur :: below) rest' Kb → Kb ≤ 4 * its.size + 4 →
          Run (cur :: below)
            ('@' :: (attrName nm ++ (printA st i w ++ ((if r.isEmpty = true then [] else pad st ++ printAttrs st i r) ++ tail))))
            (obsA (.cons nm w r) ++ Ob) (afterOf cur :: below) rest' (4 * (1 + (2 + w.size + r.size) + its.size)) := by
        intro tail rest' Ob Kb hfol htne hbody hKb
        obtain ⟨hm1, hm2⟩ := more_head st i r hfol htne
        have h1 := attr_one ih nm w (by omega) haw.1 st i true cur below (attrCtx_item hcur below) _ (fun _ => ⟨hm1, hm2⟩)
        have h2 := ih.attrs r (by omega) haw.2 st i (cur :: below) tail hfol htne
        simp only [attrBase, ↓reduceIte] at h1
        refine (((h1.trans h2).trans hbody).mono (by omega)).cast rfl ?_
        rw [obsA_cons]
        try simp
      by_cases h0 : its.length = 0
      · have hnil : its = .nil := by cases its <;> simp [Items.length] at h0 <;> rfl
        subst hnil
        simp only [Items.length, ↓reduceIte, List.nil_append]
        obtain ⟨x, xs, hsk, hstep⟩ := step_afterAttr_end hcur below hre
        refine ⟨x :: xs, by rw [← hsk, skipSpaces_idem], ?_⟩
        have hb := (Run.of_step hstep).cast rfl (obsEmits_plain _ _ _ (by simp [Event.isStartAttr]))
        have := key rest (x :: xs) _ 1 (tokEnd_follow hd) hrne hb (by omega)
        refine this.cast rfl ?_
        simp [obsV, obsI, plain]
      · by_cases h1 : its.isSoleVal = true
        · simp only [h0, ↓reduceIte, h1]
          cases its with
          | nil => simp [Items.length] at h0
          | slot _ _ _ => simp [Items.isSoleVal] at h1
          | val x xs =>
            cases xs with
            | val _ _ => simp [Items.isSoleVal] at h1
            | slot _ _ _ => simp [Items.isSoleVal] at h1
            | nil =>
              have hxp : x.isPrim = true := by
                rcases hsole with h | h
                · rcases h with h | h
                  · simp [Attrs.isEmpty] at h
                  · simp [Items.isSoleVal] at h
                · simpa [Items.isSolePrim] using h
              have hxw : x.wf = true := by simp only [Items.wf, Bool.and_eq_true] at hiw; exact hiw.1
              simp only [printItems, ↓reduceIte, List.nil_append, List.append_nil]
              rw [printV_prim_style st i hxp]
              obtain ⟨c, t, hc, hps⟩ := head_prim i hxp hxw
              have hl := lexPrimM_printed true i hxp hxw hd (fun _ => hrne)
              have hstep : step (.afterAttr :: cur :: below) (' ' :: (printV .compact i x ++ rest))
                  = .ok [.startBody, primEv x, .endRecord] false (afterOf cur :: below) rest := by
                have hsp : Spaces [' '] := by intro y hy; simp at hy; exact hy
                have := step_spaces (.afterAttr :: cur :: below) hsp (printV .compact i x ++ rest)
                simp only [List.cons_append, List.nil_append] at this
                rw [this]
                rw [hc] at hl ⊢
                simp only [List.cons_append] at hl ⊢
                obtain ⟨_, f2, _⟩ := okStart_facts (okStart_of_prim hps) .rb
                simp [step, skipSpaces_cons f2, stepAfterAttr, hl, popAfterItem_itemStart hcur]
              refine ⟨rest, rfl, ?_⟩
              have hb := (Run.of_step hstep).cast rfl (obsEmits_plain _ _ _ (by
                intro e he; simp at he
                rcases he with rfl | rfl | rfl
                · rfl
                · cases x <;> simp [Value.isPrim] at hxp <;> rfl
                · rfl))
              have := key _ rest _ 1 (by intro y hy; simp at hy; simp [← hy]) (by simp) hb (by omega)
              refine this.cast (by simp) ?_
              simp [obsV, obsI, plain, obsV_prim hxp]
        · simp only [h0, ↓reduceIte, h1, Bool.false_eq_true]
          refine ⟨rest, rfl, ?_⟩
          have hfol : AttrFollow' (pad st ++ '{' :: (startBlock st i its.length ++
              (printItems st (inner st i its.length) i true true its ++ (endBlock st i ++ ['}'])) ++ rest)) := by
            cases st <;> (intro y hy; simp [pad] at hy; simp [← hy])
          have hb1 := Run.of_step (step_afterAttr_brace (cur :: below) (pad_spaces st)
            (startBlock st i its.length ++ (printItems st (inner st i its.length) i true true its ++
              (endBlock st i ++ '}' :: rest))))
          have hb2 := ih.items its (by omega) hiw st .rb (inner st i its.length) i true
            (cur :: below) (afterOf cur :: below) rest false (startBlock st i its.length) (endBlock st i)
            (startBlock_white st i _) (endBlock_endw st i) (popAfterItem_itemStart hcur below) (fun _ => hnse)
            (by intro h; cases h)
          simp only [Bool.false_eq_true, ↓reduceIte, Kind.close] at hb2
          have hb := hb1.trans hb2
          have := key _ rest _ _ hfol (by cases st <;> simp [pad]) (hb.cast (by simp) rfl) (by omega)
          refine this.cast (by simp) ?_
          simp [obsV, obsEmits, emits, obsOf, kindEndEvent]

end SwimVerif.ReconEq

namespace SwimVerif.ReconEq
open SwimVerif.Recon

theorem rh_all : ∀ n, RH n
  | 0 => {
      elem := by
        intro v hs; have : 1 ≤ v.size := by cases v <;> simp [Value.size] <;> omega
        omega
      items := by
        intro its hs hw st k j i br below S' rest req w e hww he hS h1 h2
        cases its with
        | nil =>
          cases req with
          | true => exact absurd rfl (h2 rfl)
          | false =>
            simp only [printItems, List.nil_append, obsI]
            rw [← List.append_assoc]
            have hwe : White (w ++ e) := by
              intro c hc
              rcases List.mem_append.mp hc with hc | hc
              · exact hww c hc
              · exact he.white c hc
            have := run_close_start k false below hS hwe rest
            simp only [Bool.false_eq_true, ↓reduceIte, plain, List.map_cons, List.map_nil] at this ⊢
            exact this.mono (by omega)
        | val v r => simp [Items.size] at hs <;> omega
        | slot a b c => simp [Items.size] at hs <;> omega
      attrs := by
        intro r hs hw st i B tail hfol ht
        cases r with
        | nil =>
          simp only [Attrs.isEmpty, ↓reduceIte, List.nil_append, obsA]
          exact (Run.refl _ _).mono (by omega)
        | cons n2 v2 r2 => simp [Attrs.size] at hs <;> omega }
  | n + 1 =>
    have ih := rh_all n
    { elem := fun v hs hw hne st i cur below rest hcur hd hrne hre =>
        elem_step ih v hs hw hne st i cur below rest hcur hd hrne hre
      items := fun its hs hw st k j i br below S' rest req w e hww he hS h1 h2 =>
        items_step ih its hs hw st k j i br below S' rest req w e hww he hS h1 h2
      attrs := fun r hs hw st i B tail hfol ht => attrs_step ih r hs hw st i B tail hfol ht }

end SwimVerif.ReconEq
