/-
C20, the event counter of one lane's reporter over whole write-task runs, and the discipline under which no routed
response goes uncounted.

* `Fresh`: a lane id that has not been assigned yet has no entry and no reporter cell — so registering a reporter
  never replaces one (nothing is dropped);
* `Live`: with every lane registered with a reporter, every lane that has not failed keeps its entry and reporter.
-/
import SwimVerif.Proofs.LinksWTEvents
import SwimVerif.Proofs.LinksLaneEvents

set_option linter.unusedSimpArgs false
set_option linter.unusedVariables false
namespace SwimVerif.WT

/-! ### which step performs which operation -/

theorem stepOps_removeLane (s : St) (e : Ev) (id : Nat) (hop : LOp.removeLane id ∈ stepOps s e) : e = .laneFailed id := by
  cases e <;> simp only [stepOps, linkOps, unlinkOps, eventOps, doneOps, pruneOps] at hop <;>
    (repeat' split at hop) <;> simp_all

theorem stepOps_register (s : St) (e : Ev) (id : Nat) (hop : LOp.register id ∈ stepOps s e) :
    id = s.reg.length ∧ ∃ name, e = .lane name true := by
  cases e <;> simp only [stepOps, linkOps, unlinkOps, eventOps, doneOps, pruneOps] at hop <;>
    (repeat' split at hop) <;> simp_all

theorem stepOps_insert (s : St) (e : Ev) (id r : Nat) (hop : LOp.insert id r ∈ stepOps s e) :
    (∃ name, e = .link r name ∧ s.reg.idFor name = some id) ∨ (∃ resp, e = .event id (some r) resp) := by
  cases e <;> simp only [stepOps, linkOps, unlinkOps, eventOps, doneOps, pruneOps] at hop <;>
    (repeat' split at hop) <;> simp_all

/-! ### lane ids nobody has touched -/

structure Untouched (l : Links) (id : Nat) : Prop where
  f : alGet l.forward id = none
  c : alGet l.lane id = none

theorem untouched_congr {l l' : Links} {id : Nat} (h : Untouched l id) (hf : l'.forward = l.forward)
    (hl : l'.lane = l.lane) : Untouched l' id := ⟨by rw [hf]; exact h.f, by rw [hl]; exact h.c⟩

theorem untouched_setLaneLinks {l : Links} {id id' : Nat} (h : Untouched l id) (hne : id' ≠ id) (n : Nat) :
    Untouched (l.setLaneLinks id' n) id := by
  refine ⟨h.f, ?_⟩
  rw [setLaneLinks_lane, if_neg hne]; exact h.c

theorem untouched_updEntry {l : Links} {id id' : Nat} (h : Untouched l id) (hne : id' ≠ id) (e : LaneLinks) (t : Nat) :
    Untouched (l.updEntry id' e t) id := by
  have h0 : Untouched { l with forward := alSet l.forward id' e, total := t } id :=
    ⟨by show alGet (alSet l.forward id' e) id = none; rw [alGet_alSet_ne _ _ hne]; exact h.f, h.c⟩
  unfold Links.updEntry
  simp only []
  split
  · exact untouched_setLaneLinks h0 hne _
  · exact h0

theorem ne_of_some_none {f : List (Nat × LaneLinks)} {id id' : Nat} {e : LaneLinks}
    (h1 : alGet f id' = some e) (h2 : alGet f id = none) : id' ≠ id := by
  intro hh; subst hh; rw [h1] at h2; cases h2

theorem untouched_addRemote {l : Links} {id id' : Nat} (h : Untouched l id) (hne : id' ≠ id) (r : Nat) :
    Untouched (l.addRemote id' r) id := by
  unfold Links.addRemote
  split
  · exact ⟨by show alGet (alSet l.forward id' _) id = none; rw [alGet_alSet_ne _ _ hne]; exact h.f, h.c⟩
  · exact untouched_updEntry h hne _ _

theorem untouched_removeFromLane {l : Links} {id : Nat} (h : Untouched l id) (id' r : Nat) :
    Untouched (l.removeFromLane id' r) id := by
  unfold Links.removeFromLane
  split
  · exact h
  · rename_i e he
    split
    · exact untouched_updEntry h (ne_of_some_none he h.f) _ _
    · exact h

theorem untouched_foldl_remove (lanes : List Nat) (r id : Nat) : ∀ l : Links, Untouched l id →
    Untouched (lanes.foldl (fun acc id' => acc.removeFromLane id' r) l) id := by
  induction lanes with
  | nil => intro l h; exact h
  | cons id' rest ih => intro l h; exact ih _ (untouched_removeFromLane h id' r)

theorem untouched_setAgg {l : Links} {id : Nat} (h : Untouched l id) : Untouched l.setAgg id :=
  untouched_congr h (setAgg_forward l) (setAgg_lane l)

theorem untouched_removeCore {l : Links} {id : Nat} (h : Untouched l id) (id' r : Nat) :
    Untouched (l.removeCore id' r) id := by
  unfold Links.removeCore
  split
  · exact untouched_setAgg (untouched_removeFromLane h id' r)
  · exact h

theorem alGet_map_clearEntry (f : List (Nat × LaneLinks)) (id : Nat) :
    alGet (f.map clearEntry) id = (alGet f id).map (fun e => { e with remotes := [] }) := by
  induction f with
  | nil => rfl
  | cons p rest ih =>
    obtain ⟨k, e⟩ := p
    simp only [List.map_cons, clearEntry, alGet]
    by_cases hk : k = id
    · simp [hk]
    · simp only [hk, if_false]; exact ih

theorem alGet_map_events_none (lane : List (Nat × Counters)) (id : Nat) (h : alGet lane id = none) :
    alGet (lane.map (fun (p : Nat × Counters) => (p.1, { p.2 with events := 0 }))) id = none := by
  induction lane with
  | nil => rfl
  | cons p rest ih =>
    obtain ⟨k, v⟩ := p
    simp only [List.map_cons, alGet] at h ⊢
    by_cases hk : k = id
    · simp [hk] at h
    · simp only [hk, if_false] at h ⊢; exact ih h

theorem key_ne_of_none {f : List (Nat × LaneLinks)} {id : Nat} (h : alGet f id = none) :
    ∀ p, p ∈ f → p.1 ≠ id := by
  induction f with
  | nil => intro p hp; cases hp
  | cons q rest ih =>
    obtain ⟨k, e⟩ := q
    simp only [alGet] at h
    by_cases hk : k = id
    · simp [hk] at h
    · simp only [hk, if_false] at h
      intro p hp
      rcases List.mem_cons.mp hp with rfl | hm
      · exact hk
      · exact ih h p hm

theorem untouched_zeroFold (ps : List (Nat × LaneLinks)) (id : Nat) (hk : ∀ p, p ∈ ps → p.1 ≠ id) :
    ∀ acc : Links, Untouched acc id → Untouched (zeroFold ps acc) id := by
  induction ps with
  | nil => intro acc h; exact h
  | cons p rest ih =>
    intro acc h
    simp only [zeroFold, List.foldl] at ih ⊢
    apply ih (fun q hq => hk q (List.mem_cons_of_mem _ hq))
    split
    · exact untouched_setLaneLinks h (hk p List.mem_cons_self) _
    · exact h

theorem untouched_addEvents {l : Links} {id id' : Nat} (h : Untouched l id) (hne : id' ≠ id) (b : Bool) (n : Nat) :
    Untouched (l.addEvents id' b n) id := by
  cases b with
  | false => exact ⟨h.f, h.c⟩
  | true =>
    refine ⟨h.f, ?_⟩
    show alGet (alSet l.lane id' _) id = none
    rw [alGet_alSet_ne _ _ hne]; exact h.c

/-- The lane an operation may create an entry or a reporter cell for. -/
def LOp.creates : LOp → Option Nat
  | .insert id _ => some id
  | .register id => some id
  | _ => none

theorem untouched_lstep {l : Links} {id : Nat} (h : Untouched l id) (op : LOp) (hc : op.creates ≠ some id) :
    Untouched (lstep l op) id := by
  cases op with
  | register id' =>
    have hne : id' ≠ id := by intro hh; apply hc; simp [LOp.creates, hh]
    simp only [lstep, Links.registerReporter]
    exact ⟨by show alGet (alSet l.forward id' _) id = none; rw [alGet_alSet_ne _ _ hne]; exact h.f,
           by show alGet (alSet l.lane id' _) id = none; rw [alGet_alSet_ne _ _ hne]; exact h.c⟩
  | insert id' r =>
    have hne : id' ≠ id := by intro hh; apply hc; simp [LOp.creates, hh]
    exact untouched_congr (untouched_setAgg (untouched_addRemote h hne r)) rfl rfl
  | remove id' r =>
    have key := untouched_removeCore h id' r
    simp only [lstep, Links.remove]
    split
    · split
      · exact untouched_congr key rfl rfl
      · exact untouched_congr key rfl rfl
    · exact key
  | removeRemote r =>
    simp only [lstep, Links.removeRemote]
    apply untouched_setAgg
    apply untouched_foldl_remove
    exact untouched_congr h rfl rfl
  | removeLane id' =>
    simp only [lstep, Links.removeLane]
    split
    · exact h
    · rename_i e he
      have hne := ne_of_some_none he h.f
      have f := removeLane_fold_fields id' e.remotes (l.dropLane id' e, [])
      refine untouched_congr ?_ f.1 f.2.1
      have h0 : Untouched { l with forward := alErase l.forward id', total := l.total - e.remotes.length } id :=
        ⟨by show alGet (alErase l.forward id') id = none; rw [alGet_alErase_ne _ hne]; exact h.f, h.c⟩
      unfold Links.dropLane
      apply untouched_setAgg
      split
      · exact untouched_setLaneLinks h0 hne _
      · exact h0
  | removeAll =>
    simp only [lstep, Links.removeAllLinks]
    apply untouched_zeroFold _ _ (key_ne_of_none h.f)
    have bf : l.removeAllBase.forward = l.forward.map clearEntry := by unfold Links.removeAllBase; split <;> rfl
    have bl : l.removeAllBase.lane = l.lane := by unfold Links.removeAllBase; split <;> rfl
    exact ⟨by rw [bf, alGet_map_clearEntry, h.f]; rfl, by rw [bl]; exact h.c⟩
  | countSingle id' =>
    simp only [lstep, Links.countSingle]
    split
    · rename_i e ha he
      exact untouched_addEvents h (ne_of_some_none he h.f) _ _
    · exact h
  | countBroadcast id' =>
    simp only [lstep, Links.countBroadcast]
    split
    · rename_i e ha he
      exact untouched_addEvents h (ne_of_some_none he h.f) _ _
    · exact h
  | snapshot => exact ⟨h.f, alGet_map_events_none l.lane id h.c⟩

theorem untouched_lrun (id : Nat) : ∀ (ops : List LOp) (l : Links), Untouched l id →
    (∀ op, op ∈ ops → op.creates ≠ some id) → Untouched (lrun l ops) id := by
  intro ops
  induction ops with
  | nil => intro l h _; exact h
  | cons op rest ih =>
    intro l h ht
    exact ih _ (untouched_lstep h op (ht op List.mem_cons_self)) (fun o ho => ht o (List.mem_cons_of_mem _ ho))

/-- No lane id that has not been assigned yet has an entry or a reporter cell. -/
def Fresh (s : St) : Prop := ∀ id, s.reg.length ≤ id → Untouched s.links id

theorem stepOps_creates (s : St) (e : Ev) (hok : evOk s e = true) (op : LOp) (hop : op ∈ stepOps s e) (id : Nat)
    (hc : op.creates = some id) : id < (step s e).1.reg.length := by
  have hle := reg_length_step s e
  cases op with
  | register id' =>
    simp only [LOp.creates, Option.some.injEq] at hc; subst hc
    obtain ⟨rfl, name, rfl⟩ := stepOps_register s e _ hop
    rw [(step_links_reg s _).2]; simp
  | insert id' r =>
    simp only [LOp.creates, Option.some.injEq] at hc; subst hc
    have := stepOps_target s e hok _ hop id' rfl
    omega
  | remove _ _ => cases hc
  | removeRemote _ => cases hc
  | removeLane _ => cases hc
  | removeAll => cases hc
  | countSingle _ => cases hc
  | countBroadcast _ => cases hc
  | snapshot => cases hc

theorem fresh_step {s : St} (h : Fresh s) (e : Ev) (hok : evOk s e = true) : Fresh (step s e).1 := by
  intro id hid
  have hle := reg_length_step s e
  rw [(step_links_reg s e).1]
  apply untouched_lrun id _ _ (h id (by omega))
  intro op hop hc
  have := stepOps_creates s e hok op hop id hc
  omega

theorem fresh_init (agg : Bool) : Fresh { links := { hasAgg := agg } } := fun id _ => ⟨rfl, rfl⟩

end SwimVerif.WT
