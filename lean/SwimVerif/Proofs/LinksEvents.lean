import SwimVerif.Proofs.LinksAll

set_option linter.unusedSimpArgs false
set_option linter.unusedVariables false
namespace SwimVerif.WT

/-! ### Event counters lose nothing -/

/-- Events the aggregate reporter is told about by one operation (as decided in the pre-state). -/
def aggAdded (l : Links) : LOp → Nat
  | .countSingle id => (match l.hasAgg, alGet l.forward id with | true, some _ => 1 | _, _ => 0)
  | .countBroadcast id => (match l.hasAgg, alGet l.forward id with | true, some e => e.remotes.length | _, _ => 0)
  | _ => 0

/-- What a snapshot of the aggregate reader returns (and consumes). -/
def aggRead (l : Links) : LOp → Nat
  | .snapshot => l.agg.events
  | _ => 0

def totalAdded : Links → List LOp → Nat
  | _, [] => 0
  | l, op :: rest => aggAdded l op + totalAdded (lstep l op) rest

def totalRead : Links → List LOp → Nat
  | _, [] => 0
  | l, op :: rest => aggRead l op + totalRead (lstep l op) rest

@[simp] theorem setLaneLinks_aggEvents (l : Links) (id n : Nat) : (l.setLaneLinks id n).agg.events = l.agg.events := rfl
@[simp] theorem setAgg_aggEvents (l : Links) : l.setAgg.agg.events = l.agg.events := by
  unfold Links.setAgg; split <;> rfl
@[simp] theorem updEntry_aggEvents (l : Links) (id : Nat) (e : LaneLinks) (t : Nat) :
    (l.updEntry id e t).agg.events = l.agg.events := by
  unfold Links.updEntry; simp only []; split <;> rfl
@[simp] theorem addRemote_aggEvents (l : Links) (id r : Nat) : (l.addRemote id r).agg.events = l.agg.events := by
  unfold Links.addRemote; split <;> simp
@[simp] theorem removeFromLane_aggEvents (l : Links) (id r : Nat) :
    (l.removeFromLane id r).agg.events = l.agg.events := by
  unfold Links.removeFromLane; split <;> (try split) <;> simp

theorem foldl_remove_aggEvents (lanes : List Nat) (r : Nat) : ∀ l : Links,
    (lanes.foldl (fun acc id => acc.removeFromLane id r) l).agg.events = l.agg.events := by
  induction lanes with
  | nil => intro l; rfl
  | cons id rest ih => intro l; simp only [List.foldl]; rw [ih]; simp

theorem zeroFold_aggEvents (ps : List (Nat × LaneLinks)) (acc : Links) :
    (zeroFold ps acc).agg.events = acc.agg.events := by
  rw [(zeroFold_fields ps acc).2.2.2]

theorem step_aggEvents (l : Links) (op : LOp) :
    (lstep l op).agg.events + aggRead l op = l.agg.events + aggAdded l op := by
  cases op with
  | register id => simp [lstep, Links.registerReporter, aggRead, aggAdded]
  | insert id r => simp [lstep, Links.insert, aggRead, aggAdded]
  | remove id r =>
    simp only [lstep, aggRead, aggAdded, Links.remove]
    have key : (l.removeCore id r).agg.events = l.agg.events := by
      unfold Links.removeCore; split <;> simp
    split
    · split <;> simpa using key
    · simpa using key
  | removeRemote r =>
    simp only [lstep, aggRead, aggAdded, Links.removeRemote, setAgg_aggEvents, foldl_remove_aggEvents]
  | removeLane id =>
    simp only [lstep, aggRead, aggAdded, Links.removeLane]
    split
    · rfl
    · rename_i e he
      have f := removeLane_fold_fields id e.remotes (l.dropLane id e, [])
      rw [f.2.2.2.1]
      unfold Links.dropLane
      rw [setAgg_aggEvents]
      split <;> rfl
  | removeAll =>
    simp only [lstep, aggRead, aggAdded, Links.removeAllLinks, zeroFold_aggEvents]
    unfold Links.removeAllBase
    split <;> rfl
  | countSingle id =>
    simp only [lstep, aggRead, aggAdded, Links.countSingle]
    cases ha : l.hasAgg <;> cases he : alGet l.forward id <;> simp [Links.addEvents]
    split <;> rfl
  | countBroadcast id =>
    simp only [lstep, aggRead, aggAdded, Links.countBroadcast]
    cases ha : l.hasAgg <;> cases he : alGet l.forward id <;> simp [Links.addEvents]
    split <;> rfl
  | snapshot => simp [lstep, Links.snapshot, aggRead, aggAdded]

theorem counts_conserved : ∀ (ops : List LOp) (l : Links),
    totalRead l ops + (lrun l ops).agg.events = l.agg.events + totalAdded l ops := by
  intro ops
  induction ops with
  | nil => intro l; simp [totalRead, totalAdded, lrun]
  | cons op rest ih =>
    intro l
    simp only [totalRead, totalAdded, lrun, List.foldl]
    have h1 := ih (lstep l op)
    have h2 := step_aggEvents l op
    simp only [lrun] at h1
    omega

end SwimVerif.WT
