/-
C03 (map lane): the invariant is preserved by every `WriteQueues::pop` (written or skipped), the monitor accepts every
frame the lane writes, and a write that produces nothing finds the monitor with no request outstanding and the
observer's replica equal to the lane's map.
-/
import SwimVerif.Proofs.C03Inv

set_option linter.unusedVariables false
set_option linter.unusedSimpArgs false
namespace SwimVerif.ML

theorem sorted_applyFrame (rep : List (Nat × Nat)) (fr : Frame) (h : Sorted rep) : Sorted (applyFrame rep fr) := by
  cases fr with
  | upd k v => exact sorted_insertSorted k v rep h
  | rem k => exact sorted_alErase rep k h
  | clear => simp [applyFrame, Sorted]
  | sync r k v => exact sorted_insertSorted k v rep h
  | synced r => exact h

theorem rel_set {P : Pending → SyncQ → Prop} (q q' : SyncQ) (hstep : ∀ p, P p q → P p q') :
    ∀ (ps : List Pending) (qs : List SyncQ) (i : Nat), Rel P ps qs → qs[i]? = some q → Rel P ps (qs.set i q') := by
  intro ps
  induction ps with
  | nil => intro qs i hr hq; cases qs <;> simp_all [Rel]
  | cons p ps ih =>
    intro qs i hr hq
    cases qs with
    | nil => simp [Rel] at hr
    | cons q0 qs =>
      simp only [Rel] at hr
      cases i with
      | zero =>
        simp at hq; subst hq
        simp only [List.set_cons_zero, Rel]
        exact ⟨hstep p hr.1, hr.2⟩
      | succ i =>
        simp at hq
        simp only [List.set_cons_succ, Rel]
        exact ⟨hr.1, ih qs i hr.2 hq⟩

theorem map_set_same (q q' : SyncQ) (hr : q'.r = q.r) : ∀ (qs : List SyncQ) (i : Nat), qs[i]? = some q →
    (qs.set i q').map (·.r) = qs.map (·.r) := by
  intro qs
  induction qs with
  | nil => intro i h; simp at h
  | cons q0 qs ih =>
    intro i h
    cases i with
    | zero => simp at h; subst h; simp [hr]
    | succ i => simp at h; simp [ih i h]

/-! ### the event queue's head is written -/

theorem QC_pop_keyed {c rep : List (Nat × Nat)} {a0 : Act} {rest : List Act} {k : Nat} (hk : a0.key? = some k)
    (fr : Frame) (hfr : ∀ (j : Nat), alGet (applyFrame rep fr) j = if k = j then alGet c k else alGet rep j)
    (hch : ∀ (i : Nat), (a0 :: rest)[i]? = some .clear → i = 0)
    (hq : QC c rep (a0 :: rest)) : QC c (applyFrame rep fr) rest := by
  constructor
  · intro i j hi; exact hq.upd_present (i + 1) j (by simpa using hi)
  · intro i j hi; exact hq.rem_absent (i + 1) j (by simpa using hi)
  · intro j hno
    rw [hfr]
    by_cases hj : k = j
    · subst hj; simp
    · simp only [hj, if_false]
      apply hq.obs
      intro i b hb hcb
      cases i with
      | zero =>
        simp at hb; subst hb
        unfold covers at hcb
        rw [hk] at hcb
        simp [hj] at hcb
      | succ i => exact hno i b (by simpa using hb) hcb
  · intro hcl
    have := hch 1 (by simpa using hcl)
    omega

theorem QC_pop_clear {c rep : List (Nat × Nat)} {rest : List Act}
    (hch : ∀ (i : Nat), (Act.clear :: rest)[i]? = some .clear → i = 0)
    (hq : QC c rep (.clear :: rest)) : QC c [] rest := by
  constructor
  · intro i j hi; exact hq.upd_present (i + 1) j (by simpa using hi)
  · intro i j hi; exact hq.rem_absent (i + 1) j (by simpa using hi)
  · intro j hno
    simp only [alGet_nil]
    symm
    apply hq.clear_none (by simp) j
    intro hjq
    obtain ⟨i, b, hb, hbk⟩ := qkeys_mem hjq
    cases i with
    | zero => simp at hb; subst hb; simp [Act.key?] at hbk
    | succ i => exact hno i b (by simpa using hb) (Or.inr hbk)
  · intro hcl
    have := hch 1 (by simpa using hcl)
    omega

theorem frameT_event {c : List (Nat × Nat)} {m : Mon} (hc : m.cur = c) {a : Act} {f : Frame}
    (hf : frameOf c (.event a) = some f) : m.frameT f = (m.bcast f, none) := by
  cases a with
  | upd k =>
    simp only [frameOf] at hf
    cases hg : alGet c k with
    | none => simp [hg] at hf
    | some v =>
      simp [hg] at hf
      subst hf
      simp [Mon.frameT, hc, hg]
  | rem k =>
    simp only [frameOf] at hf
    have : f = .rem k := by simpa using hf.symm
    subst this; rfl
  | clear =>
    simp only [frameOf] at hf
    have : f = .clear := by simpa using hf.symm
    subst this; rfl

theorem inv_pop_event {c : List (Nat × Nat)} {w w' : WQ} {m : Mon} {seen U : List Nat} {a : Act} {f : Frame}
    (h : Inv ⟨c, w⟩ m seen U) (hp : PopR w (some (.event a)) w') (hf : frameOf c (.event a) = some f) :
    (m.frameT f).2 = none ∧ Inv ⟨c, w'⟩ (m.frameT f).1 seen U := by
  rw [frameT_event h.cur_eq hf]
  refine ⟨rfl, ?_⟩
  have hidx := popR_idxOk hp h.idx
  cases hp with
  | event _ rest he =>
    have heq := h.eqinv
    have hch : ∀ (i : Nat), (a :: rest)[i]? = some .clear → i = 0 := by
      have := heq.clear_head
      simp only at this
      rwa [he] at this
    have hqc := h.qc
    simp only at hqc
    rw [he] at hqc
    have hrel := h.rel
    simp only at hrel
    rw [he] at hrel
    constructor
    · exact h.cur_eq
    · exact h.cur_sorted
    · exact sorted_applyFrame _ _ h.rep_sorted
    · exact eqinv_pop heq a rest he
    · -- QC
      simp only [Mon.bcast]
      cases a with
      | upd k =>
        simp only [frameOf] at hf
        cases hg : alGet c k with
        | none => simp [hg] at hf
        | some v =>
          simp [hg] at hf
          subst hf
          exact QC_pop_keyed (k := k) rfl _ (fun j => by simp [applyFrame, alGet_insertSorted, hg]) hch hqc
      | rem k =>
        have : f = .rem k := by simpa [frameOf] using hf.symm
        subst this
        have hab := hqc.rem_absent 0 k (by simp)
        exact QC_pop_keyed (k := k) rfl _ (fun j => by simp [applyFrame, alGet_alErase, hab]) hch hqc
      | clear =>
        have : f = .clear := by simpa [frameOf] using hf.symm
        subst this
        exact QC_pop_clear hch hqc
    · exact hidx
    · -- Rel
      simp only [Mon.bcast, WQ.flip]
      rw [updateSyncs_eq_map]
      cases a with
      | upd k =>
        simp only [frameOf] at hf
        cases hg : alGet c k with
        | none => simp [hg] at hf
        | some v =>
          simp [hg] at hf
          subst hf
          exact rel_map _ _ (fun p q hr => R_event_keyed (k := k) rfl hch _
            (fun rep j => by simp [applyFrame, alGet_insertSorted, hg]) hr) _ _ hrel
      | rem k =>
        have : f = .rem k := by simpa [frameOf] using hf.symm
        subst this
        have hab := hqc.rem_absent 0 k (by simp)
        exact rel_map _ _ (fun p q hr => R_event_keyed (k := k) rfl hch _
          (fun rep j => by simp [applyFrame, alGet_alErase, hab]) hr) _ _ hrel
      | clear =>
        have : f = .clear := by simpa [frameOf] using hf.symm
        subst this
        exact rel_map _ _ (fun p q hr => R_event_clear hch hr) _ _ hrel
    · simp only [WQ.flip]
      rw [updateSyncs_eq_map, List.map_map]
      have : ((fun (x : SyncQ) => x.r) ∘ fun sq => sq.afterEvent a) = fun (x : SyncQ) => x.r := by
        funext x; simp [afterEvent_r]
      rw [this]
      exact h.distinct
    · intro q hq
      simp only [WQ.flip] at hq
      rw [updateSyncs_eq_map] at hq
      obtain ⟨q0, hq0, rfl⟩ := List.mem_map.mp hq
      rw [afterEvent_r]
      exact h.seen_r q0 hq0
    · intro j hj
      apply h.keysU
      simp only
      rw [he]
      obtain ⟨i, b, hb, hbk⟩ := qkeys_mem hj
      exact mem_qkeys (i := i + 1) (by simpa using hb) hbk
    · exact h.contU

/-! ### a snapshot key is served -/

theorem inv_pop_sync_skip {c : List (Nat × Nat)} {w w' : WQ} {m : Mon} {seen U : List Nat} {r k : Nat}
    (h : Inv ⟨c, w⟩ m seen U) (hp : PopR w (some (.syncEvent r k)) w') (hv : alGet c k = none) :
    Inv ⟨c, w'⟩ m seen U := by
  have hidx := popR_idxOk hp h.idx
  cases hp with
  | syncEvent _ _ ks p hg =>
    constructor
    · exact h.cur_eq
    · exact h.cur_sorted
    · exact h.rep_sorted
    · exact h.eqinv
    · exact h.qc
    · exact hidx
    · exact rel_set _ _ (fun p hr => R_sync_skip hv hr) _ _ _ h.rel hg
    · simp only [WQ.flip]
      rw [map_set_same ⟨r, k :: ks, p⟩ ⟨r, ks, p⟩ rfl _ _ hg]
      exact h.distinct
    · intro q hq
      simp only [WQ.flip] at hq
      rcases List.mem_or_eq_of_mem_set hq with hq | hq
      · exact h.seen_r q hq
      · subst hq
        exact h.seen_r ⟨r, k :: ks, p⟩ (List.mem_of_getElem? hg)
    · exact h.keysU
    · exact h.contU

theorem inv_pop_sync_emit {c : List (Nat × Nat)} {w w' : WQ} {m : Mon} {seen U : List Nat} {r k v : Nat}
    (h : Inv ⟨c, w⟩ m seen U) (hp : PopR w (some (.syncEvent r k)) w') (hv : alGet c k = some v) :
    (m.frameT (.sync r k v)).2 = none ∧ Inv ⟨c, w'⟩ (m.frameT (.sync r k v)).1 seen U := by
  have hidx := popR_idxOk hp h.idx
  cases hp with
  | syncEvent _ _ ks p hg =>
    have hany := rel_any (fun p q (hr : R c w.eq.events p q) => hr.r) _ _ _ _ h.rel hg
    simp only at hany
    have hft : m.frameT (.sync r k v) = ({ m with pend := updFirst r (.sync r k v) m.pend }, none) := by
      simp only [Mon.frameT, h.cur_eq, hv, ne_eq, not_true_eq_false, if_false, hany, Bool.not_true,
        Bool.false_eq_true]
    rw [hft]
    refine ⟨rfl, ?_⟩
    constructor
    · exact h.cur_eq
    · exact h.cur_sorted
    · exact h.rep_sorted
    · exact h.eqinv
    · exact h.qc
    · exact hidx
    · exact rel_updFirst (fun p q (hr : R c w.eq.events p q) => hr.r) _ ⟨r, k :: ks, p⟩ ⟨r, ks, p⟩ rfl
        (fun p hr => R_sync_emit hv hr) _ _ _ h.rel h.distinct hg
    · simp only [WQ.flip]
      rw [map_set_same ⟨r, k :: ks, p⟩ ⟨r, ks, p⟩ rfl _ _ hg]
      exact h.distinct
    · intro q hq
      simp only [WQ.flip] at hq
      rcases List.mem_or_eq_of_mem_set hq with hq | hq
      · exact h.seen_r q hq
      · subst hq
        exact h.seen_r ⟨r, k :: ks, p⟩ (List.mem_of_getElem? hg)
    · exact h.keysU
    · exact h.contU

/-! ### `synced` -/

theorem inv_pop_synced {c : List (Nat × Nat)} {w w' : WQ} {m : Mon} {seen U : List Nat} {r : Nat}
    (h : Inv ⟨c, w⟩ m seen U) (hp : PopR w (some (.synced r)) w') :
    (m.frameT (.synced r)).2 = none ∧ Inv ⟨c, w'⟩ (m.frameT (.synced r)).1 seen U := by
  have hidx := popR_idxOk hp h.idx
  cases hp with
  | synced _ p hg hpe =>
    obtain ⟨pd, hfind, hR, hrel⟩ := rel_erase (fun p q (hr : R c w.eq.events p q) => hr.r) ⟨r, [], p⟩ _ _ _
      h.rel h.distinct hg
    simp only at hfind hrel
    have hft : m.frameT (.synced r) = ({ m with pend := m.pend.eraseP (fun p => decide (p.r = r)) }, none) := by
      simp only [Mon.frameT, hfind, R_synced hpe hR m.keysSeen]
    rw [hft]
    refine ⟨rfl, ?_⟩
    constructor
    · exact h.cur_eq
    · exact h.cur_sorted
    · exact h.rep_sorted
    · exact h.eqinv
    · exact h.qc
    · exact hidx
    · exact hrel
    · simp only [WQ.flip]
      have hsub : (w.syncs.eraseIdx w.syncIndex).Sublist w.syncs := List.eraseIdx_sublist _ _
      exact (hsub.map (·.r)).nodup h.distinct
    · intro q hq
      simp only [WQ.flip] at hq
      exact h.seen_r q (List.mem_of_mem_eraseIdx hq)
    · exact h.keysU
    · exact h.contU

/-! ### the whole `write` -/

theorem inv_flip {c : List (Nat × Nat)} {w : WQ} {m : Mon} {seen U : List Nat} (h : Inv ⟨c, w⟩ m seen U) :
    Inv ⟨c, w.flip⟩ m seen U :=
  ⟨h.cur_eq, h.cur_sorted, h.rep_sorted, h.eqinv, h.qc, h.idx, h.rel, h.distinct, h.seen_r, h.keysU, h.contU⟩

theorem inv_PF {c : List (Nat × Nat)} {seen U : List Nat} {w : WQ} {res : Option Frame} {w' : WQ}
    (hpf : PF c w res w') : ∀ (m : Mon), Inv ⟨c, w⟩ m seen U →
    (∀ f, res = some f → (m.frameT f).2 = none ∧ Inv ⟨c, w'⟩ (m.frameT f).1 seen U) ∧
    (res = none → Inv ⟨c, w'⟩ m seen U ∧ w'.eq.events = [] ∧ w'.syncs = []) := by
  induction hpf with
  | stop w he hs =>
    intro m h
    refine ⟨fun f hf => (by cases hf), fun _ => ⟨inv_flip h, he, hs⟩⟩
  | emit w t w' f hp hf =>
    intro m h
    refine ⟨?_, fun hn => by cases hn⟩
    intro f' hf'
    have : f = f' := by simpa using hf'
    subst this
    cases t with
    | event a => exact inv_pop_event h hp hf
    | syncEvent r k =>
      simp only [frameOf] at hf
      cases hg : alGet c k with
      | none => simp [hg] at hf
      | some v =>
        simp [hg] at hf
        subst hf
        exact inv_pop_sync_emit h hp hg
    | synced r =>
      have : f = .synced r := by simpa [frameOf] using hf.symm
      subst this
      exact inv_pop_synced h hp
  | skip w t w' res w'' hp hf hpf ih =>
    intro m h
    cases t with
    | event a =>
      exfalso
      cases a with
      | upd k =>
        simp only [frameOf] at hf
        have hnone : alGet c k = none := by
          cases hg : alGet c k with
          | none => rfl
          | some v => simp [hg] at hf
        cases hp with
        | event _ rest he =>
          exact h.qc.upd_present 0 k (by simp only; rw [he]; simp) hnone
      | rem k => simp [frameOf] at hf
      | clear => simp [frameOf] at hf
    | syncEvent r k =>
      simp only [frameOf] at hf
      have hnone : alGet c k = none := by
        cases hg : alGet c k with
        | none => rfl
        | some v => simp [hg] at hf
      exact ih m (inv_pop_sync_skip h hp hnone)
    | synced r => simp [frameOf] at hf

/-- a write that produces nothing: no request is outstanding and the observer holds the lane's map -/
theorem noData_ok {c : List (Nat × Nat)} {w : WQ} {m : Mon} {seen U : List Nat} (h : Inv ⟨c, w⟩ m seen U)
    (he : w.eq.events = []) (hs : w.syncs = []) : m.noDataT = none := by
  have hrel := h.rel
  simp only at hrel
  rw [hs] at hrel
  have hp : m.pend = [] := rel_nil_right _ hrel
  have hrep : m.rep = m.cur := by
    rw [h.cur_eq]
    apply sorted_ext _ _ h.rep_sorted h.cur_sorted
    intro k
    apply h.qc.obs
    intro i a hi
    simp only at hi
    rw [he] at hi
    simp at hi
  simp [Mon.noDataT, hp, hrep]

end SwimVerif.ML
