/-
What the `lanefail` monitor (Model/LaneFail.lean) demands, stated about its reference step `Mon.apply` for ALL monitor
states: these are facts about the oracle (the implementation is compared with it by the engine), not about the code.
-/
import SwimVerif.Model.LaneFail

namespace SwimVerif.LaneFail

/-- A decode error on a live lane's channel: the oracle demands a (non-optional) `unlinked` without body for every
remote linked to that lane. -/
theorem fail_demands_unlinked (m : Mon) (l : Lane) (lane how : String) (flags : List String) (r : Nat)
    (hl : m.lane? lane = some l) (ha : l.alive = true) (hb : byteLevel how = true)
    (hr : (r, lane) ∈ m.links) :
    ∃ x ∈ (m.apply ("fail" :: lane :: how :: flags)).exp,
      x.r = r ∧ x.lane = lane ∧ x.what = "unl:none" ∧ x.opt = false := by
  have hmem : r ∈ m.remotesOf lane := by
    simp only [Mon.remotesOf, List.mem_map, List.mem_filter]
    exact ⟨(r, lane), ⟨hr, by simp⟩, rfl⟩
  refine ⟨{ r := r, lane := lane, what := "unl:none" }, ?_, rfl, rfl, rfl, rfl⟩
  simp only [Mon.apply, hb, hl, ha, Bool.true_or, Bool.not_true, Bool.false_eq_true, ↓reduceIte]
  apply List.mem_append_right
  exact List.mem_map.mpr ⟨r, hmem, rfl⟩

/-- … and afterwards the oracle holds no link on that lane (so any further frame on it is a violation until a new
`link` request). -/
theorem fail_closes_links (m : Mon) (l : Lane) (lane how : String) (flags : List String)
    (hl : m.lane? lane = some l) (ha : l.alive = true) (hb : byteLevel how = true) :
    ∀ p ∈ (m.apply ("fail" :: lane :: how :: flags)).m.links, p.2 ≠ lane := by
  intro p hp
  simp only [Mon.apply, hb, hl, ha, Bool.true_or, Bool.not_true, Bool.false_eq_true, ↓reduceIte] at hp
  simp only [List.mem_filter] at hp
  simpa using hp.2

/-- A failing store: the oracle expects no frame at all and keeps every link. -/
theorem sfail_demands_silence (m : Mon) (store how : String) (hh : storeHow how = true) :
    (m.apply ["sfail", store, how]).exp = [] ∧ (m.apply ["sfail", store, how]).m.links = m.links := by
  simp [Mon.apply, hh]

/-- Agent stop: an `unlinked` for every open link, and none is left. -/
theorem stop_demands_unlinked (m : Mon) (r : Nat) (lane : String) (hr : (r, lane) ∈ m.links) :
    (∃ x ∈ (m.apply ["stop"]).exp, x.r = r ∧ x.lane = lane ∧ x.what = "unl:none" ∧ x.opt = false)
    ∧ (m.apply ["stop"]).m.links = [] := by
  refine ⟨⟨{ r := r, lane := lane, what := "unl:none" }, ?_, rfl, rfl, rfl, rfl⟩, by simp [Mon.apply]⟩
  simp only [Mon.apply]
  exact List.mem_map.mpr ⟨(r, lane), hr, rfl⟩

/-- A frame that is not the head expectation of its pair (nor reachable by skipping optional ones) is rejected. -/
theorem consume_nil (r : Nat) (lane what : String) : consume r lane what [] = none := rfl

end SwimVerif.LaneFail
