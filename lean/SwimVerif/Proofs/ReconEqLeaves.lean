/-
C15 helper lemmas: WHEN `incremental_compare` answers `Some(true)`.  On two event streams that are each one complete
value (the validator is `InProgress` strictly inside and back to `Init` at the end — what the parser produces for a
valid text), `Some(true)` implies that the two streams agree on everything except where their `StartBody` /
`EndRecord` events stand.  So every pair of different values the comparator merges (finding C15-N3) is a pair with the
same leaves in the same order: the class the monitor calls `same-leaves` is all there is.
-/
import SwimVerif.Proofs.ReconEqValid

namespace SwimVerif.ReconEq
open SwimVerif.Recon

/-- One complete value: non-empty, the validator is `InProgress` after every proper non-empty prefix and `Init` at the end. -/
def Single (s : List Event) : Prop :=
  s ≠ [] ∧ (feedAll {} s).state = .init ∧
  ∀ p r, s = p ++ r → p ≠ [] → r ≠ [] → (feedAll {} p).state = .inProgress

theorem feedAll_snoc (v : VV) (p : List Event) (e : Event) : feedAll v (p ++ [e]) = ((feedAll v p).feed e).1 := by
  rw [feedAll_append]; rfl

theorem beq_state (a b : VV) (h : a.beq b = true) : a.state = b.state := by
  unfold VV.beq at h
  split at h
  · cases ha : a.state <;> cases hb : b.state <;> simp [ha, hb] at h ⊢
  · simp at h

theorem isBrace_congr (e f : Event) (h : e.beq f = true) : e.isBrace = f.isBrace := by
  cases e <;> cases f <;> simp [Event.beq] at h <;> rfl

theorem afterIter_cases (v1 v2 : VV) :
    (afterIter v1 v2 = none ∧ v1.beq v2 = true) ∨ afterIter v1 v2 = some none ∨ afterIter v1 v2 = some (some false) := by
  unfold afterIter
  by_cases h : v1.beq v2 = true
  · left; simp [h]
  · by_cases h2 : v1.state = .invalid ∧ v2.state = .invalid
    · right; left; simp [h, h2]
    · right; right; simp [h, h2]

/-- What `skipIf` does on an error-free stream. -/
theorem skipIf_spec (t : Event) (v : VV) (e : Event) (r : List Event) (p : VV × Event × List SItem)
    (h : skipIf t v e (r.map .ev) = some p) :
    (e.beq t = false ∧ p = (v, e, r.map .ev)) ∨
    (e.beq t = true ∧ ∃ e' r', r = e' :: r' ∧ p = ((v.feed e).1, e', r'.map .ev)) := by
  unfold skipIf at h
  by_cases ht : e.beq t = true
  · simp only [ht, ↓reduceIte] at h
    cases r with
    | nil => simp at h
    | cons e' r' =>
      simp only [List.map_cons, Option.some.injEq] at h
      exact Or.inr ⟨ht, e', r', rfl, h.symm⟩
  · simp only [ht] at h
    simp at h
    exact Or.inl ⟨by simpa using ht, h.symm⟩

/-- What `skipBoth` does on an error-free stream: it feeds a (possibly empty) list of braces and stops at an event. -/
theorem skipBoth_spec (v : VV) (e : Event) (r : List Event) (p : VV × Event × List SItem)
    (h : skipBoth v e (r.map .ev) = some p) :
    ∃ sk r', e :: r = sk ++ p.2.1 :: r' ∧ p.2.2 = r'.map .ev ∧ p.1 = feedAll v sk ∧ (∀ x ∈ sk, x.isBrace = true) := by
  unfold skipBoth at h
  cases h1 : skipIf .startBody v e (r.map .ev) with
  | none => simp [h1] at h
  | some q =>
    simp only [h1] at h
    rcases skipIf_spec _ _ _ _ _ h1 with ⟨hne, hq⟩ | ⟨heq, e', r', hr, hq⟩
    · subst hq
      rcases skipIf_spec _ _ _ _ _ h with ⟨hne2, hp⟩ | ⟨heq2, e'', r'', hr2, hp⟩
      · subst hp
        exact ⟨[], r, rfl, rfl, rfl, by simp⟩
      · subst hp hr2
        refine ⟨[e], r'', rfl, rfl, rfl, ?_⟩
        intro x hx
        simp at hx; subst hx
        simp [Event.isBrace, heq2]
    · subst hq hr
      have hb : e.isBrace = true := by simp [Event.isBrace, heq]
      rcases skipIf_spec _ _ _ _ _ h with ⟨hne2, hp⟩ | ⟨heq2, e'', r'', hr2, hp⟩
      · subst hp
        refine ⟨[e], r', rfl, rfl, rfl, ?_⟩
        intro x hx
        simp at hx; subst hx; exact hb
      · subst hp hr2
        refine ⟨[e, e'], r'', rfl, rfl, rfl, ?_⟩
        intro x hx
        simp at hx
        rcases hx with hx | hx
        · subst hx; exact hb
        · subst hx; simp [Event.isBrace, heq2]

theorem leavesOf_braces (sk : List Event) (h : ∀ x ∈ sk, x.isBrace = true) (r : List Event) :
    leavesOf (sk ++ r) = leavesOf r := by
  induction sk with
  | nil => rfl
  | cons x xs ih =>
    have hx : x.isBrace = true := h x (by simp)
    simp only [List.cons_append, leavesOf, List.filter_cons, hx, Bool.not_true, Bool.false_eq_true, ↓reduceIte]
    exact ih (fun y hy => h y (by simp [hy]))

theorem leavesOf_cons_agree (e f : Event) (a b : List Event) (h : e.beq f = true)
    (hr : evsAgree (leavesOf a) (leavesOf b) = true) : evsAgree (leavesOf (e :: a)) (leavesOf (f :: b)) = true := by
  have hb := isBrace_congr e f h
  simp only [leavesOf, List.filter_cons]
  cases hf : f.isBrace
  · simp [hb, hf, evsAgree, h]
    exact hr
  · simp [hb, hf]
    exact hr

/-- The loop, generalised: `pa`/`pb` are what has been consumed of the two streams. -/
theorem cmpLoop_leaves (a b : List Event) (ha : Single a) (hb : Single b) :
    ∀ (fuel : Nat) (pa ra pb rb : List Event), a = pa ++ ra → b = pb ++ rb → (pa = [] ↔ pb = []) →
      (feedAll {} pa).beq (feedAll {} pb) = true →
      cmpLoop fuel (feedAll {} pa) (feedAll {} pb) (ra.map .ev) (rb.map .ev) = some true →
      evsAgree (leavesOf ra) (leavesOf rb) = true := by
  intro fuel
  induction fuel with
  | zero => intro pa ra pb rb _ _ _ _ h; simp [cmpLoop] at h
  | succ n ih =>
    intro pa ra pb rb hea heb hiff hbeq h
    -- a stream that is exhausted while the other is not: impossible for two complete values
    have oneSided : ∀ (x y : List Event) (px rx py : List Event), Single x → Single y → x = px ++ rx → y = py →
        rx ≠ [] → (px = [] ↔ py = []) → (feedAll {} px).state = (feedAll {} py).state → False := by
      intro x y px rx py hx hy hex hey hrx hi hst
      have hyne : py ≠ [] := by rw [← hey]; exact hy.1
      have hpx : px ≠ [] := fun e => hyne (hi.1 e)
      have h1 := hx.2.2 px rx hex hpx hrx
      have h2 : (feedAll {} py).state = .init := by rw [← hey]; exact hy.2.1
      rw [h1, h2] at hst
      cases hst
    cases ra with
    | nil =>
      cases rb with
      | nil => rfl
      | cons e2 rb' =>
        exfalso
        have hst := beq_state _ _ hbeq
        exact oneSided b a pb (e2 :: rb') pa hb ha heb (by simpa using hea) (by simp) hiff.symm hst.symm
    | cons e1 ra' =>
      cases rb with
      | nil =>
        exfalso
        have hst := beq_state _ _ hbeq
        exact oneSided a b pa (e1 :: ra') pb ha hb hea (by simpa using heb) (by simp) hiff hst
      | cons e2 rb' =>
        simp only [List.map_cons, cmpLoop] at h
        by_cases he : e1.beq e2 = true
        · simp only [he, ↓reduceIte] at h
          rcases afterIter_cases ((feedAll {} pa).feed e1).1 ((feedAll {} pb).feed e2).1 with ⟨hn, hb'⟩ | hs | hs
          · rw [hn] at h
            have := ih (pa ++ [e1]) ra' (pb ++ [e2]) rb' (by simp [hea]) (by simp [heb]) (by simp)
              (by rw [feedAll_snoc, feedAll_snoc]; exact hb') (by rw [feedAll_snoc, feedAll_snoc]; exact h)
            exact leavesOf_cons_agree e1 e2 ra' rb' he this
          · rw [hs] at h; simp at h
          · rw [hs] at h; simp at h
        · simp only [he] at h
          simp only [Bool.false_eq_true, ↓reduceIte] at h
          cases h1 : skipBoth (feedAll {} pa) e1 (ra'.map .ev) with
          | none => simp [h1] at h
          | some p1 =>
            cases h2 : skipBoth (feedAll {} pb) e2 (rb'.map .ev) with
            | none => simp [h1, h2] at h
            | some p2 =>
              simp only [h1, h2] at h
              obtain ⟨sk1, r1, hs1, hp1, hv1, hb1⟩ := skipBoth_spec _ _ _ _ h1
              obtain ⟨sk2, r2, hs2, hp2, hv2, hb2⟩ := skipBoth_spec _ _ _ _ h2
              by_cases hc : p1.2.1.beq p2.2.1 = true
              · simp only [hc, ↓reduceIte] at h
                by_cases hr : (p1.1.feed p1.2.1).2 = (p2.1.feed p2.2.1).2
                · simp only [hr, ↓reduceIte] at h
                  rcases afterIter_cases (p1.1.feed p1.2.1).1 (p2.1.feed p2.2.1).1 with ⟨hn, hb'⟩ | hs | hs
                  · rw [hn] at h
                    rw [hp1, hp2] at h
                    have hfa : feedAll {} (pa ++ sk1 ++ [p1.2.1]) = (p1.1.feed p1.2.1).1 := by
                      rw [feedAll_snoc, feedAll_append, hv1]
                    have hfb : feedAll {} (pb ++ sk2 ++ [p2.2.1]) = (p2.1.feed p2.2.1).1 := by
                      rw [feedAll_snoc, feedAll_append, hv2]
                    have := ih (pa ++ sk1 ++ [p1.2.1]) r1 (pb ++ sk2 ++ [p2.2.1]) r2
                      (by rw [hea, hs1]; simp) (by rw [heb, hs2]; simp) (by simp)
                      (by rw [hfa, hfb]; exact hb') (by rw [hfa, hfb]; exact h)
                    rw [hs1, hs2, leavesOf_braces sk1 hb1, leavesOf_braces sk2 hb2]
                    exact leavesOf_cons_agree _ _ r1 r2 hc this
                  · rw [hs] at h; simp at h
                  · rw [hs] at h; simp at h
                · simp only [hr, ↓reduceIte] at h
                  simp at h
              · simp only [hc] at h
                simp at h

/-- `incremental_compare = Some(true)` on two complete values ⇒ the same leaves in the same order. -/
theorem compare_true_same_leaves (a b : List Event) (ha : Single a) (hb : Single b)
    (h : incrementalCompare (a.map .ev) (b.map .ev) = some true) :
    evsAgree (leavesOf a) (leavesOf b) = true := by
  unfold incrementalCompare at h
  exact cmpLoop_leaves a b ha hb _ [] a [] b rfl rfl (by simp) VV.init_beq h

/-! ### a decidable form of `Single` (what the monitor evaluates on the streams of the two texts) -/

theorem midOk_spec (s : List Event) : ∀ (v : VV), midOk v s = true →
    s ≠ [] ∧ (feedAll v s).state = .init ∧
    ∀ p r, s = p ++ r → p ≠ [] → r ≠ [] → (feedAll v p).state = .inProgress := by
  induction s with
  | nil => intro v h; simp [midOk] at h
  | cons e r ih =>
    intro v h
    cases r with
    | nil =>
      simp only [midOk, beq_iff_eq] at h
      refine ⟨by simp, by simpa [feedAll] using h, ?_⟩
      intro p q hpq hp hq
      cases p with
      | nil => exact absurd rfl hp
      | cons x p' =>
        simp at hpq
        have : p' = [] ∧ q = [] := by
          have := hpq.2
          cases p' <;> cases q <;> simp_all
        exact absurd this.2 hq
    | cons e' r' =>
      simp only [midOk, Bool.and_eq_true, beq_iff_eq] at h
      obtain ⟨h1, h2, h3⟩ := ih (v.feed e).1 h.2
      refine ⟨by simp, by simpa [feedAll] using h2, ?_⟩
      intro p q hpq hp hq
      cases p with
      | nil => exact absurd rfl hp
      | cons x p' =>
        simp only [List.cons_append, List.cons.injEq] at hpq
        obtain ⟨hx, hrest⟩ := hpq
        subst hx
        simp only [feedAll]
        by_cases hp' : p' = []
        · subst hp'; simpa [feedAll] using h.1
        · exact h3 p' q hrest hp' hq

theorem singleB_spec (s : List Event) (h : singleB s = true) : Single s := midOk_spec s {} h

/-- `compare_recon_values(a, b) = true` on two valid single-value texts ⇒ the same leaves in the same order. -/
theorem compareRecon_true_same_leaves (a b : List Char) (fa : (events a).2 = .fin) (fb : (events b).2 = .fin)
    (ha : singleB (events a).1 = true) (hb : singleB (events b).1 = true) (h : compareRecon a b = true) :
    evsAgree (leavesOf (events a).1) (leavesOf (events b).1) = true := by
  have hs : ∀ t : List Char, (events t).2 = .fin → stream (eventsOf (run t)) = (events t).1.map SItem.ev := by
    intro t ht
    have : eventsOf (run t) = events t := rfl
    rw [this]
    unfold stream
    simp [ht]
  unfold compareRecon compareOf at h
  rw [hs a fa, hs b fb] at h
  cases hc : incrementalCompare ((events a).1.map SItem.ev) ((events b).1.map SItem.ev) with
  | none =>
    rw [hc] at h
    have hab : a = b := by simpa using h
    subst hab
    exact evsAgree_refl _
  | some r =>
    rw [hc] at h
    simp only at h
    subst h
    exact compare_true_same_leaves _ _ (singleB_spec _ ha) (singleB_spec _ hb) hc

end SwimVerif.ReconEq
