/-
C10 — resynchronisation of the length-delimited Recon body decoder: for EVERY behaviour of the inner decoder and
EVERY chunking, when the outcome of a frame is reported the buffer stands exactly at the first byte after the
announced body.
-/
import SwimVerif.Model.FrameDiscard
import SwimVerif.Proofs.Frames

namespace SwimVerif.Frames.Discard

variable {β : Type}

/-- What is still owed to the current frame: `input` (buffer followed by everything not yet read) is the rest of
the frame followed by `tail`. -/
def Owes (st : St β) (input tail : List Nat) : Prop :=
  match st with
  | .header => ∃ n body, n < M64 ∧ body.length = n ∧ input = be 8 n ++ (body ++ tail)
  | .body r => ∃ x, x.length = r ∧ input = x ++ tail
  | .after r _ => ∃ x, x.length = r ∧ input = x ++ tail
  | .discarding r => ∃ x, x.length = r ∧ input = x ++ tail

/-- An outcome was reported: back at a frame boundary. -/
def AtBoundary (c : Cfg β) (unread tail : List Nat) : Prop := c.buf ++ unread = tail

theorem drop_owed {x tail buf unread : List Nat} {r : Nat} (hx : x.length = r) (h : buf ++ unread = x ++ tail)
    (hle : r ≤ buf.length) : buf.drop r ++ unread = tail := by
  obtain ⟨p', e1, e2⟩ := split_of_le h (by omega)
  subst e1
  rw [← hx, List.drop_left]; exact e2.symm

theorem short_owed {x tail buf unread : List Nat} {r : Nat} (hx : x.length = r) (h : buf ++ unread = x ++ tail)
    (hlt : ¬ r ≤ buf.length) : ∃ y, y.length = r - buf.length ∧ unread = y ++ tail := by
  obtain ⟨a', _, e1, e2⟩ := split_of_lt h (by omega)
  refine ⟨a', ?_, e2⟩
  have := congrArg List.length e1
  simp at this; omega

theorem stepAfter_ok (calls r : Nat) (v : β) (buf unread tail : List Nat)
    (h : Owes (.after r v) (buf ++ unread) tail) :
    match (stepAfter calls r v buf).2 with
    | .more => Owes (stepAfter calls r v buf).1.st ((stepAfter calls r v buf).1.buf ++ unread) tail
    | _ => (stepAfter calls r v buf).1.buf ++ unread = tail := by
  obtain ⟨x, hx, hi⟩ := h
  unfold stepAfter
  by_cases hle : r ≤ buf.length
  · simp only [hle, if_true]; exact drop_owed hx hi hle
  · simp only [hle, if_false]
    obtain ⟨y, hy, e⟩ := short_owed hx hi hle
    exact ⟨y, hy, by simpa using e⟩

theorem stepDiscard_ok (calls r : Nat) (buf unread tail : List Nat)
    (h : Owes (β := β) (.discarding r) (buf ++ unread) tail) :
    match (stepDiscard (β := β) calls r buf).2 with
    | .more => Owes (stepDiscard (β := β) calls r buf).1.st ((stepDiscard (β := β) calls r buf).1.buf ++ unread) tail
    | _ => (stepDiscard (β := β) calls r buf).1.buf ++ unread = tail := by
  obtain ⟨x, hx, hi⟩ := h
  unfold stepDiscard
  by_cases hle : r ≤ buf.length
  · simp only [hle, if_true]; exact drop_owed hx hi hle
  · simp only [hle, if_false]
    obtain ⟨y, hy, e⟩ := short_owed hx hi hle
    exact ⟨y, hy, by simpa using e⟩

theorem stepBody_ok (o : Oracle β) (calls r : Nat) (buf unread tail : List Nat)
    (h : Owes (β := β) (.body r) (buf ++ unread) tail) :
    match (stepBody o calls r buf).2 with
    | .more => Owes (stepBody o calls r buf).1.st ((stepBody o calls r buf).1.buf ++ unread) tail
    | _ => (stepBody o calls r buf).1.buf ++ unread = tail := by
  obtain ⟨x, hx, hi⟩ := h
  -- the inner decoder consumed `c ≤ min r buf.length` bytes: the same bytes leave `x`
  generalize hans : o calls (buf.take (min r buf.length)) (decide (r ≤ buf.length)) = ans
  have hc : min ans.1 (buf.take (min r buf.length)).length ≤ min r buf.length := by
    simp [List.length_take]; omega
  generalize hcdef : min ans.1 (buf.take (min r buf.length)).length = c at hc
  have hcr : c ≤ r := by omega
  have hcb : c ≤ buf.length := by omega
  have howe : Owes (β := β) (.body (r - c)) (buf.drop c ++ unread) tail := by
    refine ⟨x.drop c, by simp [hx], ?_⟩
    have h1 : (buf ++ unread).drop c = buf.drop c ++ unread := by
      rw [List.drop_append_of_le_length hcb]
    have h2 : (x ++ tail).drop c = x.drop c ++ tail := by
      rw [List.drop_append_of_le_length (by omega)]
    rw [← h1, hi, h2]
  unfold stepBody
  simp only [hans, hcdef]
  cases hres : ans.2 with
  | some v => exact stepAfter_ok (calls + 1) (r - c) v (buf.drop c) unread tail howe
  | none => exact howe
  | err =>
    obtain ⟨y, hy, hyi⟩ := howe
    by_cases hle : r - c ≤ (buf.drop c).length
    · simp only [hle, if_true]; exact drop_owed hy hyi hle
    · simp only [hle, if_false]
      obtain ⟨z, hz, e⟩ := short_owed hy hyi hle
      have := stepDiscard_ok (β := β) (calls + 1) (r - c - (buf.drop c).length) [] unread tail
        ⟨z, hz, by simpa using e⟩
      exact this

/-- **One `decode` call**: if the configuration owes the rest of a frame, then either the call asks for more and
still owes exactly the rest, or it reports the frame's outcome and the buffer (followed by what has not been read
yet) is exactly what follows the frame. -/
theorem step_ok (o : Oracle β) (c : Cfg β) (unread tail : List Nat) (h : Owes c.st (c.buf ++ unread) tail) :
    match (step o c).2 with
    | .more => Owes (step o c).1.st ((step o c).1.buf ++ unread) tail
    | _ => (step o c).1.buf ++ unread = tail := by
  obtain ⟨st, calls, buf⟩ := c
  cases st with
  | header =>
    obtain ⟨n, body, hn, hb, hi⟩ := h
    simp only at hi
    unfold step
    by_cases h8 : buf.length < 8
    · simp only [h8, if_true]; exact ⟨n, body, hn, hb, hi⟩
    · simp only [h8, if_false]
      obtain ⟨p', e1, e2⟩ := split_of_le hi (by simp; omega)
      subst e1
      have t8 : (be 8 n ++ p').take 8 = be 8 n := List.take_left' (be_length 8 n)
      have d8 : (be 8 n ++ p').drop 8 = p' := List.drop_left' (be_length 8 n)
      rw [t8, d8, rd_be8 hn]
      exact stepBody_ok o calls n p' unread tail ⟨body, hb, by rw [e2]⟩
  | body r => exact stepBody_ok o calls r buf unread tail h
  | after r v => exact stepAfter_ok calls r v buf unread tail h
  | discarding r => exact stepDiscard_ok calls r buf unread tail h

/-- **Every chunking**: when `drive` reports the outcome of the frame, the buffer followed by the unread chunks
is exactly `tail`. -/
theorem drive_ok (o : Oracle β) :
    ∀ (chunks : List (List Nat)) (c : Cfg β) (tail : List Nat), Owes c.st (c.buf ++ chunks.flatten) tail →
      ∀ out buf rest, drive o c chunks = some (out, buf, rest) → buf ++ rest.flatten = tail := by
  intro chunks
  induction chunks with
  | nil => intro c tail _ out buf rest h; simp [drive] at h
  | cons ch rest ih =>
    intro c tail hc out buf rest' h
    have hs := step_ok o { c with buf := c.buf ++ ch } rest.flatten tail (by simpa using hc)
    unfold drive at h
    cases hout : (step o { c with buf := c.buf ++ ch }).2 with
    | more =>
      rw [hout] at hs
      have : step o { c with buf := c.buf ++ ch } = ((step o { c with buf := c.buf ++ ch }).1, .more) := by
        rw [← hout]
      rw [this] at h
      exact ih _ tail hs out buf rest' h
    | item v =>
      rw [hout] at hs
      have : step o { c with buf := c.buf ++ ch } = ((step o { c with buf := c.buf ++ ch }).1, .item v) := by
        rw [← hout]
      rw [this] at h
      simp only [Option.some.injEq, Prod.mk.injEq] at h
      obtain ⟨_, e2, e3⟩ := h
      subst e2 e3; exact hs
    | err =>
      rw [hout] at hs
      have : step o { c with buf := c.buf ++ ch } = ((step o { c with buf := c.buf ++ ch }).1, .err) := by
        rw [← hout]
      rw [this] at h
      simp only [Option.some.injEq, Prod.mk.injEq] at h
      obtain ⟨_, e2, e3⟩ := h
      subst e2 e3; exact hs
    | panic =>
      rw [hout] at hs
      have : step o { c with buf := c.buf ++ ch } = ((step o { c with buf := c.buf ++ ch }).1, .panic) := by
        rw [← hout]
      rw [this] at h
      simp only [Option.some.injEq, Prod.mk.injEq] at h
      obtain ⟨_, e2, e3⟩ := h
      subst e2 e3; exact hs
    | abort =>
      rw [hout] at hs
      have : step o { c with buf := c.buf ++ ch } = ((step o { c with buf := c.buf ++ ch }).1, .abort) := by
        rw [← hout]
      rw [this] at h
      simp only [Option.some.injEq, Prod.mk.injEq] at h
      obtain ⟨_, e2, e3⟩ := h
      subst e2 e3; exact hs

/-- Once the decoder is discarding, the error IS reported: as soon as the bytes still owed have been read. -/
theorem discard_reports (o : Oracle β) :
    ∀ (chunks : List (List Nat)) (calls r : Nat) (buf : List Nat), chunks ≠ [] →
      r ≤ (buf ++ chunks.flatten).length →
      ∃ b rest, drive o ⟨.discarding r, calls, buf⟩ chunks = some (.err, b, rest) := by
  intro chunks
  induction chunks with
  | nil => intro _ _ _ h; exact absurd rfl h
  | cons ch rest ih =>
    intro calls r buf _ hlen
    unfold drive
    simp only [step, stepDiscard]
    by_cases hle : r ≤ (buf ++ ch).length
    · simp only [hle, if_true]; exact ⟨_, _, rfl⟩
    · simp only [hle, if_false]
      have hne : rest ≠ [] := by
        intro h0; subst h0; simp at hlen hle; omega
      exact ih calls (r - (buf ++ ch).length) [] hne (by simp at hlen hle ⊢; omega)

end SwimVerif.Frames.Discard
