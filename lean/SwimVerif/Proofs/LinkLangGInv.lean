/-
The global link-language invariant of the write task (`GInv`) and its preservation by every event except the
completion of a write and the removal of a remote (those are in `LinkLangDone.lean`) (C04).
-/
import SwimVerif.Proofs.LinkLangState

set_option linter.unusedSimpArgs false
set_option linter.unusedVariables false
namespace SwimVerif.WT

/-- `st` = state of the checker, `seen` = remote ids attached so far. -/
structure GInv (s : St) (st : List (Nat × Bool)) (seen : List Nat) : Prop where
  regN : s.reg.Nodup
  regB : ∀ n, n ∈ s.reg → n < 100000
  li : LInv s.links
  sinv : SInv s.reg st (fun r l => s.links.isLinked r l = true) s.remotes
  lkLt : ∀ r l, s.links.isLinked r l = true → l < s.reg.length
  seenL : ∀ r l, s.links.isLinked r l = true → r ∈ seen
  seenR : ∀ r rem, alGet s.remotes r = some rem → r ∈ seen
  seenO : ∀ p, p ∈ s.orphans → p.1 ∈ seen
  orphR : ∀ p, p ∈ s.orphans → alGet s.remotes p.1 = none
  orphN : (s.orphans.map (·.1)).Nodup
  orphOk : ∀ p, p ∈ s.orphans → wOk s.reg (bOf st p.1) p.2

theorem ginv_init : GInv {} [] [] := by
  refine ⟨by simp, by simp, linv_init false, ?_, ?_, ?_, ?_, by simp, by simp, by simp, by simp⟩
  · intro r rem h; simp [alGet] at h
  · intro r l h; simp [Links.isLinked, alGet] at h
  · intro r l h; simp [Links.isLinked, alGet] at h
  · intro r rem h; simp [alGet] at h

/-- Reassemble the invariant after an event that keeps registry, orphans and the set of attached remotes. -/
theorem ginv_rebuild {s s' : St} {st : List (Nat × Bool)} {seen : List Nat} (h : GInv s st seen)
    (hreg : s'.reg = s.reg) (horph : s'.orphans = s.orphans) (hdom : sameDom s.remotes s'.remotes)
    (hli : LInv s'.links) (hsinv : SInv s.reg st (fun r l => s'.links.isLinked r l = true) s'.remotes)
    (hlk : ∀ r l, s'.links.isLinked r l = true → l < s.reg.length ∧ r ∈ seen) : GInv s' st seen := by
  refine ⟨by rw [hreg]; exact h.regN, by rw [hreg]; exact h.regB, hli, by rw [hreg]; exact hsinv,
    fun r l hl => by rw [hreg]; exact (hlk r l hl).1, fun r l hl => (hlk r l hl).2, ?_,
    by rw [horph]; exact h.seenO, ?_, by rw [horph]; exact h.orphN, by rw [horph, hreg]; exact h.orphOk⟩
  · intro r rem hg
    cases hr : alGet s.remotes r with
    | none => have := (hdom r).mpr hr; rw [hg] at this; simp at this
    | some rem0 => exact h.seenR r rem0 hr
  · intro p hp
    rw [horph] at hp
    exact (hdom p.1).mpr (h.orphR p hp)

theorem idFor_lt {reg : Registry} {name id : Nat} (h : reg.idFor name = some id) : id < reg.length := by
  unfold Registry.idFor at h
  simp only [] at h
  split at h
  · rename_i hl; cases h; exact hl
  · simp at h

/-! ### lane registration -/

theorem ginv_lane_aux {s : St} {st : List (Nat × Bool)} {seen : List Nat} (h : GInv s st seen) (name : Nat)
    (hb : name < 100000) (hf : name ∉ s.reg) (links' : Links) (hli : LInv links')
    (heq : ∀ r l, links'.isLinked r l = s.links.isLinked r l) :
    GInv { s with reg := s.reg ++ [name], links := links' } st seen := by
  refine ⟨?_, ?_, hli, ?_, ?_, ?_, h.seenR, h.seenO, h.orphR, h.orphN, ?_⟩
  · show (s.reg ++ [name]).Nodup
    rw [List.nodup_append]
    refine ⟨h.regN, by simp, ?_⟩
    intro a ha b hb' hab
    simp at hb'
    subst hb'; subst hab
    exact hf ha
  · intro n hn
    have hn' : n ∈ s.reg ++ [name] := hn
    simp only [List.mem_append, List.mem_singleton] at hn'
    rcases hn' with hn' | hn'
    · exact h.regB n hn'
    · rw [hn']; exact hb
  · intro r rem hg
    have := h.sinv r rem hg
    exact pinv_mono (pinv_reg_append this name hf) (fun l hl => by
      have hl' : links'.isLinked r l = true := hl
      rw [heq] at hl'; exact hl')
  · intro r l hl
    have hl' : links'.isLinked r l = true := hl
    rw [heq] at hl'
    have := h.lkLt r l hl'
    show l < (s.reg ++ [name]).length
    simp; omega
  · intro r l hl
    have hl' : links'.isLinked r l = true := hl
    rw [heq] at hl'
    exact h.seenL r l hl'
  · intro p hp
    obtain ⟨n, h1, h2, h3⟩ := h.orphOk p hp
    exact ⟨n, h1, h2.imp (fun hm => List.mem_append_left _ hm) (fun x => x), h3⟩

theorem ginv_lane {s : St} {st : List (Nat × Bool)} {seen : List Nat} (h : GInv s st seen) (name : Nat)
    (rep : Bool) (hb : name < 100000) (hf : name ∉ s.reg) : GInv (step s (.lane name rep)).1 st seen := by
  cases rep with
  | false =>
    have := ginv_lane_aux h name hb hf s.links h.li (fun _ _ => rfl)
    simpa [step] using this
  | true =>
    have hfresh : s.links.linkedFrom s.reg.length = [] := by
      rw [List.eq_nil_iff_forall_not_mem]
      intro r hr
      have := h.lkLt r _ ((mem_linkedFrom _ _ _).mp hr)
      omega
    have hli : LInv (s.links.registerReporter s.reg.length) :=
      ⟨(inv_register h.li.r h.li.t _ hfresh).1, (inv_register h.li.r h.li.t _ hfresh).2⟩
    have := ginv_lane_aux h name hb hf _ hli (fun r l => isLinked_registerReporter _ _ r l)
    simpa [step] using this

/-! ### attach -/

theorem ginv_attach {s : St} {st : List (Nat × Bool)} {seen : List Nat} (h : GInv s st seen) (r : Nat)
    (hr : r ∉ seen) : GInv (step s (.attach r)).1 st (r :: seen) := by
  have hnone : alGet s.remotes r = none := by
    cases hg : alGet s.remotes r with
    | none => rfl
    | some rem => exact absurd (h.seenR r rem hg) hr
  have e : (step s (.attach r)).1 = { s with remotes := alSet s.remotes r {} } := by
    simp [step, St.remote?, hnone]
  rw [e]
  refine ⟨h.regN, h.regB, h.li, ?_, h.lkLt, fun r' l hl => List.mem_cons_of_mem _ (h.seenL r' l hl), ?_,
    fun p hp => List.mem_cons_of_mem _ (h.seenO p hp), ?_, h.orphN, h.orphOk⟩
  · intro r' rem' hg
    simp only [alGet_alSet] at hg
    split at hg
    · rename_i he; subst he
      simp only [Option.some.injEq] at hg
      subst hg
      exact pinv_init _ _ _ (fun l hl => hr (h.seenL r l hl))
    · exact h.sinv r' rem' hg
  · intro r' rem' hg
    simp only [alGet_alSet] at hg
    split at hg
    · rename_i he; subst he; exact List.mem_cons_self
    · exact List.mem_cons_of_mem _ (h.seenR r' rem' hg)
  · intro p hp
    have hne : r ≠ p.1 := fun e => hr (e ▸ h.seenO p hp)
    show alGet (alSet s.remotes r {}) p.1 = none
    rw [alGet_alSet_ne _ _ hne]
    exact h.orphR p hp

/-! ### link / unlink / unknown lane -/

theorem ginv_link {s : St} {st : List (Nat × Bool)} {seen : List Nat} (h : GInv s st seen) (r name : Nat) :
    GInv (step s (.link r name)).1 st seen := by
  simp only [step]
  cases h1 : s.reg.idFor name with
  | none => exact h
  | some id =>
    cases h2 : s.remote? r with
    | none => exact h
    | some rem0 =>
      simp only []
      have hid := idFor_lt h1
      have hsame := same_pushSpecial { s with links := s.links.insert id r } r (.linked id)
      refine ginv_rebuild h hsame.reg hsame.orphans hsame.dom ?_ ?_ ?_
      · rw [hsame.links]; exact linv_step h.li (.insert id r) trivial
      · rw [hsame.links]
        exact sinv_pushSpecial_linked (s := { s with links := s.links.insert id r }) h.sinv r id hid
          (fun r' l' hl => (isLinked_insert s.links id r r' l').mp hl)
      · rw [hsame.links]
        intro r' l' hl
        rcases (isLinked_insert s.links id r r' l').mp hl with hl | ⟨e1, e2⟩
        · exact ⟨h.lkLt r' l' hl, h.seenL r' l' hl⟩
        · subst e1; subst e2
          exact ⟨hid, h.seenR r' rem0 h2⟩

theorem ginv_unlink {s : St} {st : List (Nat × Bool)} {seen : List Nat} (h : GInv s st seen) (r name : Nat) :
    GInv (step s (.unlink r name)).1 st seen := by
  simp only [step]
  cases h1 : s.reg.idFor name with
  | none => exact h
  | some id =>
    simp only []
    by_cases h2 : s.links.isLinked r id = true
    · rw [if_pos h2]
      simp only []
      have hsame := same_pushSpecial { s with links := (s.links.remove id r).1 } r (.unlinked id .closed)
      refine ginv_rebuild h hsame.reg hsame.orphans hsame.dom ?_ ?_ ?_
      · rw [hsame.links]; exact linv_step h.li (.remove id r) trivial
      · rw [hsame.links]
        exact sinv_pushSpecial_unlinked (s := { s with links := (s.links.remove id r).1 }) h.sinv h.regN r id
          .closed h2 (fun r' l' hl => (isLinked_remove s.links id r r' l').mp hl)
      · rw [hsame.links]
        intro r' l' hl
        have := ((isLinked_remove s.links id r r' l').mp hl).1
        exact ⟨h.lkLt r' l' this, h.seenL r' l' this⟩
    · rw [if_neg h2]; exact h

theorem ginv_unknown {s : St} {st : List (Nat × Bool)} {seen : List Nat} (h : GInv s st seen) (r name : Nat) :
    GInv (step s (.unknown r name)).1 st seen := by
  simp only [step]
  have hsame := same_pushSpecial s r (.laneNotFound name)
  refine ginv_rebuild h hsame.reg hsame.orphans hsame.dom ?_ ?_ ?_
  · rw [hsame.links]; exact h.li
  · rw [hsame.links]; exact sinv_pushSpecial_notFound h.sinv r name
  · rw [hsame.links]; exact fun r' l' hl => ⟨h.lkLt r' l' hl, h.seenL r' l' hl⟩

/-! ### lane events -/

theorem ginv_event_target {s : St} {st : List (Nat × Bool)} {seen : List Nat} (h : GInv s st seen)
    (lane r : Nat) (resp : Resp) (hlane : lane < s.reg.length) :
    GInv (step s (.event lane (some r) resp)).1 st seen := by
  simp only [step]
  cases h0 : s.remote? r with
  | none => simpa using h
  | some rem0 =>
    simp only [Option.isNone_some, Bool.false_eq_true, if_false]
    have hli0 : LInv (s.links.countSingle lane) := linv_step h.li (.countSingle lane) trivial
    have hs0 : SInv s.reg st (fun r l => (s.links.countSingle lane).isLinked r l = true) s.remotes :=
      sinv_mono h.sinv (fun r' l' hl => by rw [isLinked_countSingle] at hl; exact hl)
    by_cases h2 : (s.links.countSingle lane).isLinked r lane = true
    · rw [if_pos h2]
      simp only []
      have hsame := same_pushWrite { s with links := s.links.countSingle lane } r lane resp
      refine ginv_rebuild h hsame.reg hsame.orphans hsame.dom ?_ ?_ ?_
      · rw [hsame.links]; exact hli0
      · rw [hsame.links]
        exact sinv_pushWrite (s := { s with links := s.links.countSingle lane }) hs0 r lane resp h2
      · rw [hsame.links]
        intro r' l' hl
        have hl' : (s.links.countSingle lane).isLinked r' l' = true := hl
        rw [isLinked_countSingle] at hl'
        exact ⟨h.lkLt r' l' hl', h.seenL r' l' hl'⟩
    · rw [if_neg h2]
      simp only []
      have hsame1 := same_pushSpecial
        { s with links := (s.links.countSingle lane).insert lane r } r (.linked lane)
      have hsame2 := same_pushWrite
        ({ s with links := (s.links.countSingle lane).insert lane r }.pushSpecial r (.linked lane)).1 r lane resp
      have hsame := same_trans hsame1 hsame2
      have hs1 := sinv_pushSpecial_linked (s := { s with links := (s.links.countSingle lane).insert lane r })
        (L' := fun r' l' => ((s.links.countSingle lane).insert lane r).isLinked r' l' = true) hs0 r lane hlane
        (fun r' l' hl => (isLinked_insert _ lane r r' l').mp hl)
      have hs2 := sinv_pushWrite
        (s := ({ s with links := (s.links.countSingle lane).insert lane r }.pushSpecial r (.linked lane)).1)
        (st := st) (L := fun r' l' => ((s.links.countSingle lane).insert lane r).isLinked r' l' = true)
        (by rw [hsame1.reg]; exact hs1) r lane resp
        ((isLinked_insert _ lane r r lane).mpr (Or.inr ⟨rfl, rfl⟩))
      rw [hsame1.reg] at hs2
      refine ginv_rebuild h hsame.reg hsame.orphans hsame.dom ?_ ?_ ?_
      · rw [hsame.links]; exact linv_step hli0 (.insert lane r) trivial
      · rw [hsame.links]; exact hs2
      · rw [hsame.links]
        intro r' l' hl
        rcases (isLinked_insert _ lane r r' l').mp hl with hl | ⟨e1, e2⟩
        · rw [isLinked_countSingle] at hl
          exact ⟨h.lkLt r' l' hl, h.seenL r' l' hl⟩
        · subst e1; subst e2
          exact ⟨hlane, h.seenR r' rem0 h0⟩

theorem ginv_event_broadcast {s : St} {st : List (Nat × Bool)} {seen : List Nat} (h : GInv s st seen)
    (lane : Nat) (resp : Resp) : GInv (step s (.event lane none resp)).1 st seen := by
  simp only [step]
  by_cases h0 : (s.links.linkedFrom lane).isEmpty = true
  · rw [if_pos h0]; exact h
  · rw [if_neg h0]
    simp only []
    rw [broadcast_fold_fst]
    have hs0 : SInv s.reg st (fun r l => (s.links.countBroadcast lane).isLinked r l = true) s.remotes :=
      sinv_mono h.sinv (fun r' l' hl => by rw [isLinked_countBroadcast] at hl; exact hl)
    have := sinv_foldPush lane resp st (fun r l => (s.links.countBroadcast lane).isLinked r l = true)
      (s.links.linkedFrom lane) { s with links := s.links.countBroadcast lane } hs0
      (fun r hr => by
        show (s.links.countBroadcast lane).isLinked r lane = true
        rw [isLinked_countBroadcast]; exact (mem_linkedFrom _ _ _).mp hr)
    obtain ⟨hsame, hs1⟩ := this
    refine ginv_rebuild h hsame.reg hsame.orphans hsame.dom ?_ ?_ ?_
    · rw [hsame.links]; exact linv_step h.li (.countBroadcast lane) trivial
    · rw [hsame.links]; exact hs1
    · rw [hsame.links]
      intro r' l' hl
      have hl' : (s.links.countBroadcast lane).isLinked r' l' = true := hl
      rw [isLinked_countBroadcast] at hl'
      exact ⟨h.lkLt r' l' hl', h.seenL r' l' hl'⟩

/-! ### lane failure, stop, snapshot -/

theorem ginv_laneFailed {s : St} {st : List (Nat × Bool)} {seen : List Nat} (h : GInv s st seen) (lane : Nat) :
    GInv (step s (.laneFailed lane)).1 st seen := by
  simp only [step]
  rw [laneFailed_fold_fst, removeLane_targets]
  have hnd : ((s.links.linkedFrom lane).map (fun r => (lane, r))).Nodup := by
    refine List.Pairwise.map _ ?_ (linkedFrom_nodup h.li.t lane)
    intro a b hab hc
    exact hab (Prod.mk.inj hc).2
  have := sinv_foldUnl .none st ((s.links.linkedFrom lane).map (fun r => (lane, r)))
    { s with links := (s.links.removeLane lane).1 } (fun r l => s.links.isLinked r l = true) hnd h.regN h.sinv
    (by
      intro p hp
      simp only [List.mem_map] at hp
      obtain ⟨r, hr, rfl⟩ := hp
      exact (mem_linkedFrom _ _ _).mp hr)
  obtain ⟨hsame, hs1⟩ := this
  refine ginv_rebuild h hsame.reg hsame.orphans hsame.dom ?_ ?_ ?_
  · rw [hsame.links]; exact linv_step h.li (.removeLane lane) trivial
  · rw [hsame.links]
    apply sinv_mono hs1
    intro r l hl
    have := (isLinked_removeLane s.links lane r l).mp hl
    refine ⟨this.1, ?_⟩
    intro hm
    simp only [List.mem_map, Prod.mk.injEq] at hm
    obtain ⟨_, _, e, _⟩ := hm
    exact this.2 e.symm
  · rw [hsame.links]
    intro r' l' hl
    have := ((isLinked_removeLane s.links lane r' l').mp hl).1
    exact ⟨h.lkLt r' l' this, h.seenL r' l' this⟩

theorem ginv_stop {s : St} {st : List (Nat × Bool)} {seen : List Nat} (h : GInv s st seen) :
    GInv (step s .stop).1 st seen := by
  simp only [step]
  rw [stop_fold_fst]
  have := sinv_foldUnl .none st s.links.removeAllLinks.2
    { s with links := s.links.removeAllLinks.1 } (fun r l => s.links.isLinked r l = true)
    (pairs_nodup h.li.t) h.regN h.sinv
    (fun p hp => isLinked_of_mem_pairs h.li.t.keys p.1 p.2 hp)
  obtain ⟨hsame, hs1⟩ := this
  refine ginv_rebuild h hsame.reg hsame.orphans hsame.dom ?_ ?_ ?_
  · rw [hsame.links]; exact linv_step h.li .removeAll trivial
  · rw [hsame.links]
    apply sinv_mono hs1
    intro r l hl
    have hl' : s.links.removeAllLinks.1.isLinked r l = true := hl
    rw [isLinked_removeAll] at hl'
    simp at hl'
  · rw [hsame.links]
    intro r' l' hl
    have hl' : s.links.removeAllLinks.1.isLinked r' l' = true := hl
    rw [isLinked_removeAll] at hl'
    simp at hl'

theorem ginv_snapshot {s : St} {st : List (Nat × Bool)} {seen : List Nat} (h : GInv s st seen) :
    GInv (step s .snapshot).1 st seen := by
  simp only [step]
  have hl : ∀ r l, (s.links.snapshot).isLinked r l = s.links.isLinked r l := fun r l => isLinked_congr rfl r l
  refine ginv_rebuild (s' := { s with links := s.links.snapshot }) h rfl rfl (sameDom_refl _) ?_ ?_ ?_
  · exact linv_step h.li .snapshot trivial
  · exact sinv_mono h.sinv (fun r l hh => by
      have hh' : (s.links.snapshot).isLinked r l = true := hh
      rw [hl] at hh'; exact hh')
  · intro r l hh
    have hh' : (s.links.snapshot).isLinked r l = true := hh
    rw [hl] at hh'
    exact ⟨h.lkLt r l hh', h.seenL r l hh'⟩

end SwimVerif.WT
