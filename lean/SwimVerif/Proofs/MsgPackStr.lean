/-
C16 — token level of the MessagePack byte model: UTF-8 (`utf8Dec ∘ utf8Enc`), str / bin / ext size classes,
big-integer magnitudes (`to_bytes_be` / `from_bytes_be`), and the two token round trips `PrimRT`, `NameRT`.
-/
import SwimVerif.Proofs.MsgPackTok

namespace SwimVerif.MsgPack
open SwimVerif.Recon

/-! ### UTF-8 -/

theorem char_scalar (c : Char) : c.toNat < 55296 ∨ (57343 < c.toNat ∧ c.toNat < 1114112) := by
  have h := c.valid
  simp only [UInt32.isValidChar, Nat.isValidChar] at h
  exact h

theorem utf8Dec1 (b : Nat) (r : List Nat) (h : b < 128) :
    utf8Dec (b :: r) = (utf8Dec r).map (Char.ofNat b :: ·) := by
  rw [utf8Dec.eq_def]; simp only []; rw [if_pos h]

theorem utf8Dec2 (b0 b1 : Nat) (r : List Nat) (h1 : 192 ≤ b0) (h2 : b0 < 224) (hc : isCont b1 = true)
    (hv : 128 ≤ (b0 - 192) * 64 + (b1 - 128)) :
    utf8Dec (b0 :: b1 :: r) = (utf8Dec r).map (Char.ofNat ((b0 - 192) * 64 + (b1 - 128)) :: ·) := by
  rw [utf8Dec, if_neg (by omega), if_neg (by omega), if_pos h2]
  simp only [hc, hv, Bool.true_and, decide_true, if_true]

theorem utf8Dec3 (b0 b1 b2 : Nat) (r : List Nat) (h1 : 224 ≤ b0) (h2 : b0 < 240) (hc1 : isCont b1 = true)
    (hc2 : isCont b2 = true) (hv : 2048 ≤ (b0 - 224) * 4096 + (b1 - 128) * 64 + (b2 - 128))
    (hs : isScalar ((b0 - 224) * 4096 + (b1 - 128) * 64 + (b2 - 128)) = true) :
    utf8Dec (b0 :: b1 :: b2 :: r) =
      (utf8Dec r).map (Char.ofNat ((b0 - 224) * 4096 + (b1 - 128) * 64 + (b2 - 128)) :: ·) := by
  rw [utf8Dec, if_neg (by omega), if_neg (by omega), if_neg (by omega), if_pos h2]
  simp only [hc1, hc2, hv, hs, Bool.true_and, decide_true, if_true]

theorem utf8Dec4 (b0 b1 b2 b3 : Nat) (r : List Nat) (h1 : 240 ≤ b0) (h2 : b0 < 248) (hc1 : isCont b1 = true)
    (hc2 : isCont b2 = true) (hc3 : isCont b3 = true)
    (hv : 65536 ≤ (b0 - 240) * 262144 + (b1 - 128) * 4096 + (b2 - 128) * 64 + (b3 - 128))
    (hs : (b0 - 240) * 262144 + (b1 - 128) * 4096 + (b2 - 128) * 64 + (b3 - 128) < 1114112) :
    utf8Dec (b0 :: b1 :: b2 :: b3 :: r) =
      (utf8Dec r).map (Char.ofNat ((b0 - 240) * 262144 + (b1 - 128) * 4096 + (b2 - 128) * 64 + (b3 - 128)) :: ·) := by
  rw [utf8Dec, if_neg (by omega), if_neg (by omega), if_neg (by omega), if_neg (by omega), if_pos h2]
  simp only [hc1, hc2, hc3, hv, hs, Bool.true_and, decide_true, if_true]

theorem isCont_of {b : Nat} (h1 : 128 ≤ b) (h2 : b < 192) : isCont b = true := by
  simp [isCont, h1, h2]

/-- Decoding one scalar value's encoding gives it back. -/
theorem utf8Dec_char (n : Nat) (hv : n < 55296 ∨ (57343 < n ∧ n < 1114112)) (r : List Nat) :
    utf8Dec (utf8Char n ++ r) = (utf8Dec r).map (Char.ofNat n :: ·) := by
  unfold utf8Char
  by_cases c1 : n < 128
  · rw [if_pos c1]; exact utf8Dec1 _ _ c1
  rw [if_neg c1]
  by_cases c2 : n < 2048
  · rw [if_pos c2]
    simp only [List.cons_append, List.nil_append]
    rw [utf8Dec2 _ _ _ (by omega) (by omega) (isCont_of (by omega) (by omega)) (by omega)]
    have e : (192 + n / 64 - 192) * 64 + (128 + n % 64 - 128) = n := by omega
    rw [e]
  rw [if_neg c2]
  by_cases c3 : n < 65536
  · rw [if_pos c3]
    simp only [List.cons_append, List.nil_append]
    have e : (224 + n / 4096 - 224) * 4096 + (128 + n / 64 % 64 - 128) * 64 + (128 + n % 64 - 128) = n := by omega
    rw [utf8Dec3 _ _ _ _ (by omega) (by omega) (isCont_of (by omega) (by omega)) (isCont_of (by omega) (by omega))
      (by omega) (by rw [e]; simp [isScalar]; omega)]
    rw [e]
  rw [if_neg c3]
  simp only [List.cons_append, List.nil_append]
  have e : (240 + n / 262144 - 240) * 262144 + (128 + n / 4096 % 64 - 128) * 4096 + (128 + n / 64 % 64 - 128) * 64 +
      (128 + n % 64 - 128) = n := by omega
  rw [utf8Dec4 _ _ _ _ _ (by omega) (by omega) (isCont_of (by omega) (by omega)) (isCont_of (by omega) (by omega))
    (isCont_of (by omega) (by omega)) (by omega) (by omega)]
  rw [e]

/-- **`from_utf8 (s.as_bytes()) = Ok s`** in the model. -/
theorem utf8Dec_enc (s : List Char) : utf8Dec (utf8Enc s) = some s := by
  induction s with
  | nil => simp [utf8Enc, utf8Dec]
  | cons c r ih =>
    simp only [utf8Enc]
    rw [utf8Dec_char _ (char_scalar c), ih, Char.ofNat_toNat]
    rfl

theorem utf8Char_ne_nil (n : Nat) : 1 ≤ (utf8Char n).length := by
  unfold utf8Char
  split
  · simp
  · split
    · simp
    · split <;> simp

theorem rdStrBody_enc (s : List Char) (rest : List Nat) :
    rdStrBody (utf8Enc s).length (utf8Enc s ++ rest) = some (s, rest) := by
  simp [rdStrBody, takeN_append, utf8Dec_enc]

theorem rdText_enc (s : List Char) (rest : List Nat) :
    rdText (utf8Enc s).length (utf8Enc s ++ rest) = some (.text s, rest) := by
  simp [rdText, rdStrBody_enc]

/-! ### str -/

theorem text_rt (s : List Char) (hL : (utf8Enc s).length < U32) : TokRT (wStr s) (.text s) := by
  have hU : U32 = 4294967296 := rfl
  have hmod : (utf8Enc s).length % U32 = (utf8Enc s).length := Nat.mod_eq_of_lt hL
  unfold wStr wStrLen
  rw [hmod]
  by_cases c1 : (utf8Enc s).length < 32
  · rw [if_pos c1]
    refine ⟨160 + (utf8Enc s).length, utf8Enc s, rfl, notMap_of (by omega), notArr_of (by omega), ?_⟩
    intro rest
    rw [rdPrim_fixstr _ _ (by omega) (by omega), Nat.add_sub_cancel_left, rdText_enc]
  rw [if_neg c1]
  by_cases c2 : (utf8Enc s).length < 256
  · rw [if_pos c2]
    refine ⟨217, (utf8Enc s).length :: utf8Enc s, rfl, by decide, by decide, ?_⟩
    intro rest
    have : ∀ x, rdPrim 217 x = rdLenText 1 x := by intro x; simp [rdPrim]
    rw [this, List.cons_append, rdLenText, rdU1]
    exact rdText_enc s rest
  rw [if_neg c2]
  by_cases c3 : (utf8Enc s).length < 65536
  · rw [if_pos c3]
    refine ⟨218, be 2 (utf8Enc s).length ++ utf8Enc s, rfl, by decide, by decide, ?_⟩
    intro rest
    have : ∀ x, rdPrim 218 x = rdLenText 2 x := by intro x; simp [rdPrim]
    rw [this, List.append_assoc, rdLenText, rdU_be 2 _ (by simp only [Nat.reducePow]; omega)]
    exact rdText_enc s rest
  rw [if_neg c3]
  refine ⟨219, be 4 (utf8Enc s).length ++ utf8Enc s, rfl, by decide, by decide, ?_⟩
  intro rest
  have : ∀ x, rdPrim 219 x = rdLenText 4 x := by intro x; simp [rdPrim]
  rw [this, List.append_assoc, rdLenText, rdU_be 4 _ (by simp only [Nat.reducePow]; omega)]
  exact rdText_enc s rest

/-- Attribute names: `write_str` ↔ `read_str_len` + `from_utf8`. -/
theorem nameRT : NameRT := by
  intro s hL rest
  have hU : U32 = 4294967296 := rfl
  have hmod : (utf8Enc s).length % U32 = (utf8Enc s).length := Nat.mod_eq_of_lt hL
  unfold wStr wStrLen
  rw [hmod]
  by_cases c1 : (utf8Enc s).length < 32
  · rw [if_pos c1]
    simp only [List.cons_append, List.nil_append, rdName]
    rw [if_pos (by omega), Nat.add_sub_cancel_left, rdStrBody_enc]
  rw [if_neg c1]
  by_cases c2 : (utf8Enc s).length < 256
  · rw [if_pos c2]
    simp only [List.cons_append, List.nil_append, rdName]
    rw [if_neg (by omega), if_pos trivial, rdU1]
    exact rdStrBody_enc s rest
  rw [if_neg c2]
  by_cases c3 : (utf8Enc s).length < 65536
  · rw [if_pos c3]
    simp only [List.cons_append, List.append_assoc, rdName]
    rw [if_neg (by omega), if_neg (by omega), if_pos trivial, rdU_be 2 _ (by simp only [Nat.reducePow]; omega)]
    exact rdStrBody_enc s rest
  rw [if_neg c3]
  simp only [List.cons_append, List.append_assoc, rdName]
  rw [if_neg (by omega), if_neg (by omega), if_neg (by omega), if_pos trivial,
    rdU_be 4 _ (by simp only [Nat.reducePow]; omega)]
  exact rdStrBody_enc s rest

/-! ### bin -/

theorem rdBlob1 (bs rest : List Nat) : rdBlob 1 (bs.length :: (bs ++ rest)) = some (.data bs, rest) := by
  simp [rdBlob, rdU1, takeN_append]

theorem rdBlob_be (k : Nat) (bs rest : List Nat) (h : bs.length < 256 ^ k) :
    rdBlob k (be k bs.length ++ (bs ++ rest)) = some (.data bs, rest) := by
  simp [rdBlob, rdU_be k _ h, takeN_append]

theorem data_rt (bs : List Nat) (hL : bs.length < U32) : TokRT (wBinLen bs.length ++ bs) (.data bs) := by
  have hU : U32 = 4294967296 := rfl
  have hmod : bs.length % U32 = bs.length := Nat.mod_eq_of_lt hL
  unfold wBinLen
  rw [hmod]
  by_cases c2 : bs.length < 256
  · rw [if_pos c2]
    refine ⟨196, bs.length :: bs, rfl, by decide, by decide, ?_⟩
    intro rest
    have : ∀ x, rdPrim 196 x = rdBlob 1 x := by intro x; simp [rdPrim]
    rw [this, List.cons_append, rdBlob1]
  rw [if_neg c2]
  by_cases c3 : bs.length < 65536
  · rw [if_pos c3]
    refine ⟨197, be 2 bs.length ++ bs, rfl, by decide, by decide, ?_⟩
    intro rest
    have : ∀ x, rdPrim 197 x = rdBlob 2 x := by intro x; simp [rdPrim]
    rw [this, List.append_assoc, rdBlob_be 2 _ _ (by simp only [Nat.reducePow]; omega)]
  rw [if_neg c3]
  refine ⟨198, be 4 bs.length ++ bs, rfl, by decide, by decide, ?_⟩
  intro rest
  have : ∀ x, rdPrim 198 x = rdBlob 4 x := by intro x; simp [rdPrim]
  rw [this, List.append_assoc, rdBlob_be 4 _ _ (by simp only [Nat.reducePow]; omega)]

end SwimVerif.MsgPack
