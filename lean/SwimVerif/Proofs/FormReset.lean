/-
C16: with `VecRecognizer::reset` repaired (`Generated.vecResetKeepsAttrMode = true`) a recogniser that has been used
and `reset()` decodes every input exactly like a fresh one: the two modes of every codec coincide.
-/
import SwimVerif.Proofs.FormTypes

namespace SwimVerif.Form

/-- The decoders of a codec do not depend on the recogniser mode. -/
structure ModeFree (c : Codec) : Prop where
  dec : c.dec true = c.dec false
  decAttr : c.decAttr true = c.decAttr false
  decBody : c.decBody true = c.decBody false

theorem modeFree_opt (c : Codec) (h : ModeFree c) : ModeFree (optCodec c) where
  dec := by funext v; simp only [optCodec, optDec, h.dec]
  decAttr := by funext v; simp only [optCodec, optDecAttr, h.decAttr]
  decBody := by funext a i; simp only [optCodec, optDecBody, h.decBody]

theorem listItemsFrom_modeFree (c : Codec) (h : ModeFree c) (items : List Item) :
    listItemsFrom true c items = listItemsFrom false c items := by
  cases items with
  | nil => rfl
  | cons it rest =>
    obtain ⟨k, v⟩ := it
    cases k <;> simp only [listItemsFrom, h.dec]

theorem modeFree_list (hk : Generated.vecResetKeepsAttrMode = true) (c : Codec) (h : ModeFree c) :
    ModeFree (listCodec c) where
  dec := by
    funext v
    cases v <;> simp only [listCodec, listDec]
    rename_i attrs items
    cases attrs <;> simp only [listDec, listItemsFrom_modeFree c h]
  decAttr := by
    funext v
    have hd : listDec true c v = listDec false c v := by
      cases v <;> simp only [listDec]
      rename_i attrs items
      cases attrs <;> simp only [listDec, listItemsFrom_modeFree c h]
    simp only [listCodec, listDecAttr, hk, Bool.not_true, Bool.and_false, Bool.false_eq_true, ↓reduceIte, h.dec, hd]
  decBody := by
    funext a i
    cases a <;> simp only [listCodec, listDecBody, listItemsFrom_modeFree c h]

theorem readSlots_modeFree (tbl : List FieldC) (h : ∀ f ∈ tbl, ModeFree f.c) :
    ∀ (items : List Item) (acc : Acc), readSlots true tbl acc items = readSlots false tbl acc items := by
  intro items
  induction items with
  | nil => intro acc; rfl
  | cons it rest ih =>
    intro acc
    obtain ⟨k, v⟩ := it
    cases k with
    | none => rfl
    | some key =>
      cases key <;> try rfl
      rename_i name
      simp only [readSlots]
      cases hf : findField tbl name with
      | none => rfl
      | some f =>
        have hm : f ∈ tbl := List.mem_of_find?_eq_some hf
        simp only [(h f hm).dec, ih]

theorem readOrdinal_modeFree : ∀ (fs : List FieldC), (∀ f ∈ fs, ModeFree f.c) →
    ∀ (items : List Item) (acc : Acc), readOrdinal true fs acc items = readOrdinal false fs acc items := by
  intro fs
  induction fs with
  | nil => intro _ items acc; cases items <;> simp [readOrdinal]
  | cons f fs ih =>
    intro h items acc
    cases items with
    | nil => rfl
    | cons it rest =>
      obtain ⟨k, v⟩ := it
      cases k with
      | some key => rfl
      | none =>
        simp only [readOrdinal, (h f (List.mem_cons_self ..)).dec]
        cases f.c.dec false v with
        | none => rfl
        | some x => exact ih (fun g hg => h g (List.mem_cons_of_mem _ hg)) rest _

theorem readAttrs_modeFree (tbl : List FieldC) (h : ∀ f ∈ tbl, ModeFree f.c) :
    ∀ (attrs : List Attr) (acc : Acc), readAttrs true tbl acc attrs = readAttrs false tbl acc attrs := by
  intro attrs
  induction attrs with
  | nil => intro acc; rfl
  | cons a rest ih =>
    intro acc
    obtain ⟨name, v⟩ := a
    simp only [readAttrs]
    cases hf : findField tbl name with
    | none => rfl
    | some f =>
      have hm : f ∈ tbl := List.mem_of_find?_eq_some hf
      simp only [(h f hm).decAttr, ih]

theorem readHeader_modeFree (fs : List FieldC) (h : ∀ f ∈ fs, ModeFree f.c) (tv : Val) :
    readHeader true fs tv = readHeader false fs tv := by
  have hhs : ∀ f ∈ segHs fs, ModeFree f.c := fun f hf => h f (mem_segHs hf).1
  unfold readHeader
  cases hhb : segHb fs with
  | none =>
    cases hs : segHs fs with
    | nil => rfl
    | cons a l =>
      have hhs' : ∀ g ∈ a :: l, ModeFree g.c := by rw [← hs]; exact hhs
      simp only [headerFlat, headerNested]
      cases tv <;> try rfl
      rename_i attrs items
      cases attrs <;> try rfl
      exact readSlots_modeFree _ hhs' items []
  | some f =>
    have hf := h f (segHb_some hhb).1
    cases hs : segHs fs with
    | nil => simp only [hf.decAttr]
    | cons a l =>
      have hhs' : ∀ g ∈ a :: l, ModeFree g.c := by rw [← hs]; exact hhs
      simp only [headerFlat, headerNested, hf.dec]
      cases f.c.dec false tv with
      | some x => rfl
      | none =>
        simp only
        cases tv <;> try rfl
        rename_i attrs items
        cases attrs <;> try rfl
        cases items with
        | nil => rfl
        | cons it rest =>
          obtain ⟨k, v⟩ := it
          cases k with
          | some key => rfl
          | none =>
            simp only
            cases f.c.dec false v with
            | none => rfl
            | some x => exact readSlots_modeFree _ hhs' rest _

theorem structDecAfterTag_modeFree (fs : List FieldC) (h : ∀ f ∈ fs, ModeFree f.c) (tv : Val) (attrs : List Attr)
    (items : List Item) : structDecAfterTag true fs tv attrs items = structDecAfterTag false fs tv attrs items := by
  have has : ∀ f ∈ segAs fs, ModeFree f.c := fun f hf => h f (mem_segAs.mp hf).1
  have hsl : ∀ f ∈ segSlots fs, ModeFree f.c := fun f hf => h f (mem_segSlots hf).1
  unfold structDecAfterTag
  rw [readHeader_modeFree fs h tv]
  cases readHeader false fs tv with
  | none => rfl
  | some acc0 =>
    simp only [readAttrs_modeFree _ has]
    cases readAttrs false (segAs fs) acc0 attrs with
    | none => rfl
    | some p =>
      obtain ⟨acc1, rest⟩ := p
      simp only
      cases hb : segBody fs with
      | some f =>
        simp only [(h f (segBody_some hb).1).decBody]
      | none =>
        simp only [readSlots_modeFree _ hsl, readOrdinal_modeFree _ hsl]

theorem modeFree_struct (tag : String) (fs : List FieldC) (h : ∀ f ∈ fs, ModeFree f.c) :
    ModeFree (structCodec tag fs) := by
  have hd : ∀ v, structDec true tag fs v = structDec false tag fs v := by
    intro v
    unfold structDec
    cases v <;> try rfl
    rename_i attrs items
    cases attrs with
    | nil => rfl
    | cons a rest =>
      obtain ⟨t, tv⟩ := a
      simp only [structDecAfterTag_modeFree fs h]
  exact ⟨by funext v; exact hd v, by funext v; exact hd v, by funext a i; exact hd _⟩

theorem modeFree_newtype (fs : List FieldC) (h : ∀ f ∈ fs, ModeFree f.c) : ModeFree (newtypeCodec fs) := by
  have hd : ∀ v, newtypeDec true fs v = newtypeDec false fs v := by
    intro v
    unfold newtypeDec
    cases hf : newtypeField fs with
    | none => rfl
    | some f =>
      have hm : f ∈ fs := by unfold newtypeField at hf; exact List.mem_of_find?_eq_some hf
      simp only [(h f hm).dec]
  exact ⟨by funext v; exact hd v, by funext v; exact hd v, by funext a i; exact hd _⟩

mutual
theorem modeFree_ty (hk : Generated.vecResetKeepsAttrMode = true) : (t : Ty) → ModeFree (codecOf t)
  | .int k => ⟨rfl, rfl, rfl⟩
  | .bool => ⟨rfl, rfl, rfl⟩
  | .text => ⟨rfl, rfl, rfl⟩
  | .unit => ⟨rfl, rfl, rfl⟩
  | .opt t => by simp only [codecOf]; exact modeFree_opt _ (modeFree_ty hk t)
  | .list t => by simp only [codecOf]; exact modeFree_list hk _ (modeFree_ty hk t)
  | .struct tag fs => by simp only [codecOf]; exact modeFree_struct tag _ (modeFree_fields hk fs 0)
  | .newtype fs => by simp only [codecOf]; exact modeFree_newtype _ (modeFree_fields hk fs 0)
  | .enum vs => ⟨rfl, rfl, rfl⟩
theorem modeFree_fields (hk : Generated.vecResetKeepsAttrMode = true) :
    (fs : Fields) → (k : Nat) → ∀ f ∈ fieldCs fs k, ModeFree f.c
  | .nil, k => by intro f hf; simp [fieldCs] at hf
  | .cons n l kd t rest, k => by
    intro f hf
    simp only [fieldCs, List.mem_cons] at hf
    rcases hf with rfl | hf
    · exact modeFree_ty hk t
    · exact modeFree_fields hk rest (k + 1) f hf
end

/-- **A recogniser after `reset()` behaves as a new one, on every input, for every schema** (given the repaired
`VecRecognizer::reset`). -/
theorem reset_is_fresh (hk : Generated.vecResetKeepsAttrMode = true) (t : Ty) (v : Val) :
    fromValueReused t v = fromValue t v := by
  simp only [fromValueReused, fromValue, (modeFree_ty hk t).dec]

end SwimVerif.Form
