/-
C01 composition, proof layer 4: the two sampling relations (strict subsequence of the `set` history for a remote that
never syncs; monotone index sampling of the held values in general) and what the invariant says about the values a
remote has been *delivered*.
-/
import SwimVerif.Proofs.ValueComposeStep
import SwimVerif.Proofs.MonoSample

set_option linter.unusedSimpArgs false
set_option linter.unusedVariables false
namespace SwimVerif.VC
open WT (USys UOp ustep Registry Body Resp Special Kind UnlinkMsg bodiesFor pushedBodies UInv VInv valueOp)

/-- strict: a subsequence of the values set -/
def RStrict (D : List Body) (H : List Nat) : Prop := D.Sublist (H.map body)

/-- general: a monotone sampling of the values held (initial value first) -/
def RMono (D : List Body) (H : List Nat) : Prop := MonoSample D ((0 :: H).map body)

theorem sampRel_strict : SampRel RStrict False where
  nil := List.Sublist.refl _
  sub := fun hs h => hs.trans h
  set := fun v h => by
    unfold RStrict at *
    rw [List.map_append]
    exact List.Sublist.append h (List.Sublist.refl _)
  cur := fun hf => hf.elim

theorem held_last (H : List Nat) : ((0 :: H).map body).getLast? = some (body (H.getLast?.getD 0)) := by
  rw [List.getLast?_map, List.getLast?_cons]
  rfl

theorem sampRel_mono : SampRel RMono True where
  nil := MonoSample.nil _
  sub := fun hs h => MonoSample.sub hs h
  set := fun {D H} v h => by
    unfold RMono at *
    have : (0 :: (H ++ [v])).map body = (0 :: H).map body ++ [body v] := by simp
    rw [this]
    exact h.snoc _
  cur := fun _ {D H} h => by
    unfold RMono at *
    exact h.last _ (held_last H)

variable {R : List Body → List Nat → Prop} {ok : Prop} {l r : Nat}

/-- delivered ⊑ delivered-or-in-flight-or-buffered ⊑ pushed ⊑ timeline -/
theorem delivered_sub_tl {s : CSys} (h : CInv R ok l r s) :
    (s.delivered l r).Sublist (tl l r s.lane s.pipe (s.rem r)) := by
  have h1 : (s.delivered l r).Sublist (WT.valueView l (s.rem r).sys) := by
    unfold CSys.delivered WT.valueView
    rw [WT.sent_eq, List.append_assoc]
    exact List.sublist_append_left _ _
  have h2 := h.remok.v.sub
  have h3 : (pushedTo l (s.rem r)).Sublist (tl l r s.lane s.pipe (s.rem r)) := by
    unfold tl; rw [List.append_assoc]; exact List.sublist_append_left _ _
  exact (h1.trans h2).trans h3

theorem cinv_sampled (hR : SampRel R ok) {s : CSys} (h : CInv R ok l r s) : R (s.delivered l r) s.lane.history :=
  hR.sub (delivered_sub_tl h) h.samp

theorem cinv_fresh {s : CSys} (h : CInv R ok l r s) (hq : s.quiescent r) (ho : s.owed r) :
    (s.delivered l r).getLast? = some (body s.lane.content) := by
  obtain ⟨hd, hsq, hp, hi⟩ := hq
  have ht : tl l r s.lane s.pipe (s.rem r) = pushedTo l (s.rem r) := by
    simp [tl, hp, dirtyBody, hd]
  have hne : pushedTo l (s.rem r) ≠ [] := by
    rcases ho with ⟨h1, h2⟩ | h1
    · rw [← ht]; exact h.since h1 h2
    · rcases h.asked h1 with h2 | ⟨v, h2⟩ | h2
      · rw [hsq] at h2; cases h2
      · rw [hp] at h2; cases h2
      · exact h2
  have hlast := h.last (by rw [ht]; exact hne)
  rw [ht] at hlast
  have hv := h.remok.v.last hne
  have hb := WT.bufs_empty_of_home h.remok.u (h.remok.u.w.mpr hi) l
  simp only [WT.valueView, WT.sent_eq, hi, hb.1] at hv
  have hv' : (s.delivered l r).getLast? = (pushedBodies l (s.rem r).sys.pushed).getLast? := by
    simpa [WT.writeBodies, CSys.delivered] using hv
  rw [hv']; exact hlast

/-- at any time: what has been delivered, is in flight, waits in the overwrite buffer, is in the pipe, or is still
unsent in the lane, ends with the lane's current value (nothing newer than what is pending is ever lost) -/
theorem cinv_pending_ends_current {s : CSys} (h : CInv R ok l r s) (hne : tl l r s.lane s.pipe (s.rem r) ≠ []) :
    (tl l r s.lane s.pipe (s.rem r)).getLast? = some (body s.lane.content) := h.last hne

/-- the same with the remote's own view (delivered / in flight / buffered) in place of what was pushed to it -/
theorem cinv_newest {s : CSys} (h : CInv R ok l r s) (hl : (s.rem r).linked = true)
    (hs : (s.rem r).since < s.lane.history.length) :
    (WT.valueView l (s.rem r).sys ++ pipeBodies r s.pipe ++ dirtyBody s.lane).getLast? =
      some (body s.lane.content) := by
  have hne := h.since hl hs
  have hlast := h.last hne
  unfold tl at hlast hne
  rw [List.append_assoc] at hlast hne ⊢
  generalize pipeBodies r s.pipe ++ dirtyBody s.lane = X at hlast hne ⊢
  cases X with
  | nil =>
    simp only [List.append_nil] at hlast hne ⊢
    rw [h.remok.v.last hne]; exact hlast
  | cons a t =>
    rw [List.getLast?_append, List.getLast?_cons] at hlast ⊢
    simpa using hlast

instance (r : Nat) (ops : List COp) : Decidable (staysLinked r ops) := by unfold staysLinked; infer_instance
instance (r : Nat) (ops : List COp) : Decidable (neverSyncs r ops) := by unfold neverSyncs; infer_instance
instance (s : CSys) (r : Nat) : Decidable (s.quiescent r) := by unfold CSys.quiescent; infer_instance
instance (s : CSys) (r : Nat) : Decidable (s.owed r) := by unfold CSys.owed; infer_instance

theorem sync_ok_of_never {r : Nat} {ops : List COp} (h : neverSyncs r ops) :
    ∀ op, op ∈ ops → op = .sync r → False := fun op ho e => h op ho e

end SwimVerif.VC
