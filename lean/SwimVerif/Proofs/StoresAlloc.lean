/-
C13: the `id < 2^56` hypothesis of the RocksDB refinement is met by every history that only passes ids which
`id_for` has handed out (ids stored in the plane's name table at that moment) and is shorter than `2^56` events:
the counter grows by at most one per event (kills included: a kill inside `id_for` burns one id).
-/
import SwimVerif.Proofs.StoresCrashRun

set_option linter.unusedVariables false
set_option linter.unusedSimpArgs false
namespace SwimVerif.Store.Rocks
open SwimVerif.Generated.Store

/-- The op goes through an open handle and the id it is about (if any) is stored in the name table of that handle's
plane — i.e. it was returned by `id_for` on that plane.  (`id_for` itself, opens, drops, reopen: no condition.) -/
def Op.allocIn (s : St) : Op → Prop
  | .data slot d => ∀ id, DOp.target d = some id →
      ∃ p uri nm, aget s.slots slot = some (p, uri) ∧ aget (getPlane s p).lanes nm = some id
  | _ => True

/-- Every event of the history (acknowledged or in flight at a kill) uses allocated ids only. -/
def histAlloc (s : St) : List CEv → Prop
  | [] => True
  | .op o :: evs => Op.allocIn s o ∧ histAlloc (step s o).1 evs
  | .crash o cut :: evs => Op.allocIn s o ∧ histAlloc (recover (cutAt s o cut)) evs

theorem specStep_next_le (t : Spec) (uri : Bytes) (d : DOp) : (specStep t uri d).1.next ≤ t.next + 1 := by
  cases d with
  | idFor name => simp only [specStep]; split <;> simp
  | get id => simp only [specStep]; split <;> simp
  | _ => simp [specStep]

theorem sstep_next_le (s : SSt) (o : Op) :
    (sstep s o).1.p0.next ≤ s.p0.next + 1 ∧ (sstep s o).1.p1.next ≤ s.p1.next + 1 := by
  cases o with
  | opn slot p uri => simp only [sstep]; split <;> simp
  | poll slot => simp [sstep]
  | drp slot => simp only [sstep]; split <;> simp
  | reopen => simp [sstep]
  | data slot d =>
    simp only [sstep]
    split
    · rename_i p uri _
      by_cases hp : p = 0
      · simp only [sset, sget, hp, ↓reduceIte]
        exact ⟨specStep_next_le _ _ _, by simp⟩
      · simp only [sset, sget, hp, ↓reduceIte]
        exact ⟨by simp, specStep_next_le _ _ _⟩
    · simp

theorem scrash_next_le {s s' : SSt} {o : Op} (hc : SCrash s o s') :
    s'.p0.next ≤ s.p0.next + 1 ∧ s'.p1.next ≤ s.p1.next + 1 := by
  cases hc with
  | before => simp [sstep]
  | after => exact sstep_next_le s o
  | burnt slot p uri name e1 e2 e3 =>
    by_cases hp : p = 0 <;> simp [sstep, sset, sget, burn, hp]

/-- An op that uses allocated ids in a state whose counters are below `2^56` satisfies the `id < 2^56` hypothesis. -/
theorem idOk_of_alloc (s : St) (o : Op) (h0 : IdsInv 1 (abs s.p0)) (h1 : IdsInv 1 (abs s.p1))
    (b0 : (abs s.p0).next < id56) (b1 : (abs s.p1).next < id56) (ha : Op.allocIn s o) : Op.idOk o := by
  cases o with
  | data slot d =>
    have key : ∀ id, DOp.target d = some id → id < id56 := by
      intro id hid
      obtain ⟨p, uri, nm, hsl, hnm⟩ := ha id hid
      by_cases hp : p = 0
      · have : aget s.p0.lanes nm = some id := by simpa [getPlane, hp] using hnm
        have := h0.bound nm id this
        omega
      · have : aget s.p1.lanes nm = some id := by simpa [getPlane, hp] using hnm
        have := h1.bound nm id this
        omega
    cases d with
    | idFor name => trivial
    | get id => exact key id rfl
    | put id v => exact key id rfl
    | del id => exact key id rfl
    | upd id k v => exact key id rfl
    | rem id k => exact key id rfl
    | clr id => exact key id rfl
    | read id => exact key id rfl
  | _ => trivial

/-- Histories that use allocated ids only and are shorter than `2^56 - k` events (`k` bounds the counters at the
start) satisfy the `id < 2^56` hypothesis of the refinement theorems at every event. -/
theorem histAlloc_idOk (evs : List CEv) : ∀ (s : St) (k : Nat), StInv s →
    IdsInv 1 (abs s.p0) → IdsInv 1 (abs s.p1) → (abs s.p0).next ≤ k → (abs s.p1).next ≤ k →
    k + evs.length < id56 → histAlloc s evs → ∀ e ∈ evs, CEv.idOk e := by
  induction evs with
  | nil => intro s k _ _ _ _ _ _ _ e he; cases he
  | cons ev es ih =>
    intro s k hinv h0 h1 b0 b1 hlen ha
    simp only [List.length_cons] at hlen
    cases ev with
    | op o =>
      obtain ⟨ha1, ha2⟩ := ha
      have hok : Op.idOk o := idOk_of_alloc s o h0 h1 (by omega) (by omega) ha1
      obtain ⟨r1, r2, _⟩ := step_refines s hinv o hok
      have hi := Rocks.ids_sstep (absSt s) h0 h1 o
      have hn := sstep_next_le (absSt s) o
      rw [← r2] at hi hn
      have rest := ih (step s o).1 (k + 1) r1 hi.1 hi.2.1
        (Nat.le_trans hn.1 (Nat.succ_le_succ b0)) (Nat.le_trans hn.2 (Nat.succ_le_succ b1)) (by omega) ha2
      intro e he
      rcases List.mem_cons.mp he with rfl | he
      · exact hok
      · exact rest e he
    | crash o cut =>
      obtain ⟨ha1, ha2⟩ := ha
      have hok : Op.idOk o := idOk_of_alloc s o h0 h1 (by omega) (by omega) ha1
      obtain ⟨r1, r2⟩ := scrash_of_cut s hinv o hok cut
      have hi := ids_scrash r2 h0 h1
      have hn := scrash_next_le r2
      have rest := ih (recover (cutAt s o cut)) (k + 1) r1 hi.1 hi.2.1
        (Nat.le_trans hn.1 (Nat.succ_le_succ b0)) (Nat.le_trans hn.2 (Nat.succ_le_succ b1)) (by omega) ha2
      intro e he
      rcases List.mem_cons.mp he with rfl | he
      · exact hok
      · exact rest e he

end SwimVerif.Store.Rocks
