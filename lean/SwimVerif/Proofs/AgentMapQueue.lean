import SwimVerif.Proofs.MapQueue

set_option linter.unusedSimpArgs false
set_option linter.unusedVariables false
namespace SwimVerif.WT

/-! ### Agent side of a map lane at specification level (C02): key-only queue, values read at pop time

The agent's `EventQueue<K, ()>` stores *which keys changed*; `to_operation` reads the value when the event is
written. At specification level the queue is the same coalescing queue as the runtime's (`mqPush`), with the value
slot unused. `rep` is the replica of an observer that applies every emitted event. -/

structure AgentQ where
  content : KMap := fun _ => none
  queue : List MapOp := []
  rep : KMap := fun _ => none

inductive AOp
  | update (k : Nat) (v : Bytes)
  | remove (k : Nat)
  | clear
  | pop

def setKey (m : KMap) (k : Nat) (v : Option Bytes) : KMap := fun x => if x = k then v else m x

def aStep (s : AgentQ) : AOp → AgentQ
  | .update k v => { s with content := setKey s.content k (some v), queue := mqPush s.queue (.upd k []) }
  | .remove k =>
    match s.content k with
    | some _ => { s with content := setKey s.content k none, queue := mqPush s.queue (.rem k) }
    | none => s
  | .clear => { s with content := fun _ => none, queue := mqPush s.queue .clear }
  | .pop =>
    match s.queue with
    | [] => s
    | .upd k _ :: rest =>
      (match s.content k with
        | some v => { s with queue := rest, rep := setKey s.rep k (some v) }
        | none => { s with queue := rest })
    | .rem k :: rest => { s with queue := rest, rep := setKey s.rep k none }
    | .clear :: rest => { s with queue := rest, rep := fun _ => none }

def aRun (s : AgentQ) (ops : List AOp) : AgentQ := ops.foldl aStep s

def isUpd : MapOp → Bool
  | .upd _ _ => true
  | _ => false

def isRem : MapOp → Bool
  | .rem _ => true
  | _ => false

/-- the map an observer would hold if the emission of `clear` at the head (if any) had already happened -/
def baseOf (s : AgentQ) : KMap :=
  match s.queue with
  | .clear :: _ => fun _ => none
  | _ => s.rep

structure AInv (s : AgentQ) : Prop where
  wf : WFQ s.queue
  per : ∀ k, match findKey k s.queue with
    | some e => (isUpd e = true → s.content k ≠ none) ∧ (isRem e = true → s.content k = none)
    | none => baseOf s k = s.content k

theorem ainv_init : AInv {} := ⟨wfq_nil, fun k => by simp [findKey, baseOf]⟩

/-- **Convergence (agent side)**: when nothing is queued, the observer's replica is the lane's map. -/
theorem ainv_quiescent {s : AgentQ} (h : AInv s) (hq : s.queue = []) : s.rep = s.content := by
  funext k
  have := h.per k
  simpa [hq, findKey, baseOf] using this

theorem findKey_mqPush_keyed (q : List MapOp) (op : MapOp) (k : Nat) (hk : op.key? = some k) (x : Nat) :
    findKey x (mqPush q op) = if x = k then some op else findKey x q := by
  unfold mqPush
  rw [hk]
  simp only []
  cases hr : mqReplace op k q with
  | some q' => exact (mqReplace_spec op k hk q q' hr).2.2.2.1 x
  | none =>
    simp only []
    have hn := mqReplace_none op k q hr
    induction q with
    | nil =>
      simp only [List.nil_append, findKey, hk]
      by_cases hx : x = k
      · subst hx; simp
      · have : ¬ (some k = some x) := fun hh => hx (Option.some.inj hh).symm
        simp [hx, this]
    | cons e rest ih =>
      simp only [List.cons_append, findKey]
      cases hke : e.key? with
      | none =>
        have hn' : k ∉ keysOfQ rest := by rw [keysOfQ_cons_none rest hke] at hn; exact hn
        have hr' : mqReplace op k rest = none := by
          unfold mqReplace at hr
          have : ¬ e.key? = some k := by rw [hke]; simp
          rw [if_neg this] at hr
          cases h2 : mqReplace op k rest with
          | none => rfl
          | some r => simp [h2] at hr
        simp
        exact ih hr' hn'
      | some k' =>
        have hn' : k ≠ k' ∧ k ∉ keysOfQ rest := by
          rw [keysOfQ_cons_some rest hke] at hn
          simpa [List.mem_cons, not_or] using hn
        have hr' : mqReplace op k rest = none := by
          unfold mqReplace at hr
          have : ¬ e.key? = some k := by rw [hke]; intro hh; exact hn'.1 (Option.some.inj hh).symm
          rw [if_neg this] at hr
          cases h2 : mqReplace op k rest with
          | none => rfl
          | some r => simp [h2] at hr
        by_cases hx : k' = x
        · subst hx
          have : ¬ k' = k := fun hh => hn'.1 hh.symm
          simp [this]
        · have : ¬ (some k' = some x) := fun hh => hx (Option.some.inj hh)
          simp only [this, if_false]
          exact ih hr' hn'.2

theorem head_mqPush_keyed (q : List MapOp) (op : MapOp) (k : Nat) (hk : op.key? = some k) :
    (∃ rest, mqPush q op = .clear :: rest) ↔ (∃ rest, q = .clear :: rest) := by
  cases q with
  | nil =>
    simp only [mqPush, hk, mqReplace, List.nil_append]
    constructor
    · rintro ⟨rest, h⟩
      have : op = .clear := by simpa using congrArg List.head? h
      rw [this] at hk; simp [MapOp.key?] at hk
    · rintro ⟨rest, h⟩; simp at h
  | cons e rest =>
    cases e with
    | clear =>
      constructor
      · intro _; exact ⟨rest, rfl⟩
      · intro _
        have hne : ¬ (MapOp.clear.key? = some k) := by simp [MapOp.key?]
        refine ⟨mqPush rest op, ?_⟩
        simp only [mqPush, hk]
        rw [mqReplace, if_neg hne]
        cases mqReplace op k rest <;> rfl
    | upd k' v =>
      constructor
      · rintro ⟨r, h⟩
        exfalso
        simp only [mqPush, hk] at h
        rw [mqReplace] at h
        by_cases hkk : (MapOp.upd k' v).key? = some k
        · rw [if_pos hkk] at h
          simp at h
          rw [h.1] at hk; simp [MapOp.key?] at hk
        · rw [if_neg hkk] at h
          cases h2 : mqReplace op k rest with
          | none => simp [h2] at h
          | some r2 => simp [h2] at h
      · rintro ⟨r, h⟩; simp at h
    | rem k' =>
      constructor
      · rintro ⟨r, h⟩
        exfalso
        simp only [mqPush, hk] at h
        rw [mqReplace] at h
        by_cases hkk : (MapOp.rem k').key? = some k
        · rw [if_pos hkk] at h
          simp at h
          rw [h.1] at hk; simp [MapOp.key?] at hk
        · rw [if_neg hkk] at h
          cases h2 : mqReplace op k rest with
          | none => simp [h2] at h
          | some r2 => simp [h2] at h
      · rintro ⟨r, h⟩; simp at h

theorem baseOf_clear_head {s : AgentQ} {rest : List MapOp} (h : s.queue = .clear :: rest) :
    baseOf s = fun _ => none := by simp [baseOf, h]

theorem baseOf_other {s : AgentQ} (h : ¬ ∃ rest, s.queue = .clear :: rest) : baseOf s = s.rep := by
  unfold baseOf
  cases hq : s.queue with
  | nil => rfl
  | cons e rest =>
    cases e with
    | clear => exact absurd ⟨rest, hq⟩ h
    | upd k v => rfl
    | rem k => rfl

theorem baseOf_push_keyed (s : AgentQ) (c : KMap) (op : MapOp) (k : Nat) (hk : op.key? = some k) :
    baseOf { s with content := c, queue := mqPush s.queue op } = baseOf s := by
  by_cases h : ∃ rest, s.queue = .clear :: rest
  · obtain ⟨rest, hr⟩ := h
    obtain ⟨rest', hr'⟩ := (head_mqPush_keyed s.queue op k hk).mpr ⟨rest, hr⟩
    rw [baseOf_clear_head hr, baseOf_clear_head (s := { s with content := c, queue := mqPush s.queue op }) hr']
  · have h' : ¬ ∃ rest, mqPush s.queue op = .clear :: rest :=
      fun hh => h ((head_mqPush_keyed s.queue op k hk).mp hh)
    rw [baseOf_other h, baseOf_other (s := { s with content := c, queue := mqPush s.queue op }) h']

theorem ainv_push_keyed {s : AgentQ} (h : AInv s) (op : MapOp) (k : Nat) (hk : op.key? = some k) (v : Option Bytes)
    (hu : isUpd op = true → v ≠ none) (hr : isRem op = true → v = none) :
    AInv { s with content := setKey s.content k v, queue := mqPush s.queue op } := by
  refine ⟨wfq_mqPush _ _ h.wf, fun x => ?_⟩
  have hp := h.per x
  simp only []
  rw [findKey_mqPush_keyed s.queue op k hk x]
  by_cases hx : x = k
  · subst hx
    simp only [if_true, setKey]
    exact ⟨fun hh => by simpa using hu hh, fun hh => by simpa using hr hh⟩
  · simp only [hx, if_false]
    cases hf : findKey x s.queue with
    | some e =>
      rw [hf] at hp
      simp only [setKey, hx, if_false]
      exact hp
    | none =>
      rw [hf] at hp
      simp only []
      rw [baseOf_push_keyed s (setKey s.content k v) op k hk]
      simp only [setKey, hx, if_false]
      exact hp

theorem findKey_tail_of_ne {e : MapOp} {rest : List MapOp} {x : Nat} (h : e.key? ≠ some x) :
    findKey x (e :: rest) = findKey x rest := by simp [findKey, h]

theorem ainv_step {s : AgentQ} (h : AInv s) (op : AOp) : AInv (aStep s op) := by
  cases op with
  | update k v =>
    exact ainv_push_keyed h (.upd k []) k rfl (some v) (fun _ => by simp) (fun hh => by simp [isRem] at hh)
  | remove k =>
    simp only [aStep]
    cases hc : s.content k with
    | none => exact h
    | some v0 =>
      exact ainv_push_keyed h (.rem k) k rfl none (fun hh => by simp [isUpd] at hh) (fun _ => rfl)
  | clear =>
    simp only [aStep]
    refine ⟨wfq_mqPush s.queue .clear h.wf, fun x => ?_⟩
    simp [mqPush, MapOp.key?, findKey, baseOf]
  | pop =>
    cases hq : s.queue with
    | nil =>
      have : aStep s .pop = s := by simp [aStep, hq]
      rw [this]; exact h
    | cons e rest =>
      have hwf : WFQ (e :: rest) := hq ▸ h.wf
      have hwf' := wfq_tail hwf
      have hnc : NoClear rest := hwf.tail
      -- after the pop the head is not `clear`
      have hnohead : ∀ (s' : AgentQ), s'.queue = rest → baseOf s' = s'.rep := by
        intro s' hs'
        apply baseOf_other
        rintro ⟨r, hr⟩
        rw [hs'] at hr
        exact hnc .clear (by rw [hr]; exact List.mem_cons_self) rfl
      cases e with
      | clear =>
        have hres : aStep s .pop = { s with queue := rest, rep := fun _ => none } := by simp [aStep, hq]
        rw [hres]
        refine ⟨hwf', fun x => ?_⟩
        have hp := h.per x
        rw [hq] at hp
        have hfk : findKey x (MapOp.clear :: rest) = findKey x rest :=
          findKey_tail_of_ne (by simp [MapOp.key?])
        rw [hfk] at hp
        show match findKey x rest with
          | some e => (isUpd e = true → s.content x ≠ none) ∧ (isRem e = true → s.content x = none)
          | none => baseOf { s with queue := rest, rep := fun _ => none } x = s.content x
        cases hf : findKey x rest with
        | some e' => rw [hf] at hp; exact hp
        | none =>
          rw [hf] at hp
          simp only []
          rw [hnohead _ rfl]
          have hb : baseOf s x = none := by simp [baseOf, hq]
          rw [← hp, hb]
      | upd k v =>
        have hkeys := hwf.keys
        rw [keysOfQ_cons_some rest (show (MapOp.upd k v).key? = some k from rfl), List.nodup_cons] at hkeys
        have hpk := h.per k
        rw [hq] at hpk
        have hfk : findKey k (MapOp.upd k v :: rest) = some (.upd k v) := by simp [findKey, MapOp.key?]
        rw [hfk] at hpk
        have hcne : s.content k ≠ none := hpk.1 rfl
        cases hc : s.content k with
        | none => exact absurd hc hcne
        | some cv =>
          have hres : aStep s .pop = { s with queue := rest, rep := setKey s.rep k (some cv) } := by
            simp [aStep, hq, hc]
          rw [hres]
          refine ⟨hwf', fun x => ?_⟩
          have hp := h.per x
          rw [hq] at hp
          show match findKey x rest with
            | some e => (isUpd e = true → s.content x ≠ none) ∧ (isRem e = true → s.content x = none)
            | none => baseOf { s with queue := rest, rep := setKey s.rep k (some cv) } x = s.content x
          by_cases hx : x = k
          · subst hx
            rw [findKey_none_of_not_mem hkeys.1]
            simp only []
            rw [hnohead _ rfl]
            simp [setKey, hc]
          · have hfx : findKey x (MapOp.upd k v :: rest) = findKey x rest :=
              findKey_tail_of_ne (by simp [MapOp.key?]; exact fun hh => hx hh.symm)
            rw [hfx] at hp
            cases hf : findKey x rest with
            | some e' => rw [hf] at hp; exact hp
            | none =>
              rw [hf] at hp
              simp only []
              rw [hnohead _ rfl]
              have hb : baseOf s = s.rep := baseOf_other (by
                rintro ⟨r, hr⟩; rw [hq] at hr; simp at hr)
              rw [hb] at hp
              simp only [setKey, hx, if_false]
              exact hp
      | rem k =>
        have hkeys := hwf.keys
        rw [keysOfQ_cons_some rest (show (MapOp.rem k).key? = some k from rfl), List.nodup_cons] at hkeys
        have hpk := h.per k
        rw [hq] at hpk
        have hfk : findKey k (MapOp.rem k :: rest) = some (.rem k) := by simp [findKey, MapOp.key?]
        rw [hfk] at hpk
        have hcn : s.content k = none := hpk.2 rfl
        have hres : aStep s .pop = { s with queue := rest, rep := setKey s.rep k none } := by simp [aStep, hq]
        rw [hres]
        refine ⟨hwf', fun x => ?_⟩
        have hp := h.per x
        rw [hq] at hp
        show match findKey x rest with
          | some e => (isUpd e = true → s.content x ≠ none) ∧ (isRem e = true → s.content x = none)
          | none => baseOf { s with queue := rest, rep := setKey s.rep k none } x = s.content x
        by_cases hx : x = k
        · subst hx
          rw [findKey_none_of_not_mem hkeys.1]
          simp only []
          rw [hnohead _ rfl]
          simp [setKey, hcn]
        · have hfx : findKey x (MapOp.rem k :: rest) = findKey x rest :=
            findKey_tail_of_ne (by simp [MapOp.key?]; exact fun hh => hx hh.symm)
          rw [hfx] at hp
          cases hf : findKey x rest with
          | some e' => rw [hf] at hp; exact hp
          | none =>
            rw [hf] at hp
            simp only []
            rw [hnohead _ rfl]
            have hb : baseOf s = s.rep := baseOf_other (by
              rintro ⟨r, hr⟩; rw [hq] at hr; simp at hr)
            rw [hb] at hp
            simp only [setKey, hx, if_false]
            exact hp

theorem ainv_run {s : AgentQ} (h : AInv s) (ops : List AOp) : AInv (aRun s ops) := by
  induction ops generalizing s with
  | nil => exact h
  | cons op rest ih => exact ih (ainv_step h op)

end SwimVerif.WT
